(* C05 — finite signals end exactly once: exhaustion is exact, contagious, then silent.
   Only the property theorems: each is closed by [exact] of a lemma of the development
   (Signal/ExhaustProofs.v); Print Assumptions for each after the section.
   [stream s n] is the n-th frame yielded by s; [after n s] the state after n calls of next;
   [collect_until fuel s] runs s.until_exhausted() for at most fuel calls (frames, final state). *)
Require Import Floats.SpecFloat.
Require Import List ZArith Bool Arith.
From Flocq Require Import Core BinarySingleNaN.
From Dasp Require Import Base.Res Signal.Sig Signal.SigProofs Signal.ExhaustProofs Signal.SigExamples
  Signal.SigRun Signal.SigNormProofs Signal.SigRunNormProofs Signal.SigNormExamples.
Import ListNotations.
Local Open Scope nat_scope.

Section Statement.
(* every frame type, sample format, frame operation and user closure *)
Variables F Sm SS FS : Type.
Variable eqm : F.
Variable nch : nat.
Variable channels : F -> list Sm.
Variable of_samples : list Sm -> F.
Variable fmap : (Sm -> Sm) -> F -> F.
Variables f_add f_mul : F -> F -> F.
Variable f_scale : FS -> F -> F.
Variable f_offset : SS -> F -> F.
Variable to_signed : Sm -> SS.
Variable of_signed : SS -> Sm.
Variable ss_ltb : SS -> SS -> bool.
Variable ss_neg : SS -> SS.

Notation sig := (sig F Sm SS FS).
Notation next := (Sig.next F Sm SS FS eqm nch of_samples fmap f_add f_mul f_scale f_offset to_signed of_signed ss_ltb ss_neg).
Notation after := (Sig.after F Sm SS FS eqm nch of_samples fmap f_add f_mul f_scale f_offset to_signed of_signed ss_ltb ss_neg).
Notation stream := (Sig.stream F Sm SS FS eqm nch of_samples fmap f_add f_mul f_scale f_offset to_signed of_signed ss_ltb ss_neg).
Notation clip_sample := (Sig.clip_sample Sm SS to_signed of_signed ss_ltb ss_neg).
Notation until_next := (Sig.until_next F Sm SS FS eqm nch of_samples fmap f_add f_mul f_scale f_offset to_signed of_signed ss_ltb ss_neg).
Notation take_next := (Sig.take_next F Sm SS FS eqm nch of_samples fmap f_add f_mul f_scale f_offset to_signed of_signed ss_ltb ss_neg).
Notation collect_until := (Sig.collect_until F Sm SS FS eqm nch of_samples fmap f_add f_mul f_scale f_offset to_signed of_signed ss_ltb ss_neg).
Notation collect_take := (Sig.collect_take F Sm SS FS eqm nch of_samples fmap f_add f_mul f_scale f_offset to_signed of_signed ss_ltb ss_neg).
Notation next_sample := (Sig.next_sample F Sm SS FS eqm nch channels of_samples fmap f_add f_mul f_scale f_offset to_signed of_signed ss_ltb ss_neg).
Notation collect_samples := (Sig.collect_samples F Sm SS FS eqm nch channels of_samples fmap f_add f_mul f_scale f_offset to_signed of_signed ss_ltb ss_neg).
Notation live_len := (Sig.live_len F Sm SS FS nch).
Notation from_samples := (Sig.from_samples F Sm SS FS nch of_samples).
Notation mk := (ExhaustProofs.mk F Sm SS FS).
Notation frames_samples := (ExhaustProofs.frames_samples F Sm SS FS eqm nch channels of_samples fmap f_add f_mul f_scale f_offset to_signed of_signed ss_ltb ss_neg).
Notation unary := (ExhaustProofs.unary F SS FS).
Notation wrap_all := (ExhaustProofs.wrap_all F Sm SS FS).
Notation ufun_all := (ExhaustProofs.ufun_all F Sm SS FS fmap f_add f_mul f_scale f_offset to_signed of_signed ss_ltb ss_neg).

(* from_iter yields exactly the iterator's frames in order, then equilibrium forever; it reports
   exhaustion exactly when none remain: is_exhausted is still false before the call of next that
   returns the last frame and true after it and for ever (true from the start for an empty iterator);
   the iterator behind it has been asked min(n, len) + 1 times after n calls (the look-ahead), never
   again after its first None *)
Theorem c05_from_iter : forall id (l : list F) n,
  stream (from_iter id l) n = nth n l eqm /\
  exhausted (after n (from_iter id l : sig)) = (length l <=? n) /\
  leaf_counts (after n (from_iter id l : sig)) = [(id, n, S (Nat.min n (length l)))].
Proof.
  intros id l n. split; [|split].
  - exact (from_iter_stream F Sm SS FS eqm nch of_samples fmap f_add f_mul f_scale f_offset to_signed of_signed ss_ltb ss_neg id l n).
  - exact (from_iter_exhausted F Sm SS FS eqm nch of_samples fmap f_add f_mul f_scale f_offset to_signed of_signed ss_ltb ss_neg id l n).
  - exact (from_iter_counts F Sm SS FS eqm nch of_samples fmap f_add f_mul f_scale f_offset to_signed of_signed ss_ltb ss_neg id l n).
Qed.

(* from_interleaved_samples_iter: the complete frames only (length l / CHANNELS of them; the trailing
   length l mod CHANNELS samples are dropped), then equilibrium; exhausted exactly when none remain *)
Theorem c05_from_samples : 0 < nch -> forall id (l : list Sm) n,
  stream (from_samples id l) n =
    (if n <? length l / nch then of_samples (firstn nch (skipn (n * nch) l)) else eqm) /\
  exhausted (after n (from_samples id l)) = (length l / nch <=? n).
Proof.
  intros Hn id l n. split.
  - exact (from_samples_stream F Sm SS FS eqm nch of_samples fmap f_add f_mul f_scale f_offset to_signed of_signed ss_ltb ss_neg Hn id l n).
  - exact (from_samples_exhausted F Sm SS FS eqm nch of_samples fmap f_add f_mul f_scale f_offset to_signed of_signed ss_ltb ss_neg Hn id l n).
Qed.

(* exhaustion is forwarded by every unary adaptor, OR-ed by every combining adaptor, held back by a
   delay that still emits silence; the infinite sources never report it *)
Theorem c05_exhausted_rules :
  (forall id f s, exhausted (Map id f s : sig) = exhausted s) /\
  (forall x s, exhausted (ScaleAmp x s : sig) = exhausted s) /\
  (forall x s, exhausted (OffsetAmp x s : sig) = exhausted s) /\
  (forall x s, exhausted (ScaleAmpPerChannel x s : sig) = exhausted s) /\
  (forall x s, exhausted (OffsetAmpPerChannel x s : sig) = exhausted s) /\
  (forall t s, exhausted (ClipAmp t s : sig) = exhausted s) /\
  (forall id s, exhausted (Inspect id s : sig) = exhausted s) /\
  (forall s, exhausted (ByRef s : sig) = exhausted s) /\
  (forall id f a b, exhausted (ZipMap id f a b : sig) = exhausted a || exhausted b) /\
  (forall a b, exhausted (AddAmp a b : sig) = exhausted a || exhausted b) /\
  (forall a b, exhausted (MulAmp a b : sig) = exhausted a || exhausted b) /\
  (forall k s, exhausted (Delay k s : sig) = (k =? 0) && exhausted s) /\
  exhausted (Equilibrium : sig) = false /\
  (forall id c p, exhausted (Gen id c p : sig) = false) /\
  (forall id g n, exhausted (GenMut id g n : sig) = false).
Proof. exact (exhausted_rules F Sm SS FS). Qed.

(* every adaptor tree reports exhaustion after exactly live_len frames (min over combining nodes,
   k + ... over delays, never if every source is infinite) ... *)
Theorem c05_exhausted_exact : 0 < nch -> forall (s : sig) n,
  exhausted (after n s) = match live_len s with Some m => m <=? n | None => false end.
Proof. exact (exhausted_after F Sm SS FS eqm nch of_samples fmap f_add f_mul f_scale f_offset to_signed of_signed ss_ltb ss_neg). Qed.

(* ... and once exhausted stays exhausted, whatever number of further calls *)
Theorem c05_exhausted_monotone : 0 < nch -> forall (s : sig) n, exhausted s = true -> exhausted (after n s) = true.
Proof. exact (exhausted_monotone F Sm SS FS eqm nch of_samples fmap f_add f_mul f_scale f_offset to_signed of_signed ss_ltb ss_neg). Qed.

(* until_exhausted yields exactly the first live_len frames of the signal ... *)
Theorem c05_until_exhausted : 0 < nch -> forall fuel (s : sig) m, live_len s = Some m -> m <= fuel ->
  collect_until fuel s = (map (stream s) (seq 0 m), after m s).
Proof. exact (until_exhausted_frames F Sm SS FS eqm nch of_samples fmap f_add f_mul f_scale f_offset to_signed of_signed ss_ltb ss_neg). Qed.

(* ... then None for good, without pulling from the signal again *)
Theorem c05_until_exhausted_done : 0 < nch -> forall (s : sig) m, live_len s = Some m ->
  until_next (after m s) = (None, after m s) /\
  forall fuel, collect_until fuel (after m s) = ([], after m s).
Proof. exact (until_exhausted_done F Sm SS FS eqm nch of_samples fmap f_add f_mul f_scale f_offset to_signed of_signed ss_ltb ss_neg). Qed.

(* a tree whose every path ends in an infinite source is never stopped *)
Theorem c05_until_exhausted_infinite : 0 < nch -> forall fuel (s : sig), live_len s = None ->
  collect_until fuel s = (map (stream s) (seq 0 fuel), after fuel s).
Proof. exact (until_exhausted_infinite F Sm SS FS eqm nch of_samples fmap f_add f_mul f_scale f_offset to_signed of_signed ss_ltb ss_neg). Qed.

(* take(n) yields exactly the first n frames (equilibrium padding included), then None *)
Theorem c05_take : forall fuel n (s : sig), n <= fuel ->
  collect_take fuel (n, s) = (map (stream s) (seq 0 n), (0, after n s)) /\
  length (fst (collect_take fuel (n, s))) = n /\
  take_next (snd (collect_take fuel (n, s))) = (None, (0, after n s)).
Proof.
  intros fuel n s H. split.
  - exact (take_frames F Sm SS FS eqm nch of_samples fmap f_add f_mul f_scale f_offset to_signed of_signed ss_ltb ss_neg fuel n s H).
  - exact (take_length F Sm SS FS eqm nch of_samples fmap f_add f_mul f_scale f_offset to_signed of_signed ss_ltb ss_neg fuel n s H).
Qed.

(* the interleaved-sample iterator yields exactly the channels of the frames until_exhausted yields,
   concatenated in channel order (frames x channels samples), then None; its frame-end recursion
   never runs out of the modelled fuel when frames have at least one channel *)
Theorem c05_interleaved : 0 < nch -> (forall f, channels f <> []) ->
  forall fuel fuel' (s : sig) m, live_len s = Some m -> m <= fuel' -> length (frames_samples s m) < fuel ->
  collect_samples fuel (mk s None) =
    Ok (concat (map channels (fst (collect_until fuel' s))), mk (snd (collect_until fuel' s)) None) /\
  next_sample 2 (mk (after m s) None) = Ok (None, mk (after m s) None).
Proof. exact (interleaved_is_concat F Sm SS FS eqm nch channels of_samples fmap f_add f_mul f_scale f_offset to_signed of_signed ss_ltb ss_neg). Qed.

Theorem c05_interleaved_count : 0 < nch -> forall (s : sig) m, (forall f, length (channels f) = nch) ->
  length (frames_samples s m) = m * nch.
Proof. exact (interleaved_count F Sm SS FS eqm nch channels of_samples fmap f_add f_mul f_scale f_offset to_signed of_signed ss_ltb ss_neg). Qed.

(* signal::lift over any chain of length-preserving (pointwise) adaptors yields one mapped frame per
   input frame and then stops; over an arbitrary closure it yields live_len frames and stops for good *)
Theorem c05_lift : 0 < nch -> forall (us : list unary) id (l : list F) fuel, length l <= fuel ->
  collect_until fuel (lift F Sm SS FS id l (wrap_all us)) =
    (map (ufun_all us) l, after (length l) (wrap_all us (from_iter id l))).
Proof. exact (lift_pointwise F Sm SS FS eqm nch of_samples fmap f_add f_mul f_scale f_offset to_signed of_signed ss_ltb ss_neg). Qed.

Theorem c05_lift_general : 0 < nch -> forall (f : sig -> sig) id (l : list F) fuel m,
  live_len (f (from_iter id l)) = Some m -> m <= fuel ->
  length (fst (collect_until fuel (lift F Sm SS FS id l f))) = m /\
  until_next (snd (collect_until fuel (lift F Sm SS FS id l f))) = (None, snd (collect_until fuel (lift F Sm SS FS id l f))).
Proof. exact (lift_general F Sm SS FS eqm nch of_samples fmap f_add f_mul f_scale f_offset to_signed of_signed ss_ltb ss_neg). Qed.

(* a delay that outlasts the run is live throughout it, whatever its length: is_exhausted, the frames and the pull
   counters of a tree holding Delay k are those of the same tree holding Delay k', for any k, k' > m, during m calls
   (so until_exhausted over delay(2^32) is judged by running delay(m + 1)) *)
Theorem c05_delay_beyond_run_live : forall (m : nat) (p : path) (t : sig) k k' s,
  sub_at p t = Some (Delay k s) -> m < k -> m < k' ->
  forall n, n <= m ->
    exhausted (after n (subst_at p t (Delay k' s))) = exhausted (after n t) /\
    stream (subst_at p t (Delay k' s)) n = stream t n /\
    leaf_counts (after n (subst_at p t (Delay k' s))) = leaf_counts (after n t).
Proof.
  intros m p t k k' s H Hk Hk' n Hn.
  destruct (delay_clamp_sound F Sm SS FS eqm nch of_samples fmap f_add f_mul f_scale f_offset to_signed of_signed ss_ltb ss_neg
              m p t k k' s H Hk Hk' n Hn) as [H1 [_ [H3 [H4 _]]]].
  auto.
Qed.

(* take(n) with a count that outlasts the run: the first m <= n items are the first m frames of the signal whatever n
   is (2^32, usize::MAX ...), n - m are left (what size_hint / len report), the signal has been advanced exactly m times *)
Theorem c05_take_beyond_run : forall m n (s : sig), m <= n ->
  collect_take m (n, s) = (map (stream s) (seq 0 m), (n - m, after m s)).
Proof. exact (take_prefix F Sm SS FS eqm nch of_samples fmap f_add f_mul f_scale f_offset to_signed of_signed ss_ltb ss_neg). Qed.

End Statement.

(* take(n) of the executable model counts in Z (so that take(2^32), take(usize::MAX) run as they are): one call of its
   next is one call of the proved Sig.take_next on the nat counter Z.to_nat n, for every instance, n >= 0 and signal *)
Theorem c05_take_counter : forall (OP : zops) (n : Z) (s : zsig), (0 <= n)%Z ->
  it_step OP (ItTake n s) =
  match take_next zframe Z Z Z (o_eqm OP) (o_nch OP) (fun l => l) z_fmap (o_add OP) (o_mul OP) (o_scale OP)
                  (o_offset OP) (o_tos OP) (o_ofs OP) (o_ltb OP) (o_neg OP) (Z.to_nat n, s) with
  | (Some x, (n', s')) => (Some (13%Z :: enc_frame OP x), ztrace OP s, ItTake (Z.of_nat n') s')
  | (None, _) => (None, [], ItTake n s)
  end.
Proof. exact take_counter. Qed.

Print Assumptions c05_from_iter.
Print Assumptions c05_from_samples.
Print Assumptions c05_exhausted_rules.
Print Assumptions c05_exhausted_exact.
Print Assumptions c05_exhausted_monotone.
Print Assumptions c05_until_exhausted.
Print Assumptions c05_until_exhausted_done.
Print Assumptions c05_until_exhausted_infinite.
Print Assumptions c05_take.
Print Assumptions c05_interleaved.
Print Assumptions c05_interleaved_count.
Print Assumptions c05_lift.
Print Assumptions c05_lift_general.
Print Assumptions c05_delay_beyond_run_live.
Print Assumptions c05_take_beyond_run.
Print Assumptions c05_take_counter.
