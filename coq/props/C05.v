(* placeholder, replaced below *)
Require Import List.
From Dasp Require Import Signal.Sig.
Theorem c05_placeholder : True. Proof. exact I. Qed.
Print Assumptions c05_placeholder.
