(* C02 -- Float <-> integer sample conversion is exact scaling, truncating, within [-1, 1].
   Only the property theorems: each is closed by [exact] of a lemma of the development,
   followed by Print Assumptions.

   [to_sample_f32_of_int m i z], [to_sample_int_of_f32 m i f], [to_sample_f32_f64 m x] (and the f64
   twins) are the Gallina translations (gen/ConvFloatGen.v, produced by translate/conv2coq.py from
   dasp_sample/src/conv.rs on every run) of what `Sample::to_sample` dispatches to; floats are Flocq
   BinarySingleNaN binary32/binary64 with the operations of Base/Float.v; m = Checked is a build with
   overflow checks (debug), m = Wrapping one without (release) -- every theorem holds for both.
   [= Ok v] means: returns v, no panic.  Notation of the statements (Sample/ConvFloatSpec.v):
     amp i z        the signed amplitude of z in format i (z minus half range for unsigned formats)
     fscale i       2^(bits i - 1) as a real
     rndNE p e x    x rounded to nearest, ties to even, into the binary format of precision p
                    (24: binary32, 53: binary64; minimal exponent 3 - e - p, i.e. with subnormals)
     in_domain f    f finite and -1 <= f < 1  (the documented domain, conv.rs:10-14)
     f2i_val i f    Ztrunc (f * 2^(bits i - 1)) + (0 | half range for unsigned i) *)
Require Import Floats.SpecFloat.
Require Import ZArith Bool Reals.
From Flocq Require Import Core BinarySingleNaN.
From Dasp Require Import Base.Res Base.Float Sample.Rint Sample.ConvSpec Sample.ConvFloatSpec
  Sample.ConvFloatTheorems Sample.ConvFloatExamples.
From DaspGen Require Import FormatTable ConvGen ConvCorrect ConvFloatGen ConvFloatCorrect.
Open Scope Z_scope.

(* ================================ f32 ================================ *)

(* integer -> f32, all 12 formats, every in-range value: the result is the finite float
   round_NE(amplitude) / 2^(bits-1) -- ONE rounding (of the integer, to the 24-bit mantissa), the scaling
   by the power of two is exact -- which is the amplitude divided by 2^(bits-1) CORRECTLY ROUNDED *)
Theorem c02_to_f32 : forall (m : mode) (i : fmt) (z : Z), in_range i z ->
  exists f, to_sample_f32_of_int m i z = Ok f /\ is_finite f = true /\
    B2R f = (rndNE 24 128 (IZR (amp i z)) / fscale i)%R /\
    B2R f = rndNE 24 128 (IZR (amp i z) / fscale i).
Proof. exact to_f32_value. Qed.
Print Assumptions c02_to_f32.

(* always within [-1.0, 1.0] (both ends are reached: MIN -> -1.0; u64::MAX -> +1.0 in f32, see Examples) *)
Theorem c02_to_f32_range : forall (m : mode) (i : fmt) (z : Z) (f : F32.t), in_range i z ->
  to_sample_f32_of_int m i z = Ok f -> (-1 <= B2R f <= 1)%R.
Proof. exact to_f32_range. Qed.
Print Assumptions c02_to_f32_range.

(* order-preserving *)
Theorem c02_to_f32_monotone : forall (m : mode) (i : fmt) (z1 z2 : Z) (f1 f2 : F32.t),
  in_range i z1 -> in_range i z2 -> z1 <= z2 ->
  to_sample_f32_of_int m i z1 = Ok f1 -> to_sample_f32_of_int m i z2 = Ok f2 -> (B2R f1 <= B2R f2)%R.
Proof. exact to_f32_monotone. Qed.
Print Assumptions c02_to_f32_monotone.

(* equilibrium -> +0.0 (the positive zero, structurally) *)
Theorem c02_to_f32_equilibrium : forall (m : mode) (i : fmt),
  to_sample_f32_of_int m i (equilibrium i) = Ok (B754_zero false).
Proof. exact to_f32_equilibrium. Qed.
Print Assumptions c02_to_f32_equilibrium.

(* exact whenever the integer width fits the mantissa *)
Theorem c02_to_f32_exact : forall (m : mode) (i : fmt) (z : Z) (f : F32.t), bits i <= 24 -> in_range i z ->
  to_sample_f32_of_int m i z = Ok f -> B2R f = (IZR (amp i z) / fscale i)%R.
Proof. exact to_f32_exact. Qed.
Print Assumptions c02_to_f32_exact.

(* f32 -> integer, all 12 formats, every finite float with -1 <= f < 1: the float times 2^(bits-1)
   truncated toward zero, re-offset for unsigned formats; no panic in either build profile *)
Theorem c02_of_f32 : forall (m : mode) (i : fmt) (f : F32.t), in_domain 24 128 f ->
  to_sample_int_of_f32 m i f = Ok (Ztrunc (B2R f * fscale i) + (if signed i then 0 else half i)).
Proof. exact of_f32_value. Qed.
Print Assumptions c02_of_f32.

(* always a valid value of the target format (what new_unchecked relies on for 24/48 bits) *)
Theorem c02_of_f32_in_range : forall (m : mode) (i : fmt) (f : F32.t) (v : Z), in_domain 24 128 f ->
  to_sample_int_of_f32 m i f = Ok v -> in_range i v.
Proof. exact of_f32_in_range. Qed.
Print Assumptions c02_of_f32_in_range.

Theorem c02_of_f32_monotone : forall (m : mode) (i : fmt) (f1 f2 : F32.t) (v1 v2 : Z),
  in_domain 24 128 f1 -> in_domain 24 128 f2 -> (B2R f1 <= B2R f2)%R ->
  to_sample_int_of_f32 m i f1 = Ok v1 -> to_sample_int_of_f32 m i f2 = Ok v2 -> v1 <= v2.
Proof. exact of_f32_monotone. Qed.
Print Assumptions c02_of_f32_monotone.

(* 0.0 and -0.0 -> equilibrium *)
Theorem c02_of_f32_zero : forall (m : mode) (i : fmt) (f : F32.t), is_finite f = true -> B2R f = 0%R ->
  to_sample_int_of_f32 m i f = Ok (equilibrium i).
Proof. exact of_f32_zero. Qed.
Print Assumptions c02_of_f32_zero.

(* -1.0 -> the minimum *)
Theorem c02_of_f32_minus_one : forall (m : mode) (i : fmt) (f : F32.t), is_finite f = true -> B2R f = (-1)%R ->
  to_sample_int_of_f32 m i f = Ok (fmin i).
Proof. exact of_f32_minus_one. Qed.
Print Assumptions c02_of_f32_minus_one.

(* exactly inverts the integer -> f32 conversion wherever that one is exact (any mix of build profiles) *)
Theorem c02_roundtrip_f32 : forall (m m' : mode) (i : fmt) (z : Z), bits i <= 24 -> in_range i z ->
  bind (to_sample_f32_of_int m i z) (to_sample_int_of_f32 m' i) = Ok z.
Proof. exact roundtrip_f32. Qed.
Print Assumptions c02_roundtrip_f32.

(* ... and, value by value, for every integer whose conversion happened to be exact although its format is
   wider than the mantissa (e.g. i32 3 * 2^24 -> f32) *)
Theorem c02_roundtrip_f32_pointwise : forall (m m' : mode) (i : fmt) (z : Z) (f : F32.t), in_range i z ->
  to_sample_f32_of_int m i z = Ok f -> B2R f = (IZR (amp i z) / fscale i)%R ->
  to_sample_int_of_f32 m' i f = Ok z.
Proof. exact roundtrip_f32_pointwise. Qed.
Print Assumptions c02_roundtrip_f32_pointwise.

(* ================================ f64 ================================ *)

(* integer -> f64, all 12 formats, every in-range value: the result is the finite float
   round_NE(amplitude) / 2^(bits-1) -- ONE rounding (of the integer, to the 53-bit mantissa), the scaling
   by the power of two is exact -- which is the amplitude divided by 2^(bits-1) CORRECTLY ROUNDED *)
Theorem c02_to_f64 : forall (m : mode) (i : fmt) (z : Z), in_range i z ->
  exists f, to_sample_f64_of_int m i z = Ok f /\ is_finite f = true /\
    B2R f = (rndNE 53 1024 (IZR (amp i z)) / fscale i)%R /\
    B2R f = rndNE 53 1024 (IZR (amp i z) / fscale i).
Proof. exact to_f64_value. Qed.
Print Assumptions c02_to_f64.

(* always within [-1.0, 1.0] (both ends are reached: MIN -> -1.0; u64::MAX -> +1.0 in f32, see Examples) *)
Theorem c02_to_f64_range : forall (m : mode) (i : fmt) (z : Z) (f : F64.t), in_range i z ->
  to_sample_f64_of_int m i z = Ok f -> (-1 <= B2R f <= 1)%R.
Proof. exact to_f64_range. Qed.
Print Assumptions c02_to_f64_range.

(* order-preserving *)
Theorem c02_to_f64_monotone : forall (m : mode) (i : fmt) (z1 z2 : Z) (f1 f2 : F64.t),
  in_range i z1 -> in_range i z2 -> z1 <= z2 ->
  to_sample_f64_of_int m i z1 = Ok f1 -> to_sample_f64_of_int m i z2 = Ok f2 -> (B2R f1 <= B2R f2)%R.
Proof. exact to_f64_monotone. Qed.
Print Assumptions c02_to_f64_monotone.

(* equilibrium -> +0.0 (the positive zero, structurally) *)
Theorem c02_to_f64_equilibrium : forall (m : mode) (i : fmt),
  to_sample_f64_of_int m i (equilibrium i) = Ok (B754_zero false).
Proof. exact to_f64_equilibrium. Qed.
Print Assumptions c02_to_f64_equilibrium.

(* exact whenever the integer width fits the mantissa *)
Theorem c02_to_f64_exact : forall (m : mode) (i : fmt) (z : Z) (f : F64.t), bits i <= 53 -> in_range i z ->
  to_sample_f64_of_int m i z = Ok f -> B2R f = (IZR (amp i z) / fscale i)%R.
Proof. exact to_f64_exact. Qed.
Print Assumptions c02_to_f64_exact.

(* f64 -> integer, all 12 formats, every finite float with -1 <= f < 1: the float times 2^(bits-1)
   truncated toward zero, re-offset for unsigned formats; no panic in either build profile *)
Theorem c02_of_f64 : forall (m : mode) (i : fmt) (f : F64.t), in_domain 53 1024 f ->
  to_sample_int_of_f64 m i f = Ok (Ztrunc (B2R f * fscale i) + (if signed i then 0 else half i)).
Proof. exact of_f64_value. Qed.
Print Assumptions c02_of_f64.

(* always a valid value of the target format (what new_unchecked relies on for 24/48 bits) *)
Theorem c02_of_f64_in_range : forall (m : mode) (i : fmt) (f : F64.t) (v : Z), in_domain 53 1024 f ->
  to_sample_int_of_f64 m i f = Ok v -> in_range i v.
Proof. exact of_f64_in_range. Qed.
Print Assumptions c02_of_f64_in_range.

Theorem c02_of_f64_monotone : forall (m : mode) (i : fmt) (f1 f2 : F64.t) (v1 v2 : Z),
  in_domain 53 1024 f1 -> in_domain 53 1024 f2 -> (B2R f1 <= B2R f2)%R ->
  to_sample_int_of_f64 m i f1 = Ok v1 -> to_sample_int_of_f64 m i f2 = Ok v2 -> v1 <= v2.
Proof. exact of_f64_monotone. Qed.
Print Assumptions c02_of_f64_monotone.

(* 0.0 and -0.0 -> equilibrium *)
Theorem c02_of_f64_zero : forall (m : mode) (i : fmt) (f : F64.t), is_finite f = true -> B2R f = 0%R ->
  to_sample_int_of_f64 m i f = Ok (equilibrium i).
Proof. exact of_f64_zero. Qed.
Print Assumptions c02_of_f64_zero.

(* -1.0 -> the minimum *)
Theorem c02_of_f64_minus_one : forall (m : mode) (i : fmt) (f : F64.t), is_finite f = true -> B2R f = (-1)%R ->
  to_sample_int_of_f64 m i f = Ok (fmin i).
Proof. exact of_f64_minus_one. Qed.
Print Assumptions c02_of_f64_minus_one.

(* exactly inverts the integer -> f64 conversion wherever that one is exact (any mix of build profiles) *)
Theorem c02_roundtrip_f64 : forall (m m' : mode) (i : fmt) (z : Z), bits i <= 53 -> in_range i z ->
  bind (to_sample_f64_of_int m i z) (to_sample_int_of_f64 m' i) = Ok z.
Proof. exact roundtrip_f64. Qed.
Print Assumptions c02_roundtrip_f64.

(* ... and, value by value, for every integer whose conversion happened to be exact although its format is
   wider than the mantissa (e.g. i32 3 * 2^24 -> f32) *)
Theorem c02_roundtrip_f64_pointwise : forall (m m' : mode) (i : fmt) (z : Z) (f : F64.t), in_range i z ->
  to_sample_f64_of_int m i z = Ok f -> B2R f = (IZR (amp i z) / fscale i)%R ->
  to_sample_int_of_f64 m' i f = Ok z.
Proof. exact roundtrip_f64_pointwise. Qed.
Print Assumptions c02_roundtrip_f64_pointwise.

(* [in_range], [fmin], [equilibrium], [signed] above are the specification's; they are the formats as the
   source defines them (types.rs MIN/MAX of I24/U24/I48/U48, the primitive ranges, lib.rs EQUILIBRIUM/Signed) *)
Theorem c02_format_table : forall f : fmt,
  src_min f = fmin f /\ src_max f = fmax f /\ src_equilibrium f = equilibrium f /\ src_signed f = signed f /\
  tmin (src_rep f) <= fmin f /\ fmax f <= tmax (src_rep f).
Proof. exact format_table_ok. Qed.
Print Assumptions c02_format_table.

(* ================================ f32 <-> f64 ================================ *)

(* f32 -> f64 is exact: finite values keep value and sign (so -0.0 -> -0.0), NaN -> NaN, +-inf -> +-inf *)
Theorem c02_f32_f64_exact : forall (m : mode) (x : F32.t),
  exists y, to_sample_f32_f64 m x = Ok y /\
    (is_finite x = true -> is_finite y = true /\ B2R y = B2R x /\ Bsign y = Bsign x) /\
    (x = B754_nan -> y = B754_nan) /\ (forall s, x = B754_infinity s -> y = B754_infinity s).
Proof. exact f32_f64_exact. Qed.
Print Assumptions c02_f32_f64_exact.

(* f64 -> f32 is the correctly rounded value: round to nearest, ties to even, into binary32 (gradual
   underflow included) when that is below 2^128, else the infinity of the same sign; sign kept
   (a negative value that underflows gives -0.0); NaN -> NaN, +-inf -> +-inf.  This is Flocq's
   specification of rounding a real into the format (binary_normalize_correct). *)
Theorem c02_f64_f32_rounded : forall (m : mode) (x : F64.t),
  exists y, to_sample_f64_f32 m x = Ok y /\
    (is_finite x = true ->
       if Rlt_bool (Rabs (rndNE 24 128 (B2R x))) (bpow radix2 128)
       then B2R y = rndNE 24 128 (B2R x) /\ is_finite y = true /\ Bsign y = Bsign x
       else y = B754_infinity (Bsign x)) /\
    (x = B754_nan -> y = B754_nan) /\ (forall s, x = B754_infinity s -> y = B754_infinity s).
Proof. exact f64_f32_rounded. Qed.
Print Assumptions c02_f64_f32_rounded.

(* consequence: f32 -> f64 -> f32 returns the value it started from *)
Theorem c02_f32_f64_f32 : forall (m m' : mode) (x : F32.t), is_finite x = true ->
  exists y z, to_sample_f32_f64 m x = Ok y /\ to_sample_f64_f32 m' y = Ok z /\ B2R z = B2R x /\ is_finite z = true.
Proof. exact f64_f32_of_f32. Qed.
Print Assumptions c02_f32_f64_f32.

(* the same float format (f32 -> f32, f64 -> f64: the blanket `impl<S> FromSample<S> for S`): the value itself *)
Theorem c02_same_format : forall m : mode,
  (forall x : F32.t, to_sample_f32_f32 m x = Ok x) /\ (forall x : F64.t, to_sample_f64_f64 m x = Ok x).
Proof. exact float_same_format. Qed.
Print Assumptions c02_same_format.
