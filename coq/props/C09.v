(* C09 — Graph processing runs exactly the upstream subgraph, once each, inputs first.
   Only the property theorems: each is closed by [exact] of a lemma of the development,
   followed by Print Assumptions.

   Vocabulary (Graph/Dfs.v, Graph/Process.v, Graph/ProcessSpec.v):
     graph W        node slots (None = vacant StableGraph slot), edge list in insertion order
     wf g           every edge joins live nodes (maintained by add_node/add_edge/remove_node)
     process        the model of dasp_graph::process over petgraph's DfsPostOrder, for an
                    arbitrary node type: [bufs w] = the buffers an Input to the node refers to,
                    [nproc w ins] = Node::process given the buffers its inputs show
     log            the invocations in call order: who, which nodes the inputs refer to, what they show
     upstream g o v v has a directed path (possibly empty) to o
   All statements quantify over every multigraph (cycles, self-loops, parallel edges,
   vacancies), every node type, every output node and every prior processor state. *)
Require Import List Arith Relations.
From Dasp Require Import Base.Res Graph.Dfs Graph.Process Graph.ProcessSpec Graph.DfsProofs
  Graph.ProcessProofs Graph.EvalProofs Graph.ExtraProofs Graph.FuelBound Graph.ProcessPanic
  Graph.ProcessPanicProofs Graph.GraphExamples Graph.NodeData Graph.NodeDataProofs.
Import ListNotations.

(* the call returns: no panic, no fuel exhaustion of the modelled loops *)
Theorem c09_terminates : forall (W B : Type) (bufs : W -> B) (nproc : W -> list B -> W)
  (p : processor) (g : graph W) (out : nat), wf g -> live g out = true ->
  exists p' g' log, process bufs nproc p g out = Ok (p', g', log).
Proof. exact @process_terminates. Qed.
Print Assumptions c09_terminates.

(* the fuel the model gives its two loops (proved sufficient above) is linear in the graph *)
Theorem c09_fuel_bound : forall (W : Type) (g : graph W),
  fuel_of g <= 2 + length (slots g) + length (edges g).
Proof. exact @fuel_bound. Qed.
Print Assumptions c09_fuel_bound.

(* the invoked nodes are exactly the nodes with a path to the output node (itself included) *)
Theorem c09_visits_exactly_upstream : forall (W B : Type) (bufs : W -> B) (nproc : W -> list B -> W)
  (p : processor) (g : graph W) (out : nat) p' g' log, wf g -> live g out = true ->
  process bufs nproc p g out = Ok (p', g', log) ->
  forall v, In v (map (@who B) log) <-> upstream g out v.
Proof. intros W B bufs nproc p g out p' g' log Hwf Ho Hp. exact (proj1 (process_order bufs nproc p g out p' g' log Hwf Ho Hp)). Qed.
Print Assumptions c09_visits_exactly_upstream.

(* ... each exactly once *)
Theorem c09_once : forall (W B : Type) (bufs : W -> B) (nproc : W -> list B -> W)
  (p : processor) (g : graph W) (out : nat) p' g' log, wf g -> live g out = true ->
  process bufs nproc p g out = Ok (p', g', log) ->
  NoDup (map (@who B) log).
Proof. intros W B bufs nproc p g out p' g' log Hwf Ho Hp. exact (proj1 (proj2 (process_order bufs nproc p g out p' g' log Hwf Ho Hp))). Qed.
Print Assumptions c09_once.

(* the run is the successive invocation of the logged nodes (nothing else changes the graph),
   and each invocation gets one input per incoming edge from another node, in petgraph's
   order (newest edge first), never its own buffers, each showing the feeding node's
   buffers as they are at that moment *)
Theorem c09_inputs : forall (W B : Type) (bufs : W -> B) (nproc : W -> list B -> W)
  (p : processor) (g : graph W) (out : nat) p' g' log, wf g -> live g out = true ->
  process bufs nproc p g out = Ok (p', g', log) ->
  (g', log) = spec_run bufs nproc g (map (@who B) log) /\
  forall L1 i L2, log = L1 ++ i :: L2 ->
    from i = ins g (who i) /\ ~ In (who i) (from i) /\
    (forall u, count_occ Nat.eq_dec (from i) u =
               if u =? who i then 0 else count_occ pair_eq_dec (edges g) (u, who i)) /\
    map Some (seen i) =
    map (fun u => option_map bufs (weight (fst (spec_run bufs nproc g (map (@who B) L1))) u)) (from i).
Proof. exact @process_inputs. Qed.
Print Assumptions c09_inputs.

(* acyclic upstream subgraph (self-loops aside: they are never followed nor presented):
   every node is invoked after all the nodes that feed it *)
Theorem c09_postorder : forall (W B : Type) (bufs : W -> B) (nproc : W -> list B -> W)
  (p : processor) (g : graph W) (out : nat) p' g' log, wf g -> live g out = true ->
  process bufs nproc p g out = Ok (p', g', log) ->
  acyclic_upstream g out ->
  forall A v Bt, map (@who B) log = A ++ v :: Bt -> forall u, edge g u v -> u <> v -> In u A.
Proof. intros W B bufs nproc p g out p' g' log Hwf Ho Hp. exact (proj1 (proj2 (proj2 (process_order bufs nproc p g out p' g' log Hwf Ho Hp)))). Qed.
Print Assumptions c09_postorder.

(* ... so the graph after the call is the functional evaluation: every upstream node holds
   [eval]: its initial state processed once on the evaluated buffers of its feeding nodes;
   every other node is untouched.  (No purity needed: each node runs exactly once.) *)
Theorem c09_functional_stateful : forall (W B : Type) (bufs : W -> B) (nproc : W -> list B -> W)
  (p : processor) (g : graph W) (out : nat) p' g' log, wf g -> live g out = true ->
  acyclic_upstream g out ->
  process bufs nproc p g out = Ok (p', g', log) ->
  (forall v, upstream g out v -> weight g' v = eval bufs nproc g (length (slots g)) v) /\
  (forall v, ~ upstream g out v -> weight g' v = weight g v).
Proof. exact @process_functional. Qed.
Print Assumptions c09_functional_stateful.

(* pure nodes (the buffers written are a function f of a key of the node and of the inputs):
   the output buffers are the evaluation of the graph as an expression over f *)
Theorem c09_functional : forall (W B : Type) (bufs : W -> B) (nproc : W -> list B -> W)
  (K : Type) (key : W -> K) (f : K -> list B -> B), pure_nodes bufs nproc key f ->
  forall (p : processor) (g : graph W) (out : nat) p' g' log, wf g -> live g out = true ->
  acyclic_upstream g out ->
  process bufs nproc p g out = Ok (p', g', log) ->
  forall v, upstream g out v ->
    option_map bufs (weight g' v) = peval bufs key f g (length (slots g)) v.
Proof. exact @process_functional_pure. Qed.
Print Assumptions c09_functional.

(* a processor that was used before (any stack / discovered / finished content, any bit-set
   length) produces the same graph and the same invocations as any other, e.g. a new one *)
Theorem c09_reuse : forall (W B : Type) (bufs : W -> B) (nproc : W -> list B -> W)
  (p1 p2 : processor) (g : graph W) (out : nat), wf g -> live g out = true ->
  outcome (process bufs nproc p1 g out) = outcome (process bufs nproc p2 g out).
Proof. exact @process_reuse. Qed.
Print Assumptions c09_reuse.

(* Node panics (Graph/ProcessPanic.v: the same loops with the `inputs` vector as processor state,
   cleared before each node's collection, and nodes that may panic inside Node::process, the
   unwinding being caught by the host).  When no node panics this is the model above ... *)
Theorem c09_panic_model_agrees : forall (W B : Type) (bufs : W -> B) (nproc : W -> list B -> W)
  (nfail : W -> list B -> option W), (forall w i, nfail w i = None) ->
  forall (p : fprocessor) (g : graph W) (out : nat),
  rmap forget_inputs (process_f bufs nproc nfail p g out) =
  rmap (fun x => (fst (fst x), snd (fst x), snd x, Done)) (process bufs nproc (base p) g out).
Proof. exact @process_f_no_fail. Qed.
Print Assumptions c09_panic_model_agrees.

(* ... and in general: whatever the processor went through before -- completed calls, calls
   aborted by a node panic at any point, i.e. ANY traversal state, ANY content of the inputs
   vector, any bit-set length -- the next call yields the same graph, the same invocations with
   the same inputs, and ends the same way (returns / aborted at the same node) as on a new one *)
Theorem c09_reuse_after_node_panic : forall (W B : Type) (bufs : W -> B) (nproc : W -> list B -> W)
  (nfail : W -> list B -> option W) (p1 p2 : fprocessor) (g : graph W) (out : nat),
  wf g -> live g out = true ->
  foutcome (process_f bufs nproc nfail p1 g out) = foutcome (process_f bufs nproc nfail p2 g out).
Proof. exact @process_f_reuse. Qed.
Print Assumptions c09_reuse_after_node_panic.

(* a call, aborted or not, keeps the edges and the set of nodes (so [wf] is kept) *)
Theorem c09_panic_keeps_shape : forall (W B : Type) (bufs : W -> B) (nproc : W -> list B -> W)
  (nfail : W -> list B -> option W) (p : fprocessor) (g : graph W) (out : nat) p' g' log r,
  process_f bufs nproc nfail p g out = Ok (p', g', log, r) -> same_shape g g'.
Proof. exact @process_f_shape. Qed.
Print Assumptions c09_panic_keeps_shape.

(* "Panics if there is no node for the given index": whatever the processor state *)
Theorem c09_no_node_panics : forall (W B : Type) (bufs : W -> B) (nproc : W -> list B -> W)
  (p : processor) (g : graph W) (out : nat), live g out = false ->
  exists k, process bufs nproc p g out = Panic k.
Proof. exact @process_no_node. Qed.
Print Assumptions c09_no_node_panics.

(* sources / sinks = the existing nodes without incoming / outgoing edges, each once *)
Theorem c09_sources_sinks : forall (W : Type) (g : graph W),
  (forall v, In v (sources g) <-> live g v = true /\ forall u, ~ edge g u v) /\
  (forall v, In v (sinks g) <-> live g v = true /\ forall u, ~ edge g v u) /\
  NoDup (sources g) /\ NoDup (sinks g).
Proof.
  intros W g. exact (conj (sources_spec g) (conj (sinks_spec g) (sources_nodup g))).
Qed.
Print Assumptions c09_sources_sinks.

(* the hypothesis [wf] holds of every graph built with the container operations, and
   process keeps it *)
Theorem c09_wf_by_construction : forall (W : Type),
  wf (@empty_graph W) /\
  (forall (g : graph W) w, wf g -> wf (fst (add_node w g))) /\
  (forall (g g' : graph W) a b, wf g -> add_edge a b g = Ok g' -> wf g') /\
  (forall (g : graph W) a, wf g -> wf (fst (remove_node a g))).
Proof.
  intros W. exact (conj wf_empty (conj (@wf_add_node W) (conj (@wf_add_edge W) (@wf_remove_node W)))).
Qed.
Print Assumptions c09_wf_by_construction.

(* ---- the NodeData constructors (lib.rs:259-301): which node and which buffers they store ---- *)

(* new / new1 / new2 / boxed / boxed1 / boxed2: the node (boxed by [box] for the boxed forms) and
   the given buffers, resp. one or two silent buffers *)
Theorem c09_node_data_constructors : forall (Buf T U : Type) (silent : Buf) (box : T -> U) (node : T)
  (buffers : list Buf),
  (nd_new node buffers = mk_node_data node buffers) /\
  (nd_new1 silent node = mk_node_data node [silent]) /\
  (nd_new2 silent node = mk_node_data node [silent; silent]) /\
  (nd_boxed box node buffers = mk_node_data (box node) buffers) /\
  (nd_boxed1 silent box node = mk_node_data (box node) [silent]) /\
  (nd_boxed2 silent box node = mk_node_data (box node) [silent; silent]).
Proof. exact @constructors_spec. Qed.
Print Assumptions c09_node_data_constructors.

(* a node built by a short-hand constructor and added to a graph (also into a re-used vacant slot of
   a StableGraph): the graph holds that node under the returned index, all other slots are as
   before, and what an Input referring to it shows (the [bufs] of the theorems above, here
   [nd_buffers]) is the documented number of silent buffers -- until the node is processed *)
Theorem c09_constructed_node_in_graph : forall (Buf T : Type) (silent : Buf) (c : ctor) (node : T)
  (g : graph (node_data Buf T)), free_ok g ->
  let g' := fst (add_node (construct silent c node) g) in
  let i := snd (add_node (construct silent c node) g) in
  option_map nd_node (weight g' i) = Some node /\
  option_map nd_buffers (weight g' i) = Some (repeat silent (ctor_buffers c)) /\
  (forall m, m <> i -> weight g' m = weight g m) /\
  free_ok g'.
Proof. exact @constructed_node_in_graph. Qed.
Print Assumptions c09_constructed_node_in_graph.

(* its hypothesis (the free list names slots of the slot vector) holds of every graph built with
   the container operations *)
Theorem c09_free_list_by_construction : forall (W : Type),
  free_ok (@empty_graph W) /\
  (forall (g : graph W) w, free_ok g -> free_ok (fst (add_node w g))) /\
  (forall (g g' : graph W) a b, free_ok g -> add_edge a b g = Ok g' -> free_ok g') /\
  (forall (g : graph W) a, free_ok g -> free_ok (fst (remove_node a g))) /\
  (forall (g : graph W) n w, free_ok g -> free_ok (set_weight g n w)).
Proof. exact @free_ok_by_construction. Qed.
Print Assumptions c09_free_list_by_construction.
