(* C09 — placeholder while the model/correspondence is brought up; replaced by the theorems. *)
Require Import List.
From Dasp Require Import Graph.Dfs Graph.Process.
Theorem c09_stub : True. Proof. exact I. Qed.
Print Assumptions c09_stub.
