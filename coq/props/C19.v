(* C19 — Rectifiers and envelope follower: |x| and one-pole smoothing without overshoot.
   Only the property theorems: each closed by [exact] of a lemma of the development
   (Dsp/PeakProofs.v, Dsp/EnvelopeProofs.v, Dsp/EnvelopeIEEE.v), followed by Print Assumptions.
   Integer-format theorems are axiom-free; theorems over R / Flocq use the allow-listed
   standard-library axioms of the reals. *)
Require Import Floats.SpecFloat.
Require Import ZArith Bool List Reals.
From Flocq Require Import Core BinarySingleNaN.
From Dasp Require Import Base.Res Base.Float Dsp.MInt Dsp.EnvNum Dsp.EnvNumR Dsp.Peak Dsp.Envelope
  Dsp.PeakProofs Dsp.EnvelopeProofs Dsp.EnvelopeIEEE Dsp.EnvelopeIntProofs Dsp.EnvelopeExamples
  Dsp.EnvelopeCtorProofs.
Import ListNotations.

(* ---------------- rectifiers ---------------- *)

(* Every integer format (12), every sample whose negated amplitude (in the format's Signed type,
   where the full-wave rectifier works) is representable: full wave = |amplitude about equilibrium|,
   no panic.  [signed_amp f s = (s - equilibrium) * 2^(bits Signed - bits f)]. *)
Theorem c19_full_wave : forall (f : ifmt) (s : Z),
  in_range f s -> in_range (signed_fmt f) (- signed_amp f s) ->
  full_wave_i f s = Ok (Z.abs (signed_amp f s)).
Proof. exact full_wave_i_spec. Qed.
Print Assumptions c19_full_wave.

(* to_signed_sample is the equilibrium shift (C01) and never panics on an in-range sample *)
Theorem c19_to_signed : forall (f : ifmt) (s : Z), in_range f s ->
  to_signed f s = Ok (signed_amp f s) /\ in_range (signed_fmt f) (signed_amp f s).
Proof. exact to_signed_ok. Qed.
Print Assumptions c19_to_signed.

(* the excluded samples are exactly those that overflow (debug build) *)
Theorem c19_full_wave_excluded : forall (f : ifmt) (s : Z),
  in_range f s -> ~ in_range (signed_fmt f) (- signed_amp f s) -> full_wave_i f s = Panic POverflow.
Proof. exact full_wave_i_unrepresentable. Qed.
Print Assumptions c19_full_wave_excluded.

Theorem c19_pos_half : forall (f : ifmt) (s : Z), pos_half_i f s = Z.max s (equil f).
Proof. exact pos_half_i_spec. Qed.
Print Assumptions c19_pos_half.

Theorem c19_neg_half : forall (f : ifmt) (s : Z), neg_half_i f s = Z.min s (equil f).
Proof. exact neg_half_i_spec. Qed.
Print Assumptions c19_neg_half.

(* per channel, any channel count *)
Theorem c19_rectifiers_per_channel : forall (f : ifmt) (fr : list Z),
  Forall (fun s => in_range f s /\ in_range (signed_fmt f) (- signed_amp f s)) fr ->
  full_wave_frame_i f fr = Ok (map (fun s => Z.abs (signed_amp f s)) fr) /\
  pos_half_frame_i f fr = map (fun s => Z.max s (equil f)) fr /\
  neg_half_frame_i f fr = map (fun s => Z.min s (equil f)) fr.
Proof. exact rectifiers_frame_i. Qed.
Print Assumptions c19_rectifiers_per_channel.

(* float formats: every finite sample (the negation of a float is always representable) *)
Theorem c19_rectifiers_f32 : forall x : f32, is_finite x = true ->
  B2R (full_wave_n NumF32 x) = Rabs (B2R x) /\ B2R (pos_half_n NumF32 x) = Rmax (B2R x) 0 /\
  B2R (neg_half_n NumF32 x) = Rmin (B2R x) 0 /\
  is_finite (full_wave_n NumF32 x) = true /\ is_finite (pos_half_n NumF32 x) = true /\
  is_finite (neg_half_n NumF32 x) = true.
Proof. exact rectifiers_f32. Qed.
Print Assumptions c19_rectifiers_f32.

Theorem c19_rectifiers_f64 : forall x : f64, is_finite x = true ->
  B2R (full_wave_n NumF64 x) = Rabs (B2R x) /\ B2R (pos_half_n NumF64 x) = Rmax (B2R x) 0 /\
  B2R (neg_half_n NumF64 x) = Rmin (B2R x) 0 /\
  is_finite (full_wave_n NumF64 x) = true /\ is_finite (pos_half_n NumF64 x) = true /\
  is_finite (neg_half_n NumF64 x) = true.
Proof. exact rectifiers_f64. Qed.
Print Assumptions c19_rectifiers_f64.

(* ---------------- envelope follower, exact arithmetic (the model instantiated with R) ---------------- *)
Open Scope R_scope.

(* env' = d + g (env - d), g = attack iff the detected value exceeds the previous envelope (strictly) *)
Theorem c19_one_pole : forall ga gr l d : R,
  (d > l -> env_step NumR ga gr l d = d + ga * (l - d)) /\
  (~ d > l -> env_step NumR ga gr l d = d + gr * (l - d)).
Proof. exact env_step_attack_iff. Qed.
Print Assumptions c19_one_pole.

Theorem c19_between : forall ga gr l d : R, 0 <= ga <= 1 -> 0 <= gr <= 1 ->
  Rmin l d <= env_step NumR ga gr l d <= Rmax l d.
Proof. exact env_step_between. Qed.
Print Assumptions c19_between.

(* zero time: the gain is 0 and the output is the detected value *)
Theorem c19_zero_time : forall (pow : R -> R -> R) (gE : R) (g l d : R),
  calc_gain_R pow gE 0 = 0 /\
  (l < d -> env_step NumR 0 g l d = d) /\ (~ l < d -> env_step NumR g 0 l d = d).
Proof.
  intros pow gE g l d.
  exact (conj (calc_gain_zero pow gE) (conj (env_step_zero_attack g l d) (env_step_zero_release g l d))).
Qed.
Print Assumptions c19_zero_time.

(* the gain is in [0,1] for every time >= 0, for any `pow` with 0 <= pow E x <= 1 on x <= 0 ... *)
Theorem c19_gain_range : forall (pow : R -> R -> R) (gE : R),
  (forall x, x <= 0 -> 0 <= pow gE x <= 1) ->
  forall n, 0 <= n -> 0 <= calc_gain_R pow gE n <= 1.
Proof. exact calc_gain_range. Qed.
Print Assumptions c19_gain_range.

(* ... which the true exponential satisfies, and then the gain is exp(-1/n) *)
Theorem c19_gain_exp :
  (forall x, x <= 0 -> 0 <= Rpower (exp 1) x <= 1) /\
  (forall n, 0 < n -> calc_gain_R Rpower (exp 1) n = exp (- 1 / n)).
Proof. exact (conj exp_pow_range calc_gain_exp). Qed.
Print Assumptions c19_gain_exp.

(* constant input, any number of frames, any channel count: the distance to the detected value
   shrinks geometrically with the gain selected at the first frame, sign preserved *)
Theorem c19_monotone_conv : forall (dt : detector NumR) (d : list R) (n : nat),
  0 <= attack_gain dt -> 0 <= release_gain dt -> length (last_env dt) = length d ->
  last_env (det_const NumR dt d n) =
    map2 (fun l x => x + gsel (attack_gain dt) (release_gain dt) l x ^ n * (l - x)) (last_env dt) d /\
  attack_gain (det_const NumR dt d n) = attack_gain dt /\ release_gain (det_const NumR dt d n) = release_gain dt.
Proof. exact det_const_frames. Qed.
Print Assumptions c19_monotone_conv.

Theorem c19_monotone_conv_channel : forall (ga gr l d : R) (n : nat), 0 <= ga <= 1 -> 0 <= gr <= 1 ->
  Rabs (iter_env ga gr l d n - d) = gsel ga gr l d ^ n * Rabs (l - d) /\
  Rabs (iter_env ga gr l d (S n) - d) <= Rabs (iter_env ga gr l d n - d) /\
  (l <= d -> iter_env ga gr l d n <= iter_env ga gr l d (S n) <= d) /\
  (d <= l -> d <= iter_env ga gr l d (S n) <= iter_env ga gr l d n).
Proof.
  intros ga gr l d n Ha Hr.
  exact (conj (iter_env_abs ga gr l d n (proj1 Ha) (proj1 Hr)) (iter_env_monotone ga gr l d n Ha Hr)).
Qed.
Print Assumptions c19_monotone_conv_channel.

(* one frame of the detector is the per-channel one-pole update; only last_env changes *)
Theorem c19_detector_next : forall (dt : detector NumR) (d : list R),
  fst (det_next NumR dt d) = map2 (fun l x => x + gsel (attack_gain dt) (release_gain dt) l x * (l - x)) (last_env dt) d /\
  last_env (snd (det_next NumR dt d)) = fst (det_next NumR dt d) /\
  attack_gain (snd (det_next NumR dt d)) = attack_gain dt /\
  release_gain (snd (det_next NumR dt d)) = release_gain dt.
Proof. exact det_next_frames. Qed.
Print Assumptions c19_detector_next.
Close Scope R_scope.

(* setters (any arithmetic): only the gain changes; a setter call anywhere in a run leaves the
   outputs before it unchanged and the rest of the run continues from the untouched envelope state *)
Theorem c19_setters : forall (N : num) (dt : detector N) (g : G N),
  last_env (set_attack_gain N dt g) = last_env dt /\ release_gain (set_attack_gain N dt g) = release_gain dt /\
  attack_gain (set_attack_gain N dt g) = g /\
  last_env (set_release_gain N dt g) = last_env dt /\ attack_gain (set_release_gain N dt g) = attack_gain dt /\
  release_gain (set_release_gain N dt g) = g.
Proof. exact setters_state. Qed.
Print Assumptions c19_setters.

Theorem c19_setters_subsequent : forall (N : num) (dt : detector N) (ops1 ops2 : list (dop N)) (o : dop N),
  (forall d, o <> DFrame d) ->
  fst (det_run N dt (ops1 ++ o :: ops2)) =
    fst (det_run N dt ops1) ++ fst (det_run N (snd (det_op N (snd (det_run N dt ops1)) o)) ops2) /\
  last_env (snd (det_op N (snd (det_run N dt ops1)) o)) = last_env (snd (det_run N dt ops1)).
Proof. exact setter_only_subsequent. Qed.
Print Assumptions c19_setters_subsequent.

(* constructors (round 3, coverage closing): Detector::peak_from_rectifier(R, a, r) is the detector the
   constructor named after R builds, and every construction path the correspondence uses (named,
   peak_from_rectifier, Detector::new(Peak::from(R), ..)) uses rectifier R with the attack and release
   times in the order given *)
Theorem c19_peak_from_rectifier : forall (G : Type) (which : Z) (a r : G),
  (which = 0 \/ which = 1 \/ which = 2)%Z ->
  peak_ctor_from_rectifier which a r = peak_ctor_named which a r.
Proof. exact @peak_from_rectifier_named. Qed.
Print Assumptions c19_peak_from_rectifier.

Theorem c19_peak_ctor : forall (G : Type) (ctor which : Z) (a r : G),
  (which = 0 \/ which = 1 \/ which = 2)%Z ->
  peak_ctor ctor which a r = (which, a, r).
Proof. exact @peak_ctor_same. Qed.
Print Assumptions c19_peak_ctor.

(* derive(Clone) on the detector: the clone is the same state and continues as the original would *)
Theorem c19_detector_clone : forall (N : num) (dt : detector N) (ops : list (dop N)),
  det_clone N dt = dt /\ det_run N (det_clone N dt) ops = det_run N dt ops.
Proof. exact detector_clone_spec. Qed.
Print Assumptions c19_detector_clone.

(* ---------------- IEEE companion (the model as executed: binary32 / binary64) ----------------
   The update stays between d and L' = RN(d + RN(l - d)), and L' is l up to two half-ulp
   rounding errors.  Exact `between` fails in IEEE arithmetic: c19_between_ieee_exact_refuted. *)
Open Scope R_scope.
Theorem c19_between_ieee_f32 : forall ga gr l d : f32,
  is_finite ga = true -> is_finite gr = true -> is_finite l = true -> is_finite d = true ->
  0 <= B2R ga <= 1 -> 0 <= B2R gr <= 1 ->
  Rabs (B2R l) <= bpow radix2 125 -> Rabs (B2R d) <= bpow radix2 125 ->
  let e := env_step NumF32 ga gr l d in
  let L' := two_roundings 24 128 (B2R l) (B2R d) in
  is_finite e = true /\ Rmin (B2R d) L' <= B2R e <= Rmax (B2R d) L' /\
  Rabs (L' - B2R l) <= / 2 * ulp radix2 (SpecFloat.fexp 24 128) (B2R l - B2R d)
                       + / 2 * ulp radix2 (SpecFloat.fexp 24 128) (B2R d + round radix2 (SpecFloat.fexp 24 128) ZnearestE (B2R l - B2R d)).
Proof. exact between_ieee_f32. Qed.
Print Assumptions c19_between_ieee_f32.

Theorem c19_between_ieee_f64 : forall (ga gr : f32) (l d : f64),
  is_finite ga = true -> is_finite gr = true -> is_finite l = true -> is_finite d = true ->
  0 <= B2R ga <= 1 -> 0 <= B2R gr <= 1 ->
  Rabs (B2R l) <= bpow radix2 1021 -> Rabs (B2R d) <= bpow radix2 1021 ->
  let e := env_step NumF64 ga gr l d in
  let L' := two_roundings 53 1024 (B2R l) (B2R d) in
  is_finite e = true /\ Rmin (B2R d) L' <= B2R e <= Rmax (B2R d) L' /\
  Rabs (L' - B2R l) <= / 2 * ulp radix2 (SpecFloat.fexp 53 1024) (B2R l - B2R d)
                       + / 2 * ulp radix2 (SpecFloat.fexp 53 1024) (B2R d + round radix2 (SpecFloat.fexp 53 1024) ZnearestE (B2R l - B2R d)).
Proof. exact between_ieee_f64. Qed.
Print Assumptions c19_between_ieee_f64.
Close Scope R_scope.

(* exact `between` is not a theorem of IEEE arithmetic: gain 1.0f32, d > l, output one ulp below l *)
Theorem c19_between_ieee_exact_refuted : exists g l d : f32,
  f32_le1 g = true /\ is_finite l = true /\ is_finite d = true /\
  F32.ltb l d = true /\ F32.ltb (env_step NumF32 g g l d) l = true.
Proof.
  exists (F32.of_bits 1065353216), (F32.of_bits 1038886241), (F32.of_bits 1062870188).
  vm_compute. repeat split.
Qed.
Print Assumptions c19_between_ieee_exact_refuted.

(* ---------------- integer frame formats (i8 i16 u8 u16: Float = f32, Signed of the same width) ----------------
   The update as executed (integer offset ops + binary32 scaling with truncation): outside the
   known class K2 and with envelope and detected value on the same side of equilibrium it does not
   panic and lies EXACTLY between the previous envelope and the detected value (no overshoot at all
   in integer formats: rounding to nearest is monotone and the cast truncates toward zero). *)
Theorem c19_int_step : forall (f : ifmt) (ga gr : f32) (l d : Z),
  is_envfmt f = true ->
  is_finite ga = true -> is_finite gr = true -> (0 <= B2R ga <= 1)%R -> (0 <= B2R gr <= 1)%R ->
  in_range f l -> in_range f d ->
  in_range (signed_fmt f) (- (d - equil f)) ->
  in_range (signed_fmt f) (l - d) ->
  let g := if (l <? d)%Z then ga else gr in
  let m := scale_amp (signed_fmt f) (l - d) g in
  env_step_i f ga gr l d = Ok (d + m)%Z /\
  ((d <= l)%Z -> (d <= d + m <= l)%Z) /\ ((l <= d)%Z -> (l <= d + m <= d)%Z) /\
  (Z.min l d <= d + m <= Z.max l d)%Z.
Proof. exact env_step_i_ok. Qed.
Print Assumptions c19_int_step.

(* Main theorem for integer formats, quantified over the complement of the known class K2:
   every history of in-range frames with no sample at the minimum amplitude (for the full-wave and
   negative-half-wave detectors; the positive-half-wave detector needs no exclusion), every channel
   count, every pair of gains in [0,1], from every state on the rectifier's side of equilibrium
   (in particular Detector::new): no panic, and every output is channel-wise between the previous
   envelope and the detected value. *)
Theorem c19_int_run : forall (f : ifmt) (which : Z) (frames : list (list Z)) (dt : idetector),
  (which = 0 \/ which = 1 \/ which = 2)%Z -> is_envfmt (peak_out_fmt f which) = true ->
  is_finite (iattack dt) = true -> is_finite (irelease dt) = true ->
  (0 <= B2R (iattack dt) <= 1)%R -> (0 <= B2R (irelease dt) <= 1)%R ->
  Forall (on_side (peak_out_fmt f which) which) (ilast dt) ->
  Forall (fun fr => Forall (in_range f) fr /\ length fr = length (ilast dt)) frames ->
  ~ KnownClass_K2 f which frames ->
  exists outs, idet_run f which dt frames = Ok outs /\ run_between f which (ilast dt) frames outs.
Proof. exact idet_run_ok. Qed.
Print Assumptions c19_int_run.

Theorem c19_int_new_side : forall (of : ifmt) (which : Z) (nch : nat) (ga gr : f32), is_envfmt of = true ->
  Forall (on_side of which) (ilast (idet_new of nch ga gr)).
Proof. exact idet_new_side. Qed.
Print Assumptions c19_int_new_side.

(* ---------------- known class K2 (integer format, an input at the minimum amplitude) ---------------- *)
Theorem c19_k2_refuted : exists (f : ifmt) (which : Z) (fr : list Z) (g : f32),
  KnownClass_K2 f which [fr] /\
  (let* d := detect_peak_i f which fr in
   idet_next (peak_out_fmt f which) (idet_new (peak_out_fmt f which) (length fr) g g) d) = Panic POverflow.
Proof.
  exists I8, 2%Z, [(-128)%Z], e_inv. split; [exact (proj1 c19_k2_refuted_neg_half)|].
  vm_compute. reflexivity.
Qed.
Print Assumptions c19_k2_refuted.
