(* C19 placeholder, replaced below *)
Require Import ZArith.
From Dasp Require Import Dsp.EnvelopeRun.
Theorem c19_stub : 0 = 0. Proof. reflexivity. Qed.
Print Assumptions c19_stub.
