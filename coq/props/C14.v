(* C14 — Buffered signals are a transparent prefetch of the source.
   This file contains only the property theorems: each is closed by [exact] of a
   lemma of the development, followed by Print Assumptions.

   Reading guide.  [u : buffered A] is a Buffered { signal, ring_buffer } whose
   ring buffer [rb u] is ANY valid Bounded state ([Inv]: start < capacity, len <=
   capacity; capacity = max_len (rb u) >= 1 follows) and whose source [sig u] is ANY
   state of signal::from_iter over a finite iterator.  [abs (rb u)] are the
   pre-filled frames, oldest first; [src_rest (sig u)] are the frames the source
   will still yield before equilibrium [EQ]; [pulls] counts calls of the source's
   `next`.  [ops] is ANY interleaving of next / next_frames().take(k) /
   next_frames() fully consumed / next_frames().size_hint() / is_exhausted.
   [fuel >= 2] bounds the iterations of the `loop` in Buffered::next: the
   theorems show the result is [Ok] (no panic, no UB, no "still running") for
   every such bound. *)
Require Import List Arith Bool.
From Dasp Require Import Base.Res Base.ListX Ring.Bounded Ring.BoundedSpec Ring.BoundedProofs
  Signal.Buffered Signal.BufferedSpec Signal.BufferedProofs Signal.BufferedExamples
  Signal.SigGenPrim Signal.BufferedGenGlue Signal.BufferedGenEquiv Signal.BufferedGenExamples.
From DaspGen Require Import RingGen BufferedGen.
Import ListNotations.

(* Every operation from every valid state does what the ideal prefetcher does
   (queue of prefetched frames, remaining source frames, pull counter), keeps the
   ring buffer valid and its capacity unchanged. *)
Theorem c14_step_refines : forall (A : Type) (EQ : A) (fuel : nat) (u : buffered A) (o : bop),
  2 <= fuel -> Inv (rb u) ->
  exists u' v, step EQ fuel u o = Ok (u', v) /\ Inv (rb u') /\ max_len (rb u') = max_len (rb u) /\
               spec_step EQ (max_len (rb u)) (abs_u u) o = (abs_u u', v).
Proof. exact @step_refines. Qed.
Print Assumptions c14_step_refines.

(* ... hence every finite history. *)
Theorem c14_history_refines : forall (A : Type) (EQ : A) (fuel : nat) (ops : list bop) (u : buffered A),
  2 <= fuel -> Inv (rb u) ->
  exists u' vs, run EQ fuel u ops = Ok (u', vs) /\ Inv (rb u') /\ max_len (rb u') = max_len (rb u) /\
                spec_run EQ (max_len (rb u)) (abs_u u) ops = (abs_u u', vs).
Proof. exact @run_refines. Qed.
Print Assumptions c14_history_refines.

(* Stream: under every interleaving, frames handed out ++ frames still buffered ++
   frames still in the source = prefill ++ source frames ++ equilibrium padding
   (nothing lost, duplicated or reordered); in particular the output is a prefix
   of prefill ++ source ++ EQ^E. *)
Theorem c14_stream : forall (A : Type) (EQ : A) (fuel : nat) (ops : list bop) (u : buffered A),
  2 <= fuel -> Inv (rb u) ->
  exists u' vs E, run EQ fuel u ops = Ok (u', vs) /\
    all_frames vs ++ abs (rb u') ++ src_rest (sig u') = abs (rb u) ++ src_rest (sig u) ++ repeat EQ E /\
    all_frames vs = firstn (length (all_frames vs)) (abs (rb u) ++ src_rest (sig u) ++ repeat EQ E).
Proof. exact @buffered_stream. Qed.
Print Assumptions c14_stream.

(* Pulls, one operation: exactly one buffer's worth of source frames when the
   operation finds the ring buffer empty (is_exhausted never pulls), none otherwise. *)
Theorem c14_pulls_step : forall (A : Type) (EQ : A) (fuel : nat) (u : buffered A) (o : bop),
  2 <= fuel -> Inv (rb u) ->
  exists u' v, step EQ fuel u o = Ok (u', v) /\
    pulls (sig u') = pulls (sig u) + (if pulling o && (len (rb u) =? 0) then max_len (rb u) else 0).
Proof. exact @buffered_pulls_step. Qed.
Print Assumptions c14_pulls_step.

(* Pulls, every history: cap * r pulls, r = number of operations that found the
   buffer empty; every pulled frame was handed out or is still buffered; the
   source advanced by exactly what was pulled. *)
Theorem c14_pulls : forall (A : Type) (EQ : A) (fuel : nat) (ops : list bop) (u : buffered A),
  2 <= fuel -> Inv (rb u) ->
  exists u' vs, run EQ fuel u ops = Ok (u', vs) /\
    let r := refills EQ (max_len (rb u)) (abs_u u) ops in
    pulls (sig u') = pulls (sig u) + max_len (rb u) * r /\
    len (rb u) + max_len (rb u) * r = length (all_frames vs) + len (rb u') /\
    src_rest (sig u') = skipn (max_len (rb u) * r) (src_rest (sig u)).
Proof. exact @buffered_pulls. Qed.
Print Assumptions c14_pulls.

(* Exhaustion is reported exactly when no frame is buffered and the source has no
   frame left ... *)
Theorem c14_exhausted : forall (A : Type) (u : buffered A), Inv (rb u) ->
  (is_exhausted u = true <-> abs (rb u) = [] /\ src_rest (sig u) = []) /\
  is_exhausted u = (len (rb u) =? 0) && src_exhausted (sig u).
Proof. exact @buffered_exhausted. Qed.
Print Assumptions c14_exhausted.

(* ... i.e. after any history: buffer drained and at least as many pulls as the
   source had frames. *)
Theorem c14_exhausted_history : forall (A : Type) (EQ : A) (fuel : nat) (ops : list bop) (u : buffered A),
  2 <= fuel -> Inv (rb u) ->
  exists u' vs, run EQ fuel u ops = Ok (u', vs) /\
    is_exhausted u' = (len (rb u') =? 0) && (length (src_rest (sig u)) <=? pulls (sig u') - pulls (sig u)).
Proof. exact @buffered_exhausted_history. Qed.
Print Assumptions c14_exhausted_history.

(* Padding: any history that stops at the first exhausted state has handed out
   prefill ++ source ++ EQ^j with j < capacity, the padding being exactly what
   completes the source to whole blocks (so j = (- |source|) mod capacity) ... *)
Theorem c14_padding : forall (A : Type) (EQ : A) (fuel : nat) (ops : list bop) (u : buffered A),
  2 <= fuel -> Inv (rb u) ->
  exists u' vs, run_until_exhausted EQ fuel u ops = Ok (u', vs) /\
    (is_exhausted u' = true ->
     exists j r, all_frames vs = abs (rb u) ++ src_rest (sig u) ++ repeat EQ j /\ j < max_len (rb u) /\
                 length (src_rest (sig u)) + j = max_len (rb u) * r).
Proof. exact @buffered_padding. Qed.
Print Assumptions c14_padding.

(* ... and calling next until is_exhausted does get there. *)
Theorem c14_drain : forall (A : Type) (EQ : A) (fuel m : nat) (u : buffered A),
  2 <= fuel -> Inv (rb u) ->
  len (rb u) + length (src_rest (sig u)) + max_len (rb u) <= m ->
  exists u' vs j r, run_until_exhausted EQ fuel u (repeat BNext m) = Ok (u', vs) /\
    is_exhausted u' = true /\
    all_frames vs = abs (rb u) ++ src_rest (sig u) ++ repeat EQ j /\ j < max_len (rb u) /\
    length (src_rest (sig u)) + j = max_len (rb u) * r.
Proof. exact @buffered_drain. Qed.
Print Assumptions c14_drain.

(* The start states: `from_iter frames` holds exactly [frames] with no pull counted
   (its look-ahead is one call of the iterator, not of the signal); every ring
   buffer accepted by from_raw_parts is valid (c06_bounded_from_raw_parts). *)
Theorem c14_from_iter : forall (A : Type) (l : list A),
  src_rest (from_iter l) = l /\ pulls (from_iter l) = 0.
Proof. exact @src_rest_from_iter. Qed.
Print Assumptions c14_from_iter.

Theorem c14_from_raw_parts : forall (A : Type) (s n : nat) (d : list A) (b : bounded A),
  from_raw_parts s n d = Ok b -> Inv b /\ 1 <= max_len b.
Proof. exact @from_raw_parts_valid. Qed.
Print Assumptions c14_from_raw_parts.

(* ---- the tie to the source -------------------------------------------------------------------
   gen/BufferedGen.v is REGENERATED from dasp_signal/src/lib.rs by translate/sig2coq.py on every run of the check (one
   definition per method: Signal::buffered, Buffered::next / next_frames / is_exhausted / into_parts,
   BufferedFrames::next), its ring-buffer calls being the generated methods of gen/RingGen.v (regenerated from
   dasp_ring_buffer/src/lib.rs, c06_gen_bounded_agrees) and its source signal abstract.  Instantiated with the hand
   model's source ([src_next EQ], [src_exhausted]) every generated definition equals the hand model's, for ALL inputs
   -- valid ring states or not, any fuel, including which panic / UB comes out.  ([to_g]/[of_g]: the two record
   representations of Buffered { signal, ring_buffer }; [gen_frames_take]: next_frames() + k calls of the generated
   BufferedFrames::next + the borrow written back, Signal/BufferedGenGlue.v.)  Hence the interpreter over the
   regenerated methods equals [step]/[run] ... *)
Theorem c14_gen_agrees : forall (A : Type) (EQ : A),
  ((forall (s : source A) (b : bounded A), Signal_buffered s b = Ok (to_g (mk_buffered s b))) /\
   (forall fuel (g : buffered_g (source A) A),
      Buffered_next (src_next EQ) fuel g = rmap (fun r => (to_g (snd r), fst r)) (next_loop EQ fuel (of_g g))) /\
   (forall g : buffered_g (source A) A,
      Buffered_next_frames (src_next EQ) g = rmap (fun u' => (to_g u', rb u')) (next_frames EQ (of_g g))) /\
   (forall b : bounded A, BufferedFrames_next b = pop b) /\
   (forall g : buffered_g (source A) A, BufferedFrames_size_hint (bg_ring_buffer g) = Ok (frames_size_hint (of_g g))) /\
   (forall g : buffered_g (source A) A, Buffered_is_exhausted (@src_exhausted A) g = Ok (is_exhausted (of_g g))) /\
   (forall g : buffered_g (source A) A, Buffered_into_parts g = Ok (into_parts (of_g g))) /\
   (forall k (g : buffered_g (source A) A), gen_frames_take (src_next EQ) k g =
      rmap (fun r => (to_g (snd r), fst r)) (let* u1 := next_frames EQ (of_g g) in frames_take k u1))) /\
  (forall fuel (g : buffered_g (source A) A) (o : bop),
     gen_step (src_next EQ) (@src_exhausted A) fuel g o =
     rmap (fun r => (to_g (fst r), snd r)) (step EQ fuel (of_g g) o)) /\
  (forall fuel (ops : list bop) (g : buffered_g (source A) A),
     gen_run (src_next EQ) (@src_exhausted A) fuel g ops =
     rmap (fun r => (to_g (fst r), snd r)) (run EQ fuel (of_g g) ops)).
Proof. exact @gen_buffered_agrees. Qed.
Print Assumptions c14_gen_agrees.

(* ... so the history theorem holds of the interpreter over the regenerated methods (and with it every theorem
   above, which are consequences of [run]'s refinement). *)
Theorem c14_gen_history : forall (A : Type) (EQ : A) (fuel : nat) (ops : list bop) (g : buffered_g (source A) A),
  2 <= fuel -> Inv (bg_ring_buffer g) ->
  exists g' vs, gen_run (src_next EQ) (@src_exhausted A) fuel g ops = Ok (g', vs) /\ Inv (bg_ring_buffer g') /\
                max_len (bg_ring_buffer g') = max_len (bg_ring_buffer g) /\
                spec_run EQ (max_len (bg_ring_buffer g)) (abs_u (of_g g)) ops = (abs_u (of_g g'), vs).
Proof. exact @gen_run_refines. Qed.
Print Assumptions c14_gen_history.
