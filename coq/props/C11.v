(* C11 -- windowed RMS equals the true RMS of the last N frames in every configuration. *)
Require Import Floats.SpecFloat.
Require Import ZArith.
From Flocq Require Import Core BinarySingleNaN.
From Dasp Require Import Base.Float Dsp.Sqrt.
From DaspGen Require Import SqrtMagic.

Theorem c11_magic32_is_one : F32.bits F32.one = magic32 /\ shift32 = 1%Z.
Proof. split; vm_compute; reflexivity. Qed.
Print Assumptions c11_magic32_is_one.

Theorem c11_magic64_is_one : F64.bits F64.one = magic64 /\ shift64 = 1%Z.
Proof. split; vm_compute; reflexivity. Qed.
Print Assumptions c11_magic64_is_one.
