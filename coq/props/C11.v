(* C11 -- windowed RMS equals the true RMS of the last N frames in every configuration.
   Model: theories/Dsp/Rms.v (one definition over a numeric record), Dsp/Sqrt.v, gen/SqrtMagic.v.
   Exact-arithmetic theorems are about the instance NumR (Coq reals), IEEE theorems about
   NumF32std / NumF64std (Flocq binary32 / binary64), the no_std square root about the bit trick
   with the constants read from dasp_sample/src/ops.rs. *)
Require Import Floats.SpecFloat.
Require Import ZArith Reals List.
From Flocq Require Import Core BinarySingleNaN.
From Dasp Require Import Base.Res Base.Float Ring.Fixed Ring.FixedSpec Dsp.Rms Dsp.Sqrt Dsp.RmsInst
  Dsp.RmsProofs Dsp.RmsIeee Dsp.RmsErr Dsp.RmsErrProofs Dsp.SqrtReal Dsp.SqrtProofs Dsp.RmsExamples
  Dsp.RmsDrift Dsp.RmsDriftProofs Dsp.RmsOutProofs Dsp.RmsVerdictProofs Dsp.RmsAccessProofs.
From Flocq Require Import Calc.Operations.
From DaspGen Require Import SqrtMagic.
Import ListNotations.

(* every history of next / next_squared / current / reset on a zero-initialised window of any
   length N >= 1 (any start index), any channel count C: no panic, no UB, and every operation
   returns exactly sqrt (resp. the plain mean for next_squared) of the mean of the squares of the
   last N input frames since new/reset, zero-padded, per channel *)
Theorem c11_value : forall (N C fst0 : nat) (ops : list (op NumR)),
  (1 <= N)%nat -> (fst0 < N)%nat -> Forall (op_ok C) ops ->
  exists st', run NumR (new_state N C fst0) ops = Ok (st', spec_run N C [] ops) /\
              rms_current NumR st' = map (true_rms N C (feed [] ops)) (seq 0 C).
Proof. exact rms_value. Qed.
Print Assumptions c11_value.

(* invariant: the window holds the squares of the last N inputs (zero-padded), square_sum is its
   per-channel sum *)
Theorem c11_invariant : forall (N C fst0 : nat) (ops : list (op NumR)),
  (1 <= N)%nat -> (fst0 < N)%nat -> Forall (op_ok C) ops ->
  exists st' outs, run NumR (new_state N C fst0) ops = Ok (st', outs) /\
    fq (window NumR st') = map sqf (last_n N C (feed [] ops)) /\
    (forall c, (c < C)%nat -> chan c (square_sum NumR st') = colsum c (fq (window NumR st'))).
Proof. exact rms_invariant. Qed.
Print Assumptions c11_invariant.

(* a reset after any history restores the all-zero state *)
Theorem c11_reset : forall (N C fst0 : nat) (ops : list (op NumR)),
  (1 <= N)%nat -> (fst0 < N)%nat -> Forall (op_ok C) ops ->
  exists st' outs st'', run NumR (new_state N C fst0) ops = Ok (st', outs) /\
    rms_reset NumR st' = Ok st'' /\
    fdata (window NumR st'') = repeat (zero_frame C) N /\ square_sum NumR st'' = zero_frame C /\
    rms_current NumR st'' = zero_frame C.
Proof. exact rms_reset_zero. Qed.
Print Assumptions c11_reset.

(* in exact arithmetic the clamp at zero never fires: the model without it runs identically *)
Theorem c11_clamp_inert : forall (N C fst0 : nat) (ops : list (op NumR)),
  (1 <= N)%nat -> (fst0 < N)%nat -> Forall (op_ok C) ops ->
  run_gen NumR (fun d => d) (new_state N C fst0) ops = run NumR (new_state N C fst0) ops.
Proof. exact rms_clamp_inert. Qed.
Print Assumptions c11_clamp_inert.

(* the signal adaptor = the detector fed the source frames one by one, one pull per output
   (any arithmetic) *)
Theorem c11_adaptor : forall (K : num) (k : nat) (a : adaptor K),
  adaptor_run K a k =
  match run K (det K a) (map (fun i => ONext (src K a (pulls K a + i))) (seq 0 k)) with
  | Ok (st', outs) => Ok ({| src := src K a; pulls := pulls K a + k; det := st' |}, outs)
  | Panic p => Panic p
  | UB => UB
  end.
Proof. exact adaptor_run_spec. Qed.
Print Assumptions c11_adaptor.

(* IEEE, std build: from ANY state, if the running sum stored by the step is finite then the
   outputs of next, next_squared and a following current are not NaN and not negative *)
Theorem c11_nonneg_nonnan_f32 : forall st fr st' out,
  (1 <= flen (window NumF32std st))%nat ->
  rms_next NumF32std st fr = Ok (st', out) ->
  Forall (fun s => F32.is_finite s = true) (square_sum NumF32std st') ->
  Forall good32 out /\ Forall good32 (rms_current NumF32std st') /\
  (exists sq, next_squared NumF32std st fr = Ok (st', sq) /\ Forall good32 sq).
Proof. exact rms_nonneg_nonnan_f32. Qed.
Print Assumptions c11_nonneg_nonnan_f32.

Theorem c11_nonneg_nonnan_f64 : forall st fr st' out,
  (1 <= flen (window NumF64std st))%nat ->
  rms_next NumF64std st fr = Ok (st', out) ->
  Forall (fun s => F64.is_finite s = true) (square_sum NumF64std st') ->
  Forall good64 out /\ Forall good64 (rms_current NumF64std st') /\
  (exists sq, next_squared NumF64std st fr = Ok (st', sq) /\ Forall good64 sq).
Proof. exact rms_nonneg_nonnan_f64. Qed.
Print Assumptions c11_nonneg_nonnan_f64.

(* the divisor `len as f32` (and its f64 image) is positive for EVERY len >= 1 *)
Theorem c11_divisor_positive : forall n : nat, (1 <= n)%nat ->
  F32.ltb F32.zero (of_nat32 n) = true /\ F64.ltb F64.zero (of_nat64 n) = true.
Proof. intros n H. split; [exact (of_nat32_pos n H)|exact (of_nat64_pos n H)]. Qed.
Print Assumptions c11_divisor_positive.

(* known-finding class K4: finite inputs whose square overflows give inf, inf, NaN *)
Theorem c11_k4_refuted :
  KnownClass_K4_f32 k4_witness /\
  forallb (forallb F32.is_finite) k4_witness = true /\
  match run NumF32std (rms_new NumF32std 1 {| first := 0; fdata := [[F32.zero]; [F32.zero]] |})
            (map (@ONext NumF32std) k4_witness) with
  | Ok (_, outs) => map (map F32.bits) outs = [[2139095040]; [2139095040]; [2143289344]]%Z
  | _ => False
  end.
Proof. exact k4_refuted. Qed.
Print Assumptions c11_k4_refuted.

(* the magic constants read from ops.rs are the bit patterns of 1.0 (defect F4 if this fails) *)
Theorem c11_magic32_is_one : F32.bits F32.one = magic32 /\ shift32 = 1%Z.
Proof. split; vm_compute; reflexivity. Qed.
Print Assumptions c11_magic32_is_one.

Theorem c11_magic64_is_one : F64.bits F64.one = magic64 /\ shift64 = 1%Z.
Proof. split; vm_compute; reflexivity. Qed.
Print Assumptions c11_magic64_is_one.

(* no_std square root (bit trick with the constants of ops.rs): for EVERY normal x >= 0 the result
   is within 7% of the real square root, and the unsigned addition `to_bits() + MAGIC` does not
   wrap (no overflow panic in a debug build) *)
Theorem c11_sqrt_trick_f32 : forall x : f32, normal32 x ->
  (Rabs (B2R (sqrt_trick32 x) - R_sqrt.sqrt (B2R x)) <= 0.07 * R_sqrt.sqrt (B2R x))%R /\
  (F32.bits x + magic32 < 2 ^ 32)%Z.
Proof. exact sqrt_trick32_bound. Qed.
Print Assumptions c11_sqrt_trick_f32.

Theorem c11_sqrt_trick_f64 : forall x : f64, normal64 x ->
  (Rabs (B2R (sqrt_trick64 x) - R_sqrt.sqrt (B2R x)) <= 0.07 * R_sqrt.sqrt (B2R x))%R /\
  (F64.bits x + magic64 < 2 ^ 64)%Z.
Proof. exact sqrt_trick64_bound. Qed.
Print Assumptions c11_sqrt_trick_f64.

(* the negligible absolute term at zero: sqrt_trick(+0) = 1.5 * 2^-64 (f32), 1.5 * 2^-512 (f64) *)
Theorem c11_sqrt_trick_zero :
  F32.bits (sqrt_trick32 F32.zero) = 532676608%Z /\ F64.bits (sqrt_trick64 F64.zero) = 2303591209400008704%Z.
Proof. exact sqrt_trick_zero. Qed.
Print Assumptions c11_sqrt_trick_zero.

(* ---------------------------------------------------------------------------------------------
   DRIFT BOUND ("within a rigorous floating-point error bound"), proved end to end for the IEEE run.

   For every window length N >= 1, channel count C, start index, every history [ops] of
   next / next_squared / current / reset on a zero-initialised window (resets included) and every
   number k of executed operations: if no stored running sum of the run is infinite or NaN
   ([sums_ok .. is_finite], a boolean on the model run, RmsDrift.v -- it implies that every input,
   every square x*x and every intermediate sum/difference was finite; it is exactly what the verdict
   of the correspondence tests before it applies the tolerance), then the run does not panic and
   in every channel c
       | square_sum_k - S_k |  <=  E_k
   where S_k = [esum e] = the exact sum of the squares of the last N inputs since new/reset
   ([sum_sq c (last_n N C ..)], the vocabulary of c11_value) and E_k = [eerr e] is the value of the
   executable recurrence of Dsp/RmsErr.v run on the exact dyadic inputs ([e_after] = [e_bound] from
   [e_init]; reset: E restarts at 0) -- the SAME function that is the tolerance of the
   correspondence verdict (RmsRun.verdict / e_verdict).
   [sq] (the square root of the numeric record) is arbitrary: the statement covers the std and the
   no_std build.  [c11_drift_bound] is the statement for ANY binary floating-point format
   (prec, emax); _f32 / _f64 are its instances on the executed models NumF32 / NumF64. *)
Theorem c11_drift_bound : forall (prec emax : Z) (Hp : Prec_gt_0 prec) (He : Prec_lt_emax prec emax)
    (ofn : nat -> binary_float prec emax) (sq : binary_float prec emax -> binary_float prec emax),
  let K := NumG prec emax Hp He ofn sq in
  forall (N C fst0 : nat) (ops : list (op K)) (k : nat),
  (1 <= N)%nat -> (fst0 < N)%nat -> Forall (opK_ok K C) ops ->
  sums_ok K is_finite (new_stateK K N C fst0) ops = true ->
  exists st_k outs, run K (new_stateK K N C fst0) (firstn k ops) = Ok (st_k, outs) /\
    flen (window K st_k) = N /\ length (square_sum K st_k) = C /\
    forall c, (c < C)%nat ->
      let e := e_after prec emax N (chan_evs K c (firstn k ops)) in
      let s := nth c (square_sum K st_k) (B754_zero false) in
      F2R (esum e) = sum_sq c (last_n N C (feed [] (map (opR (K := K) B2R) (firstn k ops)))) /\
      is_finite s = true /\ (0 <= B2R s)%R /\
      (Rabs (B2R s - F2R (esum e)) <= F2R (eerr e))%R.
Proof. exact drift_bound_steps. Qed.
Print Assumptions c11_drift_bound.

Theorem c11_drift_bound_f32 : forall (sq : f32 -> f32) (N C fst0 : nat) (ops : list (op (NumF32 sq))) (k : nat),
  (1 <= N)%nat -> (fst0 < N)%nat -> Forall (opK_ok (NumF32 sq) C) ops ->
  sums_ok (NumF32 sq) F32.is_finite (new_stateK (NumF32 sq) N C fst0) ops = true ->
  exists st_k outs, run (NumF32 sq) (new_stateK (NumF32 sq) N C fst0) (firstn k ops) = Ok (st_k, outs) /\
    flen (window (NumF32 sq) st_k) = N /\ length (square_sum (NumF32 sq) st_k) = C /\
    forall c, (c < C)%nat ->
      let e := e_after 24 128 N (chan_evs (NumF32 sq) c (firstn k ops)) in
      let s := nth c (square_sum (NumF32 sq) st_k) F32.zero in
      F2R (esum e) = sum_sq c (last_n N C (feed [] (map (opR (K := NumF32 sq) B2R) (firstn k ops)))) /\
      F32.is_finite s = true /\ (0 <= B2R s)%R /\
      (Rabs (B2R s - F2R (esum e)) <= F2R (eerr e))%R.
Proof. exact drift_bound_f32. Qed.
Print Assumptions c11_drift_bound_f32.

Theorem c11_drift_bound_f64 : forall (sq : f64 -> f64) (N C fst0 : nat) (ops : list (op (NumF64 sq))) (k : nat),
  (1 <= N)%nat -> (fst0 < N)%nat -> Forall (opK_ok (NumF64 sq) C) ops ->
  sums_ok (NumF64 sq) F64.is_finite (new_stateK (NumF64 sq) N C fst0) ops = true ->
  exists st_k outs, run (NumF64 sq) (new_stateK (NumF64 sq) N C fst0) (firstn k ops) = Ok (st_k, outs) /\
    flen (window (NumF64 sq) st_k) = N /\ length (square_sum (NumF64 sq) st_k) = C /\
    forall c, (c < C)%nat ->
      let e := e_after 53 1024 N (chan_evs (NumF64 sq) c (firstn k ops)) in
      let s := nth c (square_sum (NumF64 sq) st_k) F64.zero in
      F2R (esum e) = sum_sq c (last_n N C (feed [] (map (opR (K := NumF64 sq) B2R) (firstn k ops)))) /\
      F64.is_finite s = true /\ (0 <= B2R s)%R /\
      (Rabs (B2R s - F2R (esum e)) <= F2R (eerr e))%R.
Proof. exact drift_bound_f64. Qed.
Print Assumptions c11_drift_bound_f64.

(* the OUTPUT of the std detector (IEEE division by `len as f32`, correctly rounded square root) after
   any such history, against the true RMS of c11_value, for window lengths N <= 2^24 (`len as f32`
   exact):   |out - rms| <= (1 + 3u) sqrt(E/N) + 3u rms + 3 sqrt(eta),   u = 2^-prec, eta = 2^(emin-1)
   (sqrt(eta) = 2^-75 / 2^-538: the quotient sum/N may be subnormal).  current() of the state after
   the history is also the last output of next() (rms_next_gen). *)
Theorem c11_output_bound_f32 : forall (N C fst0 : nat) (ops : list (op NumF32std)),
  (1 <= N)%nat -> (Z.of_nat N <= 2 ^ 24)%Z -> (fst0 < N)%nat -> Forall (opK_ok NumF32std C) ops ->
  sums_ok NumF32std F32.is_finite (new_stateK NumF32std N C fst0) ops = true ->
  exists st' outs, run NumF32std (new_stateK NumF32std N C fst0) ops = Ok (st', outs) /\
    length (rms_current NumF32std st') = C /\
    forall c, (c < C)%nat ->
      let Ek := F2R (eerr (e_after 24 128 N (chan_evs NumF32std c ops))) in
      let rms := true_rms N C (feed [] (map (opR (K := NumF32std) B2R) ops)) c in
      (Rabs (B2R (nth c (rms_current NumF32std st') F32.zero) - rms) <=
       (1 + 3 * F2R (u_of 24)) * R_sqrt.sqrt (Ek / INR N) + 3 * F2R (u_of 24) * rms
       + 3 * R_sqrt.sqrt (F2R (eta_of 24 128)))%R.
Proof. exact out_bound_f32. Qed.
Print Assumptions c11_output_bound_f32.

Theorem c11_output_bound_f64 : forall (N C fst0 : nat) (ops : list (op NumF64std)),
  (1 <= N)%nat -> (Z.of_nat N <= 2 ^ 24)%Z -> (fst0 < N)%nat -> Forall (opK_ok NumF64std C) ops ->
  sums_ok NumF64std F64.is_finite (new_stateK NumF64std N C fst0) ops = true ->
  exists st' outs, run NumF64std (new_stateK NumF64std N C fst0) ops = Ok (st', outs) /\
    length (rms_current NumF64std st') = C /\
    forall c, (c < C)%nat ->
      let Ek := F2R (eerr (e_after 53 1024 N (chan_evs NumF64std c ops))) in
      let rms := true_rms N C (feed [] (map (opR (K := NumF64std) B2R) ops)) c in
      (Rabs (B2R (nth c (rms_current NumF64std st') F64.zero) - rms) <=
       (1 + 3 * F2R (u_of 53)) * R_sqrt.sqrt (Ek / INR N) + 3 * F2R (u_of 53) * rms
       + 3 * R_sqrt.sqrt (F2R (eta_of 53 1024)))%R.
Proof. exact out_bound_f64. Qed.
Print Assumptions c11_output_bound_f64.

(* the verdict of the correspondence, as a theorem about the model: on every such run the executable
   verdict [e_verdict] (RmsErr.v; RmsRun.verdict applies it to the events of each channel: every
   pushed sample with the sum stored after it, [sobs]) accepts.  Hence a verdict failure of the check
   on the model run cannot come from the model, and "crate = model bit for bit" is what carries the
   bound to the crate. *)
Theorem c11_verdict_accepts_model_f32 : forall (sq : f32 -> f32) (N C fst0 : nat) (ops : list (op (NumF32 sq))),
  (1 <= N)%nat -> (fst0 < N)%nat -> Forall (opK_ok (NumF32 sq) C) ops ->
  sums_ok (NumF32 sq) F32.is_finite (new_stateK (NumF32 sq) N C fst0) ops = true ->
  forall c, (c < C)%nat ->
    e_verdict (u_of 24) (eta_of 24 128) N (e_init N)
      (sobs (NumF32 sq) B2Dy (clamp (NumF32 sq)) N (sreset (NumF32 sq) N) (chan_evs (NumF32 sq) c ops)) = true.
Proof. exact verdict_model_f32. Qed.
Print Assumptions c11_verdict_accepts_model_f32.

Theorem c11_verdict_accepts_model_f64 : forall (sq : f64 -> f64) (N C fst0 : nat) (ops : list (op (NumF64 sq))),
  (1 <= N)%nat -> (fst0 < N)%nat -> Forall (opK_ok (NumF64 sq) C) ops ->
  sums_ok (NumF64 sq) F64.is_finite (new_stateK (NumF64 sq) N C fst0) ops = true ->
  forall c, (c < C)%nat ->
    e_verdict (u_of 53) (eta_of 53 1024) N (e_init N)
      (sobs (NumF64 sq) B2Dy (clamp (NumF64 sq)) N (sreset (NumF64 sq) N) (chan_evs (NumF64 sq) c ops)) = true.
Proof. exact verdict_model_f64. Qed.
Print Assumptions c11_verdict_accepts_model_f64.

(* the real-number core of the drift bound (kept from the earlier partial result): one step of the
   executable recurrence [e_next] (including its upward rounding to 64 bits) is sound for the
   standard rounding model |fl(t) - t| <= u|t| + eta of the three operations of next_squared
   (x*x, sum + new, - evicted) followed by the clamp.  c11_drift_bound discharges the five rounding
   hypotheses along the Flocq run (RmsDriftProofs.v). *)
Theorem c11_drift_step : forall (u eta S T q r : dy) (s qt rt a d : R),
  (0 <= F2R u -> 0 <= F2R eta -> 0 <= F2R S -> 0 <= F2R T -> 0 <= F2R q -> 0 <= F2R r ->
  0 <= F2R (dsub (dadd S q) r) ->
  Rabs (s - F2R S) <= F2R T ->
  Rabs (qt - F2R q) <= F2R u * F2R q + F2R eta ->
  Rabs (rt - F2R r) <= F2R u * F2R r + F2R eta ->
  Rabs (a - (s + qt)) <= F2R u * Rabs (s + qt) + F2R eta ->
  Rabs (d - (a - rt)) <= F2R u * Rabs (a - rt) + F2R eta ->
  Rabs (clampR d - F2R (dsub (dadd S q) r)) <= F2R (e_next u eta S T q r))%R.
Proof. exact drift_step. Qed.
Print Assumptions c11_drift_step.

(* ---- accessors and structural operations (round 3, coverage closing): the parts of the API that
   the value theorems do not mention and that the correspondence observes; any arithmetic K ---- *)

(* Rms::window_frames after any history of next / next_squared / current / reset is the length of
   the ring buffer handed to Rms::new *)
Theorem c11_window_frames : forall (K : num) (c : nat) (w : fixed (frame K)) (ops : list (op K)) st' outs,
  run K (rms_new K c w) ops = Ok (st', outs) -> window_frames K st' = flen w.
Proof. exact new_run_window_frames. Qed.
Print Assumptions c11_window_frames.

(* Rms::into_parts returns the stored window and running sum; derive(Clone) yields the same state,
   for the detector and for the signal adaptor *)
Theorem c11_into_parts_clone : forall (K : num) (st : rms K) (a : adaptor K),
  into_parts K st = (window K st, square_sum K st) /\ rms_clone K st = st /\ adaptor_clone K a = a.
Proof. exact into_parts_clone_all. Qed.
Print Assumptions c11_into_parts_clone.

(* dasp_signal::rms::Rms::into_parts after k outputs hands back the source advanced by exactly k
   frames and the detector that was fed exactly those k frames *)
Theorem c11_adaptor_into_parts : forall (K : num) (k : nat) (a a' : adaptor K) outs,
  adaptor_run K a k = Ok (a', outs) ->
  exists st', run K (det K a) (map (fun i => ONext (src K a (pulls K a + i)%nat)) (seq 0 k)) = Ok (st', outs)
              /\ adaptor_into_parts K a' = (src K a, (pulls K a + k)%nat, st').
Proof. exact adaptor_into_parts_after_run. Qed.
Print Assumptions c11_adaptor_into_parts.

(* ... and the parts used on their own continue the stream: detector.next(source.next()) = adaptor.next() *)
Theorem c11_adaptor_parts_continue : forall (K : num) (a : adaptor K),
  let '(s, p, d) := adaptor_into_parts K a in
  adaptor_next K a =
  match rms_next K d (s p) with
  | Ok (d', out) => Ok ({| src := s; pulls := S p; det := d' |}, out)
  | Panic q => Panic q
  | UB => UB
  end.
Proof. exact adaptor_parts_continue. Qed.
Print Assumptions c11_adaptor_parts_continue.
