(* C13 — Bus feeds every output a gap-free stream and retains only what laggards need.
   This file contains only the property theorems: each is closed by [exact] of a lemma of the
   development, followed by Print Assumptions.

   Vocabulary (Signal/Bus.v, Signal/BusSpec.v).  The source is [f : nat -> F] (its n-th frame) with
   the pull counter [pulled]; [run f ops init = Ok (s, tr)]: the schedule [ops] (any finite list of
   OSend / ONext k / OPending k / ODrop k, outputs named by their key) ran from a fresh bus without
   panic, ending in state [s] with trace [tr] (one event per operation, chronological).
   [ESend k a]: output [k] was attached when the source had been pulled [a] times, i.e. frame [a] is
   the first frame nobody had pulled.  [frames_of k tr]: the frames output [k] received, in order;
   [received k tr] their number.  [is_live s k]: output k is attached and not dropped.
   Outside the model: wrap-around of next_key after 2^64 sends (usize is nat). *)
Require Import List Arith Bool.
From Dasp Require Import Base.Res Signal.Bus Signal.BusSpec Signal.BusProofs Signal.BusHistProofs
  Signal.BusExh Signal.BusExhProofs Signal.BusExamples.
Import ListNotations.

(* The invariant (unique keys, offsets within the backlog, backlog = the last pulled frames in order,
   no outputs -> empty backlog, some output at offset 0, keys below next_key) holds in every
   reachable state. *)
Theorem c13_inv : forall (F : Type) (f : nat -> F) (ops : list op) (s : @st F) (tr : list (@ev F)),
  run f ops init = Ok (s, tr) -> Inv f s.
Proof. exact @run_inv. Qed.
Print Assumptions c13_inv.

(* Exactly the schedules that address only live outputs run without panic (no usize underflow, no
   out-of-range index, no failed expect); next / pending_frames on a dropped or unknown key panics. *)
Theorem c13_no_panic : forall (F : Type) (f : nat -> F) (ops : list op),
  sched_ok 0 [] ops <-> exists s tr, run f ops init = Ok (s, tr).
Proof. exact @sched_ok_iff. Qed.
Print Assumptions c13_no_panic.

Theorem c13_next_unknown_panics : forall (F : Type) (f : nat -> F) (s : @st F) (key : nat),
  lookup key (fr s) = None -> next_frame f s key = Panic PExpect.
Proof. exact @next_unknown. Qed.
Print Assumptions c13_next_unknown_panics.

(* Each output observes exactly the contiguous run of source frames beginning at its attach
   position, in order, without loss or duplication: the i-th frame it received is f (a + i). *)
Theorem c13_stream : forall (F : Type) (f : nat -> F) (ops : list op) (s : @st F) (tr : list (@ev F)),
  run f ops init = Ok (s, tr) ->
  forall k a, In (ESend k a) tr -> frames_of k tr = map f (seq a (received k tr)).
Proof. exact @run_stream. Qed.
Print Assumptions c13_stream.

(* ... where the attach position is the number of source pulls made before the send: for any prefix
   ops1, the output created by the following send has the fresh key and starts at frame [pulled s1]. *)
Theorem c13_attach : forall (F : Type) (f : nat -> F) (ops1 ops2 : list op) (s : @st F) (tr : list (@ev F)),
  run f (ops1 ++ OSend :: ops2) init = Ok (s, tr) ->
  exists s1 tr1 tr2, run f ops1 init = Ok (s1, tr1) /\
    tr = tr1 ++ ESend (nk s1) (pulled s1) :: tr2 /\
    frames_of (nk s1) tr = map f (seq (pulled s1) (received (nk s1) tr)).
Proof. exact @run_attach. Qed.
Print Assumptions c13_attach.

(* pending_frames of a live output = frames already pulled from the source that it has not yet
   received (and it never panics or underflows). *)
Theorem c13_pending : forall (F : Type) (f : nat -> F) (ops : list op) (s : @st F) (tr : list (@ev F)),
  run f ops init = Ok (s, tr) ->
  forall k a, In (ESend k a) tr -> is_live s k ->
    a + received k tr <= pulled s /\ pending_frames s k = Ok (pulled s - (a + received k tr)).
Proof. exact @run_pending. Qed.
Print Assumptions c13_pending.

(* The source is pulled exactly once per distinct frame: the frame indices pulled so far (0 .. pulled-1,
   the source being a counter) are exactly the indices delivered to some output ... *)
Theorem c13_pull_once : forall (F : Type) (f : nat -> F) (ops : list op) (s : @st F) (tr : list (@ev F)),
  run f ops init = Ok (s, tr) ->
  forall j, j < pulled s <-> exists k a, In (ESend k a) tr /\ a <= j < a + received k tr.
Proof. exact @run_pull_once. Qed.
Print Assumptions c13_pull_once.

(* ... and one next() on a live output at position p returns f p, advances only that output, and pulls
   the source (once) only when p had not been pulled yet. *)
Theorem c13_next : forall (F : Type) (f : nat -> F) (s : @st F) (key p : nat),
  Inv f s -> pos s key = Some p ->
  exists s', next_frame f s key = Ok (s', f p) /\ Inv f s' /\
    pos s' key = Some (S p) /\ (forall k, k <> key -> pos s' k = pos s k) /\
    pulled s' = Nat.max (pulled s) (S p) /\ nk s' = nk s.
Proof. exact @next_inv. Qed.
Print Assumptions c13_next.

(* send and drop do not pull and do not move any other output *)
Theorem c13_send : forall (F : Type) (f : nat -> F) (s : @st F), Inv f s ->
  Inv f (fst (send s)) /\ pos (fst (send s)) (snd (send s)) = Some (pulled s) /\
  (forall k, k <> nk s -> pos (fst (send s)) k = pos s k).
Proof. exact @send_inv. Qed.
Print Assumptions c13_send.

Theorem c13_drop : forall (F : Type) (f : nat -> F) (s : @st F) (key : nat), Inv f s ->
  exists s', drop_output s key = Ok s' /\ Inv f s' /\ lookup key (fr s') = None /\
    pulled s' = pulled s /\ nk s' = nk s /\ (forall k, k <> key -> pos s' k = pos s k).
Proof. exact @drop_inv. Qed.
Print Assumptions c13_drop.

(* The backlog holds exactly the pulled frames that the slowest live output has not yet received:
   its content is the last [length buf] pulled frames in order; every live output lags by at most its
   length and some live output lags by exactly its length; it is empty when no output is live and
   when every live output has caught up. *)
Theorem c13_backlog : forall (F : Type) (f : nat -> F) (ops : list op) (s : @st F) (tr : list (@ev F)),
  run f ops init = Ok (s, tr) ->
  buf s = map f (seq (pulled s - length (buf s)) (length (buf s))) /\
  length (buf s) <= pulled s /\
  (forall k a, is_live s k -> In (ESend k a) tr -> pulled s - (a + received k tr) <= length (buf s)) /\
  ((exists k, is_live s k) ->
     exists k a, is_live s k /\ In (ESend k a) tr /\ length (buf s) = pulled s - (a + received k tr)) /\
  ((forall k, ~ is_live s k) -> buf s = []) /\
  ((forall k a, is_live s k -> In (ESend k a) tr -> a + received k tr = pulled s) -> buf s = []).
Proof. exact @run_backlog. Qed.
Print Assumptions c13_backlog.

(* Output::is_exhausted and dropping the Bus handle (Signal/BusExh.v; [ex n] = the source reports
   exhaustion after n pulls).  They do not change the shared node: every state reached through the
   extended API is reached by the core schedule with the same trace, so all theorems above apply to it
   (in particular frames pulled after the source is exhausted are queued and delivered like any other)... *)
Theorem c13_ext_reachable : forall (F : Type) (f : nat -> F) (ex : nat -> bool) (ops : list xop)
    (s : @st F) (xtr : list (@xev F)),
  xrun f ex ops init = Ok (s, xtr) -> run f (core ops) init = Ok (s, core_ev xtr).
Proof. exact @xrun_reachable. Qed.
Print Assumptions c13_ext_reachable.

(* ... and a live output reports exhaustion iff it has received every frame pulled so far and the
   source is exhausted (whatever its siblings still have pending). *)
Theorem c13_exhausted : forall (F : Type) (f : nat -> F) (ex : nat -> bool) (ops : list xop)
    (s : @st F) (xtr : list (@xev F)),
  xrun f ex ops init = Ok (s, xtr) ->
  forall k a, In (ESend k a) (core_ev xtr) -> is_live s k ->
    output_is_exhausted ex s k = Ok ((a + received k (core_ev xtr) =? pulled s) && ex (pulled s)).
Proof. exact @exhausted_iff. Qed.
Print Assumptions c13_exhausted.
