(* C13 — placeholder while the correspondence is brought up. *)
From Dasp Require Import Base.Res Signal.Bus.
