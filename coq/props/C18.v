(* C18 — stub, replaced below *)
Require Import List Arith.
From Dasp Require Import Base.Res Dsp.Sinc.
Theorem c18_stub : usub 3 1 = Ok 2.
Proof. reflexivity. Qed.
Print Assumptions c18_stub.
