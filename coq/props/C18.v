(* C18 — Sinc interpolation is transparent on the sample grid, linear and finite.
   Only the property theorems; each is closed by [exact] of a lemma of the development.

   PROVED here: the structural clauses for every arithmetic / oracle / sample format, every depth >= 1,
   every reachable state ([WF]: buffer of 2*depth frames, idx <= depth), and the exact-arithmetic
   clauses over Coq's reals with the true sin, cos and PI.
   NOT proved (tested numerically by lib/props/c18.py and reported as tested): the 1e-12 bound with
   glibc's sin/cos and the rounded PI, linearity "within rounding" and finiteness in IEEE arithmetic.
   "Constant input within 1 % once primed for depth >= 4" is PROVED on exact reals (true sin, cos, PI) for
   depths 4 .. 16 (c18_constant_1pct_small_depths: closed form of the model's interpolate on a constant
   buffer, then Interval on the 2*depth Hann-windowed sinc weights, one lemma per depth); for depth > 16
   and for the rounded evaluation with libm it stays numeric. *)
Require Import Floats.SpecFloat.
Require Import Reals List Arith ZArith.
From Flocq Require Import Core BinarySingleNaN.
From Dasp Require Import Base.Res Base.ListX Base.Float Ring.Bounded Ring.Fixed Ring.FixedSpec
  Dsp.Sinc Dsp.SincProofs Dsp.SincR Dsp.SincRProofs Dsp.SincRun Dsp.SincExamples
  Dsp.SincConst Dsp.SincKernelBound Dsp.SincConstExamples.
Import ListNotations.
Open Scope nat_scope.

(* the kernel half-width computed by the three-way branch is min (idx+1) depth *)
Theorem c18_max_depth : forall (N : num) (M : fmt N) (ch d : nat) (s : sinc N M),
  WF N M ch d s -> max_depth N M s = Ok (Nat.min (idx s + 1) d).
Proof. exact max_depth_wf. Qed.
Print Assumptions c18_max_depth.

(* the usize subtraction nl - n of the left tap cannot underflow, priming phase included *)
Theorem c18_no_underflow : forall (N : num) (M : fmt N) (ch d : nat) (s : sinc N M) (n md : nat),
  WF N M ch d s -> max_depth N M s = Ok md -> n < md ->
  n <= idx s /\ usub (idx s) n = Ok (idx s - n).
Proof. exact no_underflow_md. Qed.
Print Assumptions c18_no_underflow.

(* every tap index (any index at all) is in range after Fixed's wrap and reads a stored frame *)
Theorem c18_taps_in_range : forall (N : num) (M : fmt N) (ch d : nat) (s : sinc N M) (i : nat),
  WF N M ch d s ->
  exists w fr, fwrapped (frames s) i = Ok w /\ w < flen (frames s) /\
               fget (frames s) i = Ok fr /\ nth_error (fdata (frames s)) w = Some fr /\ length fr = ch.
Proof. exact fget_wf. Qed.
Print Assumptions c18_taps_in_range.

(* interpolate never ends in UB, an index panic, an underflow or an assertion: it returns a frame of
   the right width or fails exactly where the sample format's add_amp fails (integer overflow, K5) *)
Theorem c18_no_ub : forall (N : num) (sin_o cos_o : T N -> T N) (M : fmt N) (ch d : nat) (s : sinc N M) (x : T N),
  WF N M ch d s ->
  match interpolate N sin_o cos_o M ch s x with
  | Ok fr => length fr = ch
  | Panic k => exists v p, add_amp_f M v p = Panic k
  | UB => exists v p, add_amp_f M v p = UB
  end.
Proof. exact interpolate_safe. Qed.
Print Assumptions c18_no_ub.

(* ... hence total for the formats whose addition cannot fail (f32, f64, the reals) *)
Theorem c18_total : forall (N : num) (sin_o cos_o : T N -> T N) (M : fmt N) (ch d : nat) (s : sinc N M) (x : T N),
  WF N M ch d s -> (forall v p, exists r, add_amp_f M v p = Ok r) ->
  exists fr, interpolate N sin_o cos_o M ch s x = Ok fr /\ length fr = ch.
Proof. exact interpolate_ok. Qed.
Print Assumptions c18_total.

(* next_source_frame keeps the invariant, advances idx up to depth, shifts the delay line *)
Theorem c18_next_source_frame : forall (N : num) (M : fmt N) (ch d : nat) (s : sinc N M) (fr : list (smp M)),
  WF N M ch d s -> length fr = ch ->
  exists s', next_source_frame N M s fr = Ok s' /\ WF N M ch d s' /\
    idx s' = Nat.min (idx s + 1) d /\
    (exists old q', fq (frames s) = old :: q' /\ fq (frames s') = q' ++ [fr]).
Proof. exact next_source_frame_wf. Qed.
Print Assumptions c18_next_source_frame.

(* reset returns, from every reachable state, exactly the state a fresh interpolator starts from:
   idx 0, first 0, 2*depth equilibrium frames *)
Theorem c18_reset : forall (N : num) (M : fmt N) (ch d : nat) (s : sinc N M),
  WF N M ch d s ->
  reset N M ch s = Ok (silent N M ch d) /\ sinc_init N M ch d = Ok (silent N M ch d) /\
  WF N M ch d (silent N M ch d).
Proof.
  intros N M ch d s W.
  exact (conj (reset_silent N M ch d s W)
              (conj (sinc_init_silent N M ch d (proj1 (proj2 (proj2 W))))
                    (silent_wf N M ch d (proj1 (proj2 (proj2 W)))))).
Qed.
Print Assumptions c18_reset.

(* transparency on the sample grid (reals, true sin/cos/PI): x = 0 returns frames[idx] exactly *)
Theorem c18_grid : forall (ch d : nat) (s : sinc NumR FmtR),
  WF NumR FmtR ch d s -> interpolate NumR sin cos FmtR ch s 0%R = fget (frames s) (idx s).
Proof. exact interpolate_grid. Qed.
Print Assumptions c18_grid.

(* through the Converter at ratio exactly 1, zero-initialised padding: output j is the source frame
   j - depth, equilibrium before (and after the listed source ends); one source frame pulled per
   output after the first *)
Theorem c18_delay : forall (ch d : nat), 1 <= d -> forall (source : list (list R)),
  (forall fr, In fr source -> length fr = ch) -> forall (fuel k : nat), 1 <= fuel ->
  exists s0 c', sinc_init NumR FmtR ch d = Ok s0 /\
    conv_run NumR sin cos FmtR ch fuel (conv_new NumR FmtR source s0 1%R) k
    = Ok (Some (map (fun j => if j <? d then repeat 0%R ch else nth (j - d) source (repeat 0%R ch)) (seq 0 k), c')) /\
    pulls c' = k - 1.
Proof. exact converter_delay. Qed.
Print Assumptions c18_delay.

(* linearity (reals, ANY sin/cos oracle, any position x): the weights do not depend on the data *)
Theorem c18_linear : forall (sin_o cos_o : R -> R) (ch : nat) (a b : R) (d : nat) (sF sG : sinc NumR FmtR) (x : R),
  WF NumR FmtR ch d sF -> WF NumR FmtR ch d sG ->
  first (frames sF) = first (frames sG) -> idx sF = idx sG ->
  exists rF rG, interpolate NumR sin_o cos_o FmtR ch sF x = Ok rF /\
                interpolate NumR sin_o cos_o FmtR ch sG x = Ok rG /\
                interpolate NumR sin_o cos_o FmtR ch (lin_sinc a b sF sG) x = Ok (lin_frame a b rF rG).
Proof. exact interpolate_linear. Qed.
Print Assumptions c18_linear.

(* a constant input (reals, true sin/cos/PI, ANY depth >= 1, any position x): once primed (idx = depth), with
   every buffered frame equal to (c, ..., c), the model's interpolate returns c * ksum on every channel, where
   ksum d x is the sum, in the order of the fold, of the 2*depth weights of Dsp/Sinc.v's [weight] at the tap
   arguments PI*(x + n) and PI*((1 - x) + n), n = 0 .. depth-1 *)
Theorem c18_constant_weight_sum : forall (ch d : nat) (s : sinc NumR FmtR) (c x : R),
  WF NumR FmtR ch d s -> idx s = d -> (forall fr, In fr (fdata (frames s)) -> fr = repeat c ch) ->
  interpolate NumR sin cos FmtR ch s x = Ok (repeat (c * ksum d x)%R ch).
Proof. exact interpolate_const. Qed.
Print Assumptions c18_constant_weight_sum.

(* ... and for depth 4 .. 16 that sum is within 1/100 of 1 at every fractional position: a constant input is
   reproduced within 1 % (of |c|, on every channel) once the buffer is primed.  x = 0 is exact (c18_grid). *)
Theorem c18_constant_1pct_small_depths : forall (ch d : nat) (s : sinc NumR FmtR) (c x : R),
  4 <= d <= 16 -> WF NumR FmtR ch d s -> idx s = d ->
  (forall fr, In fr (fdata (frames s)) -> fr = repeat c ch) -> (0 <= x < 1)%R ->
  exists fr, interpolate NumR sin cos FmtR ch s x = Ok fr /\ length fr = ch /\
             Forall (fun y => Rabs (y - c) <= 1 / 100 * Rabs c)%R fr.
Proof. exact constant_1pct_small_depths. Qed.
Print Assumptions c18_constant_1pct_small_depths.

(* known finding K5: on i16 frames the accumulation can overflow (witness: depth 2, frames
   -32768 -32768 32767 32767, x = 0.5) ... *)
Theorem c18_int_overshoot_refuted : exists sin_o cos_o s x,
  WF NumF64 FmtI16 1 2 s /\ interpolate NumF64 sin_o cos_o FmtI16 1 s x = Panic POverflow.
Proof. exact int_overshoot_refuted. Qed.
Print Assumptions c18_int_overshoot_refuted.

(* ... and outside that class (no overflow of the checked i16 addition) the integer interpolation succeeds *)
Theorem c18_int_outside_class : forall sin_o cos_o ch d (s : sinc NumF64 FmtI16) x,
  WF NumF64 FmtI16 ch d s -> ~ KnownClass_int_overshoot sin_o cos_o ch s x ->
  exists fr, interpolate NumF64 sin_o cos_o FmtI16 ch s x = Ok fr /\ length fr = ch.
Proof. exact i16_outside_class. Qed.
Print Assumptions c18_int_outside_class.

(* ---- the Converter's setters and accessors between outputs (Dsp/SincConv.v, Dsp/SincConvProofs.v) ---- *)
From Dasp Require Import Dsp.SincConv Dsp.SincConvProofs.

(* set_playback_hz_scale / set_hz_to_hz / set_sample_hz_scale change the ratio and nothing else: source, pull
   counter, interpolator and the accumulator are untouched whatever the accumulator holds (0, fractional,
   exactly 1 pending, above 1) *)
Theorem c18_setters_only_ratio : forall (N : num) (M : fmt N) (c : conv N M) (x a b : T N),
  let c1 := conv_set_playback_hz_scale N M c x in
  let c2 := conv_set_hz_to_hz N M c a b in
  let c3 := conv_set_sample_hz_scale N M c x in
  (src c1 = src c /\ pulls c1 = pulls c /\ itp c1 = itp c /\ ival c1 = ival c /\ ratio c1 = x) /\
  (src c2 = src c /\ pulls c2 = pulls c /\ itp c2 = itp c /\ ival c2 = ival c /\ ratio c2 = n_div N a b) /\
  (src c3 = src c /\ pulls c3 = pulls c /\ itp c3 = itp c /\ ival c3 = ival c /\ ratio c3 = n_div N (n_one N) x).
Proof. exact setters_only_ratio. Qed.
Print Assumptions c18_setters_only_ratio.

(* every arithmetic (reals, binary64), every state, every accumulator value: setter calls that announce the
   ratio already in force, and accessor calls, between the outputs are invisible *)
Theorem c18_reannounce_invisible : forall (N : num) (M : fmt N) (ch : nat) (sin_o cos_o : T N -> T N) (fuel : nat)
  (ops : list (cop N)) (c : conv N M),
  Forall (announces N (ratio c)) ops ->
  conv_script N M ch sin_o cos_o fuel c ops = conv_run N sin_o cos_o M ch fuel c (count_next N ops).
Proof. exact conv_script_reannounce. Qed.
Print Assumptions c18_reannounce_invisible.

(* the ratio-1 clause through any such script (reals, true sin/cos/PI): the k-th `next` still yields source
   frame k - depth, one source frame pulled per output after the first *)
Theorem c18_delay_reannounce : forall (ch d : nat), 1 <= d -> forall (source : list (list R)),
  (forall fr, In fr source -> length fr = ch) -> forall (fuel : nat) (ops : list (cop NumR)), 1 <= fuel ->
  Forall (announces NumR 1%R) ops ->
  exists s0 c', sinc_init NumR FmtR ch d = Ok s0 /\
    conv_script NumR FmtR ch sin cos fuel (conv_new NumR FmtR source s0 1%R) ops
    = Ok (Some (map (fun j => if j <? d then repeat 0%R ch else nth (j - d) source (repeat 0%R ch))
                    (seq 0 (count_next NumR ops)), c')) /\
    pulls c' = count_next NumR ops - 1.
Proof. exact converter_delay_script. Qed.
Print Assumptions c18_delay_reannounce.
