(* C16 — Built-in graph nodes compute their documented mixing, routing, delay functions.
   Only the property theorems: each closed by [exact] of a lemma of the development,
   followed by Print Assumptions.

   Conventions (Graph/Nodes.v, Graph/NodesSpec.v): samples are an abstract type with
   [zero] and [add] (f32 `+` in the code: all sums are stated in the code's order of
   summation, nothing is reassociated); a Buffer is a list of LEN samples ([wfb]; LEN = 64
   in the code, arbitrary here); what a node sees of one input is that node's buffer
   list, so [inputs : list (list buffer)]; every result is [Ok _]: no panic (the length
   checks of copy_from_slice / add_in_place never fire) and no out-of-bounds unchecked
   access.  Wrappers (&mut, Box, BoxedNode, BoxedNodeSend, dyn Fn, dyn FnMut, fn) forward
   the call and are the identity in the model: their equivalence is established by the
   correspondence check only. *)
Require Import List Arith Bool Reals Permutation.
From Dasp Require Import Base.Res Base.ListX Ring.Fixed Ring.FixedSpec
  Graph.Nodes Graph.NodesSpec Graph.NodesProofs Graph.NodesDelayProofs Graph.NodesSignalProofs
  Graph.NodesGraphProofs Graph.NodesSumOrder Graph.NodesRun Graph.NodesRunProofs Graph.NodesExamples.
Import ListNotations.
Local Open Scope nat_scope.

(* Sum: for any number of inputs with any numbers of buffers, output channel c, sample i
   becomes the left fold of `+` from zero over sample i of channel c of the inputs that
   have a channel c, in input order ([sum_spec]/[sum_row]/[chan_samples]). *)
Theorem c16_sum : forall (Smp : Type) (zero : Smp) (add : Smp -> Smp -> Smp) (LEN : nat)
    (inputs : list (list (list Smp))) (output : list (list Smp)),
  Forall (wfbs LEN) inputs -> wfbs LEN output ->
  sum_process zero add LEN inputs output = Ok (sum_spec zero add LEN inputs (length output)).
Proof. exact @sum_correct. Qed.
Print Assumptions c16_sum.

(* ... read pointwise *)
Theorem c16_sum_sample : forall (Smp : Type) (zero : Smp) (add : Smp -> Smp -> Smp) (LEN : nat)
    (inputs : list (list (list Smp))) (nout c i : nat), c < nout -> i < LEN ->
  nth2 (sum_spec zero add LEN inputs nout) c i = Some (fold_left add (chan_samples inputs c i) zero).
Proof. exact @sum_spec_nth. Qed.
Print Assumptions c16_sum_sample.

(* no inputs: silence on every output *)
Theorem c16_sum_no_inputs : forall (Smp : Type) (zero : Smp) (add : Smp -> Smp -> Smp) (LEN : nat)
    (output : list (list Smp)), wfbs LEN output ->
  sum_process zero add LEN [] output = Ok (repeat (repeat zero LEN) (length output)).
Proof. exact @sum_no_inputs. Qed.
Print Assumptions c16_sum_no_inputs.

(* with an associative, commutative addition the order of the inputs is irrelevant ... *)
Theorem c16_sum_order : forall (Smp : Type) (zero : Smp) (add : Smp -> Smp -> Smp) (LEN : nat),
  (forall x y z, add x (add y z) = add (add x y) z) -> (forall x y, add x y = add y x) ->
  forall (inputs inputs' : list (list (list Smp))) (n : nat), Permutation inputs inputs' ->
  sum_spec zero add LEN inputs n = sum_spec zero add LEN inputs' n.
Proof. exact @sum_order_irrelevant. Qed.
Print Assumptions c16_sum_order.

(* ... and over the reals every sample is the sum of the channel's samples
   (uses the axioms of Coq's real numbers) *)
Theorem c16_sum_real : forall (LEN : nat) (inputs : list (list (list R))) (nout c i : nat),
  c < nout -> i < LEN ->
  nth2 (sum_spec 0%R Rplus LEN inputs nout) c i = Some (fold_right Rplus 0%R (chan_samples inputs c i)).
Proof. exact sum_real. Qed.
Print Assumptions c16_sum_real.

(* SumBuffers: every output buffer = fold of `+` from zero over all buffers of all inputs
   (input by input, buffer by buffer); with no output buffers nothing happens. *)
Theorem c16_sum_buffers : forall (Smp : Type) (zero : Smp) (add : Smp -> Smp -> Smp) (LEN : nat)
    (inputs : list (list (list Smp))) (output : list (list Smp)),
  Forall (wfbs LEN) inputs -> wfbs LEN output ->
  sum_buffers_process zero add LEN inputs output
  = Ok (map (fun _ => map (fun i => fold_left add (column (concat inputs) i) zero) (seq 0 LEN)) output).
Proof. exact @sum_buffers_correct. Qed.
Print Assumptions c16_sum_buffers.

(* Pass: the buffers of the FIRST input (the others are ignored) are copied onto the
   corresponding outputs; surplus outputs keep their content; surplus input buffers are
   dropped; without inputs nothing is written. *)
Theorem c16_pass : forall (Smp : Type) (LEN : nat) (inputs : list (list (list Smp))) (output : list (list Smp)),
  Forall (wfbs LEN) inputs -> wfbs LEN output ->
  pass_process inputs output =
  Ok (match inputs with
      | [] => output
      | inp :: _ => firstn (length output) inp ++ skipn (length inp) output
      end).
Proof. exact @pass_correct. Qed.
Print Assumptions c16_pass.

(* Delay, one call: it succeeds from every valid ring state, keeps every ring valid and
   of the same length, and for every channel c that has a ring, a buffer in the first
   input and an output buffer, the output is the first LEN elements of (ring content,
   oldest first, followed by the input buffer) and the ring keeps the rest; every other
   ring / output buffer is untouched ([chan_rel]). *)
Theorem c16_delay_call : forall (Smp : Type) (LEN : nat) (rings : list (fixed Smp))
    (inputs : list (list (list Smp))) (output : list (list Smp)),
  Forall InvF rings -> Forall (wfbs LEN) inputs -> wfbs LEN output ->
  exists rings' out', delay_process rings inputs output = Ok (rings', out') /\
    Forall InvF rings' /\ wfbs LEN out' /\ length rings' = length rings /\ length out' = length output /\
    forall c, chan_rel LEN (nth_error rings c) (chan_in c inputs) (nth_error output c)
                       (nth_error rings' c) (nth_error out' c).
Proof.
  intros Smp LEN rings inputs output Hr Hi Ho.
  destruct (delay_call_total LEN rings inputs output Hr Hi Ho) as [r' [o' [E [A [B [C D]]]]]].
  exists r', o'. repeat split; auto. intros c. exact (delay_call_chan LEN rings inputs output r' o' c Hr Hi Ho E).
Qed.
Print Assumptions c16_delay_call.

(* Delay, any number of consecutive calls (each with any inputs): for every channel, the
   outputs of the calls that fed the channel, concatenated, are the ring's initial
   content (oldest first) followed by the channel's input stream, cut to the stream's
   length: sample k of the input comes out as sample k + (ring length), continuously
   across calls.  (From C06's delay-line theorem for Fixed.) *)
Theorem c16_delay : forall (Smp : Type) (LEN : nat) (calls : list (list (list (list Smp))))
    (rings : list (fixed Smp)) (output : list (list Smp)),
  Forall InvF rings -> Forall (fun inputs => Forall (wfbs LEN) inputs) calls -> wfbs LEN output ->
  exists rings' outs, delay_calls rings calls output = Ok (rings', outs) /\
    length outs = length calls /\ Forall (fun o => length o = length output) outs /\
    forall c r, nth_error rings c = Some r -> c < length output ->
      fed_stream c calls outs = firstn (length (in_stream c calls)) (fq r ++ in_stream c calls).
Proof. exact @delay_stream. Qed.
Print Assumptions c16_delay.

(* ... and when the owner of the graph replaces the node's buffer list between calls
   (NodeData::buffers taken away, put back, resized): a channel's stream over the calls in
   which it has both an input and an output buffer is still continuous; channels without
   a buffer in a call are not advanced by it. *)
Theorem c16_delay_varying : forall (Smp : Type) (LEN : nat)
    (calls : list (list (list (list Smp)) * list (list Smp))) (rings : list (fixed Smp)),
  Forall InvF rings ->
  Forall (fun call => Forall (wfbs LEN) (fst call) /\ wfbs LEN (snd call)) calls ->
  exists rings' outs, delay_calls_v rings calls = Ok (rings', outs) /\
    Forall InvF rings' /\ length rings' = length rings /\
    Forall2 (fun call o => length o = length (snd call)) calls outs /\
    forall c r, nth_error rings c = Some r ->
      fed_stream_v c calls outs = firstn (length (in_stream_v c calls)) (fq r ++ in_stream_v c calls).
Proof. exact @delay_stream_v. Qed.
Print Assumptions c16_delay_varying.

(* Signal node, one call: exactly LEN frames are pulled, in order; frame j's channel ch is
   written to output[ch][j] for ch < min(CHANNELS, outputs); everything else is untouched;
   the inputs are ignored. *)
Theorem c16_signal_call : forall (Smp St : Type) (LEN : nat) (next : St -> list Smp * St) (CH : nat),
  (forall st, length (fst (next st)) = CH) ->
  forall (st : St) (inputs : list (list (list Smp))) (out : list (list Smp)), wfbs LEN out ->
  exists out', signal_process LEN next CH st inputs out = Ok (sig_state next LEN st, out') /\
    wfbs LEN out' /\ length out' = length out /\
    forall ch j, nth2 out' ch j =
      if (ch <? Nat.min CH (length out)) && (j <? LEN) then nth_error (sig_frame next j st) ch
      else nth2 out ch j.
Proof. exact @signal_call. Qed.
Print Assumptions c16_signal_call.

(* Signal node, n consecutive calls: call k writes frames k*LEN .. k*LEN+LEN-1
   de-interleaved; after n calls n*LEN frames have been pulled. *)
Theorem c16_signal_node : forall (Smp St : Type) (LEN : nat) (next : St -> list Smp * St) (CH : nat),
  (forall st, length (fst (next st)) = CH) ->
  forall (n : nat) (st : St) (out : list (list Smp)), wfbs LEN out ->
  exists outs, signal_calls LEN next CH n st out = Ok (sig_state next (n * LEN) st, outs) /\ length outs = n /\
    forall k o, nth_error outs k = Some o ->
      length o = length out /\ wfbs LEN o /\
      forall ch j, j < LEN ->
        nth2 o ch j = if ch <? Nat.min CH (length out) then nth_error (sig_frame next (k * LEN + j) st) ch
                      else nth2 out ch j.
Proof. exact @signal_stream. Qed.
Print Assumptions c16_signal_node.

(* ... and with a different buffer list in every call (any numbers of buffers, ZERO
   included): every call pulls exactly LEN frames, call k writes frames k*LEN .. onto the
   buffers it was given. *)
Theorem c16_signal_node_varying : forall (Smp St : Type) (LEN : nat) (next : St -> list Smp * St) (CH : nat),
  (forall st, length (fst (next st)) = CH) ->
  forall (outs : list (list (list Smp))) (st : St), Forall (wfbs LEN) outs ->
  exists res, signal_calls_v LEN next CH outs st = Ok (sig_state next (length outs * LEN) st, res) /\
    length res = length outs /\
    forall k out o, nth_error outs k = Some out -> nth_error res k = Some o ->
      length o = length out /\ wfbs LEN o /\
      forall ch j, j < LEN ->
        nth2 o ch j = if ch <? Nat.min CH (length out) then nth_error (sig_frame next (k * LEN + j) st) ch
                      else nth2 out ch j.
Proof. exact @signal_stream_v. Qed.
Print Assumptions c16_signal_node_varying.

(* GraphNode over any inner graph with a buffer lens: input j's buffers are zip-copied
   into inner node ids[j] (for j < min(#inputs, #ids); all other inner nodes untouched),
   the inner graph is processed up to the output node, and that node's buffers are
   zip-copied onto the outputs; an inner panic propagates. *)
Theorem c16_graph_node : forall (Smp G : Type) (LEN : nat)
    (gbufs : G -> nat -> option (list (list Smp))) (gset : G -> nat -> list (list Smp) -> G)
    (gprocess : G -> nat -> res G),
  (forall g n b, gbufs g n <> None -> gbufs (gset g n b) n = Some b) ->
  (forall g n m b, m <> n -> gbufs (gset g n b) m = gbufs g m) ->
  forall (ids : list nat) (on : nat) (g : G) (inputs : list (list (list Smp))) (output : list (list Smp)),
  Forall (wfbs LEN) inputs -> wfbs LEN output -> NoDup ids ->
  (forall n, In n ids -> exists nb, gbufs g n = Some nb /\ wfbs LEN nb) ->
  exists g1, graph_copy_in gbufs gset g inputs ids = Ok g1 /\
    (forall j n inp nb, nth_error ids j = Some n -> nth_error inputs j = Some inp -> gbufs g n = Some nb ->
       gbufs g1 n = Some (firstn (length nb) inp ++ skipn (length inp) nb)) /\
    (forall m, ~ In m (firstn (length inputs) ids) -> gbufs g1 m = gbufs g m) /\
    (forall g2 ob, gprocess g1 on = Ok g2 -> gbufs g2 on = Some ob -> wfbs LEN ob ->
       graph_process gbufs gset gprocess ids on g inputs output
       = Ok (g2, firstn (length output) ob ++ skipn (length ob) output)) /\
    (forall k, gprocess g1 on = Panic k ->
       graph_process gbufs gset gprocess ids on g inputs output = Panic k).
Proof. exact @graph_node_correct. Qed.
Print Assumptions c16_graph_node.

(* the inner-graph instance that the executable model runs satisfies the lens laws *)
Theorem c16_graph_star_lens : forall (Smp : Type),
  (forall (g : @star Smp) n b, star_bufs g n <> None -> star_bufs (star_set g n b) n = Some b) /\
  (forall (g : @star Smp) n m b, m <> n -> star_bufs (star_set g n b) m = star_bufs g m).
Proof. intros Smp. exact (conj (@star_get_set_eq Smp) (@star_get_set_neq Smp)). Qed.
Print Assumptions c16_graph_star_lens.
