(* C16 — Built-in graph nodes compute their documented mixing, routing, delay functions.
   Only the property theorems: each closed by [exact] of a lemma of the development,
   followed by Print Assumptions.

   Conventions (Graph/Nodes.v, Graph/NodesSpec.v): samples are an abstract type with
   [zero] and [add] (f32 `+` in the code: all sums are stated in the code's order of
   summation, nothing is reassociated); a Buffer is a list of LEN samples ([wfb]; LEN = 64
   in the code, arbitrary here); what a node sees of one input is that node's buffer
   list, so [inputs : list (list buffer)]; every result is [Ok _]: no panic (the length
   checks of copy_from_slice / add_in_place never fire) and no out-of-bounds unchecked
   access.  Wrappers (&mut, Box, BoxedNode, BoxedNodeSend, dyn Fn, dyn FnMut, fn) forward
   the call and are the identity in the model: their equivalence is established by the
   correspondence check only. *)
Require Import List Arith Bool Reals Permutation.
From Dasp Require Import Base.Res Base.ListX Ring.Fixed Ring.FixedSpec
  Graph.Nodes Graph.NodesSpec Graph.NodesProofs Graph.NodesDelayProofs Graph.NodesSignalProofs
  Graph.NodesGraphProofs Graph.NodesSumOrder Graph.NodesRun Graph.NodesRunProofs Graph.NodesExamples
  Graph.Dfs Graph.Process Graph.ProcessSpec Graph.ProcessProofs Graph.NodesCompose Graph.NodesComposeProofs
  Graph.NodesComposeInst Graph.NodesComposeExamples.
Import ListNotations.
Local Open Scope nat_scope.

(* Sum: for any number of inputs with any numbers of buffers, output channel c, sample i
   becomes the left fold of `+` from zero over sample i of channel c of the inputs that
   have a channel c, in input order ([sum_spec]/[sum_row]/[chan_samples]). *)
Theorem c16_sum : forall (Smp : Type) (zero : Smp) (add : Smp -> Smp -> Smp) (LEN : nat)
    (inputs : list (list (list Smp))) (output : list (list Smp)),
  Forall (wfbs LEN) inputs -> wfbs LEN output ->
  sum_process zero add LEN inputs output = Ok (sum_spec zero add LEN inputs (length output)).
Proof. exact @sum_correct. Qed.
Print Assumptions c16_sum.

(* ... read pointwise *)
Theorem c16_sum_sample : forall (Smp : Type) (zero : Smp) (add : Smp -> Smp -> Smp) (LEN : nat)
    (inputs : list (list (list Smp))) (nout c i : nat), c < nout -> i < LEN ->
  nth2 (sum_spec zero add LEN inputs nout) c i = Some (fold_left add (chan_samples inputs c i) zero).
Proof. exact @sum_spec_nth. Qed.
Print Assumptions c16_sum_sample.

(* no inputs: silence on every output *)
Theorem c16_sum_no_inputs : forall (Smp : Type) (zero : Smp) (add : Smp -> Smp -> Smp) (LEN : nat)
    (output : list (list Smp)), wfbs LEN output ->
  sum_process zero add LEN [] output = Ok (repeat (repeat zero LEN) (length output)).
Proof. exact @sum_no_inputs. Qed.
Print Assumptions c16_sum_no_inputs.

(* with an associative, commutative addition the order of the inputs is irrelevant ... *)
Theorem c16_sum_order : forall (Smp : Type) (zero : Smp) (add : Smp -> Smp -> Smp) (LEN : nat),
  (forall x y z, add x (add y z) = add (add x y) z) -> (forall x y, add x y = add y x) ->
  forall (inputs inputs' : list (list (list Smp))) (n : nat), Permutation inputs inputs' ->
  sum_spec zero add LEN inputs n = sum_spec zero add LEN inputs' n.
Proof. exact @sum_order_irrelevant. Qed.
Print Assumptions c16_sum_order.

(* ... and over the reals every sample is the sum of the channel's samples
   (uses the axioms of Coq's real numbers) *)
Theorem c16_sum_real : forall (LEN : nat) (inputs : list (list (list R))) (nout c i : nat),
  c < nout -> i < LEN ->
  nth2 (sum_spec 0%R Rplus LEN inputs nout) c i = Some (fold_right Rplus 0%R (chan_samples inputs c i)).
Proof. exact sum_real. Qed.
Print Assumptions c16_sum_real.

(* SumBuffers: every output buffer = fold of `+` from zero over all buffers of all inputs
   (input by input, buffer by buffer); with no output buffers nothing happens. *)
Theorem c16_sum_buffers : forall (Smp : Type) (zero : Smp) (add : Smp -> Smp -> Smp) (LEN : nat)
    (inputs : list (list (list Smp))) (output : list (list Smp)),
  Forall (wfbs LEN) inputs -> wfbs LEN output ->
  sum_buffers_process zero add LEN inputs output
  = Ok (map (fun _ => map (fun i => fold_left add (column (concat inputs) i) zero) (seq 0 LEN)) output).
Proof. exact @sum_buffers_correct. Qed.
Print Assumptions c16_sum_buffers.

(* Pass: the buffers of the FIRST input (the others are ignored) are copied onto the
   corresponding outputs; surplus outputs keep their content; surplus input buffers are
   dropped; without inputs nothing is written. *)
Theorem c16_pass : forall (Smp : Type) (LEN : nat) (inputs : list (list (list Smp))) (output : list (list Smp)),
  Forall (wfbs LEN) inputs -> wfbs LEN output ->
  pass_process inputs output =
  Ok (match inputs with
      | [] => output
      | inp :: _ => firstn (length output) inp ++ skipn (length inp) output
      end).
Proof. exact @pass_correct. Qed.
Print Assumptions c16_pass.

(* Delay, one call: it succeeds from every valid ring state, keeps every ring valid and
   of the same length, and for every channel c that has a ring, a buffer in the first
   input and an output buffer, the output is the first LEN elements of (ring content,
   oldest first, followed by the input buffer) and the ring keeps the rest; every other
   ring / output buffer is untouched ([chan_rel]). *)
Theorem c16_delay_call : forall (Smp : Type) (LEN : nat) (rings : list (fixed Smp))
    (inputs : list (list (list Smp))) (output : list (list Smp)),
  Forall InvF rings -> Forall (wfbs LEN) inputs -> wfbs LEN output ->
  exists rings' out', delay_process rings inputs output = Ok (rings', out') /\
    Forall InvF rings' /\ wfbs LEN out' /\ length rings' = length rings /\ length out' = length output /\
    forall c, chan_rel LEN (nth_error rings c) (chan_in c inputs) (nth_error output c)
                       (nth_error rings' c) (nth_error out' c).
Proof.
  intros Smp LEN rings inputs output Hr Hi Ho.
  destruct (delay_call_total LEN rings inputs output Hr Hi Ho) as [r' [o' [E [A [B [C D]]]]]].
  exists r', o'. repeat split; auto. intros c. exact (delay_call_chan LEN rings inputs output r' o' c Hr Hi Ho E).
Qed.
Print Assumptions c16_delay_call.

(* Delay, any number of consecutive calls (each with any inputs): for every channel, the
   outputs of the calls that fed the channel, concatenated, are the ring's initial
   content (oldest first) followed by the channel's input stream, cut to the stream's
   length: sample k of the input comes out as sample k + (ring length), continuously
   across calls.  (From C06's delay-line theorem for Fixed.) *)
Theorem c16_delay : forall (Smp : Type) (LEN : nat) (calls : list (list (list (list Smp))))
    (rings : list (fixed Smp)) (output : list (list Smp)),
  Forall InvF rings -> Forall (fun inputs => Forall (wfbs LEN) inputs) calls -> wfbs LEN output ->
  exists rings' outs, delay_calls rings calls output = Ok (rings', outs) /\
    length outs = length calls /\ Forall (fun o => length o = length output) outs /\
    forall c r, nth_error rings c = Some r -> c < length output ->
      fed_stream c calls outs = firstn (length (in_stream c calls)) (fq r ++ in_stream c calls).
Proof. exact @delay_stream. Qed.
Print Assumptions c16_delay.

(* ... and when the owner of the graph replaces the node's buffer list between calls
   (NodeData::buffers taken away, put back, resized): a channel's stream over the calls in
   which it has both an input and an output buffer is still continuous; channels without
   a buffer in a call are not advanced by it. *)
Theorem c16_delay_varying : forall (Smp : Type) (LEN : nat)
    (calls : list (list (list (list Smp)) * list (list Smp))) (rings : list (fixed Smp)),
  Forall InvF rings ->
  Forall (fun call => Forall (wfbs LEN) (fst call) /\ wfbs LEN (snd call)) calls ->
  exists rings' outs, delay_calls_v rings calls = Ok (rings', outs) /\
    Forall InvF rings' /\ length rings' = length rings /\
    Forall2 (fun call o => length o = length (snd call)) calls outs /\
    forall c r, nth_error rings c = Some r ->
      fed_stream_v c calls outs = firstn (length (in_stream_v c calls)) (fq r ++ in_stream_v c calls).
Proof. exact @delay_stream_v. Qed.
Print Assumptions c16_delay_varying.

(* Signal node, one call: exactly LEN frames are pulled, in order; frame j's channel ch is
   written to output[ch][j] for ch < min(CHANNELS, outputs); everything else is untouched;
   the inputs are ignored. *)
Theorem c16_signal_call : forall (Smp St : Type) (LEN : nat) (next : St -> list Smp * St) (CH : nat),
  (forall st, length (fst (next st)) = CH) ->
  forall (st : St) (inputs : list (list (list Smp))) (out : list (list Smp)), wfbs LEN out ->
  exists out', signal_process LEN next CH st inputs out = Ok (sig_state next LEN st, out') /\
    wfbs LEN out' /\ length out' = length out /\
    forall ch j, nth2 out' ch j =
      if (ch <? Nat.min CH (length out)) && (j <? LEN) then nth_error (sig_frame next j st) ch
      else nth2 out ch j.
Proof. exact @signal_call. Qed.
Print Assumptions c16_signal_call.

(* Signal node, n consecutive calls: call k writes frames k*LEN .. k*LEN+LEN-1
   de-interleaved; after n calls n*LEN frames have been pulled. *)
Theorem c16_signal_node : forall (Smp St : Type) (LEN : nat) (next : St -> list Smp * St) (CH : nat),
  (forall st, length (fst (next st)) = CH) ->
  forall (n : nat) (st : St) (out : list (list Smp)), wfbs LEN out ->
  exists outs, signal_calls LEN next CH n st out = Ok (sig_state next (n * LEN) st, outs) /\ length outs = n /\
    forall k o, nth_error outs k = Some o ->
      length o = length out /\ wfbs LEN o /\
      forall ch j, j < LEN ->
        nth2 o ch j = if ch <? Nat.min CH (length out) then nth_error (sig_frame next (k * LEN + j) st) ch
                      else nth2 out ch j.
Proof. exact @signal_stream. Qed.
Print Assumptions c16_signal_node.

(* ... and with a different buffer list in every call (any numbers of buffers, ZERO
   included): every call pulls exactly LEN frames, call k writes frames k*LEN .. onto the
   buffers it was given. *)
Theorem c16_signal_node_varying : forall (Smp St : Type) (LEN : nat) (next : St -> list Smp * St) (CH : nat),
  (forall st, length (fst (next st)) = CH) ->
  forall (outs : list (list (list Smp))) (st : St), Forall (wfbs LEN) outs ->
  exists res, signal_calls_v LEN next CH outs st = Ok (sig_state next (length outs * LEN) st, res) /\
    length res = length outs /\
    forall k out o, nth_error outs k = Some out -> nth_error res k = Some o ->
      length o = length out /\ wfbs LEN o /\
      forall ch j, j < LEN ->
        nth2 o ch j = if ch <? Nat.min CH (length out) then nth_error (sig_frame next (k * LEN + j) st) ch
                      else nth2 out ch j.
Proof. exact @signal_stream_v. Qed.
Print Assumptions c16_signal_node_varying.

(* GraphNode over any inner graph with a buffer lens: input j's buffers are zip-copied
   into inner node ids[j] (for j < min(#inputs, #ids); all other inner nodes untouched),
   the inner graph is processed up to the output node, and that node's buffers are
   zip-copied onto the outputs; an inner panic propagates. *)
Theorem c16_graph_node : forall (Smp G : Type) (LEN : nat)
    (gbufs : G -> nat -> option (list (list Smp))) (gset : G -> nat -> list (list Smp) -> G)
    (gprocess : G -> nat -> res G),
  (forall g n b, gbufs g n <> None -> gbufs (gset g n b) n = Some b) ->
  (forall g n m b, m <> n -> gbufs (gset g n b) m = gbufs g m) ->
  forall (ids : list nat) (on : nat) (g : G) (inputs : list (list (list Smp))) (output : list (list Smp)),
  Forall (wfbs LEN) inputs -> wfbs LEN output -> NoDup ids ->
  (forall n, In n ids -> exists nb, gbufs g n = Some nb /\ wfbs LEN nb) ->
  exists g1, graph_copy_in gbufs gset g inputs ids = Ok g1 /\
    (forall j n inp nb, nth_error ids j = Some n -> nth_error inputs j = Some inp -> gbufs g n = Some nb ->
       gbufs g1 n = Some (firstn (length nb) inp ++ skipn (length inp) nb)) /\
    (forall m, ~ In m (firstn (length inputs) ids) -> gbufs g1 m = gbufs g m) /\
    (forall g2 ob, gprocess g1 on = Ok g2 -> gbufs g2 on = Some ob -> wfbs LEN ob ->
       graph_process gbufs gset gprocess ids on g inputs output
       = Ok (g2, firstn (length output) ob ++ skipn (length ob) output)) /\
    (forall k, gprocess g1 on = Panic k ->
       graph_process gbufs gset gprocess ids on g inputs output = Panic k).
Proof. exact @graph_node_correct. Qed.
Print Assumptions c16_graph_node.

(* the inner-graph instance that the executable model runs satisfies the lens laws *)
Theorem c16_graph_star_lens : forall (Smp : Type),
  (forall (g : @star Smp) n b, star_bufs g n <> None -> star_bufs (star_set g n b) n = Some b) /\
  (forall (g : @star Smp) n m b, m <> n -> star_bufs (star_set g n b) m = star_bufs g m).
Proof. intros Smp. exact (conj (@star_get_set_eq Smp) (@star_get_set_neq Smp)). Qed.
Print Assumptions c16_graph_star_lens.

(* ---- GraphNode composed with the C09 traversal model (Graph/NodesCompose.v) ----
   [gn_process nprocess ids on (p, g)] is [graph_process] above with its three abstract parameters
   instantiated: the inner graph [g] is a C09 multigraph of (node, buffers) weights, the buffer lens
   is node_weight(n).buffers, and the inner processing is [process_r]: the loops of
   dasp_graph::process (DfsPostOrder over the reversed multigraph, one input per incoming edge,
   newest first) with the inner node type's own Node::process [nprocess], which may panic.
   What is asked of the inner node type: an invariant [nok] under which Node::process, given
   well-formed inputs and buffers, returns, keeps the invariant and leaves well-formed buffers. *)

(* the loops with panicking nodes ARE the C09 model [process] (so every theorem of props/C09.v
   applies) as long as every node satisfies an invariant under which the node function returns *)
Theorem c16_process_with_panics_is_c09 : forall (W B : Type) (bufs : W -> B) (nstep : W -> list B -> res W)
  (ok : W -> Prop) (okb : B -> Prop),
  (forall w, ok w -> okb (bufs w)) ->
  (forall w ins, ok w -> Forall okb ins -> exists w', nstep w ins = Ok w' /\ ok w') ->
  forall (p : processor) (g : graph W) (out : nat), all_ok ok g ->
  process_r bufs nstep p g out = process bufs (tot nstep) p g out.
Proof. exact @process_r_total. Qed.
Print Assumptions c16_process_with_panics_is_c09.

(* GraphNode over ANY inner multigraph (cycles, self-loops, parallel edges, vacancies, nodes that
   do not feed the output node, repeated input nodes): the call returns; it is the copy-in (closed
   form [copy_in_spec]), the C09 model from the output node, the copy-out; graph shape and
   invariants are kept, so it can be called again, any number of times *)
Theorem c16_graph_node_is_c09 : forall (Smp N : Type) (LEN : nat)
  (nprocess : N -> list (list (list Smp)) -> list (list Smp) -> res (N * list (list Smp))) (nok : N -> Prop),
  (forall nd ins out, nok nd -> Forall (wfbs LEN) ins -> wfbs LEN out ->
     exists nd' out', nprocess nd ins out = Ok (nd', out') /\ nok nd' /\ wfbs LEN out') ->
  forall (ids : list nat) (on : nat) (p : processor) (g : graph (N * list (list Smp)))
         (inputs : list (list (list Smp))) (output : list (list Smp)),
  wf g -> live g on = true -> all_ok (wok LEN nok) g -> (forall n, In n ids -> live g n = true) ->
  Forall (wfbs LEN) inputs -> wfbs LEN output ->
  let g1 := copy_in_spec g inputs ids in
  exists p' g2 log wo,
    process ibufs (tot (istep nprocess)) p g1 on = Ok (p', g2, log) /\ weight g2 on = Some wo /\
    gn_process nprocess ids on (p, g) inputs output = Ok ((p', g2), zip_copy_spec output (snd wo)) /\
    same_shape g g1 /\ same_shape g g2 /\ all_ok (wok LEN nok) g2 /\ wfbs LEN (zip_copy_spec output (snd wo)).
Proof. exact @gn_process_c09. Qed.
Print Assumptions c16_graph_node_is_c09.

(* acyclic inner upstream subgraph of any shape: the inner graph ends as the functional evaluation
   [eval] (props/C09.v: c09_functional_stateful) of the graph after copy-in, inner nodes that do not
   feed the output node are untouched, the node's output is the evaluated output node's buffers
   zip-copied onto its own buffers *)
Theorem c16_graph_node_functional : forall (Smp N : Type) (LEN : nat)
  (nprocess : N -> list (list (list Smp)) -> list (list Smp) -> res (N * list (list Smp))) (nok : N -> Prop),
  (forall nd ins out, nok nd -> Forall (wfbs LEN) ins -> wfbs LEN out ->
     exists nd' out', nprocess nd ins out = Ok (nd', out') /\ nok nd' /\ wfbs LEN out') ->
  forall (ids : list nat) (on : nat) (p : processor) (g : graph (N * list (list Smp)))
         (inputs : list (list (list Smp))) (output : list (list Smp)),
  wf g -> live g on = true -> all_ok (wok LEN nok) g -> (forall n, In n ids -> live g n = true) ->
  Forall (wfbs LEN) inputs -> wfbs LEN output -> acyclic_upstream g on ->
  let g1 := copy_in_spec g inputs ids in
  exists p' g2 wo,
    gn_process nprocess ids on (p, g) inputs output = Ok ((p', g2), zip_copy_spec output (snd wo)) /\
    eval ibufs (tot (istep nprocess)) g1 (length (slots g1)) on = Some wo /\
    (forall v, upstream g1 on v -> weight g2 v = eval ibufs (tot (istep nprocess)) g1 (length (slots g1)) v) /\
    (forall v, ~ upstream g1 on v -> weight g2 v = weight g1 v) /\
    same_shape g g2 /\ all_ok (wok LEN nok) g2 /\ wfbs LEN (zip_copy_spec output (snd wo)).
Proof. exact @gn_process_functional. Qed.
Print Assumptions c16_graph_node_functional.

(* the node type "plain node or graph node over plain nodes" again satisfies what is asked of an
   inner node type: graph nodes nest to any depth *)
Theorem c16_graph_node_nests : forall (Smp N : Type) (LEN : nat)
  (nprocess : N -> list (list (list Smp)) -> list (list Smp) -> res (N * list (list Smp))) (nok : N -> Prop),
  (forall nd ins out, nok nd -> Forall (wfbs LEN) ins -> wfbs LEN out ->
     exists nd' out', nprocess nd ins out = Ok (nd', out') /\ nok nd' /\ wfbs LEN out') ->
  forall (o : @onode Smp N) ins out, onok LEN nok o -> Forall (wfbs LEN) ins -> wfbs LEN out ->
  exists o' out', oprocess nprocess o ins out = Ok (o', out') /\ onok LEN nok o' /\ wfbs LEN out'.
Proof. exact @oprocess_ok. Qed.
Print Assumptions c16_graph_node_nests.

(* wrapped in an OUTER graph processed by the C09 model: the run returns whatever the inner shapes,
   it is the C09 model run (all of props/C09.v applies), and every graph node t upstream of the outer
   output node with an acyclic inner upstream subgraph ends with inner graph = functional evaluation
   of its inner graph after copy-in of INS, output = the evaluated inner output node's buffers
   zip-copied onto its own, INS = the FINAL buffers of the outer nodes feeding t (one per edge,
   newest edge first): the nested graph node behaves exactly like the graph it wraps *)
Theorem c16_graph_node_composed : forall (Smp N : Type) (LEN : nat)
  (nprocess : N -> list (list (list Smp)) -> list (list Smp) -> res (N * list (list Smp))) (nok : N -> Prop),
  (forall nd ins out, nok nd -> Forall (wfbs LEN) ins -> wfbs LEN out ->
     exists nd' out', nprocess nd ins out = Ok (nd', out') /\ nok nd' /\ wfbs LEN out') ->
  forall (p : processor) (G : graph (@onode Smp N * list (list Smp))) (out : nat),
  wf G -> live G out = true -> acyclic_upstream G out -> all_ok (wok LEN (onok LEN nok)) G ->
  exists p' G' log,
    process_r ibufs (istep (oprocess nprocess)) p G out = Ok (p', G', log) /\
    process ibufs (tot (istep (oprocess nprocess))) p G out = Ok (p', G', log) /\
    all_ok (wok LEN (onok LEN nok)) G' /\
    forall t pi gi ids on ob, upstream G out t -> weight G t = Some (OGraph pi gi ids on, ob) ->
      acyclic_upstream gi on ->
      let INS := flat_map (fun u => match weight G' u with Some w' => [ibufs w'] | None => [] end) (ins G t) in
      let g1 := copy_in_spec gi INS ids in
      exists pi' gi' wo,
        weight G' t = Some (OGraph pi' gi' ids on, zip_copy_spec ob (snd wo)) /\
        eval ibufs (tot (istep nprocess)) g1 (length (slots g1)) on = Some wo /\
        (forall v, upstream g1 on v -> weight gi' v = eval ibufs (tot (istep nprocess)) g1 (length (slots g1)) v) /\
        (forall v, ~ upstream g1 on v -> weight gi' v = weight g1 v).
Proof. exact @outer_graph_node_composed. Qed.
Print Assumptions c16_graph_node_composed.

(* the built-in nodes the executable model runs (Sum, SumBuffers, Pass, Delay with valid rings, the
   signal node with frames of its channel count) are such an inner node type, for the code's
   buffer length 64: so the theorems above are about graphs of these nodes, of graph nodes of
   these nodes, ... *)
Theorem c16_builtin_nodes_compose : forall (Smp : Type) (zero : Smp) (add : Smp -> Smp -> Smp)
  (nd : node Smp) (inp : list (list (list Smp))) (out : list (list Smp)),
  builtin_ok nd -> Forall (wfbs BLEN) inp -> wfbs BLEN out ->
  exists nd' out', nprocess zero add nd inp out = Ok (nd', out') /\ builtin_ok nd' /\ wfbs BLEN out'.
Proof. exact @builtin_process_ok. Qed.
Print Assumptions c16_builtin_nodes_compose.
