(* C08 — the rate converter positions and consumes source frames exactly by the rate ratio.
   Only the property theorems; each is closed by [exact] of a lemma of the development.

   Model: Signal/Converter.v (Converter::next / is_exhausted / constructors / set_*, Floor, Linear,
   from_iter, MulHz) over a numeric record.  [run fuel rs c] sets ratio r_k before output k (what
   MulHz does from its control signal; a constant ratio is the list [repeat r n], see
   [c08_constant_ratio_is_run]) and records, per output: is_exhausted before it, the frame, the
   source's pull counter, the iterator-call counter and the accumulator after it.
   Theorems on the real-number instance NR/fmt_R: exact arithmetic, samples are reals.
   [start s i r0] is the state built by the constructors from a source [s] (in any state, i.e.
   after any priming) and a primed interpolator [i]; [fuel_ok fuel rs] says every ratio is > 0
   and the loop fuel exceeds every ratio by one (the while loop is modelled with fuel).
     Ppos rs n        = P_n = r_0 + ... + r_(n-1)
     fl x, pulled_before rs n = floor as nat; floor(P_(n-1)), 0 for n = 0
     stream s j       = j-th remaining frame of the source, equilibrium beyond its end
     prefix s m       = the first m frames of that stream, in order
     feed i l         = interpolator i after next_source_frame on each frame of l, in order *)
Require Import Floats.SpecFloat.
Require Import Reals List ZArith Bool.
From Flocq Require Import Core BinarySingleNaN.
From Dasp Require Import Base.Res Base.Float Signal.Converter Signal.ConvNumR Signal.ConvNumF
  Signal.ConverterProofs Signal.ConverterIEEE Signal.ConverterDyadic Signal.ConverterExamples.
Import ListNotations.
Open Scope R_scope.

(* the constructors accept exactly ratios > 0 and produce the start state *)
Theorem c08_constructor : forall (s : source fmt_R) (i : interp fmt_R) (r : R), 0 < r ->
  scale_playback_hz s i r = Ok (start s i r).
Proof. exact scale_playback_ok. Qed.
Print Assumptions c08_constructor.

(* every positive ratio sequence: the run completes, one observation per output *)
Theorem c08_total : forall (s : source fmt_R) (i : interp fmt_R) (fuel : nat) (rs : list R) (r0 : R),
  fuel_ok fuel rs -> (0 < fuel)%nat ->
  exists os c', @run NR fmt_R fuel rs (start s i r0) = Done (os, c') /\ length os = length rs.
Proof. exact total. Qed.
Print Assumptions c08_total.

(* output n is the interpolator evaluated at P_n: exactly floor(P_n) frames were pulled beyond the
   priming (pull counter; the iterator was asked for no more than those plus the one look-ahead),
   they are the first floor(P_n) frames of the source in order - none skipped or re-read - and the
   interpolator is evaluated at the fraction P_n - floor(P_n); the source is left at the frame after
   the last one consumed *)
Theorem c08_position : forall (s : source fmt_R) (i : interp fmt_R) (fuel : nat) (rs : list R) (r0 : R)
    (os : list (obs fmt_R)) (c' : conv fmt_R) (n : nat) (o : obs fmt_R),
  fuel_ok fuel rs -> (0 < fuel)%nat ->
  @run NR fmt_R fuel rs (start s i r0) = Done (os, c') -> nth_error os n = Some o ->
  let m := fl (Ppos rs n) in
  let x := Ppos rs n - INR m in
  0 <= x < 1 /\
  o_pulls o = (pulls s + m)%nat /\
  o_iter o = (iter_calls s + Nat.min m (length (rest s)))%nat /\
  o_frame o = interpolate (feed i (prefix s m)) x /\
  o_value o = Ppos rs (S n) - INR m /\
  src c' = src_at s (pulled_before rs (length rs)) /\
  itp c' = feed i (prefix s (pulled_before rs (length rs))).
Proof. exact position. Qed.
Print Assumptions c08_position.

(* floor interpolator: output n is the source frame at floor(P_n) (frame 0 = the priming frame) *)
Theorem c08_floor : forall (s : source fmt_R) (l : frame fmt_R) (fuel : nat) (rs : list R) (r0 : R)
    (os : list (obs fmt_R)) (c' : conv fmt_R) (n : nat) (o : obs fmt_R),
  fuel_ok fuel rs -> (0 < fuel)%nat ->
  @run NR fmt_R fuel rs (start s (IFloor l) r0) = Done (os, c') -> nth_error os n = Some o ->
  o_frame o = floor_seq l s (fl (Ppos rs n)).
Proof. exact floor_output. Qed.
Print Assumptions c08_floor.

(* linear interpolator: every channel of output n is the straight-line blend of the frames at
   floor(P_n) and floor(P_n)+1 at the fraction x = P_n - floor(P_n), inside their interval *)
Theorem c08_linear : forall (s : source fmt_R) (a b : frame fmt_R) (fuel : nat) (rs : list R) (r0 : R)
    (os : list (obs fmt_R)) (c' : conv fmt_R) (n : nat) (o : obs fmt_R),
  fuel_ok fuel rs -> (0 < fuel)%nat ->
  @run NR fmt_R fuel rs (start s (ILinear a b) r0) = Done (os, c') -> nth_error os n = Some o ->
  let m := fl (Ppos rs n) in
  let x := Ppos rs n - INR m in
  0 <= x < 1 /\
  forall ch l r, nth_error (linear_seq a b s m) ch = Some l -> nth_error (linear_seq a b s (S m)) ch = Some r ->
    exists y, nth_error (o_frame o) ch = Some y /\ y = (1 - x) * l + x * r /\ Rmin l r <= y <= Rmax l r.
Proof. exact linear_output. Qed.
Print Assumptions c08_linear.

(* the source is equilibrium beyond its end, and so are the outputs once the position is past it *)
Theorem c08_beyond_end : forall (s : source fmt_R) (fuel : nat) (rs : list R) (r0 : R)
    (os : list (obs fmt_R)) (c' : conv fmt_R) (n : nat) (o : obs fmt_R),
  fuel_ok fuel rs -> (0 < fuel)%nat ->
  (forall j, (length (rest s) <= j)%nat -> stream s j = equilibrium (nch s)) /\
  (forall l, @run NR fmt_R fuel rs (start s (IFloor l) r0) = Done (os, c') -> nth_error os n = Some o ->
     (length (rest s) + 1 <= fl (Ppos rs n))%nat -> o_frame o = equilibrium (nch s)) /\
  (forall a b, @run NR fmt_R fuel rs (start s (ILinear a b) r0) = Done (os, c') -> nth_error os n = Some o ->
     (length (rest s) + 2 <= fl (Ppos rs n))%nat -> o_frame o = equilibrium (nch s)).
Proof. exact beyond_end. Qed.
Print Assumptions c08_beyond_end.

(* a ratio of exactly 1 reproduces the source: output n is frame n, one pull per output *)
Theorem c08_ratio_one : forall (s : source fmt_R) (fuel k : nat) (r0 : R)
    (os : list (obs fmt_R)) (c' : conv fmt_R) (n : nat) (o : obs fmt_R), (2 <= fuel)%nat ->
  (forall l, @run NR fmt_R fuel (repeat 1 k) (start s (IFloor l) r0) = Done (os, c') -> nth_error os n = Some o ->
     o_frame o = floor_seq l s n /\ o_pulls o = (pulls s + n)%nat) /\
  (forall a b, @run NR fmt_R fuel (repeat 1 k) (start s (ILinear a b) r0) = Done (os, c') -> nth_error os n = Some o ->
     length (linear_seq a b s n) = length (linear_seq a b s (S n)) ->
     o_frame o = linear_seq a b s n /\ o_pulls o = (pulls s + n)%nat).
Proof. exact ratio_one. Qed.
Print Assumptions c08_ratio_one.

(* exhaustion is reported before output n exactly when the source is exhausted (all its frames were
   pulled) and producing output n needs a further frame *)
Theorem c08_exhausted : forall (s : source fmt_R) (i : interp fmt_R) (fuel : nat) (rs : list R) (r0 : R)
    (os : list (obs fmt_R)) (c' : conv fmt_R) (n : nat) (o : obs fmt_R),
  fuel_ok fuel rs -> (0 < fuel)%nat ->
  @run NR fmt_R fuel rs (start s i r0) = Done (os, c') -> nth_error os n = Some o ->
  (o_exh o = true <->
   (length (rest s) <= pulled_before rs n)%nat /\ (pulled_before rs n < fl (Ppos rs n))%nat).
Proof. exact exhausted_iff. Qed.
Print Assumptions c08_exhausted.

Theorem c08_exhausted_state : forall c : conv fmt_R,
  is_exhausted c = true <-> rest (src c) = [] /\ 1 <= value c.
Proof. exact is_exhausted_iff. Qed.
Print Assumptions c08_exhausted_state.

(* a constant ratio (never set again after construction) is the constant ratio sequence *)
Theorem c08_constant_ratio_is_run : forall (fuel n : nat) (c : conv fmt_R),
  @run_const NR fmt_R fuel n c = @run NR fmt_R fuel (repeat (ratio c) n) c.
Proof. exact run_const_run. Qed.
Print Assumptions c08_constant_ratio_is_run.

(* constant ratio r, R frames left after priming: a consumer that stops at exhaustion gets
   n0 = ceil((R+1)/r) outputs, or n0 + 1 exactly when the step into output n0 jumps over the
   last source frame (floor((n0-1) r) < R) *)
Theorem c08_count : forall (s : source fmt_R) (i : interp fmt_R) (fuel : nat) (r : R) (k : nat),
  0 < r -> r + 1 <= INR fuel -> (n0 (length (rest s)) r + 1 < k)%nat ->
  exists os c', @run_const NR fmt_R fuel k (start s i r) = Done (os, c') /\
    let n0 := n0 (length (rest s)) r in
    count_until_exhausted os = (n0 + (if (fl (INR (n0 - 1) * r) <? length (rest s))%nat then 1 else 0))%nat /\
    (n0 <= count_until_exhausted os <= n0 + 1)%nat.
Proof. exact count_const. Qed.
Print Assumptions c08_count.

(* MulHz (mul_hz): the control signal's value is set as the ratio before each output, so n outputs
   of a MulHz whose control signal still holds n values are exactly [run] over those values - the
   theorems above apply with rs = the control values (any arithmetic, any sample format) *)
Theorem c08_mul_hz : forall (N : Num) (Fm : Fmt N) (fuel n : nat) (m : mulhz Fm), (n <= length (ctl m))%nat ->
  run_mul fuel n m =
  match run fuel (firstn n (ctl m)) (mconv m) with
  | Diverges => Diverges
  | Done (os, c') => Done (os, {| mconv := c'; ctl := skipn n (ctl m) |})
  end.
Proof. exact @run_mul_run. Qed.
Print Assumptions c08_mul_hz.

(* IEEE binary64: below 2^53 the accumulator update v - 1.0 is exact ... *)
Theorem c08_sub_exact : forall v : F64.t, is_finite v = true -> 1 <= B2R v < bpow radix2 53 ->
  is_finite (F64.sub v F64.one) = true /\ B2R (F64.sub v F64.one) = B2R v - 1.
Proof. exact sub_one_exact. Qed.
Print Assumptions c08_sub_exact.

(* ... hence the real loop, in binary64, pulls exactly floor(v) frames (handing them to the
   interpolator in order) and leaves exactly v - floor(v), for every sample format *)
Theorem c08_loop_closed_form : forall (Fm : Fmt NF) (fuel : nat) (c : conv Fm),
  is_finite (value c) = true -> 0 <= B2R (value c) < bpow radix2 53 ->
  (Zfloor (B2R (value c)) < Z.of_nat fuel)%Z ->
  exists c', advance fuel c = Done c' /\
    is_finite (value c') = true /\
    B2R (value c') = B2R (value c) - IZR (Zfloor (B2R (value c))) /\
    (src c', itp c') = pull_n (Z.to_nat (Zfloor (B2R (value c)))) (src c) (itp c) /\
    ratio c' = ratio c.
Proof. exact @loop_closed_form. Qed.
Print Assumptions c08_loop_closed_form.

(* dyadic ratios: with accumulator a/2^j and ratio b/2^j (a + b < 2^53), one whole `next` in
   binary64 pulls floor(v) frames and leaves exactly (v - floor v) + ratio, again a multiple of
   2^-j: by induction the binary64 accumulator of a dyadic-ratio run equals the real one for as
   long as n * ratio * 2^j < 2^53, so the real-arithmetic theorems transfer literally *)
Theorem c08_dyadic_exact : forall (Fm : Fmt NF) (fuel : nat) (c : conv Fm) (j a b : Z),
  is_finite (value c) = true -> is_finite (ratio c) = true -> (0 <= j <= 1074)%Z ->
  dyadic j a (B2R (value c)) -> dyadic j b (B2R (ratio c)) -> (0 <= a)%Z -> (0 <= b)%Z -> (a + b < 2 ^ 53)%Z ->
  (Zfloor (B2R (value c)) < Z.of_nat fuel)%Z ->
  exists out c', next fuel c = Done (out, c') /\
    is_finite (value c') = true /\
    B2R (value c') = B2R (value c) - IZR (Zfloor (B2R (value c))) + B2R (ratio c) /\
    dyadic j (a mod 2 ^ j + b) (B2R (value c')) /\
    pulls (src c') = (pulls (src c) + Z.to_nat (Zfloor (B2R (value c))))%nat /\
    ratio c' = ratio c.
Proof. exact @next_dyadic_exact. Qed.
Print Assumptions c08_dyadic_exact.

(* K3 (known finding): the property quantifies over every ratio > 0, but with ratio 1e17 the
   binary64 accumulator reaches 1e17 after the first output, 1e17 - 1.0 = 1e17, and the pull loop
   of the second output does not terminate for any fuel: the statement fails for that ratio. *)
Theorem c08_k3_refuted : forall (Fm : Fmt NF) (s : source Fm) (i : interp Fm),
  F64.ltb F64.zero v_k3 = true /\
  exists c0, scale_playback_hz s i v_k3 = Ok c0 /\
    forall fuel, (0 < fuel)%nat ->
      exists out c1, next fuel c0 = Done (out, c1) /\ forall fuel', next fuel' c1 = Diverges.
Proof. exact @k3_second_output_never_arrives. Qed.
Print Assumptions c08_k3_refuted.

(* ---- setters and accessors between outputs (Signal/ConverterOps.v, Signal/ConverterOpsProofs.v);
   every arithmetic (reals and binary64), every state, every value of the accumulator ---- *)
From Dasp Require Import Signal.ConverterOps Signal.ConverterOpsProofs.

(* set_playback_hz_scale / set_hz_to_hz / set_sample_hz_scale change the ratio and nothing else *)
Theorem c08_setters_only_ratio : forall (N : Num) (Fm : Fmt N) (c : conv Fm) (x a b : T N),
  let c1 := set_playback_hz_scale c x in
  let c2 := set_hz_to_hz c a b in
  let c3 := set_sample_hz_scale c x in
  (src c1 = src c /\ itp c1 = itp c /\ value c1 = value c /\ ratio c1 = x) /\
  (src c2 = src c /\ itp c2 = itp c /\ value c2 = value c /\ ratio c2 = div N a b) /\
  (src c3 = src c /\ itp c3 = itp c /\ value c3 = value c /\ ratio c3 = div N (one N) x).
Proof. exact @setters_only_ratio. Qed.
Print Assumptions c08_setters_only_ratio.

(* announcing the ratio in force again is the identity on the converter (so nothing that follows can differ) *)
Theorem c08_set_same_ratio : forall (N : Num) (Fm : Fmt N) (c : conv Fm) (x a b : T N),
  (x = ratio c -> set_playback_hz_scale c x = c) /\
  (div N a b = ratio c -> set_hz_to_hz c a b = c) /\
  (div N (one N) x = ratio c -> set_sample_hz_scale c x = c).
Proof. exact @set_same_ratio. Qed.
Print Assumptions c08_set_same_ratio.

(* a frame taken through source_mut() moves the source by one frame and touches nothing else *)
Theorem c08_source_pull : forall (N : Num) (Fm : Fmt N) (c : conv Fm),
  let r := source_pull c in
  fst r = fst (src_next (src c)) /\ src (snd r) = snd (src_next (src c)) /\
  itp (snd r) = itp c /\ value (snd r) = value c /\ ratio (snd r) = ratio c.
Proof. exact @source_pull_only_source. Qed.
Print Assumptions c08_source_pull.

(* into_source() + a constructor again: the source continues where it was left (after the priming pulls),
   the position starts at zero with the new ratio *)
Theorem c08_rebuild : forall (N : Num) (Fm : Fmt N) (linear : bool) (c c' : conv Fm) (scale : T N),
  rebuild linear c scale = Ok c' ->
  value c' = zero N /\ ratio c' = scale /\
  src c' = snd (if linear then prime_linear (src c) else prime_floor (src c)) /\
  itp c' = fst (if linear then prime_linear (src c) else prime_floor (src c)).
Proof. exact @rebuild_state. Qed.
Print Assumptions c08_rebuild.
