(* C06 — Bounded and fixed ring buffers behave exactly as FIFO queues and delay lines.
   This file contains only the property theorems: each is closed by [exact] of a
   lemma of the development, followed by Print Assumptions. *)
Require Import List ZArith Arith.
From Dasp Require Import Base.Res Base.ListX Ring.Bounded Ring.BoundedSpec Ring.BoundedProofs
  Ring.Fixed Ring.FixedSpec Ring.FixedProofs Ring.RingExamples Ring.IndexArith
  Ring.RingPrim Ring.RingGenGlue Ring.RingGenEquiv Ring.RingGenExamples Ring.RingGenCkEquiv.
From Dasp Require Ring.RingRun Ring.RingRunNorm.
From DaspGen Require Import RingGen RingGenCk.
Import ListNotations.

(* Every operation, from every valid state over every capacity, returns what the
   ideal capacity-bounded queue returns, re-establishes the invariant (so it holds
   in every reachable state), keeps the capacity, and never ends in UB or in a
   panic the queue does not prescribe. *)
Theorem c06_bounded_step : forall (A : Type) (b : bounded A) (o : op A), Inv b ->
  exists b' v, step b o = Ok (b', v) /\ Inv b' /\ max_len b' = max_len b /\
               spec_step (max_len b) (abs b) o = (abs b', obs_abs v).
Proof. exact @step_refines. Qed.
Print Assumptions c06_bounded_step.

(* ... hence every finite history from every valid state. *)
Theorem c06_bounded_history : forall (A : Type) (ops : list (op A)) (b : bounded A), Inv b ->
  exists b' vs, run b ops = Ok (b', vs) /\ Inv b' /\ max_len b' = max_len b /\
                spec_run (max_len b) (abs b) ops = (abs b', map obs_abs vs).
Proof. exact @run_refines. Qed.
Print Assumptions c06_bounded_history.

(* The constructor accepts exactly the valid (start, len) pairs and establishes the invariant. *)
Theorem c06_bounded_from_raw_parts : forall (A : Type) (s n : nat) (d : list A),
  match from_raw_parts s n d with
  | Ok b => s < length d /\ n <= length d /\ Inv b /\ start b = s /\ len b = n /\ data b = d
  | Panic PAssert => ~ (s < length d /\ n <= length d)
  | _ => False
  end.
Proof. exact @from_raw_parts_inv. Qed.
Print Assumptions c06_bounded_from_raw_parts.

Theorem c06_bounded_from_full : forall (A : Type) (d : list A), d <> [] ->
  exists b, from_full d = Ok b /\ Inv b /\ abs b = d.
Proof. exact @from_full_abs. Qed.
Print Assumptions c06_bounded_from_full.

(* An indexed read that succeeds exposes a live element only. *)
Theorem c06_bounded_reads_live : forall (A : Type) (b : bounded A), Inv b ->
  forall i v, get b i = Ok (Some v) -> i < len b /\ nth_error (abs b) i = Some v.
Proof. exact @reads_live. Qed.
Print Assumptions c06_bounded_reads_live.

(* Fixed: every operation from every valid first-index keeps the length and does
   what the ideal delay line of that length does. *)
Theorem c06_fixed_step : forall (A : Type) (f : fixed A) (o : fop A), InvF f ->
  exists f' v, fstep f o = Ok (f', v) /\ InvF f' /\ flen f' = flen f /\
               fspec_step (fabs f) o = (fabs f', obs_abs v).
Proof. exact @fstep_refines. Qed.
Print Assumptions c06_fixed_step.

Theorem c06_fixed_history : forall (A : Type) (ops : list (fop A)) (f : fixed A), InvF f ->
  exists f' vs, frun f ops = Ok (f', vs) /\ InvF f' /\ flen f' = flen f /\
                fspec_run (fabs f) ops = (fabs f', map obs_abs vs).
Proof. exact @frun_refines. Qed.
Print Assumptions c06_fixed_history.

(* Delay line: the values returned by any run of pushes are the initial content
   (oldest first) followed by the pushed values themselves: push number k+N
   returns what push number k stored. *)
Theorem c06_fixed_delay : forall (A : Type) (f : fixed A) (xs : list A), InvF f ->
  exists f', fpushes xs f = Ok (f', firstn (length xs) (fq f ++ xs)) /\ InvF f' /\ flen f' = flen f.
Proof. exact @fixed_delay. Qed.
Print Assumptions c06_fixed_delay.

Theorem c06_fixed_from_raw_parts : forall (A : Type) (i : nat) (d : list A),
  match f_from_raw_parts i d with
  | Ok f => i < length d /\ InvF f /\ first f = i /\ fdata f = d
  | Panic PAssert => ~ i < length d
  | _ => False
  end.
Proof. exact @f_from_raw_parts_inv. Qed.
Print Assumptions c06_fixed_from_raw_parts.

(* plain / looping iteration agree with the abstract order *)
Theorem c06_fixed_views : forall (A : Type) (f : fixed A), InvF f ->
  fiter f = fq f /\ (forall k, fiter_loop f k = d_cycle (fq f) k) /\
  (exists l1 l2, fslices f = Ok (l1, l2) /\ l1 ++ l2 = fq f).
Proof. intros A f I. exact (conj (fiter_refines f I) (conj (fun k => fiter_loop_refines f k I) (fslices_refines f I))). Qed.
Print Assumptions c06_fixed_views.

(* ---- the 64-bit reading of the index arithmetic (usize), for EVERY index a caller can pass ----
   In every valid state no addition the source performs on indices can overflow -- neither with overflow checks
   (no panic) nor without (no wrap) -- so the nat models above are exact.  Slice lengths are at most 2^63 (Rust
   allocations hold at most isize::MAX bytes; the bound can only be exceeded by zero-sized element types). *)
Theorem c06_index_arith_no_overflow : forall (dbg : bool) (a index n : Z),
  (0 <= index < 2 ^ 64 -> n <= 2 ^ 63 ->
   (0 <= a < n -> U.fixed_index dbg a index n = Ok ((a + index) mod n)) /\
   (forall len, 0 <= a < n -> 0 <= index < len -> len <= n -> U.bounded_index dbg a index n = Ok ((a + index) mod n)) /\
   (forall len, 0 <= a < n -> 0 <= len <= n ->
      U.bounded_push_index dbg a len n = Ok ((a + len) mod n) /\ U.uadd dbg a 1 = Ok (a + 1)))%Z.
Proof. exact U.index_arith_no_overflow. Qed.
Print Assumptions c06_index_arith_no_overflow.

(* defect F9 (repaired in /repo by daaa156): the earlier form (first + index) % len, on first = 1, N = 3,
   index = usize::MAX: overflow panic with checks, element 0 instead of element 1 without *)
Theorem c06_fixed_get_old_form_refuted :
  (U.fixed_index_old true 1 (2 ^ 64 - 1) 3 = Panic POverflow /\
   U.fixed_index_old false 1 (2 ^ 64 - 1) 3 = Ok 0 /\
   (1 + (2 ^ 64 - 1)) mod 3 = 1 /\ U.fixed_index true 1 (2 ^ 64 - 1) 3 = Ok 1 /\ U.fixed_index false 1 (2 ^ 64 - 1) 3 = Ok 1)%Z.
Proof. exact U.fixed_index_old_refuted. Qed.
Print Assumptions c06_fixed_get_old_form_refuted.

(* the normalisation that lets the correspondence run indices near usize::MAX through the nat model is invisible *)
Theorem c06_run_index_normalisation_sound : forall (b : bounded Z) (f : fixed Z) (o : RingRun.zop),
  (len b <= max_len b ->
   match RingRun.to_op (RingRun.bnorm b o), RingRun.to_op o with
   | Some p', Some p => step b p' = step b p | None, None => True | _, _ => False end) /\
  (RingRunNorm.zop_index_nonneg o ->
   match RingRun.to_fop (RingRun.fnorm f o), RingRun.to_fop o with
   | Some p', Some p => fstep f p' = fstep f p | None, None => True | _, _ => False end).
Proof. exact RingRunNorm.run_index_normalisation_sound. Qed.
Print Assumptions c06_run_index_normalisation_sound.

(* ---- the tie by translation: gen/RingGen.v is regenerated from dasp_ring_buffer/src/lib.rs on every
   run (translate/ring2coq.py); the model the theorems above are about IS that translation. ---- *)

(* Every method of Bounded and DrainBounded, as translated from the source, equals the hand model's
   definition on ALL inputs (valid or not; same value, same panic, same UB).  [gen_set], [gen_index_set],
   [gen_map_in_place], [gen_slices_mut_view], [gen_drain] are the generated get_mut / index_mut / iter_mut /
   slices_mut / drain + DrainBounded::next composed with what the caller does with the references or the
   iterator they return (Ring/RingGenGlue.v); [gen_step]/[gen_run] are [step]/[run] over the generated methods. *)
Theorem c06_gen_bounded_agrees : forall (A : Type),
  ((forall s l (d : list A), Bounded_from_raw_parts s l d = from_raw_parts s l d) /\
   (forall d : list A, Bounded_from_full d = from_full d) /\
   (forall d : list A, Bounded_from d = from_empty d) /\
   (forall d : list A, Bounded_from_iter d = from_empty d) /\
   (forall s l (d : list A), Bounded_from_raw_parts_unchecked s l d = Ok {| start := s; len := l; data := d |}) /\
   (forall b : bounded A, Bounded_into_raw_parts b = Ok (start b, len b, data b)) /\
   (forall b : bounded A, Bounded_max_len b = Ok (max_len b)) /\
   (forall b : bounded A, Bounded_len b = Ok (len b)) /\
   (forall b : bounded A, Bounded_is_empty b = Ok (is_empty b)) /\
   (forall b : bounded A, Bounded_is_full b = Ok (is_full b)) /\
   (forall (b : bounded A) x, Bounded_push b x = push b x) /\
   (forall b : bounded A, Bounded_pop b = pop b) /\
   (forall (b : bounded A) i, Bounded_get b i = get b i) /\
   (forall (b : bounded A) i x, gen_set b i x = set b i x) /\
   (forall (b : bounded A) i, Bounded_index b i = index b i) /\
   (forall (b : bounded A) i x, gen_index_set b i x = index_set b i x) /\
   (forall b : bounded A, Bounded_slices b = slices b) /\
   (forall b : bounded A, gen_slices_mut_view b = slices b) /\
   (forall b : bounded A, Bounded_iter b = iter b) /\
   (forall g (b : bounded A), gen_map_in_place g b = map_in_place g b) /\
   (forall b : bounded A, Bounded_drain b = Ok (b, b)) /\
   (forall b : bounded A, DrainBounded_next b = pop b) /\
   (forall b : bounded A, DrainBounded_size_hint b = Ok (len b, Some (len b))) /\
   (forall b : bounded A, DrainBounded_len b = Ok (len b)) /\
   (forall k (b : bounded A), gen_drain k b = drain k b) /\
   (forall xs (b : bounded A), Bounded_extend b xs = extend xs b)) /\
  (forall (b : bounded A) (o : op A), gen_step b o = step b o) /\
  (forall (ops : list (op A)) (b : bounded A), gen_run b ops = run b ops).
Proof. exact @gen_bounded_agrees. Qed.
Print Assumptions c06_gen_bounded_agrees.

(* The same for Fixed ([gen_fset]/[gen_findex_set]: get_mut / index_mut + the caller's store;
   [gen_fmap_in_place]: iter_mut + the caller's visit; [gen_fiter_loop]: iter_loop().take(k)). *)
Theorem c06_gen_fixed_agrees : forall (A : Type),
  ((forall i (d : list A), Fixed_from_raw_parts i d = f_from_raw_parts i d) /\
   (forall d : list A, Fixed_from d = f_from d) /\
   (forall d : list A, Fixed_from_iter d = f_from d) /\
   (forall i (d : list A), Fixed_from_raw_parts_unchecked i d = Ok {| first := i; fdata := d |}) /\
   (forall f : fixed A, Fixed_into_raw_parts f = Ok (first f, fdata f)) /\
   (forall f : fixed A, Fixed_len f = Ok (flen f)) /\
   (forall (f : fixed A) x, Fixed_push f x = fpush f x) /\
   (forall (f : fixed A) i, Fixed_get f i = fget f i) /\
   (forall (f : fixed A) i, Fixed_index f i = fget f i) /\
   (forall (f : fixed A) i x, gen_fset f i x = fset f i x) /\
   (forall (f : fixed A) i x, gen_findex_set f i x = fset f i x) /\
   (forall (f : fixed A) i, Fixed_set_first f i = fset_first f i) /\
   (forall f : fixed A, Fixed_slices f = fslices f) /\
   (forall f : fixed A, gen_fslices_mut_view f = fslices f) /\
   (forall f : fixed A, exists st, Fixed_iter_loop f = Ok st /\ forall j, st j = floop_nth f j) /\
   (forall (f : fixed A) k, gen_fiter_loop f k = Ok (fiter_loop f k)) /\
   (forall f : fixed A, Fixed_iter f = Ok (fiter f)) /\
   (forall g (f : fixed A), gen_fmap_in_place g f = fmap_in_place g f) /\
   (forall xs (f : fixed A), Fixed_extend f xs = fextend xs f) /\
   (forall xs (f : fixed A), gen_fpushes xs f = fpushes xs f)) /\
  (forall (f : fixed A) (o : fop A), gen_fstep f o = fstep f o) /\
  (forall (ops : list (fop A)) (f : fixed A), gen_frun f ops = frun f ops).
Proof. exact @gen_fixed_agrees. Qed.
Print Assumptions c06_gen_fixed_agrees.

(* ... so the history theorems hold of the interpreters over the regenerated methods. *)
Theorem c06_gen_bounded_history : forall (A : Type) (ops : list (op A)) (b : bounded A), Inv b ->
  exists b' vs, gen_run b ops = Ok (b', vs) /\ Inv b' /\ max_len b' = max_len b /\
                spec_run (max_len b) (abs b) ops = (abs b', map obs_abs vs).
Proof. exact @gen_run_refines. Qed.
Print Assumptions c06_gen_bounded_history.

Theorem c06_gen_fixed_history : forall (A : Type) (ops : list (fop A)) (f : fixed A), InvF f ->
  exists f' vs, gen_frun f ops = Ok (f', vs) /\ InvF f' /\ flen f' = flen f /\
                fspec_run (fabs f) ops = (fabs f', map obs_abs vs).
Proof. exact @gen_frun_refines. Qed.
Print Assumptions c06_gen_fixed_history.

Theorem c06_gen_fixed_delay : forall (A : Type) (f : fixed A) (xs : list A), InvF f ->
  exists f', gen_fpushes xs f = Ok (f', firstn (length xs) (fq f ++ xs)) /\ InvF f' /\ flen f' = flen f.
Proof. exact @gen_fixed_delay. Qed.
Print Assumptions c06_gen_fixed_delay.

(* The 64-bit reading of the regenerated source: gen/RingGenCk.v is the same translation with every usize `+`, `*`,
   `+=` panicking when the result reaches the modulus M (read M = 2^64).  In every valid state over storage of at
   most M/2 elements (Rust: a slice of a non-zero-sized type has at most isize::MAX bytes) it equals the unbounded
   reading, for EVERY index and element: no addition the source performs on indices can overflow -- so the nat
   models are exact for all usize arguments, and a build without overflow checks cannot wrap either.  (The methods
   not listed contain no usize addition: their two readings are the same text.)  The form of Fixed::get before
   /repo daaa156 does not pass (defect F9). *)
Theorem c06_gen_no_index_overflow : forall (A : Type) (M : nat),
  (forall b : bounded A, Inv b -> 2 * max_len b <= M ->
     (forall x, Bounded_push_ck M b x = Bounded_push b x) /\
     Bounded_pop_ck M b = Bounded_pop b /\
     (forall i, Bounded_get_ck M b i = Bounded_get b i) /\
     (forall i, Bounded_get_mut_ck M b i = Bounded_get_mut b i) /\
     (forall i, Bounded_index_ck M b i = Bounded_index b i) /\
     (forall i, Bounded_index_mut_ck M b i = Bounded_index_mut b i) /\
     DrainBounded_next_ck M b = DrainBounded_next b /\
     (forall xs, Bounded_extend_ck M b xs = Bounded_extend b xs)) /\
  (forall f : fixed A, InvF f -> 2 * flen f <= M ->
     (forall x, Fixed_push_ck M f x = Fixed_push f x) /\
     (forall i, Fixed_get_ck M f i = Fixed_get f i) /\
     (forall i, Fixed_get_mut_ck M f i = Fixed_get_mut f i) /\
     (forall i, Fixed_index_ck M f i = Fixed_index f i) /\
     (forall i, Fixed_index_mut_ck M f i = Fixed_index_mut f i) /\
     (forall xs, Fixed_extend_ck M f xs = Fixed_extend f xs)).
Proof. exact gen_no_index_overflow. Qed.
Print Assumptions c06_gen_no_index_overflow.
