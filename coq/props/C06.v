(* C06 — Bounded and fixed ring buffers behave exactly as FIFO queues and delay lines.
   This file contains only the property theorems: each is closed by [exact] of a
   lemma of the development, followed by Print Assumptions. *)
Require Import List ZArith Arith.
From Dasp Require Import Base.Res Base.ListX Ring.Bounded Ring.BoundedSpec Ring.BoundedProofs
  Ring.Fixed Ring.FixedSpec Ring.FixedProofs Ring.RingExamples Ring.IndexArith.
From Dasp Require Ring.RingRun Ring.RingRunNorm.
Import ListNotations.

(* Every operation, from every valid state over every capacity, returns what the
   ideal capacity-bounded queue returns, re-establishes the invariant (so it holds
   in every reachable state), keeps the capacity, and never ends in UB or in a
   panic the queue does not prescribe. *)
Theorem c06_bounded_step : forall (A : Type) (b : bounded A) (o : op A), Inv b ->
  exists b' v, step b o = Ok (b', v) /\ Inv b' /\ max_len b' = max_len b /\
               spec_step (max_len b) (abs b) o = (abs b', obs_abs v).
Proof. exact @step_refines. Qed.
Print Assumptions c06_bounded_step.

(* ... hence every finite history from every valid state. *)
Theorem c06_bounded_history : forall (A : Type) (ops : list (op A)) (b : bounded A), Inv b ->
  exists b' vs, run b ops = Ok (b', vs) /\ Inv b' /\ max_len b' = max_len b /\
                spec_run (max_len b) (abs b) ops = (abs b', map obs_abs vs).
Proof. exact @run_refines. Qed.
Print Assumptions c06_bounded_history.

(* The constructor accepts exactly the valid (start, len) pairs and establishes the invariant. *)
Theorem c06_bounded_from_raw_parts : forall (A : Type) (s n : nat) (d : list A),
  match from_raw_parts s n d with
  | Ok b => s < length d /\ n <= length d /\ Inv b /\ start b = s /\ len b = n /\ data b = d
  | Panic PAssert => ~ (s < length d /\ n <= length d)
  | _ => False
  end.
Proof. exact @from_raw_parts_inv. Qed.
Print Assumptions c06_bounded_from_raw_parts.

Theorem c06_bounded_from_full : forall (A : Type) (d : list A), d <> [] ->
  exists b, from_full d = Ok b /\ Inv b /\ abs b = d.
Proof. exact @from_full_abs. Qed.
Print Assumptions c06_bounded_from_full.

(* An indexed read that succeeds exposes a live element only. *)
Theorem c06_bounded_reads_live : forall (A : Type) (b : bounded A), Inv b ->
  forall i v, get b i = Ok (Some v) -> i < len b /\ nth_error (abs b) i = Some v.
Proof. exact @reads_live. Qed.
Print Assumptions c06_bounded_reads_live.

(* Fixed: every operation from every valid first-index keeps the length and does
   what the ideal delay line of that length does. *)
Theorem c06_fixed_step : forall (A : Type) (f : fixed A) (o : fop A), InvF f ->
  exists f' v, fstep f o = Ok (f', v) /\ InvF f' /\ flen f' = flen f /\
               fspec_step (fabs f) o = (fabs f', obs_abs v).
Proof. exact @fstep_refines. Qed.
Print Assumptions c06_fixed_step.

Theorem c06_fixed_history : forall (A : Type) (ops : list (fop A)) (f : fixed A), InvF f ->
  exists f' vs, frun f ops = Ok (f', vs) /\ InvF f' /\ flen f' = flen f /\
                fspec_run (fabs f) ops = (fabs f', map obs_abs vs).
Proof. exact @frun_refines. Qed.
Print Assumptions c06_fixed_history.

(* Delay line: the values returned by any run of pushes are the initial content
   (oldest first) followed by the pushed values themselves: push number k+N
   returns what push number k stored. *)
Theorem c06_fixed_delay : forall (A : Type) (f : fixed A) (xs : list A), InvF f ->
  exists f', fpushes xs f = Ok (f', firstn (length xs) (fq f ++ xs)) /\ InvF f' /\ flen f' = flen f.
Proof. exact @fixed_delay. Qed.
Print Assumptions c06_fixed_delay.

Theorem c06_fixed_from_raw_parts : forall (A : Type) (i : nat) (d : list A),
  match f_from_raw_parts i d with
  | Ok f => i < length d /\ InvF f /\ first f = i /\ fdata f = d
  | Panic PAssert => ~ i < length d
  | _ => False
  end.
Proof. exact @f_from_raw_parts_inv. Qed.
Print Assumptions c06_fixed_from_raw_parts.

(* plain / looping iteration agree with the abstract order *)
Theorem c06_fixed_views : forall (A : Type) (f : fixed A), InvF f ->
  fiter f = fq f /\ (forall k, fiter_loop f k = d_cycle (fq f) k) /\
  (exists l1 l2, fslices f = Ok (l1, l2) /\ l1 ++ l2 = fq f).
Proof. intros A f I. exact (conj (fiter_refines f I) (conj (fun k => fiter_loop_refines f k I) (fslices_refines f I))). Qed.
Print Assumptions c06_fixed_views.

(* ---- the 64-bit reading of the index arithmetic (usize), for EVERY index a caller can pass ----
   In every valid state no addition the source performs on indices can overflow -- neither with overflow checks
   (no panic) nor without (no wrap) -- so the nat models above are exact.  Slice lengths are at most 2^63 (Rust
   allocations hold at most isize::MAX bytes; the bound can only be exceeded by zero-sized element types). *)
Theorem c06_index_arith_no_overflow : forall (dbg : bool) (a index n : Z),
  (0 <= index < 2 ^ 64 -> n <= 2 ^ 63 ->
   (0 <= a < n -> U.fixed_index dbg a index n = Ok ((a + index) mod n)) /\
   (forall len, 0 <= a < n -> 0 <= index < len -> len <= n -> U.bounded_index dbg a index n = Ok ((a + index) mod n)) /\
   (forall len, 0 <= a < n -> 0 <= len <= n ->
      U.bounded_push_index dbg a len n = Ok ((a + len) mod n) /\ U.uadd dbg a 1 = Ok (a + 1)))%Z.
Proof. exact U.index_arith_no_overflow. Qed.
Print Assumptions c06_index_arith_no_overflow.

(* defect F9 (repaired in /repo by daaa156): the earlier form (first + index) % len, on first = 1, N = 3,
   index = usize::MAX: overflow panic with checks, element 0 instead of element 1 without *)
Theorem c06_fixed_get_old_form_refuted :
  (U.fixed_index_old true 1 (2 ^ 64 - 1) 3 = Panic POverflow /\
   U.fixed_index_old false 1 (2 ^ 64 - 1) 3 = Ok 0 /\
   (1 + (2 ^ 64 - 1)) mod 3 = 1 /\ U.fixed_index true 1 (2 ^ 64 - 1) 3 = Ok 1 /\ U.fixed_index false 1 (2 ^ 64 - 1) 3 = Ok 1)%Z.
Proof. exact U.fixed_index_old_refuted. Qed.
Print Assumptions c06_fixed_get_old_form_refuted.

(* the normalisation that lets the correspondence run indices near usize::MAX through the nat model is invisible *)
Theorem c06_run_index_normalisation_sound : forall (b : bounded Z) (f : fixed Z) (o : RingRun.zop),
  (len b <= max_len b ->
   match RingRun.to_op (RingRun.bnorm b o), RingRun.to_op o with
   | Some p', Some p => step b p' = step b p | None, None => True | _, _ => False end) /\
  (RingRunNorm.zop_index_nonneg o ->
   match RingRun.to_fop (RingRun.fnorm f o), RingRun.to_fop o with
   | Some p', Some p => fstep f p' = fstep f p | None, None => True | _, _ => False end).
Proof. exact RingRunNorm.run_index_normalisation_sound. Qed.
Print Assumptions c06_run_index_normalisation_sound.
