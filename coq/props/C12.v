(* C12 — Fork gives both branches the identical stream under every pull interleaving.
   This file contains only the property theorems: each is closed by [exact] of a lemma of
   the development, followed by Print Assumptions.

   Model: Signal/Fork.v (shared state = source with pull counter + Bounded ring buffer +
   pending flag; next / pending_frames / fork / by_ref / by_rc written after
   dasp_signal/src/lib.rs).  Specification: Signal/ForkSpec.v (positions (pa, pb) of the two
   branches in the source stream; [pos_of] computes them from the concrete state;
   [FInv] = valid ring buffer holding exactly the last [len] frames pulled;
   [sched_ok cap p ops] = after every next() of the schedule the lead is <= cap). *)
Require Import List ZArith Arith.
From Dasp Require Import Base.Res Base.ListX Ring.Bounded Ring.BoundedSpec Ring.BoundedProofs
  Signal.Fork Signal.ForkSpec Signal.ForkProofs Signal.ForkExamples
  Signal.SigGenPrim Signal.ForkGenGlue Signal.ForkGenEquiv Signal.ForkGenExamples.
From DaspGen Require Import RingGen ForkGen.
Import ListNotations.

(* One next() on either branch, from every valid shared state (every capacity >= 1, every
   ring-buffer start, every frame type, every source), provided the step keeps the lead
   within the capacity: no panic, no UB; the branch receives source frame p_X; the state
   stays valid; the positions advance as (pa, pb) |-> X's position + 1. *)
Theorem c12_refines : forall (A : Type) (st : shared A) (x : bool), FInv st ->
  lead (advance x (pos_of st)) <= max_len (ring_buffer st) ->
  exists st', next x st = Ok (st', sfn (signal st) (pos x (pos_of st))) /\ FInv st' /\
    max_len (ring_buffer st') = max_len (ring_buffer st) /\ sfn (signal st') = sfn (signal st) /\
    pos_of st' = advance x (pos_of st).
Proof. exact @next_refines. Qed.
Print Assumptions c12_refines.

(* In every valid state: the source has been pulled exactly max(pa, pb) times ... *)
Theorem c12_pull_once : forall (A : Type) (st : shared A), FInv st ->
  pulls (signal st) = Nat.max (fst (pos_of st)) (snd (pos_of st)).
Proof. exact @state_pulls. Qed.
Print Assumptions c12_pull_once.

(* ... each branch's pending count is the number of frames it lags behind ... *)
Theorem c12_pending : forall (A : Type) (st : shared A) (x : bool), FInv st ->
  pending_frames x st = Nat.max (fst (pos_of st)) (snd (pos_of st)) - pos x (pos_of st).
Proof. exact @state_pending. Qed.
Print Assumptions c12_pending.

(* ... the queue holds exactly the source frames [min(pa,pb), max(pa,pb)), oldest first,
   and the lead never exceeds the capacity. *)
Theorem c12_queue : forall (A : Type) (st : shared A), FInv st ->
  abs (ring_buffer st) =
    map (sfn (signal st)) (seq (Nat.min (fst (pos_of st)) (snd (pos_of st))) (lead (pos_of st))) /\
  lead (pos_of st) <= max_len (ring_buffer st).
Proof. intros A st H. exact (conj (state_queue st H) (state_lead_le st H)). Qed.
Print Assumptions c12_queue.

(* Every finite schedule of operations (next / pending_frames / is_exhausted on either
   branch, re-split by reference, by_rc) whose lead never exceeds the capacity, from every
   valid state: every observation (returned frame or count, pull counter, both pending counts,
   after every operation) is the specification's, the final state is valid again. *)
Theorem c12_schedule : forall (A : Type) (ops : list fop) (st : shared A), FInv st ->
  sched_ok (max_len (ring_buffer st)) (pos_of st) ops ->
  exists st' vs, frun st ops = Ok (st', vs) /\ FInv st' /\
    max_len (ring_buffer st') = max_len (ring_buffer st) /\ sfn (signal st') = sfn (signal st) /\
    spec_run (sfn (signal st)) (pos_of st) ops = (pos_of st', vs).
Proof. exact @frun_refines. Qed.
Print Assumptions c12_schedule.

(* Each branch observes exactly the source's frames from its position on, in order, none
   lost, duplicated or reordered, however its pulls are interleaved with the other's. *)
Theorem c12_branch_stream : forall (A : Type) (st : shared A) (ops : list fop), FInv st ->
  sched_ok (max_len (ring_buffer st)) (pos_of st) ops ->
  exists st' vs, frun st ops = Ok (st', vs) /\ FInv st' /\
    spec_run (sfn (signal st)) (pos_of st) ops = (pos_of st', vs) /\
    (forall x, frames_of x ops vs =
               map (sfn (signal st)) (seq (pos x (pos_of st)) (count_next x ops))) /\
    (forall x, pos x (pos_of st') = pos x (pos_of st) + count_next x ops).
Proof. exact @schedule_streams. Qed.
Print Assumptions c12_branch_stream.

(* The property from the constructor: any storage of capacity >= 1 (start0 < length d),
   any start index, any source, any lead-respecting schedule.  Both branches receive the
   source's frames from the fork point on and the source is pulled once per distinct frame:
   pulls = max(number of A's pulls, number of B's pulls). *)
Theorem c12_fork : forall (A : Type) (d : list A) (start0 : nat) (s : source A) (ops : list fop),
  start0 < length d -> sched_ok (length d) (pulls s, pulls s) ops ->
  exists rb st0 st' vs, from_raw_parts start0 0 d = Ok rb /\ fork s rb = Ok st0 /\
    frun st0 ops = Ok (st', vs) /\
    spec_run (sfn s) (pulls s, pulls s) ops = (pos_of st', vs) /\
    (forall x, frames_of x ops vs = map (sfn s) (seq (pulls s) (count_next x ops))) /\
    pulls (signal st') = pulls s + Nat.max (count_next BrA ops) (count_next BrB ops).
Proof. exact @fork_from_raw_parts. Qed.
Print Assumptions c12_fork.

(* Re-splitting after use (drop the branches, by_ref again or by_rc): the new pair
   continues exactly where the old pair stopped -- the two runs are one run of the
   concatenated schedule. *)
Theorem c12_resplit : forall (A : Type) (st : shared A) (ops1 ops2 : list fop)
    (split : shared A -> shared A),
  split = by_ref \/ split = by_rc ->
  FInv st -> sched_ok (max_len (ring_buffer st)) (pos_of st) (ops1 ++ ops2) ->
  exists st1 vs1 st2 vs2,
    frun (split st) ops1 = Ok (st1, vs1) /\ frun (split st1) ops2 = Ok (st2, vs2) /\
    FInv st2 /\ pos_of (split st1) = fst (spec_run (sfn (signal st)) (pos_of st) ops1) /\
    spec_run (sfn (signal st)) (pos_of st) (ops1 ++ ops2) = (pos_of st2, vs1 ++ vs2) /\
    (forall x, frames_of x ops2 vs2 =
               map (sfn (signal st)) (seq (pos x (pos_of st) + count_next x ops1) (count_next x ops2))).
Proof. exact @resplit. Qed.
Print Assumptions c12_resplit.

(* When the side condition is violated (the leader pulls while the queue is full) the code
   does not panic: the oldest queued frame -- not yet seen by the lagging branch -- is
   overwritten; the queue then holds the source frames one position later. *)
Theorem c12_overrun_loses_oldest : forall (A : Type) (st : shared A) (x : bool), FInv st ->
  pending st = negb x -> len (ring_buffer st) = max_len (ring_buffer st) ->
  exists st', next x st = Ok (st', sfn (signal st) (pulls (signal st))) /\
    Inv (ring_buffer st') /\ pending st' = pending st /\
    pulls (signal st') = S (pulls (signal st)) /\
    len (ring_buffer st') = max_len (ring_buffer st) /\
    abs (ring_buffer st') =
      map (sfn (signal st)) (seq (S (pulls (signal st) - len (ring_buffer st))) (len (ring_buffer st))).
Proof. exact @next_overrun. Qed.
Print Assumptions c12_overrun_loses_oldest.

(* fork() asserts that the supplied ring buffer is empty. *)
Theorem c12_fork_rejects_nonempty : forall (A : Type) (s : source A) (rb : bounded A),
  len rb <> 0 -> fork s rb = Panic PAssert.
Proof. exact @fork_nonempty. Qed.
Print Assumptions c12_fork_rejects_nonempty.

(* ---- the tie to the source -------------------------------------------------------------------
   gen/ForkGen.v is REGENERATED from dasp_signal/src/lib.rs by translate/sig2coq.py on every run of the check: Signal::fork,
   the constants Fork::A / B, Fork::by_rc / by_ref, and -- from the body of the macro define_branch!, expanded for its two
   invocations -- next / pending_frames of BranchRcA, BranchRefA, BranchRcB, BranchRefB, which inherit is_exhausted from
   trait Signal's default method (also regenerated).  Its ring-buffer calls are the generated methods of gen/RingGen.v
   (regenerated from dasp_ring_buffer/src/lib.rs, c06_gen_bounded_agrees), its source signal is abstract, and Fork /
   every branch handle is represented by the one shared state they point to (RefCell / Rc / & as state threading).
   Instantiated with the hand model's source ([src_next], [pulls]) every generated definition equals the hand model's, for
   ALL inputs -- valid states or not, including which panic / UB comes out; all four branch types are the hand model's
   [next] / [pending_frames] at their constant.  ([to_g]/[of_g]: the two record representations of ForkShared; [gen_fstep]
   / [gen_frun]: the interpreter over the generated methods, dispatching on which pair of branch types the last split
   handed out, Signal/ForkGenGlue.v; [mode_after]: that pair after an operation.) *)
Theorem c12_gen_agrees : forall (A : Type),
  ((@Fork_A = BrA /\ @Fork_B = BrB) /\
   (forall (s : source A) (rb : bounded A), Signal_fork s rb = rmap to_g (fork s rb)) /\
   (forall g : fork_g (source A) A, Fork_by_rc g = Ok (to_g (by_rc (of_g g)), to_g (by_rc (of_g g)))) /\
   (forall g : fork_g (source A) A, Fork_by_ref g = Ok (g, (to_g (by_ref (of_g g)), to_g (by_ref (of_g g))))) /\
   (forall g : fork_g (source A) A,
      BranchRcA_next (@src_next A) g = rmap (fun r => (to_g (fst r), snd r)) (next BrA (of_g g))) /\
   (forall g : fork_g (source A) A,
      BranchRefA_next (@src_next A) g = rmap (fun r => (to_g (fst r), snd r)) (next BrA (of_g g))) /\
   (forall g : fork_g (source A) A,
      BranchRcB_next (@src_next A) g = rmap (fun r => (to_g (fst r), snd r)) (next BrB (of_g g))) /\
   (forall g : fork_g (source A) A,
      BranchRefB_next (@src_next A) g = rmap (fun r => (to_g (fst r), snd r)) (next BrB (of_g g))) /\
   (forall g : fork_g (source A) A, BranchRcA_pending_frames g = Ok (pending_frames BrA (of_g g))) /\
   (forall g : fork_g (source A) A, BranchRefA_pending_frames g = Ok (pending_frames BrA (of_g g))) /\
   (forall g : fork_g (source A) A, BranchRcB_pending_frames g = Ok (pending_frames BrB (of_g g))) /\
   (forall g : fork_g (source A) A, BranchRefB_pending_frames g = Ok (pending_frames BrB (of_g g))) /\
   (forall (g : fork_g (source A) A) (x : bool),
      BranchRcA_is_exhausted g = Ok (branch_is_exhausted x (of_g g)) /\
      BranchRefA_is_exhausted g = Ok (branch_is_exhausted x (of_g g)) /\
      BranchRcB_is_exhausted g = Ok (branch_is_exhausted x (of_g g)) /\
      BranchRefB_is_exhausted g = Ok (branch_is_exhausted x (of_g g)))) /\
  (forall rc (g : fork_g (source A) A) (o : fop),
     gen_fstep (@src_next A) (@pulls A) rc g o =
     rmap (fun r => (mode_after rc o, to_g (fst r), snd r)) (fstep (of_g g) o)) /\
  (forall (ops : list fop) rc (g : fork_g (source A) A),
     gen_frun (@src_next A) (@pulls A) rc g ops =
     rmap (fun r => (fold_left mode_after ops rc, to_g (fst r), snd r)) (frun (of_g g) ops)).
Proof. exact @gen_fork_agrees. Qed.
Print Assumptions c12_gen_agrees.

(* ... so the schedule theorem holds of the interpreter over the regenerated methods, whichever pair of branch types
   (by_ref or by_rc) the schedule starts with. *)
Theorem c12_gen_schedule : forall (A : Type) (ops : list fop) (rc : bool) (g : fork_g (source A) A),
  FInv (of_g g) -> sched_ok (max_len (fg_ring_buffer g)) (pos_of (of_g g)) ops ->
  exists g' vs, gen_frun (@src_next A) (@pulls A) rc g ops = Ok (fold_left mode_after ops rc, g', vs) /\
    FInv (of_g g') /\ max_len (fg_ring_buffer g') = max_len (fg_ring_buffer g) /\
    sfn (fg_signal g') = sfn (fg_signal g) /\
    spec_run (sfn (fg_signal g)) (pos_of (of_g g)) ops = (pos_of (of_g g'), vs).
Proof. exact @gen_frun_refines. Qed.
Print Assumptions c12_gen_schedule.
