(* C12 — Fork gives both branches the identical stream under every pull interleaving. *)
Require Import List ZArith Arith.
From Dasp Require Import Base.Res Base.ListX Ring.Bounded Ring.BoundedSpec Ring.BoundedProofs
  Signal.Fork Signal.ForkSpec Signal.ForkProofs.
Import ListNotations.

Theorem c12_fork_rejects_nonempty : forall (A : Type) (s : source A) (rb : bounded A),
  len rb <> 0 -> fork s rb = Panic PAssert.
Proof. exact @fork_nonempty. Qed.
Print Assumptions c12_fork_rejects_nonempty.
