(* C20 — Windowing yields the documented window shape and chunk schedule.
   This file contains only the property theorems: each is closed by [exact] of a lemma of
   the development, followed by Print Assumptions.

   Model: Signal/Window.v (written after dasp_signal/src/window/mod.rs, Phase/ConstHz/
   FromIterator of dasp_signal/src/lib.rs, dasp_window/src/{hann/mod.rs,rectangle.rs}).
   Part 1 is over Coq's real numbers with the true cosine (instance Signal/WindowR.v:
   hannR p = 1/2 * (1 - cos (p * (PI * 2))), `% 1.0` = truncated remainder) and uses only
   the standard library's real-number axioms.  Part 2 (the integer schedule) is axiom-free.
   The IEEE behaviour (rounded phase accumulation, libm cos, mul_amp through the sample
   conversions) is tied to the crates by the correspondence check, not proved here.
   Part 4 is the translator tie: gen/WindowGen.v is REGENERATED from dasp_signal/src/window/mod.rs by
   translate/window2coq.py on every run (Window::new / next, Windower::new / next / size_hint,
   Windowed::next); every generated definition equals the hand model's on all inputs, so the theorems
   of Parts 2 and 3 are theorems about the regenerated model (restated on it), and the window values
   of Part 1 are those of the regenerated Window iterator. *)
Require Import List Arith ZArith Reals.
From Flocq Require Import Raux.
From Dasp Require Import Base.Res Signal.Window Signal.WindowSpec Signal.WindowProofs
  Signal.WindowR Signal.WindowRProofs Signal.WindowExamples
  Signal.WindowPrim Signal.WindowGenGlue Signal.WindowGenEquiv Signal.WindowGenEquivR Signal.WindowGenExamples.
From DaspGen Require Import WindowGen.
Import ListNotations.
Open Scope nat_scope.

(* ------------------------------------------------------------------------- *)
(* Part 1 — window shape, over R                                              *)

Theorem c20_hann_formula : forall p : R, (hannR p = 1 / 2 * (1 - cos (2 * PI * p)))%R.
Proof. exact hannR_eq. Qed.
Print Assumptions c20_hann_formula.

Theorem c20_hann_range : forall p : R, (0 <= hannR p <= 1)%R.
Proof. exact hann_range. Qed.
Print Assumptions c20_hann_range.

(* symmetric about p = 1/2 *)
Theorem c20_hann_sym : forall p : R, (hannR (1 - p) = hannR p)%R.
Proof. exact hann_sym. Qed.
Print Assumptions c20_hann_sym.

Theorem c20_hann_peak : (hannR (1 / 2) = 1)%R.
Proof. exact hann_peak. Qed.
Print Assumptions c20_hann_peak.

Theorem c20_hann_ends : (hannR 0 = 0 /\ hannR 1 = 0)%R.
Proof. exact (conj hann_zero hann_one). Qed.
Print Assumptions c20_hann_ends.

Theorem c20_rect : forall p : R, (rectR p = 1)%R.
Proof. exact rect_one. Qed.
Print Assumptions c20_rect.

(* A window of n >= 2 frames: the i-th phase handed to the window function (i = 0, 1, 2, ...,
   also beyond n-1: the iterator never ends) is the fractional part of i/(n-1), exactly what
   `next = (next + 1/(n-1)) % 1.0` computes in exact arithmetic ... *)
Theorem c20_phases : forall n i : nat, 2 <= n ->
  (window_phase n i = INR i / (INR n - 1) - IZR (Zfloor (INR i / (INR n - 1))))%R.
Proof. exact window_phase_frac. Qed.
Print Assumptions c20_phases.

(* ... i.e. i/(n-1) for i < n-1, and 0 (the wrapped 1) for i = n-1 ... *)
Theorem c20_phases_inner_last : forall n : nat, 2 <= n ->
  (forall i, i < n - 1 -> (window_phase n i = INR i / (INR n - 1))%R) /\ window_phase n (n - 1) = 0%R.
Proof. exact (fun n Hn => conj (fun i Hi => window_phase_inner n i Hn Hi) (window_phase_last n Hn)). Qed.
Print Assumptions c20_phases_inner_last.

(* ... and since Hann is 1-periodic the window VALUES are Hann at i/(n-1) for every i = 0..n-1
   (and beyond): the wrap of the last phase is invisible in exact arithmetic. *)
Theorem c20_window_values : forall n i : nat, 2 <= n ->
  hann_window_value n i = hannR (INR i / (INR n - 1)).
Proof. exact hann_window_values. Qed.
Print Assumptions c20_window_values.

(* ------------------------------------------------------------------------- *)
(* Part 2 — chunk schedule of the Windower, every frame type A, every L, bin >= 1, hop >= 1.
   w_drain (S L) calls next until it returns None (at most L+1 times); the conjunct
   [w_next w' = Ok None] says the iteration really ended; [= Ok] says no slice or
   subtraction panicked.                                                              *)

Theorem c20_count : forall (A : Type) (fr : list A) (b h : nat), 1 <= b -> 1 <= h ->
  exists chunks w', w_drain (S (length fr)) (w_new fr b h) = Ok (chunks, w') /\
                    w_next w' = Ok None /\
                    length chunks = (if b <=? length fr then (length fr - b) / h + 1 else 0).
Proof. exact @windower_count. Qed.
Print Assumptions c20_count.

(* call number j < count returns Some, call number count returns None *)
Theorem c20_calls : forall (A : Type) (fr : list A) (b h : nat), 1 <= b -> 1 <= h ->
  let c := (if b <=? length fr then (length fr - b) / h + 1 else 0) in
  (forall j, j < c -> exists wj x, w_after j (w_new fr b h) = Ok (Some wj) /\ w_next wj = Ok (Some x)) /\
  (exists wc, w_after c (w_new fr b h) = Ok (Some wc) /\ w_next wc = Ok None).
Proof. exact @windower_calls. Qed.
Print Assumptions c20_calls.

(* chunk k consists of frames k*h .. k*h+b-1 (which exist) *)
Theorem c20_chunk : forall (A : Type) (fr : list A) (b h : nat), 1 <= b -> 1 <= h ->
  exists chunks w', w_drain (S (length fr)) (w_new fr b h) = Ok (chunks, w') /\
    forall k, k < length chunks ->
      k * h + b <= length fr /\
      exists c, nth_error chunks k = Some c /\ length c = b /\
                forall j, j < b -> nth_error c j = nth_error fr (k * h + j).
Proof. exact @windower_chunk. Qed.
Print Assumptions c20_chunk.

(* size_hint in every state reachable by calls of next: exact, equal to the number of chunks
   the rest of the iteration yields, i.e. count - j after j calls.  (True of the repaired
   code only: defect F2, fixed in /repo by f50fdf9.) *)
Theorem c20_size_hint : forall (A : Type) (fr : list A) (b h j : nat) (wj : windower A), 1 <= b -> 1 <= h ->
  w_after j (w_new fr b h) = Ok (Some wj) ->
  exists remaining w', w_drain (S (length (frames wj))) wj = Ok (remaining, w') /\
    w_next w' = Ok None /\
    w_size_hint wj = Ok (Hint (length remaining) (Some (length remaining))) /\
    length remaining = (if b <=? length fr then (length fr - b) / h + 1 else 0) - j.
Proof. exact @windower_size_hint. Qed.
Print Assumptions c20_size_hint.

(* hop = 0 (outside the property's domain; the size_hint branch exists in the code): the
   windower yields the same chunk forever and reports (usize::MAX, None) *)
Theorem c20_hop_zero : forall (A : Type) (w : windower A), hop w = 0 -> bin w <= length (frames w) ->
  w_next w = Ok (Some (firstn (bin w) (frames w), w)) /\ w_size_hint w = Ok HintForever.
Proof. exact @hop_zero_forever. Qed.
Print Assumptions c20_hop_zero.

(* contents of the Windowed a chunk becomes, any arithmetic, any window function, any sample
   format (conv : f64 -> S::Float, smul = Sample::mul_amp): frame j < b of chunk k is input
   frame k*h+j with every sample mul_amp'ed by the window value of position j *)
Theorem c20_chunk_scaled : forall (N : arith) (wfun : T N -> T N) (Smp FS : Type) (conv : T N -> FS)
    (smul : Smp -> FS -> Smp) (equilibrium : Smp) (nch : nat) (fr : list (list Smp)) (b h : nat),
  1 <= b -> 1 <= h -> (forall f, In f fr -> length f = nch) ->
  exists chunks w', w_drain (S (length fr)) (w_new fr b h) = Ok (chunks, w') /\
    forall k c, nth_error chunks k = Some c ->
    forall j m, j < b -> j < m ->
      exists x, nth_error fr (k * h + j) = Some x /\
        nth_error (windowed_take N wfun Smp FS conv smul equilibrium nch m (windowed_of N Smp c b)) j =
        Some (map (fun s => smul s (conv (wfun (phase_at N j (window_new N b))))) x).
Proof. exact windower_windowed_chunk. Qed.
Print Assumptions c20_chunk_scaled.

(* ... over the reals with the Hann window: scaled by hann(j/(b-1)) (bin >= 2) *)
Theorem c20_chunk_hann : forall (nch : nat) (fr : list (list R)) (b h : nat), 2 <= b -> 1 <= h ->
  (forall f, In f fr -> length f = nch) ->
  exists chunks w', w_drain (S (length fr)) (w_new fr b h) = Ok (chunks, w') /\
    forall k c, nth_error chunks k = Some c ->
    forall j m, j < b -> j < m ->
      exists x, nth_error fr (k * h + j) = Some x /\
        nth_error (windowed_take_R hannR nch m c b) j =
        Some (map (fun s => (s * hannR (INR j / (INR b - 1)))%R) x).
Proof. exact hann_chunk_frames. Qed.
Print Assumptions c20_chunk_hann.

(* ... and with the rectangle window: unchanged *)
Theorem c20_chunk_rect : forall (nch : nat) (fr : list (list R)) (b h : nat), 1 <= b -> 1 <= h ->
  (forall f, In f fr -> length f = nch) ->
  exists chunks w', w_drain (S (length fr)) (w_new fr b h) = Ok (chunks, w') /\
    forall k c, nth_error chunks k = Some c ->
    forall j m, j < b -> j < m ->
      exists x, nth_error fr (k * h + j) = Some x /\ nth_error (windowed_take_R rectR nch m c b) j = Some x.
Proof. exact rect_chunk_frames. Qed.
Print Assumptions c20_chunk_rect.

(* ------------------------------------------------------------------------- *)
(* Part 3 — the provided Iterator methods of the Windower, defined (Signal/Window.v) as their
   defaults in core::iter in terms of repeated next; the crate overrides none of them and the
   correspondence exercises last / nth / count / skip / step_by / fold / collect / by_ref.   *)

(* last() is chunk number count-1: it starts at floor((L-b)/h)*h — not at L-b unless h divides L-b *)
Theorem c20_last : forall (A : Type) (fr : list A) (b h : nat), 1 <= b -> 1 <= h ->
  exists w', w_last (S (length fr)) (w_new fr b h) =
    Ok (if b <=? length fr then Some (firstn b (skipn ((length fr - b) / h * h) fr)) else None, w') /\
    w_next w' = Ok None.
Proof. exact @windower_last. Qed.
Print Assumptions c20_last.

(* nth(k) (hence skip(k).next(), and the steps of step_by) is chunk k, None when k >= count *)
Theorem c20_nth : forall (A : Type) (fr : list A) (b h k : nat), 1 <= b -> 1 <= h ->
  exists w', w_nth k (w_new fr b h) =
    Ok (if k <? (if b <=? length fr then (length fr - b) / h + 1 else 0)
        then Some (firstn b (skipn (k * h) fr)) else None, w').
Proof. exact @windower_nth. Qed.
Print Assumptions c20_nth.

Theorem c20_count_method : forall (A : Type) (fr : list A) (b h : nat), 1 <= b -> 1 <= h ->
  exists w', w_count (S (length fr)) (w_new fr b h) =
    Ok (if b <=? length fr then (length fr - b) / h + 1 else 0, w') /\ w_next w' = Ok None.
Proof. exact @windower_count_method. Qed.
Print Assumptions c20_count_method.

(* ------------------------------------------------------------------------- *)
(* Part 4 — the translator tie.  gen/WindowGen.v (regenerated from dasp_signal/src/window/mod.rs on every
   run) against the hand model Signal/Window.v, on ALL inputs, including which panic comes out; every
   arithmetic N, window function, sample / float types, conversions.  An item of the generated Windower is
   the whole `Windowed { signal: from_iter(frames[..bin]), window: Window::new(bin) }` = [windowed_of c bin]
   where the hand model's w_next returns the slice c.  [gen_drain] / [gen_after] / [gen_nth] / [gen_last] /
   [gen_count] (Signal/WindowGenGlue.v) are w_drain / w_after / w_nth / w_last / w_count over the generated
   next: what a caller of the iterator does, and the core::iter defaults. *)

Theorem c20_gen_windower_agrees : forall (N : arith) (Smp : Type),
  (forall (fr : list (list Smp)) b h, Windower_new Smp fr b h = Ok (w_new fr b h)) /\
  (forall w : windower (list Smp), Windower_next N Smp w =
     let* r := w_next w in
     Ok (match r with Some (c, w') => (w', Some (windowed_of N Smp c (bin w))) | None => (w, None) end)) /\
  (forall w : windower (list Smp), Windower_size_hint Smp w = w_size_hint w) /\
  (forall fuel (w : windower (list Smp)), gen_drain N Smp fuel w =
     let* r := w_drain fuel w in Ok (map (fun c => windowed_of N Smp c (bin w)) (fst r), snd r)) /\
  (forall j (w : windower (list Smp)), gen_after N Smp j w = w_after j w) /\
  (forall k (w : windower (list Smp)), gen_nth N Smp k w =
     let* r := w_nth k w in Ok (option_map (fun c => windowed_of N Smp c (bin w)) (fst r), snd r)) /\
  (forall fuel (w : windower (list Smp)), gen_last N Smp fuel w =
     let* r := w_last fuel w in Ok (option_map (fun c => windowed_of N Smp c (bin w)) (fst r), snd r)) /\
  (forall fuel (w : windower (list Smp)), gen_count N Smp fuel w = w_count fuel w).
Proof. exact gen_windower_agrees. Qed.
Print Assumptions c20_gen_windower_agrees.

(* Window::new is window_new (phase step 1/(len-1), phase 0); Window::next never returns None, steps the phase
   and yields the window function at the phase before the step, converted f64 -> Float -> F::Sample, on every
   channel; Windowed::next never returns None either and is windowed_next (window first, then the signal,
   then mul_amp); hence the frame sequences *)
Theorem c20_gen_window_agrees : forall (N : arith) (wfun : T N -> T N) (Smp FS WS : Type) (conv : T N -> FS)
    (back : FS -> WS) (smul : Smp -> FS -> Smp) (equilibrium : Smp) (nch : nat),
  (forall len, Window_new N len = Ok (window_new N len)) /\
  (forall p, Window_next N wfun FS WS conv back nch p =
     Ok (snd (window_next N wfun FS conv nch p), Some (map back (fst (window_next N wfun FS conv nch p))))) /\
  (forall x, Windowed_next N wfun Smp FS conv smul equilibrium nch x =
     Ok (snd (windowed_next N wfun Smp FS conv smul equilibrium nch x),
         Some (fst (windowed_next N wfun Smp FS conv smul equilibrium nch x)))) /\
  (forall m x, gen_windowed_take N wfun Smp FS conv smul equilibrium nch m x =
     Ok (windowed_take N wfun Smp FS conv smul equilibrium nch m x)) /\
  (forall n m, gen_window_take N wfun FS WS conv back nch n m =
     Ok (map (fun j => repeat (back (conv (wfun (phase_at N j (window_new N n))))) nch) (seq 0 m))).
Proof. exact gen_window_agrees. Qed.
Print Assumptions c20_gen_window_agrees.

(* ... so the schedule clauses hold of the iteration over the regenerated next: count chunks then None, no
   panic, item k = Windowed over frames k*h .. k*h+b-1 with a fresh window of b frames *)
Theorem c20_gen_schedule : forall (N : arith) (Smp : Type) (fr : list (list Smp)) (b h : nat), 1 <= b -> 1 <= h ->
  exists items w', gen_drain N Smp (S (length fr)) (w_new fr b h) = Ok (items, w') /\
    Windower_next N Smp w' = Ok (w', None) /\
    length items = (if b <=? length fr then (length fr - b) / h + 1 else 0) /\
    forall k, k < length items ->
      k * h + b <= length fr /\ nth_error items k = Some (windowed_of N Smp (firstn b (skipn (k * h) fr)) b).
Proof. exact gen_windower_schedule. Qed.
Print Assumptions c20_gen_schedule.

(* the regenerated size_hint in every state reachable by the regenerated next *)
Theorem c20_gen_size_hint : forall (N : arith) (Smp : Type) (fr : list (list Smp)) (b h j : nat)
    (wj : windower (list Smp)), 1 <= b -> 1 <= h ->
  gen_after N Smp j (w_new fr b h) = Ok (Some wj) ->
  exists remaining w', gen_drain N Smp (S (length (frames wj))) wj = Ok (remaining, w') /\
    Windower_next N Smp w' = Ok (w', None) /\
    Windower_size_hint Smp wj = Ok (Hint (length remaining) (Some (length remaining))) /\
    length remaining = (if b <=? length fr then (length fr - b) / h + 1 else 0) - j.
Proof. exact gen_windower_size_hint. Qed.
Print Assumptions c20_gen_size_hint.

(* nth(k) / last() / count() over the regenerated next *)
Theorem c20_gen_methods : forall (N : arith) (Smp : Type) (fr : list (list Smp)) (b h : nat), 1 <= b -> 1 <= h ->
  (forall k, exists w', gen_nth N Smp k (w_new fr b h) =
     Ok (if k <? (if b <=? length fr then (length fr - b) / h + 1 else 0)
         then Some (windowed_of N Smp (firstn b (skipn (k * h) fr)) b) else None, w')) /\
  (exists w', gen_last N Smp (S (length fr)) (w_new fr b h) =
     Ok (if b <=? length fr then Some (windowed_of N Smp (firstn b (skipn ((length fr - b) / h * h) fr)) b) else None, w') /\
     Windower_next N Smp w' = Ok (w', None)) /\
  (exists w', gen_count N Smp (S (length fr)) (w_new fr b h) =
     Ok (if b <=? length fr then (length fr - b) / h + 1 else 0, w') /\
     Windower_next N Smp w' = Ok (w', None)).
Proof. exact gen_windower_methods. Qed.
Print Assumptions c20_gen_methods.

(* frame j < b of item k, pulled through the regenerated Windowed::next (which pulls the regenerated
   Window::next), is input frame k*h+j with every sample mul_amp'ed by the window value of position j *)
Theorem c20_gen_chunk_scaled : forall (N : arith) (wfun : T N -> T N) (Smp FS : Type) (conv : T N -> FS)
    (smul : Smp -> FS -> Smp) (equilibrium : Smp) (nch : nat) (fr : list (list Smp)) (b h : nat),
  1 <= b -> 1 <= h -> (forall f, In f fr -> length f = nch) ->
  exists items w', gen_drain N Smp (S (length fr)) (w_new fr b h) = Ok (items, w') /\
    forall k x, nth_error items k = Some x ->
    forall j m, j < b -> j < m ->
      exists f frames, nth_error fr (k * h + j) = Some f /\
        gen_windowed_take N wfun Smp FS conv smul equilibrium nch m x = Ok frames /\
        nth_error frames j = Some (map (fun s => smul s (conv (wfun (phase_at N j (window_new N b))))) f).
Proof. exact gen_windowed_chunk. Qed.
Print Assumptions c20_gen_chunk_scaled.

(* the regenerated Window iterator over the reals with the true cosine: frame i carries hann(i/(n-1)) *)
Theorem c20_gen_window_hann : forall (nch n m : nat), 2 <= n ->
  gen_window_take AR hannR R R (fun v => v) (fun v => v) nch n m =
  Ok (map (fun i => repeat (hannR (INR i / (INR n - 1))) nch) (seq 0 m)).
Proof. exact gen_window_hann_values. Qed.
Print Assumptions c20_gen_window_hann.
