(* C20 — Windowing yields the documented window shape and chunk schedule.
   This file contains only the property theorems: each is closed by [exact] of a lemma of
   the development, followed by Print Assumptions.

   Model: Signal/Window.v (written after dasp_signal/src/window/mod.rs, Phase/ConstHz/
   FromIterator of dasp_signal/src/lib.rs, dasp_window/src/{hann/mod.rs,rectangle.rs}).
   Part 1 is over Coq's real numbers with the true cosine (instance Signal/WindowR.v:
   hannR p = 1/2 * (1 - cos (p * (PI * 2))), `% 1.0` = truncated remainder) and uses only
   the standard library's real-number axioms.  Part 2 (the integer schedule) is axiom-free.
   The IEEE behaviour (rounded phase accumulation, libm cos, mul_amp through the sample
   conversions) is tied to the crates by the correspondence check, not proved here. *)
Require Import List Arith ZArith Reals.
From Flocq Require Import Raux.
From Dasp Require Import Base.Res Signal.Window Signal.WindowSpec Signal.WindowProofs
  Signal.WindowR Signal.WindowRProofs Signal.WindowExamples.
Import ListNotations.
Open Scope nat_scope.

(* ------------------------------------------------------------------------- *)
(* Part 1 — window shape, over R                                              *)

Theorem c20_hann_formula : forall p : R, (hannR p = 1 / 2 * (1 - cos (2 * PI * p)))%R.
Proof. exact hannR_eq. Qed.
Print Assumptions c20_hann_formula.

Theorem c20_hann_range : forall p : R, (0 <= hannR p <= 1)%R.
Proof. exact hann_range. Qed.
Print Assumptions c20_hann_range.

(* symmetric about p = 1/2 *)
Theorem c20_hann_sym : forall p : R, (hannR (1 - p) = hannR p)%R.
Proof. exact hann_sym. Qed.
Print Assumptions c20_hann_sym.

Theorem c20_hann_peak : (hannR (1 / 2) = 1)%R.
Proof. exact hann_peak. Qed.
Print Assumptions c20_hann_peak.

Theorem c20_hann_ends : (hannR 0 = 0 /\ hannR 1 = 0)%R.
Proof. exact (conj hann_zero hann_one). Qed.
Print Assumptions c20_hann_ends.

Theorem c20_rect : forall p : R, (rectR p = 1)%R.
Proof. exact rect_one. Qed.
Print Assumptions c20_rect.

(* A window of n >= 2 frames: the i-th phase handed to the window function (i = 0, 1, 2, ...,
   also beyond n-1: the iterator never ends) is the fractional part of i/(n-1), exactly what
   `next = (next + 1/(n-1)) % 1.0` computes in exact arithmetic ... *)
Theorem c20_phases : forall n i : nat, 2 <= n ->
  (window_phase n i = INR i / (INR n - 1) - IZR (Zfloor (INR i / (INR n - 1))))%R.
Proof. exact window_phase_frac. Qed.
Print Assumptions c20_phases.

(* ... i.e. i/(n-1) for i < n-1, and 0 (the wrapped 1) for i = n-1 ... *)
Theorem c20_phases_inner_last : forall n : nat, 2 <= n ->
  (forall i, i < n - 1 -> (window_phase n i = INR i / (INR n - 1))%R) /\ window_phase n (n - 1) = 0%R.
Proof. exact (fun n Hn => conj (fun i Hi => window_phase_inner n i Hn Hi) (window_phase_last n Hn)). Qed.
Print Assumptions c20_phases_inner_last.

(* ... and since Hann is 1-periodic the window VALUES are Hann at i/(n-1) for every i = 0..n-1
   (and beyond): the wrap of the last phase is invisible in exact arithmetic. *)
Theorem c20_window_values : forall n i : nat, 2 <= n ->
  hann_window_value n i = hannR (INR i / (INR n - 1)).
Proof. exact hann_window_values. Qed.
Print Assumptions c20_window_values.

(* ------------------------------------------------------------------------- *)
(* Part 2 — chunk schedule of the Windower, every frame type A, every L, bin >= 1, hop >= 1.
   w_drain (S L) calls next until it returns None (at most L+1 times); the conjunct
   [w_next w' = Ok None] says the iteration really ended; [= Ok] says no slice or
   subtraction panicked.                                                              *)

Theorem c20_count : forall (A : Type) (fr : list A) (b h : nat), 1 <= b -> 1 <= h ->
  exists chunks w', w_drain (S (length fr)) (w_new fr b h) = Ok (chunks, w') /\
                    w_next w' = Ok None /\
                    length chunks = (if b <=? length fr then (length fr - b) / h + 1 else 0).
Proof. exact @windower_count. Qed.
Print Assumptions c20_count.

(* call number j < count returns Some, call number count returns None *)
Theorem c20_calls : forall (A : Type) (fr : list A) (b h : nat), 1 <= b -> 1 <= h ->
  let c := (if b <=? length fr then (length fr - b) / h + 1 else 0) in
  (forall j, j < c -> exists wj x, w_after j (w_new fr b h) = Ok (Some wj) /\ w_next wj = Ok (Some x)) /\
  (exists wc, w_after c (w_new fr b h) = Ok (Some wc) /\ w_next wc = Ok None).
Proof. exact @windower_calls. Qed.
Print Assumptions c20_calls.

(* chunk k consists of frames k*h .. k*h+b-1 (which exist) *)
Theorem c20_chunk : forall (A : Type) (fr : list A) (b h : nat), 1 <= b -> 1 <= h ->
  exists chunks w', w_drain (S (length fr)) (w_new fr b h) = Ok (chunks, w') /\
    forall k, k < length chunks ->
      k * h + b <= length fr /\
      exists c, nth_error chunks k = Some c /\ length c = b /\
                forall j, j < b -> nth_error c j = nth_error fr (k * h + j).
Proof. exact @windower_chunk. Qed.
Print Assumptions c20_chunk.

(* size_hint in every state reachable by calls of next: exact, equal to the number of chunks
   the rest of the iteration yields, i.e. count - j after j calls.  (True of the repaired
   code only: defect F2, fixed in /repo by f50fdf9.) *)
Theorem c20_size_hint : forall (A : Type) (fr : list A) (b h j : nat) (wj : windower A), 1 <= b -> 1 <= h ->
  w_after j (w_new fr b h) = Ok (Some wj) ->
  exists remaining w', w_drain (S (length (frames wj))) wj = Ok (remaining, w') /\
    w_next w' = Ok None /\
    w_size_hint wj = Ok (Hint (length remaining) (Some (length remaining))) /\
    length remaining = (if b <=? length fr then (length fr - b) / h + 1 else 0) - j.
Proof. exact @windower_size_hint. Qed.
Print Assumptions c20_size_hint.

(* hop = 0 (outside the property's domain; the size_hint branch exists in the code): the
   windower yields the same chunk forever and reports (usize::MAX, None) *)
Theorem c20_hop_zero : forall (A : Type) (w : windower A), hop w = 0 -> bin w <= length (frames w) ->
  w_next w = Ok (Some (firstn (bin w) (frames w), w)) /\ w_size_hint w = Ok HintForever.
Proof. exact @hop_zero_forever. Qed.
Print Assumptions c20_hop_zero.

(* contents of the Windowed a chunk becomes, any arithmetic, any window function, any sample
   format (conv : f64 -> S::Float, smul = Sample::mul_amp): frame j < b of chunk k is input
   frame k*h+j with every sample mul_amp'ed by the window value of position j *)
Theorem c20_chunk_scaled : forall (N : arith) (wfun : T N -> T N) (Smp FS : Type) (conv : T N -> FS)
    (smul : Smp -> FS -> Smp) (equilibrium : Smp) (nch : nat) (fr : list (list Smp)) (b h : nat),
  1 <= b -> 1 <= h -> (forall f, In f fr -> length f = nch) ->
  exists chunks w', w_drain (S (length fr)) (w_new fr b h) = Ok (chunks, w') /\
    forall k c, nth_error chunks k = Some c ->
    forall j m, j < b -> j < m ->
      exists x, nth_error fr (k * h + j) = Some x /\
        nth_error (windowed_take N wfun Smp FS conv smul equilibrium nch m (windowed_of N Smp c b)) j =
        Some (map (fun s => smul s (conv (wfun (phase_at N j (window_new N b))))) x).
Proof. exact windower_windowed_chunk. Qed.
Print Assumptions c20_chunk_scaled.

(* ... over the reals with the Hann window: scaled by hann(j/(b-1)) (bin >= 2) *)
Theorem c20_chunk_hann : forall (nch : nat) (fr : list (list R)) (b h : nat), 2 <= b -> 1 <= h ->
  (forall f, In f fr -> length f = nch) ->
  exists chunks w', w_drain (S (length fr)) (w_new fr b h) = Ok (chunks, w') /\
    forall k c, nth_error chunks k = Some c ->
    forall j m, j < b -> j < m ->
      exists x, nth_error fr (k * h + j) = Some x /\
        nth_error (windowed_take_R hannR nch m c b) j =
        Some (map (fun s => (s * hannR (INR j / (INR b - 1)))%R) x).
Proof. exact hann_chunk_frames. Qed.
Print Assumptions c20_chunk_hann.

(* ... and with the rectangle window: unchanged *)
Theorem c20_chunk_rect : forall (nch : nat) (fr : list (list R)) (b h : nat), 1 <= b -> 1 <= h ->
  (forall f, In f fr -> length f = nch) ->
  exists chunks w', w_drain (S (length fr)) (w_new fr b h) = Ok (chunks, w') /\
    forall k c, nth_error chunks k = Some c ->
    forall j m, j < b -> j < m ->
      exists x, nth_error fr (k * h + j) = Some x /\ nth_error (windowed_take_R rectR nch m c b) j = Some x.
Proof. exact rect_chunk_frames. Qed.
Print Assumptions c20_chunk_rect.

(* ------------------------------------------------------------------------- *)
(* Part 3 — the provided Iterator methods of the Windower, defined (Signal/Window.v) as their
   defaults in core::iter in terms of repeated next; the crate overrides none of them and the
   correspondence exercises last / nth / count / skip / step_by / fold / collect / by_ref.   *)

(* last() is chunk number count-1: it starts at floor((L-b)/h)*h — not at L-b unless h divides L-b *)
Theorem c20_last : forall (A : Type) (fr : list A) (b h : nat), 1 <= b -> 1 <= h ->
  exists w', w_last (S (length fr)) (w_new fr b h) =
    Ok (if b <=? length fr then Some (firstn b (skipn ((length fr - b) / h * h) fr)) else None, w') /\
    w_next w' = Ok None.
Proof. exact @windower_last. Qed.
Print Assumptions c20_last.

(* nth(k) (hence skip(k).next(), and the steps of step_by) is chunk k, None when k >= count *)
Theorem c20_nth : forall (A : Type) (fr : list A) (b h k : nat), 1 <= b -> 1 <= h ->
  exists w', w_nth k (w_new fr b h) =
    Ok (if k <? (if b <=? length fr then (length fr - b) / h + 1 else 0)
        then Some (firstn b (skipn (k * h) fr)) else None, w').
Proof. exact @windower_nth. Qed.
Print Assumptions c20_nth.

Theorem c20_count_method : forall (A : Type) (fr : list A) (b h : nat), 1 <= b -> 1 <= h ->
  exists w', w_count (S (length fr)) (w_new fr b h) =
    Ok (if b <=? length fr then (length fr - b) / h + 1 else 0, w') /\ w_next w' = Ok None.
Proof. exact @windower_count_method. Qed.
Print Assumptions c20_count_method.
