(* C04 — signal adaptors are pointwise, lock-step, one source frame per output frame.
   Only the property theorems: each is closed by [exact] of a lemma of the development
   (Signal/SigProofs.v, Signal/SigRunProofs.v); Print Assumptions for each after the section.
   [stream s n] is the n-th frame yielded by s; [after n s] the state after n calls of next. *)
Require Import Floats.SpecFloat.
Require Import List ZArith Bool Arith.
From Flocq Require Import Core BinarySingleNaN.
From Dasp Require Import Base.Res Signal.Sig Signal.SigProofs Signal.SigRun Signal.SigRunProofs Signal.SigExamples
  Signal.SigNormProofs Signal.SigRunNormProofs Signal.SigNormExamples.
Import ListNotations.
Local Open Scope nat_scope.

Section Statement.
(* every frame type, sample format, frame operation and user closure *)
Variables F Sm SS FS : Type.
Variable eqm : F.
Variable nch : nat.
Variable channels : F -> list Sm.
Variable of_samples : list Sm -> F.
Variable fmap : (Sm -> Sm) -> F -> F.
Variables f_add f_mul : F -> F -> F.
Variable f_scale : FS -> F -> F.
Variable f_offset : SS -> F -> F.
Variable to_signed : Sm -> SS.
Variable of_signed : SS -> Sm.
Variable ss_ltb : SS -> SS -> bool.
Variable ss_neg : SS -> SS.

Notation sig := (sig F Sm SS FS).
Notation next := (Sig.next F Sm SS FS eqm nch of_samples fmap f_add f_mul f_scale f_offset to_signed of_signed ss_ltb ss_neg).
Notation after := (Sig.after F Sm SS FS eqm nch of_samples fmap f_add f_mul f_scale f_offset to_signed of_signed ss_ltb ss_neg).
Notation stream := (Sig.stream F Sm SS FS eqm nch of_samples fmap f_add f_mul f_scale f_offset to_signed of_signed ss_ltb ss_neg).
Notation clip_sample := (Sig.clip_sample Sm SS to_signed of_signed ss_ltb ss_neg).
Notation den := (SigProofs.den F Sm SS FS eqm nch of_samples fmap f_add f_mul f_scale f_offset to_signed of_signed ss_ltb ss_neg).
Notation pulls_of := (SigProofs.pulls_of F Sm SS FS).
Notation is_leaf := (SigProofs.is_leaf F Sm SS FS).

(* the n-th frame of every adaptor is the frame operation applied to the n-th frame(s) of its source(s) *)
Theorem c04_pointwise : forall n,
  (forall id f s, stream (Map id f s) n = f (stream s n)) /\
  (forall id f a b, stream (ZipMap id f a b) n = f (stream a n) (stream b n)) /\
  (forall a b, stream (AddAmp a b) n = f_add (stream a n) (stream b n)) /\
  (forall a b, stream (MulAmp a b) n = f_mul (stream a n) (stream b n)) /\
  (forall x s, stream (ScaleAmp x s) n = f_scale x (stream s n)) /\
  (forall x s, stream (OffsetAmp x s) n = f_offset x (stream s n)) /\
  (forall x s, stream (ScaleAmpPerChannel x s) n = f_mul (stream s n) x) /\
  (forall x s, stream (OffsetAmpPerChannel x s) n = f_add (stream s n) x) /\
  (forall t s, stream (ClipAmp t s) n = fmap (clip_sample t) (stream s n)) /\
  (forall id s, stream (Inspect id s) n = stream s n) /\
  (forall s, stream (ByRef s) n = stream s n).
Proof. exact (pointwise_all F Sm SS FS eqm nch of_samples fmap f_add f_mul f_scale f_offset to_signed of_signed ss_ltb ss_neg). Qed.

(* delay(k): k equilibrium frames, then the source unchanged *)
Theorem c04_delay : forall k s n, stream (Delay k s) n = if n <? k then eqm else stream s (n - k).
Proof. exact (delay_law F Sm SS FS eqm nch of_samples fmap f_add f_mul f_scale f_offset to_signed of_signed ss_ltb ss_neg). Qed.

(* one call of next advances EVERY sub-signal of the tree (at any position p, any nesting) by exactly
   one call of its own next — unless a delay above it still emits silence, then it is not touched *)
Theorem c04_pulls : forall (p : path) (t s : sig), sub_at p t = Some s ->
  sub_at p (snd (next t)) = Some (if delay_above p t =? 0 then snd (next s) else s).
Proof. exact (pulls_one F Sm SS FS eqm nch of_samples fmap f_add f_mul f_scale f_offset to_signed of_signed ss_ltb ss_neg). Qed.

(* ... hence after n calls it has been advanced exactly n - (pending silence above it) times *)
Theorem c04_pulls_n : forall n (p : path) (t s : sig), sub_at p t = Some s ->
  sub_at p (after n t) = Some (after (n - delay_above p t) s).
Proof. exact (pulls_n F Sm SS FS eqm nch of_samples fmap f_add f_mul f_scale f_offset to_signed of_signed ss_ltb ss_neg). Qed.

(* ... and the pull counter of every leaf source says exactly that *)
Theorem c04_leaf_pull_count : forall n (p : path) (t l : sig), sub_at p t = Some l -> is_leaf l = true ->
  exists l', sub_at p (after n t) = Some l' /\ pulls_of l' = (n - delay_above p t) + pulls_of l.
Proof. exact (leaf_pulls_exact F Sm SS FS eqm nch of_samples fmap f_add f_mul f_scale f_offset to_signed of_signed ss_ltb ss_neg). Qed.

(* a borrowed signal (by_ref) anywhere in the tree resumes exactly where the adaptor left it *)
Theorem c04_by_ref : forall n k (p : path) (t s : sig), sub_at p t = Some (ByRef s) ->
  exists s', sub_at p (after n t) = Some (ByRef s') /\ s' = after (n - delay_above p t) s /\
             stream s' k = stream s ((n - delay_above p t) + k).
Proof. exact (by_ref_resume F Sm SS FS eqm nch of_samples fmap f_add f_mul f_scale f_offset to_signed of_signed ss_ltb ss_neg). Qed.

(* any nesting of adaptors = the composition [den] of their pointwise functions over the leaf streams *)
Theorem c04_compose : forall (t : sig) n, stream t n = den t n.
Proof. exact (compose F Sm SS FS eqm nch of_samples fmap f_add f_mul f_scale f_offset to_signed of_signed ss_ltb ss_neg). Qed.

(* clip_amp(t) on any signed format whose [<] is irreflexive (integers; floats, where a NaN passes
   through): the result channel's signed amplitude is t above t, -t below -t, unchanged in between;
   with -t <= t it is neither below -t nor above t *)
Theorem c04_clip : forall (lt : SS -> SS -> Prop),
  (forall a b, ss_ltb a b = true <-> lt a b) ->
  (forall a, ~ lt a a) ->
  (forall x, to_signed (of_signed x) = x) ->
  (forall g f, channels (fmap g f) = map g (channels f)) ->
  forall t s n,
  (forall i c0, nth_error (channels (stream s n)) i = Some c0 ->
     exists c, nth_error (channels (stream (ClipAmp t s) n)) i = Some c /\
               clamped SS ss_neg lt t (to_signed c0) (to_signed c)) /\
  (~ lt t (ss_neg t) ->
   forall c, In c (channels (stream (ClipAmp t s) n)) -> ~ lt (to_signed c) (ss_neg t) /\ ~ lt t (to_signed c)).
Proof.
  intros lt H1 Hi H2 H3 t s n. split.
  - intros i c0. exact (clip_values F Sm SS FS eqm nch channels of_samples fmap f_add f_mul f_scale f_offset to_signed of_signed ss_ltb ss_neg lt H1 H2 H3 t s n i c0).
  - intros Ht. exact (proj2 (clip_law F Sm SS FS eqm nch channels of_samples fmap f_add f_mul f_scale f_offset to_signed of_signed ss_ltb ss_neg lt H1 Hi H2 H3 t s n Ht)).
Qed.

(* a delay that outlasts the run: for EVERY tree t in which a delay of length k > m occurs (at any position p, under any
   other adaptors), giving that delay any other length k' > m (m + 1, say) changes nothing that m calls of next can
   observe: the frames, the events (which leaf is pulled when, which closure is called), is_exhausted before and after
   every call, the pull counters of every leaf, and every sub-signal -- a borrowed base in particular -- stays related
   in the same way (drel: the same tree up to delays that both outlast what is left of the run).
   delay(2^32) and delay(usize::MAX) are therefore judged by running delay(m + 1). *)
Notation trace := (Sig.trace F Sm SS FS eqm nch of_samples fmap f_add f_mul f_scale f_offset to_signed of_signed ss_ltb ss_neg).

Theorem c04_delay_beyond_run : forall (m : nat) (p : path) (t : sig) k k' s,
  sub_at p t = Some (Delay k s) -> m < k -> m < k' ->
  let t' := subst_at p t (Delay k' s) in
  forall n, n <= m ->
    stream t' n = stream t n /\
    trace (after n t') = trace (after n t) /\
    exhausted (after n t') = exhausted (after n t) /\
    leaf_counts (after n t') = leaf_counts (after n t) /\
    drel F Sm SS FS (m - n) (after n t) (after n t').
Proof. exact (delay_clamp_sound F Sm SS FS eqm nch of_samples fmap f_add f_mul f_scale f_offset to_signed of_signed ss_ltb ss_neg). Qed.

End Statement.

(* the normalisation that lets the correspondence run delay(2^32), delay(usize::MAX) ... through the unary-nat model is
   invisible: for every executable instance OP (the five hand instances and those over the C03 sample model), every list
   of base trees and every list of ops, running the case whose delay lengths are clamped to [norm_bound ops]
   (1 + the number of calls of next the ops can make on one signal) yields exactly the observations of the case itself *)
Theorem c04_run_delay_normalisation_sound : forall (OP : zops) (ts : list ztree) (ops : list zop),
  let b := norm_bound ops in
  (let (l, bases) := run_bases OP (map (clamp_tree b) ts) in l ++ run_ops OP bases (map (clamp_op b) ops)) =
  (let (l, bases) := run_bases OP ts in l ++ run_ops OP bases ops).
Proof. exact run_ops_norm. Qed.

(* (instantiated at the hand instances this is SigRunNormProofs.run_case_norm_sound : run_case_norm c = run_case c; it is
   not restated here because the instances themselves mention Flocq's float operations, whose definitions rest on the
   standard real-number axioms, and this file's theorems are axiom-free) *)

(* the clip law on every two's complement integer format of width b whose signed amplitude is x - off
   (off = 0: i16, i32, ...; off = 2^(b-1): u8, ...), ClipAmp's closure written with integer operations
   (to_signed = x - off, compare, wrapping negate, back): signed amplitude of the result = clamp(-t, t).
   Signal/SigRunProofs.clip_int ties the executable instances [i16;2], i32, [u8;3] to it. *)
Theorem c04_clip_int : forall (b off t x : Z), (0 < b)%Z -> (0 <= t < 2 ^ (b - 1))%Z ->
  (clip_sample Z Z (fun x => x - off) (fun y => y + off) Z.ltb (fun a => wrap_s b (- a)) t x - off =
   Z.max (- t) (Z.min t (x - off)))%Z.
Proof. exact clip_int_pure. Qed.

Print Assumptions c04_pointwise.
Print Assumptions c04_delay.
Print Assumptions c04_pulls.
Print Assumptions c04_pulls_n.
Print Assumptions c04_leaf_pull_count.
Print Assumptions c04_by_ref.
Print Assumptions c04_compose.
Print Assumptions c04_clip.
Print Assumptions c04_clip_int.
Print Assumptions c04_delay_beyond_run.
Print Assumptions c04_run_delay_normalisation_sound.
