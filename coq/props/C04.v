(* placeholder, replaced below *)
Require Import List.
From Dasp Require Import Signal.Sig.
Theorem c04_placeholder : True. Proof. exact I. Qed.
Print Assumptions c04_placeholder.
