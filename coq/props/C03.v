(* C03 -- Sample and frame amplitude arithmetic obeys its identities, channel by channel.
   Only the property theorems: each is closed by [exact] of a lemma of the development, followed by Print Assumptions.

   Sample level (Sample/SampleOps.v): [add_amp m f s a], [mul_amp m f s g], [to_signed], [to_float] are the provided
   methods of `trait Sample`, composed from the conversions GENERATED from conv.rs (C01's to_sample, the float
   conversions of gen/ConvFloatGen.v) and the companion table GENERATED from impl_sample! (gen/SampleTable.v:
   signed_of, float_of, equilibrium_of); `+` on I24/I48 is C15's model of types.rs.  m = Checked is the debug
   profile, Wrapping the release profile.  [= Ok v]: returns v, no panic.
   Frame level (Frame/Frame.v, Frame/FrameOps.v): frames are lists, N is the channel count of the TARGET type,
   closures are state-passing (call order observable), unchecked indexing returns UB out of range.

   Honest note: the frame theorems are close to definitional in a functional model.  Their content is (a) the
   unchecked-index code (from_fn + channel_unchecked) never reads outside the frame for any N when the lengths
   agree (the compile-time witness), (b) the partial-fill path of array_from_iter never touches an unwritten slot,
   (c) call order, and (d) the model they are stated about is pinned to the crates by the correspondence. *)
Require Import Floats.SpecFloat.
Require Import List ZArith Bool Reals.
From Flocq Require Import Core BinarySingleNaN.
From Dasp Require Import Base.Res Base.Float Sample.Rint Sample.ConvSpec Sample.SampleFmt Sample.SampleOps
  Sample.SampleOpsProofs Sample.SampleOpsFloatProofs Sample.SampleOpsWideLemmas Sample.SampleOpsWideProofs Frame.Frame Frame.FrameProofs Frame.FrameOps Frame.FrameOpsProofs
  Frame.FrameExamples Frame.ChanIter Frame.ChanIterProofs Frame.FrameMut Frame.FrameMutProofs.
From DaspGen Require Import FormatTable ConvGen SampleTable.
Import ListNotations.
Open Scope Z_scope.

(* ---------------- the companion table, as read from impl_sample! ---------------- *)

(* Signed twin of every integer format (u8->i8, u16->i16, U24->i32 (!), u32->i32, U48->i64 (!), u64->i64, signed
   formats themselves), always signed and at least as wide; Float companion f64 exactly for the 48/64-bit formats;
   EQUILIBRIUM = 0 for signed, half range 2^(bits-1) for unsigned. *)
Theorem c03_table : forall f : fmt,
  src_signed_fmt f = expected_signed f /\
  signed (src_signed_fmt f) = true /\
  (signed f = true -> src_signed_fmt f = f) /\
  bits f <= bits (src_signed_fmt f) /\
  src_float64 f = (48 <=? bits f) /\
  equilibrium_of (SInt f) = equilibrium f /\
  equilibrium f = (if signed f then 0 else 2 ^ (bits f - 1)).
Proof. exact sample_table_ok. Qed.
Print Assumptions c03_table.

(* ---------------- offset ---------------- *)

(* offsetting by zero returns the sample unchanged: all 12 integer formats, both profiles, every in-range value
   (uses C01: the widening to the Signed companion is lossless, e.g. U24 -> i32 -> U24) *)
Theorem c03_add_zero : forall (m : mode) (fi : fmt) (s : Z), in_range fi s -> add_amp m (SInt fi) s 0 = Ok s.
Proof. exact add_amp_zero_int. Qed.
Print Assumptions c03_add_zero.

(* f32 / f64: x + 0.0 has the value of x for every finite x (bit-identical except -0.0 + 0.0 = +0.0, see
   add_amp_zero_f32_negzero; NaN + 0.0 = NaN) *)
Theorem c03_add_zero_f32 : forall (m : mode) (x : F32.t), is_finite x = true ->
  exists r, add_amp m SF32 x F32.zero = Ok r /\ B2R r = B2R x /\ is_finite r = true.
Proof. exact add_amp_zero_f32. Qed.
Print Assumptions c03_add_zero_f32.
Theorem c03_add_zero_f64 : forall (m : mode) (x : F64.t), is_finite x = true ->
  exists r, add_amp m SF64 x F64.zero = Ok r /\ B2R r = B2R x /\ is_finite r = true.
Proof. exact add_amp_zero_f64. Qed.
Print Assumptions c03_add_zero_f64.

(* add_amp = native addition on the signed conversion, converted back (spec_conv is C01's rescaling formula):
   whenever the signed sum is representable in the Signed type, no panic and the value is ... *)
Theorem c03_add_spec : forall (m : mode) (fi : fmt) (s a : Z),
  in_range fi s -> in_range (src_signed_fmt fi) a ->
  in_range (src_signed_fmt fi) (spec_conv fi (src_signed_fmt fi) s + a) ->
  add_amp m (SInt fi) s a = Ok (spec_conv (src_signed_fmt fi) fi (spec_conv fi (src_signed_fmt fi) s + a)).
Proof. exact add_amp_int. Qed.
Print Assumptions c03_add_spec.

(* ... sample + floor(amp / 2^k), k = bits(Signed) - bits: unsigned formats are re-centred (the amplitude
   s - 2^(bits-1) is what is added to), not treated as raw integers; k = 8 for U24, 16 for U48, 0 otherwise *)
Theorem c03_add_recentred : forall (m : mode) (fi : fmt) (s a : Z),
  let sg := src_signed_fmt fi in
  let k := bits sg - bits fi in
  in_range fi s -> in_range sg a -> in_range sg (amp fi s * 2 ^ k + a) ->
  add_amp m (SInt fi) s a = Ok (s + a / 2 ^ k).
Proof. exact add_amp_recentred. Qed.
Print Assumptions c03_add_recentred.

(* ... and in a debug build it panics exactly otherwise (with c03_add_recentred: Ok iff the signed sum is representable) *)
Theorem c03_add_overflow : forall (fi : fmt) (s a : Z),
  let sg := src_signed_fmt fi in
  let k := bits sg - bits fi in
  in_range fi s -> in_range sg a -> ~ in_range sg (amp fi s * 2 ^ k + a) ->
  exists p, add_amp Checked (SInt fi) s a = Panic p.
Proof. exact add_amp_overflow. Qed.
Print Assumptions c03_add_overflow.

(* same-width companions (all formats but U24 / U48), e.g. u8: clamp-free x + a whenever 0 <= x + a <= 255 *)
Theorem c03_add_same_width : forall (m : mode) (fi : fmt) (s a : Z),
  bits (src_signed_fmt fi) = bits fi ->
  in_range fi s -> in_range (src_signed_fmt fi) a -> in_range fi (s + a) ->
  add_amp m (SInt fi) s a = Ok (s + a).
Proof. exact add_amp_same_width. Qed.
Print Assumptions c03_add_same_width.

Theorem c03_to_signed : forall (m : mode) (fi : fmt) (s : Z), in_range fi s ->
  to_signed m (SInt fi) s = Ok (amp fi s * 2 ^ (bits (src_signed_fmt fi) - bits fi)).
Proof. exact to_signed_int. Qed.
Print Assumptions c03_to_signed.

(* ---------------- scale ---------------- *)

(* mul_amp IS native multiplication on the float conversion, converted back (definitional: this is how the
   model is written after the source; its tie to the crate is the correspondence) *)
Theorem c03_mul_spec : forall (m : mode) (f : sfmt) (s : sty f) (g : sty (float_of f)),
  mul_amp m f s g = (let* x := to_float m f s in let* p := native_mul m (float_of f) x g in conv m (float_of f) f p).
Proof. reflexivity. Qed.
Print Assumptions c03_mul_spec.

(* scaling by 0.0 returns the equilibrium: all 12 integer formats, both profiles, every in-range value *)
Theorem c03_mul_zero : forall (m : mode) (fi : fmt) (s : Z), in_range fi s ->
  mul_amp m (SInt fi) s (fzero_of (SInt fi)) = Ok (equilibrium fi).
Proof. exact mul_amp_zero. Qed.
Print Assumptions c03_mul_zero.
Theorem c03_mul_zero_f32 : forall (m : mode) (x : F32.t), is_finite x = true ->
  exists r, mul_amp m SF32 x F32.zero = Ok r /\ B2R r = 0%R /\ is_finite r = true.
Proof. exact mul_amp_zero_f32. Qed.
Print Assumptions c03_mul_zero_f32.
Theorem c03_mul_zero_f64 : forall (m : mode) (x : F64.t), is_finite x = true ->
  exists r, mul_amp m SF64 x F64.zero = Ok r /\ B2R r = 0%R /\ is_finite r = true.
Proof. exact mul_amp_zero_f64. Qed.
Print Assumptions c03_mul_zero_f64.

(* scaling by 1.0 (FloatSample::IDENTITY) returns the same sample EXACTLY when the format fits the float
   companion's mantissa: 8/16/24-bit formats with f32 (24 bits), 48-bit formats with f64 (53 bits) *)
Theorem c03_mul_one_exact : forall (m : mode) (fi : fmt) (s : Z),
  bits fi <= prec_of fi -> in_range fi s -> mul_amp m (SInt fi) s (identity_of (SInt fi)) = Ok s.
Proof. exact mul_amp_one_exact. Qed.
Print Assumptions c03_mul_one_exact.
(* f32 / f64 samples: x * 1.0 = x bit for bit, for every x (zeros, infinities, NaN included) *)
Theorem c03_mul_one_f32 : forall (m : mode) (x : F32.t), mul_amp m SF32 x identity32 = Ok x.
Proof. exact mul_amp_one_f32. Qed.
Print Assumptions c03_mul_one_f32.
Theorem c03_mul_one_f64 : forall (m : mode) (x : F64.t), mul_amp m SF64 x identity64 = Ok x.
Proof. exact mul_amp_one_f64. Qed.
Print Assumptions c03_mul_one_f64.

(* the 32-bit formats (f32) and 64-bit formats (f64) do not fit: witnesses where scaling by 1.0 changes the sample *)
Theorem c03_mul_one_wide_refuted : forall m : mode,
  mul_amp m (SInt FI32) 16777217 identity32 = Ok 16777216 /\
  mul_amp m (SInt FU32) 2164260865 identity32 = Ok 2164260864 /\
  mul_amp m (SInt FI64) 9007199254740993 identity64 = Ok 9007199254740992 /\
  mul_amp m (SInt FU64) 9232379236109516801 identity64 = Ok 9232379236109516800 /\
  mul_amp m (SInt FI32) 2147483647 identity32 = Ok 2147483647.
Proof. exact mul_amp_one_wide_refuted. Qed.
Print Assumptions c03_mul_one_wide_refuted.

(* The wide formats in full: i32, u32 (Float companion f32, prec 24) and i64, u64 (f64, prec 53) -- exactly the
   formats with [prec_of fi < bits fi].  For EVERY in-range sample, in both build profiles:
     - no panic and the result is in range.  This needs the SATURATING `as` cast: samples within half an ulp of
       MAX are rounded to the float 1.0, outside the documented [-1,1) domain of the float -> int conversion
       (so outside c02_to_int), 1.0 * 2^(bits-1) = 2^(bits-1) is MAX + 1 in the signed twin and is clamped to MAX;
     - the value: min (MAX, equilibrium + rne (amplitude)), [rne fi] = round-to-nearest-even of the integer
       amplitude to the companion's precision, as an integer (c03_mul_one_wide_rne pins it to Flocq's [round]);
       one rounding only -- the division by 2^(bits-1), the product with 1.0 and the multiplication back are exact;
     - |result - sample| <= 2^(bits - prec - 2) = half an ulp of the top binade: 64 for i32 / u32, 512 for i64 / u64
       (a fortiori <= 2^(bits - prec), the bound of DESIGN section 6; lemma mul_amp_one_wide_loose); the bound is
       attained (c03_mul_one_wide_attained), so "within that float precision" cannot be improved.
   Non-vacuity: SampleOpsWideProofs.wide_hyps_sat. *)
Theorem c03_mul_one_wide : forall (m : mode) (fi : fmt) (s : Z),
  prec_of fi < bits fi -> in_range fi s ->
  exists r, mul_amp m (SInt fi) s (identity_of (SInt fi)) = Ok r /\
    r = Z.min (fmax fi) (equilibrium fi + rne fi (amp fi s)) /\
    in_range fi r /\
    Z.abs (r - s) <= 2 ^ (bits fi - prec_of fi - 2).
Proof. exact mul_amp_one_wide. Qed.
Print Assumptions c03_mul_one_wide.

(* what [rne] is: Flocq's round-to-nearest-even operator of the companion format (binary32 / binary64) applied to
   the integer; it is the identity on integers that fit the mantissa, monotone, and within 2^(bits - prec - 2) of
   every amplitude of a wide format (-2^(bits-1) .. 2^(bits-1)) *)
Theorem c03_mul_one_wide_rne : forall (fi : fmt) (a b : Z),
  IZR (rne fi a) = round radix2 (FLT_exp (if src_float64 fi then 3 - 1024 - 53 else 3 - 128 - 24) (prec_of fi)) ZnearestE (IZR a) /\
  (Z.abs a <= 2 ^ prec_of fi -> rne fi a = a) /\
  (a <= b -> rne fi a <= rne fi b) /\
  (prec_of fi < bits fi -> - half fi <= a <= half fi -> Z.abs (rne fi a - a) <= 2 ^ (bits fi - prec_of fi - 2)).
Proof. exact rne_facts. Qed.
Print Assumptions c03_mul_one_wide_rne.

(* consequence: still EXACT whenever the amplitude itself fits the mantissa (u32 / u64: samples within 2^prec of the
   equilibrium).  Replaces the former c03_mul_one_wide_partial (its two clauses are the instances FI32, FI64, where
   amp fi s = s) and adds the unsigned forms. *)
Theorem c03_mul_one_wide_small : forall (m : mode) (fi : fmt) (s : Z),
  prec_of fi < bits fi -> in_range fi s -> Z.abs (amp fi s) <= 2 ^ prec_of fi ->
  mul_amp m (SInt fi) s (identity_of (SInt fi)) = Ok s.
Proof. exact mul_amp_one_wide_small. Qed.
Print Assumptions c03_mul_one_wide_small.

(* the bound is attained (ties, rounded to even: error exactly 64 / 512), and both ends behave as stated: MAX - 63
   (MAX - 511) goes up to the float 1.0 and is clamped to MAX by the saturating cast, MIN + 63 goes down to MIN *)
Theorem c03_mul_one_wide_attained : forall m : mode,
  mul_amp m (SInt FI32) (2 ^ 30 + 64) identity32 = Ok (2 ^ 30) /\
  mul_amp m (SInt FU32) (2 ^ 31 + 2 ^ 30 + 64) identity32 = Ok (2 ^ 31 + 2 ^ 30) /\
  mul_amp m (SInt FI64) (2 ^ 62 + 512) identity64 = Ok (2 ^ 62) /\
  mul_amp m (SInt FU64) (2 ^ 63 + 2 ^ 62 + 512) identity64 = Ok (2 ^ 63 + 2 ^ 62) /\
  mul_amp m (SInt FI32) (fmax FI32 - 63) identity32 = Ok (fmax FI32) /\
  mul_amp m (SInt FU32) (fmax FU32 - 63) identity32 = Ok (fmax FU32) /\
  mul_amp m (SInt FI64) (fmax FI64 - 511) identity64 = Ok (fmax FI64) /\
  mul_amp m (SInt FU64) (fmax FU64 - 511) identity64 = Ok (fmax FU64) /\
  mul_amp m (SInt FI32) (fmin FI32 + 63) identity32 = Ok (fmin FI32) /\
  mul_amp m (SInt FU64) 511 identity64 = Ok 0.
Proof. exact mul_amp_one_wide_attained. Qed.
Print Assumptions c03_mul_one_wide_attained.

(* ---------------- frames: every channel count N, every frame of N channels ---------------- *)

(* Frame::map through from_fn + channel_unchecked: no UB, and equal to visiting the channels first to last with
   the (stateful, possibly panicking) closure -- [traverse] is the plain list recursion *)
Theorem c03_map : forall (A B St : Type) (N : nat) (fr : list A) (f : St -> A -> res (B * St)) (st : St),
  length fr = N -> map N fr f st = traverse fr f st.
Proof. intros A B St. exact (@map_spec A B St). Qed.
Print Assumptions c03_map.

(* with a closure that cannot fail: the result is List.map and the closure saw channels 0..N-1 in order *)
Theorem c03_map_order : forall (A B : Type) (N : nat) (fr : list A) (h : A -> B) (log : list A),
  length fr = N ->
  map N fr (fun lg x => Ok (h x, lg ++ [x])%list) log = Ok (List.map h fr, (log ++ fr)%list).
Proof. intros A B N fr h log H. rewrite map_spec by exact H. apply traverse_log. Qed.
Print Assumptions c03_map_order.

Theorem c03_zip_map : forall (A B C St : Type) (N : nat) (fr : list A) (other : list B)
  (f : St -> A -> B -> res (C * St)) (st : St),
  length fr = N -> length other = N -> zip_map N fr other f st = traverse2 fr other f st.
Proof. intros A B C St. exact (@zip_map_spec A B C St). Qed.
Print Assumptions c03_zip_map.

Theorem c03_zip_map_order : forall (A B C : Type) (N : nat) (fr : list A) (other : list B) (h : A -> B -> C)
  (la : list A) (lb : list B),
  length fr = N -> length other = N ->
  zip_map N fr other (fun lg x y => Ok (h x y, (fst lg ++ [x], snd lg ++ [y])%list)) (la, lb)
  = Ok (List.map (fun p => h (fst p) (snd p)) (combine fr other), ((la ++ fr)%list, (lb ++ other)%list)).
Proof.
  intros A B C N fr other h la lb H H2. rewrite zip_map_spec by assumption.
  apply traverse2_log. now rewrite H, H2.
Qed.
Print Assumptions c03_zip_map_order.

(* from_fn: the closure is called for 0, 1, .., N-1 in this order and the frame has N channels *)
Theorem c03_from_fn : forall (X : Type) (N : nat) (h : nat -> X) (log : list nat),
  from_fn N (fun lg i => Ok (h i, lg ++ [i])%list) log = Ok (List.map h (seq 0 N), (log ++ seq 0 N)%list).
Proof. intros X. exact (@from_fn_order X). Qed.
Print Assumptions c03_from_fn.

(* from_samples (array_from_iter with its partial-fill path): Some(first N items) iff the iterator has at least
   N items; it consumes exactly min(N, len) items (len + 1 calls of next() when short, N otherwise); = Ok: no UB,
   i.e. assume_init / assume_init_drop are only ever applied to written slots *)
Theorem c03_from_samples : forall (A : Type) (N : nat) (l : list A) (c : nat),
  from_samples N (l, c)
  = Ok (if N <=? length l then Some (firstn N l) else None,
        (skipn N l, c + (if N <=? length l then N else S (length l))))%nat.
Proof. intros A. exact (@from_samples_spec A). Qed.
Print Assumptions c03_from_samples.

(* each amplitude method of a frame is the per-channel sample method, in channel order ([mapM]/[zipM]: apply to
   each channel first to last, the first failing channel decides the panic) *)
Theorem c03_frame_ops_pointwise : forall (m : mode) (f : sfmt) (N : nat) (fr : list (sty f))
  (a : sty (signed_of f)) (g : sty (float_of f)) (oa : list (sty (signed_of f))) (og : list (sty (float_of f))),
  length fr = N -> length oa = N -> length og = N ->
  f_offset_amp m f N fr a = mapM (fun s => add_amp m f s a) fr /\
  f_scale_amp m f N fr g = mapM (fun s => mul_amp m f s g) fr /\
  f_add_amp m f N fr oa = zipM (add_amp m f) fr oa /\
  f_mul_amp m f N fr og = zipM (mul_amp m f) fr og /\
  f_to_signed m f N fr = mapM (to_signed m f) fr /\
  f_to_float m f N fr = mapM (to_float m f) fr /\
  length (f_equilibrium f N) = N /\
  (forall i, (i < N)%nat -> nth_error (f_equilibrium f N) i = Some (equilibrium_of f)).
Proof.
  intros m f N fr a g oa og H Ha Hg. repeat split.
  - now apply offset_amp_pointwise.
  - now apply scale_amp_pointwise.
  - now apply add_amp_pointwise.
  - now apply mul_amp_pointwise.
  - apply to_signed_pointwise.
  - apply to_float_pointwise.
  - apply equilibrium_pointwise.
  - apply equilibrium_pointwise.
Qed.
Print Assumptions c03_frame_ops_pointwise.

(* what [mapM h fr = Ok r] says: r has the same channel count and channel i of r is h applied to channel i of fr *)
Theorem c03_pointwise_meaning : forall (A B : Type) (h : A -> res B) (l : list A) (r : list B),
  mapM h l = Ok r ->
  length r = length l /\ forall i x, nth_error l i = Some x -> exists y, h x = Ok y /\ nth_error r i = Some y.
Proof. intros A B. exact (@mapM_ok A B). Qed.
Print Assumptions c03_pointwise_meaning.

(* channels(): yields exactly the frame's channels in order, then None for ever; len() is N at the start, 0 at the end *)
Theorem c03_channels : forall (A : Type) (fr : list A) (fuel : nat), (length fr < fuel)%nat ->
  channels_collect fuel (channels fr) = (fr, mkChannels (length fr) fr) /\
  channels_next (mkChannels (length fr) fr) = (None, mkChannels (length fr) fr) /\
  channels_len (length fr) (channels fr) = Ok (length fr) /\
  channels_len (length fr) (mkChannels (length fr) fr) = Ok 0%nat.
Proof. intros A. exact (@channels_spec A). Qed.
Print Assumptions c03_channels.

(* channel iteration under ANY script of iterator steps (next, nth k, skip k + next, step_by k + take t, count,
   last, len, and clone-then-next/len on the clone, which must continue from the original's position and leave the
   original alone) applied to ONE `channels()` iterator: every step observes, and the iterator is left with, exactly
   what a list iterator over the frame's channels gives ([run_script_list]: nth k = the k-th remaining channel and
   drops k+1, count/last drain, ...).  The provided methods of core::iter are modelled as core defines them from
   next(), and run through the model of the crate's next(); an `nth` that treated k as an absolute index would
   break this on a partly consumed iterator.  [ch_rem it] = the channels still to come. *)
Theorem c03_channels_script : forall (A : Type) (N : nat) (sc : list step) (fr : list A),
  length fr = N -> forallb by_value_step sc = true ->
  fst (channels_script N sc fr) = fst (run_script_list sc fr) /\
  ch_rem (snd (channels_script N sc fr)) = snd (run_script_list sc fr).
Proof. intros A. exact (@channels_script_spec A). Qed.
Print Assumptions c03_channels_script.

(* the same for a bare sample: its channels() is the list iterator over [s] (an exhausted one stays exhausted) *)
Theorem c03_mono_channels_script : forall (A : Type) (sc : list step) (s : A),
  forallb by_value_step sc = true ->
  fst (mono_channels_script sc s) = fst (run_script_list sc [s]) /\
  mono_rem (snd (mono_channels_script sc s)) = snd (run_script_list sc [s]).
Proof. intros A. exact (@mono_channels_script_spec A). Qed.
Print Assumptions c03_mono_channels_script.

(* channel(idx) = the idx-th channel, None from N on *)
Theorem c03_channel_idx : forall (A : Type) (fr : list A) (idx : nat),
  channel fr idx = nth_error fr idx /\ ((length fr <= idx)%nat -> channel fr idx = None).
Proof. intros A fr idx. split; [reflexivity|]. intros H. now apply nth_error_None. Qed.
Print Assumptions c03_channel_idx.

(* ---------------- indexing through the mutable / unchecked accessors (Frame/FrameMut.v) ---------------- *)

(* channel_mut(idx) is Some exactly when channel(idx) is; a write through it makes channel(idx) read the new value and
   leaves every other channel and the channel count alone; None leaves the frame untouched.  Inside the bounds the
   unchecked accessors (get_unchecked / get_unchecked_mut: UB out of range) hit no UB and do the same. *)
Theorem c03_channel_mut : forall (A : Type) (fr : list A) (idx : nat) (v : A),
  (fst (channel_mut_write fr idx v) = (match channel fr idx with Some _ => true | None => false end) /\
   length (snd (channel_mut_write fr idx v)) = length fr /\
   (forall j, channel (snd (channel_mut_write fr idx v)) j =
              if (idx =? j)%nat && (idx <? length fr)%nat then Some v else channel fr j) /\
   (channel fr idx = None -> snd (channel_mut_write fr idx v) = fr)) /\
  ((idx < length fr)%nat ->
   (exists x, get_unchecked fr idx = Ok x /\ channel fr idx = Some x) /\
   channel_unchecked_mut_write fr idx v = Ok (snd (channel_mut_write fr idx v))).
Proof. exact channel_mut_all. Qed.
Print Assumptions c03_channel_mut.

(* writing a list of new values through channels_mut() (front to back) / channels_mut().rev() (back to front):
   channel j takes news[j] for j < min(len news, N) (resp. the last channels, last first), the others keep theirs *)
Theorem c03_channels_mut_write : forall (A : Type) (news fr : list A),
  (length (overwrite news fr) = length fr /\
   forall j, channel (overwrite news fr) j =
             if (j <? length news)%nat && (j <? length fr)%nat then nth_error news j else channel fr j) /\
  overwrite news fr = (firstn (length fr) news ++ skipn (length news) fr)%list /\
  overwrite_back news fr = (firstn (length fr - length news) fr ++ rev (firstn (length fr) news))%list.
Proof. exact channels_mut_write_all. Qed.
Print Assumptions c03_channels_mut_write.

(* ---------------- a bare sample behaves as the 1-channel frame of that sample ---------------- *)

Theorem c03_mono : forall (m : mode) (f : sfmt) (s : sty f) (a : sty (signed_of f)) (g : sty (float_of f)),
  f_offset_amp m f 1 [s] a = rmap single (m_offset_amp m f s a) /\
  f_scale_amp m f 1 [s] g = rmap single (m_scale_amp m f s g) /\
  f_add_amp m f 1 [s] [a] = rmap single (m_add_amp m f s a) /\
  f_add_amp m f 1 [s] [a] = rmap single (m_add_amp_arr m f s [a]) /\
  f_mul_amp m f 1 [s] [g] = rmap single (m_mul_amp m f s g) /\
  f_to_signed m f 1 [s] = rmap single (m_to_signed m f s) /\
  f_to_float m f 1 [s] = rmap single (m_to_float m f s) /\
  f_equilibrium f 1 = single (m_equilibrium f).
Proof. exact mono_is_one_channel. Qed.
Print Assumptions c03_mono.

(* map / zip_map / from_fn / from_samples / channel / channels of the mono impl, against the 1-channel array
   ([wrap1] puts the bare result into a one-element list) *)
Theorem c03_mono_frame : forall (A B C St : Type) (s : A) (o : B) (f : St -> A -> res (B * St))
  (f2 : St -> A -> B -> res (C * St)) (g : St -> nat -> res (A * St)) (st : St) (l : list A) (c idx : nat),
  map 1 [s] f st = wrap1 (mono_map s f st) /\
  mono_map_to_arr s f st = map 1 [s] f st /\
  wrap1 (arr_map_to_mono [s] f st) = map 1 [s] f st /\
  zip_map 1 [s] [o] f2 st = wrap1 (mono_zip_map s o f2 st) /\
  from_fn 1 g st = wrap1 (mono_from_fn g st) /\
  from_samples 1 (l, c) = Ok (option_map (fun x => [x]) (fst (mono_from_samples (l, c))), snd (mono_from_samples (l, c))) /\
  mono_channel s idx = channel [s] idx /\
  mono_channels_collect 3 (mono_channels s) = ([s], mkMonoChannels 1 s) /\
  mono_channels_next (mkMonoChannels 1 s) = (None, mkMonoChannels 1 s).
Proof.
  intros. repeat split.
  - apply mono_map_eq.
  - apply arr_map_to_mono_eq.
  - apply mono_zip_map_eq.
  - apply mono_from_fn_eq.
  - apply mono_from_samples_eq.
  - apply mono_channel_eq.
Qed.
Print Assumptions c03_mono_frame.

(* ... and its mutable accessors and channel count are those of the 1-channel frame [s] *)
Theorem c03_mono_mut : forall (A : Type) (s v : A) (idx : nat) (news : list A),
  mono_channel_mut_write s idx v = (fst (channel_mut_write [s] idx v), hd s (snd (channel_mut_write [s] idx v))) /\
  rmap (fun x => [x]) (mono_channel_unchecked_mut_write s 0 v) = channel_unchecked_mut_write [s] 0 v /\
  [mono_overwrite news s] = overwrite news [s] /\ [mono_overwrite news s] = overwrite_back news [s] /\
  mono_num_channels = num_channels (length [s]).
Proof. exact mono_mut_all. Qed.
Print Assumptions c03_mono_mut.
