(* C03 -- placeholder while the model and the correspondence are brought up; theorems follow. *)
Require Import ZArith.
From Dasp Require Import Frame.FrameRun.
