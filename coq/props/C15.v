Require Import List ZArith.
From Dasp Require Import Base.Res Sample.TypesModel.
From DaspGen Require Import TypesTable.
Open Scope Z_scope.
Theorem c15_stub : length types_table = 8%nat.
Proof. reflexivity. Qed.
Print Assumptions c15_stub.
