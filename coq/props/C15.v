(* C15 — Custom-width integer sample types never silently leave their range.
   Only the property theorems: each is closed by a lemma of the development
   (Sample/TypesProofs.v: any well-formed row; Sample/TypesTableProofs.v: the rows of the table
   generated from the CURRENT dasp_sample/src/types.rs), followed by Print Assumptions.

   Conventions.  [types_table] = one row per `new_sample_type!` invocation (coq/gen/TypesTable.v).
   A value of a sample type is the Z value of its Rep field; [in_range r v] = MIN <= v <= MAX.
   Build configuration [c : cfg] = the two flags debug_assertions and overflow_checks; every theorem
   is stated for all four combinations ([dev] = both on, [release] = both off).
   Negation: the property speaks of the signed types; the theorems are stated for the rows that
   HAVE a Neg impl (has_neg): today I11, I24, I48 and also the unsigned U11, but not the signed
   I20 (see Sample/TypesNotes.v).
   [arith], [neg], [new], [from_rep], [from_src] are the HAND-WRITTEN model of the macro bodies
   (Sample/TypesModel.v).  The c15_gen_* theorems at the end are about [gen_ops]: the model of the same
   bodies REGENERATED from the current source at every run (coq/gen/TypesOpsGen.v, written by
   translate/typesops2coq.py over the machine integers of Sample/Rint.v; embedding: Sample/TypesGenSem.v:
   a generated function returns [Some (Ok v)], [Some (Panic k)], or [None] when a `while` loop used up its
   [fuel] argument).  They say the two models are equal on all inputs, so every theorem above also holds
   of the regenerated model; the main clauses are restated for it. *)
Require Import List ZArith Bool String.
From Dasp Require Import Base.Res Sample.TypesModel Sample.TypesProofs Sample.TypesTableProofs
  Sample.TypesExamples Sample.TypesGenSem Sample.TypesGenEquiv Sample.TypesGenExamples.
From DaspGen Require Import TypesTable TypesOpsGen.
Import ListNotations.
Open Scope Z_scope.

(* Table consistency: every row read from the source has a signed Rep at least two bits wider than
   the sample width n, TOTAL = 2^n, [MIN, MAX] = the n-bit two's-complement / unsigned range,
   EQUILIBRIUM = the midpoint, MAX - MIN + 1 = TOTAL, and TOTAL divides 2^rep_bits. *)
Theorem c15_table : forall r, In r types_table ->
  rep_signed r = true /\ 0 < nbits r /\ nbits r + 2 <= rep_bits r /\ total r = 2 ^ nbits r /\
  (if tsigned r
   then rmin r = - 2 ^ (nbits r - 1) /\ rmax r = 2 ^ (nbits r - 1) - 1 /\ eqv r = 0
   else rmin r = 0 /\ rmax r = 2 ^ nbits r - 1 /\ eqv r = 2 ^ (nbits r - 1)) /\
  total r = rmax r - rmin r + 1 /\
  (exists q, 2 ^ rep_bits r = q * total r).
Proof. exact table_consistent. Qed.
Print Assumptions c15_table.

(* The table is about the eight types of the property: 11, 20, 24, 48 bits, signed and unsigned. *)
Theorem c15_table_covers :
  List.length types_table = 8%nat /\ NoDup (map tname types_table) /\
  forall sg n, In n [11; 20; 24; 48] -> exists r, In r types_table /\ tsigned r = sg /\ nbits r = n.
Proof. exact table_covers. Qed.
Print Assumptions c15_table_covers.

(* Checked construction succeeds exactly for in-range values. *)
Theorem c15_new : forall r, In r types_table -> forall v,
  (in_range r v -> new r v = Some v) /\ (~ in_range r v -> new r v = None).
Proof. exact tbl_new. Qed.
Print Assumptions c15_new.

(* From<Rep>: for every value of the backing integer, in every configuration, both while loops
   terminate (the fuel of the model suffices), nothing panics, and the result is in range and
   congruent to the argument modulo 2^bits. *)
Theorem c15_from_rep : forall r, In r types_table -> forall c v, imin (rep r) <= v <= imax (rep r) ->
  exists w, from_rep c r v = Ok w /\ in_range r w /\ (w - v) mod 2 ^ nbits r = 0.
Proof. exact tbl_from_rep. Qed.
Print Assumptions c15_from_rep.

(* Every widening From impl of every from-list: the source's values ([slo, shi] = all values of a
   primitive source, [MIN, MAX] of a custom source, which names a row of the table) are mapped to
   themselves and are in range of the target. *)
Theorem c15_from_widening : forall r s, In r types_table -> In s (froms r) ->
  exists slo shi, src_range types_table s = Some (slo, shi) /\
    forall v, slo <= v <= shi -> from_src r s v = v /\ in_range r v.
Proof. exact table_widen. Qed.
Print Assumptions c15_from_widening.

(* The derived ordering and equality are the numeric ones. *)
Theorem c15_order : forall a b : Z,
  (t_eq a b = true <-> a = b) /\ (t_lt a b = true <-> a < b) /\ (t_le a b = true <-> a <= b) /\
  (t_gt a b = true <-> a > b) /\ (t_ge a b = true <-> a >= b) /\
  (t_cmp a b = Lt <-> a < b) /\ (t_cmp a b = Eq <-> a = b) /\ (t_cmp a b = Gt <-> a > b).
Proof. exact order_spec. Qed.
Print Assumptions c15_order.

(* With debug assertions — overflow checks on (dev) or off — + - * return the exact result if it
   is in range and otherwise panic with the `expect` of the checked constructor.  (rustc's own
   overflow check can never fire: + and - of in-range operands fit the Rep because
   bits + 2 <= rep_bits, and Mul uses checked_mul.) *)
Theorem c15_arith_debug : forall r, In r types_table -> forall c, debug_assertions c = true ->
  forall o a b, in_range r a -> in_range r b ->
  (in_range r (exact o a b) -> arith c r o a b = Ok (exact o a b)) /\
  (~ in_range r (exact o a b) -> arith c r o a b = Panic PExpect).
Proof. exact tbl_arith_debug_any. Qed.
Print Assumptions c15_arith_debug.

(* Without debug assertions — overflow checks off (release) or on — + - * never panic and return
   a value in range congruent to the exact result modulo 2^bits (unique: c15_wrapped_unique). *)
Theorem c15_arith_release : forall r, In r types_table -> forall c, debug_assertions c = false ->
  forall o a b, in_range r a -> in_range r b ->
  exists w, arith c r o a b = Ok w /\ in_range r w /\ (w - exact o a b) mod 2 ^ nbits r = 0.
Proof. exact tbl_arith_nodebug_any. Qed.
Print Assumptions c15_arith_release.

(* negation, for every type that has a Neg impl, same two clauses (`-self.0` cannot overflow the Rep) *)
Theorem c15_neg_debug : forall r, In r types_table -> has_neg r = true ->
  forall c, debug_assertions c = true -> forall a, in_range r a ->
  (in_range r (- a) -> neg c r a = Ok (- a)) /\
  (~ in_range r (- a) -> neg c r a = Panic PExpect).
Proof. exact tbl_neg_debug_any. Qed.
Print Assumptions c15_neg_debug.

Theorem c15_neg_release : forall r, In r types_table -> has_neg r = true ->
  forall c, debug_assertions c = false -> forall a, in_range r a ->
  exists w, neg c r a = Ok w /\ in_range r w /\ (w - - a) mod 2 ^ nbits r = 0.
Proof. exact tbl_neg_nodebug_any. Qed.
Print Assumptions c15_neg_release.

(* The overflow-checks setting does not matter on in-range operands (this replaces the two
   `c15_mixed_profile_*_refuted` witnesses of the tree before /repo 45c5fdf, defect F8). *)
Theorem c15_overflow_checks_irrelevant : forall r, In r types_table ->
  forall c c', debug_assertions c = debug_assertions c' -> forall a b, in_range r a -> in_range r b ->
  (forall o, arith c r o a b = arith c' r o a b) /\ neg c r a = neg c' r a.
Proof. exact tbl_overflow_checks_irrelevant. Qed.
Print Assumptions c15_overflow_checks_irrelevant.

(* In no configuration (any combination of debug-assertions and overflow-checks) does an operation
   on in-range operands return a value outside [MIN, MAX]. *)
Theorem c15_never_outside : forall r, In r types_table -> forall c a b w, in_range r a -> in_range r b ->
  (forall o, arith c r o a b = Ok w -> in_range r w) /\ (neg c r a = Ok w -> in_range r w).
Proof. exact tbl_never_outside. Qed.
Print Assumptions c15_never_outside.

(* "the result wrapped modulo 2^bits into range" denotes exactly one value *)
Theorem c15_wrapped_unique : forall r, In r types_table -> forall w1 w2, in_range r w1 -> in_range r w2 ->
  (exists k, w1 = w2 + k * 2 ^ nbits r) -> w1 = w2.
Proof. exact tbl_wrapped_unique. Qed.
Print Assumptions c15_wrapped_unique.

(* The arithmetic theorems do not depend on the particular eight rows: they hold for ANY width n
   and Rep with n + 2 <= rep_bits (a ninth type added with the same macro is covered as soon as
   the regenerated table passes c15_table), in all four configurations. *)
Theorem c15_any_wellformed_row : forall r, row_ok r -> forall c o a b, in_range r a -> in_range r b ->
  (debug_assertions c = true ->
     (in_range r (exact o a b) -> arith c r o a b = Ok (exact o a b)) /\
     (~ in_range r (exact o a b) -> arith c r o a b = Panic PExpect)) /\
  (debug_assertions c = false ->
     exists w, arith c r o a b = Ok w /\ in_range r w /\ (w - exact o a b) mod 2 ^ nbits r = 0).
Proof. exact tbl_any_wellformed_row. Qed.
Print Assumptions c15_any_wellformed_row.

(* ======== the model regenerated from the macro BODIES of the current types.rs ======== *)

(* One generated record of operations per row, in the same order, under the same name. *)
Theorem c15_gen_covers : List.length gen_ops = List.length types_table /\
  forall i r, nth_error types_table i = Some r -> exists o, nth_error gen_ops i = Some o /\ a_name (o_args o) = tname r.
Proof. exact gen_covers. Qed.
Print Assumptions c15_gen_covers.

(* Generated = hand model on ALL inputs (not only in-range ones), for every row, every operation, every
   configuration, and any fuel >= fuel_args (a constant of the type: Rep::MAX / TOTAL + 3): checked
   construction, the single wrap, both `while` loops and From<Rep> (for every value of the Rep), + - *,
   negation exactly for the types with an `impl_neg!` line, and one widening From per from-list entry.
   In particular no generated loop runs out of fuel ([None] never occurs). *)
Theorem c15_gen_ops_agree : forall i r, nth_error types_table i = Some r ->
  exists o, nth_error gen_ops i = Some o /\ a_name (o_args o) = tname r /\
  forall c fuel, (fuel_args (o_args o) <= fuel)%nat ->
    (forall v, o_new o c fuel v = Some (Ok (new r v))) /\
    (forall v, o_wrap_once o c fuel v = Some (wrap_overflow_once c r v)) /\
    (forall v, imin (rep r) <= v <= imax (rep r) ->
               o_wrap o c fuel v = Some (from_rep c r v) /\ o_from_rep o c fuel v = Some (from_rep c r v)) /\
    (forall k a b, o_arith o k c fuel a b = Some (arith c r k a b)) /\
    match o_neg o with
    | Some f => has_neg r = true /\ forall a, f c fuel a = Some (neg c r a)
    | None => has_neg r = false
    end /\
    Forall2 (fun s gf => forall v, snd gf c fuel v = Some (Ok (from_src r s v))) (froms r) (o_froms o).
Proof. exact gen_ops_agree. Qed.
Print Assumptions c15_gen_ops_agree.

(* The same without any condition on the fuel: the macro arguments the translator read are the row's
   (Rep type, EQUILIBRIUM, MIN, MAX, TOTAL), and the generated loops equal the hand model's fuelled loops
   for EVERY fuel, the out-of-fuel outcome included. *)
Theorem c15_gen_ops_agree_any_fuel : forall i r, nth_error types_table i = Some r ->
  exists o, nth_error gen_ops i = Some o /\
  (tname r = a_name (o_args o) /\ rep r = ity_of (a_rep (o_args o)) /\ eqv r = a_eq (o_args o) /\
   rmin r = a_min (o_args o) /\ rmax r = a_max (o_args o) /\ total r = a_total (o_args o)) /\
  forall c fuel,
    (forall v, o_new o c fuel v = Some (Ok (new r v))) /\
    (forall v, o_wrap_once o c fuel v = Some (wrap_overflow_once c r v)) /\
    (forall v, o_wrap o c fuel v = wrap_overflow_fuel c r fuel v) /\
    (forall v, o_from_rep o c fuel v = wrap_overflow_fuel c r fuel v) /\
    (forall a b, o_add o c fuel a b = Some (arith c r OAdd a b)) /\
    (forall a b, o_sub o c fuel a b = Some (arith c r OSub a b)) /\
    (forall a b, o_mul o c fuel a b =
                 if debug_assertions c then Some (arith c r OMul a b)
                 else wrap_overflow_fuel c r fuel (iwrap (rep r) (a * b))) /\
    match o_neg o with
    | Some f => has_neg r = true /\ forall a, f c fuel a = Some (neg c r a)
    | None => has_neg r = false
    end /\
    Forall2 (fun s gf => forall v, snd gf c fuel v = Some (Ok (from_src r s v))) (froms r) (o_froms o).
Proof. exact gen_ops_agree_any_fuel. Qed.
Print Assumptions c15_gen_ops_agree_any_fuel.

(* The clauses of the property, stated directly for the regenerated operations. *)
Theorem c15_gen_new : forall i r o, nth_error types_table i = Some r -> nth_error gen_ops i = Some o ->
  forall c fuel, (fuel_args (o_args o) <= fuel)%nat -> forall v,
  (in_range r v -> o_new o c fuel v = Some (Ok (Some v))) /\ (~ in_range r v -> o_new o c fuel v = Some (Ok None)).
Proof. exact gen_new_spec. Qed.
Print Assumptions c15_gen_new.

Theorem c15_gen_from_rep : forall i r o, nth_error types_table i = Some r -> nth_error gen_ops i = Some o ->
  forall c fuel, (fuel_args (o_args o) <= fuel)%nat -> forall v, imin (rep r) <= v <= imax (rep r) ->
  exists w, o_from_rep o c fuel v = Some (Ok w) /\ in_range r w /\ (w - v) mod 2 ^ nbits r = 0.
Proof. exact gen_from_rep_spec. Qed.
Print Assumptions c15_gen_from_rep.

Theorem c15_gen_arith_debug : forall i r o, nth_error types_table i = Some r -> nth_error gen_ops i = Some o ->
  forall c fuel, (fuel_args (o_args o) <= fuel)%nat -> debug_assertions c = true ->
  forall k a b, in_range r a -> in_range r b ->
  (in_range r (exact k a b) -> o_arith o k c fuel a b = Some (Ok (exact k a b))) /\
  (~ in_range r (exact k a b) -> o_arith o k c fuel a b = Some (Panic PExpect)).
Proof. exact gen_arith_debug. Qed.
Print Assumptions c15_gen_arith_debug.

Theorem c15_gen_arith_release : forall i r o, nth_error types_table i = Some r -> nth_error gen_ops i = Some o ->
  forall c fuel, (fuel_args (o_args o) <= fuel)%nat -> debug_assertions c = false ->
  forall k a b, in_range r a -> in_range r b ->
  exists w, o_arith o k c fuel a b = Some (Ok w) /\ in_range r w /\ (w - exact k a b) mod 2 ^ nbits r = 0.
Proof. exact gen_arith_release. Qed.
Print Assumptions c15_gen_arith_release.

Theorem c15_gen_neg : forall i r o, nth_error types_table i = Some r -> nth_error gen_ops i = Some o ->
  forall c fuel, (fuel_args (o_args o) <= fuel)%nat -> forall f, o_neg o = Some f -> forall a, in_range r a ->
  (debug_assertions c = true ->
     (in_range r (- a) -> f c fuel a = Some (Ok (- a))) /\ (~ in_range r (- a) -> f c fuel a = Some (Panic PExpect))) /\
  (debug_assertions c = false ->
     exists w, f c fuel a = Some (Ok w) /\ in_range r w /\ (w - - a) mod 2 ^ nbits r = 0).
Proof. exact gen_neg_spec. Qed.
Print Assumptions c15_gen_neg.

Theorem c15_gen_from_widening : forall i r o, nth_error types_table i = Some r -> nth_error gen_ops i = Some o ->
  forall c fuel, (fuel_args (o_args o) <= fuel)%nat ->
  Forall2 (fun s gf =>
      exists slo shi, src_range types_table s = Some (slo, shi) /\
        forall v, slo <= v <= shi -> snd gf c fuel v = Some (Ok v) /\ in_range r v) (froms r) (o_froms o).
Proof. exact gen_widening_spec. Qed.
Print Assumptions c15_gen_from_widening.

Theorem c15_gen_never_outside : forall i r o, nth_error types_table i = Some r -> nth_error gen_ops i = Some o ->
  forall c fuel, (fuel_args (o_args o) <= fuel)%nat -> forall k a b w, in_range r a -> in_range r b ->
  o_arith o k c fuel a b <> None /\ (o_arith o k c fuel a b = Some (Ok w) -> in_range r w).
Proof. exact gen_never_outside. Qed.
Print Assumptions c15_gen_never_outside.
