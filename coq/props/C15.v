(* C15 — Custom-width integer sample types never silently leave their range.
   Only the property theorems: each is closed by a lemma of the development
   (Sample/TypesProofs.v: any well-formed row; Sample/TypesTableProofs.v: the rows of the table
   generated from the CURRENT dasp_sample/src/types.rs), followed by Print Assumptions.

   Conventions.  [types_table] = one row per `new_sample_type!` invocation (coq/gen/TypesTable.v).
   A value of a sample type is the Z value of its Rep field; [in_range r v] = MIN <= v <= MAX.
   Build configuration = [dev] (debug-assertions and overflow-checks on) or [release] (both off);
   the theorem c15_never_outside holds for all four combinations of the two flags.
   Negation: the property speaks of the signed types; the theorems are stated for the rows that
   HAVE a Neg impl (has_neg): today I11, I24, I48 and also the unsigned U11, but not the signed
   I20 (see Sample/TypesNotes.v). *)
Require Import List ZArith Bool String.
From Dasp Require Import Base.Res Sample.TypesModel Sample.TypesProofs Sample.TypesTableProofs
  Sample.TypesExamples.
From DaspGen Require Import TypesTable.
Import ListNotations.
Open Scope Z_scope.

(* Table consistency: every row read from the source has a signed Rep at least two bits wider than
   the sample width n, TOTAL = 2^n, [MIN, MAX] = the n-bit two's-complement / unsigned range,
   EQUILIBRIUM = the midpoint, MAX - MIN + 1 = TOTAL, and TOTAL divides 2^rep_bits. *)
Theorem c15_table : forall r, In r types_table ->
  rep_signed r = true /\ 0 < nbits r /\ nbits r + 2 <= rep_bits r /\ total r = 2 ^ nbits r /\
  (if tsigned r
   then rmin r = - 2 ^ (nbits r - 1) /\ rmax r = 2 ^ (nbits r - 1) - 1 /\ eqv r = 0
   else rmin r = 0 /\ rmax r = 2 ^ nbits r - 1 /\ eqv r = 2 ^ (nbits r - 1)) /\
  total r = rmax r - rmin r + 1 /\
  (exists q, 2 ^ rep_bits r = q * total r).
Proof. exact table_consistent. Qed.
Print Assumptions c15_table.

(* The table is about the eight types of the property: 11, 20, 24, 48 bits, signed and unsigned. *)
Theorem c15_table_covers :
  List.length types_table = 8%nat /\ NoDup (map tname types_table) /\
  forall sg n, In n [11; 20; 24; 48] -> exists r, In r types_table /\ tsigned r = sg /\ nbits r = n.
Proof. exact table_covers. Qed.
Print Assumptions c15_table_covers.

(* Checked construction succeeds exactly for in-range values. *)
Theorem c15_new : forall r, In r types_table -> forall v,
  (in_range r v -> new r v = Some v) /\ (~ in_range r v -> new r v = None).
Proof. exact tbl_new. Qed.
Print Assumptions c15_new.

(* From<Rep>: for every value of the backing integer, in every configuration, both while loops
   terminate (the fuel of the model suffices), nothing panics, and the result is in range and
   congruent to the argument modulo 2^bits. *)
Theorem c15_from_rep : forall r, In r types_table -> forall c v, imin (rep r) <= v <= imax (rep r) ->
  exists w, from_rep c r v = Ok w /\ in_range r w /\ (w - v) mod 2 ^ nbits r = 0.
Proof. exact tbl_from_rep. Qed.
Print Assumptions c15_from_rep.

(* Every widening From impl of every from-list: the source's values ([slo, shi] = all values of a
   primitive source, [MIN, MAX] of a custom source, which names a row of the table) are mapped to
   themselves and are in range of the target. *)
Theorem c15_from_widening : forall r s, In r types_table -> In s (froms r) ->
  exists slo shi, src_range types_table s = Some (slo, shi) /\
    forall v, slo <= v <= shi -> from_src r s v = v /\ in_range r v.
Proof. exact table_widen. Qed.
Print Assumptions c15_from_widening.

(* The derived ordering and equality are the numeric ones. *)
Theorem c15_order : forall a b : Z,
  (t_eq a b = true <-> a = b) /\ (t_lt a b = true <-> a < b) /\ (t_le a b = true <-> a <= b) /\
  (t_gt a b = true <-> a > b) /\ (t_ge a b = true <-> a >= b) /\
  (t_cmp a b = Lt <-> a < b) /\ (t_cmp a b = Eq <-> a = b) /\ (t_cmp a b = Gt <-> a > b).
Proof. exact order_spec. Qed.
Print Assumptions c15_order.

(* dev profile: + - * return the exact result if it is in range and panic otherwise (with the
   constructor's `expect` when the exact result fits the Rep, with rustc's overflow check when not). *)
Theorem c15_arith_debug : forall r, In r types_table -> forall o a b, in_range r a -> in_range r b ->
  (in_range r (exact o a b) -> arith dev r o a b = Ok (exact o a b)) /\
  (~ in_range r (exact o a b) ->
     arith dev r o a b = Panic (if in_ity (rep r) (exact o a b) then PExpect else POverflow)).
Proof. exact tbl_arith_debug. Qed.
Print Assumptions c15_arith_debug.

(* release profile: + - * never panic and return a value in range congruent to the exact result
   modulo 2^bits (that value is unique: c15_wrapped_unique). *)
Theorem c15_arith_release : forall r, In r types_table -> forall o a b, in_range r a -> in_range r b ->
  exists w, arith release r o a b = Ok w /\ in_range r w /\ (w - exact o a b) mod 2 ^ nbits r = 0.
Proof. exact tbl_arith_release. Qed.
Print Assumptions c15_arith_release.

(* negation, for every type that has a Neg impl *)
Theorem c15_neg_debug : forall r, In r types_table -> has_neg r = true -> forall a, in_range r a ->
  (in_range r (- a) -> neg dev r a = Ok (- a)) /\
  (~ in_range r (- a) -> neg dev r a = Panic (if in_ity (rep r) (- a) then PExpect else POverflow)).
Proof. exact tbl_neg_debug. Qed.
Print Assumptions c15_neg_debug.

Theorem c15_neg_release : forall r, In r types_table -> has_neg r = true -> forall a, in_range r a ->
  exists w, neg release r a = Ok w /\ in_range r w /\ (w - - a) mod 2 ^ nbits r = 0.
Proof. exact tbl_neg_release. Qed.
Print Assumptions c15_neg_release.

(* In no configuration (any combination of debug-assertions and overflow-checks) does an operation
   on in-range operands return a value outside [MIN, MAX]. *)
Theorem c15_never_outside : forall r, In r types_table -> forall c a b w, in_range r a -> in_range r b ->
  (forall o, arith c r o a b = Ok w -> in_range r w) /\ (neg c r a = Ok w -> in_range r w).
Proof. exact tbl_never_outside. Qed.
Print Assumptions c15_never_outside.

(* "the result wrapped modulo 2^bits into range" denotes exactly one value *)
Theorem c15_wrapped_unique : forall r, In r types_table -> forall w1 w2, in_range r w1 -> in_range r w2 ->
  (exists k, w1 = w2 + k * 2 ^ nbits r) -> w1 = w2.
Proof. exact tbl_wrapped_unique. Qed.
Print Assumptions c15_wrapped_unique.

(* The arithmetic theorems do not depend on the particular eight rows: they hold for ANY width n
   and Rep with n + 2 <= rep_bits (a ninth type added with the same macro is covered as soon as
   the regenerated table passes c15_table). *)
Theorem c15_any_wellformed_row : forall r, row_ok r -> forall o a b, in_range r a -> in_range r b ->
  (in_range r (exact o a b) -> arith dev r o a b = Ok (exact o a b)) /\
  (~ in_range r (exact o a b) -> exists k, arith dev r o a b = Panic k) /\
  (exists w, arith release r o a b = Ok w /\ in_range r w /\ (w - exact o a b) mod 2 ^ nbits r = 0).
Proof. exact tbl_any_wellformed_row. Qed.
Print Assumptions c15_any_wellformed_row.

(* Outside the two profiles the clauses "panic on overflow with debug assertions" and "wrapped
   result without them" are FALSE of the code (witnesses, not defects of the property as stated,
   whose quantifier is the debug and the release configuration):
   - debug-assertions on, overflow-checks off: I11 256 * 256 = 65536 wraps to 0 in the i16 Rep,
     passes the range check and is returned without a panic;
   - debug-assertions off, overflow-checks on: I11 1023 * 1023 panics instead of wrapping. *)
Theorem c15_mixed_profile_silent_wrap_refuted :
  exists r a b, In r types_table /\ in_range r a /\ in_range r b /\ ~ in_range r (a * b) /\
                arith (mkCfg true false) r OMul a b = Ok 0.
Proof. exact tbl_mixed_profile_silent_wrap_refuted. Qed.
Print Assumptions c15_mixed_profile_silent_wrap_refuted.

Theorem c15_mixed_profile_release_panic_refuted :
  exists r a b, In r types_table /\ in_range r a /\ in_range r b /\
                arith (mkCfg false true) r OMul a b = Panic POverflow.
Proof. exact tbl_mixed_profile_release_panic_refuted. Qed.
Print Assumptions c15_mixed_profile_release_panic_refuted.
