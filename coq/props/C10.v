(* C10 — sample<->frame slice views are lossless, in-place and total; slice ops are safe.
   This file contains only the property theorems: each is closed by [exact] of a lemma of
   the development (theories/Frame/SliceProofs.v), followed by Print Assumptions.
   All statements hold for every channel count N >= 1 (so for 1..=32), every sample type A,
   every allocation (base address and contents of any length, 0 included). *)
Require Import List Arith Bool.
From Dasp Require Import Base.Res Base.ListX Frame.Slice Frame.SliceSpec Frame.SliceProofs Frame.SliceExamples.
From Dasp Require Import Frame.SliceFallible Frame.SliceFallibleProofs.
(* checked with this file (vm_compute examples over the real sample formats; nothing below refers to them) *)
From Dasp Require Frame.SliceRunWExamples.
Import ListNotations.

(* Total: viewing L interleaved samples as N-channel frames never panics and never reads
   outside the allocation; it is Some exactly when N divides L, and then it is the reference
   (same address, L/N) reading the L/N consecutive groups of N cells. *)
Theorem c10_view_total : forall (A : Type) (N : nat) (m : mem A), N <> 0 ->
  to_frame_slice N m =
  if length (cells m) mod N =? 0
  then Ok (Some ({| addr := base m; len := length (cells m) / N |}, chunks N (length (cells m) / N) (cells m)))
  else Ok None.
Proof. exact @to_frame_slice_spec. Qed.
Print Assumptions c10_view_total.

Theorem c10_view_iff : forall (A : Type) (N : nat) (m : mem A), 1 <= N ->
  (Nat.divide N (length (cells m)) <-> exists v, to_frame_slice N m = Ok (Some v)) /\
  (~ Nat.divide N (length (cells m)) <-> to_frame_slice N m = Ok None).
Proof. exact @view_iff. Qed.
Print Assumptions c10_view_iff.

(* L/N frames, each of N channels, covering the L samples exactly *)
Theorem c10_view_len : forall (A : Type) (N : nat) (m : mem A) (fr : sref) (fs : list (list A)), 1 <= N ->
  to_frame_slice N m = Ok (Some (fr, fs)) ->
  len fr = length (cells m) / N /\ length fs = length (cells m) / N /\ frames_of N fs /\
  length (cells m) / N * N = length (cells m).
Proof. exact @view_len. Qed.
Print Assumptions c10_view_len.

(* channel c of frame i is sample i*N + c (and that sample exists) *)
Theorem c10_view_elem : forall (A : Type) (N : nat) (m : mem A) (fr : sref) (fs : list (list A)) (i c : nat), 1 <= N ->
  to_frame_slice N m = Ok (Some (fr, fs)) -> i < length (cells m) / N -> c < N ->
  exists x, frame_get fs i c = Some x /\ nth_error (cells m) (i * N + c) = Some x.
Proof. exact @view_elem_some. Qed.
Print Assumptions c10_view_elem.

(* ... in the very same memory: the view's data pointer is the original's *)
Theorem c10_same_memory : forall (A : Type) (N : nat) (m : mem A) (fr : sref) (fs : list (list A)), 1 <= N ->
  to_frame_slice N m = Ok (Some (fr, fs)) -> addr fr = base m.
Proof. exact @view_same_memory. Qed.
Print Assumptions c10_same_memory.

(* viewing frames as samples is the exact inverse, both ways *)
Theorem c10_roundtrip_samples : forall (A : Type) (N : nat) (m : mem A) (fr : sref) (fs : list (list A)), 1 <= N ->
  to_frame_slice N m = Ok (Some (fr, fs)) ->
  to_sample_slice N m fr = Ok (sample_ref m, cells m) /\ concat fs = cells m.
Proof. exact @roundtrip_samples. Qed.
Print Assumptions c10_roundtrip_samples.

Theorem c10_roundtrip_frames : forall (A : Type) (N b : nat) (fs : list (list A)), 1 <= N -> frames_of N fs ->
  to_sample_slice N (frame_mem b fs) (frame_ref b fs) = Ok (sample_ref (frame_mem b fs), concat fs) /\
  len (sample_ref (frame_mem b fs)) = length fs * N /\
  to_frame_slice N (frame_mem b fs) = Ok (Some (frame_ref b fs, fs)).
Proof. exact @roundtrip_frames. Qed.
Print Assumptions c10_roundtrip_frames.

(* mutable views: the same references; a store into frame i channel c of the view is the
   store at flat index i*N+c of the original, nothing else changes, and the view of the
   result differs from the old view exactly there *)
Theorem c10_mut_same : forall (A : Type) (N : nat) (m : mem A) (fr : sref),
  to_frame_slice_mut N m = to_frame_slice N m /\ to_sample_slice_mut N m fr = to_sample_slice N m fr.
Proof. intros A N m fr. exact (conj (to_frame_slice_mut_eq N m) (to_sample_slice_mut_eq N m fr)). Qed.
Print Assumptions c10_mut_same.

Theorem c10_write_through : forall (A : Type) (N : nat) (m : mem A) (fr : sref) (fs : list (list A)) (i c : nat) (x : A),
  1 <= N -> to_frame_slice_mut N m = Ok (Some (fr, fs)) -> i < length (cells m) / N -> c < N ->
  exists m', store_frame_chan N m fr i c x = Ok m' /\
    base m' = base m /\ cells m' = set_nth (i * N + c) x (cells m) /\
    nth_error (cells m') (i * N + c) = Some x /\
    (forall p, p <> i * N + c -> nth_error (cells m') p = nth_error (cells m) p) /\
    exists fs', to_frame_slice_mut N m' = Ok (Some (fr, fs')) /\
      forall j d, j < length (cells m) / N -> d < N ->
        frame_get fs' j d = if (j =? i) && (d =? c) then Some x else frame_get fs j d.
Proof. exact @write_through. Qed.
Print Assumptions c10_write_through.

Theorem c10_write_through_samples : forall (A : Type) (N b : nat) (fs : list (list A)) (j : nat) (x : A),
  1 <= N -> frames_of N fs -> j < length fs * N ->
  exists sr ss m', to_sample_slice_mut N (frame_mem b fs) (frame_ref b fs) = Ok (sr, ss) /\
    store_sample (frame_mem b fs) sr j x = Ok m' /\ base m' = b /\
    exists fs', to_frame_slice N m' = Ok (Some (frame_ref b fs, fs')) /\
      forall i c, i < length fs -> c < N ->
        frame_get fs' i c = if i * N + c =? j then Some x else frame_get fs i c.
Proof. exact @write_through_samples. Qed.
Print Assumptions c10_write_through_samples.

(* boxed: a successful conversion hands the one block over and takes it back — the ledger
   is unchanged (same address, same byte size, owned), whatever else is live around it *)
Theorem c10_boxed_reuse : forall (N sz : nat) (h1 h2 : heap) (a L : nat), 1 <= N -> Nat.divide N L -> ~ In a (addrs h1) ->
  let h := h1 ++ (a, L * sz, true) :: h2 in
  from_boxed_sample_slice N sz h {| addr := a; len := L |} = Ok (h, Some {| addr := a; len := L / N |}) /\
  L / N * (N * sz) = L * sz.
Proof. exact boxed_reuse. Qed.
Print Assumptions c10_boxed_reuse.

(* a failed boxed conversion releases the allocation: the block is gone from the ledger
   (with h1 = h2 = [] no live block remains) *)
Theorem c10_boxed_fail_releases : forall (N sz : nat) (h1 h2 : heap) (a L : nat), 1 <= N -> ~ Nat.divide N L -> ~ In a (addrs h1) ->
  from_boxed_sample_slice N sz (h1 ++ (a, L * sz, true) :: h2) {| addr := a; len := L |} = Ok (h1 ++ h2, None).
Proof. exact boxed_fail_releases. Qed.
Print Assumptions c10_boxed_fail_releases.

Theorem c10_boxed_back : forall (N sz : nat) (h1 h2 : heap) (a K : nat), ~ In a (addrs h1) ->
  from_boxed_frame_slice N sz (h1 ++ (a, K * (N * sz), true) :: h2) {| addr := a; len := K |} =
  Ok (h1 ++ (a, K * N * sz, true) :: h2, {| addr := a; len := K * N |}) /\ K * N * sz = K * (N * sz).
Proof. exact boxed_back. Qed.
Print Assumptions c10_boxed_back.

(* shared, mutable and boxed alike: the three conversions of one allocation give one reference *)
Theorem c10_boxed_same_view : forall (A : Type) (N sz : nat) (h1 h2 : heap) (m : mem A), 1 <= N ->
  Nat.divide N (length (cells m)) -> ~ In (base m) (addrs h1) ->
  let h := h1 ++ (base m, length (cells m) * sz, true) :: h2 in
  exists fr fs, to_frame_slice N m = Ok (Some (fr, fs)) /\ to_frame_slice_mut N m = Ok (Some (fr, fs)) /\
                to_boxed_frame_slice N sz h (sample_ref m) = Ok (h, Some fr).
Proof. exact @boxed_same_view. Qed.
Print Assumptions c10_boxed_same_view.

(* zip_map_in_place: equal lengths = safe loop (no unchecked access outside either slice),
   destination = element-wise image, for every frame types and every function *)
Theorem c10_zip_map : forall (FA FB : Type) (f : FA -> FB -> FA) (a : list FA) (b : list FB),
  length a = length b -> zip_map_in_place f a b = (map2 f a b, Ok tt).
Proof. exact @zip_map_spec. Qed.
Print Assumptions c10_zip_map.

(* a length mismatch panics (assert) before anything is modified *)
Theorem c10_mismatch_panics_unchanged : forall (FA FB : Type) (f : FA -> FB -> FA) (a : list FA) (b : list FB),
  length a <> length b -> zip_map_in_place f a b = (a, Panic PAssert).
Proof. exact @zip_map_mismatch. Qed.
Print Assumptions c10_mismatch_panics_unchanged.

(* the assertion is what makes the loop safe: without it a short source is read out of bounds *)
Theorem c10_unchecked_needs_assert : forall (FA FB : Type) (f : FA -> FB -> FA) (a : list FA) (b : list FB),
  length b < length a -> snd (zip_map_in_place_unchecked f a b) = UB.
Proof. exact @unchecked_short_source_UB. Qed.
Print Assumptions c10_unchecked_needs_assert.

(* the derived operations are the element-wise frame operation, for every frame format
   (the frame operations are arbitrary functions), and refuse a mismatch the same way *)
Theorem c10_derived_ops : forall (FA FB AMP : Type) (e : FA) (g : FA -> FA) (add_amp : FA -> FB -> FA)
    (mul_amp : FB -> AMP -> FB) (amp : AMP) (a : list FA) (b : list FB) (w : list FA),
  equilibrium e a = map (fun _ => e) a /\
  map_in_place g a = map g a /\
  (length a = length w -> write a w = (w, Ok tt)) /\
  (length a <> length w -> write a w = (a, Panic PAssert)) /\
  (length a = length b -> add_in_place add_amp a b = (map2 add_amp a b, Ok tt)) /\
  (length a <> length b -> add_in_place add_amp a b = (a, Panic PAssert)) /\
  (length a = length b -> add_in_place_with_amp_per_channel add_amp mul_amp a b amp =
                          (map2 (fun x y => add_amp x (mul_amp y amp)) a b, Ok tt)) /\
  (length a <> length b -> add_in_place_with_amp_per_channel add_amp mul_amp a b amp = (a, Panic PAssert)).
Proof.
  intros FA FB AMP e g add_amp mul_amp amp a b w.
  exact (conj (equilibrium_spec e a) (conj (map_in_place_spec g a) (conj (write_spec a w) (conj (write_mismatch a w)
        (conj (add_in_place_spec add_amp a b) (conj (zip_map_mismatch _ a b)
        (conj (add_with_amp_spec add_amp mul_amp a b amp) (zip_map_mismatch _ a b)))))))).
Qed.
Print Assumptions c10_derived_ops.

(* ------------------------------------------------------------------------- *)
(* The same operations when the frame operation can PANIC (Frame/SliceFallible.v): Sample::add_amp of an integer
   format is `+` with an overflow check in a checked build, the I24/I48 operators `expect`.  This is the form the
   correspondence runs over all fourteen sample formats with the C03 model of add_amp / mul_amp / scale_amp /
   offset_amp as the frame operation (Frame/SliceRunW.v), in both build modes. *)

(* equal lengths: no unchecked access leaves either slice, and the outcome is the front-to-back walk that stores
   each result and stops at the first panic *)
Theorem c10_fallible_zip_map : forall (FA FB : Type) (f : FA -> FB -> res FA) (a : list FA) (b : list FB),
  length a = length b -> zip_map_in_place_r f a b = zip_r_spec f a b.
Proof. exact @zip_map_r_spec. Qed.
Print Assumptions c10_fallible_zip_map.

Theorem c10_fallible_mismatch_panics_unchanged : forall (FA FB : Type) (f : FA -> FB -> res FA) (a : list FA) (b : list FB),
  length a <> length b -> zip_map_in_place_r f a b = (a, Panic PAssert).
Proof. exact @zip_map_r_mismatch. Qed.
Print Assumptions c10_fallible_mismatch_panics_unchanged.

(* a frame operation that returns on every pair of frames it meets: exactly the operation of Frame/Slice.v, so
   c10_zip_map / c10_derived_ops apply (destination = element-wise image) *)
Theorem c10_fallible_refines_total : forall (FA FB : Type) (f : FA -> FB -> res FA) (g : FA -> FB -> FA) (a : list FA) (b : list FB),
  (forall i x y, nth_error a i = Some x -> nth_error b i = Some y -> f x y = Ok (g x y)) ->
  zip_map_in_place_r f a b = zip_map_in_place g a b.
Proof. exact @zip_map_r_total. Qed.
Print Assumptions c10_fallible_refines_total.

(* the first panicking call: the frames before it hold the results [vs], its own frame and every later one are
   untouched, the panic is the call's own *)
Theorem c10_fallible_first_panic : forall (FA FB : Type) (f : FA -> FB -> res FA) (a1 : list FA) (b1 : list FB) (vs : list FA)
    (x : FA) (y : FB) (a2 : list FA) (b2 : list FB) (k : panic_kind),
  length a1 = length b1 -> length a2 = length b2 -> map2 f a1 b1 = map Ok vs -> f x y = Panic k ->
  zip_map_in_place_r f (a1 ++ x :: a2) (b1 ++ y :: b2) = (vs ++ x :: a2, Panic k).
Proof. exact @zip_map_r_first_panic. Qed.
Print Assumptions c10_fallible_first_panic.

(* the unsafe loop adds no undefined behaviour, whatever the lengths and whatever panics *)
Theorem c10_fallible_no_UB : forall (FA FB : Type) (f : FA -> FB -> res FA) (a : list FA) (b : list FB),
  (forall x y, f x y <> UB) -> snd (zip_map_in_place_r f a b) <> UB.
Proof. exact @zip_map_r_no_UB. Qed.
Print Assumptions c10_fallible_no_UB.

Theorem c10_fallible_map_in_place : forall (FA : Type) (m : FA -> res FA),
  (forall (g : FA -> FA) (a : list FA), (forall x, In x a -> m x = Ok (g x)) -> map_in_place_r m a = (map g a, Ok tt)) /\
  (forall (a1 vs : list FA) (x : FA) (a2 : list FA) (k : panic_kind), map m a1 = map Ok vs -> m x = Panic k ->
     map_in_place_r m (a1 ++ x :: a2) = (vs ++ x :: a2, Panic k)).
Proof.
  intros FA m. split.
  - intros g a H. rewrite (map_in_place_r_total m g a H). now rewrite map_in_place_spec.
  - exact (map_in_place_r_first_panic m).
Qed.
Print Assumptions c10_fallible_map_in_place.

(* the derived operations are the element-wise frame operation `af.add_amp(bf)` / `af.add_amp(bf.mul_amp(amp))`
   (the scaled frame is computed first; a panic of either method is the call's panic) for EVERY gain: no gain
   value - 1.0 on every channel included - turns the second into the first unless mul_amp by it is the identity
   of the frame format at hand (it is not for i32/u32/i64/u64: Frame/SliceRunWExamples.v) *)
Theorem c10_fallible_derived_ops : forall (FA FB AMP : Type) (add_amp : FA -> FB -> res FA) (mul_amp : FB -> AMP -> res FB)
    (amp : AMP) (a : list FA) (b : list FB),
  (length a = length b -> add_in_place_r add_amp a b = zip_r_spec add_amp a b) /\
  (length a <> length b -> add_in_place_r add_amp a b = (a, Panic PAssert)) /\
  (length a = length b -> add_in_place_with_amp_per_channel_r add_amp mul_amp a b amp =
                          zip_r_spec (fun x y => let* s := mul_amp y amp in add_amp x s) a b) /\
  (length a <> length b -> add_in_place_with_amp_per_channel_r add_amp mul_amp a b amp = (a, Panic PAssert)).
Proof.
  intros FA FB AMP add_amp mul_amp amp a b.
  exact (conj (add_in_place_r_spec add_amp a b) (conj (zip_map_r_mismatch _ a b)
        (conj (add_with_amp_r_spec add_amp mul_amp a b amp) (zip_map_r_mismatch _ a b)))).
Qed.
Print Assumptions c10_fallible_derived_ops.
