(* C07 x C09: `_refuted` witnesses for the readings of the C07 sentence that are FALSE of the
   faithful model (both confirmed on the real crate through Processor::verif_capacities(), see
   corpus/C07/*.json and the `caps` correspondence of lib/props/c07.py), and non-vacuity examples
   for the theorems of CapsDfsProofs.v. *)
Require Import List ZArith Arith Lia Bool.
From Dasp Require Import Base.Res Base.ListX Graph.Dfs Graph.Process Graph.ProcessSpec Graph.ProcessProofs
  Graph.GraphExamples Alloc.Caps Alloc.ProcessorCaps Alloc.CapsDfs Alloc.CapsDfsProofs Alloc.CapsRun.
Import ListNotations.
Local Open Scope nat_scope.

(* a plain Graph of k nodes (unit weights: node states play no part) and the given edges *)
Definition ug (k : nat) (es : list (nat * nat)) : graph unit :=
  {| slots := repeat (Some tt) k; edges := es; free := [] |}.

(* 0 -> 1 -> 2 -> 3 -> 4 -> 5 *)
Definition chain6 : graph unit := ug 6 [(0,1); (1,2); (2,3); (3,4); (4,5)].
(* the transitive tournament on 5 nodes, every edge from the smaller to the larger index,
   inserted so that petgraph yields the in-neighbours of every node in increasing order *)
Definition k5 : graph unit := ug 5 [(3,4); (2,4); (1,4); (0,4); (0,3); (1,3); (2,3); (0,2); (1,2); (0,1)].

Lemma chain6_wf : wf chain6. Proof. apply wfb_wf. reflexivity. Qed.
Lemma k5_wf : wf k5. Proof. apply wfb_wf. reflexivity. Qed.

(* "allocates nothing once a processor has processed a graph of that size once", read as "from
   ANY node of that graph", is false of the model: Processor::with_capacity(4), a first call from
   node 0 of the chain (upstream cone: node 0 alone) leaves the stack capacity at 4; the next call,
   from node 5 of the SAME graph, stacks 6 entries: the stack vector is reallocated (4 -> 8). *)
Theorem any_node_refuted :
  exists (g : graph unit) (n n' c : nat) ip1 g1 l1 ip2 g2 l2,
    wf g /\ live g n = true /\ live g n' = true /\
    iprocess ub up (iproc_with_capacity c) g n = Ok (ip1, g1, l1) /\
    iprocess ub up ip1 g1 n' = Ok (ip2, g2, l2) /\
    c_stack (caps ip1) < c_stack (caps ip2) /\ reallocs ip1 < reallocs ip2.
Proof.
  exists chain6, 0, 5, 4. do 6 eexists. split; [exact chain6_wf|].
  split; [reflexivity|]. split; [reflexivity|].
  split; [vm_compute; reflexivity|]. split; [vm_compute; reflexivity|].
  vm_compute. split; lia.
Qed.

(* the capacities after the calls from nodes 0, 0, 5, 5, 0 *)
Example chain6_trace :
  icalls ub up (iproc_with_capacity 4) chain6 [0; 0; 5; 5; 0] =
  Ok [ {| c_stack := 4; c_inputs := 4; c_bits := 4 |}; {| c_stack := 4; c_inputs := 4; c_bits := 4 |};
       {| c_stack := 8; c_inputs := 4; c_bits := 4 |}; {| c_stack := 8; c_inputs := 4; c_bits := 4 |};
       {| c_stack := 8; c_inputs := 4; c_bits := 4 |} ].
Proof. vm_compute. reflexivity. Qed.

(* "As long as this node count is not exceeded, the Processor should never require dynamic
   allocation following construction" (doc of Processor::with_capacity) is false of the model:
   on a 5-node graph a processor built with_capacity(5) stacks 8 entries in its first call (a node
   is stacked once per edge from a node being discovered): the stack is reallocated (5 -> 10), and
   both bit sets, which with_capacity leaves empty, are allocated: 3 allocations in the first call. *)
Theorem with_capacity_node_count_refuted :
  exists (g : graph unit) (out : nat) ip1 g1 l1,
    wf g /\ live g out = true /\ length (node_identifiers g) = 5 /\
    iprocess ub up (iproc_with_capacity 5) g out = Ok (ip1, g1, l1) /\
    high_water 0 (fst (process_ops ub up new_processor g out)) = 8 /\
    c_stack (caps ip1) = 10 /\ reallocs ip1 = 3.
Proof.
  exists k5, 4. do 3 eexists. split; [exact k5_wf|]. split; [reflexivity|]. split; [reflexivity|].
  split; [vm_compute; reflexivity|]. vm_compute. auto.
Qed.

(* ---------------- non-vacuity of the theorems ---------------- *)
Definition ip0 : iproc := iproc_with_capacity 4.
Lemma ip0_wf : iwf ip0. Proof. unfold iwf, ip0, iproc_with_capacity; cbn. lia. Qed.

(* iprocess_steady / iprocess_twice: the chain from node 5 with a processor whose first call grows
   the stack; the second call changes nothing (here by the theorem, and by computation) *)
Example chain6_steady :
  exists ip1 g1 l1 ip2 g2 l2,
    iprocess ub up ip0 chain6 5 = Ok (ip1, g1, l1) /\ iprocess ub up ip1 g1 5 = Ok (ip2, g2, l2) /\
    caps ip2 = caps ip1 /\ reallocs ip2 = reallocs ip1.
Proof. exact (iprocess_twice ub up ip0 chain6 5 chain6_wf eq_refl ip0_wf). Qed.

Example chain6_steady_computed :
  icalls ub up ip0 chain6 [5; 5] =
  Ok [ {| c_stack := 8; c_inputs := 4; c_bits := 4 |}; {| c_stack := 8; c_inputs := 4; c_bits := 4 |} ].
Proof. vm_compute. reflexivity. Qed.

(* iprocess_steady_dominated: after the call from node 5 the call from node 0 needs less *)
Example chain6_dominated :
  high_water 0 (fst (process_ops ub up new_processor chain6 0)) <= high_water 0 (fst (process_ops ub up new_processor chain6 5)) /\
  high_water 0 (snd (process_ops ub up new_processor chain6 0)) <= high_water 0 (snd (process_ops ub up new_processor chain6 5)).
Proof. vm_compute. split; lia. Qed.

(* iprocess_reserved_bounds: a processor that has made one call on k5 (so its bit sets cover the
   node bound) and whose vectors hold 1 + |E| = 11 entries never grows, from any node *)
Definition ip11 : iproc :=
  {| ibase := {| dfs := st_empty; cap := 5 |}; svec := {| vlen := 0; vcap := 11 |};
     ivec := {| vlen := 3; vcap := 11 |}; bvec := {| vlen := 1; vcap := 4 |}; reallocs := 2 |}.

Example k5_reserved :
  iwf ip11 /\ 1 + length (edges k5) <= vcap (svec ip11) /\ max_in_degree k5 <= vcap (ivec ip11) /\
  node_bound k5 <= cap (ibase ip11) /\
  (forall out ip' g' log, live k5 out = true -> iprocess ub up ip11 k5 out = Ok (ip', g', log) ->
    caps ip' = caps ip11 /\ reallocs ip' = reallocs ip11).
Proof.
  assert (HW : iwf ip11) by (unfold iwf; cbn; lia).
  split; [exact HW|]. split; [cbn; lia|]. split; [vm_compute; lia|]. split; [vm_compute; lia|].
  intros out ip' g' log Hout Hp.
  apply (iprocess_reserved_bounds ub up ip11 k5 out ip' g' log k5_wf Hout HW); [cbn; lia|vm_compute; lia| |exact Hp].
  left. vm_compute. lia.
Qed.

(* the bounds are reached: the stack of k5 from node 4 holds 8 <= 1 + 10 entries, the inputs 4 *)
Example k5_high_water :
  high_water 0 (fst (process_ops ub up new_processor k5 4)) = 8 /\
  high_water 0 (snd (process_ops ub up new_processor k5 4)) = 4 /\ max_in_degree k5 = 4.
Proof. vm_compute. auto. Qed.

(* the stack bound 1 + |E| is tight: on the chain the traversal from node 5 stacks 6 = 1 + 5 entries *)
Example chain6_tight :
  high_water 0 (fst (process_ops ub up new_processor chain6 5)) = 1 + length (edges chain6).
Proof. vm_compute. reflexivity. Qed.

(* process_ops_shape: the scripts ignore node states -- a graph of the same shape with other weights *)
Example shape_example :
  process_ops (fun b : bool => b) (fun w _ => negb w) new_processor
    {| slots := [Some true; Some false; Some true]; edges := [(0,1); (1,2)]; free := [] |} 2 =
  process_ops (fun b : bool => b) (fun w _ => w) new_processor
    {| slots := [Some false; Some false; Some false]; edges := [(0,1); (1,2)]; free := [] |} 2.
Proof. vm_compute. reflexivity. Qed.

Print Assumptions any_node_refuted.
Print Assumptions with_capacity_node_count_refuted.
Print Assumptions iprocess_steady.
Print Assumptions iprocess_reserved_bounds.
