(* C07 x C09: proofs about the capacity trace of the modelled `process` (Alloc/CapsDfs.v).

   1. the scripts of a call depend on the SHAPE of the graph (edges, vacancies) and the output node
      only: neither on the processor's past nor on the node states/buffers   [process_ops_shape]
   2. steady state: a second call on the graph the first call left (or on any graph of the same
      shape) from the same node changes no capacity and reallocates nothing  [iprocess_steady]
   3. reserved capacity: a call from ANY node of ANY graph whose traversal needs no more than
      what is reserved changes no capacity                                   [iprocess_reserved]
   4. the stack never holds more than 1 + |E| entries                        [stack_high_water_edges]
   The `_refuted` witnesses (a first call from a node with a deeper upstream grows the stack;
   `with_capacity(node count)` is not enough for the stack) are in CapsDfsExamples.v. *)
Require Import List Arith Lia Bool Relations.
From Dasp Require Import Base.Res Base.ListX Graph.Dfs Graph.Process Graph.ProcessSpec Graph.DfsProofs
  Graph.ProcessProofs Graph.EvalProofs Graph.ExtraProofs Graph.FuelBound Alloc.Caps Alloc.ProcessorCaps
  Alloc.CapsDfs.
Import ListNotations.
Local Arguments Nat.max : simpl never.

(* ------------------------------------------------------------------ node_bound and shape *)
Definition occupied {W} (l : list (option W)) (j : nat) : bool :=
  match nth_error l j with Some (Some _) => true | _ => false end.

Lemma bound_from_ext {W} (l : list (option W)) : forall (l' : list (option W)) i, length l = length l' ->
  (forall j, occupied l j = occupied l' j) -> bound_from i l = bound_from i l'.
Proof.
  induction l as [|a l IH]; intros [|b l'] i Hlen Hocc; try discriminate; [reflexivity|].
  cbn [bound_from]. rewrite (IH l' (S i)).
  - destruct (bound_from (S i) l' =? 0); [|reflexivity].
    specialize (Hocc 0). unfold occupied in Hocc. cbn [nth_error] in Hocc.
    destruct a, b; try reflexivity; discriminate.
  - cbn [length] in Hlen. lia.
  - intros j. exact (Hocc (S j)).
Qed.

Lemma live_occupied {W} (g : graph W) j : live g j = occupied (slots g) j.
Proof. unfold live, weight, occupied. destruct (nth_error (slots g) j) as [[w|]|]; reflexivity. Qed.

Lemma node_bound_shape {W} (g g' : graph W) : same_shape g g' -> node_bound g' = node_bound g.
Proof.
  intros (_ & Hl & Hn). unfold node_bound. apply bound_from_ext; [exact Hn|].
  intros j. rewrite <- !live_occupied. apply Hl.
Qed.

Lemma fuel_of_shape {W} (g g' : graph W) : same_shape g g' -> fuel_of g' = fuel_of g.
Proof.
  intros Hs. unfold fuel_of. destruct Hs as (He & Hl & Hn). rewrite Hn. f_equal.
  induction (seq 0 (length (slots g))) as [|a l IH]; [reflexivity|]. cbn [fold_right].
  rewrite IH. unfold neighbors_in. now rewrite He, Hl.
Qed.

Lemma shape_sym {W} (g g' : graph W) : same_shape g g' -> same_shape g' g.
Proof. intros (He & Hl & Hn). repeat split; auto. Qed.

(* ------------------------------------------------------------------ the edge measure *)
Section Mu2.
Variable succ : nat -> list nat.
Variable univ : list nat.
Hypothesis univ_closed : forall x y, In x univ -> In y (succ x) -> In y univ.

(* number of stack entries plus the out-degrees of the undiscovered nodes: a first visit pushes
   at most out-degree entries and discovers the node, a pop removes one entry *)
Definition esum (l : list nat) : nat := fold_right (fun u acc => length (succ u) + acc) 0 l.
Definition mu2 (s : st) : nat := length (stack s) + esum (white univ (disc s)).

Lemma esum_filter_mono (f g : nat -> bool) l :
  (forall u, f u = true -> g u = true) -> esum (filter f l) <= esum (filter g l).
Proof.
  intros H. induction l as [|a l IH]; simpl; [lia|].
  destruct (f a) eqn:Fa.
  - rewrite (H a Fa). simpl. lia.
  - destruct (g a); simpl; lia.
Qed.

Lemma esum_filter_le (f : nat -> bool) l : esum (filter f l) <= esum l.
Proof. induction l as [|a l IH]; simpl; [lia|]. destruct (f a); simpl; lia. Qed.

Lemma esum_filter_strict (f g : nat -> bool) l x :
  (forall u, f u = true -> g u = true) -> In x l -> g x = true -> f x = false ->
  esum (filter f l) + length (succ x) <= esum (filter g l).
Proof.
  intros H Hx Gx Fx. induction l as [|a l IH]; [destruct Hx|].
  pose proof (esum_filter_mono f g l H) as Hm. simpl.
  destruct Hx as [->|Hx].
  - rewrite Fx, Gx. simpl. lia.
  - specialize (IH Hx). destruct (f a) eqn:Fa.
    + rewrite (H a Fa). simpl. lia.
    + destruct (g a); simpl; lia.
Qed.

Lemma step_mu2 s sr : in_univ univ s -> step_core succ s = Some sr -> mu2 (fst sr) <= mu2 s.
Proof.
  intros HU. unfold Dfs.step_core. destruct (stack s) as [|x r] eqn:Hst; [discriminate|].
  assert (Hx : In x univ) by (apply HU; rewrite Hst; now left).
  destruct (mem x (disc s)) eqn:Hd; intros [= <-]; unfold mu2; cbn [fst stack disc fin].
  - rewrite Hst. cbn [length]. lia.
  - apply mem_nIn in Hd. rewrite Hst, app_length, rev_length. cbn [length]. unfold white.
    pose proof (esum_filter_strict (fun u => negb (mem u (x :: disc s))) (fun u => negb (mem u (disc s))) univ x) as H.
    match goal with |- context[length (filter ?f (succ x))] => pose proof (filter_len_le f (succ x)) as Hlen end.
    assert (H1 : esum (filter (fun u => negb (mem u (x :: disc s))) univ) + length (succ x)
                 <= esum (filter (fun u => negb (mem u (disc s))) univ)).
    { apply H; [|exact Hx| |].
      - intros u Hu. apply negb_true_iff, mem_nIn in Hu. apply negb_true_iff, mem_nIn.
        intros Hc. apply Hu. now right.
      - apply negb_true_iff, mem_nIn. exact Hd.
      - apply negb_false_iff, mem_In. now left. }
    lia.
Qed.

Variable c : nat.
Hypothesis univ_cap : forall x, In x univ -> x < c.

Lemma stack_le_mu2 s : length (stack s) <= mu2 s.
Proof. unfold mu2. lia. Qed.

Lemma next_mu2 fuel : forall s s' r, in_univ univ s -> next succ fuel c s = Ok (s', r) -> mu2 s' <= mu2 s.
Proof.
  induction fuel as [|k IH]; intros s s' r HU; cbn [next]; [discriminate|].
  rewrite (step_in_range succ univ c univ_cap s HU).
  destruct (step_core succ s) as [[s1 r1]|] eqn:Hs.
  - pose proof (step_decreases succ univ univ_closed s _ HU Hs) as [HU1 _].
    pose proof (step_mu2 s _ HU Hs) as Hle. cbn [fst] in *.
    destruct r1.
    + intros [= <- _]. exact Hle.
    + intros Hn. specialize (IH _ _ _ HU1 Hn). lia.
  - intros [= <- _]. lia.
Qed.

Lemma next_ops_hw2 fuel : forall s, in_univ univ s ->
  high_water (length (stack s)) (next_ops succ fuel c s) <= mu2 s.
Proof.
  induction fuel as [|k IH]; intros s HU; cbn [next_ops high_water]; [apply stack_le_mu2|].
  rewrite (step_in_range succ univ c univ_cap s HU).
  destruct (step_core succ s) as [[s1 r1]|] eqn:Hs; [|apply stack_le_mu2].
  pose proof (step_decreases succ univ univ_closed s _ HU Hs) as [HU1 _].
  pose proof (step_mu2 s _ HU Hs) as Hle.
  pose proof (step_ops_len succ s _ Hs) as [L1 L2]. cbn [fst] in *.
  pose proof (stack_le_mu2 s). pose proof (stack_le_mu2 s1).
  destruct r1.
  - rewrite L2. lia.
  - rewrite high_water_app, L1, L2. specialize (IH s1 HU1). lia.
Qed.

End Mu2.

Lemma esum_sumf succ l : esum succ l = sumf (fun u => length (succ u)) l.
Proof. induction l as [|a l IH]; [reflexivity|]. cbn [esum fold_right sumf]. fold (esum succ l). now rewrite IH. Qed.

(* the in-degrees of the nodes add up to at most the number of edges *)
Lemma esum_nbrs_edges {W} (g : graph W) : esum (neighbors_in g) (node_identifiers g) <= length (edges g).
Proof.
  unfold node_identifiers.
  eapply Nat.le_trans; [apply esum_filter_le|]. rewrite esum_sumf.
  rewrite <- (rev_length (edges g)).
  eapply Nat.le_trans; [|apply (sumf_targets (rev (edges g)) (seq 0 (length (slots g)))), seq_NoDup].
  apply sumf_le. intros u. unfold neighbors_in. destruct (live g u); [|simpl; lia].
  now rewrite map_length.
Qed.

(* ------------------------------------------------------------------ scripts and capacities *)
Section Steady.
Context {W B : Type}.
Variable bufs : W -> B.
Variable nproc : W -> list B -> W.

Notation graph := (graph W).
Notation process := (process bufs nproc).
Notation process_ops := (process_ops bufs nproc).
Notation loop_ops := (loop_ops bufs nproc).
Notation iprocess := (iprocess bufs nproc).

Lemma inputs_len (g0 g : graph) x : wf g0 -> same_shape g0 g ->
  length (inputs_of bufs g x) = length (ins g0 x).
Proof.
  intros Hwf Hs. rewrite <- (shape_ins _ _ Hs x), <- (map_fst_inputs bufs g x (shape_wf _ _ Hs Hwf)).
  now rewrite map_length.
Qed.

(* the loop's scripts on two graphs of the same shape, with processors whose bit sets cover
   the nodes, started in the same traversal state *)
Lemma loop_ops_shape (g0 : graph) c1 c2 F : wf g0 ->
  (forall x, live g0 x = true -> x < c1) -> (forall x, live g0 x = true -> x < c2) ->
  forall k s (g g' : graph), same_shape g0 g -> same_shape g0 g' -> in_univ (node_identifiers g0) s ->
  loop_ops k F {| dfs := s; cap := c1 |} g = loop_ops k F {| dfs := s; cap := c2 |} g'.
Proof.
  intros Hwf H1 H2. induction k as [|k IH]; intros s g g' Hs Hs' HU; [reflexivity|].
  cbn [ProcessorCaps.loop_ops cap dfs].
  pose proof (shape_nbrs _ _ Hs) as Hn. pose proof (shape_nbrs _ _ Hs') as Hn'.
  rewrite !(next_pt (neighbors_in g) (neighbors_in g0) F _ Hn), !(next_ops_pt (neighbors_in g) (neighbors_in g0) F _ Hn).
  rewrite !(next_pt (neighbors_in g') (neighbors_in g0) F _ Hn'), !(next_ops_pt (neighbors_in g') (neighbors_in g0) F _ Hn').
  rewrite (next_cap (neighbors_in g0) (node_identifiers g0) (univ_closed0 g0 Hwf) c1 c2
             (ucap1 g0 c1 H1) (ucap1 g0 c2 H2) F s HU).
  rewrite (next_ops_cap g0 Hwf c1 c2 H1 H2 F s HU).
  destruct (next (neighbors_in g0) F c2 s) as [[s' [x|]]| |] eqn:Hnx; try reflexivity.
  assert (HU' : in_univ (node_identifiers g0) s').
  { eapply next_in_univ; [apply (univ_closed0 g0 Hwf)|exact HU|exact Hnx]. }
  assert (Hlive : live g' x = live g x).
  { destruct Hs as (_ & Hl & _), Hs' as (_ & Hl' & _). now rewrite Hl, Hl'. }
  destruct (weight g x) as [w|] eqn:Hw.
  - assert (Hlx : live g x = true) by (apply live_weight; eauto).
    assert (Hlx' : live g' x = true) by congruence.
    destruct (proj1 (live_weight g' x) Hlx') as [w' Hw']. rewrite Hw'.
    rewrite (collect_inputs bufs g x (shape_wf _ _ Hs Hwf)), (collect_inputs bufs g' x (shape_wf _ _ Hs' Hwf)).
    rewrite (inputs_len g0 g x Hwf Hs), (inputs_len g0 g' x Hwf Hs').
    rewrite (IH s' (set_weight g x (nproc w (map snd (inputs_of bufs g x))))
                (set_weight g' x (nproc w' (map snd (inputs_of bufs g' x))))); [reflexivity| | |exact HU'].
    + now apply shape_set_weight.
    + now apply shape_set_weight.
  - assert (Hw' : weight g' x = None).
    { destruct (weight g' x) as [w'|] eqn:E; [|reflexivity].
      assert (live g' x = true) by (apply live_weight; eauto).
      assert (live g x = true) by congruence.
      apply live_weight in H0. destruct H0 as [w0 H0]. congruence. }
    now rewrite Hw'.
Qed.

(* (1) the scripts of a call depend on the shape of the graph and the output node only *)
Theorem process_ops_shape p1 p2 (g g' : graph) out : wf g -> same_shape g g' -> live g out = true ->
  process_ops p1 g out = process_ops p2 g' out.
Proof.
  intros Hwf Hs Hout. unfold ProcessorCaps.process_ops. rewrite (fuel_of_shape _ _ Hs).
  cbn [move_to reset dfs cap st_empty disc fin].
  rewrite (loop_ops_shape g (Nat.max (cap p1) (node_bound g)) (Nat.max (cap p2) (node_bound g')) (fuel_of g) Hwf)
    with (s := {| stack := [out]; disc := []; fin := [] |}) (g' := g'); [reflexivity| | | | |].
  - intros x Hx. apply live_bound in Hx. lia.
  - intros x Hx. rewrite (node_bound_shape _ _ Hs). apply live_bound in Hx. lia.
  - apply shape_refl.
  - exact Hs.
  - intros x [<-|[]]. now apply in_node_identifiers.
Qed.

(* ---------------- what one instrumented call is ---------------- *)
Lemma iprocess_inv ip (g : graph) out ip' g' log : iprocess ip g out = Ok (ip', g', log) ->
  process (ibase ip) g out = Ok (ibase ip', g', log) /\
  svec ip' = fst (vrun (svec ip) (fst (process_ops (ibase ip) g out))) /\
  ivec ip' = fst (vrun (ivec ip) (snd (process_ops (ibase ip) g out))) /\
  bvec ip' = fst (bitset_grow (cap (ibase ip)) (bvec ip) (node_bound g)) /\
  reallocs ip' = reallocs ip + 2 * b2n (snd (bitset_grow (cap (ibase ip)) (bvec ip) (node_bound g)))
                 + snd (vrun (svec ip) (fst (process_ops (ibase ip) g out)))
                 + snd (vrun (ivec ip) (snd (process_ops (ibase ip) g out))).
Proof.
  unfold CapsDfs.iprocess. destruct (process (ibase ip) g out) as [[[p1 g1] l1]| |]; cbn [bind fst snd]; try discriminate.
  intros [= <- <- <-]. cbn [ibase svec ivec bvec reallocs]. auto.
Qed.

(* the instrumented call returns exactly when the model call does: no panic on a well-formed
   graph and an existing output node *)
Theorem iprocess_terminates ip (g : graph) out : wf g -> live g out = true ->
  exists ip' g' log, iprocess ip g out = Ok (ip', g', log) /\ process (ibase ip) g out = Ok (ibase ip', g', log).
Proof.
  intros Hwf Hout. destruct (process_terminates bufs nproc (ibase ip) g out Hwf Hout) as (p' & g' & log & Hp).
  unfold CapsDfs.iprocess. rewrite Hp. cbn [bind fst snd]. eexists _, g', log. split; [reflexivity|]. reflexivity.
Qed.

Lemma process_shape p (g : graph) out p' g' log : wf g -> live g out = true ->
  process p g out = Ok (p', g', log) -> same_shape g g'.
Proof.
  intros Hwf Hout Hp. destruct (process_inputs bufs nproc p g out p' g' log Hwf Hout Hp) as [H _].
  apply (f_equal fst) in H. cbn [fst] in H. rewrite H. apply shape_spec_run.
Qed.

Lemma vresize_wf v n : vlen (fst (vresize v n)) <= vcap (fst (vresize v n)) /\ vcap v <= vcap (fst (vresize v n)).
Proof.
  unfold vresize. destruct (Nat.leb_spec n (vcap v)); cbn [fst vlen vcap]; lia.
Qed.

Lemma bitset_grow_wf len v bits : vlen v <= vcap v ->
  vlen (fst (bitset_grow len v bits)) <= vcap (fst (bitset_grow len v bits)) /\
  vcap v <= vcap (fst (bitset_grow len v bits)).
Proof.
  intros H. unfold bitset_grow. destruct (len <? bits); [apply vresize_wf|cbn [fst]; lia].
Qed.

Lemma stack_script_clear p (g : graph) out : exists ts, fst (process_ops p g out) = VClear :: ts.
Proof. unfold ProcessorCaps.process_ops. cbn [fst]. eauto. Qed.

(* faithfulness and invariants of one call: the stack vector is as long as the model's stack
   (empty: the traversal has finished), every vector is in a state a Vec can be in, no capacity
   shrinks, the graph keeps its shape, the bit sets cover the graph's node bound *)
Theorem iprocess_keeps ip (g : graph) out ip' g' log : wf g -> live g out = true -> iwf ip ->
  iprocess ip g out = Ok (ip', g', log) ->
  iwf ip' /\ same_shape g g' /\
  vlen (svec ip') = length (stack (dfs (ibase ip'))) /\ vlen (svec ip') = 0 /\
  cap (ibase ip') = Nat.max (cap (ibase ip)) (node_bound g) /\
  c_stack (caps ip) <= c_stack (caps ip') /\ c_inputs (caps ip) <= c_inputs (caps ip') /\
  c_bits (caps ip) <= c_bits (caps ip') /\ reallocs ip <= reallocs ip'.
Proof.
  intros Hwf Hout (Ws & Wi & Wb) Hip.
  destruct (iprocess_inv _ _ _ _ _ _ Hip) as (Hp & Es & Ei & Eb & Er).
  destruct (process_order bufs nproc _ _ _ _ _ _ Hwf Hout Hp) as (_ & _ & _ & Hst & Hcap).
  destruct (process_ops_faithful bufs nproc _ _ _ _ _ _ Hp) as [Hlen _].
  destruct (vrun_cap_ge (fst (process_ops (ibase ip) g out)) (svec ip) Ws) as (_ & S2 & S3).
  destruct (vrun_cap_ge (snd (process_ops (ibase ip) g out)) (ivec ip) Wi) as (_ & I2 & I3).
  destruct (bitset_grow_wf (cap (ibase ip)) (bvec ip) (node_bound g) Wb) as [B1 B2].
  assert (Hl : vlen (svec ip') = length (stack (dfs (ibase ip')))).
  { rewrite Es, vrun_len. apply Hlen. }
  unfold iwf, caps; cbn [c_stack c_inputs c_bits]. rewrite Es, Ei, Eb in *.
  split; [auto|]. split; [eapply process_shape; eauto|]. split; [exact Hl|].
  split; [now rewrite Hl, Hst|]. split; [exact Hcap|]. repeat split; try assumption. lia.
Qed.

(* ---------------- (2) steady state ---------------- *)
(* after ONE call (processor in any state, vectors of any capacity), a further call from the same
   node on the graph that call left -- or on any graph of the same shape: the owner may have
   rewritten every node and buffer in between -- changes no capacity and reallocates nothing *)
Theorem iprocess_steady ip (g : graph) out ip1 g1 l1 : wf g -> live g out = true -> iwf ip ->
  iprocess ip g out = Ok (ip1, g1, l1) ->
  forall (g1' : graph) ip2 g2 l2, same_shape g g1' ->
  iprocess ip1 g1' out = Ok (ip2, g2, l2) ->
  caps ip2 = caps ip1 /\ reallocs ip2 = reallocs ip1.
Proof.
  intros Hwf Hout HW H1 g1' ip2 g2 l2 Hs H2.
  destruct (iprocess_keeps _ _ _ _ _ _ Hwf Hout HW H1) as ((Ws1 & Wi1 & Wb1) & _ & _ & _ & Hcap1 & _).
  destruct HW as (Ws & Wi & Wb).
  destruct (iprocess_inv _ _ _ _ _ _ H1) as (_ & Es1 & Ei1 & _ & _).
  destruct (iprocess_inv _ _ _ _ _ _ H2) as (_ & Es2 & Ei2 & Eb2 & Er2).
  rewrite <- (process_ops_shape (ibase ip) (ibase ip1) g g1' out Hwf Hs Hout) in Es2, Ei2, Er2.
  destruct (stack_script_clear (ibase ip) g out) as [ts Hts].
  destruct (inputs_ops_clear bufs nproc (ibase ip) g out Hwf Hout) as [ti Hti].
  rewrite Hts in *. rewrite Hti in *.
  destruct (steady_repeat ts (svec ip) 1 Ws) as [A1 A2].
  destruct (steady_repeat ti (ivec ip) 1 Wi) as [B1 B2].
  cbn [repeat concat] in A1, A2, B1, B2. rewrite app_nil_r in A1, A2, B1, B2.
  rewrite <- Es1 in A1, A2. rewrite <- Ei1 in B1, B2. rewrite <- Es2 in A2. rewrite <- Ei2 in B2.
  assert (Hb : bitset_grow (cap (ibase ip1)) (bvec ip1) (node_bound g1') = (bvec ip1, false)).
  { unfold bitset_grow. rewrite (node_bound_shape _ _ Hs), Hcap1.
    destruct (Nat.ltb_spec (Nat.max (cap (ibase ip)) (node_bound g)) (node_bound g)); [lia|reflexivity]. }
  rewrite Hb in Eb2, Er2. cbn [fst snd b2n] in Eb2, Er2.
  split; [|lia]. unfold caps. now rewrite A2, B2, Eb2.
Qed.

(* the same as one statement about two consecutive calls that are known to return *)
Corollary iprocess_twice ip (g : graph) out : wf g -> live g out = true -> iwf ip ->
  exists ip1 g1 l1 ip2 g2 l2,
    iprocess ip g out = Ok (ip1, g1, l1) /\ iprocess ip1 g1 out = Ok (ip2, g2, l2) /\
    caps ip2 = caps ip1 /\ reallocs ip2 = reallocs ip1.
Proof.
  intros Hwf Hout HW.
  destruct (iprocess_terminates ip g out Hwf Hout) as (ip1 & g1 & l1 & H1 & _).
  destruct (iprocess_keeps _ _ _ _ _ _ Hwf Hout HW H1) as (_ & Hs & _).
  assert (Hout1 : live g1 out = true) by (destruct Hs as (_ & Hl & _); now rewrite Hl).
  destruct (iprocess_terminates ip1 g1 out (shape_wf _ _ Hs Hwf) Hout1) as (ip2 & g2 & l2 & H2 & _).
  exists ip1, g1, l1, ip2, g2, l2. split; [exact H1|]. split; [exact H2|].
  exact (iprocess_steady ip g out ip1 g1 l1 Hwf Hout HW H1 g1 ip2 g2 l2 Hs H2).
Qed.

(* ---------------- (3) reserved capacity: any node, any graph ---------------- *)
(* whatever the processor did before: a call (any graph, any output node) whose traversal needs
   no more stack entries / inputs / bit-set blocks than the processor has reserved changes no
   capacity and reallocates nothing.  The needs are those of the call's own scripts, which depend
   on the graph's shape and the node only (stated here for a new processor). *)
Theorem iprocess_reserved ip (g : graph) out ip' g' log : wf g -> live g out = true -> iwf ip ->
  high_water 0 (fst (process_ops new_processor g out)) <= vcap (svec ip) ->
  high_water 0 (snd (process_ops new_processor g out)) <= vcap (ivec ip) ->
  (node_bound g <= cap (ibase ip) \/ blocks_of (node_bound g) <= vcap (bvec ip)) ->
  iprocess ip g out = Ok (ip', g', log) ->
  caps ip' = caps ip /\ reallocs ip' = reallocs ip.
Proof.
  intros Hwf Hout (Ws & Wi & Wb) Hs Hi Hb Hip.
  destruct (iprocess_inv _ _ _ _ _ _ Hip) as (_ & Es & Ei & Eb & Er).
  rewrite (process_ops_indep bufs nproc new_processor (ibase ip) g out Hwf Hout) in Hs, Hi.
  destruct (stack_script_clear (ibase ip) g out) as [ts Hts].
  destruct (inputs_ops_clear bufs nproc (ibase ip) g out Hwf Hout) as [ti Hti].
  rewrite Hts in *. rewrite Hti in *. cbn [high_water] in Hs, Hi.
  destruct (vrun_no_realloc (VClear :: ts) (svec ip) Ws) as (A1 & A2 & _); [cbn [high_water]; lia|].
  destruct (vrun_no_realloc (VClear :: ti) (ivec ip) Wi) as (B1 & B2 & _); [cbn [high_water]; lia|].
  assert (Hg : vcap (fst (bitset_grow (cap (ibase ip)) (bvec ip) (node_bound g))) = vcap (bvec ip) /\
               snd (bitset_grow (cap (ibase ip)) (bvec ip) (node_bound g)) = false).
  { unfold bitset_grow, vresize. destruct (Nat.ltb_spec (cap (ibase ip)) (node_bound g)); [|auto].
    destruct Hb as [Hb|Hb]; [lia|].
    destruct (Nat.leb_spec (blocks_of (node_bound g)) (vcap (bvec ip))); [auto|lia]. }
  destruct Hg as [G1 G2]. rewrite G2 in Er. cbn [b2n] in Er.
  split; [|lia]. unfold caps. now rewrite Es, Ei, Eb, A2, B2, G1.
Qed.

End Steady.

(* ------------------------------------------------------------------ (4) the stack bound 1 + |E| *)
Section EdgeBound.
Context {W B : Type}.
Variable bufs : W -> B.
Variable nproc : W -> list B -> W.
Notation graph := (graph W).
Notation loop_ops := (loop_ops bufs nproc).

Variable g0 : graph.
Hypothesis Hwf : wf g0.
Let succ0 := neighbors_in g0.
Let univ := node_identifiers g0.
Variable c : nat.
Hypothesis capc : forall x, live g0 x = true -> x < c.

Lemma loop_ops_hw2 F : forall k p (g : graph), same_shape g0 g -> cap p = c -> in_univ univ (dfs p) ->
  high_water (length (stack (dfs p))) (fst (loop_ops k F p g)) <= mu2 succ0 univ (dfs p).
Proof.
  pose proof (univ_closed0 g0 Hwf) as Hcl. pose proof (ucap1 g0 c capc) as Hcap.
  induction k as [|k IH]; intros p g Hs Hc HU; cbn [ProcessorCaps.loop_ops]; [cbn; apply stack_le_mu2|].
  pose proof (shape_nbrs _ _ Hs) as Hn. rewrite Hc.
  rewrite !(next_pt (neighbors_in g) succ0 F _ Hn), !(next_ops_pt (neighbors_in g) succ0 F _ Hn).
  pose proof (next_ops_hw2 succ0 univ Hcl c Hcap F (dfs p) HU) as Hso.
  destruct (next succ0 F c (dfs p)) as [[s' [x|]]| |] eqn:Hnx; cbn [fst]; try exact Hso.
  destruct (weight g x) as [w|] eqn:Hw; cbn [fst]; [|exact Hso].
  destruct (collect bufs g x (neighbors_in g x)) as [ins0| |]; cbn [fst]; try exact Hso.
  rewrite high_water_app.
  assert (Hl : len_after (length (stack (dfs p))) (next_ops succ0 F c (dfs p)) = length (stack s')).
  { eapply next_ops_len; eauto. }
  rewrite Hl.
  pose proof (next_mu2 succ0 univ Hcl c Hcap F _ _ _ HU Hnx) as Hmu.
  assert (HU' : in_univ univ s').
  { eapply next_in_univ; [exact Hcl|exact HU|exact Hnx]. }
  specialize (IH {| dfs := s'; cap := c |} (set_weight g x (nproc w (map snd ins0)))).
  cbn [dfs cap] in IH.
  assert (H := IH (shape_set_weight _ _ _ _ Hs (proj2 (live_weight g x) (ex_intro _ w Hw))) eq_refl HU').
  lia.
Qed.

End EdgeBound.

Section EdgeBound2.
Context {W B : Type}.
Variable bufs : W -> B.
Variable nproc : W -> list B -> W.
Notation graph := (graph W).
Notation process_ops := (process_ops bufs nproc).
Notation iprocess := (iprocess bufs nproc).

(* the stack never holds more than 1 + |E| entries: the start node, and one entry per edge
   (a node is pushed once per edge from a node that is being discovered) *)
Theorem stack_high_water_edges p (g : graph) out : wf g -> live g out = true ->
  high_water 0 (fst (process_ops p g out)) <= 1 + length (edges g).
Proof.
  intros Hwf Hout. unfold ProcessorCaps.process_ops. cbn [fst high_water].
  pose proof (loop_ops_hw2 bufs nproc g Hwf (Nat.max (cap p) (node_bound g))) as Hh.
  specialize (Hh (fun x Hx => Nat.lt_le_trans _ _ _ (live_bound g x Hx) (Nat.le_max_r _ _))).
  specialize (Hh (fuel_of g) (fuel_of g) (move_to out (reset p g)) g (shape_refl g) eq_refl).
  cbn [move_to reset dfs stack length st_empty disc fin] in Hh.
  assert (HU : in_univ (node_identifiers g) {| stack := [out]; disc := []; fin := [] |}).
  { intros x [<-|[]]. now apply in_node_identifiers. }
  specialize (Hh HU). unfold mu2 in Hh. cbn [stack disc length] in Hh.
  pose proof (esum_filter_le (neighbors_in g) (fun u => negb (mem u [])) (node_identifiers g)) as H1.
  pose proof (esum_nbrs_edges g) as H2. unfold white in Hh.
  pose proof (high_water_ge 1 (fst (loop_ops bufs nproc (fuel_of g) (fuel_of g) (move_to out (reset p g)) g))).
  cbn [move_to reset] in *. lia.
Qed.

(* hence: a processor whose stack vector holds 1 + |E| entries, whose inputs vector holds the
   largest in-degree and whose bit sets cover the node bound never grows, from ANY output node *)
Theorem iprocess_reserved_bounds ip (g : graph) out ip' g' log : wf g -> live g out = true -> iwf ip ->
  1 + length (edges g) <= vcap (svec ip) -> max_in_degree g <= vcap (ivec ip) ->
  (node_bound g <= cap (ibase ip) \/ blocks_of (node_bound g) <= vcap (bvec ip)) ->
  iprocess ip g out = Ok (ip', g', log) ->
  caps ip' = caps ip /\ reallocs ip' = reallocs ip.
Proof.
  intros Hwf Hout HW Hs Hi Hb Hip.
  eapply (iprocess_reserved bufs nproc ip g out ip' g' log Hwf Hout HW); try eassumption.
  - eapply Nat.le_trans; [apply stack_high_water_edges; assumption|exact Hs].
  - eapply Nat.le_trans; [apply inputs_high_water; assumption|exact Hi].
Qed.

(* after a call from node n, a call from any node n' of the same graph (same shape) whose
   traversal needs no more stack entries and inputs than the one from n changes no capacity *)
Theorem iprocess_steady_dominated ip (g : graph) n ip1 g1 l1 : wf g -> live g n = true -> iwf ip ->
  iprocess ip g n = Ok (ip1, g1, l1) ->
  forall (g1' : graph) n' ip2 g2 l2, same_shape g g1' -> live g n' = true ->
  high_water 0 (fst (process_ops new_processor g n')) <= high_water 0 (fst (process_ops new_processor g n)) ->
  high_water 0 (snd (process_ops new_processor g n')) <= high_water 0 (snd (process_ops new_processor g n)) ->
  iprocess ip1 g1' n' = Ok (ip2, g2, l2) ->
  caps ip2 = caps ip1 /\ reallocs ip2 = reallocs ip1.
Proof.
  intros Hwf Hn HW H1 g1' n' ip2 g2 l2 Hs Hn' Ds Di H2.
  destruct (iprocess_keeps bufs nproc _ _ _ _ _ _ Hwf Hn HW H1) as (HW1 & _ & _ & _ & Hcap1 & _).
  destruct (iprocess_inv bufs nproc _ _ _ _ _ _ H1) as (_ & Es1 & Ei1 & _ & _).
  destruct HW as (Ws & Wi & Wb).
  pose proof (shape_wf _ _ Hs Hwf) as Hwf'.
  assert (Hn1' : live g1' n' = true) by (destruct Hs as (_ & Hl & _); now rewrite Hl).
  rewrite (process_ops_indep bufs nproc new_processor (ibase ip) g n Hwf Hn) in Ds, Di.
  destruct (stack_script_clear bufs nproc (ibase ip) g n) as [ts Hts].
  destruct (inputs_ops_clear bufs nproc (ibase ip) g n Hwf Hn) as [ti Hti].
  destruct (vrun_cap_ge (fst (process_ops (ibase ip) g n)) (svec ip) Ws) as (S1 & _ & _).
  destruct (vrun_cap_ge (snd (process_ops (ibase ip) g n)) (ivec ip) Wi) as (I1 & _ & _).
  rewrite <- Es1 in S1. rewrite <- Ei1 in I1. rewrite Hts in *. rewrite Hti in *. cbn [high_water] in *.
  eapply (iprocess_reserved bufs nproc ip1 g1' n' ip2 g2 l2 Hwf' Hn1' HW1); [| | |exact H2].
  - rewrite <- (process_ops_shape bufs nproc new_processor new_processor g g1' n' Hwf Hs Hn'). lia.
  - rewrite <- (process_ops_shape bufs nproc new_processor new_processor g g1' n' Hwf Hs Hn'). lia.
  - left. rewrite (node_bound_shape _ _ Hs), Hcap1. lia.
Qed.

End EdgeBound2.
