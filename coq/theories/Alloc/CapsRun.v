(* Executable Z-level interface of the capacity trace (Alloc/CapsDfs.v) for the C07 capacity
   correspondence (lib/props/c07.py, harness/src/bin/c07.rs mode `caps`): a script builds a graph
   of stock nodes and calls process on ONE processor made by with_capacity(cap0); after every call
   the harness reports Processor::verif_capacities() and the heap traffic of the call seen by the
   counting allocator; the model predicts all four numbers:
     stack capacity, inputs capacity, allocations + reallocations during the call, frees (0). *)
Require Import List ZArith Bool Arith.
From Dasp Require Import Base.Res Base.ListX Graph.Dfs Graph.Process Alloc.Caps Alloc.ProcessorCaps Alloc.CapsDfs.
Import ListNotations.
Local Open Scope Z_scope.

(* the node states play no part in the traversal: unit weights *)
Definition ub (_ : unit) : unit := tt.
Definition up (w : unit) (_ : list unit) : unit := w.

Inductive cop := CN | CE (a b : Z) | CR (a : Z) | CP (o : Z).

Definition n (z : Z) : nat := Z.to_nat z.
Definition zn (k : nat) : Z := Z.of_nat k.

Definition cstate := (graph unit * iproc)%type.

Definition cstep (st : cstate) (o : cop) : res (cstate * list (list Z)) :=
  let (g, ip) := st in
  match o with
  | CN => Ok ((fst (add_node tt g), ip), [])
  | CE a b => let* g' := add_edge (n a) (n b) g in Ok ((g', ip), [])
  | CR a => Ok ((fst (remove_node (n a) g), ip), [])
  | CP o =>
    let* r := iprocess ub up ip g (n o) in
    let ip' := fst (fst r) in
    Ok ((snd (fst r), ip'),
        [[zn (vcap (svec ip')); zn (vcap (ivec ip')); zn (reallocs ip' - reallocs ip); 0]])
  end.

Fixpoint crun (st : cstate) (ops : list cop) : list (list Z) :=
  match ops with
  | [] => []
  | o :: t => match cstep st o with
              | Ok (st', obs) => obs ++ crun st' t
              | Panic k => [[8; zn (panic_code k)]]
              | UB => [[-2]]
              end
  end.

Definition run_case (c : Z * list cop) : list (list Z) :=
  crun (empty_graph, iproc_with_capacity (n (fst c))) (snd c).

Definition zll_eqb (a b : list (list Z)) : bool :=
  if list_eq_dec (list_eq_dec Z.eq_dec) a b then true else false.

Definition check (c : (Z * list cop) * list (list Z)) : bool := zll_eqb (run_case (fst c)) (snd c).
