(* C07 x C09: the capacity trace of the modelled `dasp_graph::process`.  Definitions only.

   An instrumented processor carries, next to the traversal state of Graph/Process.v, the
   (len, cap) pairs of the heap vectors a real `Processor` owns:
     svec  DfsPostOrder::stack : Vec<NodeIndex>
     ivec  Processor::inputs   : Vec<Input>
     bvec  the block vector (Vec<u32>) of EACH of the two FixedBitSets `discovered` and
           `finished` (they are created together and grown together, so one pair stands for both)
   and the number of reallocations performed so far.

   One [iprocess] call is the model call [process] plus, on the vectors,
     reset    : reset_map on both bit sets = clear (no size change) + grow(node_bound):
                `if bits > self.length { self.length = bits; self.data.resize(blocks, 0) }`,
                an allocation iff the block count exceeds the block vector's capacity; stack.clear()
     move_to  : stack.clear(); stack.push(start)
     next     : per loop iteration one push per undiscovered neighbour (first visit) or one pop
     per node : inputs.clear(), one inputs.push per collected input
   i.e. the scripts [process_ops] of Alloc/ProcessorCaps.v (which are defined along the run of
   the C09 stack machine and proved faithful to it) run on the vectors with [vrun]: push
   reallocates iff len = cap, nothing ever shrinks a capacity. *)
Require Import List Arith Bool.
From Dasp Require Import Base.Res Base.ListX Graph.Dfs Graph.Process Alloc.Caps Alloc.ProcessorCaps.
Import ListNotations.

(* Vec::resize(n, 0): within capacity nothing is allocated; beyond it reserve() grows
   amortised: cap' = max(4, max(2 * cap, n)) *)
Definition vresize (v : vec) (n : nat) : vec * bool :=
  if n <=? vcap v then ({| vlen := n; vcap := vcap v |}, false)
  else ({| vlen := n; vcap := Nat.max 4 (Nat.max (2 * vcap v) n) |}, true).

(* FixedBitSet: number of u32 blocks for a bit length *)
Definition blocks_of (bits : nat) : nat := bits / 32 + (if bits mod 32 =? 0 then 0 else 1).

(* FixedBitSet::grow(bits) on a set of bit length [len] *)
Definition bitset_grow (len : nat) (v : vec) (bits : nat) : vec * bool :=
  if len <? bits then vresize v (blocks_of bits) else (v, false).

Record iproc := { ibase : processor; svec : vec; ivec : vec; bvec : vec; reallocs : nat }.

(* Processor::with_capacity(n): DfsPostOrder::default() with stack = Vec::with_capacity(n),
   inputs = Vec::with_capacity(n); the bit sets are empty (no blocks, no capacity) *)
Definition iproc_with_capacity (n : nat) : iproc :=
  {| ibase := new_processor; svec := {| vlen := 0; vcap := n |}; ivec := {| vlen := 0; vcap := n |};
     bvec := {| vlen := 0; vcap := 0 |}; reallocs := 0 |}.

(* what can be asked of a processor about its heap: the three capacities
   (Processor::verif_capacities() returns the first two) *)
Record capacities := { c_stack : nat; c_inputs : nat; c_bits : nat }.
Definition caps (ip : iproc) : capacities :=
  {| c_stack := vcap (svec ip); c_inputs := vcap (ivec ip); c_bits := vcap (bvec ip) |}.

Definition b2n (b : bool) : nat := if b then 1 else 0.

Section IProc.
Context {W B : Type}.
Variable bufs : W -> B.
Variable nproc : W -> list B -> W.

Definition iprocess (ip : iproc) (g : graph W) (out : nat)
  : res (iproc * graph W * list (invocation B)) :=
  let* r := process bufs nproc (ibase ip) g out in
  let ops := process_ops bufs nproc (ibase ip) g out in
  let bg := bitset_grow (cap (ibase ip)) (bvec ip) (node_bound g) in
  let rs := vrun (svec ip) (fst ops) in
  let ri := vrun (ivec ip) (snd ops) in
  Ok ({| ibase := fst (fst r); svec := fst rs; ivec := fst ri; bvec := fst bg;
         (* both bit sets grow: two reallocations *)
         reallocs := reallocs ip + 2 * b2n (snd bg) + snd rs + snd ri |},
      snd (fst r), snd r).

(* consecutive calls on the graph as the previous call left it, from the given output nodes:
   the capacities after every call *)
Fixpoint icalls (ip : iproc) (g : graph W) (outs : list nat) : res (list capacities) :=
  match outs with
  | [] => Ok []
  | o :: t =>
    let* r := iprocess ip g o in
    let* l := icalls (fst (fst r)) (snd (fst r)) t in
    Ok (caps (fst (fst r)) :: l)
  end.

End IProc.

(* the vectors are in a state a Vec can be in *)
Definition iwf (ip : iproc) : Prop :=
  vlen (svec ip) <= vcap (svec ip) /\ vlen (ivec ip) <= vcap (ivec ip) /\ vlen (bvec ip) <= vcap (bvec ip).
