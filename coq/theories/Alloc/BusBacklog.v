(* C07, the bus clause ("the backlog nevertheless stops growing once its outputs are pulled in
   step"), as corollaries of the C13 theorems over the same model (Signal/Bus.v):
   (1) the backlog length equals the maximum lag over the live outputs (0 if none), hence it is
       bounded by any bound on the lags;
   (2) under lock-step pulling (rounds of one next() per live output in any order, sends / drops /
       pending_frames queries only between rounds) the backlog is empty at every round boundary and
       never longer than one frame inside a round, for any number of rounds and outputs. *)
Require Import List Arith Lia Bool Permutation.
From Dasp Require Import Base.Res Signal.Bus Signal.BusSpec Signal.BusProofs Signal.BusHistProofs.
Import ListNotations.

(* ---- definitions (independent of the source function) ---- *)

(* lag of each live output = its pending_frames value = backlog length - frames_read *)
Definition lags {F : Type} (s : @st F) : list nat := map (fun kv => length (buf s) - snd kv) (fr s).
Definition max_lag {F : Type} (s : @st F) : nat := fold_right Nat.max 0 (lags s).

(* lock-step schedules: a list of phases; a round pulls every live output exactly once, in any order *)
Inductive phase := PSend | PDrop (k : nat) | PPending (k : nat) | PRound (order : list nat).
Definition phase_ops (ph : phase) : list op :=
  match ph with
  | PSend => [OSend] | PDrop k => [ODrop k] | PPending k => [OPending k]
  | PRound order => map ONext order
  end.
Definition flat (phs : list phase) : list op := concat (map phase_ops phs).

(* n = next key, live = keys of the live outputs *)
Fixpoint lockstep (n : nat) (live : list nat) (phs : list phase) : Prop :=
  match phs with
  | [] => True
  | PSend :: t => lockstep (S n) (n :: live) t
  | PDrop k :: t => lockstep n (filter (fun j => negb (j =? k)) live) t
  | PPending k :: t => In k live /\ lockstep n live t
  | PRound order :: t => Permutation order live /\ lockstep n live t
  end.

Lemma fold_max_le b l : (forall x, In x l -> x <= b) -> fold_right Nat.max 0 l <= b.
Proof. induction l as [|a l IH]; simpl; intros H; [lia|]. pose proof (H a (or_introl eq_refl)).
  assert (fold_right Nat.max 0 l <= b) by (apply IH; intros; apply H; now right). lia. Qed.
Lemma fold_max_ge x l : In x l -> x <= fold_right Nat.max 0 l.
Proof. induction l as [|a l IH]; simpl; [intros []|]. intros [->|H]; [lia|]. apply IH in H. lia. Qed.

Lemma keys_lookup k m : In k (keys m) <-> lookup k m <> None.
Proof. split; [|apply lookup_keys]. induction m as [|[k' v] t IH]; simpl; [intros []|].
  destruct (Nat.eqb_spec k k'); [discriminate|]. intros [E|H]; [congruence|auto]. Qed.

Section BusBacklog.
Context {F : Type} (f : nat -> F).
Notation st := (@st F).
Notation ev := (@ev F).
Notation Inv := (Inv f).

(* ---- (1) backlog = maximum lag ---- *)
Lemma len_le_lag (s : st) L : Inv s ->
  (forall k p, pos s k = Some p -> pulled s - p <= L) -> length (buf s) <= L.
Proof.
  intros I H. destruct (backlog_is_slowest_lag f s I) as (_ & Hlen & Hemp & _ & Hex).
  assert (Hd : fr s = [] \/ fr s <> []) by (destruct (fr s); [now left|right; discriminate]).
  destruct Hd as [E|E]; [rewrite (Hemp E); simpl; lia|].
  destruct (Hex E) as [k Hk]. apply H in Hk. lia.
Qed.

Lemma len_is_max_lag (s : st) : Inv s -> length (buf s) = max_lag s.
Proof.
  intros I. unfold max_lag, lags. apply Nat.le_antisymm.
  - assert (Hd : fr s = [] \/ fr s <> []) by (destruct (fr s); [now left|right; discriminate]).
    destruct Hd as [E|E]; [rewrite (i_empty _ _ I E); simpl; lia|].
    destruct (i_min _ _ I E) as [k Hk]. apply lookup_In in Hk. apply fold_max_ge.
    apply in_map_iff. exists (k, 0). split; [simpl; lia|exact Hk].
  - apply fold_max_le. intros x Hx. apply in_map_iff in Hx. destruct Hx as [kv [<- _]]. lia.
Qed.

Theorem bus_backlog_le_max_lag ops (s : st) (tr : list ev) : run f ops init = Ok (s, tr) ->
  (forall L, (forall k a, is_live s k -> In (ESend k a) tr -> pulled s - (a + received k tr) <= L) ->
             length (buf s) <= L) /\
  length (buf s) = max_lag s /\
  (forall k, is_live s k -> exists n, pending_frames s k = Ok n /\ In n (lags s)).
Proof.
  intros Hr. destruct (reachable f ops s tr Hr) as [I H]. split; [|split].
  - intros L HL. apply len_le_lag; [exact I|]. intros k p Hp.
    assert (Hl : is_live s k) by (apply pos_live; congruence).
    destruct (h_live _ _ _ H k Hl) as [a Ha]. destruct (h_sent _ _ _ H k a Ha) as (_ & _ & _ & Hpos).
    rewrite (Hpos p Hp). now apply HL.
  - now apply len_is_max_lag.
  - intros k Hl. unfold is_live in Hl. destruct (lookup k (fr s)) as [r|] eqn:Hr0; [|congruence].
    pose proof (i_le _ _ I k r Hr0) as Hle. exists (length (buf s) - r). split.
    + unfold pending_frames. rewrite Hr0. destruct (Nat.leb_spec r (length (buf s))); [reflexivity|lia].
    + unfold lags. apply in_map_iff. exists (k, r). split; [reflexivity|now apply lookup_In].
Qed.

(* ---- (2) lock-step pulling ---- *)
Definition caught_up (s : st) : Prop := forall k p, pos s k = Some p -> p = pulled s.
Definition le1 (s : st) : Prop := length (buf s) <= 1.

(* P holds in the start state and after every operation of the schedule, which runs without panic *)
Fixpoint always (P : st -> Prop) (ops : list op) (s : st) : Prop :=
  match ops with
  | [] => P s
  | o :: t => P s /\ exists s1 e, step f s o = Ok (s1, e) /\ always P t s1
  end.

Lemma always_here P ops s : always P ops s -> P s.
Proof. destruct ops; simpl; tauto. Qed.

Lemma always_app P ops1 : forall s s1 tr1 ops2, always P ops1 s -> run f ops1 s = Ok (s1, tr1) ->
  always P ops2 s1 -> always P (ops1 ++ ops2) s.
Proof.
  induction ops1 as [|o t IH]; intros s s1 tr1 ops2 Ha Hr H2; cbn [app].
  - cbn in Hr. injection Hr as <- _. exact H2.
  - cbn [always] in Ha |- *. destruct Ha as (HP & s' & e & Hs & Ht). split; [exact HP|].
    exists s', e. split; [exact Hs|]. cbn [run] in Hr. rewrite Hs in Hr. cbn [bind fst snd] in Hr.
    apply bind_ok in Hr. destruct Hr as ([s2 tr2] & Hr2 & E). cbn [fst snd] in E. injection E as <- _.
    apply (IH s' s2 tr2 ops2 Ht Hr2 H2).
Qed.

Lemma always_prefix P pre : forall ops s post, always P ops s -> ops = pre ++ post ->
  exists s1 tr1, run f pre s = Ok (s1, tr1) /\ P s1.
Proof.
  induction pre as [|o t IH]; intros ops s post Ha E.
  - exists s, []. split; [reflexivity|now apply always_here in Ha].
  - subst ops. cbn [app always] in Ha. destruct Ha as (_ & s' & e & Hs & Ht).
    destruct (IH _ s' post Ht eq_refl) as (s1 & tr1 & Hr & HP).
    exists s1, (e :: tr1). split; [|exact HP]. cbn [run]. rewrite Hs. cbn [bind fst snd]. rewrite Hr. reflexivity.
Qed.

Lemma next_live (s s' : st) key p q : pos s key = Some p -> pos s' key = Some q ->
  (forall k, k <> key -> pos s' k = pos s k) -> forall k, is_live s' k <-> is_live s k.
Proof. intros Hp Hq Hoth k. rewrite <- !pos_live. destruct (Nat.eq_dec k key) as [->|Hne].
  - rewrite Hp, Hq. intuition congruence.
  - now rewrite Hoth. Qed.

(* the rest of a round: the source has been pulled for frame P; outputs in [done] have it, those in
   [todo] read it from the backlog one after the other *)
Lemma round_todo : forall todo (s : st) P done, Inv s -> pulled s = S P -> NoDup todo ->
  (forall k, In k done -> pos s k = Some (S P)) -> (forall k, In k todo -> pos s k = Some P) ->
  (forall k, is_live s k -> In k done \/ In k todo) ->
  exists s' tr, run f (map ONext todo) s = Ok (s', tr) /\ Inv s' /\ pulled s' = S P /\ nk s' = nk s /\
    (forall k, is_live s' k <-> is_live s k) /\ (forall k, is_live s' k -> pos s' k = Some (S P)) /\
    always le1 (map ONext todo) s.
Proof.
  assert (Hle1 : forall (s : st) P, Inv s -> pulled s = S P ->
            (forall k, is_live s k -> pos s k = Some (S P) \/ pos s k = Some P) -> le1 s).
  { intros s P I Hpl H. apply len_le_lag; [exact I|]. intros k p Hp.
    assert (Hl : is_live s k) by (apply pos_live; congruence). destruct (H k Hl) as [E|E]; rewrite E in Hp; injection Hp as <-; lia. }
  induction todo as [|key rest IH]; intros s P done I Hpl ND Hdone Htodo Hcov.
  - exists s, []. cbn [map run always]. split; [reflexivity|]. split; [exact I|]. split; [exact Hpl|].
    split; [reflexivity|]. split; [tauto|]. split.
    + intros k Hl. destruct (Hcov k Hl) as [H|[]]. now apply Hdone.
    + apply (Hle1 s P I Hpl). intros k Hl. destruct (Hcov k Hl) as [H|[]]. left. now apply Hdone.
  - assert (HP0 : le1 s).
    { apply (Hle1 s P I Hpl). intros k Hl. destruct (Hcov k Hl) as [H|H]; [left; now apply Hdone|right; now apply Htodo]. }
    pose proof (Htodo key (or_introl eq_refl)) as Hp.
    destruct (next_inv f s key P I Hp) as (s1 & Hnx & I1 & Hkey & Hoth & Hpl1 & Hnk1).
    inversion ND as [|x l Hnotin ND' E]; subst.
    assert (Hlv1 : forall k, is_live s1 k <-> is_live s k) by (apply (next_live s s1 key P (S P) Hp Hkey Hoth)).
    destruct (IH s1 P (key :: done) I1) as (s' & tr & Hr & I' & Hpl' & Hnk' & Hlv' & Hall & Hal); try assumption.
    + rewrite Hpl1, Hpl. lia.
    + intros k [<-|Hk]; [exact Hkey|]. rewrite Hoth; [now apply Hdone|].
      intros ->. rewrite (Hdone key Hk) in Hp. injection Hp as Hp. lia.
    + intros k Hk. rewrite Hoth; [apply Htodo; now right|]. intros ->. contradiction.
    + intros k Hl. apply Hlv1 in Hl. destruct (Hcov k Hl) as [H|[<-|H]]; [left; now right|left; now left|now right].
    + exists s', (EFrame key (f P) :: tr). cbn [map run step]. rewrite Hnx. cbn [bind fst snd]. rewrite Hr. cbn [bind fst snd].
      split; [reflexivity|]. split; [exact I'|]. split; [exact Hpl'|]. split; [congruence|].
      split; [intros k; rewrite Hlv'; apply Hlv1|]. split; [exact Hall|].
      cbn [always]. split; [exact HP0|]. exists s1, (EFrame key (f P)). split; [|exact Hal].
      cbn [step]. rewrite Hnx. reflexivity.
Qed.

(* the state at a round boundary *)
Record Good (s : st) (live : list nat) : Prop := {
  g_inv : Inv s; g_up : caught_up s; g_nodup : NoDup live; g_live : forall k, In k live <-> is_live s k }.

Lemma good_empty (s : st) : Inv s -> caught_up s -> buf s = [].
Proof. intros I H. apply length_zero_iff_nil. apply Nat.le_0_r. apply len_le_lag; [exact I|].
  intros k p Hp. rewrite (H k p Hp). lia. Qed.

Lemma good_le1 s live : Good s live -> le1 s.
Proof. intros G. unfold le1. rewrite (good_empty s (g_inv _ _ G) (g_up _ _ G)). simpl. lia. Qed.

Lemma round_ok order (s : st) live : Good s live -> Permutation order live ->
  exists s' tr, run f (map ONext order) s = Ok (s', tr) /\ Good s' live /\ nk s' = nk s /\
    always le1 (map ONext order) s.
Proof.
  intros G Hperm. pose proof (g_inv _ _ G) as I.
  assert (NDo : NoDup order) by (apply (Permutation_NoDup (Permutation_sym Hperm)), (g_nodup _ _ G)).
  assert (Hin : forall k, In k order <-> is_live s k).
  { intros k. rewrite <- (g_live _ _ G). split; apply Permutation_in; [exact Hperm|now apply Permutation_sym]. }
  destruct order as [|key rest].
  - exists s, []. cbn [map run always]. split; [reflexivity|]. split; [exact G|]. split; [reflexivity|now apply (good_le1 s live)].
  - assert (Hl : is_live s key) by (apply Hin; now left).
    destruct (live_pos s key Hl) as [p Hp]. pose proof (g_up _ _ G key p Hp) as ->.
    destruct (next_inv f s key (pulled s) I Hp) as (s1 & Hnx & I1 & Hkey & Hoth & Hpl1 & Hnk1).
    assert (Hlv1 : forall k, is_live s1 k <-> is_live s k) by (apply (next_live s s1 key _ _ Hp Hkey Hoth)).
    inversion NDo as [|x l Hnotin ND' E]; subst.
    destruct (round_todo rest s1 (pulled s) [key] I1) as (s' & tr & Hr & I' & Hpl' & Hnk' & Hlv' & Hall & Hal); try assumption.
    + rewrite Hpl1. lia.
    + intros k [<-|[]]. exact Hkey.
    + intros k Hk. rewrite Hoth by (intros ->; contradiction).
      assert (Hlk : is_live s k) by (apply Hin; now right). destruct (live_pos s k Hlk) as [q Hq].
      rewrite Hq. f_equal. now apply (g_up _ _ G k q).
    + intros k Hk. apply Hlv1, Hin in Hk. destruct Hk as [<-|Hk]; [left; now left|now right].
    + exists s', (EFrame key (f (pulled s)) :: tr). cbn [map run step]. rewrite Hnx. cbn [bind fst snd]. rewrite Hr. cbn [bind fst snd].
      split; [reflexivity|]. split; [|split; [congruence|]].
      * constructor; [exact I'| |apply G|].
        -- intros k q Hq. assert (Hlk : is_live s' k) by (apply pos_live; congruence).
           rewrite (Hall k Hlk) in Hq. injection Hq as <-. now rewrite Hpl'.
        -- intros k. rewrite (g_live _ _ G), Hlv'. symmetry. apply Hlv1.
      * cbn [always]. split; [now apply (good_le1 s live)|]. exists s1, (EFrame key (f (pulled s))). split; [|exact Hal].
        cbn [step]. rewrite Hnx. reflexivity.
Qed.

Lemma send_ok (s : st) live : Good s live ->
  Good (fst (send s)) (nk s :: live) /\ always le1 [OSend] s.
Proof.
  intros G. pose proof (g_inv _ _ G) as I. destruct (send_inv f s I) as (I' & Hnew & Hold).
  change (snd (send s)) with (nk s) in Hnew.
  assert (Hfresh : ~ is_live s (nk s)).
  { intros Hl. apply lookup_keys, (i_keys _ _ I) in Hl. lia. }
  assert (G' : Good (fst (send s)) (nk s :: live)).
  { constructor; [exact I'| | |].
    - intros k p Hp. change (pulled (fst (send s))) with (pulled s).
      destruct (Nat.eq_dec k (nk s)) as [->|Hne]; [rewrite Hnew in Hp; congruence|].
      rewrite Hold in Hp by assumption. now apply (g_up _ _ G k).
    - constructor; [rewrite (g_live _ _ G); exact Hfresh|apply G].
    - intros k. cbn [In]. rewrite (g_live _ _ G), <- !pos_live. destruct (Nat.eq_dec k (nk s)) as [->|Hne].
      + rewrite Hnew. split; [intros _; discriminate|now left].
      + rewrite Hold by assumption. intuition congruence. }
  split; [exact G'|]. cbn [always]. split; [now apply (good_le1 s live)|].
  exists (fst (send s)), (ESend (nk s) (pulled s)). split; [reflexivity|]. now apply (good_le1 _ _ G').
Qed.

Lemma drop_ok (s : st) live key : Good s live ->
  exists s', drop_output s key = Ok s' /\ Good s' (filter (fun j => negb (j =? key)) live) /\ nk s' = nk s /\
    always le1 [ODrop key] s.
Proof.
  intros G. pose proof (g_inv _ _ G) as I.
  destruct (drop_inv f s key I) as (s' & Hd & I' & Hgone & Hpl & Hnk & Hoth).
  assert (G' : Good s' (filter (fun j => negb (j =? key)) live)).
  { constructor; [exact I'| |apply NoDup_filter, G|].
    - intros k p Hp. destruct (Nat.eq_dec k key) as [->|Hne]; [unfold pos in Hp; rewrite Hgone in Hp; discriminate|].
      rewrite Hoth in Hp by assumption. rewrite Hpl. now apply (g_up _ _ G k).
    - intros k. rewrite filter_In, (g_live _ _ G). destruct (Nat.eqb_spec k key) as [->|Hne]; cbn [negb].
      + unfold is_live at 2. rewrite Hgone. intuition congruence.
      + rewrite <- !pos_live, Hoth by assumption. intuition. }
  exists s'. split; [exact Hd|]. split; [exact G'|]. split; [exact Hnk|].
  cbn [always]. split; [now apply (good_le1 s live)|]. exists s', (EDrop key). split; [|now apply (good_le1 _ _ G')].
  cbn [step]. rewrite Hd. reflexivity.
Qed.

Lemma lockstep_main : forall phs (s : st) live, Good s live -> lockstep (nk s) live phs ->
  exists s' tr live', run f (flat phs) s = Ok (s', tr) /\ Good s' live' /\ always le1 (flat phs) s.
Proof.
  induction phs as [|ph t IH]; intros s live G Hls.
  - exists s, [], live. cbn. split; [reflexivity|]. split; [exact G|now apply (good_le1 s live)].
  - assert (Hgo : forall s1 tr1 live1, run f (phase_ops ph) s = Ok (s1, tr1) -> Good s1 live1 ->
              lockstep (nk s1) live1 t -> always le1 (phase_ops ph) s ->
              exists s' tr live', run f (flat (ph :: t)) s = Ok (s', tr) /\ Good s' live' /\ always le1 (flat (ph :: t)) s).
    { intros s1 tr1 live1 Hr1 G1 Hls1 Hal1. destruct (IH s1 live1 G1 Hls1) as (s' & tr & live' & Hr & G' & Hal).
      exists s', (tr1 ++ tr), live'. unfold flat. cbn [map concat]. fold (flat t). split; [|split; [exact G'|]].
      - rewrite run_app, Hr1. cbn [bind fst snd]. rewrite Hr. reflexivity.
      - apply (always_app le1 _ s s1 tr1 _ Hal1 Hr1 Hal). }
    destruct ph as [|k|k|order]; cbn [lockstep] in Hls.
    + destruct (send_ok s live G) as [G1 Hal1]. apply (Hgo (fst (send s)) [ESend (nk s) (pulled s)] (nk s :: live)); auto.
    + destruct (drop_ok s live k G) as (s1 & Hd & G1 & Hnk & Hal1).
      apply (Hgo s1 [EDrop k] (filter (fun j => negb (j =? k)) live)); auto.
      * cbn [phase_ops run step]. rewrite Hd. reflexivity.
      * now rewrite Hnk.
    + destruct Hls as [Hin Hls]. apply (g_live _ _ G) in Hin. destruct (live_pos s k Hin) as [p Hp].
      destruct (pending_ok f s k p (g_inv _ _ G) Hp) as [Hpn _].
      apply (Hgo s [EPending k (pulled s - p)] live); auto.
      * cbn [phase_ops run step]. rewrite Hpn. reflexivity.
      * cbn [phase_ops always]. split; [now apply (good_le1 s live)|]. exists s, (EPending k (pulled s - p)).
        split; [cbn [step]; rewrite Hpn; reflexivity|now apply (good_le1 s live)].
    + destruct Hls as [Hperm Hls]. destruct (round_ok order s live G Hperm) as (s1 & tr1 & Hr1 & G1 & Hnk & Hal1).
      apply (Hgo s1 tr1 live); auto. now rewrite Hnk.
Qed.

Lemma lockstep_prefix : forall phs1 phs2 n live, lockstep n live (phs1 ++ phs2) -> lockstep n live phs1.
Proof. induction phs1 as [|ph t IH]; intros phs2 n live H; [exact I|].
  destruct ph; cbn [app lockstep] in *; try (destruct H as [H1 H]; split; [exact H1|]); eapply IH; exact H. Qed.

Theorem bus_lockstep_backlog_le_1 (s : st) phs : Inv s -> caught_up s ->
  lockstep (nk s) (keys (fr s)) phs ->
  (forall phs1 phs2, phs = phs1 ++ phs2 ->
     exists s1 tr1, run f (flat phs1) s = Ok (s1, tr1) /\ caught_up s1 /\ buf s1 = []) /\
  (forall pre post, flat phs = pre ++ post ->
     exists s1 tr1, run f pre s = Ok (s1, tr1) /\ length (buf s1) <= 1).
Proof.
  intros I Hup Hls.
  assert (G : Good s (keys (fr s))).
  { constructor; [exact I|exact Hup|apply (i_nodup _ _ I)|]. intros k. apply keys_lookup. }
  split.
  - intros phs1 phs2 ->. apply lockstep_prefix in Hls.
    destruct (lockstep_main phs1 s _ G Hls) as (s1 & tr1 & live1 & Hr & G1 & _).
    exists s1, tr1. split; [exact Hr|]. split; [apply G1|]. apply good_empty; apply G1.
  - intros pre post E. destruct (lockstep_main phs s _ G Hls) as (_ & _ & _ & _ & _ & Hal).
    apply (always_prefix le1 pre _ s post Hal E).
Qed.

Corollary bus_lockstep_from_init phs : lockstep 0 [] phs ->
  (forall phs1 phs2, phs = phs1 ++ phs2 ->
     exists s1 tr1, run f (flat phs1) init = Ok (s1, tr1) /\ caught_up s1 /\ buf s1 = []) /\
  (forall pre post, flat phs = pre ++ post ->
     exists s1 tr1, run f pre init = Ok (s1, tr1) /\ length (buf s1) <= 1).
Proof. intros H. apply (bus_lockstep_backlog_le_1 init phs (inv_init f)); [|exact H].
  intros k p Hp. discriminate Hp. Qed.

End BusBacklog.

(* ---- non-vacuity: 3 outputs, 4 rounds in different orders, a drop and a re-attach between rounds ---- *)
Definition ex_phs : list phase :=
  [PSend; PSend; PSend; PRound [0; 1; 2]; PRound [2; 0; 1]; PDrop 1; PPending 2; PRound [0; 2]; PSend; PRound [3; 2; 0]].

Ltac perm_by_nodup :=
  apply NoDup_Permutation;
  [repeat constructor; simpl; intuition discriminate
  |repeat constructor; simpl; intuition discriminate
  |intros x; simpl; intuition].

Example ex_lockstep : lockstep 0 [] ex_phs.
Proof. cbn. repeat split; try perm_by_nodup. now left. Qed.

Example ex_lockstep_run :
  match run (fun n => 100 + n) (flat ex_phs) init with
  | Ok (s, tr) => pulled s = 4 /\ buf s = [] /\ fr s = [(0, 0); (2, 0); (3, 0)] /\ nk s = 4 /\
                  frames_of 0 tr = [100; 101; 102; 103] /\ frames_of 1 tr = [100; 101] /\ frames_of 3 tr = [103]
  | _ => False end.
Proof. vm_compute. intuition. Qed.

(* inside the first round, after output 0 has pulled: one frame is held for outputs 1 and 2 *)
Example ex_mid_round :
  match run (fun n => 100 + n) [OSend; OSend; OSend; ONext 0; ONext 1] init with
  | Ok (s, _) => buf s = [100] /\ max_lag s = 1 /\ lags s = [0; 0; 1]
  | _ => False end.
Proof. vm_compute. auto. Qed.

Example ex_lockstep_bounds :
  (forall pre post, flat ex_phs = pre ++ post ->
     exists s1 tr1, run (fun n => 100 + n) pre init = Ok (s1, tr1) /\ length (buf s1) <= 1).
Proof. exact (proj2 (bus_lockstep_from_init (fun n => 100 + n) ex_phs ex_lockstep)). Qed.
