(* C07, the part that is logic: every model state component that stands for heap or
   caller-supplied storage keeps its size under every operation, so no operation can
   need to grow (reallocate) it.  Built on the C06 refinement theorems. *)
Require Import List Arith Lia.
From Dasp Require Import Base.Res Base.ListX Ring.Bounded Ring.BoundedSpec Ring.BoundedProofs
  Ring.Fixed Ring.FixedSpec Ring.FixedProofs.
Import ListNotations.

Section Caps.
Context {A : Type}.
Local Arguments Nat.max : simpl never.

Theorem bounded_storage_const (ops : list (op A)) (b : bounded A) : Inv b ->
  exists b' vs, run b ops = Ok (b', vs) /\ length (data b') = length (data b).
Proof.
  intros I. destruct (run_refines ops b I) as [b' [vs [H [_ [C _]]]]].
  exists b', vs. split; [exact H|exact C].
Qed.

Theorem fixed_storage_const (ops : list (fop A)) (f : fixed A) : InvF f ->
  exists f' vs, frun f ops = Ok (f', vs) /\ length (fdata f') = length (fdata f).
Proof.
  intros I. destruct (frun_refines ops f I) as [f' [vs [H [_ [C _]]]]].
  exists f', vs. split; [exact H|exact C].
Qed.

(* A growable vector as (len, cap): push reallocates exactly when len = cap.
   [pushes n] = n pushes after a clear; it reallocates iff n exceeds the capacity.
   Growth is std's RawVec::grow_amortized for elements of 2..=1024 bytes (the NodeIndex stack,
   the Input list, FixedBitSet's u32 blocks): cap' = max(4, max(2 * cap, len + 1)).  The
   theorems only use cap' >= len + 1; the exact rule matters for the capacity correspondence
   of C07 (Alloc/CapsRun.v), which compares the predicted capacities with the real ones. *)
Record vec := { vlen : nat; vcap : nat }.
Definition vclear (v : vec) : vec := {| vlen := 0; vcap := vcap v |}.
Definition vpush (v : vec) : vec * bool :=
  if vlen v <? vcap v then ({| vlen := S (vlen v); vcap := vcap v |}, false)
  else ({| vlen := S (vlen v); vcap := Nat.max 4 (Nat.max (2 * vcap v) (S (vlen v))) |}, true).
Definition vpop (v : vec) : vec := {| vlen := vlen v - 1; vcap := vcap v |}.

Inductive vop := VPush | VPop | VClear.
Definition vstep (v : vec) (o : vop) : vec * bool :=
  match o with VPush => vpush v | VPop => (vpop v, false) | VClear => (vclear v, false) end.
Fixpoint vrun (v : vec) (ops : list vop) : vec * nat :=
  match ops with
  | [] => (v, 0)
  | o :: t => let '(v1, r) := vstep v o in let '(v2, n) := vrun v1 t in (v2, (if r then 1 else 0) + n)
  end.

(* high-water mark of the length along a run *)
Fixpoint high_water (l : nat) (ops : list vop) : nat :=
  match ops with
  | [] => l
  | VPush :: t => Nat.max (S l) (high_water (S l) t)
  | VPop :: t => Nat.max l (high_water (l - 1) t)
  | VClear :: t => Nat.max l (high_water 0 t)
  end.

Lemma high_water_ge l ops : l <= high_water l ops.
Proof.
  revert l; induction ops as [|o t IH]; intros l; simpl; [lia|].
  destruct o; simpl; [pose proof (IH (S l))|pose proof (IH (l-1))|pose proof (IH 0)]; lia.
Qed.

(* no reallocation when the capacity already covers the high-water mark; capacity unchanged *)
Theorem vrun_no_realloc ops : forall v, vlen v <= vcap v -> high_water (vlen v) ops <= vcap v ->
  snd (vrun v ops) = 0 /\ vcap (fst (vrun v ops)) = vcap v /\ vlen (fst (vrun v ops)) <= vcap v.
Proof.
  induction ops as [|o t IH]; intros v Hl Hh; simpl; [auto|].
  destruct o; simpl in *.
  - unfold vpush. destruct (Nat.ltb_spec (vlen v) (vcap v)) as [H|H].
    + specialize (IH {| vlen := S (vlen v); vcap := vcap v |}). simpl in IH.
      destruct (vrun {| vlen := S (vlen v); vcap := vcap v |} t) as [v2 n] eqn:E. simpl in *.
      destruct IH as [H1 [H2 H3]]; try lia; auto.
    + pose proof (high_water_ge (S (vlen v)) t). lia.
  - specialize (IH (vpop v)). unfold vpop in *. simpl in IH.
    destruct (vrun {| vlen := vlen v - 1; vcap := vcap v |} t) as [v2 n] eqn:E. simpl in *.
    destruct IH as [H1 [H2 H3]]; try lia; auto.
  - specialize (IH (vclear v)). unfold vclear in *. simpl in IH.
    destruct (vrun {| vlen := 0; vcap := vcap v |} t) as [v2 n] eqn:E. simpl in *.
    destruct IH as [H1 [H2 H3]]; try lia; auto.
Qed.

(* after any run, the capacity covers that run's high-water mark ... *)
Lemma vrun_cap_ge ops : forall v, vlen v <= vcap v ->
  high_water (vlen v) ops <= vcap (fst (vrun v ops)) /\ vcap v <= vcap (fst (vrun v ops)) /\
  vlen (fst (vrun v ops)) <= vcap (fst (vrun v ops)).
Proof.
  induction ops as [|o t IH]; intros v Hl; [simpl; lia|].
  assert (Hstep : forall v1 r, vstep v o = (v1, r) ->
            vrun v (o :: t) = (fst (vrun v1 t), (if r then 1 else 0) + snd (vrun v1 t))).
  { intros v1 r Hs. simpl. rewrite Hs. destruct (vrun v1 t). reflexivity. }
  destruct o.
  - cbn [high_water]. unfold vstep, vpush in Hstep.
    destruct (Nat.ltb_spec (vlen v) (vcap v)) as [H|H].
    + rewrite (Hstep _ _ eq_refl). cbn [fst].
      destruct (IH {| vlen := S (vlen v); vcap := vcap v |}) as [H1 [H2 H3]]; cbn [vlen vcap] in *; lia.
    + rewrite (Hstep _ _ eq_refl). cbn [fst].
      destruct (IH {| vlen := S (vlen v); vcap := Nat.max 4 (Nat.max (2 * vcap v) (S (vlen v))) |}) as [H1 [H2 H3]];
        cbn [vlen vcap] in *; lia.
  - cbn [high_water]. rewrite (Hstep _ _ eq_refl). cbn [fst].
    destruct (IH (vpop v)) as [H1 [H2 H3]]; unfold vpop in *; cbn [vlen vcap] in *; lia.
  - cbn [high_water]. rewrite (Hstep _ _ eq_refl). cbn [fst].
    destruct (IH (vclear v)) as [H1 [H2 H3]]; unfold vclear in *; cbn [vlen vcap] in *; lia.
Qed.

(* ... hence repeating the same traversal (same push/pop/clear script, starting from an
   empty vector as `reset` leaves it) never reallocates again: steady state. *)
Theorem vrun_steady ops v : vlen v <= vcap v ->
  let v1 := fst (vrun (vclear v) ops) in
  snd (vrun (vclear v1) ops) = 0 /\ vcap (fst (vrun (vclear v1) ops)) = vcap v1.
Proof.
  intros Hl v1.
  destruct (vrun_cap_ge ops (vclear v)) as [H1 [H2 H3]]; [simpl; lia|].
  fold v1 in H1, H2, H3. simpl in H1.
  destruct (vrun_no_realloc ops (vclear v1)) as [R1 [R2 _]]; simpl; try lia. auto.
Qed.

End Caps.
