(* C07 x C09: the two growable vectors of a dasp_graph::Processor (the DfsPostOrder `stack` and
   the `inputs` list) under process calls, connected to the (len, cap) vector model of Alloc/Caps.v.

   [process_ops p g out] = (stack script, inputs script): the push/pop/clear operations that one
   `process(g, out)` call applies to the two vectors, defined along the model run of Graph/Process.v
     stack : reset -> clear; move_to -> clear, push; every iteration of `next`: either one push per
             undiscovered neighbour (first visit) or one pop
     inputs: per invoked node: clear, then one push per collected input
   Proved: the scripts do not depend on the processor's prior state (only on g and out); they are
   faithful (the vector length they produce is the model's stack length at every return of `next`,
   the inputs script is the one read off the invocation log); steady state (after one call, any
   number of further calls on the same (g, out) reallocates nothing and keeps both capacities);
   high-water bounds, hence no reallocation at all from a sufficient with_capacity. *)
Require Import List Arith Lia Bool Relations.
From Dasp Require Import Base.Res Base.ListX Graph.Dfs Graph.Process Graph.ProcessSpec Graph.DfsProofs
  Graph.ProcessProofs Graph.ExtraProofs Graph.FuelBound Alloc.Caps.
Import ListNotations.
Local Arguments Nat.max : simpl never.

(* ------------------------------------------------------------------ vectors: generic facts *)
Fixpoint len_after (l : nat) (ops : list vop) : nat :=
  match ops with
  | [] => l
  | VPush :: t => len_after (S l) t
  | VPop :: t => len_after (l - 1) t
  | VClear :: t => len_after 0 t
  end.

Lemma vrun_len ops : forall v, vlen (fst (vrun v ops)) = len_after (vlen v) ops.
Proof.
  induction ops as [|o t IH]; intros v; [reflexivity|]. cbn [vrun].
  destruct (vstep v o) as [v1 r] eqn:Hs. specialize (IH v1).
  destruct (vrun v1 t) as [v2 k]. cbn [fst] in *. rewrite IH.
  destruct o; cbn [vstep len_after] in *.
  - unfold vpush in Hs. destruct (vlen v <? vcap v); injection Hs as <- _; reflexivity.
  - injection Hs as <- _. reflexivity.
  - injection Hs as <- _. reflexivity.
Qed.

Lemma vrun_app a : forall v b,
  vrun v (a ++ b) = (fst (vrun (fst (vrun v a)) b), snd (vrun v a) + snd (vrun (fst (vrun v a)) b)).
Proof.
  induction a as [|o t IH]; intros v b; cbn [app vrun].
  - cbn [fst snd]. now destruct (vrun v b).
  - destruct (vstep v o) as [v1 r]. rewrite IH. destruct (vrun v1 t) as [v2 k]. cbn [fst snd].
    f_equal. lia.
Qed.

Lemma len_after_app a : forall l b, len_after l (a ++ b) = len_after (len_after l a) b.
Proof. induction a as [|o t IH]; intros l b; [reflexivity|]. destruct o; cbn [app len_after]; apply IH. Qed.

Lemma high_water_app a : forall l b,
  high_water l (a ++ b) = Nat.max (high_water l a) (high_water (len_after l a) b).
Proof.
  induction a as [|o t IH]; intros l b; cbn [app high_water len_after].
  - pose proof (high_water_ge l b). lia.
  - destruct o; rewrite IH; lia.
Qed.

Lemma len_after_le_hw ops : forall l, len_after l ops <= high_water l ops.
Proof.
  induction ops as [|o t IH]; intros l; cbn [len_after high_water]; [lia|].
  destruct o; [specialize (IH (S l))|specialize (IH (l - 1))|specialize (IH 0)]; lia.
Qed.

Lemma len_after_pushes k : forall l, len_after l (repeat VPush k) = l + k.
Proof. induction k as [|k IH]; intros l; cbn [repeat len_after]; [lia|]. rewrite IH. lia. Qed.

Lemma high_water_pushes k : forall l, high_water l (repeat VPush k) = l + k.
Proof.
  induction k as [|k IH]; intros l; cbn [repeat high_water]; [lia|]. rewrite IH. lia.
Qed.

(* a script that starts with a clear and whose high-water mark the capacity covers can be
   repeated any number of times without reallocation *)
Lemma no_realloc_repeat t n : forall v, vlen v <= vcap v -> high_water 0 t <= vcap v ->
  snd (vrun v (concat (repeat (VClear :: t) n))) = 0 /\
  vcap (fst (vrun v (concat (repeat (VClear :: t) n)))) = vcap v.
Proof.
  induction n as [|n IH]; intros v Hl Hh; cbn [repeat concat]; [auto|].
  rewrite vrun_app. cbn [fst snd].
  destruct (vrun_no_realloc (VClear :: t) v Hl) as (R1 & R2 & R3).
  { cbn [high_water]. lia. }
  destruct (IH (fst (vrun v (VClear :: t)))) as [I1 I2]; [lia|lia|]. rewrite I1, I2. split; [lia|assumption].
Qed.

Lemma steady_repeat t v n : vlen v <= vcap v ->
  let v1 := fst (vrun v (VClear :: t)) in
  snd (vrun v1 (concat (repeat (VClear :: t) n))) = 0 /\
  vcap (fst (vrun v1 (concat (repeat (VClear :: t) n)))) = vcap v1.
Proof.
  intros Hl v1.
  assert (E : v1 = fst (vrun (vclear v) t)).
  { unfold v1. cbn [vrun vstep]. now destruct (vrun (vclear v) t). }
  destruct (vrun_cap_ge t (vclear v)) as (H1 & H2 & H3); [cbn; lia|]. rewrite <- E in *. cbn [vclear vlen] in H1.
  apply no_realloc_repeat; assumption.
Qed.

Lemma map_all_eq {A C} (f : A -> C) (c : C) l : (forall a, In a l -> f a = c) -> map f l = repeat c (length l).
Proof.
  induction l as [|a l IH]; intros H; [reflexivity|]. cbn [map length repeat].
  rewrite (H a (or_introl eq_refl)), IH; [reflexivity|]. intros x Hx. apply H. now right.
Qed.

(* ------------------------------------------------------------------ the scripts *)
Section Scripts.
Context {W B : Type}.
Variable bufs : W -> B.
Variable nproc : W -> list B -> W.

Notation graph := (graph W).
Notation process_loop := (process_loop bufs nproc).
Notation process := (process bufs nproc).

(* one iteration of the `next` loop on the stack vector *)
Definition step_ops (succ : nat -> list nat) (s : st) : list vop :=
  match stack s with
  | [] => []
  | x :: _ =>
    if mem x (disc s) then [VPop]
    else repeat VPush (length (filter (fun w => negb (mem w (x :: disc s))) (succ x)))
  end.

(* one call of `next` (same recursion as Dfs.next) *)
Fixpoint next_ops (succ : nat -> list nat) (fuel cap : nat) (s : st) : list vop :=
  match fuel with
  | O => []
  | S k =>
    match step succ cap s with
    | Ok (Some (s', None)) => step_ops succ s ++ next_ops succ k cap s'
    | Ok (Some (_, Some _)) => step_ops succ s
    | _ => []
    end
  end.

(* the process loop (same recursion as Process.process_loop): (stack script, inputs script) *)
Fixpoint loop_ops (fuel F : nat) (p : processor) (g : graph) : list vop * list vop :=
  match fuel with
  | O => ([], [])
  | S k =>
    let so := next_ops (neighbors_in g) F (cap p) (dfs p) in
    match next (neighbors_in g) F (cap p) (dfs p) with
    | Ok (s', Some n) =>
      match weight g n with
      | None => (so, [])
      | Some w =>
        match collect bufs g n (neighbors_in g n) with
        | Ok ins =>
          let r := loop_ops k F {| dfs := s'; cap := cap p |} (set_weight g n (nproc w (map snd ins))) in
          (so ++ fst r, VClear :: repeat VPush (length ins) ++ snd r)
        | _ => (so, [VClear])
        end
      end
    | _ => (so, [])
    end
  end.

(* reset: stack.clear(); move_to: stack.clear(), stack.push(start); then the loop *)
Definition process_ops (p : processor) (g : graph) (out : nat) : list vop * list vop :=
  let r := loop_ops (fuel_of g) (fuel_of g) (move_to out (reset p g)) g in
  (VClear :: VClear :: VPush :: fst r, snd r).

(* the inputs script read off an invocation log *)
Definition inputs_script (log : list (invocation B)) : list vop :=
  flat_map (fun i => VClear :: repeat VPush (length (from i))) log.

Definition max_in_degree (g : graph) : nat :=
  fold_right (fun u acc => Nat.max (length (neighbors_in g u)) acc) 0 (seq 0 (length (slots g))).

(* ---------------- faithfulness: stack ---------------- *)
Lemma step_ops_len succ s sr : step_core succ s = Some sr ->
  len_after (length (stack s)) (step_ops succ s) = length (stack (fst sr)) /\
  high_water (length (stack s)) (step_ops succ s) = Nat.max (length (stack s)) (length (stack (fst sr))).
Proof.
  unfold step_core, step_ops. destruct (stack s) as [|x r]; [discriminate|].
  destruct (mem x (disc s)); intros [= <-]; cbn [fst stack].
  - cbn [len_after high_water length]. split; lia.
  - rewrite len_after_pushes, high_water_pushes, app_length, rev_length. unfold mem. cbn [existsb length]. split; lia.
Qed.

Lemma next_ops_len succ fuel cap : forall s s' r, next succ fuel cap s = Ok (s', r) ->
  len_after (length (stack s)) (next_ops succ fuel cap s) = length (stack s').
Proof.
  induction fuel as [|k IH]; intros s s' r; cbn [next next_ops]; [discriminate|].
  unfold step. destruct (stack s) as [|x rr] eqn:Hst.
  - intros [= <- _]. now rewrite Hst.
  - destruct (x <? cap); [|discriminate].
    destruct (step_core succ s) as [[s1 [y|]]|] eqn:Hs.
    + intros [= <- _]. rewrite <- Hst. apply (step_ops_len succ s _ Hs).
    + intros Hn. rewrite len_after_app, <- Hst. rewrite (proj1 (step_ops_len succ s _ Hs)). cbn [fst].
      eapply IH; eauto.
    + pose proof (proj1 (step_none succ 0 s) Hs). congruence.
Qed.

Lemma loop_ops_faithful : forall k F p g log p' g' log',
  process_loop k F p g log = Ok (p', g', log') ->
  len_after (length (stack (dfs p))) (fst (loop_ops k F p g)) = length (stack (dfs p')) /\
  exists l2, log' = rev log ++ l2 /\ snd (loop_ops k F p g) = inputs_script l2.
Proof.
  induction k as [|k IH]; intros F p g log p' g' log'; cbn [Process.process_loop loop_ops]; [discriminate|].
  destruct (next (neighbors_in g) F (cap p) (dfs p)) as [[s' r]| |] eqn:Hn; cbn [bind fst snd]; try discriminate.
  pose proof (next_ops_len _ _ _ _ _ _ Hn) as Hlen.
  destruct r as [x|].
  - destruct (weight g x) as [w|]; [|discriminate].
    destruct (collect bufs g x (neighbors_in g x)) as [ins0| |]; cbn [bind]; try discriminate.
    intros Hp. destruct (IH _ _ _ _ _ _ _ Hp) as [H1 (l2 & H2 & H3)]. cbn [dfs] in H1.
    cbn [fst snd]. split.
    + now rewrite len_after_app, Hlen.
    + exists ({| who := x; from := map fst ins0; seen := map snd ins0 |} :: l2). split.
      * rewrite H2. cbn [rev]. now rewrite <- app_assoc.
      * rewrite H3. cbn [inputs_script flat_map from]. now rewrite map_length.
  - intros [= <- _ <-]. cbn [fst snd dfs]. split; [exact Hlen|]. exists []. now rewrite app_nil_r.
Qed.

(* the scripts are faithful to the model run: the stack vector ends with the model's stack
   length (whatever it held before), the inputs script is the one of the invocation log *)
Theorem process_ops_faithful p (g : graph) out p' g' log : process p g out = Ok (p', g', log) ->
  (forall l0, len_after l0 (fst (process_ops p g out)) = length (stack (dfs p'))) /\
  snd (process_ops p g out) = inputs_script log.
Proof.
  unfold Process.process, process_ops. intros Hp.
  destruct (loop_ops_faithful _ _ _ _ _ _ _ _ Hp) as [H1 (l2 & H2 & H3)]. cbn [fst snd]. split.
  - intros l0. cbn [len_after]. exact H1.
  - cbn [rev app] in H2. now rewrite H3, H2.
Qed.

(* ---------------- independence from the processor's prior state ---------------- *)
Section Indep.
Variable g0 : graph.
Hypothesis Hwf : wf g0.
Let succ0 := neighbors_in g0.
Let univ := node_identifiers g0.

Lemma nbrs_live x y : In y (neighbors_in g0 x) -> live g0 y = true.
Proof.
  unfold neighbors_in. destruct (live g0 x); [|intros []].
  intros H. apply in_map_iff in H. destruct H as [[a b] [<- H]]. apply filter_In in H.
  destruct H as [H _]. apply in_rev in H. apply (Hwf a b H).
Qed.

Lemma univ_closed0 : forall x y, In x univ -> In y (succ0 x) -> In y univ.
Proof. intros x y _ Hy. apply in_node_identifiers. now apply nbrs_live in Hy. Qed.

Lemma step_core_pt succ1 succ2 s : (forall x, succ1 x = succ2 x) -> step_core succ1 s = step_core succ2 s.
Proof. intros H. unfold step_core. destruct (stack s); [reflexivity|]. now rewrite H. Qed.

Lemma step_ops_pt succ1 succ2 s : (forall x, succ1 x = succ2 x) -> step_ops succ1 s = step_ops succ2 s.
Proof. intros H. unfold step_ops. destruct (stack s); [reflexivity|]. now rewrite H. Qed.

Lemma next_ops_pt succ1 succ2 fuel c : (forall x, succ1 x = succ2 x) ->
  forall s, next_ops succ1 fuel c s = next_ops succ2 fuel c s.
Proof.
  intros H. induction fuel as [|k IH]; intros s; [reflexivity|]. cbn [next_ops]. unfold step.
  rewrite (step_core_pt succ1 succ2 s H), (step_ops_pt succ1 succ2 s H).
  destruct (stack s); [reflexivity|]. destruct (_ <? _); [|reflexivity].
  destruct (step_core succ2 s) as [[s1 [x|]]|]; try reflexivity. now rewrite IH.
Qed.

Lemma next_pt succ1 succ2 fuel c : (forall x, succ1 x = succ2 x) ->
  forall s, next succ1 fuel c s = next succ2 fuel c s.
Proof. intros H. apply next_ext_step. intros s. now apply step_core_pt. Qed.

Variables c1 c2 : nat.
Hypothesis cap1 : forall x, live g0 x = true -> x < c1.
Hypothesis cap2 : forall x, live g0 x = true -> x < c2.

Lemma ucap1 : forall x, In x univ -> x < c1.
Proof. intros x Hx. apply cap1. now apply in_node_identifiers. Qed.
Lemma ucap2 : forall x, In x univ -> x < c2.
Proof. intros x Hx. apply cap2. now apply in_node_identifiers. Qed.

Lemma next_ops_cap fuel : forall s, in_univ univ s -> next_ops succ0 fuel c1 s = next_ops succ0 fuel c2 s.
Proof.
  induction fuel as [|k IH]; intros s HU; [reflexivity|]. cbn [next_ops].
  rewrite (step_in_range succ0 univ c1 ucap1 s HU), (step_in_range succ0 univ c2 ucap2 s HU).
  destruct (step_core succ0 s) as [[s1 [x|]]|] eqn:Hs; try reflexivity.
  rewrite IH; [reflexivity|]. apply (step_decreases succ0 univ univ_closed0 s _ HU Hs).
Qed.

Lemma loop_ops_cap F : forall k s (g : graph), same_shape g0 g -> in_univ univ s ->
  loop_ops k F {| dfs := s; cap := c1 |} g = loop_ops k F {| dfs := s; cap := c2 |} g.
Proof.
  induction k as [|k IH]; intros s g Hs HU; [reflexivity|]. cbn [loop_ops cap dfs].
  pose proof (shape_nbrs _ _ Hs) as Hn.
  rewrite !(next_pt (neighbors_in g) succ0 F _ Hn), !(next_ops_pt (neighbors_in g) succ0 F _ Hn).
  rewrite (next_cap succ0 univ univ_closed0 c1 c2 ucap1 ucap2 F s HU), (next_ops_cap F s HU).
  destruct (next succ0 F c2 s) as [[s' [x|]]| |] eqn:Hnx; try reflexivity.
  destruct (weight g x) as [w|] eqn:Hw; [|reflexivity].
  destruct (collect bufs g x (neighbors_in g x)) as [ins0| |]; try reflexivity.
  rewrite IH; [reflexivity| |].
  - apply shape_set_weight; [assumption|]. apply live_weight. eauto.
  - eapply next_in_univ; [apply univ_closed0|exact HU|exact Hnx].
Qed.
End Indep.

(* (1) the scripts of a call depend on the graph and the output node only *)
Theorem process_ops_indep p1 p2 (g : graph) out : wf g -> live g out = true ->
  process_ops p1 g out = process_ops p2 g out.
Proof.
  intros Hwf Hout. unfold process_ops.
  rewrite (loop_ops_cap g Hwf (Nat.max (cap p1) (node_bound g)) (Nat.max (cap p2) (node_bound g)))
    with (s := init out); [reflexivity| | | |].
  - intros x Hx. apply live_bound in Hx. lia.
  - intros x Hx. apply live_bound in Hx. lia.
  - apply shape_refl.
  - intros x [<-|[]]. now apply in_node_identifiers.
Qed.

(* ---------------- (3) high-water bounds ---------------- *)
Section Bounds.
Variable g0 : graph.
Hypothesis Hwf : wf g0.
Let succ0 := neighbors_in g0.
Let univ := node_identifiers g0.
Variable c : nat.
Hypothesis capc : forall x, live g0 x = true -> x < c.

Lemma stack_le_mu s : length (stack s) <= mu succ0 univ s.
Proof. unfold mu. lia. Qed.

Lemma next_mu fuel : forall s s' r, in_univ univ s -> next succ0 fuel c s = Ok (s', r) ->
  mu succ0 univ s' <= mu succ0 univ s.
Proof.
  induction fuel as [|k IH]; intros s s' r HU; cbn [next]; [discriminate|].
  rewrite (step_in_range succ0 univ c (ucap1 g0 c capc) s HU).
  destruct (step_core succ0 s) as [[s1 r1]|] eqn:Hs.
  - pose proof (step_decreases succ0 univ (univ_closed0 g0 Hwf) s _ HU Hs) as [HU1 Hlt]. cbn [fst] in *.
    destruct r1.
    + intros [= <- _]. lia.
    + intros Hn. specialize (IH _ _ _ HU1 Hn). lia.
  - intros [= <- _]. lia.
Qed.

Lemma next_ops_hw fuel : forall s, in_univ univ s ->
  high_water (length (stack s)) (next_ops succ0 fuel c s) <= mu succ0 univ s.
Proof.
  induction fuel as [|k IH]; intros s HU; cbn [next_ops high_water]; [apply stack_le_mu|].
  rewrite (step_in_range succ0 univ c (ucap1 g0 c capc) s HU).
  destruct (step_core succ0 s) as [[s1 r1]|] eqn:Hs; [|apply stack_le_mu].
  pose proof (step_decreases succ0 univ (univ_closed0 g0 Hwf) s _ HU Hs) as [HU1 Hlt].
  pose proof (step_ops_len succ0 s _ Hs) as [L1 L2]. cbn [fst] in *.
  pose proof (stack_le_mu s). pose proof (stack_le_mu s1).
  destruct r1.
  - rewrite L2. lia.
  - rewrite high_water_app, L1, L2. specialize (IH s1 HU1). lia.
Qed.

Lemma loop_ops_hw F : forall k p (g : graph), same_shape g0 g -> cap p = c -> in_univ univ (dfs p) ->
  high_water (length (stack (dfs p))) (fst (loop_ops k F p g)) <= mu succ0 univ (dfs p).
Proof.
  induction k as [|k IH]; intros p g Hs Hc HU; cbn [loop_ops]; [cbn; apply stack_le_mu|].
  pose proof (shape_nbrs _ _ Hs) as Hn. rewrite Hc.
  rewrite !(next_pt (neighbors_in g) succ0 F _ Hn), !(next_ops_pt (neighbors_in g) succ0 F _ Hn).
  pose proof (next_ops_hw F (dfs p) HU) as Hso.
  destruct (next succ0 F c (dfs p)) as [[s' [x|]]| |] eqn:Hnx; cbn [fst]; try exact Hso.
  destruct (weight g x) as [w|] eqn:Hw; cbn [fst]; [|exact Hso].
  destruct (collect bufs g x (neighbors_in g x)) as [ins0| |]; cbn [fst]; try exact Hso.
  rewrite high_water_app.
  assert (Hl : len_after (length (stack (dfs p))) (next_ops succ0 F c (dfs p)) = length (stack s')).
  { eapply next_ops_len; eauto. }
  rewrite Hl.
  pose proof (next_mu F _ _ _ HU Hnx) as Hmu.
  assert (HU' : in_univ univ s').
  { eapply next_in_univ; [apply (univ_closed0 g0 Hwf)|exact HU|exact Hnx]. }
  specialize (IH {| dfs := s'; cap := c |} (set_weight g x (nproc w (map snd ins0)))).
  cbn [dfs cap] in IH.
  assert (H := IH (shape_set_weight _ _ _ _ Hs (proj2 (live_weight g x) (ex_intro _ w Hw))) eq_refl HU').
  lia.
Qed.
End Bounds.

Lemma mu_init_nbrs (g : graph) out : mu (neighbors_in g) (node_identifiers g) (init out) < fuel_of g.
Proof.
  unfold fuel_of.
  change (fold_right (fun u acc => S (length (neighbors_in g u)) + acc) 0 (seq 0 (length (slots g))))
    with (wsum (neighbors_in g) (seq 0 (length (slots g)))).
  unfold mu, init, white; cbn [stack disc length].
  pose proof (wsum_filter_le (neighbors_in g) (fun u => negb (mem u [])) (node_identifiers g)) as H1.
  pose proof (wsum_filter_le (neighbors_in g) (live g) (seq 0 (length (slots g)))) as H2.
  unfold node_identifiers in *. lia.
Qed.

(* the stack never holds more than fuel_of g - 1 <= 1 + |V| + |E| entries *)
Theorem stack_high_water p (g : graph) out : wf g -> live g out = true ->
  high_water 0 (fst (process_ops p g out)) < fuel_of g /\
  high_water 0 (fst (process_ops p g out)) <= 1 + length (slots g) + length (edges g).
Proof.
  intros Hwf Hout.
  assert (H : high_water 0 (fst (process_ops p g out)) < fuel_of g).
  { unfold process_ops. cbn [fst high_water].
    pose proof (loop_ops_hw g Hwf (Nat.max (cap p) (node_bound g))) as Hh.
    specialize (Hh (fun x Hx => Nat.lt_le_trans _ _ _ (live_bound g x Hx) (Nat.le_max_r _ _))).
    specialize (Hh (fuel_of g) (fuel_of g) (move_to out (reset p g)) g (shape_refl g) eq_refl).
    cbn [move_to reset dfs stack length st_empty disc fin] in Hh.
    assert (HU : in_univ (node_identifiers g) (init out)).
    { intros x [<-|[]]. now apply in_node_identifiers. }
    specialize (Hh HU). pose proof (mu_init_nbrs g out).
    pose proof (high_water_ge 1 (fst (loop_ops (fuel_of g) (fuel_of g) (move_to out (reset p g)) g))).
    unfold init in *. lia. }
  split; [exact H|]. pose proof (fuel_bound g). lia.
Qed.

Lemma max_in_degree_ge (g : graph) v : v < length (slots g) -> length (neighbors_in g v) <= max_in_degree g.
Proof.
  unfold max_in_degree. intros Hv.
  assert (Hin : In v (seq 0 (length (slots g)))) by (apply in_seq; lia).
  induction (seq 0 (length (slots g))) as [|a l IH]; [destruct Hin|]. cbn [fold_right].
  destruct Hin as [->|Hin]; [lia|]. specialize (IH Hin). lia.
Qed.

Lemma inputs_script_hw (log : list (invocation B)) M : (forall i, In i log -> length (from i) <= M) ->
  forall l, high_water l (inputs_script log) <= Nat.max l M.
Proof.
  induction log as [|i t IH]; intros H l; cbn [inputs_script flat_map high_water app]; [lia|].
  rewrite high_water_app, high_water_pushes, len_after_pushes.
  pose proof (H i (or_introl eq_refl)).
  specialize (IH (fun j Hj => H j (or_intror Hj)) (0 + length (from i))).
  change (flat_map (fun i0 => VClear :: repeat VPush (length (from i0))) t) with (inputs_script t). lia.
Qed.

(* the inputs list never holds more than the largest in-degree (<= |E|) entries *)
Theorem inputs_high_water p (g : graph) out : wf g -> live g out = true ->
  high_water 0 (snd (process_ops p g out)) <= max_in_degree g.
Proof.
  intros Hwf Hout.
  destruct (process_terminates bufs nproc p g out Hwf Hout) as (p' & g' & log & Hp).
  rewrite (proj2 (process_ops_faithful p g out p' g' log Hp)).
  eapply Nat.le_trans; [apply inputs_script_hw with (M := max_in_degree g)|lia].
  intros i Hi. apply in_split in Hi. destruct Hi as (L1 & L2 & Heq).
  destruct (process_inputs bufs nproc p g out p' g' log Hwf Hout Hp) as [_ H].
  destruct (H L1 i L2 Heq) as (Hf & _). rewrite Hf.
  assert (Hlive : live g (who i) = true).
  { destruct (process_order bufs nproc p g out p' g' log Hwf Hout Hp) as [Hup _].
    eapply upstream_live; [exact Hwf|exact Hout|]. apply Hup. rewrite Heq, map_app. apply in_or_app.
    right. now left. }
  eapply Nat.le_trans; [apply (ins_length_le g (who i) Hwf)|].
  apply max_in_degree_ge. now apply live_lt.
Qed.

(* ---------------- (2) steady state ---------------- *)
(* the operations a sequence of process calls on the same (g, out), made with processors in
   arbitrary states [ps], applies to the stack vector / to the inputs vector *)
Definition stack_calls (ps : list processor) (g : graph) (out : nat) : list vop :=
  concat (map (fun p => fst (process_ops p g out)) ps).
Definition inputs_calls (ps : list processor) (g : graph) (out : nat) : list vop :=
  concat (map (fun p => snd (process_ops p g out)) ps).

Lemma inputs_ops_clear p (g : graph) out : wf g -> live g out = true ->
  exists t, snd (process_ops p g out) = VClear :: t.
Proof.
  intros Hwf Hout.
  destruct (process_terminates bufs nproc p g out Hwf Hout) as (p' & g' & log & Hp).
  rewrite (proj2 (process_ops_faithful p g out p' g' log Hp)).
  destruct (process_order bufs nproc p g out p' g' log Hwf Hout Hp) as [Hup _].
  destruct log as [|i t]; [|cbn; eauto].
  exfalso. apply (proj2 (Hup out)). apply rt_refl.
Qed.

(* after ONE process call (from any vectors with len <= cap, any processor state), any number
   of further calls on the same graph and output node, whatever the processor states, reallocate
   neither vector and leave both capacities as the first call left them *)
Theorem processor_steady p0 (ps : list processor) (g : graph) out (vs vi : vec) :
  wf g -> live g out = true -> vlen vs <= vcap vs -> vlen vi <= vcap vi ->
  let vs1 := fst (vrun vs (fst (process_ops p0 g out))) in
  let vi1 := fst (vrun vi (snd (process_ops p0 g out))) in
  snd (vrun vs1 (stack_calls ps g out)) = 0 /\
  vcap (fst (vrun vs1 (stack_calls ps g out))) = vcap vs1 /\
  snd (vrun vi1 (inputs_calls ps g out)) = 0 /\
  vcap (fst (vrun vi1 (inputs_calls ps g out))) = vcap vi1.
Proof.
  intros Hwf Hout Hs Hi vs1 vi1. unfold stack_calls, inputs_calls.
  rewrite (map_all_eq (fun p => fst (process_ops p g out)) (fst (process_ops p0 g out)) ps)
    by (intros p _; now rewrite (process_ops_indep p p0 g out Hwf Hout)).
  rewrite (map_all_eq (fun p => snd (process_ops p g out)) (snd (process_ops p0 g out)) ps)
    by (intros p _; now rewrite (process_ops_indep p p0 g out Hwf Hout)).
  destruct (inputs_ops_clear p0 g out Hwf Hout) as [ti Hti].
  subst vs1 vi1. rewrite Hti.
  assert (Hts : exists ts, fst (process_ops p0 g out) = VClear :: ts) by (unfold process_ops; cbn [fst]; eauto).
  destruct Hts as [ts Hts]. rewrite Hts.
  destruct (steady_repeat ts vs (length ps) Hs) as [A1 A2].
  destruct (steady_repeat ti vi (length ps) Hi) as [B1 B2]. auto.
Qed.

(* Processor::with_capacity(n) with n covering the bounds: no call ever reallocates *)
Theorem with_capacity_no_realloc (ps : list processor) (g : graph) out n :
  wf g -> live g out = true -> fuel_of g <= S n -> max_in_degree g <= n ->
  snd (vrun {| vlen := 0; vcap := n |} (stack_calls ps g out)) = 0 /\
  vcap (fst (vrun {| vlen := 0; vcap := n |} (stack_calls ps g out))) = n /\
  snd (vrun {| vlen := 0; vcap := n |} (inputs_calls ps g out)) = 0 /\
  vcap (fst (vrun {| vlen := 0; vcap := n |} (inputs_calls ps g out))) = n.
Proof.
  intros Hwf Hout Hn Hd. unfold stack_calls, inputs_calls.
  destruct ps as [|p0 ps0]; [cbn; auto|]. set (ps := p0 :: ps0).
  rewrite (map_all_eq (fun p => fst (process_ops p g out)) (fst (process_ops p0 g out)) ps)
    by (intros p _; now rewrite (process_ops_indep p p0 g out Hwf Hout)).
  rewrite (map_all_eq (fun p => snd (process_ops p g out)) (snd (process_ops p0 g out)) ps)
    by (intros p _; now rewrite (process_ops_indep p p0 g out Hwf Hout)).
  pose proof (stack_high_water p0 g out Hwf Hout) as [Hs _].
  pose proof (inputs_high_water p0 g out Hwf Hout) as Hi.
  destruct (inputs_ops_clear p0 g out Hwf Hout) as [ti Hti]. rewrite Hti in *.
  assert (Hts : exists ts, fst (process_ops p0 g out) = VClear :: ts) by (unfold process_ops; cbn [fst]; eauto).
  destruct Hts as [ts Hts]. rewrite Hts in *. cbn [high_water] in Hs, Hi.
  destruct (no_realloc_repeat ts (length ps) {| vlen := 0; vcap := n |}) as [A1 A2]; cbn [vlen vcap]; try lia.
  destruct (no_realloc_repeat ti (length ps) {| vlen := 0; vcap := n |}) as [B1 B2]; cbn [vlen vcap]; try lia.
  cbn [vcap] in A2, B2. auto.
Qed.

End Scripts.
