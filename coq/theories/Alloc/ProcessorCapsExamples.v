(* Non-vacuity for Alloc/ProcessorCaps.v on the diamond 0 -> 1 -> 3, 0 -> 2 -> 3 of
   Graph/GraphExamples.v, and the axiom audit of its theorems. *)
Require Import List ZArith Arith Lia.
From Dasp Require Import Base.Res Graph.Dfs Graph.Process Graph.ProcessSpec Graph.GraphRun
  Graph.GraphExamples Alloc.Caps Alloc.ProcessorCaps.
Import ListNotations.

Definition d_ops := process_ops zbufs znproc new_processor diamond 3.

(* the scripts of one call: reset/move_to, then discover 3 (push 2, 1), discover 1 (push 0),
   discover 0, pop 0, pop 1, discover 2 (0 already discovered), pop 2, pop 3;
   inputs: node 0 none, nodes 1 and 2 one each, node 3 two *)
Example diamond_scripts :
  fst d_ops = [VClear; VClear; VPush; VPush; VPush; VPush; VPop; VPop; VPop; VPop] /\
  snd d_ops = [VClear; VClear; VPush; VClear; VPush; VClear; VPush; VPush].
Proof. vm_compute. split; reflexivity. Qed.

Example diamond_high_water :
  high_water 0 (fst d_ops) = 4 /\ high_water 0 (snd d_ops) = 2 /\
  max_in_degree diamond = 2 /\ fuel_of diamond = 10.
Proof. vm_compute. repeat split; reflexivity. Qed.

(* a processor built with capacity 0 (Vec::new): the first call grows both vectors (once each:
   std's first allocation holds 4 elements), every
   later call, from a processor left in any state, reallocates nothing *)
Definition dirty : processor :=
  {| dfs := {| stack := [7; 7; 2]; disc := [0; 1; 2; 3]; fin := [3; 1] |}; cap := 2 |}.

Example diamond_first_call_grows :
  snd (vrun {| vlen := 0; vcap := 0 |} (fst d_ops)) = 1 /\
  vcap (fst (vrun {| vlen := 0; vcap := 0 |} (fst d_ops))) = 4 /\
  snd (vrun {| vlen := 0; vcap := 0 |} (snd d_ops)) = 1 /\
  vcap (fst (vrun {| vlen := 0; vcap := 0 |} (snd d_ops))) = 4.
Proof. vm_compute. repeat split; reflexivity. Qed.

Example diamond_steady :
  let vs1 := fst (vrun {| vlen := 0; vcap := 0 |} (fst d_ops)) in
  let vi1 := fst (vrun {| vlen := 0; vcap := 0 |} (snd d_ops)) in
  let ps := [dirty; new_processor; dirty] in
  snd (vrun vs1 (stack_calls zbufs znproc ps diamond 3)) = 0 /\
  vcap (fst (vrun vs1 (stack_calls zbufs znproc ps diamond 3))) = vcap vs1 /\
  snd (vrun vi1 (inputs_calls zbufs znproc ps diamond 3)) = 0 /\
  vcap (fst (vrun vi1 (inputs_calls zbufs znproc ps diamond 3))) = vcap vi1.
Proof.
  exact (processor_steady zbufs znproc new_processor [dirty; new_processor; dirty] diamond 3
           {| vlen := 0; vcap := 0 |} {| vlen := 0; vcap := 0 |} diamond_wf diamond_live
           (Nat.le_refl 0) (Nat.le_refl 0)).
Qed.

(* the same by computation, and the hypotheses of with_capacity_no_realloc are satisfiable *)
Example diamond_steady_computed :
  stack_calls zbufs znproc [dirty; new_processor] diamond 3 = fst d_ops ++ fst d_ops /\
  fuel_of diamond <= S 9 /\ max_in_degree diamond <= 9.
Proof. vm_compute. repeat split; auto; lia. Qed.

Print Assumptions process_ops_indep.
Print Assumptions process_ops_faithful.
Print Assumptions processor_steady.
Print Assumptions stack_high_water.
Print Assumptions inputs_high_water.
Print Assumptions with_capacity_no_realloc.
