(* Non-vacuity for the translator tie: the GENERATED methods (gen/RingGen.v) run on the concrete
   non-trivial states of Ring/RingExamples.v, the hypotheses of the c06_gen_* history theorems are met by
   them, and the method-by-method equalities are exercised on invalid states too (same UB, same panic). *)
Require Import List ZArith Arith Lia.
From Dasp Require Import Base.Res Base.ListX Ring.Bounded Ring.BoundedSpec Ring.BoundedProofs
  Ring.Fixed Ring.FixedSpec Ring.FixedProofs Ring.RingPrim Ring.RingGenGlue Ring.RingExamples.
From DaspGen Require Import RingGen RingGenCk.
Import ListNotations.

(* the wrapped buffer (capacity 3, start 2, live 30 then 10) through the interpreter over the generated methods *)
Example ex_gen_run :
  match gen_run ex_b [OPush 7; OPush 8; OGet 0; OPop; OSlices; OMap (Z.add 1); OIter; ODrain 1]%Z with
  | Ok (b, vs) => abs b = [9]%Z /\
      vs = [VOpt None; VOpt (Some 30); VOpt (Some 10); VOpt (Some 10); VPair [7; 8] []; VUnit; VList [8; 9]; VList [8]]%Z
  | _ => False
  end.
Proof. vm_compute. split; reflexivity. Qed.

(* what slices_mut / iter_mut return for it: the region after `start`, then the wrapped prefix *)
Example ex_gen_slices_mut : Bounded_slices_mut ex_b = Ok (ex_b, ((2, 1), (0, 1))).
Proof. reflexivity. Qed.
Example ex_gen_iter_mut : Bounded_iter_mut ex_b = Ok (ex_b, [2; 0]).
Proof. reflexivity. Qed.
Example ex_gen_get_mut : Bounded_get_mut ex_b 1 = Ok (ex_b, Some 0) /\ Bounded_get_mut ex_b 2 = Ok (ex_b, None).
Proof. split; reflexivity. Qed.

(* the fixed buffer with first = 1: delay line over the generated push, looping iterator, mutable view *)
Example ex_gen_delay :
  match gen_fpushes [7; 8; 9; 10]%Z ex_f with Ok (_, outs) => outs = [2; 3; 1; 7]%Z | _ => False end.
Proof. vm_compute. reflexivity. Qed.
Example ex_gen_frun :
  match gen_frun ex_f [FGet 4; FSet 5 50; FSetFirst 5; FIterLoop 4; FMap (Z.add 1); FSlices]%Z with
  | Ok (f, vs) => first f = 2 /\ vs = [VVal 3; VUnit; VUnit; VList [3; 50; 2; 3]; VList [3; 50; 2]; VPair [4] [51; 3]]%Z
  | _ => False
  end.
Proof. vm_compute. split; reflexivity. Qed.
Example ex_gen_fiter_mut : Fixed_iter_mut ex_f = Ok (ex_f, [1; 2; 0]).
Proof. reflexivity. Qed.

(* the equalities of c06_gen_*_agrees are about ALL inputs: invalid states give the same UB / panic on both sides *)
Definition ex_bad : bounded Z := {| start := 5; len := 3; data := [1; 2; 3]%Z |}.
Example ex_gen_invalid_ub : Bounded_push ex_bad 9%Z = UB /\ push ex_bad 9%Z = UB.
Proof. split; reflexivity. Qed.
Example ex_gen_invalid_panic : Bounded_slices ex_bad = Panic PIndex /\ slices ex_bad = Panic PIndex.
Proof. split; reflexivity. Qed.
Example ex_gen_underflow_guarded :
  (* `self.len - start.len()` is only reached when start.len() <= self.len: no overflow panic even here *)
  Bounded_slices {| start := 1; len := 0; data := [1; 2; 3]%Z |} = Ok ([], []).
Proof. reflexivity. Qed.
Example ex_gen_div_zero :
  Fixed_get {| first := 0; fdata := @nil Z |} 0 = Panic PDivZero /\ fget {| first := 0; fdata := @nil Z |} 0 = Panic PDivZero.
Proof. split; reflexivity. Qed.
Example ex_gen_ctor : Bounded_from_raw_parts 3 0 [1; 2; 3]%Z = Panic PAssert /\ Fixed_from (@nil Z) = Panic PAssert.
Proof. split; reflexivity. Qed.

(* c06_gen_no_index_overflow: its hypotheses are met (modulus 6, the wrapped buffer of capacity 3 and the delay line of
   length 3), the checked reading really panics beyond them (capacity 3 under modulus 4: start + len = 2 + 2 reaches it) *)
Example ex_gen_ck_fits : Inv ex_b /\ 2 * max_len ex_b <= 6 /\ InvF ex_f /\ 2 * flen ex_f <= 6.
Proof. unfold Inv, InvF, max_len, flen; cbn; lia. Qed.
Example ex_gen_ck_runs : Fixed_get_ck 6 ex_f 5 = Ok 1%Z /\ Bounded_get_ck 6 ex_b 1 = Ok (Some 10%Z).
Proof. split; reflexivity. Qed.
Example ex_gen_ck_panics_outside :
  Bounded_push_ck 4 ex_b 7%Z = Panic POverflow /\ exists r, Bounded_push ex_b 7%Z = Ok r.
Proof. split; [reflexivity|eexists; reflexivity]. Qed.
