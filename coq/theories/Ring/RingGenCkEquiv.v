(* The 64-bit reading of the GENERATED methods (gen/RingGenCk.v: every usize `+`, `*`, `+=` panics when the result
   reaches the modulus M) agrees with the unbounded reading (gen/RingGen.v) in every valid state over storage of
   at most M/2 elements, for EVERY argument -- i.e. no index addition the source performs can overflow (with
   overflow checks: no panic; without: no wrap, the sum is below M).  With M = 2^64 the storage bound is what
   Rust guarantees of every slice of a non-zero-sized type (at most isize::MAX bytes).
   The form of Fixed::get before /repo daaa156, `(self.first + index) % self.len()`, does not pass: its lemma
   below needs first + index < M, false for indices within `first` of M (defect F9). *)
Require Import List Arith Bool Lia.
From Dasp Require Import Base.Res Base.ListX Ring.Bounded Ring.BoundedSpec Ring.BoundedProofs
  Ring.Fixed Ring.FixedSpec Ring.FixedProofs Ring.RingPrim Ring.RingGenGlue Ring.RingGenEquiv.
From DaspGen Require Import RingGen RingGenCk.
Import ListNotations.

Ltac mod_bounds :=
  repeat match goal with
  | |- context [?a mod ?n] =>
      lazymatch goal with
      | H : a mod n < n |- _ => fail
      | _ => assert (a mod n < n) by (apply Nat.mod_upper_bound; lia)
      end
  end.

Ltac ck_equiv :=
  unfold uadd, umul; unf_prims; simp; mod_bounds;
  repeat (split1; simp; mod_bounds); close.

Section CkEquiv.
Context {A : Type}.
Variable M : nat.
Implicit Types (b : bounded A) (f : fixed A).

Definition FitsB b : Prop := Inv b /\ 2 * max_len b <= M.
Definition FitsF f : Prop := InvF f /\ 2 * flen f <= M.

(* ---- Bounded ---- *)
Lemma Bounded_max_len_ck_eq b : Bounded_max_len_ck b = Bounded_max_len b.
Proof. reflexivity. Qed.

Lemma Bounded_push_ck_eq b x : FitsB b -> Bounded_push_ck M b x = Bounded_push b x.
Proof.
  intros [[H1 H2] H3]. unfold max_len in *.
  unfold Bounded_push_ck, Bounded_push, Bounded_max_len_ck, Bounded_max_len. ck_equiv.
Qed.
Lemma Bounded_pop_ck_eq b : FitsB b -> Bounded_pop_ck M b = Bounded_pop b.
Proof.
  intros [[H1 H2] H3]. unfold max_len in *.
  unfold Bounded_pop_ck, Bounded_pop, Bounded_max_len_ck, Bounded_max_len. ck_equiv.
Qed.
Lemma Bounded_get_ck_eq b i : FitsB b -> Bounded_get_ck M b i = Bounded_get b i.
Proof.
  intros [[H1 H2] H3]. unfold max_len in *.
  unfold Bounded_get_ck, Bounded_get, Bounded_max_len_ck, Bounded_max_len. ck_equiv.
Qed.
Lemma Bounded_get_mut_ck_eq b i : FitsB b -> Bounded_get_mut_ck M b i = Bounded_get_mut b i.
Proof.
  intros [[H1 H2] H3]. unfold max_len in *.
  unfold Bounded_get_mut_ck, Bounded_get_mut, Bounded_max_len_ck, Bounded_max_len. ck_equiv.
Qed.
Lemma Bounded_index_ck_eq b i : FitsB b -> Bounded_index_ck M b i = Bounded_index b i.
Proof. intros H. unfold Bounded_index_ck, Bounded_index. now rewrite Bounded_get_ck_eq. Qed.
Lemma Bounded_index_mut_ck_eq b i : FitsB b -> Bounded_index_mut_ck M b i = Bounded_index_mut b i.
Proof. intros H. unfold Bounded_index_mut_ck, Bounded_index_mut. now rewrite Bounded_get_mut_ck_eq. Qed.
Lemma DrainBounded_next_ck_eq b : FitsB b -> DrainBounded_next_ck M b = DrainBounded_next b.
Proof. intros H. unfold DrainBounded_next_ck, DrainBounded_next. now rewrite Bounded_pop_ck_eq. Qed.

Lemma FitsB_push b x b' o : FitsB b -> Bounded_push b x = Ok (b', o) -> FitsB b'.
Proof.
  intros [I HM] E. rewrite Bounded_push_eq in E.
  destruct (push_refines b x I) as (b2 & r & E2 & I2 & L2 & _).
  rewrite E2 in E. injection E as <- <-. split; [exact I2|]. now rewrite L2.
Qed.

Lemma Bounded_extend_ck_eq xs : forall b, FitsB b -> Bounded_extend_ck M b xs = Bounded_extend b xs.
Proof.
  unfold Bounded_extend_ck, Bounded_extend.
  induction xs as [|x t IH]; intros b H; [reflexivity|].
  cbn [for_each]. rewrite Bounded_push_ck_eq by exact H.
  destruct (Bounded_push b x) as [[b' o]| |] eqn:E; cbn [bind]; try reflexivity.
  apply IH. eapply FitsB_push; eauto.
Qed.

(* the methods without a usize addition are the same text *)
Lemma Bounded_rest_ck_eq :
  (forall s l (d : list A), Bounded_from_raw_parts_ck s l d = Bounded_from_raw_parts s l d) /\
  (forall d : list A, Bounded_from_full_ck d = Bounded_from_full d) /\
  (forall d : list A, Bounded_from_ck d = Bounded_from d) /\
  (forall d : list A, Bounded_from_iter_ck d = Bounded_from_iter d) /\
  (forall b, Bounded_len_ck b = Bounded_len b) /\
  (forall b, Bounded_is_empty_ck b = Bounded_is_empty b) /\
  (forall b, Bounded_is_full_ck b = Bounded_is_full b) /\
  (forall b, Bounded_slices_ck b = Bounded_slices b) /\
  (forall b, Bounded_slices_mut_ck b = Bounded_slices_mut b) /\
  (forall b, Bounded_iter_ck b = Bounded_iter b) /\
  (forall b, Bounded_iter_mut_ck b = Bounded_iter_mut b) /\
  (forall b, Bounded_drain_ck b = Bounded_drain b) /\
  (forall b, DrainBounded_size_hint_ck b = DrainBounded_size_hint b) /\
  (forall b, DrainBounded_len_ck b = DrainBounded_len b).
Proof. repeat split. Qed.

(* ---- Fixed ---- *)
Lemma Fixed_push_ck_eq f x : FitsF f -> Fixed_push_ck M f x = Fixed_push f x.
Proof.
  intros [H1 H2]. unfold InvF, flen in *.
  unfold Fixed_push_ck, Fixed_push, Fixed_len_ck, Fixed_len. ck_equiv.
Qed.
Lemma Fixed_get_ck_eq f i : FitsF f -> Fixed_get_ck M f i = Fixed_get f i.
Proof.
  intros [H1 H2]. unfold InvF, flen in *.
  unfold Fixed_get_ck, Fixed_get, Fixed_len_ck, Fixed_len. ck_equiv.
Qed.
Lemma Fixed_get_mut_ck_eq f i : FitsF f -> Fixed_get_mut_ck M f i = Fixed_get_mut f i.
Proof.
  intros [H1 H2]. unfold InvF, flen in *.
  unfold Fixed_get_mut_ck, Fixed_get_mut, Fixed_len_ck, Fixed_len. ck_equiv.
Qed.
Lemma Fixed_index_ck_eq f i : FitsF f -> Fixed_index_ck M f i = Fixed_index f i.
Proof. intros H. unfold Fixed_index_ck, Fixed_index. now apply Fixed_get_ck_eq. Qed.
Lemma Fixed_index_mut_ck_eq f i : FitsF f -> Fixed_index_mut_ck M f i = Fixed_index_mut f i.
Proof. intros H. unfold Fixed_index_mut_ck, Fixed_index_mut. now rewrite Fixed_get_mut_ck_eq. Qed.

Lemma FitsF_push f x f' o : FitsF f -> Fixed_push f x = Ok (f', o) -> FitsF f'.
Proof.
  intros [I HM] E. rewrite Fixed_push_eq in E.
  destruct (fpush_refines f x I) as (f2 & old & q' & E2 & I2 & L2 & _).
  rewrite E2 in E. injection E as <- <-. split; [exact I2|]. now rewrite L2.
Qed.

Lemma Fixed_extend_ck_eq xs : forall f, FitsF f -> Fixed_extend_ck M f xs = Fixed_extend f xs.
Proof.
  unfold Fixed_extend_ck, Fixed_extend.
  induction xs as [|x t IH]; intros f H; [reflexivity|].
  cbn [for_each]. rewrite Fixed_push_ck_eq by exact H.
  destruct (Fixed_push f x) as [[f' o]| |] eqn:E; cbn [bind]; try reflexivity.
  apply IH. eapply FitsF_push; eauto.
Qed.

Lemma Fixed_rest_ck_eq :
  (forall i (d : list A), Fixed_from_raw_parts_ck i d = Fixed_from_raw_parts i d) /\
  (forall d : list A, Fixed_from_ck d = Fixed_from d) /\
  (forall d : list A, Fixed_from_iter_ck d = Fixed_from_iter d) /\
  (forall f, Fixed_len_ck f = Fixed_len f) /\
  (forall f i, Fixed_set_first_ck f i = Fixed_set_first f i) /\
  (forall f, Fixed_slices_ck f = Fixed_slices f) /\
  (forall f, Fixed_slices_mut_ck f = Fixed_slices_mut f) /\
  (forall f, Fixed_iter_loop_ck f = Fixed_iter_loop f) /\
  (forall f, Fixed_iter_ck f = Fixed_iter f) /\
  (forall f, Fixed_iter_mut_ck f = Fixed_iter_mut f).
Proof. repeat split. Qed.

End CkEquiv.

(* the statement props/C06.v pins *)
Theorem gen_no_index_overflow (A : Type) (M : nat) :
  (forall b : bounded A, Inv b -> 2 * max_len b <= M ->
     (forall x, Bounded_push_ck M b x = Bounded_push b x) /\
     Bounded_pop_ck M b = Bounded_pop b /\
     (forall i, Bounded_get_ck M b i = Bounded_get b i) /\
     (forall i, Bounded_get_mut_ck M b i = Bounded_get_mut b i) /\
     (forall i, Bounded_index_ck M b i = Bounded_index b i) /\
     (forall i, Bounded_index_mut_ck M b i = Bounded_index_mut b i) /\
     DrainBounded_next_ck M b = DrainBounded_next b /\
     (forall xs, Bounded_extend_ck M b xs = Bounded_extend b xs)) /\
  (forall f : fixed A, InvF f -> 2 * flen f <= M ->
     (forall x, Fixed_push_ck M f x = Fixed_push f x) /\
     (forall i, Fixed_get_ck M f i = Fixed_get f i) /\
     (forall i, Fixed_get_mut_ck M f i = Fixed_get_mut f i) /\
     (forall i, Fixed_index_ck M f i = Fixed_index f i) /\
     (forall i, Fixed_index_mut_ck M f i = Fixed_index_mut f i) /\
     (forall xs, Fixed_extend_ck M f xs = Fixed_extend f xs)).
Proof.
  split.
  - intros b I HM. assert (H : FitsB M b) by (split; assumption).
    repeat split; intros.
    + now apply Bounded_push_ck_eq.
    + now apply Bounded_pop_ck_eq.
    + now apply Bounded_get_ck_eq.
    + now apply Bounded_get_mut_ck_eq.
    + now apply Bounded_index_ck_eq.
    + now apply Bounded_index_mut_ck_eq.
    + now apply DrainBounded_next_ck_eq.
    + now apply Bounded_extend_ck_eq.
  - intros f I HM. assert (H : FitsF M f) by (split; assumption).
    repeat split; intros.
    + now apply Fixed_push_ck_eq.
    + now apply Fixed_get_ck_eq.
    + now apply Fixed_get_mut_ck_eq.
    + now apply Fixed_index_ck_eq.
    + now apply Fixed_index_mut_ck_eq.
    + now apply Fixed_extend_ck_eq.
Qed.
