(* The operation interpreters of Ring/BoundedSpec.v and Ring/FixedSpec.v re-built on the
   GENERATED methods (gen/RingGen.v).  What is hand-written here is only what the CALLER does
   with what a method returns (the harness does exactly this): storing through the `&mut T`
   a `get_mut`/`index_mut` returned, visiting the references an `iter_mut` yields, calling
   `next` on a draining iterator until it is exhausted.  No proofs here. *)
Require Import List Arith Bool.
From Dasp Require Import Base.Res Base.ListX Ring.Bounded Ring.BoundedSpec Ring.Fixed Ring.FixedSpec Ring.RingPrim.
From DaspGen Require Import RingGen.
Import ListNotations.

Section Glue.
Context {A : Type}.

(* `for r in it { seen.push( *r ); *r = g( *r ) }` over the places an IterMut yields (they are distinct) *)
Definition apply_places (g : A -> A) (ps : list place) (d : list A) : list A :=
  fold_left (fun d p => match nth_error d p with Some v => set_nth p (g v) d | None => d end) ps d.
Definition read_places (ps : list place) (d : list A) : list A :=
  flat_map (fun p => match nth_error d p with Some v => [v] | None => [] end) ps.

(* ---- Bounded ---- *)

(* `if let Some(r) = b.get_mut(i) { *r = x }` *)
Definition gen_set (b : bounded A) (i : nat) (x : A) : res (bounded A * bool) :=
  let* (b', o) := Bounded_get_mut b i in
  match o with
  | Some p => let* d := write_at (data b') p x in Ok (with_data b' d, true)
  | None => Ok (b', false)
  end.

(* `b[i] = x` *)
Definition gen_index_set (b : bounded A) (i : nat) (x : A) : res (bounded A) :=
  let* (b', p) := Bounded_index_mut b i in
  let* d := write_at (data b') p x in Ok (with_data b' d).

Definition gen_map_in_place (g : A -> A) (b : bounded A) : res (bounded A) :=
  let* (b', ps) := Bounded_iter_mut b in Ok (with_data b' (apply_places g ps (data b'))).

(* what the two `&mut [T]` of slices_mut show *)
Definition gen_slices_mut_view (b : bounded A) : res (list A * list A) :=
  let* (b', (r1, r2)) := Bounded_slices_mut b in
  Ok (region_view (data b') r1, region_view (data b') r2).

(* `b.drain().take(k)`: the draining iterator IS the borrowed buffer; k calls of next, stopping at None *)
Fixpoint gen_drain_loop (k : nat) (d : bounded A) : res (bounded A * list A) :=
  match k with
  | O => Ok (d, [])
  | S k' =>
    let* (d', o) := DrainBounded_next d in
    match o with
    | None => Ok (d', [])
    | Some x => let* (d'', xs) := gen_drain_loop k' d' in Ok (d'', x :: xs)
    end
  end.
Definition gen_drain (k : nat) (b : bounded A) : res (bounded A * list A) :=
  let* (_, d) := Bounded_drain b in gen_drain_loop k d.

Definition gen_step (b : bounded A) (o : op A) : res (bounded A * obs A) :=
  catch b
  match o with
  | OPush x => let* (b', r) := Bounded_push b x in Ok (b', VOpt r)
  | OPop => let* (b', r) := Bounded_pop b in Ok (b', VOpt r)
  | OGet i => let* r := Bounded_get b i in Ok (b, VOpt r)
  | OSet i x => let* (b', r) := gen_set b i x in Ok (b', VBool r)
  | OIndex i => let* r := Bounded_index b i in Ok (b, VVal r)
  | OIndexSet i x => let* b' := gen_index_set b i x in Ok (b', VUnit)
  | OSlices => let* (l1, l2) := Bounded_slices b in Ok (b, VPair l1 l2)
  | OIter => let* r := Bounded_iter b in Ok (b, VList r)
  | OMap g => let* b' := gen_map_in_place g b in Ok (b', VUnit)
  | ODrain k => let* (b', r) := gen_drain k b in Ok (b', VList r)
  | OExtend xs => let* b' := Bounded_extend b xs in Ok (b', VUnit)
  | OLen => let* n := Bounded_len b in Ok (b, VNat n)
  | OIsEmpty => let* r := Bounded_is_empty b in Ok (b, VBool r)
  | OIsFull => let* r := Bounded_is_full b in Ok (b, VBool r)
  | OMaxLen => let* n := Bounded_max_len b in Ok (b, VNat n)
  | ODrainNth n => let* (b', r) := gen_drain (S n) b in Ok (b', VOpt (nth_error r n))
  | OIterNth n => let* r := Bounded_iter b in Ok (b, VOpt (nth_error r n))
  | OIterRev => let* r := Bounded_iter b in Ok (b, VList (rev r))
  | OIterLast => let* r := Bounded_iter b in Ok (b, VOpt (nth_error r (length r - 1)))
  end.

Fixpoint gen_run (b : bounded A) (ops : list (op A)) : res (bounded A * list (obs A)) :=
  match ops with
  | [] => Ok (b, [])
  | o :: t => let* r := gen_step b o in let* r' := gen_run (fst r) t in Ok (fst r', snd r :: snd r')
  end.

(* ---- Fixed ---- *)

(* `*f.get_mut(i) = x`  /  `f[i] = x` *)
Definition gen_fset (f : fixed A) (i : nat) (x : A) : res (fixed A) :=
  let* (f', p) := Fixed_get_mut f i in
  let* d := write_at (fdata f') p x in Ok (with_fdata f' d).
Definition gen_findex_set (f : fixed A) (i : nat) (x : A) : res (fixed A) :=
  let* (f', p) := Fixed_index_mut f i in
  let* d := write_at (fdata f') p x in Ok (with_fdata f' d).

Definition gen_fmap_in_place (g : A -> A) (f : fixed A) : res (fixed A * list A) :=
  let* (f', ps) := Fixed_iter_mut f in
  Ok (with_fdata f' (apply_places g ps (fdata f')), read_places ps (fdata f')).

Definition gen_fslices_mut_view (f : fixed A) : res (list A * list A) :=
  let* (f', (r1, r2)) := Fixed_slices_mut f in
  Ok (region_view (fdata f') r1, region_view (fdata f') r2).

(* `f.iter_loop().take(k)` *)
Definition gen_fiter_loop (f : fixed A) (k : nat) : res (list A) :=
  let* st := Fixed_iter_loop f in Ok (st_take k st).

Definition gen_fstep (f : fixed A) (o : fop A) : res (fixed A * obs A) :=
  fcatch f
  match o with
  | FPush x => let* (f', r) := Fixed_push f x in Ok (f', VVal r)
  | FGet i => let* r := Fixed_index f i in Ok (f, VVal r)
  | FSet i x => let* f' := gen_findex_set f i x in Ok (f', VUnit)
  | FSetFirst i => let* f' := Fixed_set_first f i in Ok (f', VUnit)
  | FSlices => let* (l1, l2) := Fixed_slices f in Ok (f, VPair l1 l2)
  | FIter => let* r := Fixed_iter f in Ok (f, VList r)
  | FIterLoop k => let* r := gen_fiter_loop f k in Ok (f, VList r)
  | FMap g => let* (f', r) := gen_fmap_in_place g f in Ok (f', VList r)
  | FExtend xs => let* f' := Fixed_extend f xs in Ok (f', VUnit)
  | FLen => let* n := Fixed_len f in Ok (f, VNat n)
  end.

Fixpoint gen_frun (f : fixed A) (ops : list (fop A)) : res (fixed A * list (obs A)) :=
  match ops with
  | [] => Ok (f, [])
  | o :: t => let* r := gen_fstep f o in let* r' := gen_frun (fst r) t in Ok (fst r', snd r :: snd r')
  end.

(* pushes one by one, collecting what each push returns (the delay-line reading) *)
Fixpoint gen_fpushes (xs : list A) (f : fixed A) : res (fixed A * list A) :=
  match xs with
  | [] => Ok (f, [])
  | x :: t => let* (f', r) := Fixed_push f x in let* (f'', rs) := gen_fpushes t f' in Ok (f'', r :: rs)
  end.

End Glue.
