(* Non-vacuity: concrete non-trivial states meeting the hypotheses of the C06 theorems. *)
Require Import List ZArith Arith Lia.
From Dasp Require Import Base.Res Base.ListX Ring.Bounded Ring.BoundedSpec Ring.BoundedProofs
  Ring.Fixed Ring.FixedSpec Ring.FixedProofs.
Import ListNotations.

(* a wrapped bounded buffer: capacity 3, start 2, two live elements 30 then 10 *)
Definition ex_b : bounded Z := {| start := 2; len := 2; data := [10; 20; 30]%Z |}.
Example ex_b_inv : Inv ex_b. Proof. unfold Inv, max_len; simpl; lia. Qed.
Example ex_b_abs : abs ex_b = [30; 10]%Z. Proof. reflexivity. Qed.
Example ex_b_run :
  match run ex_b [OPush 7; OPush 8; OGet 0; OPop; OSlices]%Z with
  | Ok (b, vs) => abs b = [7; 8]%Z /\ vs = [VOpt None; VOpt (Some 30); VOpt (Some 10); VOpt (Some 10); VPair [7; 8] []]%Z
  | _ => False
  end.
Proof. vm_compute. split; reflexivity. Qed.

(* a fixed buffer whose first index is in the middle *)
Definition ex_f : fixed Z := {| first := 1; fdata := [1; 2; 3]%Z |}.
Example ex_f_inv : InvF ex_f. Proof. unfold InvF, flen; simpl; lia. Qed.
Example ex_f_abs : fq ex_f = [2; 3; 1]%Z. Proof. reflexivity. Qed.
Example ex_f_delay :
  match fpushes [7; 8; 9; 10]%Z ex_f with Ok (_, outs) => outs = [2; 3; 1; 7]%Z | _ => False end.
Proof. vm_compute. reflexivity. Qed.
