(* Operation language over the Bounded model, the ideal capacity-bounded queue
   it must refine, and the interpreter used by the correspondence check. *)
Require Import List Arith Bool.
From Dasp Require Import Base.Res Base.ListX Ring.Bounded.
Import ListNotations.

Section Spec.
Context {A : Type}.

Inductive op :=
| OPush (x : A) | OPop | OGet (i : nat) | OSet (i : nat) (x : A)
| OIndex (i : nat) | OIndexSet (i : nat) (x : A)
| OSlices | OIter | OMap (f : A -> A) | ODrain (k : nat) | OExtend (xs : list A)
| OLen | OIsEmpty | OIsFull | OMaxLen
| ODrainNth (n : nat) | OIterNth (n : nat) | OIterRev | OIterLast.

Inductive obs :=
| VOpt (o : option A) | VVal (x : A) | VBool (b : bool) | VNat (n : nat)
| VList (l : list A) | VPair (l1 l2 : list A) | VUnit | VPanic (k : panic_kind).

(* a panic raised by an operation is an observation; the buffer is left as it was
   (every panicking path of the source panics before its first store) *)
Definition catch (b : bounded A) (r : res (bounded A * obs)) : res (bounded A * obs) :=
  match r with Panic k => Ok (b, VPanic k) | _ => r end.

Definition step (b : bounded A) (o : op) : res (bounded A * obs) :=
  catch b
  match o with
  | OPush x => let* r := push b x in Ok (fst r, VOpt (snd r))
  | OPop => let* r := pop b in Ok (fst r, VOpt (snd r))
  | OGet i => let* r := get b i in Ok (b, VOpt r)
  | OSet i x => let* r := set b i x in Ok (fst r, VBool (snd r))
  | OIndex i => let* r := index b i in Ok (b, VVal r)
  | OIndexSet i x => let* r := index_set b i x in Ok (r, VUnit)
  | OSlices => let* r := slices b in Ok (b, VPair (fst r) (snd r))
  | OIter => let* r := iter b in Ok (b, VList r)
  | OMap f => let* r := map_in_place f b in Ok (r, VUnit)
  | ODrain k => let* r := drain k b in Ok (fst r, VList (snd r))
  | OExtend xs => let* r := extend xs b in Ok (r, VUnit)
  | OLen => Ok (b, VNat (len b))
  | OIsEmpty => Ok (b, VBool (is_empty b))
  | OIsFull => Ok (b, VBool (is_full b))
  | OMaxLen => Ok (b, VNat (max_len b))
  (* drain().nth(n): n+1 pops through the draining iterator, the last one is returned *)
  | ODrainNth n => let* r := drain (S n) b in Ok (fst r, VOpt (nth_error (snd r) n))
  (* iter().nth(n) / iter().rev() / iter().last(): adaptors over the chained slice iterators *)
  | OIterNth n => let* r := iter b in Ok (b, VOpt (nth_error r n))
  | OIterRev => let* r := iter b in Ok (b, VList (rev r))
  | OIterLast => let* r := iter b in Ok (b, VOpt (nth_error r (length r - 1)))
  end.

Fixpoint run (b : bounded A) (ops : list op) : res (bounded A * list obs) :=
  match ops with
  | [] => Ok (b, [])
  | o :: t => let* r := step b o in let* r' := run (fst r) t in Ok (fst r', snd r :: snd r')
  end.

(* ---- the ideal queue: a list, oldest first, and a capacity ---- *)

Definition q_push (cap : nat) (q : list A) (x : A) : list A * option A :=
  if length q =? cap then (tl q ++ [x], hd_error q) else (q ++ [x], None).
Definition q_pop (q : list A) : list A * option A :=
  match q with [] => ([], None) | x :: t => (t, Some x) end.
Definition q_extend (cap : nat) (xs : list A) (q : list A) : list A :=
  fold_left (fun q x => fst (q_push cap q x)) xs q.

Definition spec_step (cap : nat) (q : list A) (o : op) : list A * obs :=
  match o with
  | OPush x => let r := q_push cap q x in (fst r, VOpt (snd r))
  | OPop => let r := q_pop q in (fst r, VOpt (snd r))
  | OGet i => (q, VOpt (nth_error q i))
  | OSet i x => if i <? length q then (set_nth i x q, VBool true) else (q, VBool false)
  | OIndex i => match nth_error q i with Some v => (q, VVal v) | None => (q, VPanic PExpect) end
  | OIndexSet i x => if i <? length q then (set_nth i x q, VUnit) else (q, VPanic PExpect)
  | OSlices => (q, VList q)
  | OIter => (q, VList q)
  | OMap f => (map f q, VUnit)
  | ODrain k => (skipn k q, VList (firstn k q))
  | OExtend xs => (q_extend cap xs q, VUnit)
  | OLen => (q, VNat (length q))
  | OIsEmpty => (q, VBool (length q =? 0))
  | OIsFull => (q, VBool (length q =? cap))
  | OMaxLen => (q, VNat cap)
  | ODrainNth n => (skipn (S n) q, VOpt (nth_error q n))
  | OIterNth n => (q, VOpt (nth_error q n))
  | OIterRev => (q, VList (rev q))
  | OIterLast => (q, VOpt (nth_error q (length q - 1)))
  end.

(* the two slices are determined only up to their concatenation *)
Definition obs_abs (o : obs) : obs :=
  match o with VPair l1 l2 => VList (l1 ++ l2) | _ => o end.

Fixpoint spec_run (cap : nat) (q : list A) (ops : list op) : list A * list obs :=
  match ops with
  | [] => (q, [])
  | o :: t => let r := spec_step cap q o in
              let r' := spec_run cap (fst r) t in (fst r', snd r :: snd r')
  end.

(* abstraction: live elements, oldest first *)
Definition abs (b : bounded A) : list A :=
  firstn (len b) (skipn (start b) (data b) ++ firstn (start b) (data b)).

Definition Inv (b : bounded A) : Prop := start b < max_len b /\ len b <= max_len b.

End Spec.
Arguments op A : clear implicits.
Arguments obs A : clear implicits.
