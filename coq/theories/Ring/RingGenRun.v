(* Executable Z-level interface of the GENERATED ring-buffer model (gen/RingGen.v through
   Ring/RingGenGlue.v), same case and observation encoding as Ring/RingRun.v.  Used by the
   search of lib/props/c06.py when the equivalence proofs (Ring/RingGenEquiv.v) no longer
   compile: the regenerated model is run on the correspondence cases against the crate's
   observations ([check_gen]) and against the hand model ([agree_gen]).  Depends on the
   generated definitions only, not on the equivalence proofs. *)
Require Import List ZArith Bool.
From Dasp Require Import Base.Res Base.ListX Ring.Bounded Ring.BoundedSpec Ring.Fixed Ring.FixedSpec
  Ring.RingPrim Ring.RingGenGlue Ring.RingRun.
From DaspGen Require Import RingGen.
Import ListNotations.
Open Scope Z_scope.

(* NO index normalisation here (Ring/RingRun.v's bnorm/fnorm are proved invisible for the HAND model only; a model
   regenerated from an edited source may well tell i from i mod len): lib/props/c06.py keeps the cases with
   indices too large for a unary nat out of this runner. *)
Definition gbstep (b : bounded Z) (o : zop) : res (bounded Z * list Z) :=
  match to_op o with
  | None => UB
  | Some p =>
    match o with
    | ZMap _ => let* it := Bounded_iter b in let* r := gen_step b p in Ok (fst r, enc (VList it))
    | _ => let* r := gen_step b p in Ok (fst r, enc (snd r))
    end
  end.

Fixpoint gbrun (b : bounded Z) (ops : list zop) : list (list Z) :=
  match ops with
  | [] => []
  | o :: t => match gbstep b o with
              | Ok (b', v) => v :: gbrun b' t
              | Panic k => [[-1; zn (panic_code k)]]
              | UB => [[-2]]
              end
  end.

Definition gbrun_case (s l : Z) (d : list Z) (ops : list zop) : list (list Z) :=
  match Bounded_from_raw_parts (n s) (n l) d with
  | Ok b => gbrun b ops
  | Panic k => [[8; zn (panic_code k)]]
  | UB => [[-2]]
  end.

Fixpoint gfrun_z (f : fixed Z) (ops : list zop) : list (list Z) :=
  match ops with
  | [] => []
  | o :: t => match to_fop o with
              | None => [[-2]]
              | Some p => match gen_fstep f p with
                          | Ok (f', v) => enc v :: gfrun_z f' t
                          | Panic k => [[-1; zn (panic_code k)]]
                          | UB => [[-2]]
                          end
              end
  end.

Definition gfrun_case (fi : Z) (d : list Z) (ops : list zop) : list (list Z) :=
  match Fixed_from_raw_parts (n fi) d with
  | Ok f => gfrun_z f ops
  | Panic k => [[8; zn (panic_code k)]]
  | UB => [[-2]]
  end.

Definition gen_run_case (c : rcase) : list (list Z) :=
  match c with BCase s l d ops => gbrun_case s l d ops | FCase fi d ops => gfrun_case fi d ops end.

(* the regenerated model against the crate's observations *)
Definition check_gen (c : rcase * list (list Z)) : bool := zll_eqb (gen_run_case (fst c)) (snd c).
(* the regenerated model against the hand model (the observations are ignored) *)
Definition agree_gen (c : rcase * list (list Z)) : bool := zll_eqb (gen_run_case (fst c)) (run_case (fst c)).
(* both at once (one pass over the cases in the search) *)
Definition both_gen (c : rcase * list (list Z)) : bool := check_gen c && agree_gen c.
