(* Executable Z-level interface of the GENERATED ring-buffer model (gen/RingGen.v through
   Ring/RingGenGlue.v), same observation encoding as Ring/RingRun.v.  Used by the search of
   lib/props/c06.py when the equivalence proofs (Ring/RingGenEquiv.v) no longer compile: the
   regenerated model is run on the correspondence cases against the crate's observations
   ([check_gen]) and against the hand model ([agree_gen]).  Depends on the generated
   definitions only, not on the equivalence proofs.

   The harness operations that go through the `_mut` accessors are routed to the generated
   `_mut` methods here ([GSlicesMut], [GMapSlices], and [ZMap] through iter_mut), so that a
   disagreement points at the method that changed.

   NO index normalisation (Ring/RingRun.v's bnorm/fnorm are proved invisible for the HAND model
   only; a model regenerated from an edited source may well tell i from i mod len):
   lib/props/c06.py keeps the cases with indices too large for a unary nat out of this runner. *)
Require Import List ZArith Bool.
From Dasp Require Import Base.Res Base.ListX Ring.Bounded Ring.BoundedSpec Ring.Fixed Ring.FixedSpec
  Ring.RingPrim Ring.RingGenGlue Ring.RingRun.
From DaspGen Require Import RingGen.
Import ListNotations.
Open Scope Z_scope.

Inductive gzop := G (o : zop) | GSlicesMut | GMapSlices (k : Z).

Definition to_zop (o : gzop) : zop :=
  match o with G o => o | GSlicesMut => ZSlices | GMapSlices k => ZMap k end.

(* visiting the places of a mutable view: the items in visit order, each replaced by item + k *)
Definition visit (k : Z) (ps : list place) (d : list Z) : list Z * list Z :=
  (apply_places (Z.add k) ps d, read_places ps d).

Definition gbstep (b : bounded Z) (o : gzop) : res (bounded Z * list Z) :=
  match o with
  | GSlicesMut => let* (l1, l2) := gen_slices_mut_view b in Ok (b, enc (VPair l1 l2))
  | GMapSlices k =>
      let* (b', (r1, r2)) := Bounded_slices_mut b in
      let (d, seen) := visit k (region_places r1 ++ region_places r2) (data b') in
      Ok (with_data b' d, enc (VList seen))
  | G (ZMap k) =>
      let* (b', ps) := Bounded_iter_mut b in
      let (d, seen) := visit k ps (data b') in
      Ok (with_data b' d, enc (VList seen))
  | G o =>
      match to_op o with
      | None => UB
      | Some p => let* r := gen_step b p in Ok (fst r, enc (snd r))
      end
  end.

Fixpoint gbrun (b : bounded Z) (ops : list gzop) : list (list Z) :=
  match ops with
  | [] => []
  | o :: t => match gbstep b o with
              | Ok (b', v) => v :: gbrun b' t
              | Panic k => [[-1; zn (panic_code k)]]
              | UB => [[-2]]
              end
  end.

Definition gbrun_case (s l : Z) (d : list Z) (ops : list gzop) : list (list Z) :=
  match Bounded_from_raw_parts (n s) (n l) d with
  | Ok b => gbrun b ops
  | Panic k => [[8; zn (panic_code k)]]
  | UB => [[-2]]
  end.

Definition gfstep (f : fixed Z) (o : gzop) : res (fixed Z * list Z) :=
  match o with
  | GSlicesMut => let* (l1, l2) := gen_fslices_mut_view f in Ok (f, enc (VPair l1 l2))
  | GMapSlices _ => UB
  | G o =>
      match to_fop o with
      | None => UB
      | Some p => let* r := gen_fstep f p in Ok (fst r, enc (snd r))
      end
  end.

Fixpoint gfrun_z (f : fixed Z) (ops : list gzop) : list (list Z) :=
  match ops with
  | [] => []
  | o :: t => match gfstep f o with
              | Ok (f', v) => v :: gfrun_z f' t
              | Panic k => [[-1; zn (panic_code k)]]
              | UB => [[-2]]
              end
  end.

Definition gfrun_case (fi : Z) (d : list Z) (ops : list gzop) : list (list Z) :=
  match Fixed_from_raw_parts (n fi) d with
  | Ok f => gfrun_z f ops
  | Panic k => [[8; zn (panic_code k)]]
  | UB => [[-2]]
  end.

Inductive gcase := GBCase (s l : Z) (d : list Z) (ops : list gzop) | GFCase (fi : Z) (d : list Z) (ops : list gzop).

Definition gen_run_case (c : gcase) : list (list Z) :=
  match c with GBCase s l d ops => gbrun_case s l d ops | GFCase fi d ops => gfrun_case fi d ops end.
Definition to_rcase (c : gcase) : rcase :=
  match c with GBCase s l d ops => BCase s l d (map to_zop ops) | GFCase fi d ops => FCase fi d (map to_zop ops) end.

(* the regenerated model against the crate's observations *)
Definition check_gen (c : gcase * list (list Z)) : bool := zll_eqb (gen_run_case (fst c)) (snd c).
(* the regenerated model against the hand model (the observations are ignored) *)
Definition agree_gen (c : gcase * list (list Z)) : bool := zll_eqb (gen_run_case (fst c)) (run_case (to_rcase (fst c))).
(* both at once (one pass over the cases in the search) *)
Definition both_gen (c : gcase * list (list Z)) : bool := check_gen c && agree_gen c.
