(* Operation language over the Fixed model, the ideal delay line it must refine. *)
Require Import List Arith Bool.
From Dasp Require Import Base.Res Base.ListX Ring.Bounded Ring.BoundedSpec Ring.Fixed.
Import ListNotations.

Section Spec.
Context {A : Type}.

Inductive fop :=
| FPush (x : A) | FGet (i : nat) | FSet (i : nat) (x : A) | FSetFirst (i : nat)
| FSlices | FIter | FIterLoop (k : nat) | FMap (g : A -> A) | FExtend (xs : list A) | FLen.

Definition fcatch (f : fixed A) (r : res (fixed A * obs A)) : res (fixed A * obs A) :=
  match r with Panic k => Ok (f, VPanic k) | _ => r end.

Definition fstep (f : fixed A) (o : fop) : res (fixed A * obs A) :=
  fcatch f
  match o with
  | FPush x => let* r := fpush f x in Ok (fst r, VVal (snd r))
  | FGet i => let* r := fget f i in Ok (f, VVal r)
  | FSet i x => let* r := fset f i x in Ok (r, VUnit)
  | FSetFirst i => let* r := fset_first f i in Ok (r, VUnit)
  | FSlices => let* r := fslices f in Ok (f, VPair (fst r) (snd r))
  | FIter => Ok (f, VList (fiter f))
  | FIterLoop k => Ok (f, VList (fiter_loop f k))
  | FMap g => let* r := fmap_in_place g f in Ok (fst r, VList (snd r))
  | FExtend xs => let* r := fextend xs f in Ok (r, VUnit)
  | FLen => Ok (f, VNat (flen f))
  end.

Fixpoint frun (f : fixed A) (ops : list fop) : res (fixed A * list (obs A)) :=
  match ops with
  | [] => Ok (f, [])
  | o :: t => let* r := fstep f o in let* r' := frun (fst r) t in Ok (fst r', snd r :: snd r')
  end.

(* ---- ideal delay line of length N: [origin] = storage index of the oldest
   element (observable through set_first / into_raw_parts), [q] oldest first ---- *)
Definition rotl (k : nat) (l : list A) : list A := skipn k l ++ firstn k l.

Definition d_push (q : list A) (x : A) : list A := tl q ++ [x].
Definition d_cycle (q : list A) (k : nat) : list A :=
  flat_map (fun j => match nth_error q (j mod length q) with Some x => [x] | None => [] end) (seq 0 k).

Definition fspec_step (st : nat * list A) (o : fop) : (nat * list A) * obs A :=
  let '(org, q) := st in
  let n := length q in
  match o with
  | FPush x => match q with
               | [] => (st, VUnit)
               | h :: _ => (((org + 1) mod n, d_push q x), VVal h)
               end
  | FGet i => match nth_error q (i mod n) with Some v => (st, VVal v) | None => (st, VUnit) end
  | FSet i x => ((org, set_nth (i mod n) x q), VUnit)
  | FSetFirst i => ((i mod n, rotl ((i mod n + n - org) mod n) q), VUnit)
  | FSlices => (st, VList q)
  | FIter => (st, VList q)
  | FIterLoop k => (st, VList (d_cycle q k))
  | FMap g => ((org, map g q), VList q)
  | FExtend xs => (((org + length xs) mod n, fold_left d_push xs q), VUnit)
  | FLen => (st, VNat n)
  end.

Fixpoint fspec_run (st : nat * list A) (ops : list fop) : (nat * list A) * list (obs A) :=
  match ops with
  | [] => (st, [])
  | o :: t => let r := fspec_step st o in
              let r' := fspec_run (fst r) t in (fst r', snd r :: snd r')
  end.

Definition fq (f : fixed A) : list A := rotl (first f) (fdata f).
Definition fabs (f : fixed A) : nat * list A := (first f, fq f).
Definition InvF (f : fixed A) : Prop := first f < flen f.

End Spec.
Arguments fop A : clear implicits.
