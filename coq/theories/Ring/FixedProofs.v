(* Refinement of the Fixed model to the ideal delay line of constant length N >= 1,
   from every valid [first], for every operation and every history. *)
Require Import List Arith Lia Bool.
From Dasp Require Import Base.Res Base.ListX Ring.Bounded Ring.BoundedSpec Ring.BoundedProofs
  Ring.Fixed Ring.FixedSpec.
Import ListNotations.

Section Proofs.
Context {A : Type}.
Implicit Types (f : fixed A) (l q : list A).

Lemma rotl_length k l : length (rotl k l) = length l.
Proof.
  unfold rotl. rewrite app_length, skipn_length, firstn_length. lia.
Qed.

Lemma rotl_nth k l i : k < length l -> i < length l ->
  nth_error (rotl k l) i = nth_error l ((k + i) mod length l).
Proof. apply rot_nth. Qed.

Lemma fabs_length f : length (fq f) = flen f.
Proof. apply rotl_length. Qed.

Lemma fabs_eq f : fabs f = (first f, fq f).
Proof. reflexivity. Qed.

Lemma mod_add_wrap n a i : 0 < n -> (a + i mod n) mod n = (a + i) mod n.
Proof. intros H. apply Nat.add_mod_idemp_r. lia. Qed.

(* the storage slot of abstract index j *)
Lemma fabs_nth f j : InvF f -> j < flen f ->
  nth_error (fq f) j = nth_error (fdata f) ((first f + j) mod flen f).
Proof. intros I Hj. apply rotl_nth; auto. Qed.

Lemma fabs_head f : InvF f -> nth_error (fq f) 0 = nth_error (fdata f) (first f).
Proof.
  intros I. unfold InvF in I. rewrite fabs_nth by (auto; lia).
  rewrite Nat.add_0_r, Nat.mod_small by lia. reflexivity.
Qed.

Lemma fpush_refines f x : InvF f ->
  exists f' old q', fpush f x = Ok (f', old) /\ InvF f' /\ flen f' = flen f /\
    fq f = old :: q' /\
    fabs f' = ((first f + 1) mod flen f, q' ++ [x]).
Proof.
  intros I. pose proof I as I0. unfold InvF in I0. unfold fpush.
  destruct (get_unchecked_ok (fdata f) (first f) I0) as [old [-> Hold]]. simpl.
  set (nx := if first f + 1 =? flen f then 0 else first f + 1).
  set (f' := {| first := nx; fdata := set_nth (first f) x (fdata f) |}).
  assert (Hlen : flen f' = flen f) by (unfold flen, f'; simpl; apply set_nth_length).
  assert (Hnx : nx = (first f + 1) mod flen f).
  { unfold nx. destruct (Nat.eqb_spec (first f + 1) (flen f)) as [E|E].
    - rewrite E, Nat.mod_same; lia.
    - rewrite Nat.mod_small; lia. }
  assert (I' : InvF f').
  { unfold InvF. rewrite Hlen. simpl. unfold nx. destruct (Nat.eqb_spec (first f + 1) (flen f)); lia. }
  pose proof (fabs_length f) as HL.
  destruct (fq f) as [|h q'] eqn:Habs; [simpl in HL; lia|].
  assert (Hh : nth_error (fq f) 0 = Some h) by (rewrite Habs; reflexivity).
  rewrite fabs_head in Hh by auto.
  exists f', old, q'. split; [reflexivity|]. split; [exact I'|]. split; [exact Hlen|].
  split; [congruence|].
  unfold fabs at 1. f_equal; [exact Hnx|].
  change (fq f' = q' ++ [x]).
  apply list_eq_nth.
  - rewrite fabs_length, Hlen, app_length. simpl in *. lia.
  - intros i Hi. rewrite fabs_length, Hlen in Hi.
    rewrite fabs_nth by (auto; lia). rewrite Hlen. unfold f'; simpl.
    simpl in HL. unfold flen in *.
    destruct (Nat.eq_dec i (length q')) as [->|Hne].
    + rewrite nth_error_app2, Nat.sub_diag by lia. simpl.
      replace ((nx + length q') mod length (fdata f)) with (first f).
      { apply nth_error_set_nth_eq. lia. }
      unfold nx. destruct (Nat.eqb_spec (first f + 1) (length (fdata f))); modw.
    + rewrite nth_error_app1 by lia.
      assert (Ht : nth_error q' i = nth_error (fq f) (S i)) by (rewrite Habs; reflexivity).
      rewrite Ht, fabs_nth by (auto; unfold flen; lia). unfold flen.
      rewrite nth_error_set_nth_neq.
      { f_equal. unfold nx. destruct (Nat.eqb_spec (first f + 1) (length (fdata f))); modw. }
      unfold nx. destruct (Nat.eqb_spec (first f + 1) (length (fdata f))); modw.
Qed.

Lemma fwrapped_ok f i : InvF f ->
  exists w, fwrapped f i = Ok w /\ w = (first f + i mod flen f) mod flen f /\ w < flen f.
Proof.
  intros I. unfold InvF in I. unfold fwrapped, rmod.
  destruct (Nat.eqb_spec (flen f) 0); [lia|]. simpl. unfold rmod.
  destruct (Nat.eqb_spec (flen f) 0); [lia|]. eexists; split; [reflexivity|]. split.
  - reflexivity.
  - apply Nat.mod_upper_bound; lia.
Qed.

Lemma fget_refines f i : InvF f ->
  exists v, fget f i = Ok v /\ nth_error (fq f) (i mod flen f) = Some v.
Proof.
  intros I. pose proof I as I0. unfold InvF in I0. unfold fget.
  destruct (fwrapped_ok f i I) as [w [-> [Hw Hlt]]]. simpl.
  unfold get_checked. destruct (nth_error_lt_Some (fdata f) w Hlt) as [v Hv]. rewrite Hv.
  exists v. split; [reflexivity|].
  rewrite fabs_nth by (auto; apply Nat.mod_upper_bound; lia). now rewrite <- Hw.
Qed.

Lemma fset_refines f i x : InvF f ->
  exists f', fset f i x = Ok f' /\ InvF f' /\ flen f' = flen f /\
    fabs f' = (first f, set_nth (i mod flen f) x (fq f)).
Proof.
  intros I. pose proof I as I0. unfold InvF in I0. unfold fset.
  destruct (fwrapped_ok f i I) as [w [-> [Hw Hlt]]]. simpl.
  destruct (Nat.ltb_spec w (flen f)); [|lia].
  set (f' := {| first := first f; fdata := set_nth w x (fdata f) |}).
  assert (Hlen : flen f' = flen f) by (unfold flen, f'; simpl; apply set_nth_length).
  assert (I' : InvF f') by (unfold InvF; rewrite Hlen; exact I0).
  exists f'. split; [reflexivity|]. split; [exact I'|]. split; [exact Hlen|].
  unfold fabs at 1. f_equal.
  change (fq f' = set_nth (i mod flen f) x (fq f)).
  assert (Him : i mod flen f < flen f) by (apply Nat.mod_upper_bound; lia).
  apply list_eq_nth.
  - rewrite set_nth_length, !fabs_length. exact Hlen.
  - intros j Hj. rewrite fabs_length, Hlen in Hj.
    rewrite fabs_nth by (auto; lia). rewrite Hlen. unfold f'; simpl.
    rewrite !nth_error_set_nth. rewrite fabs_length.
    destruct (Nat.eqb_spec (i mod flen f) j) as [E|Hne]; simpl.
    + destruct (Nat.ltb_spec (i mod flen f) (flen f)); [|lia].
      rewrite <- E, <- Hw, Nat.eqb_refl. simpl.
      unfold flen in *. destruct (Nat.ltb_spec w (length (fdata f))); [reflexivity|lia].
    + rewrite fabs_nth by auto.
      destruct (Nat.eqb_spec w ((first f + j) mod flen f)) as [Heq|Hneq]; simpl; [|reflexivity].
      subst w. apply mod_inj in Heq; lia.
Qed.

Lemma rotl_rotl l a w : a < length l -> w < length l ->
  rotl ((w + length l - a) mod length l) (rotl a l) = rotl w l.
Proof.
  intros Ha Hw. set (n := length l) in *.
  assert (Hd : (w + n - a) mod n = if a <=? w then w - a else w + n - a).
  { destruct (Nat.leb_spec a w).
    - replace (w + n - a) with (w - a + 1 * n) by lia. rewrite Nat.mod_add by lia. apply Nat.mod_small; lia.
    - apply Nat.mod_small; lia. }
  assert (Hdn : (w + n - a) mod n < n) by (apply Nat.mod_upper_bound; lia).
  apply list_eq_nth.
  - now rewrite !rotl_length.
  - intros i Hi. rewrite !rotl_length in Hi. fold n in Hi.
    rewrite rotl_nth by (rewrite rotl_length; fold n; lia). rewrite rotl_length. fold n.
    rewrite rotl_nth by (fold n; auto; apply Nat.mod_upper_bound; lia).
    rewrite rotl_nth by (fold n; auto). fold n. f_equal.
    rewrite Hd. rewrite Nat.add_mod_idemp_r by lia. destruct (Nat.leb_spec a w).
    + f_equal. lia.
    + replace (a + (w + n - a + i)) with (w + i + 1 * n) by lia. now rewrite Nat.mod_add by lia.
Qed.

Lemma fset_first_refines f i : InvF f ->
  exists f', fset_first f i = Ok f' /\ InvF f' /\ flen f' = flen f /\ fdata f' = fdata f /\
    fabs f' = (i mod flen f, rotl ((i mod flen f + flen f - first f) mod flen f) (fq f)).
Proof.
  intros I. pose proof I as I0. unfold InvF in I0. unfold fset_first, rmod.
  destruct (Nat.eqb_spec (flen f) 0); [lia|]. simpl.
  assert (Him : i mod flen f < flen f) by (apply Nat.mod_upper_bound; lia).
  eexists. split; [reflexivity|]. unfold InvF, flen in *. simpl. repeat split; auto.
  unfold fabs; simpl. f_equal.
  pose proof (rotl_rotl (fdata f) (first f) (i mod length (fdata f)) I0 Him) as R.
  unfold fq; simpl. symmetry. exact R.
Qed.

Lemma fslices_refines f : InvF f ->
  exists l1 l2, fslices f = Ok (l1, l2) /\ l1 ++ l2 = fq f.
Proof.
  intros I. unfold InvF in I. unfold fslices.
  destruct (Nat.ltb_spec (flen f) (first f)); [lia|]. eexists; eexists; split; reflexivity.
Qed.

Lemma floop_nth_refines f j : InvF f -> floop_nth f j = nth_error (fq f) (j mod flen f).
Proof.
  intros I. pose proof I as I0. unfold InvF in I0. unfold floop_nth.
  destruct (Nat.eqb_spec (flen f) 0); [lia|].
  rewrite fabs_nth by (auto; apply Nat.mod_upper_bound; lia).
  now rewrite mod_add_wrap by lia.
Qed.

Lemma fiter_loop_refines f k : InvF f -> fiter_loop f k = d_cycle (fq f) k.
Proof.
  intros I. unfold fiter_loop, d_cycle. apply flat_map_ext. intros j.
  rewrite floop_nth_refines by auto. now rewrite fabs_length.
Qed.

Lemma flat_map_nth_seq l :
  flat_map (fun j => match nth_error l j with Some x => [x] | None => [] end) (seq 0 (length l)) = l.
Proof.
  induction l as [|a l IH]; [reflexivity|].
  simpl length. rewrite <- cons_seq, <- seq_shift. simpl. f_equal.
  rewrite flat_map_concat_map, map_map, <- flat_map_concat_map. simpl. exact IH.
Qed.

Lemma d_cycle_full q : d_cycle q (length q) = q.
Proof.
  unfold d_cycle. transitivity (flat_map (fun j => match nth_error q j with Some x => [x] | None => [] end) (seq 0 (length q)));
    [|apply flat_map_nth_seq].
  rewrite !flat_map_concat_map. f_equal. apply map_ext_in. intros j Hj.
  apply in_seq in Hj. rewrite Nat.mod_small by lia. reflexivity.
Qed.

Lemma fiter_refines f : InvF f -> fiter f = fq f.
Proof.
  intros I. unfold fiter. rewrite fiter_loop_refines by auto.
  rewrite <- (fabs_length f). apply d_cycle_full.
Qed.

Lemma skipn_map {B} (g : A -> B) n l : skipn n (map g l) = map g (skipn n l).
Proof. revert l; induction n as [|n IH]; intros [|a l]; simpl; auto. Qed.

Lemma fmap_refines g f : InvF f ->
  exists f', fmap_in_place g f = Ok (f', fq f) /\ InvF f' /\ flen f' = flen f /\
    fabs f' = (first f, map g (fq f)).
Proof.
  intros I. pose proof I as I0. unfold InvF in I0. unfold fmap_in_place.
  destruct (fslices_refines f I) as [l1 [l2 [E Hq]]]. rewrite E. simpl.
  unfold fslices in E. destruct (Nat.ltb_spec (flen f) (first f)); [lia|]. inversion E; subst l1 l2; clear E.
  assert (Hd : map g (firstn (first f) (fdata f)) ++ map g (skipn (first f) (fdata f)) = map g (fdata f)).
  { rewrite <- map_app, firstn_skipn. reflexivity. }
  eexists. split; [rewrite Hq; reflexivity|]. rewrite Hd.
  unfold InvF, flen, fabs in *; simpl. rewrite map_length. repeat split; auto.
  f_equal. unfold fq, rotl; simpl. now rewrite map_app, skipn_map, firstn_map.
Qed.

Lemma fpushes_refines xs : forall f, InvF f ->
  exists f', fpushes xs f = Ok (f', firstn (length xs) (fq f ++ xs)) /\ InvF f' /\ flen f' = flen f /\
    fabs f' = ((first f + length xs) mod flen f, fold_left d_push xs (fq f)).
Proof.
  induction xs as [|x xs IH]; intros f I; simpl.
  - exists f. pose proof I as I0. unfold InvF in I0. repeat split; auto.
    unfold fabs; simpl. rewrite Nat.add_0_r, Nat.mod_small by lia. reflexivity.
  - destruct (fpush_refines f x I) as [f1 [old [q' [-> [I1 [L1 [Hq H1]]]]]]]. simpl.
    destruct (IH f1 I1) as [f2 [-> [I2 [L2 H2]]]]. simpl.
    assert (Hq1 : fq f1 = q' ++ [x]) by (rewrite fabs_eq in H1; congruence).
    assert (Hf1 : first f1 = (first f + 1) mod flen f) by (rewrite fabs_eq in H1; congruence).
    exists f2. rewrite Hq, Hq1. simpl. rewrite <- app_assoc. simpl.
    split; [reflexivity|]. split; [exact I2|]. split; [congruence|].
    rewrite H2, L1, Hq1, Hf1. unfold d_push at 2. simpl. f_equal.
    pose proof I as I0. unfold InvF in I0.
    rewrite Nat.add_mod_idemp_l by lia. f_equal. lia.
Qed.

Lemma fextend_pushes xs : forall f, fextend xs f = rmap fst (fpushes xs f).
Proof.
  induction xs as [|x xs IH]; intros f; simpl; [reflexivity|].
  destruct (fpush f x) as [r| |]; simpl; auto. rewrite IH.
  destruct (fpushes xs (fst r)); reflexivity.
Qed.

Theorem fstep_refines f o : InvF f ->
  exists f' v, fstep f o = Ok (f', v) /\ InvF f' /\ flen f' = flen f /\
               fspec_step (fabs f) o = (fabs f', obs_abs v).
Proof.
  intros I. pose proof I as I0. unfold InvF in I0.
  pose proof (fabs_length f) as HL.
  destruct o as [x|i|i x|i| | |k|g|xs| ]; unfold fstep; rewrite (fabs_eq f); simpl.
  - destruct (fpush_refines f x I) as [f' [old [q' [-> [I' [L [Hq H1]]]]]]]. simpl.
    exists f', (VVal old). repeat split; auto. rewrite Hq in *.
    rewrite H1, HL. reflexivity.
  - destruct (fget_refines f i I) as [v [-> Hv]]. simpl. exists f, (VVal v). repeat split; auto.
    now rewrite HL, Hv.
  - destruct (fset_refines f i x I) as [f' [-> [I' [L H1]]]]. simpl. exists f', VUnit. repeat split; auto.
    now rewrite HL, H1.
  - destruct (fset_first_refines f i I) as [f' [-> [I' [L [D H1]]]]]. simpl. exists f', VUnit. repeat split; auto.
    now rewrite HL, H1.
  - destruct (fslices_refines f I) as [l1 [l2 [-> E]]]. simpl. exists f, (VPair l1 l2). simpl. rewrite E.
    repeat split; auto.
  - exists f, (VList (fiter f)). rewrite fiter_refines by auto. repeat split; auto.
  - exists f, (VList (fiter_loop f k)). rewrite fiter_loop_refines by auto. repeat split; auto.
  - destruct (fmap_refines g f I) as [f' [-> [I' [L H1]]]]. simpl. exists f', (VList (fq f)).
    repeat split; auto. now rewrite H1.
  - rewrite fextend_pushes. destruct (fpushes_refines xs f I) as [f' [-> [I' [L H1]]]]. simpl.
    exists f', VUnit. repeat split; auto. now rewrite HL, H1.
  - exists f, (VNat (flen f)). repeat split; auto. now rewrite HL.
Qed.

Theorem frun_refines ops : forall f, InvF f ->
  exists f' vs, frun f ops = Ok (f', vs) /\ InvF f' /\ flen f' = flen f /\
                fspec_run (fabs f) ops = (fabs f', map obs_abs vs).
Proof.
  induction ops as [|o ops IH]; intros f I.
  - exists f, []. simpl. auto.
  - cbn [frun fspec_run].
    destruct (fstep_refines f o I) as [f1 [v [-> [I1 [L1 H1]]]]]. cbn [bind fst snd].
    destruct (IH f1 I1) as [f2 [vs [-> [I2 [L2 H2]]]]]. cbn [bind fst snd].
    exists f2, (v :: vs). rewrite H1. cbn [fst snd]. rewrite H2. cbn [fst snd map].
    repeat split; try apply I2; congruence.
Qed.

(* the delay-line law: the pushes return the initial content, then the pushed
   values themselves, i.e. push number k+N returns what push number k stored *)
Theorem fixed_delay f xs : InvF f ->
  exists f', fpushes xs f = Ok (f', firstn (length xs) (fq f ++ xs)) /\ InvF f' /\ flen f' = flen f.
Proof.
  intros I. destruct (fpushes_refines xs f I) as [f' [H [I' [L _]]]]. eauto.
Qed.

Theorem f_from_raw_parts_inv i (d : list A) :
  match f_from_raw_parts i d with
  | Ok f => i < length d /\ InvF f /\ first f = i /\ fdata f = d
  | Panic PAssert => ~ i < length d
  | _ => False
  end.
Proof.
  unfold f_from_raw_parts. destruct (Nat.ltb_spec i (length d)); [|lia].
  unfold InvF, flen; simpl. auto.
Qed.

End Proofs.
