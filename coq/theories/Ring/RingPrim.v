(* Vocabulary of the GENERATED ring-buffer model (gen/RingGen.v, written by
   translate/ring2coq.py from dasp_ring_buffer/src/lib.rs).  One Gallina
   primitive per Rust construct the translator accepts; no proofs here.

   How Rust values are represented:
     usize                     nat (unbounded: no wrap at 2^64, DESIGN section 3); `+` `*` are pure,
                               `-` panics on underflow (debug build), `%` `/` panic on a zero divisor
     S (the storage), &[T]     list A         (`self.data.slice()` is the list itself: the translator
                                               checks that every `Slice`/`SliceMut` impl is the identity view)
     &T, T                     A
     &mut [T]                  region = (offset, length) INTO self.data (`slice_mut()` is the whole of it)
     &mut T                    place  = an index INTO self.data; making one with get_unchecked_mut out of
                               range is UB, with `&mut x[i]` a PIndex panic
     slice::Iter / Chain       the list of items it yields;  slice::IterMut: the list of places it yields
     Cycle / Skip              stream = nat -> option A (the j-th item; None forever on an empty slice)
     DrainBounded<'a, S>       the buffer it mutably borrows (its state IS the buffer's state while it lives) *)
Require Import List Arith Bool.
From Dasp Require Import Base.Res Base.ListX Ring.Bounded Ring.Fixed.
Import ListNotations.

Definition place := nat.
Definition region := (nat * nat)%type.

(* the 64-bit reading of `+` / `*` (gen/RingGenCk.v): overflow panic when the result reaches the modulus M *)
Definition uadd (M a b : nat) : res nat := if a + b <? M then Ok (a + b) else Panic POverflow.
Definition umul (M a b : nat) : res nat := if a * b <? M then Ok (a * b) else Panic POverflow.
Definition usub (a b : nat) : res nat := if a <? b then Panic POverflow else Ok (a - b).
Definition urem (a n : nat) : res nat := if n =? 0 then Panic PDivZero else Ok (a mod n).
Definition udiv (a n : nat) : res nat := if n =? 0 then Panic PDivZero else Ok (a / n).
Definition rassert (c : bool) : res unit := if c then Ok tt else Panic PAssert.
Definition expect {B} (o : option B) : res B :=
  match o with Some v => Ok v | None => Panic PExpect end.

(* mutable slices *)
Definition region_len (r : region) : nat := snd r.
Definition region_split_at (r : region) (k : nat) : res (region * region) :=
  if snd r <? k then Panic PIndex else Ok ((fst r, k), (fst r + k, snd r - k)).
Definition region_to (r : region) (n : nat) : res region :=
  if snd r <? n then Panic PIndex else Ok (fst r, n).
Definition region_place_unchecked (r : region) (i : nat) : res place :=
  if i <? snd r then Ok (fst r + i) else UB.
Definition region_place_checked (r : region) (i : nat) : res place :=
  if i <? snd r then Ok (fst r + i) else Panic PIndex.
Definition region_places (r : region) : list place := seq (fst r) (snd r).

(* `for x in xs { body }` where the body updates the state *)
Fixpoint for_each {S B} (xs : list B) (body : S -> B -> res S) (s : S) : res S :=
  match xs with
  | [] => Ok s
  | x :: t => let* s' := body s x in for_each t body s'
  end.

Section RingPrim.
Context {A : Type}.

(* immutable slices *)
Definition split_at (l : list A) (k : nat) : res (list A * list A) :=
  if length l <? k then Panic PIndex else Ok (firstn k l, skipn k l).
Definition slice_to (l : list A) (n : nat) : res (list A) :=
  if length l <? n then Panic PIndex else Ok (firstn n l).

Definition whole (l : list A) : region := (0, length l).
(* what a region shows of the data it points into *)
Definition region_view (l : list A) (r : region) : list A := firstn (snd r) (skipn (fst r) l).

(* accesses through a place: mem::replace, ptr::write, ptr::read *)
Definition replace_at (l : list A) (p : place) (x : A) : res (list A * A) :=
  match nth_error l p with Some old => Ok (set_nth p x l, old) | None => UB end.
Definition write_at (l : list A) (p : place) (x : A) : res (list A) :=
  if p <? length l then Ok (set_nth p x l) else UB.
Definition read_at (l : list A) (p : place) : res A := get_unchecked l p.

(* iterator adaptors *)
Definition stream := nat -> option A.
Definition st_cycle (l : list A) : stream :=
  fun j => if length l =? 0 then None else nth_error l (j mod length l).
Definition st_skip (k : nat) (st : stream) : stream := fun j => st (k + j).
Definition st_take (n : nat) (st : stream) : list A :=
  flat_map (fun j => match st j with Some x => [x] | None => [] end) (seq 0 n).

(* field stores *)
Definition with_start (b : bounded A) (v : nat) : bounded A := {| start := v; len := len b; data := data b |}.
Definition with_len (b : bounded A) (v : nat) : bounded A := {| start := start b; len := v; data := data b |}.
Definition with_data (b : bounded A) (v : list A) : bounded A := {| start := start b; len := len b; data := v |}.
Definition with_first (f : fixed A) (v : nat) : fixed A := {| first := v; fdata := fdata f |}.
Definition with_fdata (f : fixed A) (v : list A) : fixed A := {| first := first f; fdata := v |}.

End RingPrim.
