(* Model of dasp_ring_buffer::Fixed (dasp_ring_buffer/src/lib.rs:163-410), written
   after the source.  Unchecked accesses return [UB] when out of range, checked
   slice indexing [Panic PIndex], `% 0` [Panic PDivZero], asserts [Panic PAssert]. *)
Require Import List Arith Bool.
From Dasp Require Import Base.Res Base.ListX Ring.Bounded.
Import ListNotations.

Section Fixed.
Context {A : Type}.

Record fixed := { first : nat; fdata : list A }.

Definition flen (f : fixed) : nat := length (fdata f).

Definition f_from_raw_parts (i : nat) (d : list A) : res fixed :=
  if i <? length d then Ok {| first := i; fdata := d |} else Panic PAssert.
Definition f_from (d : list A) : res fixed := f_from_raw_parts 0 d.

Definition fpush (f : fixed) (x : A) : res (fixed * A) :=
  let next := if first f + 1 =? flen f then 0 else first f + 1 in
  let* old := get_unchecked (fdata f) (first f) in
  Ok ({| first := next; fdata := set_nth (first f) x (fdata f) |}, old).

(* get / get_mut: `(self.first + index % self.len()) % self.len()` -- the index is reduced BEFORE the offset is
   added (repaired form, DESIGN F9: the earlier `(first + index) % len` overflowed usize for indices within `first`
   of usize::MAX; the machine-level statement is in Ring/IndexArith.v) *)
Definition fwrapped (f : fixed) (i : nat) : res nat :=
  let* r := rmod i (flen f) in rmod (first f + r) (flen f).

Definition fget (f : fixed) (i : nat) : res A :=
  let* w := fwrapped f i in get_checked (fdata f) w.

Definition fset (f : fixed) (i : nat) (x : A) : res fixed :=
  let* w := fwrapped f i in
  if w <? flen f then Ok {| first := first f; fdata := set_nth w x (fdata f) |} else Panic PIndex.

Definition fset_first (f : fixed) (i : nat) : res fixed :=
  let* w := rmod i (flen f) in Ok {| first := w; fdata := fdata f |}.

(* slices(): `let (end, start) = data.split_at(self.first); (start, end)` *)
Definition fslices (f : fixed) : res (list A * list A) :=
  if flen f <? first f then Panic PIndex
  else Ok (skipn (first f) (fdata f), firstn (first f) (fdata f)).

(* data.iter().cycle().skip(first): the j-th item, None when the slice is empty *)
Definition floop_nth (f : fixed) (j : nat) : option A :=
  if flen f =? 0 then None else nth_error (fdata f) ((first f + j) mod flen f).

Definition fiter_loop (f : fixed) (k : nat) : list A :=
  flat_map (fun j => match floop_nth f j with Some x => [x] | None => [] end) (seq 0 k).

Definition fiter (f : fixed) : list A := fiter_loop f (flen f).

(* iter_mut(): slices_mut, start part then end part; every reference updated by g *)
Definition fmap_in_place (g : A -> A) (f : fixed) : res (fixed * list A) :=
  let* p := fslices f in
  Ok ({| first := first f; fdata := map g (snd p) ++ map g (fst p) |}, fst p ++ snd p).

Fixpoint fextend (xs : list A) (f : fixed) : res fixed :=
  match xs with
  | [] => Ok f
  | x :: t => let* r := fpush f x in fextend t (fst r)
  end.

(* pushes xs one by one, collecting what each push returns *)
Fixpoint fpushes (xs : list A) (f : fixed) : res (fixed * list A) :=
  match xs with
  | [] => Ok (f, [])
  | x :: t => let* r := fpush f x in let* r' := fpushes t (fst r) in Ok (fst r', snd r :: snd r')
  end.

End Fixed.
Arguments fixed A : clear implicits.
