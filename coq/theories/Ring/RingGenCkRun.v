(* Search used by lib/props/c06.py when Ring/RingGenCkEquiv.v no longer compiles (an index addition of the
   regenerated source can overflow): the 64-bit reading of the generated methods (gen/RingGenCk.v) against the
   unbounded reading (gen/RingGen.v) on a SCALED-DOWN machine -- modulus M = 2 * capacity, every valid state of
   capacities 1..3, every argument below M.  A hit is a concrete state and index on which the source, read with
   that modulus, panics with overflow (or, without checks, wraps); the same arithmetic at M = 2^64 needs an index
   near usize::MAX, which the huge-index family of the correspondence exercises on the real crate.
   Depends on the generated definitions only. *)
Require Import List ZArith Arith Bool.
From Dasp Require Import Base.Res Base.ListX Ring.Bounded Ring.Fixed Ring.RingPrim.
From DaspGen Require Import RingGen RingGenCk.
Import ListNotations.

Definition zl_eqb (a b : list Z) : bool := if list_eq_dec Z.eq_dec a b then true else false.
Definition oz_eqb (a b : option Z) : bool :=
  match a, b with Some x, Some y => Z.eqb x y | None, None => true | _, _ => false end.
Definition on_eqb (a b : option nat) : bool :=
  match a, b with Some x, Some y => Nat.eqb x y | None, None => true | _, _ => false end.
Definition b_eqb (a b : bounded Z) : bool :=
  Nat.eqb (start a) (start b) && Nat.eqb (len a) (len b) && zl_eqb (data a) (data b).
Definition f_eqb (a b : fixed Z) : bool := Nat.eqb (first a) (first b) && zl_eqb (fdata a) (fdata b).
Definition res_eqb {T} (e : T -> T -> bool) (a b : res T) : bool :=
  match a, b with
  | Ok x, Ok y => e x y
  | Panic j, Panic k => Nat.eqb (panic_code j) (panic_code k)
  | UB, UB => true
  | _, _ => false
  end.
Definition pair_eqb {S T} (e1 : S -> S -> bool) (e2 : T -> T -> bool) (a b : S * T) : bool :=
  e1 (fst a) (fst b) && e2 (snd a) (snd b).

(* method codes: 1 push 2 pop 3 get 4 get_mut (Bounded) ; 11 push 12 get 13 get_mut (Fixed) *)
Definition bounded_hits (M : nat) (b : bounded Z) : list (list Z) :=
  let z := Z.of_nat in
  let st := [z M; z (start b); z (len b); z (length (data b))] in
  (if res_eqb (pair_eqb b_eqb oz_eqb) (Bounded_push_ck M b 7%Z) (Bounded_push b 7%Z) then [] else [1%Z :: st]) ++
  (if res_eqb (pair_eqb b_eqb oz_eqb) (Bounded_pop_ck M b) (Bounded_pop b) then [] else [2%Z :: st]) ++
  flat_map (fun i =>
    (if res_eqb oz_eqb (Bounded_get_ck M b i) (Bounded_get b i) then [] else [3%Z :: st ++ [z i]]) ++
    (if res_eqb (pair_eqb b_eqb on_eqb) (Bounded_get_mut_ck M b i) (Bounded_get_mut b i) then [] else [4%Z :: st ++ [z i]]))
    (seq 0 M).

Definition fixed_hits (M : nat) (f : fixed Z) : list (list Z) :=
  let z := Z.of_nat in
  let st := [z M; z (first f); z (length (fdata f))] in
  (if res_eqb (pair_eqb f_eqb Z.eqb) (Fixed_push_ck M f 7%Z) (Fixed_push f 7%Z) then [] else [11%Z :: st]) ++
  flat_map (fun i =>
    (if res_eqb Z.eqb (Fixed_get_ck M f i) (Fixed_get f i) then [] else [12%Z :: st ++ [z i]]) ++
    (if res_eqb (pair_eqb f_eqb Nat.eqb) (Fixed_get_mut_ck M f i) (Fixed_get_mut f i) then [] else [13%Z :: st ++ [z i]]))
    (seq 0 M).

Definition the_data (cap : nat) : list Z := map (fun k => (10 * Z.of_nat (S k))%Z) (seq 0 cap).

(* every valid state of capacities 1..3, modulus 2 * capacity *)
Definition scaled_down_hits : list (list Z) :=
  flat_map (fun cap =>
    flat_map (fun s =>
      flat_map (fun l => bounded_hits (2 * cap) {| start := s; len := l; data := the_data cap |}) (seq 0 (S cap)) ++
      fixed_hits (2 * cap) {| first := s; fdata := the_data cap |})
      (seq 0 cap))
    [1; 2; 3].
