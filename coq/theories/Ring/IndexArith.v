(* usize-level reading of the index computations of dasp_ring_buffer (the models in Bounded.v / Fixed.v use
   unbounded nat).  Here the additions are 64-bit: [uadd dbg a b] panics on overflow when overflow checks are on
   and wraps otherwise.  Proved: in every VALID state none of the additions the source performs can overflow,
   for every index a caller can pass (0 <= index < 2^64), so the nat models are exact; and the form of
   Fixed::get / get_mut before repair F9 is refuted by a concrete index.
   Also: the two normalisation facts that let the correspondence feed indices near usize::MAX to the nat model
   without ever building a huge unary number. *)
Require Import List Arith ZArith Bool Lia.
From Dasp Require Import Base.Res Base.ListX Ring.Bounded Ring.BoundedSpec Ring.Fixed Ring.FixedSpec.
Import ListNotations.

Module U.
Open Scope Z_scope.
Definition USIZE : Z := 2 ^ 64.
Definition uadd (dbg : bool) (a b : Z) : res Z :=
  if a + b <? USIZE then Ok (a + b) else if dbg then Panic POverflow else Ok ((a + b) mod USIZE).
Definition urem (a b : Z) : res Z := if b =? 0 then Panic PDivZero else Ok (a mod b).

(* Fixed::get / get_mut as repaired:  (self.first + index % self.len()) % self.len() *)
Definition fixed_index (dbg : bool) (first index len : Z) : res Z :=
  let* r := urem index len in let* s := uadd dbg first r in urem s len.
(* ... and as it was:  (self.first + index) % self.len() *)
Definition fixed_index_old (dbg : bool) (first index len : Z) : res Z :=
  let* s := uadd dbg first index in urem s len.
(* Bounded::get / get_mut after the `index >= self.len` guard:  (self.start + index) % self.max_len() *)
Definition bounded_index (dbg : bool) (start index cap : Z) : res Z :=
  let* s := uadd dbg start index in urem s cap.
(* Bounded::push, not full:  (self.start + self.len) % self.max_len();  full / pop: start + 1 *)
Definition bounded_push_index (dbg : bool) (start len cap : Z) : res Z :=
  let* s := uadd dbg start len in urem s cap.

Lemma fixed_index_ok dbg first index len :
  0 <= first < len -> len <= 2 ^ 63 -> 0 <= index < USIZE ->
  fixed_index dbg first index len = Ok ((first + index) mod len).
Proof.
  intros Hf Hl Hi. unfold fixed_index, urem, uadd, USIZE in *.
  destruct (Z.eqb_spec len 0) as [E|E]; [lia|]. cbn [bind].
  assert (Hm : 0 <= index mod len < len) by (apply Z.mod_pos_bound; lia).
  destruct (Z.ltb_spec (first + index mod len) (2 ^ 64)) as [L|L]; [|lia]. cbn [bind].
  destruct (Z.eqb_spec len 0); [lia|]. f_equal.
  rewrite Zplus_mod_idemp_r. reflexivity.
Qed.

Lemma fixed_index_old_refuted :
  fixed_index_old true 1 (2 ^ 64 - 1) 3 = Panic POverflow /\
  fixed_index_old false 1 (2 ^ 64 - 1) 3 = Ok 0 /\
  (1 + (2 ^ 64 - 1)) mod 3 = 1 /\ fixed_index true 1 (2 ^ 64 - 1) 3 = Ok 1 /\ fixed_index false 1 (2 ^ 64 - 1) 3 = Ok 1.
Proof. repeat split; vm_compute; reflexivity. Qed.

Lemma bounded_index_ok dbg start index len cap :
  0 <= start < cap -> 0 <= index < len -> len <= cap -> cap <= 2 ^ 63 ->
  bounded_index dbg start index cap = Ok ((start + index) mod cap).
Proof.
  intros Hs Hi Hl Hc. unfold bounded_index, urem, uadd, USIZE.
  destruct (Z.ltb_spec (start + index) (2 ^ 64)) as [L|L]; [|lia]. cbn [bind].
  destruct (Z.eqb_spec cap 0); [lia|]. reflexivity.
Qed.

Lemma bounded_push_index_ok dbg start len cap :
  0 <= start < cap -> 0 <= len <= cap -> cap <= 2 ^ 63 ->
  bounded_push_index dbg start len cap = Ok ((start + len) mod cap) /\ uadd dbg start 1 = Ok (start + 1).
Proof.
  intros Hs Hl Hc. unfold bounded_push_index, urem, uadd, USIZE. split.
  - destruct (Z.ltb_spec (start + len) (2 ^ 64)) as [L|L]; [|lia]. cbn [bind].
    destruct (Z.eqb_spec cap 0); [lia|]. reflexivity.
  - destruct (Z.ltb_spec (start + 1) (2 ^ 64)) as [L|L]; [reflexivity|lia].
Qed.
Lemma index_arith_no_overflow (dbg : bool) (a index n : Z) :
  0 <= index < 2 ^ 64 -> n <= 2 ^ 63 ->
   (0 <= a < n -> fixed_index dbg a index n = Ok ((a + index) mod n)) /\
   (forall len, 0 <= a < n -> 0 <= index < len -> len <= n -> bounded_index dbg a index n = Ok ((a + index) mod n)) /\
   (forall len, 0 <= a < n -> 0 <= len <= n ->
      bounded_push_index dbg a len n = Ok ((a + len) mod n) /\ uadd dbg a 1 = Ok (a + 1)).
Proof.
  intros Hi Hn. split; [|split].
  - intros Ha. now apply fixed_index_ok.
  - intros len Ha Hx Hl. now apply (bounded_index_ok dbg a index len n).
  - intros len Ha Hl. now apply bounded_push_index_ok.
Qed.
End U.

(* ---- normalisation used by Ring/RingRun.v ---- *)
Section Norm.
Context {A : Type}.

(* Bounded: every index at or beyond len behaves alike; in a valid state max_len + 1 is such an index *)
Lemma bounded_index_clamp (b : bounded A) (i : nat) (x : A) : len b <= max_len b ->
  let j := Nat.min i (max_len b + 1) in
  step b (OGet i) = step b (OGet j) /\ step b (OSet i x) = step b (OSet j x) /\
  step b (OIndex i) = step b (OIndex j) /\ step b (OIndexSet i x) = step b (OIndexSet j x).
Proof.
  intros Hl j. destruct (Nat.le_gt_cases i (max_len b + 1)) as [H|H].
  - assert (E : j = i) by (unfold j; lia). rewrite E. auto.
  - assert (E : j = max_len b + 1) by (unfold j; lia). rewrite E.
    assert (G1 : (len b <=? i) = true) by (apply Nat.leb_le; lia).
    assert (G2 : (len b <=? max_len b + 1) = true) by (apply Nat.leb_le; lia).
    unfold step, index, index_set, get, set. rewrite G1, G2. auto.
Qed.

(* Fixed: an index and its remainder modulo the length are interchangeable (and with an empty slice both panic) *)
Lemma fixed_index_reduce (f : fixed A) (i : nat) (x : A) :
  let j := if flen f =? 0 then 0 else i mod flen f in
  fget f i = fget f j /\ fset f i x = fset f j x /\ fset_first f i = fset_first f j.
Proof.
  intros j. unfold fget, fset, fset_first, fwrapped, rmod, j.
  destruct (Nat.eqb_spec (flen f) 0) as [E|E]; [auto|].
  rewrite Nat.mod_mod by exact E. auto.
Qed.
End Norm.
