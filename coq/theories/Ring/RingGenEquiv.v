(* Every definition of the GENERATED model (gen/RingGen.v, regenerated from
   dasp_ring_buffer/src/lib.rs by translate/ring2coq.py on every run) equals the corresponding
   definition of the hand model (Ring/Bounded.v, Ring/Fixed.v) -- for ALL inputs, valid or not,
   including which panic / UB comes out.  Hence the interpreters built on the generated methods
   (Ring/RingGenGlue.v) equal [step]/[fstep], and the refinement theorems of BoundedProofs /
   FixedProofs are theorems about the regenerated model.

   The proofs are deliberately not syntactic: each unfolds both sides, splits on every test and
   closes the leaves with lia / congruence, so re-orderings of the source that do not change what
   is computed (operands of `+`, `a >= b` for `b <= a`, a temporary more or less) do not break them. *)
Require Import List Arith Bool Lia.
From Dasp Require Import Base.Res Base.ListX Ring.Bounded Ring.BoundedSpec Ring.BoundedProofs
  Ring.Fixed Ring.FixedSpec Ring.FixedProofs Ring.RingPrim Ring.RingGenGlue.
From DaspGen Require Import RingGen.
Import ListNotations.

Ltac unf_prims :=
  unfold usub, urem, udiv, rassert, expect, region_len, region_split_at, region_to, region_place_unchecked,
    region_place_checked, region_places, split_at, slice_to, whole, replace_at, write_at, read_at,
    with_start, with_len, with_data, with_first, with_fdata, get_unchecked, get_checked, rmod, place, region in *.

Ltac simp := cbn [bind fst snd start len data first fdata Nat.add] in *.

Ltac nth_facts :=
  repeat match goal with
  | H : nth_error ?l ?i = None |- _ => apply nth_error_None in H
  | H : nth_error ?l ?i = Some _ |- _ => apply nth_error_Some_lt in H
  end.

Ltac split1 :=
  match goal with
  | |- context [?a <? ?b] => destruct (Nat.ltb_spec a b)
  | |- context [?a <=? ?b] => destruct (Nat.leb_spec a b)
  | |- context [?a =? ?b] => destruct (Nat.eqb_spec a b)
  | |- context [match nth_error ?l ?i with _ => _ end] => let E := fresh "E" in destruct (nth_error l i) eqn:E
  end.

Ltac lens := repeat (progress rewrite ?app_length, ?map_length, ?firstn_length, ?skipn_length, ?set_nth_length, ?seq_length in * ).

Ltac close :=
  simp; lens; nth_facts;
  try reflexivity; try (exfalso; lia); try solve [repeat (f_equal; try lia)].

Ltac tests :=
  repeat match goal with
  | |- context [?a <? ?b] => destruct (Nat.ltb_spec a b)
  | |- context [?a <=? ?b] => destruct (Nat.leb_spec a b)
  end; cbn [andb orb].

(* harmless re-orderings: operands of `+` swapped, or an index written differently, under a function lia does
   not look into ([mod], [nth_error], [set_nth]): bring the variants to one spelling before splitting *)
Ltac norm_comm :=
  repeat match goal with
  | |- context [?a + ?b] =>
      lazymatch a with b => fail | _ => idtac end;
      match goal with |- context [b + a] => rewrite (Nat.add_comm b a) end
  end.
Ltac distinct x y :=
  lazymatch x with context [y] => fail | _ => idtac end;
  lazymatch y with context [x] => fail | _ => idtac end.
Ltac norm_args :=
  repeat match goal with
  | |- context [?x mod ?n] =>
      match goal with |- context [?y mod n] => distinct x y; replace y with x by lia end
  | |- context [nth_error ?l ?x] =>
      match goal with |- context [nth_error l ?y] => distinct x y; replace y with x by lia end
  end.

Ltac ring_equiv := unf_prims; simp; norm_comm; norm_args; repeat (split1; simp; norm_args); close.

Section Equiv.
Context {A : Type}.
Implicit Types (b : bounded A) (f : fixed A) (d : list A).

(* ---------------------------------------------------------------- places *)

Lemma apply_places_length g ps : forall d, length (apply_places g ps d) = length d.
Proof.
  induction ps as [|p t IH]; intros d; [reflexivity|].
  unfold apply_places in *. cbn [fold_left]. rewrite IH.
  destruct (nth_error d p); [apply set_nth_length|reflexivity].
Qed.

Lemma apply_places_app g ps qs d : apply_places g (ps ++ qs) d = apply_places g qs (apply_places g ps d).
Proof. unfold apply_places. apply fold_left_app. Qed.

Lemma nth_error_apply_seq g n : forall a d i,
  nth_error (apply_places g (seq a n) d) i =
  if (a <=? i) && (i <? a + n) then option_map g (nth_error d i) else nth_error d i.
Proof.
  induction n as [|n IH]; intros a d i.
  - cbn [seq apply_places fold_left]. destruct (Nat.leb_spec a i), (Nat.ltb_spec i (a + 0)); cbn [andb]; try reflexivity; lia.
  - cbn [seq]. unfold apply_places in *. cbn [fold_left]. rewrite IH.
    assert (E : nth_error (match nth_error d a with Some v => set_nth a (g v) d | None => d end) i =
                if a =? i then option_map g (nth_error d i) else nth_error d i).
    { destruct (Nat.eqb_spec a i) as [->|Hne].
      - destruct (nth_error d i) eqn:E; cbn [option_map].
        + apply nth_error_set_nth_eq. eapply nth_error_Some_lt; eauto.
        + exact E.
      - destruct (nth_error d a); [now apply nth_error_set_nth_neq|reflexivity]. }
    rewrite E.
    destruct (Nat.leb_spec (S a) i), (Nat.ltb_spec i (S a + n)), (Nat.leb_spec a i), (Nat.ltb_spec i (a + S n)),
      (Nat.eqb_spec a i); cbn [andb]; try reflexivity; lia.
Qed.

Lemma skipn_cons_nth d a v : nth_error d a = Some v -> skipn a d = v :: skipn (S a) d.
Proof.
  revert a; induction d as [|h t IH]; intros [|a] H; cbn in *; try discriminate.
  - congruence.
  - now apply IH.
Qed.

Lemma read_places_seq n : forall a d, a + n <= length d -> read_places (seq a n) d = firstn n (skipn a d).
Proof.
  induction n as [|n IH]; intros a d H; [reflexivity|].
  cbn [seq]. unfold read_places in *. cbn [flat_map].
  destruct (nth_error_lt_Some d a ltac:(lia)) as [v Hv]. rewrite Hv.
  rewrite (skipn_cons_nth _ _ _ Hv). cbn [firstn app]. f_equal. apply IH. lia.
Qed.

Lemma read_places_app ps qs d : read_places (ps ++ qs) d = read_places ps d ++ read_places qs d.
Proof. unfold read_places. apply flat_map_app. Qed.

Lemma opt_map_none g d i : length d <= i -> option_map g (nth_error d i) = nth_error d i.
Proof. intros H. apply nth_error_None in H. now rewrite H. Qed.

(* the two shapes the data takes after a map through the slice pair, pointwise *)
Lemma nth_error_map_wrapped g d a m i : m <= a -> a <= length d ->
  nth_error ((map g (firstn m (firstn a d)) ++ skipn m (firstn a d)) ++ map g (skipn a d)) i =
  if (i <? m) || (a <=? i) then option_map g (nth_error d i) else nth_error d i.
Proof.
  intros Hm Ha.
  assert (L1 : length (map g (firstn m (firstn a d)) ++ skipn m (firstn a d)) = a) by (lens; lia).
  destruct (Nat.ltb_spec i m) as [H1|H1]; cbn [orb].
  - rewrite nth_error_app1 by lia. rewrite nth_error_app1 by (lens; lia).
    rewrite nth_error_map_in, !nth_error_firstn.
    destruct (Nat.ltb_spec i m), (Nat.ltb_spec i a); try lia. reflexivity.
  - destruct (Nat.leb_spec a i) as [H2|H2].
    + rewrite nth_error_app2 by lia. rewrite L1, nth_error_map_in, nth_error_skipn.
      replace (a + (i - a)) with i by lia. reflexivity.
    + rewrite nth_error_app1 by lia. rewrite nth_error_app2 by (lens; lia).
      lens. rewrite nth_error_skipn, nth_error_firstn.
      replace (Nat.min m (Nat.min a (length d))) with m by lia.
      replace (m + (i - m)) with i by lia.
      destruct (Nat.ltb_spec i a); try lia. reflexivity.
Qed.

Lemma nth_error_map_straight g d a n i : a + n <= length d ->
  nth_error (firstn a d ++ (map g (firstn n (skipn a d)) ++ skipn n (skipn a d))) i =
  if (a <=? i) && (i <? a + n) then option_map g (nth_error d i) else nth_error d i.
Proof.
  intros H.
  destruct (Nat.leb_spec a i) as [H1|H1]; cbn [andb].
  - rewrite nth_error_app2 by (lens; lia). lens. replace (Nat.min a (length d)) with a by lia.
    destruct (Nat.ltb_spec i (a + n)) as [H2|H2].
    + rewrite nth_error_app1 by (lens; lia). rewrite nth_error_map_in, nth_error_firstn, nth_error_skipn.
      destruct (Nat.ltb_spec (i - a) n); try lia. replace (a + (i - a)) with i by lia. reflexivity.
    + rewrite nth_error_app2 by (lens; lia). lens. rewrite !nth_error_skipn. f_equal. lia.
  - rewrite nth_error_app1 by (lens; lia). rewrite nth_error_firstn.
    destruct (Nat.ltb_spec i a); try lia. reflexivity.
Qed.

(* ---------------------------------------------------------------- Bounded, method by method *)

Lemma Bounded_max_len_eq b : Bounded_max_len b = Ok (max_len b).
Proof. reflexivity. Qed.
Lemma Bounded_len_eq b : Bounded_len b = Ok (len b).
Proof. reflexivity. Qed.
Lemma Bounded_is_empty_eq b : Bounded_is_empty b = Ok (is_empty b).
Proof. reflexivity. Qed.
Lemma Bounded_is_full_eq b : Bounded_is_full b = Ok (is_full b).
Proof. reflexivity. Qed.

Lemma Bounded_from_raw_parts_eq s l d : Bounded_from_raw_parts s l d = from_raw_parts s l d.
Proof. unfold Bounded_from_raw_parts, from_raw_parts. ring_equiv. Qed.
Lemma Bounded_from_full_eq d : Bounded_from_full d = from_full d.
Proof. unfold Bounded_from_full, from_full. apply Bounded_from_raw_parts_eq. Qed.
Lemma Bounded_from_eq d : Bounded_from d = from_empty d.
Proof. unfold Bounded_from, from_empty. apply Bounded_from_raw_parts_eq. Qed.
Lemma Bounded_from_iter_eq d : Bounded_from_iter d = from_empty d.
Proof. unfold Bounded_from_iter. apply Bounded_from_eq. Qed.
Lemma Bounded_from_raw_parts_unchecked_eq s l d :
  Bounded_from_raw_parts_unchecked s l d = Ok {| start := s; len := l; data := d |}.
Proof. reflexivity. Qed.
Lemma Bounded_into_raw_parts_eq b : Bounded_into_raw_parts b = Ok (start b, len b, data b).
Proof. reflexivity. Qed.

Lemma Bounded_push_eq b x : Bounded_push b x = push b x.
Proof. unfold Bounded_push, Bounded_max_len, push, next_start, max_len. ring_equiv. Qed.
Lemma Bounded_pop_eq b : Bounded_pop b = pop b.
Proof. unfold Bounded_pop, Bounded_max_len, pop, next_start, max_len. ring_equiv. Qed.
Lemma Bounded_get_eq b i : Bounded_get b i = get b i.
Proof. unfold Bounded_get, Bounded_max_len, get, wrapped_index, max_len. ring_equiv. Qed.
Lemma gen_set_eq b i x : gen_set b i x = set b i x.
Proof. unfold gen_set, Bounded_get_mut, Bounded_max_len, set, wrapped_index, max_len. ring_equiv. Qed.
Lemma Bounded_index_eq b i : Bounded_index b i = index b i.
Proof. unfold Bounded_index, index. rewrite Bounded_get_eq. destruct (get b i) as [[v|]| |]; reflexivity. Qed.
Lemma gen_index_set_eq b i x : gen_index_set b i x = index_set b i x.
Proof.
  unfold gen_index_set, Bounded_index_mut, index_set. rewrite <- gen_set_eq.
  unfold gen_set, Bounded_get_mut, Bounded_max_len. ring_equiv.
Qed.
Lemma Bounded_slices_eq b : Bounded_slices b = slices b.
Proof. unfold Bounded_slices, slices. ring_equiv. Qed.
Lemma Bounded_iter_eq b : Bounded_iter b = iter b.
Proof. unfold Bounded_iter, iter. rewrite Bounded_slices_eq. destruct (slices b) as [[l1 l2]| |]; reflexivity. Qed.

(* the mutable slice pair shows what the immutable one shows *)
Lemma gen_slices_mut_view_eq b : gen_slices_mut_view b = slices b.
Proof.
  unfold gen_slices_mut_view, Bounded_slices_mut, slices, region_view. ring_equiv.
  all: f_equal; f_equal; [|now rewrite skipn_O, firstn_firstn, Nat.min_l by lia].
  all: rewrite firstn_all2 by (lens; lia); reflexivity.
Qed.

Lemma gen_map_in_place_eq g b : gen_map_in_place g b = map_in_place g b.
Proof.
  unfold gen_map_in_place, Bounded_iter_mut, Bounded_slices_mut, map_in_place. ring_equiv.
  (* wrapped (start part whole, end part trimmed) and not wrapped (a prefix of the start part) *)
  all: f_equal; f_equal; rewrite apply_places_app; apply list_eq_nth;
    [ rewrite !apply_places_length; lens; lia
    | intros i _; rewrite !nth_error_apply_seq;
      first [rewrite nth_error_map_wrapped by lia | rewrite nth_error_map_straight by lia];
      tests; try reflexivity; try lia; try (symmetry; apply opt_map_none; lia); try (apply opt_map_none; lia) ].
Qed.

Lemma DrainBounded_next_eq b : DrainBounded_next b = pop b.
Proof. unfold DrainBounded_next. rewrite Bounded_pop_eq. destruct (pop b) as [[b' o]| |]; reflexivity. Qed.
Lemma DrainBounded_size_hint_eq b : DrainBounded_size_hint b = Ok (len b, Some (len b)).
Proof. reflexivity. Qed.
Lemma DrainBounded_len_eq b : DrainBounded_len b = Ok (len b).
Proof. reflexivity. Qed.
Lemma Bounded_drain_eq b : Bounded_drain b = Ok (b, b).
Proof. reflexivity. Qed.

Lemma gen_drain_eq k : forall b, gen_drain k b = drain k b.
Proof.
  unfold gen_drain, Bounded_drain. cbn [bind].
  induction k as [|k IH]; intros b; [reflexivity|].
  cbn [gen_drain_loop drain]. rewrite DrainBounded_next_eq.
  destruct (pop b) as [[b' [x|]]| |]; cbn [bind fst snd]; try reflexivity.
  rewrite IH. destruct (drain k b') as [[b'' xs]| |]; reflexivity.
Qed.

Lemma Bounded_extend_eq xs : forall b, Bounded_extend b xs = extend xs b.
Proof.
  unfold Bounded_extend. induction xs as [|x t IH]; intros b; [reflexivity|].
  cbn [for_each extend]. rewrite Bounded_push_eq.
  destruct (push b x) as [[b' o]| |]; cbn [bind fst]; try reflexivity. apply IH.
Qed.

Theorem gen_step_eq b (o : op A) : gen_step b o = step b o.
Proof.
  unfold gen_step, step; destruct o; f_equal;
    rewrite ?Bounded_push_eq, ?Bounded_pop_eq, ?Bounded_get_eq, ?gen_set_eq, ?Bounded_index_eq, ?gen_index_set_eq,
      ?Bounded_slices_eq, ?Bounded_iter_eq, ?gen_map_in_place_eq, ?gen_drain_eq, ?Bounded_extend_eq,
      ?Bounded_len_eq, ?Bounded_is_empty_eq, ?Bounded_is_full_eq, ?Bounded_max_len_eq; cbn [bind];
    try reflexivity;
    match goal with |- bind ?r _ = bind ?r _ => destruct r as [[? ?]| |]; reflexivity end.
Qed.

Theorem gen_run_eq (ops : list (op A)) : forall b, gen_run b ops = run b ops.
Proof.
  induction ops as [|o t IH]; intros b; [reflexivity|].
  cbn [gen_run run]. rewrite gen_step_eq. destruct (step b o) as [[b' v]| |]; cbn [bind fst snd]; try reflexivity.
  now rewrite IH.
Qed.

(* ---------------------------------------------------------------- Fixed, method by method *)

Lemma Fixed_len_eq f : Fixed_len f = Ok (flen f).
Proof. reflexivity. Qed.
Lemma Fixed_from_raw_parts_eq i d : Fixed_from_raw_parts i d = f_from_raw_parts i d.
Proof. unfold Fixed_from_raw_parts, f_from_raw_parts. ring_equiv. Qed.
Lemma Fixed_from_eq d : Fixed_from d = f_from d.
Proof. unfold Fixed_from, f_from. apply Fixed_from_raw_parts_eq. Qed.
Lemma Fixed_from_iter_eq d : Fixed_from_iter d = f_from d.
Proof. unfold Fixed_from_iter. apply Fixed_from_eq. Qed.
Lemma Fixed_from_raw_parts_unchecked_eq i d : Fixed_from_raw_parts_unchecked i d = Ok {| first := i; fdata := d |}.
Proof. reflexivity. Qed.
Lemma Fixed_into_raw_parts_eq f : Fixed_into_raw_parts f = Ok (first f, fdata f).
Proof. reflexivity. Qed.

Lemma Fixed_push_eq f x : Fixed_push f x = fpush f x.
Proof. unfold Fixed_push, Fixed_len, fpush, flen. ring_equiv. Qed.
Lemma Fixed_get_eq f i : Fixed_get f i = fget f i.
Proof. unfold Fixed_get, Fixed_len, fget, fwrapped, flen. ring_equiv. Qed.
Lemma Fixed_index_eq f i : Fixed_index f i = fget f i.
Proof. unfold Fixed_index. apply Fixed_get_eq. Qed.
Lemma gen_fset_eq f i x : gen_fset f i x = fset f i x.
Proof. unfold gen_fset, Fixed_get_mut, Fixed_len, fset, fwrapped, flen. ring_equiv. Qed.
Lemma gen_findex_set_eq f i x : gen_findex_set f i x = fset f i x.
Proof. unfold gen_findex_set, Fixed_index_mut, Fixed_get_mut, Fixed_len, fset, fwrapped, flen. ring_equiv. Qed.
Lemma Fixed_set_first_eq f i : Fixed_set_first f i = fset_first f i.
Proof. unfold Fixed_set_first, Fixed_len, fset_first, flen. ring_equiv. Qed.
Lemma Fixed_slices_eq f : Fixed_slices f = fslices f.
Proof. unfold Fixed_slices, fslices, flen. ring_equiv. Qed.
Lemma gen_fslices_mut_view_eq f : gen_fslices_mut_view f = fslices f.
Proof.
  unfold gen_fslices_mut_view, Fixed_slices_mut, fslices, flen, region_view. ring_equiv.
  f_equal; f_equal; rewrite ?skipn_O; try reflexivity.
  rewrite firstn_all2 by (lens; lia). reflexivity.
Qed.

(* the looping iterator, item by item *)
Lemma Fixed_iter_loop_eq f : exists st, Fixed_iter_loop f = Ok st /\ forall j, st j = floop_nth f j.
Proof. eexists; split; [reflexivity|]. intros j. reflexivity. Qed.
Lemma gen_fiter_loop_eq f k : gen_fiter_loop f k = Ok (fiter_loop f k).
Proof. reflexivity. Qed.
Lemma Fixed_iter_eq f : Fixed_iter f = Ok (fiter f).
Proof. reflexivity. Qed.

Lemma gen_fmap_in_place_eq g f : gen_fmap_in_place g f = fmap_in_place g f.
Proof.
  unfold gen_fmap_in_place, Fixed_iter_mut, Fixed_slices_mut, fmap_in_place, fslices, flen. ring_equiv.
  f_equal. f_equal.
  - f_equal. rewrite apply_places_app, <- map_app, firstn_skipn.
    apply list_eq_nth.
    + rewrite !apply_places_length. now lens.
    + intros i _. rewrite !nth_error_apply_seq, nth_error_map_in.
      tests; try reflexivity; try lia; try (symmetry; apply opt_map_none; lia); try (apply opt_map_none; lia).
  - rewrite read_places_app, !read_places_seq by lia.
    rewrite skipn_O. f_equal. apply firstn_all2. lens. lia.
Qed.

Lemma Fixed_extend_eq xs : forall f, Fixed_extend f xs = fextend xs f.
Proof.
  unfold Fixed_extend. induction xs as [|x t IH]; intros f; [reflexivity|].
  cbn [for_each fextend]. rewrite Fixed_push_eq.
  destruct (fpush f x) as [[f' o]| |]; cbn [bind fst]; try reflexivity. apply IH.
Qed.

Lemma gen_fpushes_eq xs : forall f, gen_fpushes xs f = fpushes xs f.
Proof.
  induction xs as [|x t IH]; intros f; [reflexivity|].
  cbn [gen_fpushes fpushes]. rewrite Fixed_push_eq.
  destruct (fpush f x) as [[f' o]| |]; cbn [bind fst snd]; try reflexivity.
  rewrite IH. destruct (fpushes t f') as [[f'' rs]| |]; reflexivity.
Qed.

Theorem gen_fstep_eq f (o : fop A) : gen_fstep f o = fstep f o.
Proof.
  unfold gen_fstep, fstep; destruct o; f_equal;
    rewrite ?Fixed_push_eq, ?Fixed_index_eq, ?gen_findex_set_eq, ?Fixed_set_first_eq, ?Fixed_slices_eq,
      ?Fixed_iter_eq, ?gen_fiter_loop_eq, ?gen_fmap_in_place_eq, ?Fixed_extend_eq, ?Fixed_len_eq; cbn [bind];
    try reflexivity;
    match goal with |- bind ?r _ = bind ?r _ => destruct r as [[? ?]| |]; reflexivity end.
Qed.

Theorem gen_frun_eq (ops : list (fop A)) : forall f, gen_frun f ops = frun f ops.
Proof.
  induction ops as [|o t IH]; intros f; [reflexivity|].
  cbn [gen_frun frun]. rewrite gen_fstep_eq. destruct (fstep f o) as [[f' v]| |]; cbn [bind fst snd]; try reflexivity.
  now rewrite IH.
Qed.

(* ---------------------------------------------------------------- the statements props/C06.v pins *)

(* every generated method of Bounded / DrainBounded is the hand model's, for all inputs *)
Definition bounded_methods_agree : Prop :=
  (forall s l d, Bounded_from_raw_parts s l d = from_raw_parts s l d) /\
  (forall d, Bounded_from_full d = from_full d) /\
  (forall d, Bounded_from d = from_empty d) /\
  (forall d, Bounded_from_iter d = from_empty d) /\
  (forall s l d, Bounded_from_raw_parts_unchecked s l d = Ok {| start := s; len := l; data := d |}) /\
  (forall b, Bounded_into_raw_parts b = Ok (start b, len b, data b)) /\
  (forall b, Bounded_max_len b = Ok (max_len b)) /\
  (forall b, Bounded_len b = Ok (len b)) /\
  (forall b, Bounded_is_empty b = Ok (is_empty b)) /\
  (forall b, Bounded_is_full b = Ok (is_full b)) /\
  (forall b x, Bounded_push b x = push b x) /\
  (forall b, Bounded_pop b = pop b) /\
  (forall b i, Bounded_get b i = get b i) /\
  (forall b i x, gen_set b i x = set b i x) /\
  (forall b i, Bounded_index b i = index b i) /\
  (forall b i x, gen_index_set b i x = index_set b i x) /\
  (forall b, Bounded_slices b = slices b) /\
  (forall b, gen_slices_mut_view b = slices b) /\
  (forall b, Bounded_iter b = iter b) /\
  (forall g b, gen_map_in_place g b = map_in_place g b) /\
  (forall b, Bounded_drain b = Ok (b, b)) /\
  (forall b, DrainBounded_next b = pop b) /\
  (forall b, DrainBounded_size_hint b = Ok (len b, Some (len b))) /\
  (forall b, DrainBounded_len b = Ok (len b)) /\
  (forall k b, gen_drain k b = drain k b) /\
  (forall xs b, Bounded_extend b xs = extend xs b).

Theorem gen_bounded_agrees :
  bounded_methods_agree /\
  (forall b (o : op A), gen_step b o = step b o) /\
  (forall (ops : list (op A)) b, gen_run b ops = run b ops).
Proof.
  split; [|split; [exact gen_step_eq|exact gen_run_eq]].
  unfold bounded_methods_agree.
  repeat match goal with |- _ /\ _ => split end.
  - exact Bounded_from_raw_parts_eq.
  - exact Bounded_from_full_eq.
  - exact Bounded_from_eq.
  - exact Bounded_from_iter_eq.
  - exact Bounded_from_raw_parts_unchecked_eq.
  - exact Bounded_into_raw_parts_eq.
  - exact Bounded_max_len_eq.
  - exact Bounded_len_eq.
  - exact Bounded_is_empty_eq.
  - exact Bounded_is_full_eq.
  - exact Bounded_push_eq.
  - exact Bounded_pop_eq.
  - exact Bounded_get_eq.
  - exact gen_set_eq.
  - exact Bounded_index_eq.
  - exact gen_index_set_eq.
  - exact Bounded_slices_eq.
  - exact gen_slices_mut_view_eq.
  - exact Bounded_iter_eq.
  - exact gen_map_in_place_eq.
  - exact Bounded_drain_eq.
  - exact DrainBounded_next_eq.
  - exact DrainBounded_size_hint_eq.
  - exact DrainBounded_len_eq.
  - exact gen_drain_eq.
  - exact Bounded_extend_eq.
Qed.

Definition fixed_methods_agree : Prop :=
  (forall i d, Fixed_from_raw_parts i d = f_from_raw_parts i d) /\
  (forall d, Fixed_from d = f_from d) /\
  (forall d, Fixed_from_iter d = f_from d) /\
  (forall i d, Fixed_from_raw_parts_unchecked i d = Ok {| first := i; fdata := d |}) /\
  (forall f, Fixed_into_raw_parts f = Ok (first f, fdata f)) /\
  (forall f, Fixed_len f = Ok (flen f)) /\
  (forall f x, Fixed_push f x = fpush f x) /\
  (forall f i, Fixed_get f i = fget f i) /\
  (forall f i, Fixed_index f i = fget f i) /\
  (forall f i x, gen_fset f i x = fset f i x) /\
  (forall f i x, gen_findex_set f i x = fset f i x) /\
  (forall f i, Fixed_set_first f i = fset_first f i) /\
  (forall f, Fixed_slices f = fslices f) /\
  (forall f, gen_fslices_mut_view f = fslices f) /\
  (forall f, exists st, Fixed_iter_loop f = Ok st /\ forall j, st j = floop_nth f j) /\
  (forall f k, gen_fiter_loop f k = Ok (fiter_loop f k)) /\
  (forall f, Fixed_iter f = Ok (fiter f)) /\
  (forall g f, gen_fmap_in_place g f = fmap_in_place g f) /\
  (forall xs f, Fixed_extend f xs = fextend xs f) /\
  (forall xs f, gen_fpushes xs f = fpushes xs f).

Theorem gen_fixed_agrees :
  fixed_methods_agree /\
  (forall f (o : fop A), gen_fstep f o = fstep f o) /\
  (forall (ops : list (fop A)) f, gen_frun f ops = frun f ops).
Proof.
  split; [|split; [exact gen_fstep_eq|exact gen_frun_eq]].
  unfold fixed_methods_agree.
  repeat match goal with |- _ /\ _ => split end.
  - exact Fixed_from_raw_parts_eq.
  - exact Fixed_from_eq.
  - exact Fixed_from_iter_eq.
  - exact Fixed_from_raw_parts_unchecked_eq.
  - exact Fixed_into_raw_parts_eq.
  - exact Fixed_len_eq.
  - exact Fixed_push_eq.
  - exact Fixed_get_eq.
  - exact Fixed_index_eq.
  - exact gen_fset_eq.
  - exact gen_findex_set_eq.
  - exact Fixed_set_first_eq.
  - exact Fixed_slices_eq.
  - exact gen_fslices_mut_view_eq.
  - exact Fixed_iter_loop_eq.
  - exact gen_fiter_loop_eq.
  - exact Fixed_iter_eq.
  - exact gen_fmap_in_place_eq.
  - exact Fixed_extend_eq.
  - exact gen_fpushes_eq.
Qed.

(* the refinement theorems, restated for the interpreters over the regenerated methods *)
Theorem gen_run_refines (ops : list (op A)) b : Inv b ->
  exists b' vs, gen_run b ops = Ok (b', vs) /\ Inv b' /\ max_len b' = max_len b /\
                spec_run (max_len b) (abs b) ops = (abs b', map obs_abs vs).
Proof. rewrite gen_run_eq. apply run_refines. Qed.

Theorem gen_frun_refines (ops : list (fop A)) f : InvF f ->
  exists f' vs, gen_frun f ops = Ok (f', vs) /\ InvF f' /\ flen f' = flen f /\
                fspec_run (fabs f) ops = (fabs f', map obs_abs vs).
Proof. rewrite gen_frun_eq. apply frun_refines. Qed.

Theorem gen_fixed_delay f (xs : list A) : InvF f ->
  exists f', gen_fpushes xs f = Ok (f', firstn (length xs) (fq f ++ xs)) /\ InvF f' /\ flen f' = flen f.
Proof. rewrite gen_fpushes_eq. apply fixed_delay. Qed.

End Equiv.
