(* Executable instance of the ring-buffer models over Z, with the observation
   encoding of harness/src/bin/c06.rs; evaluated by coqc on the correspondence cases. *)
Require Import List ZArith Bool.
From Dasp Require Import Base.Res Base.ListX Ring.Bounded Ring.BoundedSpec Ring.Fixed Ring.FixedSpec.
Import ListNotations.
Open Scope Z_scope.

Inductive zop :=
| ZPush (x : Z) | ZPop | ZGet (i : Z) | ZSet (i x : Z) | ZIdx (i : Z) | ZIdxSet (i x : Z)
| ZSlices | ZIter | ZMap (k : Z) | ZDrain (k : Z) | ZDrainLen | ZExtend (xs : list Z)
| ZLen | ZEmpty | ZFull | ZMaxLen | ZSetFirst (i : Z) | ZIterLoop (k : Z)
| ZDrainNth (k : Z) | ZIterNth (k : Z) | ZIterRev | ZIterLast.

Definition n (z : Z) : nat := Z.to_nat z.

Definition to_op (o : zop) : option (op Z) :=
  match o with
  | ZPush x => Some (OPush x) | ZPop => Some OPop | ZGet i => Some (OGet (n i))
  | ZSet i x => Some (OSet (n i) x) | ZIdx i => Some (OIndex (n i)) | ZIdxSet i x => Some (OIndexSet (n i) x)
  | ZSlices => Some OSlices | ZIter => Some OIter | ZMap k => Some (OMap (Z.add k))
  | ZDrain k => Some (ODrain (n k)) | ZDrainLen => Some OLen | ZExtend xs => Some (OExtend xs)
  | ZLen => Some OLen | ZEmpty => Some OIsEmpty | ZFull => Some OIsFull | ZMaxLen => Some OMaxLen
  | ZDrainNth k => Some (ODrainNth (n k)) | ZIterNth k => Some (OIterNth (n k)) | ZIterRev => Some OIterRev | ZIterLast => Some OIterLast
  | _ => None
  end.

Definition to_fop (o : zop) : option (fop Z) :=
  match o with
  | ZPush x => Some (FPush x) | ZGet i | ZIdx i => Some (FGet (n i))
  | ZSet i x | ZIdxSet i x => Some (FSet (n i) x) | ZSetFirst i => Some (FSetFirst (n i))
  | ZSlices => Some FSlices | ZIter => Some FIter | ZIterLoop k => Some (FIterLoop (n k))
  | ZMap k => Some (FMap (Z.add k)) | ZExtend xs => Some (FExtend xs) | ZLen => Some FLen
  | _ => None
  end.

Definition zn (k : nat) : Z := Z.of_nat k.

Definition enc (v : obs Z) : list Z :=
  match v with
  | VOpt None => [0] | VOpt (Some x) => [1; x] | VVal x => [2; x]
  | VBool b => [3; if b then 1 else 0] | VNat k => [4; zn k] | VList l => 5 :: l
  | VPair l1 l2 => 6 :: zn (length l1) :: l1 ++ l2 | VUnit => [7]
  | VPanic k => [8; zn (panic_code k)]
  end.

(* Indices travel as Z and may be as large as usize::MAX (2^64 - 1); converting such a number to the unary nat of
   the model is not feasible, so an index is first brought into a small range: for Bounded every index beyond
   max_len + 1 is replaced by max_len + 1, for Fixed an index is replaced by its remainder modulo the length.
   Ring/RingRunNorm.v proves that the model cannot tell the difference (bnorm_sound, fnorm_sound). *)
Definition bnorm (b : bounded Z) (o : zop) : zop :=
  let c := fun i => Z.min i (zn (max_len b) + 1) in
  match o with
  | ZGet i => ZGet (c i) | ZSet i x => ZSet (c i) x | ZIdx i => ZIdx (c i) | ZIdxSet i x => ZIdxSet (c i) x
  | _ => o
  end.
Definition fnorm (f : fixed Z) (o : zop) : zop :=
  let c := fun i => if (flen f =? 0)%nat then 0 else i mod zn (flen f) in
  match o with
  | ZGet i => ZGet (c i) | ZSet i x => ZSet (c i) x | ZIdx i => ZIdx (c i) | ZIdxSet i x => ZIdxSet (c i) x
  | ZSetFirst i => ZSetFirst (c i)
  | _ => o
  end.

(* iter_mut on Bounded also reports the items in visit order (they equal iter) *)
Definition bstep (b : bounded Z) (o0 : zop) : res (bounded Z * list Z) :=
  let o := bnorm b o0 in
  match to_op o with
  | None => UB
  | Some p =>
    match o with
    | ZMap _ => let* it := iter b in let* r := step b p in Ok (fst r, enc (VList it))
    | _ => let* r := step b p in Ok (fst r, enc (snd r))
    end
  end.

Fixpoint brun (b : bounded Z) (ops : list zop) : list (list Z) :=
  match ops with
  | [] => []
  | o :: t => match bstep b o with
              | Ok (b', v) => v :: brun b' t
              | Panic k => [[-1; zn (panic_code k)]]
              | UB => [[-2]]
              end
  end.

Definition brun_case (s l : Z) (d : list Z) (ops : list zop) : list (list Z) :=
  match from_raw_parts (n s) (n l) d with
  | Ok b => brun b ops
  | Panic k => [[8; zn (panic_code k)]]
  | UB => [[-2]]
  end.

Fixpoint frun_z (f : fixed Z) (ops : list zop) : list (list Z) :=
  match ops with
  | [] => []
  | o :: t => match to_fop (fnorm f o) with
              | None => [[-2]]
              | Some p => match fstep f p with
                          | Ok (f', v) => enc v :: frun_z f' t
                          | Panic k => [[-1; zn (panic_code k)]]
                          | UB => [[-2]]
                          end
              end
  end.

Definition frun_case (fi : Z) (d : list Z) (ops : list zop) : list (list Z) :=
  match f_from_raw_parts (n fi) d with
  | Ok f => frun_z f ops
  | Panic k => [[8; zn (panic_code k)]]
  | UB => [[-2]]
  end.

Inductive rcase := BCase (s l : Z) (d : list Z) (ops : list zop) | FCase (fi : Z) (d : list Z) (ops : list zop).

Definition run_case (c : rcase) : list (list Z) :=
  match c with BCase s l d ops => brun_case s l d ops | FCase fi d ops => frun_case fi d ops end.

Definition zll_eqb (a b : list (list Z)) : bool :=
  if list_eq_dec (list_eq_dec Z.eq_dec) a b then true else false.

Definition check (c : rcase * list (list Z)) : bool := zll_eqb (run_case (fst c)) (snd c).
