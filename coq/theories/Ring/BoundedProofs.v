(* Refinement of the Bounded model to the ideal capacity-bounded queue, from
   every valid (start,len) state over every capacity, for every operation. *)
Require Import List Arith Lia Bool.
From Dasp Require Import Base.Res Base.ListX Ring.Bounded Ring.BoundedSpec.
Import ListNotations.

Section Proofs.
Context {A : Type}.
Implicit Types (b : bounded A) (l q : list A).

Lemma rot_nth l s i : s < length l -> i < length l ->
  nth_error (skipn s l ++ firstn s l) i = nth_error l ((s + i) mod length l).
Proof.
  intros Hs Hi. destruct (Nat.lt_ge_cases i (length l - s)) as [H|H].
  - rewrite nth_error_app1 by (rewrite skipn_length; lia).
    rewrite nth_error_skipn. f_equal. rewrite Nat.mod_small; lia.
  - rewrite nth_error_app2 by (rewrite skipn_length; lia).
    rewrite skipn_length. rewrite nth_error_firstn.
    destruct (Nat.ltb_spec (i - (length l - s)) s); [|lia].
    f_equal. rewrite mod_wrap by lia. destruct (Nat.ltb_spec (s + i) (length l)); lia.
Qed.

Lemma abs_length b : Inv b -> length (abs b) = len b.
Proof.
  intros [H1 H2]. unfold abs, max_len in *.
  rewrite firstn_length, app_length, skipn_length, firstn_length. lia.
Qed.

Lemma abs_nth b i : Inv b -> i < len b ->
  nth_error (abs b) i = nth_error (data b) ((start b + i) mod max_len b).
Proof.
  intros [H1 H2] Hi. unfold abs, max_len in *. rewrite nth_error_firstn.
  destruct (Nat.ltb_spec i (len b)); [|lia]. apply rot_nth; lia.
Qed.

Lemma abs_nth_none b i : Inv b -> len b <= i -> nth_error (abs b) i = None.
Proof. intros I H. apply nth_error_None. rewrite abs_length; auto. Qed.

Lemma get_unchecked_ok l i : i < length l -> exists x, get_unchecked l i = Ok x /\ nth_error l i = Some x.
Proof. intros H. unfold get_unchecked. destruct (nth_error_lt_Some l i H) as [x ->]. eauto. Qed.

Lemma next_start_lt b : Inv b -> next_start b < max_len b.
Proof. intros [H1 H2]. unfold next_start. destruct (Nat.leb_spec (max_len b) (start b + 1)); lia. Qed.

Lemma abs_head b : Inv b -> 0 < len b -> nth_error (abs b) 0 = nth_error (data b) (start b).
Proof.
  intros I H. rewrite abs_nth by auto. destruct I as [H1 H2].
  rewrite Nat.add_0_r, Nat.mod_small by lia. reflexivity.
Qed.

(* ---------------- pop ---------------- *)
Lemma pop_refines b : Inv b ->
  exists b' r, pop b = Ok (b', r) /\ Inv b' /\ max_len b' = max_len b /\ q_pop (abs b) = (abs b', r).
Proof.
  intros I. pose proof I as [H1 H2]. unfold pop.
  destruct (Nat.eqb_spec (len b) 0) as [E|E].
  - exists b, None. repeat split; auto.
    assert (abs b = []) as -> by (apply length_zero_iff_nil; rewrite abs_length; auto). reflexivity.
  - destruct (get_unchecked_ok (data b) (start b) H1) as [old [-> Hold]]. simpl.
    set (b' := {| start := next_start b; len := len b - 1; data := data b |}).
    assert (I' : Inv b').
    { split; simpl; [apply (next_start_lt b I)|]. unfold max_len in *; simpl. lia. }
    exists b', (Some old). split; [reflexivity|]. split; [exact I'|]. split; [reflexivity|].
    pose proof (abs_length b I) as HL.
    destruct (abs b) as [|x t] eqn:Habs; [simpl in HL; lia|].
    assert (Hx : nth_error (abs b) 0 = Some x) by (rewrite Habs; reflexivity).
    rewrite abs_head in Hx by (auto; lia).
    simpl. f_equal; [|congruence].
    symmetry. apply list_eq_nth.
    + rewrite abs_length by exact I'. simpl in *. lia.
    + intros i Hi. rewrite abs_length in Hi by exact I'. simpl in Hi.
      rewrite abs_nth by (auto; simpl; lia).
      assert (Ht : nth_error t i = nth_error (abs b) (S i)) by (rewrite Habs; reflexivity).
      rewrite Ht, abs_nth by (auto; lia). unfold max_len, b', next_start, max_len in *; simpl. f_equal.
      destruct (Nat.leb_spec (length (data b)) (start b + 1)); modw.
Qed.

(* ---------------- push ---------------- *)
Lemma push_refines b x : Inv b ->
  exists b' r, push b x = Ok (b', r) /\ Inv b' /\ max_len b' = max_len b /\
               q_push (max_len b) (abs b) x = (abs b', r).
Proof.
  intros I. pose proof I as [H1 H2]. unfold push, q_push. rewrite (abs_length b I).
  destruct (Nat.eqb_spec (len b) (max_len b)) as [E|E].
  - destruct (get_unchecked_ok (data b) (start b) H1) as [old [-> Hold]]. simpl.
    set (b' := {| start := next_start b; len := len b; data := set_nth (start b) x (data b) |}).
    assert (Hcap : max_len b' = max_len b) by (unfold max_len, b'; simpl; apply set_nth_length).
    assert (I' : Inv b').
    { split; [rewrite Hcap; apply (next_start_lt b I)| rewrite Hcap; simpl; lia]. }
    exists b', (Some old). split; [reflexivity|]. split; [exact I'|]. split; [exact Hcap|].
    pose proof (abs_length b I) as HL.
    destruct (abs b) as [|o t] eqn:Habs; [simpl in HL; lia|].
    assert (Hx : nth_error (abs b) 0 = Some o) by (rewrite Habs; reflexivity).
    rewrite abs_head in Hx by (auto; lia).
    simpl. f_equal; [|congruence].
    symmetry. apply list_eq_nth.
    + rewrite abs_length by exact I'. rewrite app_length. simpl in *. lia.
    + intros i Hi. rewrite abs_length in Hi by exact I'. simpl in Hi.
      rewrite abs_nth by (auto; simpl; lia). rewrite Hcap. unfold b'; simpl.
      simpl in HL. unfold next_start, max_len in *.
      destruct (Nat.eq_dec i (length t)) as [->|Hne].
      * rewrite nth_error_app2, Nat.sub_diag by lia. simpl.
        replace ((_ + length t) mod length (data b)) with (start b).
        { apply nth_error_set_nth_eq. lia. }
        destruct (Nat.leb_spec (length (data b)) (start b + 1)); modw.
      * rewrite nth_error_app1 by lia.
        assert (Ht : nth_error t i = nth_error (abs b) (S i)) by (rewrite Habs; reflexivity).
        rewrite Ht, abs_nth by (auto; lia). unfold max_len.
        rewrite nth_error_set_nth_neq.
        { f_equal. destruct (Nat.leb_spec (length (data b)) (start b + 1)); modw. }
        destruct (Nat.leb_spec (length (data b)) (start b + 1)); modw.
  - unfold rmod. destruct (Nat.eqb_spec (max_len b) 0) as [Z|Z]; [lia|]. simpl.
    assert (Hidx : (start b + len b) mod max_len b < max_len b) by (apply Nat.mod_upper_bound; lia).
    destruct (Nat.ltb_spec ((start b + len b) mod max_len b) (max_len b)); [|lia].
    set (b' := {| start := start b; len := S (len b);
                  data := set_nth ((start b + len b) mod max_len b) x (data b) |}).
    assert (Hcap : max_len b' = max_len b) by (unfold max_len, b'; simpl; apply set_nth_length).
    assert (I' : Inv b') by (split; rewrite Hcap; simpl; lia).
    exists b', None. split; [reflexivity|]. split; [exact I'|]. split; [exact Hcap|].
    f_equal. symmetry. apply list_eq_nth.
    + rewrite abs_length by exact I'. rewrite app_length, abs_length by exact I. simpl. lia.
    + intros i Hi. rewrite abs_length in Hi by exact I'. simpl in Hi.
      rewrite abs_nth by (auto; simpl; lia). rewrite Hcap. unfold b'; simpl.
      destruct (Nat.eq_dec i (len b)) as [->|Hne].
      * rewrite nth_error_app2 by (rewrite abs_length; auto). rewrite abs_length, Nat.sub_diag by auto.
        simpl. apply nth_error_set_nth_eq. unfold max_len in *. lia.
      * rewrite nth_error_app1 by (rewrite abs_length; auto; lia).
        rewrite abs_nth by (auto; lia). apply nth_error_set_nth_neq.
        intros Heq. apply mod_inj in Heq; lia.
Qed.

(* ---------------- get / set / index ---------------- *)
Lemma wrapped_ok b i : Inv b -> exists w, wrapped_index b i = Ok w /\ w = (start b + i) mod max_len b /\ w < max_len b.
Proof.
  intros [H1 H2]. unfold wrapped_index, rmod.
  destruct (Nat.eqb_spec (max_len b) 0); [lia|]. eexists; split; [reflexivity|]. split; auto.
  apply Nat.mod_upper_bound; lia.
Qed.

Lemma get_refines b i : Inv b -> get b i = Ok (nth_error (abs b) i).
Proof.
  intros I. unfold get.
  destruct (Nat.leb_spec (len b) i) as [H|H].
  - now rewrite abs_nth_none.
  - destruct (wrapped_ok b i I) as [w [-> [Hw Hlt]]]. simpl.
    destruct (get_unchecked_ok (data b) w Hlt) as [v [-> Hv]]. simpl.
    rewrite abs_nth by auto. now rewrite <- Hw, Hv.
Qed.

Lemma set_refines b i x : Inv b ->
  exists b', set b i x = Ok (b', i <? len b) /\ Inv b' /\ max_len b' = max_len b /\
             abs b' = if i <? len b then set_nth i x (abs b) else abs b.
Proof.
  intros I. unfold set.
  destruct (Nat.leb_spec (len b) i) as [H|H].
  - destruct (Nat.ltb_spec i (len b)); [lia|]. exists b. auto.
  - destruct (Nat.ltb_spec i (len b)); [|lia].
    destruct (wrapped_ok b i I) as [w [-> [Hw Hlt]]]. simpl.
    destruct (Nat.ltb_spec w (max_len b)); [|lia].
    set (b' := {| start := start b; len := len b; data := set_nth w x (data b) |}).
    assert (Hcap : max_len b' = max_len b) by (unfold max_len, b'; simpl; apply set_nth_length).
    assert (I' : Inv b') by (destruct I; split; rewrite Hcap; simpl; lia).
    exists b'. split; [reflexivity|]. split; [exact I'|]. split; [exact Hcap|].
    apply list_eq_nth.
    + rewrite set_nth_length, !abs_length; auto.
    + intros j Hj. rewrite abs_length in Hj by exact I'. simpl in Hj.
      rewrite abs_nth by (auto). rewrite Hcap. unfold b'; simpl.
      rewrite !nth_error_set_nth. rewrite abs_length by auto.
      destruct I as [I1 I2].
      destruct (Nat.eqb_spec i j) as [->|Hne]; simpl.
      * destruct (Nat.ltb_spec j (len b)); [|lia]. subst w. rewrite Nat.eqb_refl. simpl.
        unfold max_len in *. destruct (Nat.ltb_spec ((start b + j) mod length (data b)) (length (data b))); [reflexivity|lia].
      * rewrite abs_nth by (auto; split; auto).
        destruct (Nat.eqb_spec w ((start b + j) mod max_len b)) as [Heq|Hneq]; simpl; [|reflexivity].
        subst w. apply mod_inj in Heq; lia.
Qed.

(* ---------------- slices / iter / map ---------------- *)
Lemma slices_refine b : Inv b ->
  exists l1 l2, slices b = Ok (l1, l2) /\ l1 ++ l2 = abs b.
Proof.
  intros [H1 H2]. unfold slices, abs, max_len in *.
  destruct (Nat.ltb_spec (length (data b)) (start b)); [lia|].
  destruct (Nat.leb_spec (length (skipn (start b) (data b))) (len b)) as [H'|H'].
  - rewrite firstn_length, skipn_length in *.
    destruct (Nat.ltb_spec (Nat.min (start b) (length (data b))) (len b - (length (data b) - start b))); [lia|].
    eexists; eexists; split; [reflexivity|].
    rewrite firstn_app, skipn_length. rewrite (firstn_all2 (skipn _ _)) by (rewrite skipn_length; lia). reflexivity.
  - eexists; eexists; split; [reflexivity|].
    rewrite app_nil_r. rewrite firstn_app.
    replace (len b - length (skipn (start b) (data b))) with 0 by lia. simpl. now rewrite app_nil_r.
Qed.

Lemma iter_refines b : Inv b -> iter b = Ok (abs b).
Proof. intros I. unfold iter. destruct (slices_refine b I) as [l1 [l2 [-> E]]]. simpl. now rewrite E. Qed.

Lemma firstn_map {B} (f : A -> B) n l : firstn n (map f l) = map f (firstn n l).
Proof. revert l; induction n as [|n IH]; intros [|a l]; simpl; auto. now rewrite IH. Qed.

Lemma skipn_app_len l1 l2 n : length l1 = n -> skipn n (l1 ++ l2) = l2.
Proof. intros <-. rewrite skipn_app, Nat.sub_diag, skipn_all. reflexivity. Qed.
Lemma firstn_app_len l1 l2 n : length l1 = n -> firstn n (l1 ++ l2) = l1.
Proof. intros <-. rewrite firstn_app, Nat.sub_diag, firstn_all. simpl. apply app_nil_r. Qed.
Lemma firstn_app_ge l1 l2 n : length l1 <= n -> firstn n (l1 ++ l2) = l1 ++ firstn (n - length l1) l2.
Proof. intros H. rewrite firstn_app. now rewrite firstn_all2 by lia. Qed.
Lemma firstn_app_le l1 l2 n : n <= length l1 -> firstn n (l1 ++ l2) = firstn n l1.
Proof. intros H. rewrite firstn_app. replace (n - length l1) with 0 by lia. simpl. apply app_nil_r. Qed.

Lemma map_refines f b : Inv b ->
  exists b', map_in_place f b = Ok b' /\ Inv b' /\ max_len b' = max_len b /\ abs b' = map f (abs b).
Proof.
  intros [H1 H2]. unfold map_in_place, abs, max_len in *.
  destruct (Nat.ltb_spec (length (data b)) (start b)); [lia|].
  assert (Hs : length (skipn (start b) (data b)) = length (data b) - start b) by apply skipn_length.
  assert (He : length (firstn (start b) (data b)) = start b) by (rewrite firstn_length; lia).
  destruct (Nat.leb_spec (length (skipn (start b) (data b))) (len b)) as [H'|H'].
  - rewrite He, Hs.
    destruct (Nat.ltb_spec (start b) (len b - (length (data b) - start b))); [lia|].
    eexists; split; [reflexivity|]. simpl.
    set (k := len b - (length (data b) - start b)).
    set (e := firstn (start b) (data b)) in *. set (s := skipn (start b) (data b)) in *.
    assert (Hpre : length (map f (firstn k e) ++ skipn k e) = start b).
    { rewrite app_length, map_length, firstn_length, skipn_length. lia. }
    assert (Hlen : length ((map f (firstn k e) ++ skipn k e) ++ map f s) = length (data b)).
    { rewrite app_length, Hpre, map_length. lia. }
    split; [split; unfold max_len; simpl; rewrite Hlen; lia|]. split; [unfold max_len; simpl; exact Hlen|].
    rewrite (skipn_app_len _ _ _ Hpre), (firstn_app_len _ _ _ Hpre).
    rewrite (firstn_app_ge (map f s)) by (rewrite map_length; lia).
    rewrite (firstn_app_ge s) by lia.
    rewrite map_length, map_app. f_equal. rewrite Hs. fold k.
    rewrite firstn_app_le by (rewrite map_length, firstn_length; lia).
    rewrite firstn_map, firstn_firstn, Nat.min_id. reflexivity.
  - eexists; split; [reflexivity|]. simpl.
    set (e := firstn (start b) (data b)) in *. set (s := skipn (start b) (data b)) in *.
    assert (Hpost : length (map f (firstn (len b) s) ++ skipn (len b) s) = length (data b) - start b).
    { rewrite app_length, map_length, firstn_length, skipn_length. lia. }
    assert (Hlen : length (e ++ map f (firstn (len b) s) ++ skipn (len b) s) = length (data b)).
    { rewrite app_length, Hpost. lia. }
    split; [split; unfold max_len; simpl; rewrite Hlen; lia|]. split; [unfold max_len; simpl; exact Hlen|].
    rewrite (skipn_app_len _ _ _ He).
    rewrite (firstn_app_le s) by lia.
    rewrite firstn_app_le by (rewrite app_length, map_length, firstn_length; lia).
    rewrite firstn_app_le by (rewrite map_length, firstn_length; lia).
    rewrite firstn_map, firstn_firstn, Nat.min_id. reflexivity.
Qed.

(* ---------------- drain / extend ---------------- *)
Lemma drain_refines k : forall b, Inv b ->
  exists b', drain k b = Ok (b', firstn k (abs b)) /\ Inv b' /\ max_len b' = max_len b /\ abs b' = skipn k (abs b).
Proof.
  induction k as [|k IH]; intros b I; simpl.
  - exists b. auto.
  - destruct (pop_refines b I) as [b1 [r [-> [I1 [C1 Hq]]]]]. simpl.
    destruct (abs b) as [|x t] eqn:Habs; simpl in Hq; inversion Hq; subst; simpl.
    + exists b1. repeat split; try apply I1; auto.
    + destruct (IH b1 I1) as [b2 [-> [I2 [C2 H2]]]]. simpl.
      exists b2. repeat split; try apply I2; auto. congruence.
Qed.

Lemma extend_refines xs : forall b, Inv b ->
  exists b', extend xs b = Ok b' /\ Inv b' /\ max_len b' = max_len b /\ abs b' = q_extend (max_len b) xs (abs b).
Proof.
  induction xs as [|x xs IH]; intros b I; simpl.
  - exists b. auto.
  - destruct (push_refines b x I) as [b1 [r [-> [I1 [C1 Hq]]]]]. simpl.
    destruct (IH b1 I1) as [b2 [-> [I2 [C2 H2]]]].
    exists b2. repeat split; try apply I2; try congruence.
    rewrite H2, C1. unfold q_extend. simpl. now rewrite Hq.
Qed.

(* ---------------- every operation, then every history ---------------- *)
Lemma step_drain_nth b n : Inv b ->
  exists b' v, step b (ODrainNth n) = Ok (b', v) /\ Inv b' /\ max_len b' = max_len b /\
               spec_step (max_len b) (abs b) (ODrainNth n) = (abs b', obs_abs v).
Proof.
  intros I. unfold step. destruct (drain_refines (S n) b I) as [b' [-> [I' [C Ha]]]]. cbn [bind fst snd catch].
  exists b', (VOpt (nth_error (firstn (S n) (abs b)) n)). cbn [spec_step obs_abs]. rewrite Ha.
  rewrite nth_error_firstn. destruct (Nat.ltb_spec n (S n)); [|lia]. auto.
Qed.

Theorem step_refines b o : Inv b ->
  exists b' v, step b o = Ok (b', v) /\ Inv b' /\ max_len b' = max_len b /\
               spec_step (max_len b) (abs b) o = (abs b', obs_abs v).
Proof.
  intros I. destruct o as [x| |i|i x|i|i x| | |f|k|xs| | | | |n|n| | ]; try (apply step_drain_nth; exact I); unfold step; simpl.
  - destruct (push_refines b x I) as [b' [r [-> [I' [C Hq]]]]]. simpl.
    exists b', (VOpt r). rewrite Hq. auto.
  - destruct (pop_refines b I) as [b' [r [-> [I' [C Hq]]]]]. simpl.
    exists b', (VOpt r). rewrite Hq. auto.
  - rewrite (get_refines b i I). simpl. eauto 10.
  - destruct (set_refines b i x I) as [b' [-> [I' [C Ha]]]]. simpl.
    exists b', (VBool (i <? len b)). rewrite abs_length by auto.
    destruct (i <? len b); rewrite Ha; auto.
  - unfold index. rewrite (get_refines b i I). simpl.
    destruct (nth_error (abs b) i); simpl; eauto 10.
  - unfold index_set. destruct (set_refines b i x I) as [b' [-> [I' [C Ha]]]]. simpl.
    rewrite abs_length by auto.
    destruct (i <? len b); simpl; [exists b', VUnit; rewrite Ha; auto| exists b, (VPanic PExpect); auto].
  - destruct (slices_refine b I) as [l1 [l2 [-> E]]]. simpl. exists b, (VPair l1 l2). simpl. rewrite E. auto.
  - rewrite (iter_refines b I). simpl. eauto 10.
  - destruct (map_refines f b I) as [b' [-> [I' [C Ha]]]]. simpl. exists b', VUnit. rewrite Ha. auto.
  - destruct (drain_refines k b I) as [b' [-> [I' [C Ha]]]]. simpl. exists b', (VList (firstn k (abs b))). rewrite Ha. auto.
  - destruct (extend_refines xs b I) as [b' [-> [I' [C Ha]]]]. simpl. exists b', VUnit. rewrite Ha. auto.
  - exists b, (VNat (len b)). rewrite abs_length; auto.
  - exists b, (VBool (is_empty b)). unfold is_empty. rewrite abs_length; auto.
  - exists b, (VBool (is_full b)). unfold is_full. rewrite abs_length; auto.
  - exists b, (VNat (max_len b)). auto.
  - rewrite (iter_refines b I). simpl. eauto 10.
  - rewrite (iter_refines b I). simpl. eauto 10.
  - rewrite (iter_refines b I). simpl. eauto 10.
Qed.

Theorem run_refines ops : forall b, Inv b ->
  exists b' vs, run b ops = Ok (b', vs) /\ Inv b' /\ max_len b' = max_len b /\
                spec_run (max_len b) (abs b) ops = (abs b', map obs_abs vs).
Proof.
  induction ops as [|o ops IH]; intros b I; simpl.
  - exists b, []. auto.
  - destruct (step_refines b o I) as [b1 [v [-> [I1 [C1 H1]]]]]. simpl.
    destruct (IH b1 I1) as [b2 [vs [-> [I2 [C2 H2]]]]]. simpl.
    exists b2, (v :: vs). rewrite H1. simpl. rewrite <- C1, H2. simpl.
    repeat split; try apply I2; congruence.
Qed.

(* constructors establish the invariant exactly when they do not panic *)
Theorem from_raw_parts_inv s n (d : list A) :
  match from_raw_parts s n d with
  | Ok b => s < length d /\ n <= length d /\ Inv b /\ start b = s /\ len b = n /\ data b = d
  | Panic PAssert => ~ (s < length d /\ n <= length d)
  | _ => False
  end.
Proof.
  unfold from_raw_parts.
  destruct (Nat.ltb_spec s (length d)); [|lia].
  destruct (Nat.leb_spec n (length d)); [|lia].
  unfold Inv, max_len; simpl. repeat split; auto.
Qed.

Theorem from_full_abs (d : list A) : d <> [] ->
  exists b, from_full d = Ok b /\ Inv b /\ abs b = d.
Proof.
  intros Hd. unfold from_full, from_raw_parts.
  destruct d as [|a d]; [congruence|]. cbn [length Nat.ltb Nat.leb].
  rewrite Nat.leb_refl. eexists; split; [reflexivity|]. split.
  - unfold Inv, max_len; simpl; lia.
  - unfold abs; simpl. now rewrite app_nil_r, firstn_all.
Qed.

Theorem from_empty_abs (d : list A) : d <> [] ->
  exists b, from_empty d = Ok b /\ Inv b /\ abs b = [].
Proof.
  intros Hd. unfold from_empty, from_raw_parts.
  destruct d as [|a d]; [congruence|]. cbn [length Nat.ltb Nat.leb].
  eexists; split; [reflexivity|]. split.
  - unfold Inv, max_len; simpl; lia.
  - reflexivity.
Qed.

(* reads touch live slots only: every element a read-only view exposes is an
   element of the abstract queue (follows from the refinement: views equal abs) *)
Corollary reads_live b : Inv b -> forall i v, get b i = Ok (Some v) -> i < len b /\ nth_error (abs b) i = Some v.
Proof.
  intros I i v H. rewrite get_refines in H by auto. inversion H as [H'].
  split; [|reflexivity]. rewrite <- (abs_length b I). eapply nth_error_Some_lt; eauto.
Qed.

End Proofs.
