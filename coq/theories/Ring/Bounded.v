(* Model of dasp_ring_buffer::Bounded (dasp_ring_buffer/src/lib.rs), written
   after the source: same index arithmetic, unchecked accesses return [UB]
   when out of range, asserts and `expect`s return [Panic].  No proofs here. *)
Require Import List Arith Bool.
From Dasp Require Import Base.Res Base.ListX.
Import ListNotations.

Section Bounded.
Context {A : Type}.

Record bounded := { start : nat; len : nat; data : list A }.

Definition max_len (b : bounded) : nat := length (data b).
Definition is_empty (b : bounded) : bool := len b =? 0.
Definition is_full (b : bounded) : bool := len b =? max_len b.

(* from_raw_parts: assert!(start < data.len()); assert!(len <= data.len()) *)
Definition from_raw_parts (s l : nat) (d : list A) : res bounded :=
  if s <? length d then
    if l <=? length d then Ok {| start := s; len := l; data := d |} else Panic PAssert
  else Panic PAssert.
Definition from_full (d : list A) : res bounded := from_raw_parts 0 (length d) d.
Definition from_empty (d : list A) : res bounded := from_raw_parts 0 0 d.

(* `if next_start >= max_len { next_start = 0 }` *)
Definition next_start (b : bounded) : nat :=
  if max_len b <=? start b + 1 then 0 else start b + 1.

(* x % 0 panics in Rust *)
Definition rmod (a n : nat) : res nat := if n =? 0 then Panic PDivZero else Ok (a mod n).

Definition push (b : bounded) (x : A) : res (bounded * option A) :=
  if len b =? max_len b then
    let* old := get_unchecked (data b) (start b) in
    Ok ({| start := next_start b; len := len b; data := set_nth (start b) x (data b) |}, Some old)
  else
    let* idx := rmod (start b + len b) (max_len b) in
    if idx <? max_len b
    then Ok ({| start := start b; len := S (len b); data := set_nth idx x (data b) |}, None)
    else UB.

Definition pop (b : bounded) : res (bounded * option A) :=
  if len b =? 0 then Ok (b, None) else
  let* old := get_unchecked (data b) (start b) in
  Ok ({| start := next_start b; len := len b - 1; data := data b |}, Some old).

(* get / get_mut: `(self.start + index) % self.max_len()` (the repaired form, see DESIGN F1) *)
Definition wrapped_index (b : bounded) (i : nat) : res nat := rmod (start b + i) (max_len b).

Definition get (b : bounded) (i : nat) : res (option A) :=
  if len b <=? i then Ok None else
  let* w := wrapped_index b i in
  let* v := get_unchecked (data b) w in Ok (Some v).

(* get_mut followed by a store through the returned reference; returns whether a slot existed *)
Definition set (b : bounded) (i : nat) (x : A) : res (bounded * bool) :=
  if len b <=? i then Ok (b, false) else
  let* w := wrapped_index b i in
  if w <? max_len b
  then Ok ({| start := start b; len := len b; data := set_nth w x (data b) |}, true)
  else UB.

(* Index / IndexMut: get(..).expect("index out of range") *)
Definition index (b : bounded) (i : nat) : res A :=
  let* o := get b i in match o with Some v => Ok v | None => Panic PExpect end.
Definition index_set (b : bounded) (i : nat) (x : A) : res bounded :=
  let* r := set b i x in if snd r then Ok (fst r) else Panic PExpect.

(* slices(): `let (end, start) = data.split_at(self.start)`; split_at panics when mid > len *)
Definition slices (b : bounded) : res (list A * list A) :=
  if length (data b) <? start b then Panic PIndex else
  let e := firstn (start b) (data b) in
  let s := skipn (start b) (data b) in
  if length s <=? len b then
    let end_len := len b - length s in
    if length e <? end_len then Panic PIndex else Ok (s, firstn end_len e)
  else Ok (firstn (len b) s, []).

Definition iter (b : bounded) : res (list A) :=
  let* p := slices b in Ok (fst p ++ snd p).

(* slices_mut / iter_mut with every yielded reference updated by [f] *)
Definition map_in_place (f : A -> A) (b : bounded) : res bounded :=
  if length (data b) <? start b then Panic PIndex else
  let e := firstn (start b) (data b) in
  let s := skipn (start b) (data b) in
  if length s <=? len b then
    let end_len := len b - length s in
    if length e <? end_len then Panic PIndex else
    Ok {| start := start b; len := len b;
          data := (map f (firstn end_len e) ++ skipn end_len e) ++ map f s |}
  else Ok {| start := start b; len := len b;
             data := e ++ (map f (firstn (len b) s) ++ skipn (len b) s) |}.

(* drain().take(k): k calls of pop through the draining iterator, stopping at None *)
Fixpoint drain (k : nat) (b : bounded) : res (bounded * list A) :=
  match k with
  | O => Ok (b, [])
  | S k' =>
    let* r := pop b in
    match snd r with
    | None => Ok (fst r, [])
    | Some x => let* r' := drain k' (fst r) in Ok (fst r', x :: snd r')
    end
  end.

(* Extend: push every item, discarding what falls out *)
Fixpoint extend (xs : list A) (b : bounded) : res bounded :=
  match xs with
  | [] => Ok b
  | x :: t => let* r := push b x in extend t (fst r)
  end.

End Bounded.
Arguments bounded A : clear implicits.
