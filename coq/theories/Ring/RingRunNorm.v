(* The index normalisation of Ring/RingRun.v (bnorm / fnorm) is invisible to the models: the step taken on the
   normalised operation is the step taken on the operation itself. *)
Require Import List Arith ZArith Bool Lia.
From Dasp Require Import Base.Res Base.ListX Ring.Bounded Ring.BoundedSpec Ring.Fixed Ring.FixedSpec
  Ring.IndexArith Ring.RingRun.
Import ListNotations.

Lemma n_min i m : n (Z.min i (zn m + 1)) = Nat.min (n i) (m + 1).
Proof. unfold n, zn. rewrite Z2Nat.inj_min. f_equal. rewrite Z2Nat.inj_add by lia. now rewrite Nat2Z.id. Qed.

Lemma bnorm_sound (b : bounded Z) (o : zop) : (len b <= max_len b)%nat ->
  match to_op (bnorm b o), to_op o with
  | Some p', Some p => step b p' = step b p
  | None, None => True
  | _, _ => False
  end.
Proof.
  intros Hl. destruct o; cbn [bnorm to_op]; auto; rewrite n_min;
    destruct (bounded_index_clamp b (n i) 0%Z Hl) as [H1 [H2 [H3 H4]]]; symmetry; auto.
  - destruct (bounded_index_clamp b (n i) x Hl) as [_ [H2' _]]. exact H2'.
  - destruct (bounded_index_clamp b (n i) x Hl) as [_ [_ [_ H4']]]. exact H4'.
Qed.

Lemma n_mod i m : (0 <= i)%Z -> m <> 0%nat -> n (i mod zn m) = (n i mod m)%nat.
Proof.
  intros Hi Hm. unfold n, zn.
  rewrite <- (Z2Nat.id i) at 1 by exact Hi. rewrite <- Nat2Z.inj_mod. apply Nat2Z.id.
Qed.

Definition zop_index_nonneg (o : zop) : Prop :=
  match o with ZGet i | ZSet i _ | ZIdx i | ZIdxSet i _ | ZSetFirst i => (0 <= i)%Z | _ => True end.

Lemma nred (f : fixed Z) (i : Z) : (0 <= i)%Z ->
  n (if (flen f =? 0)%nat then 0%Z else (i mod zn (flen f))%Z) = (if (flen f =? 0)%nat then 0 else n i mod flen f)%nat.
Proof. intros Hi. destruct (Nat.eqb_spec (flen f) 0) as [E|E]; [reflexivity|]. now apply n_mod. Qed.

Lemma fnorm_sound (f : fixed Z) (o : zop) : zop_index_nonneg o ->
  match to_fop (fnorm f o), to_fop o with
  | Some p', Some p => fstep f p' = fstep f p
  | None, None => True
  | _, _ => False
  end.
Proof.
  intros Hn. destruct o; cbn [fnorm to_fop zop_index_nonneg] in *; auto; rewrite nred by assumption; unfold fstep.
  - destruct (fixed_index_reduce f (n i) 0%Z) as [R1 _]. cbv zeta in R1. now rewrite <- R1.
  - destruct (fixed_index_reduce f (n i) x) as [_ [R2 _]]. cbv zeta in R2. now rewrite <- R2.
  - destruct (fixed_index_reduce f (n i) 0%Z) as [R1 _]. cbv zeta in R1. now rewrite <- R1.
  - destruct (fixed_index_reduce f (n i) x) as [_ [R2 _]]. cbv zeta in R2. now rewrite <- R2.
  - destruct (fixed_index_reduce f (n i) 0%Z) as [_ [_ R3]]. cbv zeta in R3. now rewrite <- R3.
Qed.

Lemma run_index_normalisation_sound (b : bounded Z) (f : fixed Z) (o : zop) :
  ((len b <= max_len b)%nat ->
   match to_op (bnorm b o), to_op o with
   | Some p', Some p => step b p' = step b p | None, None => True | _, _ => False end) /\
  (zop_index_nonneg o ->
   match to_fop (fnorm f o), to_fop o with
   | Some p', Some p => fstep f p' = fstep f p | None, None => True | _, _ => False end).
Proof. split; [apply bnorm_sound | apply fnorm_sound]. Qed.
