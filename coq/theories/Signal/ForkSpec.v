(* Operation language over the Fork model, the interpreter used by the correspondence
   check, and the specification: two positions (pa, pb) into the source stream. *)
Require Import List Arith Bool.
From Dasp Require Import Base.Res Base.ListX Ring.Bounded Ring.BoundedSpec Signal.Fork.
Import ListNotations.

Section Spec.
Context {A : Type}.

(* next / pending_frames / is_exhausted on branch x (true = A, false = B); dropping the
   branch pair and splitting again by reference; moving the fork into by_rc branches *)
Inductive fop := ONext (x : bool) | OPending (x : bool) | OExhausted (x : bool) | OByRef | OByRc.

Inductive fval := VFrame (a : A) | VCount (n : nat) | VFlag (b : bool) | VUnit.

(* after every operation: its value, the source's pull counter, pending_frames of A and of B *)
Definition fobs : Type := fval * nat * nat * nat.

Definition observe (f : shared A) (v : fval) : fobs :=
  (v, pulls (signal f), pending_frames BrA f, pending_frames BrB f).

Definition fstep (f : shared A) (o : fop) : res (shared A * fobs) :=
  match o with
  | ONext x => let* r := next x f in Ok (fst r, observe (fst r) (VFrame (snd r)))
  | OPending x => Ok (f, observe f (VCount (pending_frames x f)))
  | OExhausted x => Ok (f, observe f (VFlag (branch_is_exhausted x f)))
  | OByRef => Ok (by_ref f, observe (by_ref f) VUnit)
  | OByRc => Ok (by_rc f, observe (by_rc f) VUnit)
  end.

Fixpoint frun (f : shared A) (ops : list fop) : res (shared A * list fobs) :=
  match ops with
  | [] => Ok (f, [])
  | o :: t => let* r := fstep f o in let* r' := frun (fst r) t in Ok (fst r', snd r :: snd r')
  end.

(* ---- specification: positions of the two branches in the source stream ---- *)

Definition posn : Type := nat * nat.
Definition pos (x : bool) (p : posn) : nat := if x then fst p else snd p.
Definition advance (x : bool) (p : posn) : posn := if x then (S (fst p), snd p) else (fst p, S (snd p)).
Definition pulled (p : posn) : nat := Nat.max (fst p) (snd p).
Definition behind (p : posn) : nat := Nat.min (fst p) (snd p).
Definition lag (x : bool) (p : posn) : nat := pulled p - pos x p.
(* how far one branch is ahead of the other *)
Definition lead (p : posn) : nat := pulled p - behind p.

Definition spec_observe (p : posn) (v : fval) : fobs := (v, pulled p, lag BrA p, lag BrB p).

Definition spec_step (f : nat -> A) (p : posn) (o : fop) : posn * fobs :=
  match o with
  | ONext x => (advance x p, spec_observe (advance x p) (VFrame (f (pos x p))))
  | OPending x => (p, spec_observe p (VCount (lag x p)))
  | OExhausted x => (p, spec_observe p (VFlag false))
  | OByRef | OByRc => (p, spec_observe p VUnit)
  end.

Fixpoint spec_run (f : nat -> A) (p : posn) (ops : list fop) : posn * list fobs :=
  match ops with
  | [] => (p, [])
  | o :: t => let r := spec_step f p o in
              let r' := spec_run f (fst r) t in (fst r', snd r :: snd r')
  end.

(* the property's side condition, on every step of the schedule: after the step neither
   branch is ahead of the other by more than the capacity *)
Fixpoint sched_ok (cap : nat) (p : posn) (ops : list fop) : Prop :=
  match ops with
  | [] => True
  | ONext x :: t => lead (advance x p) <= cap /\ sched_ok cap (advance x p) t
  | _ :: t => sched_ok cap p t
  end.

(* the frames branch x received, in the order it received them *)
Fixpoint frames_of (x : bool) (ops : list fop) (vs : list fobs) : list A :=
  match ops, vs with
  | ONext y :: t, (VFrame a, _, _, _) :: vt =>
      if Bool.eqb x y then a :: frames_of x t vt else frames_of x t vt
  | _ :: t, _ :: vt => frames_of x t vt
  | _, _ => []
  end.

Fixpoint count_next (x : bool) (ops : list fop) : nat :=
  match ops with
  | [] => 0
  | ONext y :: t => if Bool.eqb x y then S (count_next x t) else count_next x t
  | _ :: t => count_next x t
  end.

(* ---- abstraction: the positions are a function of the concrete shared state ---- *)

Definition pos_of (st : shared A) : posn :=
  (pulls (signal st) - pending_frames BrA st, pulls (signal st) - pending_frames BrB st).

(* source frames [lo, lo + n) *)
Definition frames (f : nat -> A) (lo n : nat) : list A := map f (seq lo n).

(* representation invariant of the shared state: a valid ring buffer holding exactly the
   last [len] frames pulled from the source *)
Definition FInv (st : shared A) : Prop :=
  Inv (ring_buffer st) /\
  len (ring_buffer st) <= pulls (signal st) /\
  abs (ring_buffer st) =
    frames (sfn (signal st)) (pulls (signal st) - len (ring_buffer st)) (len (ring_buffer st)).

End Spec.
Arguments fop : clear implicits.
Arguments fval A : clear implicits.
Arguments fobs A : clear implicits.
