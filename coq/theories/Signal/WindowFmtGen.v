(* C20 — the sample-format dependent steps of Window / Windowed for ALL fourteen sample formats, taken
   from the C03 sample model: Sample/SampleOps.v (mul_amp = to_float, multiply, back; conv) over the
   GENERATED conversions gen/ConvFloatGen.v, gen/ConvGen.v and companion table gen/SampleTable.v
   (regenerated from /repo on every run).  So that a wrong conversion in the source is a visible
   disagreement instead of being followed silently, every value the generated model produces is compared
   with its SPECIFICATION value and replaced by a poison value when they differ:
     integer -> float   amp / 2^(bits-1), correctly rounded (ConvFloatSpec.i2f_spec)
     float -> integer   trunc(p * 2^(bits-1)) re-offset; on the documented domain -1 <= p < 1, and for the
                        primitive-width formats (8/16/32/64 bits, where the code is an `as` cast) everywhere,
                        saturating at the rails (NaN -> 0)
     f64 -> f32         IEEE narrowing
   and Frame::EQUILIBRIUM is the TRUE equilibrium (ConvSpec.equilibrium), not the declared constant.
   Values travel Z-encoded: integers as their (inner) value, floats as IEEE bit patterns.  Definitions only. *)
Require Import Floats.SpecFloat.
Require Import ZArith List Bool.
From Flocq Require Import Core BinarySingleNaN.
From Dasp Require Import Base.Res Base.Float Sample.Rint Sample.ConvSpec Sample.SampleFmt Sample.SampleOps.
From DaspGen Require Import FormatTable SampleTable.
Import ListNotations.
Open Scope Z_scope.

Definition POISON_PANIC : Z := - 2 ^ 200.
Definition POISON_SPEC : Z := - 2 ^ 201.
Definition POISON_FMT : Z := - 2 ^ 202.

Definition guard (gen : res Z) (spec : option Z) : Z :=
  match gen with
  | Ok v => match spec with Some w => if v =? w then v else POISON_SPEC | None => v end
  | _ => POISON_PANIC
  end.

(* formats whose float -> integer conversion is a plain saturating `as` cast to the format's own width *)
Definition prim_width (fi : fmt) : bool :=
  match fi with FI24 | FU24 | FI48 | FU48 => false | _ => true end.

Definition off (fi : fmt) : Z := if signed fi then 0 else half fi.

(* specification of float -> integer at format fi, the float given as the bit pattern of fi's Float companion *)
Definition spec_f2i (fi : fmt) (w : Z) : option Z :=
  if src_float64 fi then
    let p := F64.of_bits w in
    if (F64.leb (F64.of_Z (-1)) p && F64.ltb p (F64.of_Z 1)) || prim_width fi
    then Some (F64.to_Z_sat (- half fi) (half fi - 1) (F64.mul p (F64.of_Z (half fi))) + off fi)
    else None
  else
    let p := F32.of_bits w in
    if (F32.leb (F32.of_Z (-1)) p && F32.ltb p (F32.of_Z 1)) || prim_width fi
    then Some (F32.to_Z_sat (- half fi) (half fi - 1) (F32.mul p (F32.of_Z (half fi))) + off fi)
    else None.

(* specification of integer -> float (bit pattern in fi's Float companion) *)
Definition spec_i2f (fi : fmt) (x : Z) : Z :=
  if src_float64 fi then F64.bits (F64.div (F64.of_Z (amp fi x)) (F64.of_Z (half fi)))
  else F32.bits (F32.div (F32.of_Z (amp fi x)) (F32.of_Z (half fi))).

Definition fmul_bits (fi : fmt) (a b : Z) : Z :=
  if src_float64 fi then F64.bits (F64.mul (F64.of_bits a) (F64.of_bits b))
  else F32.bits (F32.mul (F32.of_bits a) (F32.of_bits b)).

Section G.
Variable f : sfmt.
Notation fl := (float_of f).

(* `v.to_sample::<S::Float>()` of the f64 window value *)
Definition spec_w (v : f64) : option Z :=
  match fl with SF64 => Some (F64.bits v) | SF32 => Some (F32.bits (f64_to_f32 v)) | SInt _ => None end.
Definition g_conv (v : f64) : Z := guard (rmap (enc fl) (conv Checked SF64 fl v)) (spec_w v).

(* `v_f.to_sample::<S>()`: the window value in the frame's own format (Window::<F, W> with F not a float frame) *)
Definition spec_back (w : Z) : option Z :=
  match f with SInt fi => spec_f2i fi w | _ => Some (enc fl (dec fl w)) end.
Definition g_back (w : Z) : Z := guard (rmap (enc f) (conv Checked fl f (dec fl w))) (spec_back w).

(* Sample::mul_amp *)
Definition spec_mul (s w : Z) : option Z :=
  match f with
  | SInt fi => spec_f2i fi (fmul_bits fi (spec_i2f fi s) w)
  | SF32 => Some (F32.bits (F32.mul (F32.of_bits s) (F32.of_bits w)))
  | SF64 => Some (F64.bits (F64.mul (F64.of_bits s) (F64.of_bits w)))
  end.
Definition g_smul (s w : Z) : Z := guard (rmap (enc f) (mul_amp Checked f (dec f s) (dec fl w))) (spec_mul s w).

(* TRUE equilibrium *)
Definition g_equil : Z := match f with SInt fi => equilibrium fi | _ => 0 end.
End G.

(* by format code (SampleFmt.sfmt_code: 0..11 integer formats, 12 f32, 13 f64) *)
Definition gen_conv (c : Z) (v : f64) : Z := match sfmt_of_code c with Some f => g_conv f v | None => POISON_FMT end.
Definition gen_back (c : Z) (w : Z) : Z := match sfmt_of_code c with Some f => g_back f w | None => POISON_FMT end.
Definition gen_smul (c : Z) (s w : Z) : Z := match sfmt_of_code c with Some f => g_smul f s w | None => POISON_FMT end.
Definition gen_equil (c : Z) : Z := match sfmt_of_code c with Some f => g_equil f | None => POISON_FMT end.
