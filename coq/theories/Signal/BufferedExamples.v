(* Non-vacuity: a concrete non-trivial state meeting the hypotheses of the C14
   theorems (a wrapped pre-filled ring buffer: capacity 3, start = 2, len = 2, so
   the two live frames sit in slots 2 and 0), a 4-frame source (not a multiple
   of the capacity), and a history that mixes next with partially drained
   batches and refills while start <> 0. Frames are nat, equilibrium is 0. *)
Require Import List Arith Lia Bool.
From Dasp Require Import Base.Res Base.ListX Ring.Bounded Ring.BoundedSpec Ring.BoundedProofs
  Signal.Buffered Signal.BufferedSpec Signal.BufferedProofs.
Import ListNotations.

Definition ex_rb : bounded nat := {| start := 2; len := 2; data := [10; 20; 30] |}.
Definition ex_u : buffered nat := mk_buffered (from_iter [1; 2; 3; 4]) ex_rb.
Definition ex_ops : list bop :=
  [BExhausted; BFrames 1; BNext; BFrames 2; BNext; BHint; BNext; BFramesAll; BExhausted; BNext; BFramesAll; BExhausted].

(* the state is what from_raw_parts accepts, it satisfies the invariant, it is wrapped *)
Example ex_from_raw_parts : from_raw_parts 2 2 [10; 20; 30] = Ok ex_rb.
Proof. reflexivity. Qed.
Example ex_inv : Inv (rb ex_u).
Proof. unfold Inv, max_len; simpl; lia. Qed.
Example ex_wrapped : abs (rb ex_u) = [30; 10] /\ slices ex_rb = Ok ([30], [10]).
Proof. split; reflexivity. Qed.
Example ex_source : src_rest (sig ex_u) = [1; 2; 3; 4] /\ ipulls (sig ex_u) = 1 /\ pulls (sig ex_u) = 0.
Proof. repeat split. Qed.

(* the history: partial drain (1 of 2) followed by next; refill found at start = 1
   (after two pops from start 2); batch of 2 out of 3 followed by next; a refill through
   size_hint; the last block holds 1 source frame + 2 padding frames *)
Example ex_run :
  exists u', run 0 2 ex_u ex_ops =
    Ok (u', [OExh false; OFrames [30]; ONext 10; OFrames [1; 2]; ONext 3; OHint 0 None; ONext 4;
             OFrames [0; 0]; OExh true; ONext 0; OFrames [0; 0]; OExh true])
    /\ pulls (sig u') = 9 /\ ipulls (sig u') = 5.
Proof. eexists. vm_compute. repeat split. Qed.

(* the refill of the 4th operation ([BFrames 2]) happens while start = 1 <> 0 *)
Example ex_refill_at_wrapped_start :
  exists u1 vs, run 0 2 ex_u [BFrames 1; BNext] = Ok (u1, vs) /\ start (rb u1) = 1 /\ len (rb u1) = 0 /\
  exists u2 v, step 0 2 u1 (BFrames 2) = Ok (u2, v) /\ pulls (sig u2) = pulls (sig u1) + 3 /\
               start (rb u2) = 0 /\ len (rb u2) = 1 /\ data (rb u2) = [3; 1; 2].
Proof. eexists; eexists. vm_compute. repeat split. eexists; eexists. vm_compute. repeat split. Qed.

(* refills counts the operations that found the queue empty: 3 blocks of 3 *)
Example ex_refills : refills 0 3 (abs_u ex_u) ex_ops = 3.
Proof. reflexivity. Qed.

(* draining to exhaustion: prefill ++ source ++ 2 < 3 padding frames *)
Example ex_drain :
  exists u', run_until_exhausted 0 2 ex_u (repeat BNext 9) =
    Ok (u', map ONext [30; 10; 1; 2; 3; 4; 0; 0]) /\ is_exhausted u' = true.
Proof. eexists. vm_compute. split; reflexivity. Qed.

(* capacity 1, and a source that is exhausted from the start *)
Example ex_cap1 :
  exists u', run 0 2 (mk_buffered (from_iter []) {| start := 0; len := 1; data := [7] |})
               [BExhausted; BNext; BExhausted; BNext; BExhausted] =
    Ok (u', [OExh false; ONext 7; OExh true; ONext 0; OExh true]) /\ pulls (sig u') = 1.
Proof. eexists. vm_compute. split; reflexivity. Qed.

(* without the fuel hypothesis the loop model does report "still running" *)
Example ex_fuel_needed : step 0 1 (mk_buffered (from_iter [1]) {| start := 0; len := 0; data := [7] |}) BNext
  = out_of_fuel.
Proof. reflexivity. Qed.

(* the theorems instantiated at the example *)
Example ex_stream_instance :
  exists u' vs E, run 0 2 ex_u ex_ops = Ok (u', vs) /\
    all_frames vs ++ abs (rb u') ++ src_rest (sig u') = [30; 10] ++ [1; 2; 3; 4] ++ repeat 0 E.
Proof.
  destruct (buffered_stream 0 2 ex_ops ex_u (le_n 2) ex_inv) as [u' [vs [E [H1 [H2 _]]]]]. eauto.
Qed.
