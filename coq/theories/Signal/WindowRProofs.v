(* C20 — proofs of the real-number part: shape of the Hann window (true cos), the
   rectangle window, and the phases sampled by Window::new(n).
   Uses only the standard library's real-number axioms. *)
Require Import Reals Lra Lia ZArith List.
From Flocq Require Import Raux.
From Dasp Require Import Base.Res Signal.Window Signal.WindowR Signal.WindowProofs.
Open Scope R_scope.

Lemma hannR_eq p : hannR p = 1 / 2 * (1 - cos (2 * PI * p)).
Proof. unfold hannR, hann; cbn. f_equal. f_equal. f_equal. ring. Qed.

(* ---- shape ---- *)

Lemma hann_range p : 0 <= hannR p <= 1.
Proof. rewrite hannR_eq. pose proof (COS_bound (2 * PI * p)) as [H1 H2]. lra. Qed.

Lemma hann_sym p : hannR (1 - p) = hannR p.
Proof.
  rewrite !hannR_eq. f_equal. f_equal.
  replace (2 * PI * (1 - p)) with (2 * PI - 2 * PI * p) by ring.
  rewrite cos_minus, cos_2PI, sin_2PI. ring.
Qed.

Lemma hann_peak : hannR (1 / 2) = 1.
Proof.
  rewrite hannR_eq. replace (2 * PI * (1 / 2)) with PI by field. rewrite cos_PI. lra.
Qed.

Lemma hann_zero : hannR 0 = 0.
Proof. rewrite hannR_eq. replace (2 * PI * 0) with 0 by ring. rewrite cos_0. lra. Qed.

Lemma hann_one : hannR 1 = 0.
Proof. rewrite hannR_eq. replace (2 * PI * 1) with (2 * PI) by ring. rewrite cos_2PI. lra. Qed.

Lemma rect_one p : rectR p = 1.
Proof. reflexivity. Qed.

(* Hann is 1-periodic *)
Lemma cos_period_Z x (k : Z) : cos (x + 2 * IZR k * PI) = cos x.
Proof.
  destruct (Z_le_gt_dec 0 k) as [Hk|Hk].
  - rewrite <- (Z2Nat.id k) by assumption. rewrite <- INR_IZR_INZ. apply cos_period.
  - rewrite <- (cos_period (x + 2 * IZR k * PI) (Z.to_nat (- k))).
    rewrite INR_IZR_INZ, Z2Nat.id by lia. rewrite opp_IZR. f_equal. ring.
Qed.

Lemma hann_shift p (k : Z) : hannR (p + IZR k) = hannR p.
Proof.
  rewrite !hannR_eq. f_equal. f_equal.
  replace (2 * PI * (p + IZR k)) with (2 * PI * p + 2 * IZR k * PI) by ring.
  apply cos_period_Z.
Qed.

Lemma hann_frac x : hannR (frac x) = hannR x.
Proof.
  unfold frac. replace (x - IZR (Zfloor x)) with (x + IZR (- Zfloor x)) by (rewrite opp_IZR; ring).
  apply hann_shift.
Qed.

(* ---- fractional part ---- *)

Lemma frac_range x : 0 <= frac x < 1.
Proof. unfold frac. pose proof (Zfloor_lb x). pose proof (Zfloor_ub x). lra. Qed.

Lemma Zfloor_add_IZR x (k : Z) : Zfloor (x + IZR k) = (Zfloor x + k)%Z.
Proof.
  apply Zfloor_imp. rewrite !plus_IZR. pose proof (Zfloor_lb x). pose proof (Zfloor_ub x).
  cbn. lra.
Qed.

Lemma frac_small x : 0 <= x < 1 -> frac x = x.
Proof.
  intros H. unfold frac. rewrite (Zfloor_imp 0); cbn; lra.
Qed.

Lemma frac_add_frac a s : frac (frac a + s) = frac (a + s).
Proof.
  unfold frac at 2.
  replace (a - IZR (Zfloor a) + s) with ((a + s) + IZR (- Zfloor a)) by (rewrite opp_IZR; ring).
  unfold frac. rewrite Zfloor_add_IZR, plus_IZR. ring.
Qed.

(* Rust's `% 1.0` of a non-negative real is its fractional part *)
Lemma Rrem_one_nonneg x : 0 <= x -> Rrem x 1 = frac x.
Proof.
  intros Hx. unfold Rrem, frac. replace (x / 1) with x by field.
  rewrite Ztrunc_floor by assumption. ring.
Qed.

(* ---- the phases sampled by a window ---- *)

(* from a state whose next phase is frac a (a >= 0) with step s >= 0, the i-th phase is frac (a + i*s) *)
Lemma phase_at_frac i : forall a s, 0 <= a -> 0 <= s ->
  phase_at AR i (mkPhase AR s (frac a)) = frac (a + INR i * s).
Proof.
  induction i as [|i IH]; intros a s Ha Hs.
  - cbn. f_equal. ring.
  - cbn [phase_at next_phase snd Window.step nxt]. cbn [AR add rem one].
    rewrite Rrem_one_nonneg by (pose proof (frac_range a); lra).
    rewrite frac_add_frac. rewrite IH by lra. f_equal. rewrite S_INR. ring.
Qed.

Lemma step_pos n : (2 <= n)%nat -> 0 < INR n - 1.
Proof. intros Hn. apply le_INR in Hn. cbn in Hn. lra. Qed.

Theorem window_phase_frac n i : (2 <= n)%nat -> window_phase n i = frac (INR i / (INR n - 1)).
Proof.
  intros Hn. pose proof (step_pos n Hn) as Hp. unfold window_phase, window_new. cbn [AR div one sub of_usize zero].
  replace 0 with (frac 0) at 1 by (apply frac_small; lra).
  rewrite phase_at_frac.
  - f_equal. field. lra.
  - lra.
  - apply Rlt_le. apply Rdiv_lt_0_compat; lra.
Qed.

(* i < n-1: the phase is i/(n-1) itself *)
Corollary window_phase_inner n i : (2 <= n)%nat -> (i < n - 1)%nat ->
  window_phase n i = INR i / (INR n - 1).
Proof.
  intros Hn Hi. rewrite window_phase_frac by assumption. apply frac_small.
  pose proof (step_pos n Hn) as Hp. pose proof (pos_INR i) as Hi0.
  assert (Hlt : INR i < INR n - 1).
  { replace (INR n - 1) with (INR (n - 1)) by (rewrite minus_INR by lia; cbn; ring). apply lt_INR. assumption. }
  split.
  - apply Rmult_le_pos; [assumption|]. apply Rlt_le, Rinv_0_lt_compat. assumption.
  - apply (Rmult_lt_reg_r (INR n - 1)); [assumption|]. unfold Rdiv. rewrite Rmult_assoc, Rinv_l by lra. lra.
Qed.

(* i = n-1: the exact sum reaches 1 and `% 1.0` wraps it to 0 *)
Corollary window_phase_last n : (2 <= n)%nat -> window_phase n (n - 1) = 0.
Proof.
  intros Hn. rewrite window_phase_frac by assumption.
  pose proof (step_pos n Hn) as Hp.
  replace (INR (n - 1)) with (INR n - 1) by (rewrite minus_INR by lia; cbn; ring).
  replace ((INR n - 1) / (INR n - 1)) with 1 by (field; lra).
  unfold frac. rewrite (Zfloor_imp 1); cbn; lra.
Qed.

(* the window values are the Hann function at i/(n-1), for every i (also at i = n-1, where the
   sampled phase is 0 instead of 1, and beyond, where the window repeats) *)
Theorem hann_window_values n i : (2 <= n)%nat -> hann_window_value n i = hannR (INR i / (INR n - 1)).
Proof.
  intros Hn. unfold hann_window_value. rewrite window_phase_frac by assumption. apply hann_frac.
Qed.

(* ---- chunks of a Hann / rectangle windower over real-valued frames ---- *)
Definition windowed_take_R (wfun : R -> R) (nch m : nat) (c : list (list R)) (b : nat) : list (list R) :=
  windowed_take AR wfun R R (fun v => v) Rmult 0 nch m (windowed_of AR R c b).

Theorem hann_chunk_frames (nch : nat) (fr : list (list R)) (b h : nat) : (2 <= b)%nat -> (1 <= h)%nat ->
  (forall f, In f fr -> length f = nch) ->
  exists chunks w', w_drain (S (length fr)) (w_new fr b h) = Ok (chunks, w') /\
    forall k c, nth_error chunks k = Some c ->
    forall j m, (j < b)%nat -> (j < m)%nat ->
      exists x, nth_error fr (k * h + j) = Some x /\
        nth_error (windowed_take_R hannR nch m c b) j = Some (map (fun s => s * hannR (INR j / (INR b - 1))) x).
Proof.
  intros Hb Hh Hlen.
  destruct (windower_windowed_chunk AR hannR R R (fun v => v) Rmult 0 nch fr b h ltac:(lia) Hh Hlen)
    as (chunks & w' & Hd & Hc).
  exists chunks, w'. split; [assumption|].
  intros k c Hk j m Hj Hm. destruct (Hc k c Hk j m Hj Hm) as (x & Hx & Hn).
  exists x. split; [assumption|]. unfold windowed_take_R. rewrite Hn. f_equal.
  apply map_ext. intros s. f_equal.
  change (hannR (phase_at AR j (window_new AR b))) with (hann_window_value b j).
  apply hann_window_values. assumption.
Qed.

Theorem rect_chunk_frames (nch : nat) (fr : list (list R)) (b h : nat) : (1 <= b)%nat -> (1 <= h)%nat ->
  (forall f, In f fr -> length f = nch) ->
  exists chunks w', w_drain (S (length fr)) (w_new fr b h) = Ok (chunks, w') /\
    forall k c, nth_error chunks k = Some c ->
    forall j m, (j < b)%nat -> (j < m)%nat ->
      exists x, nth_error fr (k * h + j) = Some x /\
        nth_error (windowed_take_R rectR nch m c b) j = Some x.
Proof.
  intros Hb Hh Hlen.
  destruct (windower_windowed_chunk AR rectR R R (fun v => v) Rmult 0 nch fr b h Hb Hh Hlen)
    as (chunks & w' & Hd & Hc).
  exists chunks, w'. split; [assumption|].
  intros k c Hk j m Hj Hm. destruct (Hc k c Hk j m Hj Hm) as (x & Hx & Hn).
  exists x. split; [assumption|]. unfold windowed_take_R. rewrite Hn. f_equal.
  rewrite <- (map_id x) at 2. apply map_ext. intros s. unfold rectR, rect. cbn. ring.
Qed.
