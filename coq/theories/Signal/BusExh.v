(* Extension of the bus model (Signal/Bus.v) by the parts of the public API that do not change the
   shared node: Output::is_exhausted and dropping the Bus handle.  Definitions only.

   The source now also reports exhaustion: [ex n] = what [signal.is_exhausted()] returns after n
   pulls (for [from_iter] of L frames: the look-ahead is None, i.e. L <= n; for [a.add_amp(b)]:
   either side exhausted).  Its frames stay [f : nat -> F] (after the end of a finite source:
   equilibrium frames, or whatever the composite keeps producing).

   <Output as Signal>::is_exhausted:
       node.pending_frames(self.key) == 0 && node.signal.is_exhausted()
   drop(bus): [Bus] has no Drop impl and only holds an Rc to the node: the node is unchanged; no
   further send can be issued (the value is moved) -- a restriction of the schedules expressible
   in Rust, not of the model, where ODropBus is a no-op on the node. *)
Require Import List Arith Bool.
From Dasp Require Import Base.Res Signal.Bus.
Import ListNotations.

Section BusExh.
Context {F : Type} (f : nat -> F) (ex : nat -> bool).

Definition output_is_exhausted (s : @st F) (key : nat) : res bool :=
  let* p := pending_frames s key in
  Ok ((p =? 0) && ex (pulled s)).

Inductive xop := XOp (o : op) | XExhausted (k : nat) | XDropBus.
Inductive xev := XEv (e : @ev F) | XExh (k : nat) (b : bool) | XBusDropped.

Definition xstep (s : @st F) (o : xop) : res (@st F * xev) :=
  match o with
  | XOp o => let* r := step f s o in Ok (fst r, XEv (snd r))
  | XExhausted k => let* b := output_is_exhausted s k in Ok (s, XExh k b)
  | XDropBus => Ok (s, XBusDropped)
  end.

Fixpoint xrun (ops : list xop) (s : @st F) : res (@st F * list xev) :=
  match ops with
  | [] => Ok (s, [])
  | o :: t => let* r := xstep s o in
              let* r2 := xrun t (fst r) in
              Ok (fst r2, snd r :: snd r2)
  end.

(* the core schedule / trace inside an extended one *)
Fixpoint core (ops : list xop) : list op :=
  match ops with [] => [] | XOp o :: t => o :: core t | _ :: t => core t end.
Fixpoint core_ev (tr : list xev) : list (@ev F) :=
  match tr with [] => [] | XEv e :: t => e :: core_ev t | _ :: t => core_ev t end.

End BusExh.
