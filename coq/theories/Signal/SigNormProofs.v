(* C04/C05: a delay that is longer than the run is as good as any other delay that is longer than the run.

   [drel j a b]: the adaptor trees a and b are the same tree except that, at some Delay nodes, the
   two pending lengths k and k' differ -- and then BOTH exceed j.  j is a budget of further calls of next.
   While the budget lasts nothing that can be observed tells a from b:
     drel_obs   related trees have the same is_exhausted, the same leaf pull counters, the same construction
                events, yield the same next frame and cause the same events (order of leaf pulls / closure calls);
     drel_step  one call of next on both spends one unit of the budget;
     drel_sub_at / drel_byref   every sub-signal (a borrowed base that is handed back, in particular) is related too.
   Consequence (drel_after / delay_clamp_sound): for every tree in which a Delay occurs, at any depth and under
   any other adaptors, replacing its length k > m by m + 1 changes none of these observations during the first m
   calls of next.  This is what lets the correspondence feed delay(2^32), delay(usize::MAX) ... to the unary-nat
   model (Signal/SigRun.v, [norm_case]; end-to-end statement in Signal/SigRunNormProofs.v).
   Follows from the model's definition alone (the delay law c04_delay is the special case "frames"). *)
Require Import List ZArith Bool Arith Lia.
From Dasp Require Import Base.Res Signal.Sig Signal.SigProofs.
Import ListNotations.

Section SigNorm.
Variables F Sm SS FS : Type.
Variable eqm : F.
Variable nch : nat.
Variable channels : F -> list Sm.
Variable of_samples : list Sm -> F.
Variable fmap : (Sm -> Sm) -> F -> F.
Variables f_add f_mul : F -> F -> F.
Variable f_scale : FS -> F -> F.
Variable f_offset : SS -> F -> F.
Variable to_signed : Sm -> SS.
Variable of_signed : SS -> Sm.
Variable ss_ltb : SS -> SS -> bool.
Variable ss_neg : SS -> SS.

Notation sig := (sig F Sm SS FS).
Notation next := (Sig.next F Sm SS FS eqm nch of_samples fmap f_add f_mul f_scale f_offset to_signed of_signed ss_ltb ss_neg).
Notation trace := (Sig.trace F Sm SS FS eqm nch of_samples fmap f_add f_mul f_scale f_offset to_signed of_signed ss_ltb ss_neg).
Notation after := (Sig.after F Sm SS FS eqm nch of_samples fmap f_add f_mul f_scale f_offset to_signed of_signed ss_ltb ss_neg).
Notation stream := (Sig.stream F Sm SS FS eqm nch of_samples fmap f_add f_mul f_scale f_offset to_signed of_signed ss_ltb ss_neg).
Notation step := (SigProofs.step F Sm SS FS eqm nch of_samples fmap f_add f_mul f_scale f_offset to_signed of_signed ss_ltb ss_neg).
Notation until_next := (Sig.until_next F Sm SS FS eqm nch of_samples fmap f_add f_mul f_scale f_offset to_signed of_signed ss_ltb ss_neg).
Notation until_trace := (Sig.until_trace F Sm SS FS eqm nch of_samples fmap f_add f_mul f_scale f_offset to_signed of_signed ss_ltb ss_neg).
Notation next_sample := (Sig.next_sample F Sm SS FS eqm nch channels of_samples fmap f_add f_mul f_scale f_offset to_signed of_signed ss_ltb ss_neg).

Inductive drel (j : nat) : sig -> sig -> Prop :=
| DR_refl s : drel j s s
| DR_Map id f a b : drel j a b -> drel j (Map id f a) (Map id f b)
| DR_ZipMap id f a a' b b' : drel j a a' -> drel j b b' -> drel j (ZipMap id f a b) (ZipMap id f a' b')
| DR_AddAmp a a' b b' : drel j a a' -> drel j b b' -> drel j (AddAmp a b) (AddAmp a' b')
| DR_MulAmp a a' b b' : drel j a a' -> drel j b b' -> drel j (MulAmp a b) (MulAmp a' b')
| DR_ScaleAmp x a b : drel j a b -> drel j (ScaleAmp x a) (ScaleAmp x b)
| DR_OffsetAmp x a b : drel j a b -> drel j (OffsetAmp x a) (OffsetAmp x b)
| DR_ScalePC x a b : drel j a b -> drel j (ScaleAmpPerChannel x a) (ScaleAmpPerChannel x b)
| DR_OffsetPC x a b : drel j a b -> drel j (OffsetAmpPerChannel x a) (OffsetAmpPerChannel x b)
| DR_ClipAmp x a b : drel j a b -> drel j (ClipAmp x a) (ClipAmp x b)
| DR_Inspect id a b : drel j a b -> drel j (Inspect id a) (Inspect id b)
| DR_ByRef a b : drel j a b -> drel j (ByRef a) (ByRef b)
| DR_Delay k k' a b : (k = k' \/ (j < k /\ j < k')) -> drel j a b -> drel j (Delay k a) (Delay k' b).

(* a smaller budget asks less *)
Lemma drel_le j j' a b : j' <= j -> drel j a b -> drel j' a b.
Proof.
  intros Hj H. induction H; try (constructor; assumption).
  constructor; [|assumption]. destruct H as [H|H]; [now left|right; lia].
Qed.

Lemma drel_mono j a b : drel (S j) a b -> drel j a b.
Proof. apply drel_le. lia. Qed.

(* everything one call observes *)
Lemma drel_obs j a b : drel j a b ->
  exhausted a = exhausted b /\ leaf_counts a = leaf_counts b /\ build_trace a = build_trace b /\
  fst (next a) = fst (next b) /\ trace a = trace b.
Proof.
  intros H. induction H;
    repeat match goal with IH : _ /\ _ |- _ => destruct IH as [? IH] end;
    cbn [exhausted leaf_counts build_trace Sig.trace];
    rewrite ?(fst_Map F Sm SS FS), ?(fst_ZipMap F Sm SS FS), ?(fst_AddAmp F Sm SS FS), ?(fst_MulAmp F Sm SS FS),
      ?(fst_ScaleAmp F Sm SS FS), ?(fst_OffsetAmp F Sm SS FS), ?(fst_ScalePC F Sm SS FS), ?(fst_OffsetPC F Sm SS FS),
      ?(fst_ClipAmp F Sm SS FS), ?(fst_Inspect F Sm SS FS), ?(fst_ByRef F Sm SS FS);
    try (repeat split; congruence).
  (* Delay *)
  destruct H as [<-|[Hka Hkb]].
  - destruct k as [|k].
    + rewrite !(fst_Delay0 F Sm SS FS). cbn [Nat.eqb andb]. repeat split; congruence.
    + cbn [Nat.eqb andb Sig.next fst]. repeat split; congruence.
  - destruct k as [|k]; [lia|]. destruct k' as [|k']; [lia|].
    cbn [Nat.eqb andb Sig.next fst]. repeat split; congruence.
Qed.

(* one call of next on both sides spends one unit *)
Lemma drel_step j a b : drel (S j) a b -> drel j (step a) (step b).
Proof.
  intros H. remember (S j) as j1 eqn:Ej. induction H; subst j1;
    rewrite ?(step_Map F Sm SS FS), ?(step_ZipMap F Sm SS FS), ?(step_AddAmp F Sm SS FS), ?(step_MulAmp F Sm SS FS),
      ?(step_ScaleAmp F Sm SS FS), ?(step_OffsetAmp F Sm SS FS), ?(step_ScalePC F Sm SS FS), ?(step_OffsetPC F Sm SS FS),
      ?(step_ClipAmp F Sm SS FS), ?(step_Inspect F Sm SS FS), ?(step_ByRef F Sm SS FS);
    try (constructor; auto; fail).
  destruct H as [<-|[Hka Hkb]].
  - destruct k as [|k].
    + rewrite !(step_Delay0 F Sm SS FS). constructor; auto.
    + rewrite !(step_DelayS F Sm SS FS). constructor; [now left|]. now apply drel_mono.
  - destruct k as [|k]; [lia|]. destruct k' as [|k']; [lia|].
    rewrite !(step_DelayS F Sm SS FS). constructor; [right; lia|]. now apply drel_mono.
Qed.

Lemma drel_after n : forall j a b, drel (n + j) a b -> drel j (after n a) (after n b).
Proof.
  induction n as [|n IH]; intros j a b H; [exact H|].
  rewrite !(after_S F Sm SS FS). apply IH. apply drel_step. exact H.
Qed.

(* sub-signals *)
Lemma drel_child j d t t' : drel j t t' ->
  match child d t, child d t' with
  | Some c, Some c' => drel j c c'
  | None, None => True
  | _, _ => False
  end.
Proof.
  intros H. destruct H; destruct d; cbn [child]; auto.
  all: match goal with |- context[child ?d ?s] => destruct (child d s); auto using DR_refl end.
Qed.

Lemma drel_sub_at j p : forall t t', drel j t t' ->
  match sub_at p t, sub_at p t' with
  | Some c, Some c' => drel j c c'
  | None, None => True
  | _, _ => False
  end.
Proof.
  induction p as [|d p IH]; intros t t' H; cbn [sub_at]; [exact H|].
  pose proof (drel_child j d t t' H) as Hc.
  destruct (child d t), (child d t'); try contradiction; [now apply IH|exact I].
Qed.

Lemma drel_byref j x x' : drel j x x' ->
  match x, x' with
  | ByRef s, ByRef s' => drel j s s'
  | ByRef _, _ | _, ByRef _ => False
  | _, _ => True
  end.
Proof. intros H. destruct H; auto. destruct s; auto using DR_refl. Qed.

(* ---- the iterator side ---- *)
Lemma drel_until j a b : drel (S j) a b ->
  fst (until_next a) = fst (until_next b) /\ until_trace a = until_trace b /\
  drel j (snd (until_next a)) (snd (until_next b)).
Proof.
  intros H. destruct (drel_obs _ _ _ H) as [He [_ [_ [Hf Ht]]]].
  unfold Sig.until_next, Sig.until_trace. rewrite <- He. destruct (exhausted a).
  - cbn [fst snd]. repeat split; auto. now apply drel_mono.
  - pose proof (drel_step _ _ _ H) as Hs. unfold SigProofs.step in Hs.
    destruct (next a), (next b). cbn [fst snd] in *. repeat split; congruence.
Qed.

Definition irel (j : nat) (st st' : inter F Sm SS FS) : Prop :=
  icur st = icur st' /\ drel j (isig st) (isig st').

Lemma drel_next_sample fuel : forall j st st', irel (fuel + j) st st' ->
  match next_sample fuel st, next_sample fuel st' with
  | Ok (o, s1), Ok (o', s1') => o = o' /\ irel j s1 s1'
  | UB, UB => True
  | _, _ => False
  end.
Proof.
  induction fuel as [|fuel IH]; intros j st st' [Hc Hr]; [exact I|].
  cbn [Sig.next_sample].
  set (st1 := match icur st with
              | None => if exhausted (isig st) then st
                        else let (x, s') := next (isig st) in {| isig := s'; icur := Some (channels x) |}
              | Some _ => st end).
  set (st1' := match icur st' with
               | None => if exhausted (isig st') then st'
                         else let (x, s') := next (isig st') in {| isig := s'; icur := Some (channels x) |}
               | Some _ => st' end).
  assert (H1 : irel (fuel + j) st1 st1').
  { subst st1 st1'. rewrite <- Hc. destruct (icur st) eqn:Ec.
    - split; [congruence|]. now apply drel_mono.
    - destruct (drel_obs _ _ _ Hr) as [He [_ [_ [Hf _]]]]. rewrite <- He.
      destruct (exhausted (isig st)).
      + split; [congruence|]. now apply drel_mono.
      + pose proof (drel_step (fuel + j) _ _ Hr) as Hs. unfold SigProofs.step in Hs.
        destruct (next (isig st)) as [x a1], (next (isig st')) as [y b1]. cbn [fst snd] in Hf, Hs. subst y.
        split; cbn [isig icur]; [reflexivity|exact Hs]. }
  clearbody st1 st1'. destruct H1 as [Hc1 Hr1]. rewrite <- Hc1.
  destruct (icur st1) as [[|x t]|] eqn:E1.
  - apply IH. split; [reflexivity|exact Hr1].
  - split; [reflexivity|]. split; [reflexivity|]. cbn [isig]. apply drel_le with (fuel + j); [lia|exact Hr1].
  - split; [reflexivity|]. split; [congruence|]. apply drel_le with (fuel + j); [lia|exact Hr1].
Qed.

(* ---- the statement in terms of a single delay anywhere in a tree ---- *)

(* [t] with the sub-signal at position p replaced: if p holds Delay k s, put Delay k' s there *)
Theorem delay_clamp_rel (m : nat) (p : path) : forall (t : sig) k k' s,
  sub_at p t = Some (Delay k s) -> m < k -> m < k' ->
  drel m t (subst_at p t (Delay k' s)).
Proof.
  induction p as [|d p IH]; intros t k k' s H Hk Hk'.
  - cbn in H. injection H as ->. cbn [subst_at]. constructor; [right; lia|apply DR_refl].
  - cbn [sub_at] in H. cbn [subst_at]. destruct (child d t) as [c|] eqn:Ec; [|discriminate].
    specialize (IH c k k' s H Hk Hk').
    destruct t; destruct d; cbn in Ec; try discriminate; injection Ec as ->; cbn [set_child];
      constructor; auto using DR_refl.
Qed.

(* for every tree t in which a delay longer than m occurs (at any position p): giving that delay any other length
   longer than m -- m + 1, say -- changes no frame, no is_exhausted answer, no pull counter, no event order, and
   no sub-signal handed back (up to the same replacement) during the first m calls of next *)
Theorem delay_clamp_sound (m : nat) (p : path) (t : sig) k k' s :
  sub_at p t = Some (Delay k s) -> m < k -> m < k' ->
  let t' := subst_at p t (Delay k' s) in
  forall n, n <= m ->
    stream t' n = stream t n /\
    trace (after n t') = trace (after n t) /\
    exhausted (after n t') = exhausted (after n t) /\
    leaf_counts (after n t') = leaf_counts (after n t) /\
    drel (m - n) (after n t) (after n t').
Proof.
  intros H Hk Hk' t' n Hn.
  pose proof (delay_clamp_rel m p t k k' s H Hk Hk') as Hr. fold t' in Hr.
  assert (Hr' : drel (m - n) (after n t) (after n t')).
  { apply drel_after. replace (n + (m - n)) with m by lia. exact Hr. }
  destruct (drel_obs _ _ _ Hr') as [He [Hl [_ [Hf Ht]]]].
  unfold Sig.stream. repeat split; auto.
Qed.

(* ---- take(n) with a count that outlasts the run ----
   the first m items of take(n), m <= n, are the first m frames of the signal WHATEVER n is; n - m are left and the
   signal has been advanced exactly m times (c05_take is the case m = n) *)
Notation collect_take := (Sig.collect_take F Sm SS FS eqm nch of_samples fmap f_add f_mul f_scale f_offset to_signed of_signed ss_ltb ss_neg).

Theorem take_prefix : forall m n (s : sig), m <= n ->
  collect_take m (n, s) = (map (stream s) (seq 0 m), (n - m, after m s)).
Proof.
  induction m as [|m IH]; intros n s Hn.
  - cbn [Sig.collect_take seq map Sig.after]. now rewrite Nat.sub_0_r.
  - cbn [Sig.collect_take]. unfold Sig.take_next. cbn [fst snd]. destruct n as [|n]; [lia|].
    destruct (next s) as [x s'] eqn:E.
    assert (Hs' : s' = step s) by (unfold SigProofs.step; now rewrite E).
    rewrite (IH n s' ltac:(lia)). cbn [seq map Nat.sub]. f_equal.
    + f_equal; [unfold Sig.stream; cbn [Sig.after]; now rewrite E|].
      rewrite <- seq_shift, map_map. apply map_ext. intros i. unfold Sig.stream. rewrite (after_S F Sm SS FS). now rewrite Hs'.
    + rewrite (after_S F Sm SS FS). now rewrite Hs'.
Qed.

Corollary take_beyond_run m n n' (s : sig) : m <= n -> m <= n' ->
  fst (collect_take m (n, s)) = fst (collect_take m (n', s)) /\
  snd (snd (collect_take m (n, s))) = snd (snd (collect_take m (n', s))).
Proof. intros H H'. rewrite !take_prefix by assumption. split; reflexivity. Qed.

End SigNorm.
