(* IEEE binary64 facts about the converter's pull loop (C08):
   - for an accumulator 1 <= v < 2^53 the subtraction v - 1.0 is exact, hence the loop
     pulls exactly floor(v) frames and leaves v - floor(v), exactly;
   - for v = 1e17 (> 2^53) the subtraction returns v: the loop makes no progress (known finding K3). *)
Require Import Floats.SpecFloat.
Require Import ZArith Reals Lia Lra List Bool.
From Flocq Require Import Core BinarySingleNaN.
From Dasp Require Import Base.Res Base.Float Signal.Converter Signal.ConvNumF.
Import ListNotations.
Open Scope R_scope.

Notation fexp64 := (FLT_exp (3 - 1024 - 53) 53).
Notation format64 := (generic_format radix2 fexp64).

Lemma one_B2R : B2R F64.one = 1.
Proof. vm_compute. lra. Qed.

Lemma one_finite : is_finite F64.one = true.
Proof. reflexivity. Qed.

(* v - 1 is representable when 1 <= v < 2^53 *)
Lemma format_sub_one (v : R) : format64 v -> 1 <= v < bpow radix2 53 -> format64 (v - 1).
Proof.
  intros Fv [H1 H2].
  apply FLT_format_generic in Fv; [|reflexivity]. destruct Fv as [[m e] Hv Hm He].
  cbn [Fnum Fexp] in Hm, He.
  apply generic_format_FLT.
  assert (Bp : forall k, 0 < bpow radix2 k) by (intros k; apply bpow_gt_0).
  unfold F2R in Hv. cbn [Fnum Fexp] in Hv.
  destruct (Z_le_gt_dec e 0) as [Hle|Hgt].
  - (* v - 1 = (m - 2^(-e)) * 2^e *)
    assert (E1 : IZR (2 ^ (- e)) * bpow radix2 e = 1).
    { change 2%Z with (radix_val radix2). rewrite IZR_Zpower by lia.
      rewrite <- bpow_plus. replace (- e + e)%Z with 0%Z by lia. reflexivity. }
    assert (Hge : (2 ^ (- e) <= m)%Z).
    { apply le_IZR. apply Rmult_le_reg_r with (bpow radix2 e); [apply Bp|]. rewrite E1, <- Hv. exact H1. }
    assert (Hp : (0 < 2 ^ (- e))%Z) by (apply Z.pow_pos_nonneg; lia).
    exists (Float radix2 (m - 2 ^ (- e)) e).
    + unfold F2R. cbn [Fnum Fexp]. rewrite minus_IZR, Rmult_minus_distr_r, E1, <- Hv. reflexivity.
    + cbn [Fnum]. rewrite Z.abs_eq by lia. rewrite Z.abs_lt in Hm. lia.
    + exact He.
  - (* e > 0: v is an integer *)
    assert (E : v = IZR (m * 2 ^ e)).
    { rewrite mult_IZR. change 2%Z with (radix_val radix2). rewrite IZR_Zpower by lia. exact Hv. }
    exists (Float radix2 (m * 2 ^ e - 1) 0).
    + unfold F2R. cbn [Fnum Fexp]. rewrite minus_IZR, <- E. simpl. lra.
    + cbn [Fnum].
      assert (L : (1 <= m * 2 ^ e)%Z) by (apply le_IZR; rewrite <- E; exact H1).
      assert (U : (m * 2 ^ e < 2 ^ 53)%Z).
      { apply lt_IZR. rewrite <- E. change 2%Z with (radix_val radix2). rewrite IZR_Zpower by lia. exact H2. }
      set (q := (m * 2 ^ e)%Z) in *. rewrite Z.abs_eq by lia.
      change (Z.pow (radix_val radix2) 53) with (2 ^ 53)%Z. lia.
    + cbn [Fexp]. lia.
Qed.

Theorem sub_one_exact (v : F64.t) : is_finite v = true -> 1 <= B2R v < bpow radix2 53 ->
  is_finite (F64.sub v F64.one) = true /\ B2R (F64.sub v F64.one) = B2R v - 1.
Proof.
  intros Fv Hv.
  pose proof (@Bminus_correct 53 1024 p53 pe53 mode_NE v F64.one Fv one_finite) as H.
  rewrite one_B2R in H.
  assert (Ff : format64 (B2R v - 1)).
  { apply format_sub_one; [apply generic_format_B2R|exact Hv]. }
  rewrite round_generic in H by (auto with typeclass_instances).
  rewrite Rlt_bool_true in H.
  - destruct H as (H1 & H2 & _). split; [exact H2|exact H1].
  - rewrite Rabs_pos_eq by lra. apply Rlt_trans with (bpow radix2 53); [lra|]. apply bpow_lt. lia.
Qed.

Lemma leb_one_spec (v : F64.t) : is_finite v = true -> F64.leb F64.one v = Rle_bool 1 (B2R v).
Proof.
  intros Fv. unfold F64.leb, gle, gcmp.
  rewrite (Bcompare_correct _ _ F64.one v one_finite Fv). rewrite one_B2R.
  destruct (Rcompare_spec 1 (B2R v)); destruct (Rle_bool_spec 1 (B2R v)); try reflexivity; lra.
Qed.

Section Loop.
Context {Fm : Fmt NF}.

(* m pulls handed to the interpolator *)
Fixpoint pull_n (m : nat) (s : source Fm) (i : interp Fm) : source Fm * interp Fm :=
  match m with
  | O => (s, i)
  | S m' => let (f, s') := src_next s in pull_n m' s' (next_source_frame i f)
  end.

Lemma pull_n_pulls m : forall s i, pulls (fst (pull_n m s i)) = (pulls s + m)%nat.
Proof.
  induction m as [|m IH]; intros s i; cbn [pull_n]; [cbn; lia|].
  destruct (src_next s) as [f s'] eqn:E. rewrite IH.
  unfold src_next in E. destruct (rest s); injection E as _ <-; cbn [pulls]; lia.
Qed.

(* the loop on binary64: exact closed form below 2^53 *)
Theorem loop_closed_form (fuel : nat) : forall (c : conv Fm),
  is_finite (value c) = true -> 0 <= B2R (value c) < bpow radix2 53 ->
  (Zfloor (B2R (value c)) < Z.of_nat fuel)%Z ->
  exists c', advance fuel c = Done c' /\
    is_finite (value c') = true /\
    B2R (value c') = B2R (value c) - IZR (Zfloor (B2R (value c))) /\
    (src c', itp c') = pull_n (Z.to_nat (Zfloor (B2R (value c)))) (src c) (itp c) /\
    ratio c' = ratio c.
Proof.
  induction fuel as [|fuel IH]; intros c Fv [H0 H53] Hfu.
  - assert (0 <= Zfloor (B2R (value c)))%Z by (apply Zfloor_lub; simpl; exact H0). lia.
  - cbn [advance]. change (leb NF (one NF) (value c)) with (F64.leb F64.one (value c)).
    rewrite leb_one_spec by exact Fv.
    destruct (Rle_bool_spec 1 (B2R (value c))) as [H1|H1].
    + destruct (src_next (src c)) as [f s'] eqn:En.
      destruct (sub_one_exact (value c) Fv (conj H1 H53)) as [Fs Es].
      set (c1 := {| src := s'; itp := next_source_frame (itp c) f;
                    value := sub NF (value c) (one NF); ratio := ratio c |}).
      assert (Efl : Zfloor (B2R (value c) - 1) = (Zfloor (B2R (value c)) - 1)%Z).
      { apply Zfloor_imp. rewrite minus_IZR. replace (Zfloor (B2R (value c)) - 1 + 1)%Z with (Zfloor (B2R (value c))) by lia.
        pose proof (Zfloor_lb (B2R (value c))). pose proof (Zfloor_ub (B2R (value c))). lra. }
      destruct (IH c1) as (c' & Ea & Fc & Ec & Ep & Er).
      * exact Fs.
      * cbn [c1 value]. change (sub NF (value c) (one NF)) with (F64.sub (value c) F64.one). rewrite Es. lra.
      * cbn [c1 value]. change (sub NF (value c) (one NF)) with (F64.sub (value c) F64.one). rewrite Es, Efl. lia.
      * exists c'. split; [exact Ea|]. split; [exact Fc|].
        cbn [c1 value src itp ratio] in Ec, Ep, Er.
        change (sub NF (value c) (one NF)) with (F64.sub (value c) F64.one) in Ec, Ep.
        rewrite Es, Efl in Ec, Ep. split; [|split; [|exact Er]].
        -- rewrite Ec, minus_IZR. lra.
        -- assert (Hz : (1 <= Zfloor (B2R (value c)))%Z) by (apply Zfloor_lub; simpl; exact H1).
           replace (Z.to_nat (Zfloor (B2R (value c)))) with (S (Z.to_nat (Zfloor (B2R (value c)) - 1))) by lia.
           cbn [pull_n]. rewrite En. exact Ep.
    + exists c. split; [reflexivity|]. split; [exact Fv|].
      assert (Ez : Zfloor (B2R (value c)) = 0%Z) by (apply Zfloor_imp; simpl; lra).
      rewrite Ez. cbn [Z.to_nat pull_n]. simpl. split; [lra|]. split; reflexivity.
Qed.

Corollary loop_pulls_floor (fuel : nat) (c : conv Fm) :
  is_finite (value c) = true -> 0 <= B2R (value c) < bpow radix2 53 ->
  (Zfloor (B2R (value c)) < Z.of_nat fuel)%Z ->
  exists c', advance fuel c = Done c' /\
    pulls (src c') = (pulls (src c) + Z.to_nat (Zfloor (B2R (value c))))%nat /\
    0 <= B2R (value c') < 1.
Proof.
  intros Fv Hv Hfu. destruct (loop_closed_form fuel c Fv Hv Hfu) as (c' & Ea & _ & Ec & Ep & _).
  exists c'. split; [exact Ea|]. split.
  - pose proof (pull_n_pulls (Z.to_nat (Zfloor (B2R (value c)))) (src c) (itp c)) as P.
    rewrite <- Ep in P. exact P.
  - rewrite Ec. pose proof (Zfloor_lb (B2R (value c))). pose proof (Zfloor_ub (B2R (value c))). lra.
Qed.

(* ---- K3: above 2^53 the spacing of binary64 exceeds 1 and v - 1.0 rounds back to v;
   witness 1e17 (spacing 16), the value used in DESIGN section 7.  (At exactly 2^53 the
   difference 2^53 - 1 is still representable; the guaranteed region is v < 2^53.) ---- *)
Definition v_k3 : F64.t := F64.of_Z (10 ^ 17).

Lemma v_k3_stuck : F64.sub v_k3 F64.one = v_k3 /\ F64.leb F64.one v_k3 = true.
Proof. split; [apply B2SF_inj|]; vm_compute; reflexivity. Qed.

Lemma advance_stuck (fuel : nat) : forall c : conv Fm, value c = v_k3 -> advance fuel c = Diverges.
Proof.
  induction fuel as [|fuel IH]; intros c Hv; [reflexivity|].
  cbn [advance]. rewrite Hv. change (leb NF (one NF) v_k3) with (F64.leb F64.one v_k3).
  destruct v_k3_stuck as [Hs ->]. destruct (src_next (src c)) as [f s'].
  apply IH. cbn [value]. exact Hs.
Qed.

Theorem k3_second_output_never_arrives (s : source Fm) (i : interp Fm) :
  F64.ltb F64.zero v_k3 = true /\
  exists c0, scale_playback_hz s i v_k3 = Ok c0 /\
    forall fuel, (0 < fuel)%nat ->
      exists out c1, next fuel c0 = Done (out, c1) /\ forall fuel', next fuel' c1 = Diverges.
Proof.
  split; [vm_compute; reflexivity|].
  unfold scale_playback_hz. change (ltb NF (zero NF) v_k3) with (F64.ltb F64.zero v_k3).
  replace (F64.ltb F64.zero v_k3) with true by (vm_compute; reflexivity).
  eexists. split; [reflexivity|]. intros fuel Hf.
  destruct fuel as [|fuel]; [lia|].
  unfold next at 1. cbn [advance value].
  change (leb NF (one NF) (zero NF)) with (F64.leb F64.one F64.zero).
  replace (F64.leb F64.one F64.zero) with false by (vm_compute; reflexivity).
  eexists. eexists. split; [reflexivity|].
  intros fuel'. unfold next. rewrite advance_stuck; [reflexivity|].
  cbn [value ratio]. change (add NF (zero NF) v_k3) with (F64.add F64.zero v_k3).
  apply B2SF_inj. vm_compute. reflexivity.
Qed.
End Loop.
