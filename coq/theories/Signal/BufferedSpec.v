(* Operation language over the Buffered model, its interpreter (used by the
   correspondence check and by the theorems), and the ideal prefetcher the model
   must refine: a queue of prefetched frames, the frames the source still holds,
   and a pull counter. *)
Require Import List Arith Bool.
From Dasp Require Import Base.Res Base.ListX Ring.Bounded Ring.BoundedSpec Signal.Buffered.
Import ListNotations.

Section Spec.
Context {A : Type}.
Variable EQ : A.

(* what a client can do with a Buffered signal *)
Inductive bop :=
| BNext                 (* Signal::next *)
| BFrames (k : nat)     (* next_frames().take(k), collected; iterator then dropped *)
| BFramesAll            (* next_frames() consumed until it returns None *)
| BHint                 (* next_frames().size_hint(); iterator dropped unconsumed *)
| BExhausted.           (* Signal::is_exhausted *)

Inductive bobs :=
| ONext (f : A) | OFrames (l : list A) | OHint (lo : nat) (hi : option nat) | OExh (b : bool).

Definition frames_of (v : bobs) : list A :=
  match v with ONext f => [f] | OFrames l => l | _ => [] end.
Definition all_frames (vs : list bobs) : list A := flat_map frames_of vs.

(* does the operation go through a refill test? *)
Definition pulling (o : bop) : bool := match o with BExhausted => false | _ => true end.

Definition step (fuel : nat) (u : buffered A) (o : bop) : res (buffered A * bobs) :=
  match o with
  | BNext => let* r := next_loop EQ fuel u in Ok (snd r, ONext (fst r))
  | BFrames k => let* u1 := next_frames EQ u in
                 let* r := frames_take k u1 in Ok (snd r, OFrames (fst r))
  | BFramesAll => let* u1 := next_frames EQ u in
                  let* r := frames_take (S (len (rb u1))) u1 in Ok (snd r, OFrames (fst r))
  | BHint => let* u1 := next_frames EQ u in
             let h := frames_size_hint u1 in Ok (u1, OHint (fst h) (snd h))
  | BExhausted => Ok (u, OExh (is_exhausted u))
  end.

Fixpoint run (fuel : nat) (u : buffered A) (ops : list bop) : res (buffered A * list bobs) :=
  match ops with
  | [] => Ok (u, [])
  | o :: t => let* r := step fuel u o in
              let* r' := run fuel (fst r) t in Ok (fst r', snd r :: snd r')
  end.

(* "draining to exhaustion": the run stops in front of the first operation that
   finds the signal exhausted *)
Fixpoint run_until_exhausted (fuel : nat) (u : buffered A) (ops : list bop)
  : res (buffered A * list bobs) :=
  match ops with
  | [] => Ok (u, [])
  | o :: t => if is_exhausted u then Ok (u, []) else
              let* r := step fuel u o in
              let* r' := run_until_exhausted fuel (fst r) t in Ok (fst r', snd r :: snd r')
  end.

(* ---------------- the ideal prefetcher ---------------- *)
Record ideal := { q : list A; rest : list A; npull : nat }.

(* n frames of the source: what it still has, then equilibrium *)
Definition take_pad (n : nat) (l : list A) : list A := firstn n l ++ repeat EQ (n - length l).

(* one buffer's worth is pulled exactly when the queue is empty *)
Definition i_fill (cap : nat) (s : ideal) : ideal :=
  match q s with
  | [] => {| q := take_pad cap (rest s); rest := skipn cap (rest s); npull := npull s + cap |}
  | _ :: _ => s
  end.

Definition i_exhausted (s : ideal) : bool :=
  match q s, rest s with [], [] => true | _, _ => false end.

Definition spec_step (cap : nat) (s : ideal) (o : bop) : ideal * bobs :=
  match o with
  | BNext => let s1 := i_fill cap s in
             match q s1 with
             | x :: t => ({| q := t; rest := rest s1; npull := npull s1 |}, ONext x)
             | [] => (s1, ONext EQ)      (* only for cap = 0 *)
             end
  | BFrames k => let s1 := i_fill cap s in
                 ({| q := skipn k (q s1); rest := rest s1; npull := npull s1 |}, OFrames (firstn k (q s1)))
  | BFramesAll => let s1 := i_fill cap s in
                  ({| q := []; rest := rest s1; npull := npull s1 |}, OFrames (q s1))
  | BHint => (i_fill cap s, OHint 0 None)
  | BExhausted => (s, OExh (i_exhausted s))
  end.

Fixpoint spec_run (cap : nat) (s : ideal) (ops : list bop) : ideal * list bobs :=
  match ops with
  | [] => (s, [])
  | o :: t => let r := spec_step cap s o in
              let r' := spec_run cap (fst r) t in (fst r', snd r :: snd r')
  end.

Fixpoint spec_run_until_exhausted (cap : nat) (s : ideal) (ops : list bop) : ideal * list bobs :=
  match ops with
  | [] => (s, [])
  | o :: t => if i_exhausted s then (s, []) else
              let r := spec_step cap s o in
              let r' := spec_run_until_exhausted cap (fst r) t in (fst r', snd r :: snd r')
  end.

(* number of operations of the history that found the queue empty and refilled it *)
Fixpoint refills (cap : nat) (s : ideal) (ops : list bop) : nat :=
  match ops with
  | [] => 0
  | o :: t => (if pulling o && (length (q s) =? 0) then 1 else 0) + refills cap (fst (spec_step cap s o)) t
  end.

(* ---------------- abstraction ---------------- *)
(* the frames the source will still yield before equilibrium *)
Definition src_rest (s : source A) : list A :=
  match look s with Some f => f :: it s | None => [] end.

Definition abs_u (u : buffered A) : ideal :=
  {| q := abs (rb u); rest := src_rest (sig u); npull := pulls (sig u) |}.

End Spec.
Arguments bobs A : clear implicits.
Arguments ideal A : clear implicits.
