(* Executable instance of the GENERATED Buffered model (gen/BufferedGen.v through Signal/BufferedGenGlue.v, ring
   buffer built and read through the generated ring methods of gen/RingGen.v) on the cases and with the observation
   encoding of Signal/BufferedRun.v.  Used by lib/props/c14.py as the search when the translator tie breaks: the
   regenerated model against the crate's observations and against the hand model.  Depends on the generated files and
   the glue only (not on the equivalence proofs), so it still runs when those break. *)
Require Import List ZArith Bool.
From Dasp Require Import Base.Res Base.ListX Ring.Bounded Ring.RingPrim Signal.SigGenPrim Signal.Buffered
  Signal.BufferedSpec Signal.BufferedRun Signal.BufferedGenGlue.
From DaspGen Require Import RingGen BufferedGen.
Import ListNotations.
Open Scope Z_scope.

Notation gbz := (buffered_g (source Z) Z).

Definition genc (u : gbz) (v : bobs Z) : list Z :=
  enc {| sig := bg_signal u; rb := bg_ring_buffer u |} v.

(* final observation: the generated into_parts(), then the generated len / iter of the ring buffer *)
Definition genc_parts (u : gbz) : list (list Z) :=
  match (let* (s, b) := Buffered_into_parts u in
         let* l := Bounded_iter b in
         let* k := Bounded_len b in
         Ok [6 :: zn (pulls s) :: zn (ipulls s) :: zb (src_exhausted s) :: zn k :: l]) with
  | Ok r => r
  | Panic k => [[-1; zn (panic_code k)]]
  | UB => [[-2]]
  end.

Fixpoint gzrun (u : gbz) (ops : list zop) : list (list Z) :=
  match ops with
  | [] => genc_parts u
  | o :: t => match gen_step (src_next 0) (@src_exhausted Z) FUEL u (to_op o) with
              | Ok (u', v) => genc u' v :: gzrun u' t
              | Panic k => [[-1; zn (panic_code k)]]
              | UB => [[-2]]
              end
  end.

Definition gen_run_case (c : bcase) : list (list Z) :=
  match c with
  | Case s l d src ops =>
    match (let* b := Bounded_from_raw_parts (n s) (n l) d in Signal_buffered (from_iter src) b) with
    | Ok u => gzrun u ops
    | Panic k => [[8; zn (panic_code k)]]
    | UB => [[-2]]
    end
  end.

(* the regenerated model against the crate's observations *)
Definition check_gen (c : bcase * list (list Z)) : bool := zll_eqb (gen_run_case (fst c)) (snd c).
(* the regenerated model against the hand model (the observations are ignored) *)
Definition agree_gen (c : bcase * list (list Z)) : bool := zll_eqb (gen_run_case (fst c)) (run_case (fst c)).
Definition both_gen (c : bcase * list (list Z)) : bool := check_gen c && agree_gen c.
