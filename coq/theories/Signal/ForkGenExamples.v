(* Non-vacuity for the theorems about the GENERATED Fork model: the examples of Signal/ForkExamples.v (capacity 3,
   ring buffer pre-positioned at start = 2, leads of exactly the capacity in both directions, re-split by reference and
   by_rc) run through the interpreter over the regenerated methods. *)
Require Import List ZArith Arith Lia.
From Dasp Require Import Base.Res Base.ListX Ring.Bounded Ring.BoundedSpec Ring.BoundedProofs Signal.SigGenPrim
  Signal.Fork Signal.ForkSpec Signal.ForkProofs Signal.ForkExamples Signal.ForkGenGlue Signal.ForkGenEquiv.
From DaspGen Require Import RingGen ForkGen.
Import ListNotations.

(* the same run as [ex3_run], computed by the regenerated methods; the schedule ends on the by_rc branch types *)
Example ex3_gen_run :
  match Signal_fork zsrc ex3_rb with
  | Ok g0 =>
    match gen_frun (@src_next Z) (@pulls Z) false g0 ex3_ops with
    | Ok (rc, g', vs) =>
        rc = true /\ pos_of (of_g g') = (6, 6) /\ pulls (fg_signal g') = 6 /\
        frames_of BrA ex3_ops vs = [1; 2; 3; 4; 5; 6]%Z /\ frames_of BrB ex3_ops vs = [1; 2; 3; 4; 5; 6]%Z /\
        nth_error vs 3 = Some (VCount 3, 3, 3, 0) /\ nth_error vs 10 = Some (VCount 3, 6, 0, 3)
    | _ => False
    end
  | _ => False
  end.
Proof. vm_compute. repeat split; reflexivity. Qed.

(* the hypotheses of [gen_frun_refines] at that state *)
Example ex3_gen_hyps :
  exists g0, Signal_fork zsrc ex3_rb = Ok g0 /\ FInv (of_g g0) /\
             sched_ok (max_len (fg_ring_buffer g0)) (pos_of (of_g g0)) ex3_ops.
Proof.
  eexists. split; [reflexivity|]. split.
  - unfold FInv, Inv, max_len. cbn. repeat split; lia.
  - cbv. lia.
Qed.

(* the assert of Signal::fork, through the generated ring method is_empty *)
Example ex_gen_fork_rejects_nonempty :
  Signal_fork zsrc {| start := 0; len := 1; data := [0%Z] |} = Panic PAssert.
Proof. reflexivity. Qed.
