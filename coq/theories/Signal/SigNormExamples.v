(* Non-vacuity for the delay-beyond-the-run theorems (SigNormProofs / SigRunNormProofs) and the Z take counter:
   a concrete tree with a long delay over a BORROWED base under a binary node, and the normaliser of Signal/SigRun.v on a
   concrete case with delay(2^32), delay(usize::MAX) and take(2^32 + 1). *)
Require Import Floats.SpecFloat.
Require Import List ZArith Bool Lia.
From Flocq Require Import Core BinarySingleNaN.
From Dasp Require Import Base.Res Base.Float Signal.Sig Signal.SigProofs Signal.SigNormProofs Signal.SigRun
  Signal.SigRunNormProofs Signal.SigExamples.
Import ListNotations.
Open Scope Z_scope.

(* add_amp(delay(7, borrowed 4-frame source), gen): the hypotheses of c04_delay_beyond_run with m = 3, k = 7, k' = 4 *)
Definition exn_tree (k : nat) : zsig := AddAmp (Delay k (ByRef ex_base)) (Gen 9 [10; 20] 0).

Example exn_hyp : sub_at [DLeft] (exn_tree 7) = Some (Delay 7 (ByRef ex_base)) /\ (3 < 7)%nat /\ (3 < 4)%nat /\
  subst_at [DLeft] (exn_tree 7) (Delay 4 (ByRef ex_base)) = exn_tree 4.
Proof. repeat split; auto with arith. Qed.

(* ... and what it concludes, computed: 4 frames (calls 0..3), the base never pulled *)
Example exn_frames :
  map (zstream (exn_tree 7)) (seq 0 4) = map (zstream (exn_tree 4)) (seq 0 4) /\
  map (zstream (exn_tree 7)) (seq 0 4) = [[10; 20]; [10; 20]; [10; 20]; [10; 20]] /\
  leaf_counts (zafter 3 (exn_tree 7)) = [(1, 0%nat, 1%nat); (9, 3%nat, 0%nat)] /\
  (* one call later they differ: the bound m is sharp *)
  zstream (exn_tree 7) 4 <> zstream (exn_tree 4) 4.
Proof. vm_compute. repeat split; try reflexivity. discriminate. Qed.

(* the normaliser on a case: a borrowed base under delay(2^32) inside add_amp for 3 calls, the base handed back and read,
   delay(usize::MAX) over an empty source (live), take(2^32 + 1) reporting its length *)
Definition exn_case : zcase :=
  ZCase I16x2 [TIter 1 [[1; 2]; [3; 4]; [5; 6]]]
    [ONext 3 (TAdd (TDelay 4294967296 (TRef 0)) (TGen 2 [10; 20]));
     ONext 2 (TRef 0);
     ONext 2 (TDelay 18446744073709551615 (TIter 3 []));
     OTake 4294967297 2 0 (TRef 0)].

Example exn_norm : norm_case exn_case =
  ZCase I16x2 [TIter 1 [[1; 2]; [3; 4]; [5; 6]]]
    [ONext 3 (TAdd (TDelay 10 (TRef 0)) (TGen 2 [10; 20]));
     ONext 2 (TRef 0);
     ONext 2 (TDelay 10 (TIter 3 []));
     OTake 4294967297 2 0 (TRef 0)].
Proof. vm_compute. reflexivity. Qed.

Example exn_run : run_case_norm exn_case =
  [[10; 1; 1];
   [10]; [11; 0; 0; 10; 20; 2; 2]; [11; 0; 0; 10; 20; 2; 2]; [11; 0; 0; 10; 20; 2; 2]; [16; 1; 0; 1; 2; 3; 0];
   [10]; [11; 0; 0; 1; 2; 2; 1; 1; 1]; [11; 0; 0; 3; 4; 2; 1; 1; 1]; [16; 1; 2; 3];
   [10; 1; 3]; [11; 0; 0; 0; 0]; [11; 0; 0; 0; 0]; [16; 3; 0; 1];
   [10]; [17; 4294967297; 4294967297; 4294967297]; [13; 5; 6; 2; 1; 1; 1];
         [17; 4294967296; 4294967296; 4294967296]; [13; 0; 0; 2; 1]; [16; 1; 4; 4]].
Proof. vm_compute. reflexivity. Qed.
