(* The operation interpreter of Signal/BufferedSpec.v re-built on the GENERATED methods of the Buffered adaptor
   (gen/BufferedGen.v, over the generated ring methods of gen/RingGen.v).  What is hand-written here is only what the
   CALLER does with what a method returns (the harness does exactly this): calling `next` on the BufferedFrames iterator
   `next_frames` handed out -- k times, or until None -- and dropping it, which ends the mutable borrow of the ring
   buffer: the buffer the iterator worked on is the Buffered's buffer again.  No proofs here. *)
Require Import List Arith Bool.
From Dasp Require Import Base.Res Base.ListX Ring.Bounded Ring.RingPrim Signal.SigGenPrim Signal.Buffered Signal.BufferedSpec.
From DaspGen Require Import RingGen BufferedGen.
Import ListNotations.

Section Glue.
Context {A St : Type}.
Variable sig_next : St -> A * St.
Variable sig_is_exhausted : St -> bool.
Notation gb := (buffered_g St A).

(* `it.take(k)` collected: the BufferedFrames IS the ring buffer it borrows; k calls of next, stopping at None *)
Fixpoint gen_frames_loop (k : nat) (fr : bounded A) : res (bounded A * list A) :=
  match k with
  | O => Ok (fr, [])
  | S k' =>
    let* (fr', o) := BufferedFrames_next fr in
    match o with
    | None => Ok (fr', [])
    | Some x => let* (fr'', xs) := gen_frames_loop k' fr' in Ok (fr'', x :: xs)
    end
  end.

(* `u.next_frames().take(k).collect()`, iterator dropped: the borrow ends *)
Definition gen_frames_take (k : nat) (u : gb) : res (gb * list A) :=
  let* (u', fr) := Buffered_next_frames sig_next u in
  let* (fr', xs) := gen_frames_loop k fr in
  Ok (with_bg_ring_buffer u' fr', xs).

(* `u.next_frames().collect()`: next until None (one call more than the buffer holds) *)
Definition gen_frames_all (u : gb) : res (gb * list A) :=
  let* (u', fr) := Buffered_next_frames sig_next u in
  let* n := Bounded_len fr in
  let* (fr', xs) := gen_frames_loop (S n) fr in
  Ok (with_bg_ring_buffer u' fr', xs).

(* `u.next_frames().size_hint()`, iterator dropped unconsumed *)
Definition gen_frames_hint (u : gb) : res (gb * (nat * option nat)) :=
  let* (u', fr) := Buffered_next_frames sig_next u in
  let* h := BufferedFrames_size_hint fr in
  Ok (with_bg_ring_buffer u' fr, h).

Definition gen_step (fuel : nat) (u : gb) (o : bop) : res (gb * bobs A) :=
  match o with
  | BNext => let* (u', f) := Buffered_next sig_next fuel u in Ok (u', ONext f)
  | BFrames k => let* (u', l) := gen_frames_take k u in Ok (u', OFrames l)
  | BFramesAll => let* (u', l) := gen_frames_all u in Ok (u', OFrames l)
  | BHint => let* (u', h) := gen_frames_hint u in Ok (u', OHint (fst h) (snd h))
  | BExhausted => let* b := Buffered_is_exhausted sig_is_exhausted u in Ok (u, OExh b)
  end.

Fixpoint gen_run (fuel : nat) (u : gb) (ops : list bop) : res (gb * list (bobs A)) :=
  match ops with
  | [] => Ok (u, [])
  | o :: t => let* r := gen_step fuel u o in
              let* r' := gen_run fuel (fst r) t in Ok (fst r', snd r :: snd r')
  end.

End Glue.
