(* IEEE-754 binary64 theorems about the oscillator model (Signal/Osc.v at NumF64):
   the phase stays in [0, wrap) for every finite non-negative step sequence of any length,
   saw/sine in [-1,1], square in {-1,+1} with the half-cycle rule, noise exact and in (-1,1].
   Known class K1 (a step that is not finite, i.e. hz/rate overflowed) is excluded and refuted. *)
Require Import Floats.SpecFloat.
Require Import ZArith Reals Lia Lra Bool List.
From Flocq Require Import Core BinarySingleNaN.
From Dasp Require Import Base.Float Signal.OscNum Signal.Osc Signal.FloatFacts.
From DaspGen Require Import SimplexTable.
Import ListNotations.
Open Scope R_scope.

Notation F := NumF64.
Notation fin x := (is_finite x = true).
Notation fmt64 := (generic_format radix2 (FLT_exp (3 - 1024 - 53) 53)).
Notation rnd64 := (round radix2 (FLT_exp (3 - 1024 - 53) 53) ZnearestE).

(* --- binary64 instances of the generic facts ----------------------------------------- *)
Lemma small_Z (z : Z) : (Z.abs z <= 4294967296)%Z -> (Z.abs z < 2 ^ 53)%Z.
Proof. intros H. change (2 ^ 53)%Z with 9007199254740992%Z. lia. Qed.

Lemma f64_ofZ (z : Z) : (Z.abs z < 2 ^ 53)%Z -> fin (F64.of_Z z) /\ B2R (F64.of_Z z) = IZR z.
Proof. exact (ofZ_exact 53 1024 p53 pe53 z). Qed.

Lemma fmt_Z (z : Z) : (Z.abs z < 2 ^ 53)%Z -> fmt64 (IZR z).
Proof. exact (format_IZR_small 53 1024 p53 pe53 z). Qed.

Lemma lt_emax_Z (z : Z) : (Z.abs z < 2 ^ 53)%Z -> Rabs (IZR z) < bpow radix2 1024.
Proof.
  intros H. rewrite <- abs_IZR. eapply Rlt_le_trans; [apply IZR_lt, H|]. apply (pow_prec_lt_emax 53 1024 p53 pe53).
Qed.

Lemma f64_add_Z (x y : f64) (lo hi : Z) : fin x -> fin y -> (Z.abs lo < 2 ^ 53)%Z -> (Z.abs hi < 2 ^ 53)%Z ->
  IZR lo <= B2R x + B2R y <= IZR hi ->
  fin (F64.add x y) /\ B2R (F64.add x y) = rnd64 (B2R x + B2R y) /\ IZR lo <= B2R (F64.add x y) <= IZR hi.
Proof.
  intros Fx Fy Hl Hh Hv.
  apply (add_between 53 1024 p53 pe53 x y (IZR lo) (IZR hi)); auto using fmt_Z, lt_emax_Z.
Qed.

Lemma f64_sub_Z (x y : f64) (lo hi : Z) : fin x -> fin y -> (Z.abs lo < 2 ^ 53)%Z -> (Z.abs hi < 2 ^ 53)%Z ->
  IZR lo <= B2R x - B2R y <= IZR hi ->
  fin (F64.sub x y) /\ B2R (F64.sub x y) = rnd64 (B2R x - B2R y) /\ IZR lo <= B2R (F64.sub x y) <= IZR hi.
Proof.
  intros Fx Fy Hl Hh Hv.
  apply (sub_between 53 1024 p53 pe53 x y (IZR lo) (IZR hi)); auto using fmt_Z, lt_emax_Z.
Qed.

Lemma f64_mul_Z (x y : f64) (lo hi : Z) : fin x -> fin y -> (Z.abs lo < 2 ^ 53)%Z -> (Z.abs hi < 2 ^ 53)%Z ->
  IZR lo <= B2R x * B2R y <= IZR hi ->
  fin (F64.mul x y) /\ B2R (F64.mul x y) = rnd64 (B2R x * B2R y) /\ IZR lo <= B2R (F64.mul x y) <= IZR hi.
Proof.
  intros Fx Fy Hl Hh Hv.
  apply (mul_between 53 1024 p53 pe53 x y (IZR lo) (IZR hi)); auto using fmt_Z, lt_emax_Z.
Qed.

Lemma f64_div_Z (x y : f64) (lo hi : Z) : fin x -> B2R y <> 0 -> (Z.abs lo < 2 ^ 53)%Z -> (Z.abs hi < 2 ^ 53)%Z ->
  IZR lo <= B2R x / B2R y <= IZR hi ->
  fin (F64.div x y) /\ B2R (F64.div x y) = rnd64 (B2R x / B2R y) /\ IZR lo <= B2R (F64.div x y) <= IZR hi.
Proof.
  intros Fx Fy Hl Hh Hv.
  apply (div_between 53 1024 p53 pe53 x y (IZR lo) (IZR hi)); auto using fmt_Z, lt_emax_Z.
Qed.

Lemma one_val : fin (nof_Z F 1) /\ B2R (nof_Z F 1) = 1.
Proof. apply f64_ofZ. apply small_Z. simpl. lia. Qed.

(* --- the phase ------------------------------------------------------------------------- *)
(* a wrap value the code uses: a positive float far below half an ulp of the largest float *)
Definition WrapOk (w : f64) : Prop := fin w /\ 0 < B2R w < bpow radix2 (1024 - 53 - 1).
Definition InRange (w x : f64) : Prop := fin x /\ 0 <= B2R x < B2R w.
Definition StepOk (st : f64) : Prop := fin st /\ 0 <= B2R st.

Lemma wrap_of_Z (z : Z) : (0 < z <= 4294967296)%Z -> WrapOk (nof_Z F z).
Proof.
  intros Hz. destruct (f64_ofZ z) as (F1 & V1); [apply small_Z; lia|].
  split; [exact F1|]. change (B2R (nof_Z F z)) with (B2R (F64.of_Z z)). rewrite V1. split; [apply IZR_lt; lia|].
  apply Rle_lt_trans with (IZR (2 ^ 32)); [apply IZR_le; change (2 ^ 32)%Z with 4294967296%Z; lia|].
  change 2%Z with (radix_val radix2). rewrite IZR_Zpower by lia. apply bpow_lt. lia.
Qed.

(* one step: `(next + step) % w` for a finite non-negative step — no overflow hypothesis needed *)
Theorem phase_step_range (w nx st : f64) : WrapOk w -> InRange w nx -> StepOk st ->
  InRange w (nrem F (nadd F nx st) w).
Proof.
  intros (Fw & Hw0 & Hw1) (Fn & Hn0 & Hn1) (Fs & Hs). cbn [NumF64 nrem nadd].
  assert (Fsum : fin (F64.add nx st)).
  { apply (add_no_overflow 53 1024 p53 pe53); auto. split; [exact Hn0|]. eapply Rlt_trans; eauto. }
  assert (Vsum : B2R (F64.add nx st) = rnd64 (B2R nx + B2R st)) by (apply (add_finite_val 53 1024 p53 pe53); auto).
  assert (Hsum : 0 <= B2R (F64.add nx st)).
  { rewrite Vsum. apply (rnd_nonneg 53 1024 p53). lra. }
  destruct (rem_correct 53 1024 p53 pe53 (F64.add nx st) w Fsum Fw Hsum Hw0) as (R1 & _ & R3).
  split; assumption.
Qed.

(* the value of one step: the exact remainder of the rounded sum *)
Theorem phase_step_value (w nx st : f64) : WrapOk w -> InRange w nx -> StepOk st ->
  let s := rnd64 (B2R nx + B2R st) in
  B2R (nrem F (nadd F nx st) w) = s - IZR (Zfloor (s / B2R w)) * B2R w.
Proof.
  intros (Fw & Hw0 & Hw1) (Fn & Hn0 & Hn1) (Fs & Hs). cbn [NumF64 nrem nadd].
  assert (Fsum : fin (F64.add nx st)).
  { apply (add_no_overflow 53 1024 p53 pe53); auto. split; [exact Hn0|]. eapply Rlt_trans; eauto. }
  assert (Vsum : B2R (F64.add nx st) = rnd64 (B2R nx + B2R st)) by (apply (add_finite_val 53 1024 p53 pe53); auto).
  assert (Hsum : 0 <= B2R (F64.add nx st)).
  { rewrite Vsum. apply (rnd_nonneg 53 1024 p53). lra. }
  destruct (rem_correct 53 1024 p53 pe53 (F64.add nx st) w Fsum Fw Hsum Hw0) as (_ & R2 & _).
  cbv zeta. rewrite <- Vsum. exact R2.
Qed.

(* every step the source will ever hand out is finite and non-negative *)
Definition StepsOk (s : step_src F) : Prop := forall k, StepOk (nth_step F s k).
(* known class K1: some step is not finite (hz / rate overflowed, or a non-finite input) *)
Definition KnownClass_K1 (s : step_src F) : Prop := exists k, is_finite (nth_step F s k) = false.

Lemma step_of_fst (s : step_src F) : fst (step_of F s) = nth_step F s 0.
Proof. destruct s; simpl; [reflexivity|]. rewrite Nat.add_0_r. reflexivity. Qed.

Lemma step_of_snd (s : step_src F) (k : nat) : nth_step F (snd (step_of F s)) k = nth_step F s (S k).
Proof. destruct s; simpl; [reflexivity|]. rewrite Nat.add_succ_r. reflexivity. Qed.

Lemma steps_ok_next (s : step_src F) : StepsOk s -> StepsOk (snd (step_of F s)).
Proof. intros H k. rewrite step_of_snd. apply H. Qed.

Definition PhaseOk (w : f64) (p : phase_st F) : Prop := InRange w (next p) /\ StepsOk (src p).

Lemma next_phase_ok (w : f64) (p : phase_st F) : WrapOk w -> PhaseOk w p ->
  InRange w (fst (next_phase_wrapped_to F p w)) /\ PhaseOk w (snd (next_phase_wrapped_to F p w)).
Proof.
  intros Hw (Hn & Hs). unfold next_phase_wrapped_to.
  pose proof (step_of_fst (src p)) as E1. pose proof (steps_ok_next (src p) Hs) as E2.
  destruct (step_of F (src p)) as (st, s'). simpl in *. split; [exact Hn|]. split; [|exact E2].
  simpl. apply phase_step_range; auto. rewrite E1. apply Hs.
Qed.

(* any number of frames: every yielded phase is in [0, w) and the invariant persists *)
Theorem phase_run_range (w : f64) : WrapOk w -> forall (n : nat) (p : phase_st F), PhaseOk w p ->
  Forall (InRange w) (fst (run F (fun q => next_phase_wrapped_to F q w) p n)) /\
  PhaseOk w (snd (run F (fun q => next_phase_wrapped_to F q w) p n)).
Proof.
  intros Hw. induction n as [|n IH]; intros p Hp; simpl.
  - split; [constructor|exact Hp].
  - destruct (next_phase_ok w p Hw Hp) as (H1 & H2).
    destruct (next_phase_wrapped_to F p w) as (y, p1). simpl in H1, H2.
    specialize (IH p1 H2). destruct (run F _ p1 n) as (ys, p2). simpl in *.
    destruct IH as (I1 & I2). split; [constructor; assumption|exact I2].
Qed.

Lemma phase_new_ok (w : f64) (s : step_src F) : WrapOk w -> StepsOk s -> PhaseOk w (phase_new F s).
Proof.
  intros (Fw & Hw0 & _) Hs. split; [|exact Hs]. unfold phase_new. cbn [next].
  destruct (f64_ofZ 0) as (F0 & V0); [simpl; lia|].
  split; [exact F0|]. change (B2R (nof_Z F 0)) with (B2R (F64.of_Z 0)). rewrite V0. lra.
Qed.

(* sources built by the public constructors: finite hz >= 0, finite rate > 0, and not in K1 *)
Lemma hz_div_ok (rate hz : f64) : fin rate -> 0 < B2R rate -> fin hz -> 0 <= B2R hz ->
  fin (ndiv F hz rate) -> StepOk (ndiv F hz rate).
Proof.
  intros Fr Hr Fh Hh Fd. split; [exact Fd|]. apply (div_finite_nonneg 53 1024 p53 pe53); auto.
Qed.

Lemma not_false_true (b : bool) : b <> false -> b = true.
Proof. destruct b; congruence. Qed.

Lemma const_hz_ok (rate hz : f64) : fin rate -> 0 < B2R rate -> fin hz -> 0 <= B2R hz ->
  ~ KnownClass_K1 (const_hz F rate hz) -> StepsOk (const_hz F rate hz).
Proof.
  intros Fr Hr Fh Hh NK k. simpl. apply hz_div_ok; auto.
  apply not_false_true. intros E. apply NK. exists O. exact E.
Qed.

Lemma hz_src_ok (rate : f64) (ctl : nat -> f64) : fin rate -> 0 < B2R rate ->
  (forall k, fin (ctl k) /\ 0 <= B2R (ctl k)) ->
  ~ KnownClass_K1 (hz_src F rate ctl) -> StepsOk (hz_src F rate ctl).
Proof.
  intros Fr Hr Hc NK k. simpl. destruct (Hc k) as (Fh & Hh). apply hz_div_ok; auto.
  apply not_false_true. intros E. apply NK. exists k. exact E.
Qed.

(* A source the property speaks about: positive finite rate, finite non-negative frequencies *)
Inductive PublicSrc : step_src F -> Prop :=
| PubConst (rate hz : f64) : fin rate -> 0 < B2R rate -> fin hz -> 0 <= B2R hz -> PublicSrc (const_hz F rate hz)
| PubHz (rate : f64) (ctl : nat -> f64) : fin rate -> 0 < B2R rate ->
    (forall k, fin (ctl k) /\ 0 <= B2R (ctl k)) -> PublicSrc (hz_src F rate ctl).

Lemma public_steps_ok (s : step_src F) : PublicSrc s -> ~ KnownClass_K1 s -> StepsOk s.
Proof. intros [rate hz A B C D|rate ctl A B C] NK; [apply const_hz_ok|apply hz_src_ok]; auto. Qed.

(* the phase of every oscillator (wrap 1.0) and of the simplex noise (wrap 65536.0) *)
Theorem phase_range_all (s : step_src F) (z : Z) (n : nat) : PublicSrc s -> ~ KnownClass_K1 s -> (0 < z <= 4294967296)%Z ->
  Forall (fun y => fin y /\ 0 <= B2R y < IZR z)
         (fst (run F (fun q => next_phase_wrapped_to F q (nof_Z F z)) (phase_new F s) n)).
Proof.
  intros Hp NK Hz. pose proof (wrap_of_Z z Hz) as Hw.
  destruct (phase_run_range _ Hw n (phase_new F s)) as (H & _).
  { apply phase_new_ok; auto. apply public_steps_ok; auto. }
  destruct (f64_ofZ z) as (_ & V); [apply small_Z; lia|].
  change (B2R (F64.of_Z z)) with (B2R (nof_Z F z)) in V. unfold InRange in H. rewrite V in H. exact H.
Qed.

(* K1 is inhabited and does violate the range: rate(1e-300).const_hz(1e300) *)
Definition k1_rate : f64 := F64.of_bits 118622047889322841.     (* 1e-300 *)
Definition k1_hz : f64 := F64.of_bits 9094988921128908188.      (* 1e300 *)

Lemma k1_public : PublicSrc (const_hz F k1_rate k1_hz).
Proof.
  assert (S1 : Bsign k1_rate = false) by (vm_compute; reflexivity).
  assert (S2 : Bsign k1_hz = false) by (vm_compute; reflexivity).
  assert (F1 : is_finite_strict k1_rate = true) by (vm_compute; reflexivity).
  assert (F1' : fin k1_rate) by (vm_compute; reflexivity).
  assert (F2 : fin k1_hz) by (vm_compute; reflexivity).
  constructor; auto.
  - pose proof (finite_nonneg_sign 53 1024 k1_rate F1' S1) as H0.
    pose proof (abs_B2R_ge_emin 53 1024 k1_rate F1) as H1.
    pose proof (bpow_gt_0 radix2 (emin 53 1024)). rewrite Rabs_pos_eq in H1 by exact H0. lra.
  - apply (finite_nonneg_sign 53 1024); auto.
Qed.

Lemma k1_in_class : KnownClass_K1 (const_hz F k1_rate k1_hz).
Proof. exists O. vm_compute. reflexivity. Qed.

Lemma k1_refuted :
  exists s, PublicSrc s /\ KnownClass_K1 s /\
    is_nan (nth 1 (fst (run F (next_phase F) (phase_new F s) 2)) (nof_Z F 0)) = true.
Proof.
  exists (const_hz F k1_rate k1_hz). split; [exact k1_public|]. split; [exact k1_in_class|].
  vm_compute. reflexivity.
Qed.

(* --- saw, square, sine ----------------------------------------------------------------- *)
Theorem saw_range (ph : f64) : fin ph -> 0 <= B2R ph <= 1 ->
  fin (saw_of F ph) /\ -1 <= B2R (saw_of F ph) <= 1.
Proof.
  intros Fp Hp. unfold saw_of. cbn [NumF64 nadd nmul nof_Z].
  destruct (f64_ofZ (-2)) as (F2 & V2); [simpl; lia|].
  destruct (f64_ofZ 1) as (F1 & V1); [simpl; lia|].
  destruct (f64_mul_Z ph (F64.of_Z (-2)) (-2) 0 Fp F2) as (Fm & _ & Hm); [simpl; lia|simpl; lia|rewrite V2; lra|].
  destruct (f64_add_Z (F64.mul ph (F64.of_Z (-2))) (F64.of_Z 1) (-1) 1 Fm F1) as (Fa & _ & Ha);
    [simpl; lia|simpl; lia|rewrite V1; lra|].
  split; [exact Fa|exact Ha].
Qed.

Lemma half_val : fin (nhalf F) /\ B2R (nhalf F) = / 2.
Proof.
  split; [vm_compute; reflexivity|].
  rewrite <- SF2R_B2SF.
  replace (B2SF (nhalf F)) with (S754_finite false 4503599627370496 (-53)) by (vm_compute; reflexivity).
  unfold SF2R, F2R. simpl. lra.
Qed.

Theorem square_value (ph : f64) : fin ph ->
  (B2R ph < / 2 -> B2R (square_of F ph) = 1) /\ (/ 2 <= B2R ph -> B2R (square_of F ph) = -1) /\
  fin (square_of F ph).
Proof.
  intros Fp. destruct half_val as (Fh & Vh).
  destruct (f64_ofZ 1) as (F1 & V1); [simpl; lia|]. destruct (f64_ofZ (-1)) as (F2 & V2); [simpl; lia|].
  unfold square_of. cbn [NumF64 nltb nof_Z]. unfold F64.ltb, glt, gcmp.
  rewrite (Bcompare_correct 53 1024 ph (nhalf F) Fp Fh). rewrite Vh.
  destruct (Rcompare_spec (B2R ph) (/ 2)) as [H|H|H].
  - repeat split; auto. intros. lra.
  - repeat split; auto. intros. lra.
  - repeat split; auto. intros. lra.
Qed.

Lemma two_pi_ok : fin (ntwo_pi F) /\ 0 <= B2R (ntwo_pi F).
Proof.
  assert (F1 : fin (ntwo_pi F)) by (vm_compute; reflexivity).
  split; [exact F1|]. apply (finite_nonneg_sign 53 1024); [exact F1|vm_compute; reflexivity].
Qed.

Section SineOracle.
(* libm's sin as an oracle: finite results of magnitude at most 1 on finite arguments *)
Variable sin_o : f64 -> f64.
Hypothesis sin_o_range : forall x, fin x -> fin (sin_o x) /\ -1 <= B2R (sin_o x) <= 1.

Theorem sine_range (ph : f64) : fin ph -> 0 <= B2R ph <= 1 ->
  fin (sine_of F sin_o ph) /\ -1 <= B2R (sine_of F sin_o ph) <= 1.
Proof.
  intros Fp Hp. unfold sine_of. apply sin_o_range. cbn [NumF64 nmul].
  destruct two_pi_ok as (Ft & Ht). change (ntwo_pi NumF64) with (ntwo_pi F).
  destruct (mul_between 53 1024 p53 pe53 (ntwo_pi F) ph 0 (B2R (ntwo_pi F))) as (Fm & _); auto.
  - apply generic_format_0.
  - apply generic_format_B2R.
  - rewrite Rabs_R0. apply bpow_gt_0.
  - apply abs_B2R_lt_emax.
  - split; [apply Rmult_le_pos; lra|]. rewrite <- (Rmult_1_r (B2R (ntwo_pi F))) at 2.
    apply Rmult_le_compat_l; lra.
Qed.
End SineOracle.

(* --- noise ------------------------------------------------------------------------------ *)
Lemma noise_hash_range (seed : Z) : (0 <= noise_hash seed < 2 ^ 31)%Z.
Proof.
  unfold noise_hash. change noise_mask with (Z.ones 31). rewrite Z.land_ones by lia.
  apply Z.mod_pos_bound. lia.
Qed.

(* every float operation of noise_1 is exact: out = 1 - hash / 2^30 *)
Theorem noise_exact (seed : Z) :
  fin (noise_1 F seed) /\ B2R (noise_1 F seed) = 1 - IZR (noise_hash seed) / 1073741824.
Proof.
  pose proof (noise_hash_range seed) as Hh. set (h := noise_hash seed) in *.
  change (2 ^ 31)%Z with 2147483648%Z in Hh.
  unfold noise_1. fold h. cbn [NumF64 nsub ndiv nof_Z]. unfold noise_divisor.
  destruct (f64_ofZ h) as (Fh & Vh); [apply small_Z; lia|].
  destruct (f64_ofZ 1073741824) as (Fd & Vd); [apply small_Z; simpl; lia|].
  destruct (f64_ofZ 1) as (F1 & V1); [simpl; lia|].
  assert (Hq : 0 <= IZR h / 1073741824 <= 2).
  { assert (0 <= IZR h) by (apply IZR_le; lia). assert (IZR h <= 2147483648) by (apply IZR_le; lia). lra. }
  destruct (f64_div_Z (F64.of_Z h) (F64.of_Z 1073741824) 0 2 Fh) as (Fq & Vq & _);
    [rewrite Vd; lra|simpl; lia|simpl; lia|rewrite Vh, Vd; exact Hq|].
  rewrite Vh, Vd in Vq.
  assert (Eb : bpow radix2 (-30) = / 1073741824) by (simpl; lra).
  rewrite (rnd_format 53 1024) in Vq.
  2:{ unfold Rdiv. rewrite <- Eb. apply (format_F2R_small 53 1024); [apply small_Z|]; lia. }
  destruct (f64_sub_Z (F64.of_Z 1) (F64.div (F64.of_Z h) (F64.of_Z 1073741824)) (-1) 1 F1 Fq) as (Fs & Vs & _);
    [simpl; lia|simpl; lia|rewrite V1, Vq; lra|].
  rewrite V1, Vq in Vs. split; [exact Fs|]. rewrite Vs.
  apply (rnd_format 53 1024).
  replace (1 - IZR h / 1073741824) with (IZR (1073741824 - h) * bpow radix2 (-30)).
  - apply (format_F2R_small 53 1024); [apply small_Z|]; lia.
  - rewrite Eb, minus_IZR. field.
Qed.

Theorem noise_range (seed : Z) : fin (noise_1 F seed) /\ -1 < B2R (noise_1 F seed) <= 1.
Proof.
  destruct (noise_exact seed) as (Fn & Vn). split; [exact Fn|]. rewrite Vn.
  pose proof (noise_hash_range seed) as Hh. change (2 ^ 31)%Z with 2147483648%Z in Hh.
  assert (0 <= IZR (noise_hash seed)) by (apply IZR_le; lia).
  assert (IZR (noise_hash seed) <= 2147483647) by (apply IZR_le; lia). lra.
Qed.
