(* C20 — every definition of the GENERATED window model (gen/WindowGen.v, regenerated from
   dasp_signal/src/window/mod.rs by translate/window2coq.py on every run) equals the corresponding definition of
   the hand model (Signal/Window.v) -- for ALL inputs, including which panic comes out.  Hence the iteration
   drivers built on the generated methods (Signal/WindowGenGlue.v) equal [w_drain] / [w_after] / [w_nth] /
   [w_last] / [w_count] / [windowed_take], and the schedule theorems of Signal/WindowProofs.v are theorems about
   the regenerated model (restated on it at the end of this file).  Axiom-free.

   The proofs are deliberately not syntactic: each unfolds both sides, splits on every test and closes the leaves
   with lia / reflexivity, so rewrites of the source that do not change what is computed (`a <= b` written
   `b >= a`, a temporary more or less, `num_frames` for `self.frames.len()`) do not break them. *)
Require Import List Arith Bool Lia.
From Dasp Require Import Base.Res Base.ListX Signal.Window Signal.WindowSpec Signal.WindowProofs Signal.WindowPrim
  Signal.WindowGenGlue.
From DaspGen Require Import WindowGen.
Import ListNotations.

Ltac unf_prims :=
  unfold udiv, urem, usub, slice_to, slice_from, split_at, with_frames, with_wd_signal, with_wd_window,
    rate, const_hz, phase_new in *.
Ltac simp := cbn [bind fst snd bin hop frames wd_signal wd_window] in *.
Ltac split1 :=
  match goal with
  | |- context [?a <? ?b] => destruct (Nat.ltb_spec a b)
  | |- context [?a <=? ?b] => destruct (Nat.leb_spec a b)
  | |- context [?a =? ?b] => destruct (Nat.eqb_spec a b)
  end.
Ltac close := simp; try reflexivity; try (exfalso; lia); try solve [repeat (f_equal; try lia)].
Ltac win_equiv := unf_prims; simp; repeat (split1; simp); close.

Lemma frame_from_fn_const {B} (c : B) n : frame_from_fn n (fun _ => c) = repeat c n.
Proof.
  unfold frame_from_fn. generalize 0. induction n as [|n IH]; intros a; [reflexivity|].
  cbn [seq map repeat]. f_equal. apply IH.
Qed.

Lemma map_repeat' {B C} (f : B -> C) c n : map f (repeat c n) = repeat (f c) n.
Proof. induction n as [|n IH]; [reflexivity|]. cbn [repeat map]. f_equal. exact IH. Qed.

Lemma last_map_some {B C} (f : B -> C) (l : list B) :
  last (map Some (map f l)) None = option_map f (last (map Some l) None).
Proof.
  induction l as [|x t IH]; [reflexivity|].
  destruct t as [|y t']; [reflexivity|]. exact IH.
Qed.

Section Equiv.
Variable N : arith.
Variable wfun : T N -> T N.
Variables Smp FS WS : Type.
Variable conv : T N -> FS.
Variable back : FS -> WS.
Variable smul : Smp -> FS -> Smp.
Variable equilibrium : Smp.
Variable nch : nat.
Implicit Types (w : windower (list Smp)) (x : windowed N Smp) (p : phase N).

Notation window_next := (window_next N wfun FS conv nch).
Notation windowed_next := (windowed_next N wfun Smp FS conv smul equilibrium nch).
Notation windowed_take := (windowed_take N wfun Smp FS conv smul equilibrium nch).
Notation wof := (windowed_of N Smp).

(* ---------------------------------------------------------------- Window *)

Lemma Window_new_eq len : Window_new N len = Ok (window_new N len).
Proof. reflexivity. Qed.

(* Window::<F, W>::next: never None; the frame is the hand model's Float frame sent through
   Float -> F::Sample sample by sample *)
Lemma Window_next_eq p :
  Window_next N wfun FS WS conv back nch p = Ok (snd (window_next p), Some (map back (fst (window_next p)))).
Proof.
  unfold Window_next, Window.window_next, next_phase. simp.
  rewrite frame_from_fn_const, map_repeat'. reflexivity.
Qed.

(* ... at F = the Float frame (the window of a Windowed): Float -> Float is the identity *)
Lemma Window_next_float_eq p :
  Window_next N wfun FS FS conv (fun v => v) nch p = Ok (snd (window_next p), Some (fst (window_next p))).
Proof.
  unfold Window_next, Window.window_next, next_phase. simp.
  rewrite frame_from_fn_const. reflexivity.
Qed.

(* -------------------------------------------------------------- Windower *)

Lemma Windower_new_eq (fr : list (list Smp)) b h : Windower_new Smp fr b h = Ok (w_new fr b h).
Proof. reflexivity. Qed.

(* Windower::next: the hand model's slice, wrapped as Windowed { from_iter(slice), Window::new(bin) } *)
Lemma Windower_next_eq w :
  Windower_next N Smp w =
  let* r := w_next w in
  Ok (match r with
      | Some (c, w') => (w', Some (wof c (bin w)))
      | None => (w, None)
      end).
Proof. unfold Windower_next, w_next, Window_new, windowed_of, window_new. win_equiv. Qed.

Lemma Windower_size_hint_eq w : Windower_size_hint Smp w = w_size_hint w.
Proof. unfold Windower_size_hint, w_size_hint. win_equiv. Qed.

(* -------------------------------------------------------------- Windowed *)

(* Windowed::next: never None (the window iterator never ends) *)
Lemma Windowed_next_eq x :
  Windowed_next N wfun Smp FS conv smul equilibrium nch x = Ok (snd (windowed_next x), Some (fst (windowed_next x))).
Proof.
  unfold Windowed_next. rewrite Window_next_float_eq. simp.
  unfold with_wd_window, with_wd_signal, Window.windowed_next. simp.
  destruct (window_next (wd_window N Smp x)) as [w_f win'] eqn:Ew. simp.
  destruct (signal_next Smp equilibrium nch (wd_signal N Smp x)) as [s_f sig']. simp. reflexivity.
Qed.

(* ------------------------------------------- the iteration drivers (glue) *)

Lemma gen_drain_eq fuel : forall w,
  gen_drain N Smp fuel w = let* r := w_drain fuel w in Ok (map (fun c => wof c (bin w)) (fst r), snd r).
Proof.
  induction fuel as [|f IH]; intros w; [reflexivity|].
  cbn [gen_drain w_drain]. rewrite Windower_next_eq.
  destruct (next_total w) as (r & Hr & Hk). rewrite Hr. cbn [bind].
  destruct r as [[c w1]|]; [|reflexivity].
  destruct Hk as [Hb _]. rewrite IH, Hb.
  destruct (w_drain f w1) as [[cs w2]| |]; reflexivity.
Qed.

Lemma gen_after_eq j : forall w, gen_after N Smp j w = w_after j w.
Proof.
  induction j as [|j IH]; intros w; [reflexivity|].
  cbn [gen_after w_after]. rewrite Windower_next_eq.
  destruct (w_next w) as [[[c w1]|]| |]; cbn [bind]; try reflexivity. apply IH.
Qed.

Lemma gen_nth_eq k : forall w,
  gen_nth N Smp k w = let* r := w_nth k w in Ok (option_map (fun c => wof c (bin w)) (fst r), snd r).
Proof.
  induction k as [|k IH]; intros w; cbn [gen_nth w_nth]; rewrite Windower_next_eq;
    destruct (next_total w) as (r & Hr & Hk); rewrite Hr; cbn [bind].
  - destruct r as [[c w1]|]; reflexivity.
  - destruct r as [[c w1]|]; [|reflexivity]. destruct Hk as [Hb _]. rewrite IH, Hb. reflexivity.
Qed.

Lemma gen_last_eq fuel w :
  gen_last N Smp fuel w = let* r := w_last fuel w in Ok (option_map (fun c => wof c (bin w)) (fst r), snd r).
Proof.
  unfold gen_last, w_last. rewrite gen_drain_eq.
  destruct (w_drain fuel w) as [[cs w2]| |]; cbn [bind fst snd]; try reflexivity.
  rewrite last_map_some. reflexivity.
Qed.

Lemma gen_count_eq fuel w : gen_count N Smp fuel w = w_count fuel w.
Proof.
  unfold gen_count, w_count. rewrite gen_drain_eq.
  destruct (w_drain fuel w) as [[cs w2]| |]; cbn [bind fst snd]; try reflexivity.
  rewrite map_length. reflexivity.
Qed.

Lemma gen_windowed_take_eq m : forall x,
  gen_windowed_take N wfun Smp FS conv smul equilibrium nch m x = Ok (windowed_take m x).
Proof.
  induction m as [|m IH]; intros x; [reflexivity|].
  cbn [gen_windowed_take Window.windowed_take]. rewrite Windowed_next_eq. cbn [bind]. rewrite IH. reflexivity.
Qed.

(* the Window iterator: frame number j is the window function at the j-th phase, converted, on every channel *)
Lemma gen_window_run_eq m : forall p,
  gen_window_run N wfun FS WS conv back nch m p =
  Ok (map (fun j => repeat (back (conv (wfun (phase_at N j p)))) nch) (seq 0 m)).
Proof.
  induction m as [|m IH]; intros p; [reflexivity|].
  cbn [gen_window_run]. rewrite Window_next_eq. cbn [bind]. rewrite IH. cbn [bind seq map]. f_equal. f_equal.
  - unfold Window.window_next. cbn [fst]. apply map_repeat'.
  - rewrite <- seq_shift, map_map. reflexivity.
Qed.

Lemma gen_window_take_eq n m :
  gen_window_take N wfun FS WS conv back nch n m =
  Ok (map (fun j => repeat (back (conv (wfun (phase_at N j (window_new N n))))) nch) (seq 0 m)).
Proof. unfold gen_window_take. rewrite Window_new_eq. cbn [bind]. apply gen_window_run_eq. Qed.

(* ------------------------------------------------------------ the bundle *)

(* Windower: the three generated methods and the drivers built on them *)
Theorem gen_windower_agrees :
  (forall (fr : list (list Smp)) b h, Windower_new Smp fr b h = Ok (w_new fr b h)) /\
  (forall w, Windower_next N Smp w =
     let* r := w_next w in
     Ok (match r with Some (c, w') => (w', Some (wof c (bin w))) | None => (w, None) end)) /\
  (forall w, Windower_size_hint Smp w = w_size_hint w) /\
  (forall fuel w, gen_drain N Smp fuel w = let* r := w_drain fuel w in Ok (map (fun c => wof c (bin w)) (fst r), snd r)) /\
  (forall j w, gen_after N Smp j w = w_after j w) /\
  (forall k w, gen_nth N Smp k w = let* r := w_nth k w in Ok (option_map (fun c => wof c (bin w)) (fst r), snd r)) /\
  (forall fuel w, gen_last N Smp fuel w = let* r := w_last fuel w in Ok (option_map (fun c => wof c (bin w)) (fst r), snd r)) /\
  (forall fuel w, gen_count N Smp fuel w = w_count fuel w).
Proof.
  exact (conj Windower_new_eq (conj Windower_next_eq (conj Windower_size_hint_eq (conj gen_drain_eq
        (conj gen_after_eq (conj gen_nth_eq (conj gen_last_eq gen_count_eq))))))).
Qed.

(* Window and Windowed *)
Theorem gen_window_agrees :
  (forall len, Window_new N len = Ok (window_new N len)) /\
  (forall p, Window_next N wfun FS WS conv back nch p = Ok (snd (window_next p), Some (map back (fst (window_next p))))) /\
  (forall x, Windowed_next N wfun Smp FS conv smul equilibrium nch x = Ok (snd (windowed_next x), Some (fst (windowed_next x)))) /\
  (forall m x, gen_windowed_take N wfun Smp FS conv smul equilibrium nch m x = Ok (windowed_take m x)) /\
  (forall n m, gen_window_take N wfun FS WS conv back nch n m =
     Ok (map (fun j => repeat (back (conv (wfun (phase_at N j (window_new N n))))) nch) (seq 0 m))).
Proof.
  exact (conj Window_new_eq (conj Window_next_eq (conj Windowed_next_eq (conj gen_windowed_take_eq gen_window_take_eq)))).
Qed.

(* ------------------------------------------------ the property's clauses, on the generated model *)

Notation count L b h := (if b <=? L then (L - b) / h + 1 else 0).

Lemma gen_next_none w : w_next w = Ok None -> Windower_next N Smp w = Ok (w, None).
Proof. intros H. rewrite Windower_next_eq, H. reflexivity. Qed.

(* exactly count chunks, then None, no panic; item k is Windowed { from_iter(frames[k*h .. k*h+b]), Window::new(b) } *)
Theorem gen_windower_schedule (fr : list (list Smp)) b h : 1 <= b -> 1 <= h ->
  exists items w', gen_drain N Smp (S (length fr)) (w_new fr b h) = Ok (items, w') /\
    Windower_next N Smp w' = Ok (w', None) /\
    length items = count (length fr) b h /\
    forall k, k < length items ->
      k * h + b <= length fr /\ nth_error items k = Some (wof (firstn b (skipn (k * h) fr)) b).
Proof.
  intros Hb Hh.
  destruct (drain_spec (S (length fr)) (w_new fr b h)) as (w' & Hd & Hn & _); cbn [w_new bin hop frames]; try assumption.
  { pose proof (chunk_count_le (length fr) b h Hb Hh). lia. }
  cbn [w_new bin hop frames] in Hd.
  exists (map (fun c => wof c b) (chunks_spec fr b h)), w'.
  assert (Hlen : length (chunks_spec fr b h) = chunk_count (length fr) b h)
    by (unfold chunks_spec; rewrite map_length, seq_length; reflexivity).
  split; [|split; [|split]].
  - rewrite gen_drain_eq, Hd. reflexivity.
  - apply gen_next_none. exact Hn.
  - rewrite map_length. exact Hlen.
  - intros k Hk. rewrite map_length, Hlen in Hk. split.
    + exact (chunk_fits _ _ _ _ Hh Hk).
    + rewrite nth_error_map_in, nth_error_chunks_spec.
      destruct (Nat.ltb_spec k (chunk_count (length fr) b h)) as [_|Hge]; [reflexivity|lia].
Qed.

(* size_hint of the generated model in every state reachable by its own next: exact *)
Theorem gen_windower_size_hint (fr : list (list Smp)) b h j wj : 1 <= b -> 1 <= h ->
  gen_after N Smp j (w_new fr b h) = Ok (Some wj) ->
  exists remaining w', gen_drain N Smp (S (length (frames wj))) wj = Ok (remaining, w') /\
    Windower_next N Smp w' = Ok (w', None) /\
    Windower_size_hint Smp wj = Ok (Hint (length remaining) (Some (length remaining))) /\
    length remaining = count (length fr) b h - j.
Proof.
  intros Hb Hh Ha. rewrite gen_after_eq in Ha.
  destruct (windower_size_hint fr b h j wj Hb Hh Ha) as (rem & w' & Hd & Hn & Hs & Hl).
  exists (map (fun c => wof c (bin wj)) rem), w'. split; [|split; [|split]].
  - rewrite gen_drain_eq, Hd. reflexivity.
  - apply gen_next_none. exact Hn.
  - rewrite Windower_size_hint_eq, map_length. exact Hs.
  - rewrite map_length. exact Hl.
Qed.

(* nth(k), last(), count() of the generated iterator (defaults of core::iter over the generated next) *)
Theorem gen_windower_methods (fr : list (list Smp)) b h : 1 <= b -> 1 <= h ->
  (forall k, exists w', gen_nth N Smp k (w_new fr b h) =
     Ok (if k <? count (length fr) b h then Some (wof (firstn b (skipn (k * h) fr)) b) else None, w')) /\
  (exists w', gen_last N Smp (S (length fr)) (w_new fr b h) =
     Ok (if b <=? length fr then Some (wof (firstn b (skipn ((length fr - b) / h * h) fr)) b) else None, w') /\
     Windower_next N Smp w' = Ok (w', None)) /\
  (exists w', gen_count N Smp (S (length fr)) (w_new fr b h) = Ok (count (length fr) b h, w') /\
     Windower_next N Smp w' = Ok (w', None)).
Proof.
  intros Hb Hh. split; [|split].
  - intros k. destruct (windower_nth fr b h k Hb Hh) as (w' & Hn). exists w'.
    rewrite gen_nth_eq, Hn. cbn [bind fst snd w_new bin].
    destruct (k <? count (length fr) b h); reflexivity.
  - destruct (windower_last fr b h Hb Hh) as (w' & Hl & Hn). exists w'. split; [|apply gen_next_none; exact Hn].
    rewrite gen_last_eq, Hl. cbn [bind fst snd w_new bin]. destruct (b <=? length fr); reflexivity.
  - destruct (windower_count_method fr b h Hb Hh) as (w' & Hc & Hn). exists w'. split; [|apply gen_next_none; exact Hn].
    rewrite gen_count_eq. exact Hc.
Qed.

(* contents: frame j < b of item k, pulled through the generated Windowed::next, is input frame k*h+j with every
   sample mul_amp'ed by the window value of position j *)
Theorem gen_windowed_chunk (fr : list (list Smp)) b h : 1 <= b -> 1 <= h ->
  (forall f, In f fr -> length f = nch) ->
  exists items w', gen_drain N Smp (S (length fr)) (w_new fr b h) = Ok (items, w') /\
    forall k x, nth_error items k = Some x ->
    forall j m, j < b -> j < m ->
      exists f frames, nth_error fr (k * h + j) = Some f /\
        gen_windowed_take N wfun Smp FS conv smul equilibrium nch m x = Ok frames /\
        nth_error frames j = Some (map (fun s => smul s (conv (wfun (phase_at N j (window_new N b))))) f).
Proof.
  intros Hb Hh Hlen.
  destruct (windower_windowed_chunk N wfun Smp FS conv smul equilibrium nch fr b h Hb Hh Hlen) as (chunks & w' & Hd & Hc).
  exists (map (fun c => wof c b) chunks), w'. split.
  - rewrite gen_drain_eq, Hd. reflexivity.
  - intros k x Hk j m Hj Hm. rewrite nth_error_map_in in Hk.
    destruct (nth_error chunks k) as [c|] eqn:Ec; [|discriminate]. injection Hk as <-.
    destruct (Hc k c Ec j m Hj Hm) as (f & Hf & Hw).
    exists f, (windowed_take m (wof c b)). split; [exact Hf|]. split; [apply gen_windowed_take_eq|exact Hw].
Qed.

End Equiv.
