(* Non-vacuity: concrete non-trivial instances of the hypotheses of the C08 theorems, and
   the dasp doc-test of Signal::scale_hz replayed on the executable binary64 model. *)
Require Import Floats.SpecFloat.
Require Import Reals List ZArith Lia Lra Bool.
From Flocq Require Import Core BinarySingleNaN.
From Dasp Require Import Base.Res Base.Float Signal.Converter Signal.ConvNumR Signal.ConvNumF
  Signal.ConverterProofs Signal.ConverterIEEE Signal.ConverterDyadic Signal.ConverterRun.
Import ListNotations.

(* a ratio sequence with a step > 1 (several pulls), a step < 1 (no pull) and fuel 5 *)
Example ex_fuel_ok : fuel_ok 5 [2.5; 0.5; 1; 1 / 3]%R.
Proof. unfold fuel_ok. repeat constructor; simpl; lra. Qed.

(* ... so a three-frame source through a floor interpolator has a complete run of 4 outputs *)
Example ex_run_exists :
  let s : source fmt_R := @mkSource NR fmt_R [[1]; [2]; [3]]%R 1 2 1 in
  exists os c', @run NR fmt_R 5 [2.5; 0.5; 1; 1 / 3]%R (start s (@IFloor NR fmt_R [7%R]) 1%R) = Done (os, c') /\ length os = 4%nat.
Proof. intros s. apply total; [exact ex_fuel_ok|lia]. Qed.

(* positions of that run: P_1 = 2.5 -> 2 frames pulled, fraction 0.5 *)
Example ex_position : fl (Ppos [2.5; 0.5; 1; 1 / 3]%R 1) = 2%nat /\ fl (Ppos [2.5; 0.5; 1; 1 / 3]%R 2) = 3%nat.
Proof. split; apply fl_spec; simpl; lra. Qed.

(* count: 3 remaining frames at ratio 2.5: n0 = ceil(4/2.5) = 2 *)
Example ex_n0 : n0 3 2.5 = 2%nat.
Proof.
  unfold n0. replace (Zceil ((INR 3 + 1) / 2.5)) with 2%Z; [reflexivity|].
  symmetry. apply Zceil_imp. simpl. lra.
Qed.

(* IEEE: the hypotheses of the exact-loop theorem hold at accumulator 2.5 *)
Example ex_loop_hyp : let v := F64.div (F64.of_Z 5) (F64.of_Z 2) in
  is_finite v = true /\ (0 <= B2R v < bpow radix2 53)%R.
Proof. cbn zeta. split; [reflexivity|]. vm_compute. lra. Qed.

(* dyadic: accumulator 2.5 = 10/4 and ratio 0.75 = 3/4 *)
Example ex_dyadic : dyadic 2 10 (B2R (F64.div (F64.of_Z 5) (F64.of_Z 2))) /\
                    dyadic 2 3 (B2R (F64.div (F64.of_Z 3) (F64.of_Z 4))).
Proof. unfold dyadic. split; vm_compute; lra. Qed.

(* the doc-test of Signal::scale_hz: [0, 1, 0, -1] at 0.5 with Linear gives
   0, .5, 1, .5, 0, -.5, -1, -.5 (f64 bit patterns) *)
Example ex_doc_scale_hz :
  map (fun o => nth 5 o 0%Z)
    (tl (run_case (ZCase 0 1 1 [[0%Z]; [4607182418800017408%Z]; [0%Z]; [13830554455654793216%Z]]
                    (CScale 4602678819172646912%Z) [ZNext; ZNext; ZNext; ZNext; ZNext; ZNext; ZNext; ZNext] 0)))
  = [0; 4602678819172646912; 4607182418800017408; 4602678819172646912; 0;
     13826050856027422720; 13830554455654793216; 13826050856027422720]%Z.
Proof. vm_compute. reflexivity. Qed.
