(* Non-vacuity: concrete non-trivial instances of the hypotheses of the C08 theorems, and
   the dasp doc-test of Signal::scale_hz replayed on the executable binary64 model. *)
Require Import Floats.SpecFloat.
Require Import Reals List ZArith Lia Lra Bool.
From Flocq Require Import Core BinarySingleNaN.
From Dasp Require Import Base.Res Base.Float Signal.Converter Signal.ConvNumR Signal.ConvNumF
  Signal.ConverterProofs Signal.ConverterIEEE Signal.ConverterDyadic Signal.ConverterRun.
Import ListNotations.

(* a ratio sequence with a step > 1 (several pulls), a step < 1 (no pull) and fuel 5 *)
Example ex_fuel_ok : fuel_ok 5 [2.5; 0.5; 1; 1 / 3]%R.
Proof. unfold fuel_ok. repeat constructor; simpl; lra. Qed.

(* ... so a three-frame source through a floor interpolator has a complete run of 4 outputs *)
Example ex_run_exists :
  let s : source fmt_R := @mkSource NR fmt_R [[1]; [2]; [3]]%R 1 2 1 in
  exists os c', @run NR fmt_R 5 [2.5; 0.5; 1; 1 / 3]%R (start s (@IFloor NR fmt_R [7%R]) 1%R) = Done (os, c') /\ length os = 4%nat.
Proof. intros s. apply total; [exact ex_fuel_ok|lia]. Qed.

(* positions of that run: P_1 = 2.5 -> 2 frames pulled, fraction 0.5 *)
Example ex_position : fl (Ppos [2.5; 0.5; 1; 1 / 3]%R 1) = 2%nat /\ fl (Ppos [2.5; 0.5; 1; 1 / 3]%R 2) = 3%nat.
Proof. split; apply fl_spec; simpl; lra. Qed.

(* count: 3 remaining frames at ratio 2.5: n0 = ceil(4/2.5) = 2 *)
Example ex_n0 : n0 3 2.5 = 2%nat.
Proof.
  unfold n0. replace (Zceil ((INR 3 + 1) / 2.5)) with 2%Z; [reflexivity|].
  symmetry. apply Zceil_imp. simpl. lra.
Qed.

(* IEEE: the hypotheses of the exact-loop theorem hold at accumulator 2.5 *)
Example ex_loop_hyp : let v := F64.div (F64.of_Z 5) (F64.of_Z 2) in
  is_finite v = true /\ (0 <= B2R v < bpow radix2 53)%R.
Proof. cbn zeta. split; [reflexivity|]. vm_compute. lra. Qed.

(* dyadic: accumulator 2.5 = 10/4 and ratio 0.75 = 3/4 *)
Example ex_dyadic : dyadic 2 10 (B2R (F64.div (F64.of_Z 5) (F64.of_Z 2))) /\
                    dyadic 2 3 (B2R (F64.div (F64.of_Z 3) (F64.of_Z 4))).
Proof. unfold dyadic. split; vm_compute; lra. Qed.

(* the doc-test of Signal::scale_hz: [0, 1, 0, -1] at 0.5 with Linear gives
   0, .5, 1, .5, 0, -.5, -1, -.5 (f64 bit patterns) *)
Example ex_doc_scale_hz :
  map (fun o => nth 5 o 0%Z)
    (tl (run_case (ZCase 0 1 1 [[0%Z]; [4607182418800017408%Z]; [0%Z]; [13830554455654793216%Z]]
                    (CScale 4602678819172646912%Z) [ZNext; ZNext; ZNext; ZNext; ZNext; ZNext; ZNext; ZNext] 0)))
  = [0; 4602678819172646912; 4607182418800017408; 4602678819172646912; 0;
     13826050856027422720; 13830554455654793216; 13826050856027422720]%Z.
Proof. vm_compute. reflexivity. Qed.

(* ---- setters / accessors between outputs (Signal/ConverterOps.v): non-vacuity of c08_set_same_ratio and
   c08_rebuild on the binary64 model.  i16 source 100 200 300 400 500 at ratio exactly 1 (44100/44100), Linear;
   after two outputs the accumulator holds exactly 1.0 (a whole frame pending): set_hz_to_hz(44100, 44100) there
   changes nothing; then a source() look, a source_mut() pull (frame 500 is taken away: the next output blends 400 with the equilibrium the exhausted source yields), a rebuild at ratio 0.5 *)
From Dasp Require Import Signal.ConverterOps Signal.ConverterOpsProofs.
Definition ex_hz : Z := 4676293871431319552%Z.      (* 44100.0 *)
(* over the reals: a converter running at 44100/44100 = 1; announcing the same rates again is the identity *)
Example ex_same_ratio (s : source fmt_R) (i : interp fmt_R) :
  let c := start s i 1%R in
  (44100 / 44100 = ratio c)%R /\ set_hz_to_hz c 44100%R 44100%R = c.
Proof.
  cbv zeta. assert (H : (44100 / 44100 = ratio (start s i 1))%R) by (unfold start; cbn [ratio]; field).
  split; [exact H|]. exact (proj1 (proj2 (@set_same_ratio NR fmt_R (start s i 1%R) 1%R 44100%R 44100%R)) H).
Qed.

Example ex_ops_run :
  run_case (ZCase 2 1 1 [[100]; [200]; [300]; [400]; [500]]%Z (CHz ex_hz ex_hz)
              [ZNext; ZNext; ZSetHz ex_hz ex_hz; ZSource; ZNext; ZSrcPull; ZNext; ZRebuild (CScale 4602678819172646912%Z); ZNext; ZNext] 0)
  = [[0; 2; 3]; [1; 0; 2; 3; 4607182418800017408; 100]; [1; 0; 3; 4; 4607182418800017408; 200]; [3]; [6; 0; 3; 4];
     [1; 0; 4; 5; 4607182418800017408; 300]; [7; 5; 6; 500]; [1; 1; 6; 6; 4607182418800017408; 400];
     [0; 8; 6]; [1; 0; 8; 6; 4602678819172646912; 0]; [1; 0; 8; 6; 4607182418800017408; 0]]%Z.
Proof. vm_compute. reflexivity. Qed.
