(* C04: proofs over the adaptor-tree model (Signal/Sig.v): pointwise laws, delay law,
   one pull per source and call, by_ref resumption, composition law, clip law. *)
Require Import List ZArith Bool Arith Lia.
From Dasp Require Import Base.Res Signal.Sig.
Import ListNotations.

Section SigProofs.
Variables F Sm SS FS : Type.
Variable eqm : F.
Variable nch : nat.
Variable channels : F -> list Sm.
Variable of_samples : list Sm -> F.
Variable fmap : (Sm -> Sm) -> F -> F.
Variables f_add f_mul : F -> F -> F.
Variable f_scale : FS -> F -> F.
Variable f_offset : SS -> F -> F.
Variable to_signed : Sm -> SS.
Variable of_signed : SS -> Sm.
Variable ss_ltb : SS -> SS -> bool.
Variable ss_neg : SS -> SS.

Notation sig := (sig F Sm SS FS).
Notation next := (Sig.next F Sm SS FS eqm nch of_samples fmap f_add f_mul f_scale f_offset to_signed of_signed ss_ltb ss_neg).
Notation after := (Sig.after F Sm SS FS eqm nch of_samples fmap f_add f_mul f_scale f_offset to_signed of_signed ss_ltb ss_neg).
Notation stream := (Sig.stream F Sm SS FS eqm nch of_samples fmap f_add f_mul f_scale f_offset to_signed of_signed ss_ltb ss_neg).
Notation clip_sample := (Sig.clip_sample Sm SS to_signed of_signed ss_ltb ss_neg).

Definition step (s : sig) : sig := snd (next s).

Lemma after_S n (s : sig) : after (S n) s = after n (step s).
Proof. reflexivity. Qed.

Lemma after_add m k (s : sig) : after (m + k) s = after k (after m s).
Proof. revert s; induction m as [|m IH]; intros s; [reflexivity|]. cbn [Nat.add]. rewrite !after_S. apply IH. Qed.

Lemma stream_after m k (s : sig) : stream (after m s) k = stream s (m + k).
Proof. unfold Sig.stream. now rewrite after_add. Qed.

(* ---- one call of next, per constructor ---- *)
Ltac nx := unfold step; cbn [Sig.next]; repeat match goal with |- context[next ?s] => destruct (next s) end; reflexivity.

Lemma step_Map id f s : step (Map id f s) = Map id f (step s). Proof. nx. Qed.
Lemma step_ZipMap id f a b : step (ZipMap id f a b) = ZipMap id f (step a) (step b). Proof. nx. Qed.
Lemma step_AddAmp a b : step (AddAmp a b) = AddAmp (step a) (step b). Proof. nx. Qed.
Lemma step_MulAmp a b : step (MulAmp a b) = MulAmp (step a) (step b). Proof. nx. Qed.
Lemma step_ScaleAmp x s : step (ScaleAmp x s) = ScaleAmp x (step s). Proof. nx. Qed.
Lemma step_OffsetAmp x s : step (OffsetAmp x s) = OffsetAmp x (step s). Proof. nx. Qed.
Lemma step_ScalePC x s : step (ScaleAmpPerChannel x s) = ScaleAmpPerChannel x (step s). Proof. nx. Qed.
Lemma step_OffsetPC x s : step (OffsetAmpPerChannel x s) = OffsetAmpPerChannel x (step s). Proof. nx. Qed.
Lemma step_ClipAmp x s : step (ClipAmp x s) = ClipAmp x (step s). Proof. nx. Qed.
Lemma step_Inspect id s : step (Inspect id s) = Inspect id (step s). Proof. nx. Qed.
Lemma step_ByRef s : step (ByRef s) = ByRef (step s). Proof. nx. Qed.
Lemma step_Delay0 s : step (Delay 0 s) = Delay 0 (step s). Proof. nx. Qed.
Lemma step_DelayS k s : step (Delay (S k) s) = Delay k s. Proof. reflexivity. Qed.

Ltac nf := cbn [Sig.next]; repeat match goal with |- context[next ?s] => destruct (next s) end; reflexivity.
Lemma fst_Map id f s : fst (next (Map id f s)) = f (fst (next s)). Proof. nf. Qed.
Lemma fst_ZipMap id f a b : fst (next (ZipMap id f a b)) = f (fst (next a)) (fst (next b)). Proof. nf. Qed.
Lemma fst_AddAmp a b : fst (next (AddAmp a b)) = f_add (fst (next a)) (fst (next b)). Proof. nf. Qed.
Lemma fst_MulAmp a b : fst (next (MulAmp a b)) = f_mul (fst (next a)) (fst (next b)). Proof. nf. Qed.
Lemma fst_ScaleAmp x s : fst (next (ScaleAmp x s)) = f_scale x (fst (next s)). Proof. nf. Qed.
Lemma fst_OffsetAmp x s : fst (next (OffsetAmp x s)) = f_offset x (fst (next s)). Proof. nf. Qed.
Lemma fst_ScalePC x s : fst (next (ScaleAmpPerChannel x s)) = f_mul (fst (next s)) x. Proof. nf. Qed.
Lemma fst_OffsetPC x s : fst (next (OffsetAmpPerChannel x s)) = f_add (fst (next s)) x. Proof. nf. Qed.
Lemma fst_ClipAmp x s : fst (next (ClipAmp x s)) = fmap (clip_sample x) (fst (next s)). Proof. nf. Qed.
Lemma fst_Inspect id s : fst (next (Inspect id s)) = fst (next s). Proof. nf. Qed.
Lemma fst_ByRef s : fst (next (ByRef s)) = fst (next s). Proof. nf. Qed.
Lemma fst_Delay0 s : fst (next (Delay 0 s)) = fst (next s). Proof. nf. Qed.

(* ---- n calls commute with every constructor ---- *)
Ltac aft st := let n := fresh "n" in let IH := fresh "IH" in
  intros n; induction n as [|n IH]; intros; [reflexivity|]; rewrite !after_S, st; apply IH.

Lemma after_Map : forall n id f s, after n (Map id f s) = Map id f (after n s). Proof. aft step_Map. Qed.
Lemma after_ZipMap : forall n id f a b, after n (ZipMap id f a b) = ZipMap id f (after n a) (after n b). Proof. aft step_ZipMap. Qed.
Lemma after_AddAmp : forall n a b, after n (AddAmp a b) = AddAmp (after n a) (after n b). Proof. aft step_AddAmp. Qed.
Lemma after_MulAmp : forall n a b, after n (MulAmp a b) = MulAmp (after n a) (after n b). Proof. aft step_MulAmp. Qed.
Lemma after_ScaleAmp : forall n x s, after n (ScaleAmp x s) = ScaleAmp x (after n s). Proof. aft step_ScaleAmp. Qed.
Lemma after_OffsetAmp : forall n x s, after n (OffsetAmp x s) = OffsetAmp x (after n s). Proof. aft step_OffsetAmp. Qed.
Lemma after_ScalePC : forall n x s, after n (ScaleAmpPerChannel x s) = ScaleAmpPerChannel x (after n s). Proof. aft step_ScalePC. Qed.
Lemma after_OffsetPC : forall n x s, after n (OffsetAmpPerChannel x s) = OffsetAmpPerChannel x (after n s). Proof. aft step_OffsetPC. Qed.
Lemma after_ClipAmp : forall n x s, after n (ClipAmp x s) = ClipAmp x (after n s). Proof. aft step_ClipAmp. Qed.
Lemma after_Inspect : forall n id s, after n (Inspect id s) = Inspect id (after n s). Proof. aft step_Inspect. Qed.
Lemma after_ByRef : forall n s, after n (ByRef s) = ByRef (after n s). Proof. aft step_ByRef. Qed.

Lemma after_Delay : forall n k s, after n (Delay k s) = Delay (k - n) (after (n - k) s).
Proof.
  intros n; induction n as [|n IH]; intros k s.
  - now rewrite Nat.sub_0_r.
  - rewrite after_S. destruct k as [|k].
    + rewrite step_Delay0, IH. cbn [Nat.sub]. now rewrite Nat.sub_0_r, after_S.
    + rewrite step_DelayS, IH. reflexivity.
Qed.

(* ---- pointwise laws ---- *)
Lemma pw_map id f s n : stream (Map id f s) n = f (stream s n).
Proof. unfold Sig.stream. now rewrite after_Map, fst_Map. Qed.
Lemma pw_zip_map id f a b n : stream (ZipMap id f a b) n = f (stream a n) (stream b n).
Proof. unfold Sig.stream. now rewrite after_ZipMap, fst_ZipMap. Qed.
Lemma pw_add_amp a b n : stream (AddAmp a b) n = f_add (stream a n) (stream b n).
Proof. unfold Sig.stream. now rewrite after_AddAmp, fst_AddAmp. Qed.
Lemma pw_mul_amp a b n : stream (MulAmp a b) n = f_mul (stream a n) (stream b n).
Proof. unfold Sig.stream. now rewrite after_MulAmp, fst_MulAmp. Qed.
Lemma pw_scale_amp x s n : stream (ScaleAmp x s) n = f_scale x (stream s n).
Proof. unfold Sig.stream. now rewrite after_ScaleAmp, fst_ScaleAmp. Qed.
Lemma pw_offset_amp x s n : stream (OffsetAmp x s) n = f_offset x (stream s n).
Proof. unfold Sig.stream. now rewrite after_OffsetAmp, fst_OffsetAmp. Qed.
Lemma pw_scale_pc x s n : stream (ScaleAmpPerChannel x s) n = f_mul (stream s n) x.
Proof. unfold Sig.stream. now rewrite after_ScalePC, fst_ScalePC. Qed.
Lemma pw_offset_pc x s n : stream (OffsetAmpPerChannel x s) n = f_add (stream s n) x.
Proof. unfold Sig.stream. now rewrite after_OffsetPC, fst_OffsetPC. Qed.
Lemma pw_clip_amp x s n : stream (ClipAmp x s) n = fmap (clip_sample x) (stream s n).
Proof. unfold Sig.stream. now rewrite after_ClipAmp, fst_ClipAmp. Qed.
Lemma pw_inspect id s n : stream (Inspect id s) n = stream s n.
Proof. unfold Sig.stream. now rewrite after_Inspect, fst_Inspect. Qed.
Lemma pw_by_ref s n : stream (ByRef s) n = stream s n.
Proof. unfold Sig.stream. now rewrite after_ByRef, fst_ByRef. Qed.

Lemma delay_law k s n : stream (Delay k s) n = if n <? k then eqm else stream s (n - k).
Proof.
  unfold Sig.stream. rewrite after_Delay.
  destruct (Nat.ltb_spec n k) as [H|H].
  - destruct (k - n) as [|d] eqn:E; [lia|]. reflexivity.
  - replace (k - n) with 0 by lia. apply fst_Delay0.
Qed.

(* all adaptor laws in one statement *)
Theorem pointwise_all :
  forall n,
  (forall id f s, stream (Map id f s) n = f (stream s n)) /\
  (forall id f a b, stream (ZipMap id f a b) n = f (stream a n) (stream b n)) /\
  (forall a b, stream (AddAmp a b) n = f_add (stream a n) (stream b n)) /\
  (forall a b, stream (MulAmp a b) n = f_mul (stream a n) (stream b n)) /\
  (forall x s, stream (ScaleAmp x s) n = f_scale x (stream s n)) /\
  (forall x s, stream (OffsetAmp x s) n = f_offset x (stream s n)) /\
  (forall x s, stream (ScaleAmpPerChannel x s) n = f_mul (stream s n) x) /\
  (forall x s, stream (OffsetAmpPerChannel x s) n = f_add (stream s n) x) /\
  (forall t s, stream (ClipAmp t s) n = fmap (clip_sample t) (stream s n)) /\
  (forall id s, stream (Inspect id s) n = stream s n) /\
  (forall s, stream (ByRef s) n = stream s n).
Proof.
  intros n. repeat split; intros.
  - apply pw_map. - apply pw_zip_map. - apply pw_add_amp. - apply pw_mul_amp. - apply pw_scale_amp.
  - apply pw_offset_amp. - apply pw_scale_pc. - apply pw_offset_pc. - apply pw_clip_amp.
  - apply pw_inspect. - apply pw_by_ref.
Qed.

(* ---- every next advances every sub-signal by exactly one next, none below a pending delay ---- *)
Lemma pulls_step : forall (p : path) (t s : sig), sub_at p t = Some s ->
  sub_at p (step t) = Some (if delay_above p t =? 0 then step s else s) /\
  delay_above p (step t) = pred (delay_above p t).
Proof.
  induction p as [|d p IH]; intros t s H.
  - cbn in H. injection H as <-. cbn. auto.
  - cbn [sub_at] in H. destruct (child d t) as [c|] eqn:Ec; [|discriminate].
    destruct t; destruct d; cbn in Ec; try discriminate; injection Ec as ->;
      try (match goal with
           | |- context[step (Delay ?k _)] => destruct k
           | _ => idtac end);
      rewrite ?step_Map, ?step_ZipMap, ?step_AddAmp, ?step_MulAmp, ?step_ScaleAmp, ?step_OffsetAmp,
        ?step_ScalePC, ?step_OffsetPC, ?step_ClipAmp, ?step_Inspect, ?step_ByRef, ?step_Delay0, ?step_DelayS;
      cbn [sub_at child delay_above Nat.add]; try (apply IH; assumption).
    (* Delay (S k): the source is not touched *)
    rewrite H. split; [reflexivity|]. cbn. reflexivity.
Qed.

Theorem pulls_one (p : path) (t s : sig) : sub_at p t = Some s ->
  sub_at p (snd (next t)) = Some (if delay_above p t =? 0 then snd (next s) else s).
Proof. intros H. apply (pulls_step p t s H). Qed.

Theorem pulls_n : forall n (p : path) (t s : sig), sub_at p t = Some s ->
  sub_at p (after n t) = Some (after (n - delay_above p t) s).
Proof.
  induction n as [|n IH]; intros p t s H; [exact H|].
  rewrite after_S. destruct (pulls_step p t s H) as [H1 H2].
  rewrite (IH p (step t) _ H1), H2.
  destruct (delay_above p t) as [|d]; cbn [Nat.eqb pred].
  - now rewrite !Nat.sub_0_r.
  - reflexivity.
Qed.

(* leaf counters: each Signal::next on a leaf counts one pull *)
Definition pulls_of (s : sig) : nat :=
  match s with
  | FromIter _ _ _ _ p | FromSamples _ _ _ _ p | Gen _ _ p | GenMut _ _ p => p
  | _ => 0
  end.
Definition is_leaf (s : sig) : bool :=
  match s with FromIter _ _ _ _ _ | FromSamples _ _ _ _ _ | Gen _ _ _ | GenMut _ _ _ => true | _ => false end.

Lemma leaf_pull (s : sig) : is_leaf s = true -> pulls_of (step s) = S (pulls_of s) /\ is_leaf (step s) = true.
Proof.
  destruct s; try discriminate; intros _; unfold step; cbn [Sig.next].
  - destruct nx; [destruct rest|]; auto.
  - destruct nx; [destruct (frame_from_samples _ _ _ _ _) as [[? ?] ?]|]; auto.
  - auto.
  - auto.
Qed.

Lemma leaf_pull_n n : forall (s : sig), is_leaf s = true -> pulls_of (after n s) = n + pulls_of s.
Proof.
  induction n as [|n IH]; intros s H; [reflexivity|].
  rewrite after_S. destruct (leaf_pull s H) as [H1 H2]. rewrite IH, H1 by assumption. lia.
Qed.

Theorem leaf_pulls_exact n (p : path) (t l : sig) : sub_at p t = Some l -> is_leaf l = true ->
  exists l', sub_at p (after n t) = Some l' /\ pulls_of l' = (n - delay_above p t) + pulls_of l.
Proof.
  intros H Hl. eexists. split; [apply pulls_n; eassumption|]. now apply leaf_pull_n.
Qed.

(* by_ref: the borrowed signal is handed back exactly where the adaptor left it *)
Theorem by_ref_resume n k (p : path) (t s : sig) : sub_at p t = Some (ByRef s) ->
  exists s', sub_at p (after n t) = Some (ByRef s') /\ s' = after (n - delay_above p t) s /\
             stream s' k = stream s ((n - delay_above p t) + k).
Proof.
  intros H. exists (after (n - delay_above p t) s). split; [|split; [reflexivity|apply stream_after]].
  rewrite (pulls_n n p t _ H). now rewrite after_ByRef.
Qed.

(* ---- composition law: any nesting = composition of the pointwise functions ---- *)
Fixpoint den (s : sig) (n : nat) : F :=
  match s with
  | Map _ f s => f (den s n)
  | ZipMap _ f a b => f (den a n) (den b n)
  | AddAmp a b => f_add (den a n) (den b n)
  | MulAmp a b => f_mul (den a n) (den b n)
  | ScaleAmp x s => f_scale x (den s n)
  | OffsetAmp x s => f_offset x (den s n)
  | ScaleAmpPerChannel x s => f_mul (den s n) x
  | OffsetAmpPerChannel x s => f_add (den s n) x
  | ClipAmp t s => fmap (clip_sample t) (den s n)
  | Inspect _ s | ByRef s => den s n
  | Delay k s => if n <? k then eqm else den s (n - k)
  | leaf => stream leaf n
  end.

Theorem compose (t : sig) : forall m, stream t m = den t m.
Proof.
  induction t; intros m; cbn [den]; try reflexivity.
  - now rewrite pw_map, IHt.
  - now rewrite pw_zip_map, IHt1, IHt2.
  - now rewrite pw_add_amp, IHt1, IHt2.
  - now rewrite pw_mul_amp, IHt1, IHt2.
  - now rewrite pw_scale_amp, IHt.
  - now rewrite pw_offset_amp, IHt.
  - now rewrite pw_scale_pc, IHt.
  - now rewrite pw_offset_pc, IHt.
  - now rewrite pw_clip_amp, IHt.
  - now rewrite pw_inspect, IHt.
  - rewrite delay_law. destruct (m <? k); [reflexivity|apply IHt].
  - now rewrite pw_by_ref, IHt.
Qed.

(* ---- clip law ---- *)
Section Clip.
Variable lt : SS -> SS -> Prop.
Hypothesis ltb_spec : forall a b, ss_ltb a b = true <-> lt a b.
Hypothesis lt_irrefl : forall a, ~ lt a a.
Hypothesis roundtrip : forall x, to_signed (of_signed x) = x.
Hypothesis fmap_channels : forall g f, channels (fmap g f) = map g (channels f).

Definition le (a b : SS) : Prop := ~ lt b a.

(* the signed amplitude after clipping: t above t, -t below -t, unchanged in between *)
Inductive clamped (t x r : SS) : Prop :=
| ClHi : lt t x -> r = t -> clamped t x r
| ClLo : le x t -> lt x (ss_neg t) -> r = ss_neg t -> clamped t x r
| ClIn : le x t -> le (ss_neg t) x -> r = x -> clamped t x r.

Lemma clip_sample_spec t s : clamped t (to_signed s) (to_signed (clip_sample t s)).
Proof.
  unfold Sig.clip_sample. rewrite roundtrip.
  destruct (ss_ltb t (to_signed s)) eqn:E1.
  - apply ClHi; [now apply ltb_spec|reflexivity].
  - assert (H1 : le (to_signed s) t) by (intros H; apply ltb_spec in H; congruence).
    destruct (ss_ltb (to_signed s) (ss_neg t)) eqn:E2.
    + apply ClLo; [assumption|now apply ltb_spec|reflexivity].
    + apply ClIn; [assumption| |reflexivity]. intros H; apply ltb_spec in H; congruence.
Qed.

Lemma clip_sample_range t s : le (ss_neg t) t ->
  le (ss_neg t) (to_signed (clip_sample t s)) /\ le (to_signed (clip_sample t s)) t.
Proof.
  intros Ht. destruct (clip_sample_spec t s) as [H E|H1 H2 E|H1 H2 E]; rewrite E; unfold le in *; split; auto.
Qed.

Theorem clip_law t s n : le (ss_neg t) t ->
  channels (stream (ClipAmp t s) n) = map (clip_sample t) (channels (stream s n)) /\
  forall c, In c (channels (stream (ClipAmp t s) n)) ->
    le (ss_neg t) (to_signed c) /\ le (to_signed c) t.
Proof.
  intros Ht. rewrite pw_clip_amp, fmap_channels. split; [reflexivity|].
  intros c Hc. apply in_map_iff in Hc. destruct Hc as [x [<- _]]. now apply clip_sample_range.
Qed.

Theorem clip_values t s n i c0 : nth_error (channels (stream s n)) i = Some c0 ->
  exists c, nth_error (channels (stream (ClipAmp t s) n)) i = Some c /\ clamped t (to_signed c0) (to_signed c).
Proof.
  intros H. rewrite pw_clip_amp, fmap_channels. exists (clip_sample t c0). split.
  - now rewrite nth_error_map, H.
  - apply clip_sample_spec.
Qed.
End Clip.

End SigProofs.
