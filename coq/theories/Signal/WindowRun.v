(* C20 — executable instance of the window model (Signal/Window.v) over IEEE binary64
   phases and f32 / f64 / i16 frames, with the observation encoding of
   harness/src/bin/c20.rs; evaluated by coqc on the correspondence cases.

   libm's cos is not modelled: the Hann values observed from the implementation
   (Window::<f64, Hann>) are passed into the model as a table phase -> value (the
   window function of the run) and validated separately against an oracle with a
   4-ulp tolerance on cos (lib/props/c20.py).  Everything else (phase stepping,
   f64 -> f32 conversion, mul_amp incl. the i16 <-> f32 conversions, schedule,
   size_hint) is computed by the model and compared exactly. *)
Require Import Floats.SpecFloat.
Require Import ZArith List Bool.
From Flocq Require Import Core BinarySingleNaN.
From Dasp Require Import Base.Res Base.Float Signal.Window Signal.WindowFmtGen.
Import ListNotations.
Open Scope Z_scope.

(* ---- binary64 arithmetic of the phase / window code ---- *)
Definition f64_pi : f64 := F64.of_bits 4614256656552045848.      (* 0x400921FB54442D18 = core::f64::consts::PI *)
Definition f64_two : f64 := F64.of_Z 2.
Definition f64_half : f64 := F64.of_bits 4602678819172646912.    (* 0x3FE0000000000000 *)

Definition A64 : arith :=
  mkArith f64 F64.zero f64_half F64.one (F64.mul f64_pi f64_two)
          F64.add F64.sub F64.mul F64.div F64.rem (fun n => F64.of_Z (Z.of_nat n)).

(* ---- sample formats ---- *)
Record sfmt := mkSfmt {
  Smp : Type; Flt : Type;
  conv : f64 -> Flt;              (* f64 .to_sample::<S::Float>() *)
  smul : Smp -> Flt -> Smp;       (* Sample::mul_amp *)
  equil : Smp;
  back : Flt -> Smp;              (* S::Float .to_sample::<S>()  (Window::<F, W> with F the sample's own format) *)
  dec : Z -> Smp; enc : Smp -> Z; encw : Flt -> Z;
}.

Definition c32768 : f32 := F32.of_Z 32768.

(* i16::to_sample::<f32> = s as f32 / 32768.0 ;  f32::to_sample::<i16> = (s * 32768.0) as i16 *)
Definition i16_to_f32 (s : Z) : f32 := F32.div (F32.of_Z s) c32768.
Definition f32_to_i16 (x : f32) : Z := F32.to_Z_sat (-32768) 32767 (F32.mul x c32768).

Definition fmt_f32 : sfmt := mkSfmt f32 f32 f64_to_f32 F32.mul F32.zero (fun x => x) F32.of_bits F32.bits F32.bits.
Definition fmt_f64 : sfmt := mkSfmt f64 f64 (fun x => x) F64.mul F64.zero (fun x => x) F64.of_bits F64.bits F64.bits.
(* mul_amp: let self_f = self.to_float_sample(); (self_f * amp).to_sample() *)
Definition fmt_i16 : sfmt :=
  mkSfmt Z f32 f64_to_f32 (fun s w => f32_to_i16 (F32.mul (i16_to_f32 s) w)) 0 f32_to_i16 (fun z => z) (fun z => z) F32.bits.
(* any of the fourteen formats (code of SampleFmt.sfmt_code), through the generated, specification-guarded
   sample operations of Signal/WindowFmtGen.v; samples and window values travel Z-encoded *)
Definition fmt_gen (c : Z) : sfmt :=
  mkSfmt Z Z (gen_conv c) (gen_smul c) (gen_equil c) (gen_back c) (fun z => z) (fun z => z) (fun z => z).

(* ---- window function of a run ---- *)
Inductive wkind := WHann | WRect.

(* Hann values observed from the implementation, as a function of the phase *)
Fixpoint lookup (tbl : list (Z * Z)) (p : Z) : f64 :=
  match tbl with
  | [] => B754_nan
  | (q, v) :: t => if Z.eqb q p then F64.of_bits v else lookup t p
  end.

Definition wfun_of (k : wkind) (tbl : list (Z * Z)) : f64 -> f64 :=
  match k with
  | WHann => fun p => lookup tbl (F64.bits p)
  | WRect => rect A64
  end.

(* ---- cases ---- *)
Inductive fkind := KF32 | KF64 | KI16 | KGen (c : Z).
Definition fmt_of (k : fkind) : sfmt :=
  match k with KF32 => fmt_f32 | KF64 => fmt_f64 | KI16 => fmt_i16 | KGen c => fmt_gen c end.

(* provided Iterator methods exercised on the three iterators (semantics: Section RunI below) *)
Inductive iop :=
| INext | INth (k : Z) | ILast | ILastRef | ICount | ICountRef | ISkip (k : Z) | IStepBy (k t : Z)
| ICollect | IFold
| IWinNth (k : Z) | IWinSkip (k : Z) | IWinTakeLast (k : Z) | IWinStepBy (k t : Z)
| IChunkNth (k : Z) | IChunkSkip (k : Z) | IChunkTakeLast (k : Z).

Inductive wcase :=
| WCase (wk : wkind) (fk : fkind) (nch b h maxn : Z) (data : list (list Z))
    (* data: the L frames, each nch samples (bit patterns for floats, values for i16);
       maxn: number of next() calls the harness makes at most *)
| HCase (ps : list Z) (qs : list Z)
| ICase (wk : wkind) (fk : fkind) (nch b h np : Z) (data : list (list Z)) (ops : list iop).
    (* ps: f32 phases (bits), qs: i16 phases — the dasp_window functions through the trait *)

Definition n (z : Z) : nat := Z.to_nat z.
Definition zn (k : nat) : Z := Z.of_nat k.

Definition enc_hint (r : res hint) : list Z :=
  match r with
  | Ok (Hint lo None) => [1; zn lo; 0]
  | Ok (Hint lo (Some hi)) => [1; zn lo; 1; zn hi]
  | Ok HintForever => [1; 18446744073709551615; 0]
  | Panic k => [8; zn (panic_code k)]
  | UB => [-2]
  end.

Section Run.
Variable F : sfmt.
Variable wf : f64 -> f64.
Variable nch : nat.

Definition wtake (m : nat) (chunk : list (list (Smp F))) (b : nat) : list (list (Smp F)) :=
  windowed_take A64 wf (Smp F) (Flt F) (conv F) (smul F) (equil F) nch m
    (windowed_of A64 (Smp F) chunk b).

Definition enc_chunk (fs : list (list (Smp F))) : list Z := 2 :: map (enc F) (concat fs).

Definition enc_next (r : res (option (list (list (Smp F)) * windower (list (Smp F))))) (b : nat) : list Z :=
  match r with
  | Ok None => [3]
  | Ok (Some (c, _)) => enc_chunk (wtake (b + 2) c b)
  | Panic k => [8; zn (panic_code k)]
  | UB => [-2]
  end.

(* size_hint, next, size_hint, next, ... ; after the first None once more size_hint and next *)
Fixpoint run_w (fuel : nat) (w : windower (list (Smp F))) : list (list Z) :=
  match fuel with
  | O => []
  | S f =>
    enc_hint (w_size_hint w) ::
    match w_next w with
    | Ok (Some (c, w')) => enc_chunk (wtake (bin w + 2) c (bin w)) :: run_w f w'
    | r => [enc_next r (bin w); enc_hint (w_size_hint w); enc_next (w_next w) (bin w)]
    end
  end.

(* the window iterator in the frame's float type: Window::<F::Float frame, W>::new(b).take(m), flattened *)
Fixpoint window_take (m : nat) (p : phase A64) : list Z :=
  match m with
  | O => []
  | S k => let r := window_next A64 wf (Flt F) (conv F) nch p in map (encw F) (fst r) ++ window_take k (snd r)
  end.
(* the window iterator in the frame's OWN format: Window::<F, W>::new(b).take(m), flattened
   (v.to_sample::<S::Float>() and then .to_sample::<S>()) *)
Fixpoint window_take_own (m : nat) (p : phase A64) : list Z :=
  match m with
  | O => []
  | S k => let r := window_next A64 wf (Flt F) (conv F) nch p in
           map (fun x => enc F (back F x)) (fst r) ++ window_take_own k (snd r)
  end.
End Run.

Definition f64_phases (b m : nat) : list Z := map F64.bits (phases A64 m (window_new A64 b)).

(* expected observations, given the implementation's f64 window values [wv] (data for Hann) *)
Definition run_wcase (wk : wkind) (fk : fkind) (nch b h maxn : Z) (data : list (list Z)) (wv : list Z)
  : list (list Z) :=
  let F := fmt_of fk in
  let m := (n b + 2)%nat in
  let ph := f64_phases (n b) m in
  let wf := wfun_of wk (combine ph wv) in
  let wvals := map (fun p => F64.bits (wf (F64.of_bits p))) ph in
  (100 :: ph) :: (101 :: wvals) :: (102 :: window_take F wf (n nch) m (window_new A64 (n b))) :: (103 :: wvals) ::
  (104 :: window_take_own F wf (n nch) m (window_new A64 (n b))) ::
  run_w F wf (n nch) (n maxn) (w_new (map (map (dec F)) data) (n b) (n h)).

(* dasp_window::{Hann, Rectangle} through the Window trait on f32 / i16 / f64 phases.
   hv: Hann::window::<f64>(p as f64) for the f32 phases p (data);
   hq: Hann::window::<f64>((q as f32 / 32768.0) as f64) for the i16 phases q (data). *)
Definition run_hcase (ps qs hv hq : list Z) : list (list Z) :=
  [ 110 :: hv;
    (* Hann::window::<f32>: phase.to_float_sample().to_sample::<f64>() * PI_2 ... .to_sample::<f32>() *)
    111 :: map (fun v => F32.bits (f64_to_f32 (F64.of_bits v))) hv;
    112 :: map (fun _ => F64.bits (rect A64 F64.zero)) ps;
    113 :: map (fun _ => F32.bits (f64_to_f32 (rect A64 F64.zero))) ps;
    116 :: hq;
    (* Hann::window::<i16>: (0.5 * (1 - cos v)).to_sample::<f32>().to_sample::<i16>() *)
    115 :: map (fun v => f32_to_i16 (f64_to_f32 (F64.of_bits v))) hq;
    (* Rectangle::window::<i16> = i16::IDENTITY (1.0f32) .to_sample::<i16>() *)
    114 :: map (fun _ => f32_to_i16 F32.one) qs;
    (* the f64 phases the i16 path evaluates Hann at *)
    117 :: map (fun q => F64.bits (f32_to_f64 (i16_to_f32 q))) qs ].

(* ---- provided Iterator methods on the three iterators (default semantics = repeated next) ---- *)
Section RunI.
Variable F : sfmt.
Variable wf : f64 -> f64.
Variable nch : nat.
Variable wvals : list Z.     (* values of Window::<f64,W>::new(b): wf at the successive phases *)
Notation W := (windower (list (Smp F))).

Definition enc_c (b : nat) (c : list (list (Smp F))) : list Z := enc_chunk F (wtake F wf nch (b + 1) c b).
Definition enc_oc (b : nat) (o : option (list (list (Smp F)))) : list Z :=
  match o with None => [3] | Some c => enc_c b c end.
Definition enc_err {X} (r : res X) : list (list Z) :=
  match r with Panic k => [[8; zn (panic_code k)]] | _ => [[-2]] end.
Definition nth_z (l : list Z) (i : nat) : list Z := match nth_error l i with Some v => [6; v] | None => [-3] end.
Definition two_last (l : list (list (Smp F))) : list Z :=
  2 :: map (enc F) (concat (skipn (length l - 2) l)).

(* one op: observations, new windower state, new position of the persistent Window iterator *)
Definition istep (w : W) (pos : nat) (o : iop) : list (list Z) * W * nat :=
  let b := bin w in
  let fuel := Datatypes.S (length (frames w)) in
  let first_chunk := match w_next w with Ok (Some (c, _)) => Some c | _ => None end in
  let wd c := windowed_take A64 wf (Smp F) (Flt F) (conv F) (smul F) (equil F) nch in
  match o with
  | INext => match w_nth 0 w with Ok (oc, w') => ([enc_oc b oc], w', pos) | r => (enc_err r, w, pos) end
  | INth k => match w_nth (n k) w with Ok (oc, w') => ([enc_oc b oc], w', pos) | r => (enc_err r, w, pos) end
  | ISkip k => match w_nth (n k) w with Ok (oc, _) => ([enc_oc b oc], w, pos) | r => (enc_err r, w, pos) end
  | ILast => match w_last fuel w with Ok (oc, _) => ([enc_oc b oc], w, pos) | r => (enc_err r, w, pos) end
  | ILastRef => match w_last fuel w with Ok (oc, w') => ([enc_oc b oc], w', pos) | r => (enc_err r, w, pos) end
  | ICount | IFold => match w_count fuel w with Ok (c, _) => ([[4; zn c]], w, pos) | r => (enc_err r, w, pos) end
  | ICountRef => match w_count fuel w with Ok (c, w') => ([[4; zn c]], w', pos) | r => (enc_err r, w, pos) end
  | IStepBy k t => match w_step_by_take (n k) (n t) w with
                   | Ok (cs, _) => ([5; zn (length cs)] :: map (enc_c b) cs, w, pos) | r => (enc_err r, w, pos) end
  | ICollect => match w_drain fuel w with
                | Ok (cs, _) => ([5; zn (length cs)] :: map (enc_c b) cs, w, pos) | r => (enc_err r, w, pos) end
  | IWinNth k => ([nth_z wvals (pos + n k)], w, (pos + n k + 1)%nat)
  | IWinSkip k => ([nth_z wvals (pos + n k)], w, pos)
  | IWinTakeLast k => ([match n k with O => [3] | Datatypes.S j => nth_z wvals (pos + j) end], w, pos)
  | IWinStepBy k t => ([7 :: map (fun i => nth (pos + i * n k) wvals (-3)) (seq 0 (n t))], w, pos)
  | IChunkNth k => ([match first_chunk with None => [3]
                     | Some c => two_last (wd c (n k + 2)%nat (windowed_of A64 (Smp F) c b)) end], w, pos)
  | IChunkSkip k => ([match first_chunk with None => [3]
                      | Some c => 2 :: map (enc F) (last (wd c (n k + 1)%nat (windowed_of A64 (Smp F) c b)) []) end], w, pos)
  | IChunkTakeLast k => ([match first_chunk, n k with
                          | None, _ => [3] | Some _, O => [3]
                          | Some c, Datatypes.S j => 2 :: map (enc F) (last (wd c (Datatypes.S j) (windowed_of A64 (Smp F) c b)) []) end], w, pos)
  end.

Fixpoint run_i (w : W) (pos : nat) (ops : list iop) : list (list Z) :=
  match ops with
  | [] => []
  | o :: t => let '(obs, w', pos') := istep w pos o in obs ++ enc_hint (w_size_hint w') :: run_i w' pos' t
  end.
End RunI.

(* np: number of window phases/values the harness tabulates (covers every index the ops reach) *)
Definition run_icase (wk : wkind) (fk : fkind) (nch b h np : Z) (data : list (list Z)) (ops : list iop) (wv : list Z)
  : list (list Z) :=
  let F := fmt_of fk in
  let ph := f64_phases (n b) (n np) in
  let wf := wfun_of wk (combine ph wv) in
  let wvals := map (fun p => F64.bits (wf (F64.of_bits p))) ph in
  (100 :: ph) :: (101 :: wvals) ::
  run_i F wf (n nch) wvals (w_new (map (map (dec F)) data) (n b) (n h)) 0 ops.

Definition zll_eqb (a b : list (list Z)) : bool :=
  if list_eq_dec (list_eq_dec Z.eq_dec) a b then true else false.

Definition obs_data (tag : Z) (o : list (list Z)) : list Z :=
  match find (fun l => match l with t :: _ => Z.eqb t tag | [] => false end) o with
  | Some (_ :: v) => v
  | _ => []
  end.

Definition run_case (c : wcase) (o : list (list Z)) : list (list Z) :=
  match c with
  | WCase wk fk nch b h maxn data => run_wcase wk fk nch b h maxn data (obs_data 101 o)
  | HCase ps qs => run_hcase ps qs (obs_data 110 o) (obs_data 116 o)
  | ICase wk fk nch b h np data ops => run_icase wk fk nch b h np data ops (obs_data 101 o)
  end.

Definition check (c : wcase * list (list Z)) : bool := zll_eqb (run_case (fst c) (snd c)) (snd c).
