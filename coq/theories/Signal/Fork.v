(* Model of dasp_signal's Fork (dasp_signal/src/lib.rs: Signal::fork, struct Fork /
   ForkShared, Fork::by_rc / by_ref, define_branch! {next, pending_frames}), written
   after the source.  The queue is the Bounded model of Ring/Bounded.v.  No proofs here.

   The source signal is an infinite stream given as a function [nat -> A] together with
   a pull counter: [Signal::next] returns frame number [pulls] and increments the
   counter, so "the source is pulled exactly once per distinct frame" is a statement
   about [pulls].  Frames are abstract. *)
Require Import List Arith Bool.
From Dasp Require Import Base.Res Base.ListX Ring.Bounded.
Import ListNotations.

Section Fork.
Context {A : Type}.

Record source := { sfn : nat -> A; pulls : nat }.

(* fork.signal.next() *)
Definition src_next (s : source) : A * source :=
  (sfn s (pulls s), {| sfn := sfn s; pulls := S (pulls s) |}).

(* struct ForkShared { signal, ring_buffer, pending } ; Fork = RefCell<ForkShared> *)
Record shared := { signal : source; ring_buffer : bounded A; pending : bool }.

(* const A: bool = true; const B: bool = false; *)
Definition BrA : bool := true.
Definition BrB : bool := false.

(* Signal::fork:  assert!(ring_buffer.is_empty());  pending: Fork::B *)
Definition fork (s : source) (rb : bounded A) : res shared :=
  if is_empty rb then Ok {| signal := s; ring_buffer := rb; pending := BrB |}
  else Panic PAssert.

(* the tail shared by both paths of next():
     let frame = fork.signal.next(); fork.ring_buffer.push(frame); frame
   (the Option returned by push -- the evicted oldest frame when the buffer is
   full -- is discarded by the source: no panic, the frame is silently lost) *)
Definition pull_push (f : shared) : res (shared * A) :=
  let (frame, s') := src_next (signal f) in
  let* r := push (ring_buffer f) frame in
  Ok ({| signal := s'; ring_buffer := fst r; pending := pending f |}, frame).

(* define_branch!: next() of the branch whose constant is [self] ($SELF); $OTHER = negb self
     if fork.pending == SELF {
         if let Some(frame) = fork.ring_buffer.pop() { return frame; }
         fork.pending = OTHER;
     }
     pull_push *)
Definition next (self : bool) (f : shared) : res (shared * A) :=
  if Bool.eqb (pending f) self then
    let* r := pop (ring_buffer f) in
    match snd r with
    | Some frame =>
        Ok ({| signal := signal f; ring_buffer := fst r; pending := pending f |}, frame)
    | None =>
        pull_push {| signal := signal f; ring_buffer := fst r; pending := negb self |}
    end
  else pull_push f.

(* pending_frames(): if fork.pending == SELF { fork.ring_buffer.len() } else { 0 } *)
Definition pending_frames (self : bool) (f : shared) : nat :=
  if Bool.eqb (pending f) self then len (ring_buffer f) else 0.

(* The branch types do not override Signal::is_exhausted: the trait default is `false`. *)
Definition branch_is_exhausted (self : bool) (f : shared) : bool := false.

(* Fork::by_ref(&mut self) hands out two handles to the one RefCell; Fork::by_rc(self)
   moves the same RefCell into an Rc and hands out two handles to it.  A handle carries
   no state of its own (only the constant SELF), so in a functional model both are the
   identity on the shared state; the branch operations above take SELF as an argument. *)
Definition by_ref (f : shared) : shared := f.
Definition by_rc (f : shared) : shared := f.

End Fork.
Arguments source A : clear implicits.
Arguments shared A : clear implicits.
