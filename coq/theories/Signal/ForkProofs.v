(* Refinement of the Fork model to two positions in the source stream, from every valid
   shared state (every capacity >= 1, every ring-buffer start), for every operation and
   every schedule whose lead never exceeds the capacity.  The ring buffer is used only
   through C06's refinement lemmas (push_refines / pop_refines / abs_length). *)
Require Import List Arith Lia Bool.
From Dasp Require Import Base.Res Base.ListX Ring.Bounded Ring.BoundedSpec Ring.BoundedProofs
  Signal.Fork Signal.ForkSpec.
Import ListNotations.

Section Proofs.
Context {A : Type}.
Implicit Types (st : shared A) (rb : bounded A) (p : posn) (f : nat -> A).

(* ---------------- source frames [lo, lo+n) ---------------- *)
Lemma frames_length f lo n : length (frames f lo n) = n.
Proof. unfold frames. now rewrite map_length, seq_length. Qed.

Lemma frames_cons f lo n : frames f lo (S n) = f lo :: frames f (S lo) n.
Proof. reflexivity. Qed.

Lemma frames_snoc f lo n : frames f lo n ++ [f (lo + n)] = frames f lo (S n).
Proof. unfold frames. now rewrite seq_S, map_app. Qed.

Lemma frames_app f lo n m : frames f lo n ++ frames f (lo + n) m = frames f lo (n + m).
Proof. unfold frames. now rewrite seq_app, map_app. Qed.

(* ---------------- constructor ---------------- *)
(* fork() refuses a ring buffer that is not empty *)
Lemma fork_nonempty (s : source A) rb : len rb <> 0 -> fork s rb = Panic PAssert.
Proof. intros H. unfold fork, is_empty. destruct (Nat.eqb_spec (len rb) 0); [lia|reflexivity]. Qed.

(* ... and from an empty valid ring buffer (any capacity >= 1, ANY start index) it
   establishes the invariant with both branches at the source's current position *)
Lemma fork_init (s : source A) rb : Inv rb -> len rb = 0 ->
  exists st, fork s rb = Ok st /\ FInv st /\ ring_buffer st = rb /\ signal st = s /\
             pos_of st = (pulls s, pulls s).
Proof.
  intros I H0. unfold fork, is_empty. rewrite H0. simpl.
  eexists; split; [reflexivity|]. split; [|split; [reflexivity|split; [reflexivity|]]].
  - unfold FInv; simpl. split; [exact I|]. split; [lia|].
    rewrite H0. apply length_zero_iff_nil. rewrite abs_length by exact I. exact H0.
  - unfold pos_of, pending_frames; simpl. rewrite H0. f_equal; lia.
Qed.

(* ---------------- facts of every valid state ---------------- *)
Lemma inv_cap_pos rb : Inv rb -> 1 <= max_len rb.
Proof. intros [H _]. lia. Qed.

Lemma state_pulls st : FInv st -> pulls (signal st) = pulled (pos_of st).
Proof.
  intros (I & Hle & _). unfold pulled, pos_of, pending_frames, BrA, BrB.
  destruct (pending st); cbn [fst snd negb Bool.eqb]; lia.
Qed.

Lemma state_pending st x : FInv st -> pending_frames x st = lag x (pos_of st).
Proof.
  intros (I & Hle & _). unfold lag, pulled, pos, pos_of, pending_frames, BrA, BrB.
  destruct (pending st), x; cbn [fst snd negb Bool.eqb]; lia.
Qed.

Lemma state_lead st : FInv st -> lead (pos_of st) = len (ring_buffer st).
Proof.
  intros (I & Hle & _). unfold lead, pulled, behind, pos_of, pending_frames, BrA, BrB.
  destruct (pending st); cbn [fst snd negb Bool.eqb]; lia.
Qed.

Lemma state_lead_le st : FInv st -> lead (pos_of st) <= max_len (ring_buffer st).
Proof. intros H. rewrite state_lead by exact H. destruct H as ([_ H] & _). exact H. Qed.

(* the queue holds exactly the source frames [min pa pb, max pa pb) *)
Lemma state_queue st : FInv st ->
  abs (ring_buffer st) = frames (sfn (signal st)) (behind (pos_of st)) (lead (pos_of st)).
Proof.
  intros H. rewrite state_lead by exact H. destruct H as (I & Hle & Habs). rewrite Habs. f_equal.
  unfold behind, pos_of, pending_frames, BrA, BrB. destruct (pending st); cbn [fst snd negb Bool.eqb]; lia.
Qed.

(* ---------------- next ---------------- *)
Lemma pull_push_refines st : FInv st -> len (ring_buffer st) < max_len (ring_buffer st) ->
  exists st', pull_push st = Ok (st', sfn (signal st) (pulls (signal st))) /\ FInv st' /\
    max_len (ring_buffer st') = max_len (ring_buffer st) /\ sfn (signal st') = sfn (signal st) /\
    pulls (signal st') = S (pulls (signal st)) /\ len (ring_buffer st') = S (len (ring_buffer st)) /\
    pending st' = pending st.
Proof.
  intros (I & Hle & Habs) Hlt. destruct st as [[f k] rb pd]. simpl in *.
  unfold pull_push, src_next; simpl.
  destruct (push_refines rb (f k) I) as (rb' & r & Hpush & I' & Hcap & Hq).
  rewrite Hpush; simpl.
  unfold q_push in Hq. rewrite (abs_length rb I) in Hq.
  destruct (Nat.eqb_spec (len rb) (max_len rb)) as [E|_]; [lia|].
  inversion Hq as [[Hq1 Hq2]]. clear Hq.
  assert (HL : len rb' = S (len rb)).
  { rewrite <- (abs_length rb' I'), <- Hq1, app_length, (abs_length rb I). simpl. lia. }
  eexists; split; [reflexivity|]. simpl.
  split; [|repeat split; auto].
  unfold FInv; simpl. split; [exact I'|]. split; [lia|].
  rewrite <- Hq1, Habs, HL.
  replace (S k - S (len rb)) with (k - len rb) by lia.
  rewrite <- frames_snoc. do 3 f_equal. lia.
Qed.

Theorem next_refines st x : FInv st ->
  lead (advance x (pos_of st)) <= max_len (ring_buffer st) ->
  exists st', next x st = Ok (st', sfn (signal st) (pos x (pos_of st))) /\ FInv st' /\
    max_len (ring_buffer st') = max_len (ring_buffer st) /\ sfn (signal st') = sfn (signal st) /\
    pos_of st' = advance x (pos_of st).
Proof.
  intros HI Hlead. pose proof HI as (I & Hle & Habs).
  unfold next. destruct (Bool.eqb (pending st) x) eqn:E.
  - (* the queue is mine *)
    apply eqb_prop in E. subst x.
    destruct (pop_refines (ring_buffer st) I) as (rb' & r & Hpop & I' & Hcap & Hq).
    rewrite Hpop; simpl.
    destruct (len (ring_buffer st)) as [|m] eqn:EL.
    + (* ... but empty: hand the queue over, pull, push *)
      rewrite Habs in Hq. simpl in Hq. inversion Hq as [[Hq1 Hq2]]. clear Hq.
      assert (HL' : len rb' = 0) by (rewrite <- (abs_length rb' I'), <- Hq1; reflexivity).
      set (st1 := {| signal := signal st; ring_buffer := rb'; pending := negb (pending st) |}).
      assert (HI1 : FInv st1).
      { unfold FInv, st1; simpl. split; [exact I'|]. rewrite HL'. split; [lia|]. now rewrite <- Hq1. }
      destruct (pull_push_refines st1 HI1) as (st' & Hpp & HI' & Hcap' & Hf' & Hk' & Hl' & Hpd').
      { unfold st1; simpl. rewrite HL'. apply inv_cap_pos in I'. lia. }
      exists st'. unfold st1 in Hpp at 1. simpl in Hpp. fold st1.
      replace (pos (pending st) (pos_of st)) with (pulls (signal st)).
      2:{ unfold pos, pos_of, pending_frames, BrA, BrB. rewrite EL. destruct (pending st); cbn [fst snd negb Bool.eqb]; lia. }
      split; [exact Hpp|]. split; [exact HI'|]. split; [simpl in Hcap'; congruence|].
      split; [exact Hf'|].
      unfold pos_of, pending_frames, advance, BrA, BrB. rewrite Hk', Hl', Hpd'. simpl.
      rewrite HL', EL. destruct (pending st); cbn [fst snd negb Bool.eqb]; f_equal; lia.
    + (* ... and holds my next frame *)
      rewrite Habs, frames_cons in Hq. simpl in Hq. inversion Hq as [[Hq1 Hq2]]. clear Hq.
      assert (HL' : len rb' = m).
      { rewrite <- (abs_length rb' I'), <- Hq1. apply frames_length. }
      eexists. split.
      { do 3 f_equal. unfold pos, pos_of, pending_frames, BrA, BrB. rewrite EL.
        destruct (pending st); cbn [fst snd negb Bool.eqb]; lia. }
      split.
      { unfold FInv; simpl. split; [exact I'|]. rewrite HL'. split; [lia|].
        rewrite <- Hq1. f_equal. lia. }
      split; [exact Hcap|]. split; [reflexivity|].
      unfold pos_of, pending_frames, advance, BrA, BrB; simpl. rewrite HL', EL.
      destruct (pending st); cbn [fst snd negb Bool.eqb]; f_equal; lia.
  - (* the queue is the other branch's: I am the leader *)
    apply eqb_false_iff in E.
    assert (Hx : x = negb (pending st)) by (revert E; destruct (pending st), x; cbn [fst snd negb Bool.eqb]; congruence).
    clear E. subst x.
    assert (Hlt : len (ring_buffer st) < max_len (ring_buffer st)).
    { revert Hlead. unfold lead, pulled, behind, advance, pos_of, pending_frames, BrA, BrB.
      destruct (pending st); cbn [fst snd negb Bool.eqb]; lia. }
    destruct (pull_push_refines st HI Hlt) as (st' & Hpp & HI' & Hcap' & Hf' & Hk' & Hl' & Hpd').
    exists st'.
    replace (pos (negb (pending st)) (pos_of st)) with (pulls (signal st)).
    2:{ unfold pos, pos_of, pending_frames, BrA, BrB. destruct (pending st); cbn [fst snd negb Bool.eqb]; lia. }
    split; [exact Hpp|]. split; [exact HI'|]. split; [exact Hcap'|]. split; [exact Hf'|].
    unfold pos_of, pending_frames, advance, BrA, BrB. rewrite Hk', Hl', Hpd'.
    destruct (pending st); cbn [fst snd negb Bool.eqb]; f_equal; lia.
Qed.

(* What the code does when the side condition is violated: the leader pulls while the queue
   is full -- no panic; push evicts the oldest queued frame, which the lagging branch has
   not seen yet and will never see. *)
Theorem next_overrun st x : FInv st -> pending st = negb x ->
  len (ring_buffer st) = max_len (ring_buffer st) ->
  exists st', next x st = Ok (st', sfn (signal st) (pulls (signal st))) /\
    Inv (ring_buffer st') /\ pending st' = pending st /\
    pulls (signal st') = S (pulls (signal st)) /\
    len (ring_buffer st') = max_len (ring_buffer st) /\
    abs (ring_buffer st') =
      frames (sfn (signal st)) (S (pulls (signal st) - len (ring_buffer st))) (len (ring_buffer st)).
Proof.
  intros (I & Hle & Habs) Hpd Hfull. unfold next. rewrite Hpd.
  replace (Bool.eqb (negb x) x) with false by (now destruct x).
  destruct st as [[f k] rb pd]. simpl in *.
  unfold pull_push, src_next; simpl.
  destruct (push_refines rb (f k) I) as (rb' & r & Hpush & I' & Hcap & Hq).
  rewrite Hpush; simpl.
  unfold q_push in Hq. rewrite (abs_length rb I), Hfull, Nat.eqb_refl in Hq.
  inversion Hq as [[Hq1 Hq2]]. clear Hq.
  pose proof (inv_cap_pos rb I) as Hc.
  destruct (len rb) as [|m] eqn:EL; [lia|].
  rewrite Habs, frames_cons in Hq1. simpl in Hq1.
  assert (HL : len rb' = S m).
  { rewrite <- (abs_length rb' I'), <- Hq1, app_length, frames_length. simpl. lia. }
  eexists; split; [reflexivity|]. simpl.
  split; [exact I'|]. split; [congruence|]. split; [reflexivity|]. split; [congruence|].
  rewrite <- Hq1. replace (f k) with (f (S (k - S m) + m)) by (f_equal; lia).
  apply frames_snoc.
Qed.

(* ---------------- every operation, every schedule ---------------- *)
Lemma observe_spec st v : FInv st -> observe st v = spec_observe (pos_of st) v.
Proof.
  intros H. unfold observe, spec_observe.
  now rewrite (state_pulls st H), !(state_pending st _ H).
Qed.

Theorem fstep_refines st o : FInv st -> sched_ok (max_len (ring_buffer st)) (pos_of st) [o] ->
  exists st' v, fstep st o = Ok (st', v) /\ FInv st' /\
    max_len (ring_buffer st') = max_len (ring_buffer st) /\ sfn (signal st') = sfn (signal st) /\
    spec_step (sfn (signal st)) (pos_of st) o = (pos_of st', v).
Proof.
  intros HI Hok. destruct o as [x|x|x| |]; simpl in *.
  - destruct Hok as [Hlead _].
    destruct (next_refines st x HI Hlead) as (st' & Hn & HI' & Hcap & Hf & Hp).
    rewrite Hn; simpl. exists st'. eexists. split; [reflexivity|].
    split; [exact HI'|]. split; [exact Hcap|]. split; [exact Hf|].
    rewrite observe_spec by exact HI'. now rewrite Hp.
  - exists st. eexists. split; [reflexivity|]. split; [exact HI|]. split; [reflexivity|]. split; [reflexivity|].
    rewrite observe_spec by exact HI. now rewrite state_pending by exact HI.
  - exists st. eexists. split; [reflexivity|]. split; [exact HI|]. split; [reflexivity|]. split; [reflexivity|].
    rewrite observe_spec by exact HI. reflexivity.
  - exists st. eexists. split; [reflexivity|]. split; [exact HI|]. split; [reflexivity|]. split; [reflexivity|].
    unfold by_ref. rewrite observe_spec by exact HI. reflexivity.
  - exists st. eexists. split; [reflexivity|]. split; [exact HI|]. split; [reflexivity|]. split; [reflexivity|].
    unfold by_rc. rewrite observe_spec by exact HI. reflexivity.
Qed.

Definition next_pos p (o : fop) : posn := match o with ONext x => advance x p | _ => p end.

Lemma sched_ok_cons cap p o t :
  sched_ok cap p (o :: t) <-> sched_ok cap p [o] /\ sched_ok cap (next_pos p o) t.
Proof. destruct o; simpl; tauto. Qed.

Lemma spec_step_pos f p o : fst (spec_step f p o) = next_pos p o.
Proof. destruct o; reflexivity. Qed.

Theorem frun_refines ops : forall st, FInv st ->
  sched_ok (max_len (ring_buffer st)) (pos_of st) ops ->
  exists st' vs, frun st ops = Ok (st', vs) /\ FInv st' /\
    max_len (ring_buffer st') = max_len (ring_buffer st) /\ sfn (signal st') = sfn (signal st) /\
    spec_run (sfn (signal st)) (pos_of st) ops = (pos_of st', vs).
Proof.
  induction ops as [|o t IH]; intros st HI Hok.
  - exists st, []. simpl. split; [reflexivity|]. split; [exact HI|]. split; [reflexivity|]. split; reflexivity.
  - apply sched_ok_cons in Hok. destruct Hok as [Ho Ht].
    destruct (fstep_refines st o HI Ho) as (st1 & v & Hs & HI1 & Hcap1 & Hf1 & Hsp).
    rewrite <- (spec_step_pos (sfn (signal st))), Hsp in Ht. simpl in Ht.
    rewrite <- Hcap1 in Ht.
    destruct (IH st1 HI1 Ht) as (st' & vs & Hr & HI' & Hcap' & Hf' & Hspr).
    exists st', (v :: vs). cbn [frun]. rewrite Hs; cbn [bind fst snd]. rewrite Hr; cbn [bind fst snd].
    split; [reflexivity|]. split; [exact HI'|]. split; [congruence|]. split; [congruence|].
    cbn [spec_run]. rewrite Hsp; cbn [fst snd]. rewrite <- Hf1, Hspr. reflexivity.
Qed.

(* ---------------- pure facts of the specification ---------------- *)
(* each branch receives the source frames from its position on, in order, once each *)
Lemma spec_frames f x ops : forall p,
  frames_of x ops (snd (spec_run f p ops)) = frames f (pos x p) (count_next x ops).
Proof.
  induction ops as [|o t IH]; intros p; [reflexivity|].
  destruct o as [y|y|y| |]; cbn [spec_run spec_step fst snd frames_of count_next spec_observe];
    try apply IH.
  rewrite IH. destruct x, y; cbn [Bool.eqb pos advance fst snd]; try reflexivity;
    rewrite frames_cons; reflexivity.
Qed.

Lemma spec_pos f x ops : forall p,
  pos x (fst (spec_run f p ops)) = pos x p + count_next x ops.
Proof.
  induction ops as [|o t IH]; intros p; [simpl; lia|].
  destruct o as [y|y|y| |]; cbn [spec_run spec_step fst snd count_next]; try apply IH.
  rewrite IH. destruct x, y; cbn [Bool.eqb pos advance fst snd]; lia.
Qed.

Lemma sched_ok_app cap ops1 : forall p ops2 f,
  sched_ok cap p (ops1 ++ ops2) <->
  sched_ok cap p ops1 /\ sched_ok cap (fst (spec_run f p ops1)) ops2.
Proof.
  induction ops1 as [|o t IH]; intros p ops2 f; [simpl; tauto|].
  destruct o as [y|y|y| |]; cbn [app sched_ok spec_run spec_step fst snd]; rewrite ?(IH _ _ f); tauto.
Qed.

(* ---------------- the property, from any valid state and from a fresh fork ---------------- *)
Theorem schedule_streams st ops : FInv st ->
  sched_ok (max_len (ring_buffer st)) (pos_of st) ops ->
  exists st' vs, frun st ops = Ok (st', vs) /\ FInv st' /\
    spec_run (sfn (signal st)) (pos_of st) ops = (pos_of st', vs) /\
    (forall x, frames_of x ops vs =
               frames (sfn (signal st)) (pos x (pos_of st)) (count_next x ops)) /\
    (forall x, pos x (pos_of st') = pos x (pos_of st) + count_next x ops).
Proof.
  intros HI Hok.
  destruct (frun_refines ops st HI Hok) as (st' & vs & Hr & HI' & _ & _ & Hsp).
  exists st', vs. split; [exact Hr|]. split; [exact HI'|]. split; [exact Hsp|]. split; intros x.
  - replace vs with (snd (spec_run (sfn (signal st)) (pos_of st) ops)) by now rewrite Hsp.
    apply spec_frames.
  - replace (pos_of st') with (fst (spec_run (sfn (signal st)) (pos_of st) ops)) by now rewrite Hsp.
    apply spec_pos.
Qed.

Theorem fork_schedule (s : source A) rb ops : Inv rb -> len rb = 0 ->
  sched_ok (max_len rb) (pulls s, pulls s) ops ->
  exists st0 st' vs, fork s rb = Ok st0 /\ frun st0 ops = Ok (st', vs) /\ FInv st' /\
    spec_run (sfn s) (pulls s, pulls s) ops = (pos_of st', vs) /\
    (forall x, frames_of x ops vs = frames (sfn s) (pulls s) (count_next x ops)) /\
    pulls (signal st') = pulls s + Nat.max (count_next BrA ops) (count_next BrB ops).
Proof.
  intros I H0 Hok.
  destruct (fork_init s rb I H0) as (st0 & Hf & HI0 & Hrb & Hs & Hp).
  rewrite <- Hrb, <- Hp in Hok.
  destruct (schedule_streams st0 ops HI0 Hok) as (st' & vs & Hr & HI' & Hsp & Hfr & Hpos).
  rewrite Hs, Hp in Hsp.
  exists st0, st', vs. split; [exact Hf|]. split; [exact Hr|]. split; [exact HI'|]. split; [exact Hsp|].
  split.
  - intros x. rewrite Hfr, Hs, Hp. destruct x; reflexivity.
  - rewrite (state_pulls st' HI'). unfold pulled.
    pose proof (Hpos BrA) as Ha. pose proof (Hpos BrB) as Hb. rewrite Hp in Ha, Hb.
    unfold pos, BrA, BrB in Ha, Hb. cbn [fst snd] in Ha, Hb. rewrite Ha, Hb. unfold BrA, BrB. lia.
Qed.

(* the same with every quantifier of the property spelled out: any storage of capacity
   >= 1, any start index inside it, any source, any lead-respecting schedule *)
Theorem fork_from_raw_parts (d : list A) (start0 : nat) (s : source A) ops :
  start0 < length d -> sched_ok (length d) (pulls s, pulls s) ops ->
  exists rb st0 st' vs, from_raw_parts start0 0 d = Ok rb /\ fork s rb = Ok st0 /\
    frun st0 ops = Ok (st', vs) /\
    spec_run (sfn s) (pulls s, pulls s) ops = (pos_of st', vs) /\
    (forall x, frames_of x ops vs = frames (sfn s) (pulls s) (count_next x ops)) /\
    pulls (signal st') = pulls s + Nat.max (count_next BrA ops) (count_next BrB ops).
Proof.
  intros Hs Hok. pose proof (from_raw_parts_inv start0 0 d) as H.
  destruct (from_raw_parts start0 0 d) as [rb|k|] eqn:E.
  - destruct H as (_ & _ & I & _ & HL & Hd).
    assert (Hcap : max_len rb = length d) by (unfold max_len; now rewrite Hd).
    rewrite <- Hcap in Hok.
    destruct (fork_schedule s rb ops I HL Hok) as (st0 & st' & vs & H1 & H2 & _ & H3 & H4 & H5).
    exists rb, st0, st', vs. repeat split; assumption.
  - destruct k; try contradiction. exfalso. apply H. lia.
  - contradiction.
Qed.

(* use, drop the branches, split again (by reference or by_rc), use: one run of the
   concatenated schedule, i.e. the second pair of branches continues exactly where the
   first pair stopped *)
Theorem resplit st ops1 ops2 (split : shared A -> shared A) :
  split = by_ref \/ split = by_rc ->
  FInv st -> sched_ok (max_len (ring_buffer st)) (pos_of st) (ops1 ++ ops2) ->
  exists st1 vs1 st2 vs2,
    frun (split st) ops1 = Ok (st1, vs1) /\ frun (split st1) ops2 = Ok (st2, vs2) /\
    FInv st2 /\ pos_of (split st1) = fst (spec_run (sfn (signal st)) (pos_of st) ops1) /\
    spec_run (sfn (signal st)) (pos_of st) (ops1 ++ ops2) = (pos_of st2, vs1 ++ vs2) /\
    (forall x, frames_of x ops2 vs2 =
               frames (sfn (signal st)) (pos x (pos_of st) + count_next x ops1) (count_next x ops2)).
Proof.
  intros Hsplit HI Hok.
  assert (Hid : forall s, split s = s) by (destruct Hsplit as [-> | ->]; reflexivity).
  rewrite !Hid.
  apply (sched_ok_app _ _ _ _ (sfn (signal st))) in Hok. destruct Hok as [Hok1 Hok2].
  destruct (frun_refines ops1 st HI Hok1) as (st1 & vs1 & Hr1 & HI1 & Hcap1 & Hf1 & Hsp1).
  rewrite Hsp1 in Hok2. simpl in Hok2. rewrite <- Hcap1 in Hok2.
  destruct (frun_refines ops2 st1 HI1 Hok2) as (st2 & vs2 & Hr2 & HI2 & Hcap2 & Hf2 & Hsp2).
  exists st1, vs1, st2, vs2. rewrite !Hid.
  split; [exact Hr1|]. split; [exact Hr2|]. split; [exact HI2|].
  split; [now rewrite Hsp1|]. split.
  - clear - Hsp1 Hsp2 Hf1. rewrite Hf1 in Hsp2. revert Hsp1 Hsp2.
    generalize (sfn (signal st)) (pos_of st) (pos_of st1) (pos_of st2). clear.
    intros f p. revert p vs1. induction ops1 as [|o t IH]; intros p vs1 p1 p2 H1 H2; simpl in *.
    + inversion H1; subst. exact H2.
    + destruct (spec_run f (fst (spec_step f p o)) t) as [q ws] eqn:Et. simpl in H1.
      inversion H1; subst. simpl. rewrite (IH _ ws p1 p2 Et H2). reflexivity.
  - intros x. replace vs2 with (snd (spec_run (sfn (signal st1)) (pos_of st1) ops2)) by now rewrite Hsp2.
    rewrite spec_frames, Hf1. f_equal.
    replace (pos_of st1) with (fst (spec_run (sfn (signal st)) (pos_of st) ops1)) by now rewrite Hsp1.
    apply spec_pos.
Qed.

End Proofs.
