(* Refinement of the Fork model to two positions in the source stream. *)
Require Import List Arith Lia Bool.
From Dasp Require Import Base.Res Base.ListX Ring.Bounded Ring.BoundedSpec Ring.BoundedProofs
  Signal.Fork Signal.ForkSpec.
Import ListNotations.

Section Proofs.
Context {A : Type}.
Implicit Types (st : shared A) (rb : bounded A) (p : posn).

(* fork() refuses a ring buffer that is not empty *)
Lemma fork_nonempty (s : source A) rb : len rb <> 0 -> fork s rb = Panic PAssert.
Proof. intros H. unfold fork, is_empty. destruct (Nat.eqb_spec (len rb) 0); [lia|reflexivity]. Qed.

End Proofs.
