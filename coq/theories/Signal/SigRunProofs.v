(* Facts about the executable integer instances of Signal/SigRun.v: the clip law on the
   concrete integer formats ([i16;2], i32, [u8;3] through its signed twin i8). *)
Require Import Floats.SpecFloat.
Require Import List ZArith Bool Lia.
From Flocq Require Import Core BinarySingleNaN.
From Dasp Require Import Base.Res Base.Float Signal.Sig Signal.SigProofs Signal.SigRun.
Import ListNotations.
Open Scope Z_scope.

Lemma wrap_s_id b z : 0 < b -> - 2 ^ (b - 1) <= z < 2 ^ (b - 1) -> wrap_s b z = z.
Proof.
  intros Hb H. unfold wrap_s.
  assert (E : 2 ^ b = 2 * 2 ^ (b - 1)) by (rewrite <- Z.pow_succ_r by lia; f_equal; lia).
  rewrite E, Z.mod_small; lia.
Qed.

(* ClipAmp's per-sample closure on any two's complement integer format of width b whose signed
   amplitude is x - off (off = 0 for the signed formats, 2^(b-1) for the unsigned ones): pure integer
   statement, independent of the float side of the instance *)
Theorem clip_int_pure (b off t x : Z) : 0 < b -> 0 <= t < 2 ^ (b - 1) ->
  clip_sample Z Z (fun x => x - off) (fun y => y + off) Z.ltb (fun a => wrap_s b (- a)) t x - off =
  Z.max (- t) (Z.min t (x - off)).
Proof.
  intros Hb Ht. unfold clip_sample. rewrite wrap_s_id by lia.
  destruct (Z.ltb_spec t (x - off)); [lia|].
  destruct (Z.ltb_spec (x - off) (- t)); lia.
Qed.

(* ClipAmp's per-sample closure on an integer format: the signed amplitude of the result is the
   signed amplitude of the input clamped to [-t, t]; for u8 the signed amplitude is x - 128 *)
Theorem clip_int (fm : fmt) (t x : Z) : is_float fm = false -> 0 <= t < 2 ^ (int_bits fm - 1) ->
  z_to_signed fm (clip_sample Z Z (z_tos fm) (z_ofs fm) (s_ltb fm) (s_neg fm) t x) =
  Z.max (- t) (Z.min t (z_to_signed fm x)).
Proof.
  intros Hf Ht. unfold clip_sample, z_tos, z_ofs. rewrite Hf.
  assert (Hn : s_neg fm t = - t).
  { destruct fm; try discriminate; cbn [s_neg]; apply wrap_s_id; cbn [int_bits] in *; lia. }
  assert (Hl : forall a b, s_ltb fm a b = (a <? b)) by (destruct fm; try discriminate; reflexivity).
  rewrite Hn, !Hl. unfold z_to_signed, z_of_signed.
  destruct (Z.ltb_spec t (x - unsigned_off fm)); [lia|].
  destruct (Z.ltb_spec (x - unsigned_off fm) (- t)); lia.
Qed.

(* frame level: every channel of the n-th frame of clip_amp(t) is the clamped channel of the source *)
Theorem clip_int_frame (fm : fmt) (t : Z) (s : zsig) (n : nat) : is_float fm = false -> 0 <= t < 2 ^ (int_bits fm - 1) ->
  let str := stream zframe Z Z Z (z_eqm fm) (fmt_nch fm) (fun l => l) z_fmap (z_add fm) (z_mul fm) (z_scale fm)
                    (z_offset fm) (z_tos fm) (z_ofs fm) (s_ltb fm) (s_neg fm) in
  map (z_to_signed fm) (str (ClipAmp t s) n) =
  map (fun x => Z.max (- t) (Z.min t (z_to_signed fm x))) (str s n).
Proof.
  intros Hf Ht str. unfold str.
  rewrite (SigProofs.pw_clip_amp zframe Z Z Z). unfold z_fmap. rewrite map_map.
  apply map_ext. intros x. now apply clip_int.
Qed.
