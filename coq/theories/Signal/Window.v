(* C20 — model of dasp_signal::window (Window, Windower, Windowed) and of the
   dasp_window functions (Hann, Rectangle), written after the Rust source.
   Definitions only; proofs are in WindowProofs.v (integer schedule, axiom-free)
   and WindowRProofs.v (real-number part).

   dasp_signal/src/window/mod.rs, dasp_signal/src/lib.rs (Phase, ConstHz, Rate,
   FromIterator), dasp_window/src/{hann/mod.rs,rectangle.rs}.

   usize is modelled as nat (no value near 2^64): `remaining_hop_frames / hop + 1`
   cannot overflow in the model.  Slicing `&s[..n]` / `&s[n..]` and the usize
   subtraction are modelled with their panics (Base/Res.v). *)
Require Import List Arith.
From Dasp Require Import Base.Res.
Import ListNotations.

(* ------------------------------------------------------------------------- *)
(* Windower: the chunk schedule                                               *)

Section Windower.
Context {A : Type}.

(* `&s[..n]` and `&s[n..]`: panic when n > len *)
Definition slice_to (l : list A) (n : nat) : res (list A) :=
  if n <=? length l then Ok (firstn n l) else Panic PIndex.
Definition slice_from (l : list A) (n : nat) : res (list A) :=
  if n <=? length l then Ok (skipn n l) else Panic PIndex.
(* usize `a - b` (panics on underflow with overflow checks; the theorems prove it does not happen) *)
Definition usub (a b : nat) : res nat :=
  if b <=? a then Ok (a - b) else Panic POverflow.

(* struct Windower { bin, hop, frames: &[F] } *)
Record windower := mkW { bin : nat; hop : nat; frames : list A }.

(* Windower::new *)
Definition w_new (fr : list A) (b h : nat) : windower := mkW b h fr.

(* Iterator::next for Windower.  The yielded item is
   Windowed { signal: from_iter(frames[..bin].iter().cloned()), window: Window::new(bin) };
   the model returns the slice `frames[..bin]`; [windowed_of] below builds the Windowed from it.
     let num_frames = self.frames.len();
     if self.bin <= num_frames {
         let frames = &self.frames[..self.bin];
         let window = Window::new(self.bin);
         self.frames = if self.hop < num_frames { &self.frames[self.hop..] } else { &[] };
         Some(..)
     } else { None } *)
Definition w_next (w : windower) : res (option (list A * windower)) :=
  let num_frames := length (frames w) in
  if bin w <=? num_frames then
    let* chunk := slice_to (frames w) (bin w) in
    let* rest := (if hop w <? num_frames then slice_from (frames w) (hop w) else Ok []) in
    Ok (Some (chunk, mkW (bin w) (hop w) rest))
  else Ok None.

(* Iterator::size_hint.  (usize::MAX, None) is [HintForever].
     let num_frames = self.frames.len();
     if self.bin <= num_frames {
         if self.hop == 0 { return (core::usize::MAX, None); }
         let remaining_hop_frames = self.frames.len() - self.bin;
         let remaining_iterations = remaining_hop_frames / self.hop + 1;
         (remaining_iterations, Some(remaining_iterations))
     } else { (0, Some(0)) } *)
Inductive hint := Hint (lo : nat) (hi : option nat) | HintForever.

Definition w_size_hint (w : windower) : res hint :=
  let num_frames := length (frames w) in
  if bin w <=? num_frames then
    if hop w =? 0 then Ok HintForever
    else
      let* remaining_hop_frames := usub (length (frames w)) (bin w) in
      let remaining_iterations := remaining_hop_frames / hop w + 1 in
      Ok (Hint remaining_iterations (Some remaining_iterations))
  else Ok (Hint 0 (Some 0)).

(* Calling next until it returns None (at most [fuel] times): the chunks in the
   order yielded and the state in which the iteration stopped. *)
Fixpoint w_drain (fuel : nat) (w : windower) : res (list (list A) * windower) :=
  match fuel with
  | 0 => Ok ([], w)
  | S f =>
    let* r := w_next w in
    match r with
    | None => Ok ([], w)
    | Some (c, w') => let* r' := w_drain f w' in Ok (c :: fst r', snd r')
    end
  end.

(* the state after j calls of next (None when the iterator ended before) *)
Fixpoint w_after (j : nat) (w : windower) : res (option windower) :=
  match j with
  | 0 => Ok (Some w)
  | S k =>
    let* r := w_next w in
    match r with
    | None => Ok None
    | Some (_, w') => w_after k w'
    end
  end.

(* ---- the provided Iterator methods (Windower overrides none of them): their default
   definitions in core::iter, in terms of repeated next ---- *)

(* Iterator::nth(k): advance_by(k) — k calls of next, stopping at the first None — then next *)
Fixpoint w_nth (k : nat) (w : windower) : res (option (list A) * windower) :=
  match k with
  | 0 => let* r := w_next w in
         Ok (match r with None => (None, w) | Some (c, w') => (Some c, w') end)
  | S k' =>
    let* r := w_next w in
    match r with
    | None => Ok (None, w)
    | Some (_, w') => w_nth k' w'
    end
  end.

(* Iterator::last = fold(None, |_, x| Some(x)); Iterator::count = fold(0, |n, _| n + 1);
   collect / fold / for_each: every item in order.  [fuel] bounds the number of next calls. *)
Definition w_last (fuel : nat) (w : windower) : res (option (list A) * windower) :=
  let* r := w_drain fuel w in Ok (last (map Some (fst r)) None, snd r).
Definition w_count (fuel : nat) (w : windower) : res (nat * windower) :=
  let* r := w_drain fuel w in Ok (length (fst r), snd r).

(* StepBy<I>::next: the first call is iter.nth(0) (= next), every later one iter.nth(step - 1);
   Skip<I>::next: the first call is iter.nth(k);
   step_by(k).take(t) collected *)
Fixpoint w_step_by_rest (k t : nat) (w : windower) : res (list (list A) * windower) :=
  match t with
  | 0 => Ok ([], w)
  | S t' =>
    let* r := w_nth (k - 1) w in
    match r with
    | (None, w') => Ok ([], w')
    | (Some c, w') => let* r' := w_step_by_rest k t' w' in Ok (c :: fst r', snd r')
    end
  end.
Definition w_step_by_take (k t : nat) (w : windower) : res (list (list A) * windower) :=
  match t with
  | 0 => Ok ([], w)
  | S t' =>
    let* r := w_next w in
    match r with
    | None => Ok ([], w)
    | Some (c, w') => let* r' := w_step_by_rest k t' w' in Ok (c :: fst r', snd r')
    end
  end.

End Windower.
Arguments windower A : clear implicits.

(* ------------------------------------------------------------------------- *)
(* Phase<ConstHz>, Window, the window functions: one model, two arithmetics   *)

(* the operations of f64 the window code uses; instantiated with Coq's R
   (WindowR.v) and with IEEE binary64 (WindowRun.v) *)
Record arith := mkArith {
  T : Type;
  zero : T; half : T; one : T;
  pi2 : T;                         (* core::f64::consts::PI * 2.0 *)
  add : T -> T -> T; sub : T -> T -> T; mul : T -> T -> T; div : T -> T -> T;
  rem : T -> T -> T;               (* Rust `%` *)
  of_usize : nat -> T;             (* `len as f64` *)
}.

Section Phase.
Variable N : arith.
Notation T := (T N).

(* Phase<ConstHz> { step: ConstHz { step }, next } *)
Record phase := mkPhase { step : T; nxt : T }.

(* Window::new(len):  rate(len as f64 - 1.0).const_hz(1.0)  =  ConstHz { step: 1.0 / (len as f64 - 1.0) };
   phase(step) = Phase { step, next: 0.0 } *)
Definition window_new (len : nat) : phase :=
  mkPhase (div N (one N) (sub N (of_usize N len) (one N))) (zero N).

(* Phase::next_phase = next_phase_wrapped_to(1.0):
     let phase = self.next; self.next = (self.next + self.step.step()) % rem; phase *)
Definition next_phase (p : phase) : T * phase :=
  (nxt p, mkPhase (step p) (rem N (add N (nxt p) (step p)) (one N))).

(* the i-th phase yielded, and the first m phases *)
Fixpoint phase_at (i : nat) (p : phase) : T :=
  match i with 0 => fst (next_phase p) | S k => phase_at k (snd (next_phase p)) end.

Fixpoint phases (m : nat) (p : phase) : list T :=
  match m with 0 => [] | S k => fst (next_phase p) :: phases k (snd (next_phase p)) end.

(* Hann::window::<f64>(phase): the conversions to_float_sample / to_sample::<f64> are identities on f64
     let v = phase * PI_2;  0.5 * (1.0 - cos(v))
   [cosf] is libm's cos. *)
Definition hann (cosf : T -> T) (p : T) : T :=
  mul N (half N) (sub N (one N) (cosf (mul N p (pi2 N)))).

(* Rectangle::window::<f64>(_phase) = f64::IDENTITY = 1.0 *)
Definition rect (_ : T) : T := one N.

End Phase.
Arguments step {N} p.
Arguments nxt {N} p.

(* ------------------------------------------------------------------------- *)
(* Window iterator and Windowed, generic in the frame arithmetic               *)

Section Windowed.
Variable N : arith.
Variable wfun : T N -> T N.          (* the window function W::window on f64 phases *)

Variable Smp : Type.                  (* sample type of the signal's frames *)
Variable FS : Type.                  (* its Float companion (f32 or f64) *)
Variable conv : T N -> FS.           (* f64 -> S::Float  (`v.to_sample()`) *)
Variable smul : Smp -> FS -> Smp.        (* Sample::mul_amp *)
Variable equilibrium : Smp.
Variable nch : nat.                  (* number of channels *)

(* Window<F::Float-frame, W>::next:
     let v = W::window(self.phase.next_phase());
     let v_f = v.to_sample();  Some(F::from_fn(|_| v_f.to_sample()))   (never None) *)
Definition window_next (p : phase N) : list FS * phase N :=
  let r := next_phase N p in
  (repeat (conv (wfun (fst r))) nch, snd r).

(* Frame::mul_amp = zip_map(other, Sample::mul_amp) *)
Definition frame_mul_amp (fr : list Smp) (w : list FS) : list Smp :=
  map (fun sw => smul (fst sw) (snd sw)) (combine fr w).

(* FromIterator { iter, next }: from_iter pulls the first item eagerly *)
Record from_iter := mkFI { fi_next : option (list Smp); fi_iter : list (list Smp) }.
Definition from_iter_new (l : list (list Smp)) : from_iter :=
  match l with [] => mkFI None [] | x :: t => mkFI (Some x) t end.
Definition signal_next (s : from_iter) : list Smp * from_iter :=
  match fi_next s with
  | Some fr => (fr, match fi_iter s with [] => mkFI None [] | x :: t => mkFI (Some x) t end)
  | None => (repeat equilibrium nch, s)
  end.

(* Windowed { signal, window } *)
Record windowed := mkWd { wd_signal : from_iter; wd_window : phase N }.

Definition windowed_of (chunk : list (list Smp)) (b : nat) : windowed :=
  mkWd (from_iter_new chunk) (window_new N b).

(* Windowed::next: self.window.next().map(|w_f| { let s_f = self.signal.next(); s_f.mul_amp(w_f) }) *)
Definition windowed_next (x : windowed) : list Smp * windowed :=
  let (w_f, win') := window_next (wd_window x) in
  let (s_f, sig') := signal_next (wd_signal x) in
  (frame_mul_amp s_f w_f, mkWd sig' win').

Fixpoint windowed_take (m : nat) (x : windowed) : list (list Smp) :=
  match m with
  | 0 => []
  | S k => let r := windowed_next x in fst r :: windowed_take k (snd r)
  end.

End Windowed.
