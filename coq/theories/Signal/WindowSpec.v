(* C20 — what the property says about the chunk schedule, as plain functions. *)
Require Import List Arith.
Import ListNotations.

(* number of chunks a windower over L frames with bin b and hop h yields *)
Definition chunk_count (L b h : nat) : nat := if b <=? L then (L - b) / h + 1 else 0.

(* frames s .. s+n-1 *)
Definition slice {A} (l : list A) (s n : nat) : list A := firstn n (skipn s l).

(* the chunks, in order: chunk k covers frames k*h .. k*h+b-1 *)
Definition chunks_spec {A} (fr : list A) (b h : nat) : list (list A) :=
  map (fun k => slice fr (k * h) b) (seq 0 (chunk_count (length fr) b h)).
