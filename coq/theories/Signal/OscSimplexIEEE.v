(* The simplex-noise bound for the ROUNDED evaluation: the IEEE-754 binary64 instance of
   simplex_noise_1d (Signal/Osc.v at NumF64: every + - * is Flocq's Bplus/Bminus/Bmult, round to
   nearest even; floor is Bnearbyint mode_DN; `as i64` is the saturating truncation) returns a finite
   value in [-1, 1] for every finite argument in [-2^63, 2^63), the range on which `as i64` does not
   saturate (beyond it x0 is huge and x0*x0 overflows) -- in particular for every phase in [0, 65536) that Phase::next_phase_wrapped_to(65536.0) hands it -- and hence every frame
   of every NoiseSimplex run on a public step source outside the known class K1.

   Route: (1) floor / `as i64` / `i0 as f64` are exact, so x0 = rnd (x - floor x) is a float in [0, 1];
   (2) the gradient 1.0 + (h & 7) as f64, negated or not, is an exact float in +-{1..8};
   (3) every later operation has an exact result bounded by 16, so it is finite and equals the
   rounding of the exact result (FloatFacts.*_between); (4) the resulting real expression with
   explicit roundings is bounded by Interval (OscSimplexRnd.simplex_core_rnd);
   (5) the last rounding is monotone and +-1 are floats. *)
Require Import Floats.SpecFloat.
Require Import ZArith Reals Lia Lra Psatz Bool List.
From Flocq Require Import Core BinarySingleNaN.
From Dasp Require Import Base.Float Base.FloatLemmas Signal.OscNum Signal.Osc Signal.FloatFacts
  Signal.OscProofs Signal.OscFloatProofs Signal.OscFloatRuns Signal.OscSimplexRnd.
From DaspGen Require Import SimplexTable.
Import ListNotations.
Open Scope R_scope.

(* --- real-number bounds of the exact results ------------------------------------------- *)
Lemma sq_unit (a : R) : -1 <= a <= 1 -> 0 <= a * a <= 1.
Proof. intros H. nra. Qed.
Lemma mul_unit (a b : R) : 0 <= a <= 1 -> 0 <= b <= 1 -> 0 <= a * b <= 1.
Proof. intros Ha Hb. nra. Qed.
Lemma mul_8 (a b : R) : -8 <= a <= 8 -> -1 <= b <= 1 -> -8 <= a * b <= 8.
Proof. intros Ha Hb. nra. Qed.

(* --- the literal 0.395 ------------------------------------------------------------------ *)
Lemma scale_val : fin (nscale F) /\ B2R (nscale F) = scale64.
Proof.
  split; [vm_compute; reflexivity|].
  rewrite <- SF2R_B2SF.
  replace (B2SF (nscale F)) with (S754_finite false 7115687411245384 (-54)) by (vm_compute; reflexivity).
  unfold SF2R, F2R, scale64. simpl. lra.
Qed.

(* --- floor, `as i64`, `as f64` ---------------------------------------------------------- *)
Definition two63 : Z := 9223372036854775808.

(* an integer that is a binary64 number converts exactly *)
Lemma f64_ofZ_fmt (z : Z) : fmt64 (IZR z) -> Rabs (IZR z) < bpow radix2 1024 ->
  fin (F64.of_Z z) /\ B2R (F64.of_Z z) = IZR z.
Proof.
  intros Hf Hb. unfold F64.of_Z, gof_Z.
  pose proof (@binary_normalize_correct 53 1024 p53 pe53 mode_NE z 0 false) as H.
  cbv zeta in H. simpl round_mode in H.
  assert (E : F2R (Float radix2 z 0) = IZR z) by (unfold F2R; simpl; ring).
  rewrite E in H. rewrite round_generic in H; auto with typeclass_instances.
  rewrite Rlt_bool_true in H by exact Hb.
  destruct H as (H1 & H2 & _). auto.
Qed.

(* on the range where `as i64` does not saturate: floor is exact, the cast returns it, and converting it
   back (`i0 as f64`) is exact because the floor of a float is a float *)
Lemma floor_i64 (x : f64) : fin x -> - IZR two63 <= B2R x < IZR two63 ->
  nto_i64 F (nfloor F x) = Zfloor (B2R x) /\
  fin (F64.of_Z (Zfloor (B2R x))) /\ B2R (F64.of_Z (Zfloor (B2R x))) = IZR (Zfloor (B2R x)).
Proof.
  intros Fx Hx. cbn [NumF64 nto_i64 nfloor]. unfold F64.to_Z_sat, F64.floor, gfloor.
  destruct (Bnearbyint_correct 53 1024 pe53 mode_DN x) as (V & Ff & _).
  rewrite Fx in Ff. cbn [round_mode] in V. rewrite round_FIX_IZR in V.
  rewrite (to_Z_sat_finite 53 1024 pe53 _ _ _ Ff). rewrite V, Ztrunc_IZR.
  assert (Hz : (- two63 <= Zfloor (B2R x) < two63)%Z).
  { split.
    - apply Zfloor_lub. rewrite opp_IZR. lra.
    - apply lt_IZR. eapply Rle_lt_trans; [apply Zfloor_lb|lra]. }
  split; [unfold i64_min, i64_max, two63 in *; lia|].
  apply f64_ofZ_fmt.
  - rewrite <- V. apply generic_format_B2R.
  - rewrite <- abs_IZR. apply Rlt_le_trans with (IZR (2 ^ 64)); [apply IZR_lt; unfold two63 in Hz; lia|].
    change 2%Z with (radix_val radix2). rewrite IZR_Zpower by lia. apply bpow_le. lia.
Qed.

(* x0 = x - i0 as f64 : a float in [0, 1] *)
Lemma residual_ok (x : f64) : fin x -> - IZR two63 <= B2R x < IZR two63 ->
  let x0 := nsub F x (nof_Z F (nto_i64 F (nfloor F x))) in
  fin x0 /\ 0 <= B2R x0 <= 1.
Proof.
  intros Fx Hx. destruct (floor_i64 x Fx Hx) as (-> & Fi & Vi). cbv zeta. cbn [NumF64 nsub nof_Z].
  destruct (f64_sub_Z x (F64.of_Z (Zfloor (B2R x))) 0 1 Fx Fi) as (Fs & _ & Hs); [simpl; lia|simpl; lia| |].
  - rewrite Vi. pose proof (Zfloor_lb (B2R x)). pose proof (Zfloor_ub (B2R x)). lra.
  - split; [exact Fs|exact Hs].
Qed.

(* --- the gradient ------------------------------------------------------------------------ *)
Lemma grad_F (h0 : Z) (x : f64) :
  exists g : f64, fin g /\ -8 <= B2R g <= 8 /\ grad F h0 x = F64.mul g x.
Proof.
  unfold grad. cbn [NumF64 nadd nmul nneg nof_Z].
  set (k := Z.land (Z.land h0 15) 7).
  assert (Hk : (0 <= k <= 7)%Z).
  { unfold k. change 7%Z with (Z.ones 3). rewrite Z.land_ones by lia.
    pose proof (Z.mod_pos_bound (Z.land h0 15) (2 ^ 3) ltac:(reflexivity)). change (2 ^ 3)%Z with 8%Z in *. change (Z.ones 3) with 7%Z. lia. }
  destruct (f64_ofZ 1) as (F1 & V1); [simpl; lia|].
  destruct (f64_ofZ k) as (Fk & Vk); [change (2 ^ 53)%Z with 9007199254740992%Z; lia|].
  assert (H0 : 0 <= IZR k) by (apply IZR_le; lia).
  assert (H7 : IZR k <= 7) by (apply IZR_le; lia).
  destruct (f64_add_Z (F64.of_Z 1) (F64.of_Z k) 1 8 F1 Fk) as (Fa & _ & Ha); [simpl; lia|simpl; lia|rewrite V1, Vk; lra|].
  destruct (Z.land (Z.land h0 15) 8 =? 0)%Z.
  - exists (F64.add (F64.of_Z 1) (F64.of_Z k)). split; [exact Fa|]. split; [lra|reflexivity].
  - exists (F64.neg (F64.add (F64.of_Z 1) (F64.of_Z k))). unfold F64.neg, gneg.
    split; [rewrite is_finite_Bopp; exact Fa|]. split; [rewrite B2R_Bopp; lra|reflexivity].
Qed.

(* --- one corner -------------------------------------------------------------------------- *)
Definition corner_F (x g : f64) : f64 :=
  let t := F64.sub (F64.of_Z 1) (F64.mul x x) in
  let t := F64.mul t t in
  F64.mul (F64.mul t t) (F64.mul g x).

Lemma corner_F_ok (x g : f64) : fin x -> -1 <= B2R x <= 1 -> fin g -> -8 <= B2R g <= 8 ->
  fin (corner_F x g) /\ B2R (corner_F x g) = corner_rnd (B2R x) (B2R g) /\ -8 <= B2R (corner_F x g) <= 8.
Proof.
  intros Fx Hx Fg Hg. unfold corner_F, corner_rnd. cbv zeta.
  destruct (f64_ofZ 1) as (Fo & Vo); [simpl; lia|].
  destruct (f64_mul_Z x x 0 1 Fx Fx) as (F1 & V1 & H1); [simpl; lia|simpl; lia|apply sq_unit; exact Hx|].
  destruct (f64_sub_Z (F64.of_Z 1) (F64.mul x x) 0 1 Fo F1) as (F2 & V2 & H2); [simpl; lia|simpl; lia|rewrite Vo; lra|].
  set (t := F64.sub (F64.of_Z 1) (F64.mul x x)) in *.
  destruct (f64_mul_Z t t 0 1 F2 F2) as (F3 & V3 & H3); [simpl; lia|simpl; lia|apply mul_unit; exact H2|].
  set (t2 := F64.mul t t) in *.
  destruct (f64_mul_Z t2 t2 0 1 F3 F3) as (F4 & V4 & H4); [simpl; lia|simpl; lia|apply mul_unit; exact H3|].
  destruct (f64_mul_Z g x (-8) 8 Fg Fx) as (F5 & V5 & H5); [simpl; lia|simpl; lia|apply mul_8; assumption|].
  destruct (f64_mul_Z (F64.mul t2 t2) (F64.mul g x) (-8) 8 F4 F5) as (F6 & V6 & H6);
    [simpl; lia|simpl; lia|rewrite Rmult_comm; apply mul_8; lra|].
  split; [exact F6|]. split; [|exact H6].
  rewrite V6, V4, V5, V3, V2, V1, Vo. reflexivity.
Qed.

(* --- the whole function ------------------------------------------------------------------ *)
Theorem simplex_ieee (x : f64) : fin x -> - IZR two63 <= B2R x < IZR two63 ->
  fin (simplex_noise_1d F x) /\ -1 <= B2R (simplex_noise_1d F x) <= 1.
Proof.
  intros Fx Hx. unfold simplex_noise_1d.
  destruct (residual_ok x Fx Hx) as (F0 & H0). cbv zeta in F0, H0.
  set (i0 := nto_i64 F (nfloor F x)) in *.
  set (x0 := nsub F x (nof_Z F i0)) in *.
  destruct (f64_ofZ 1) as (Fo & Vo); [simpl; lia|].
  change (nof_Z F 1) with (F64.of_Z 1).
  destruct (f64_sub_Z x0 (F64.of_Z 1) (-1) 0 F0 Fo) as (F1 & V1 & H1); [simpl; lia|simpl; lia|rewrite Vo; lra|].
  change (nsub F x0 (F64.of_Z 1)) with (F64.sub x0 (F64.of_Z 1)).
  set (x1 := F64.sub x0 (F64.of_Z 1)) in *.
  destruct (grad_F (hash i0) x0) as (g0 & Fg0 & Hg0 & ->).
  destruct (grad_F (hash (i0 + 1)) x1) as (g1 & Fg1 & Hg1 & ->).
  cbn [NumF64 nsub nmul nadd].
  change (F64.mul (F64.mul (F64.mul (F64.sub (F64.of_Z 1) (F64.mul x0 x0)) (F64.sub (F64.of_Z 1) (F64.mul x0 x0)))
                           (F64.mul (F64.sub (F64.of_Z 1) (F64.mul x0 x0)) (F64.sub (F64.of_Z 1) (F64.mul x0 x0))))
                  (F64.mul g0 x0)) with (corner_F x0 g0).
  change (F64.mul (F64.mul (F64.mul (F64.sub (F64.of_Z 1) (F64.mul x1 x1)) (F64.sub (F64.of_Z 1) (F64.mul x1 x1)))
                           (F64.mul (F64.sub (F64.of_Z 1) (F64.mul x1 x1)) (F64.sub (F64.of_Z 1) (F64.mul x1 x1))))
                  (F64.mul g1 x1)) with (corner_F x1 g1).
  destruct (corner_F_ok x0 g0 F0 ltac:(lra) Fg0 Hg0) as (Fn0 & Vn0 & Hn0).
  destruct (corner_F_ok x1 g1 F1 ltac:(lra) Fg1 Hg1) as (Fn1 & Vn1 & Hn1).
  destruct (f64_add_Z (corner_F x0 g0) (corner_F x1 g1) (-16) 16 Fn0 Fn1) as (Fs & Vs & Hs); [simpl; lia|simpl; lia|lra|].
  destruct scale_val as (Fc & Vc). change (nscale NumF64) with (nscale F).
  assert (Hcore : -1 <= B2R (nscale F) * B2R (F64.add (corner_F x0 g0) (corner_F x1 g1)) <= 1).
  { rewrite Vc, Vs, Vn0, Vn1, V1, Vo. apply (simplex_core_rnd (B2R x0) (B2R g0) (B2R g1)); assumption. }
  destruct (f64_mul_Z (nscale F) (F64.add (corner_F x0 g0) (corner_F x1 g1)) (-1) 1 Fc Fs) as (Fm & _ & Hm);
    [simpl; lia|simpl; lia|exact Hcore|].
  split; [exact Fm|exact Hm].
Qed.

(* the phases the signal feeds: [0, 65536) *)
Corollary simplex_ieee_phase (x : f64) : fin x -> 0 <= B2R x < 65536 ->
  fin (simplex_noise_1d F x) /\ -1 <= B2R (simplex_noise_1d F x) <= 1.
Proof.
  intros Fx Hx. apply simplex_ieee; [exact Fx|]. unfold two63. lra.
Qed.

(* --- every frame of every NoiseSimplex run ------------------------------------------------- *)
Theorem simplex_run_range (s : step_src F) (n : nat) : PublicSrc s -> ~ KnownClass_K1 s ->
  Forall UnitRange (fst (run F (simplex_next F) (phase_new F s) n)).
Proof.
  intros Hp NK. rewrite (run_ext F _ _ (simplex_is_osc F)). rewrite run_osc. simpl fst. apply Forall_map.
  pose proof (phase_range_all s simplex_wrap n Hp NK ltac:(unfold simplex_wrap; lia)) as H.
  eapply Forall_impl; [|exact H]. intros ph (Fp & Hr). unfold simplex_wrap in Hr.
  apply simplex_ieee_phase; assumption.
Qed.
