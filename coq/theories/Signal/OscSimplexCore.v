(* The polynomial inequality behind the simplex-noise bound, by Interval (bisection + Taylor models).
   Kept in its own file: it takes ~25 s to check. *)
Require Import Reals.
From Interval Require Import Tactic.
Open Scope R_scope.

Lemma simplex_core (x0 g0 g1 : R) : 0 <= x0 <= 1 -> -8 <= g0 <= 8 -> -8 <= g1 <= 8 ->
  -1 <= 79 / 200 * (((1 - x0 * x0) * (1 - x0 * x0)) * ((1 - x0 * x0) * (1 - x0 * x0)) * (g0 * x0)
     + ((1 - (x0 - 1) * (x0 - 1)) * (1 - (x0 - 1) * (x0 - 1))) * ((1 - (x0 - 1) * (x0 - 1)) * (1 - (x0 - 1) * (x0 - 1))) * (g1 * (x0 - 1))) <= 1.
Proof.
  intros H0 H1 H2.
  interval with (i_bisect x0, i_taylor x0, i_degree 8, i_prec 40).
Qed.

