(* Executable instance of the GENERATED Fork model (gen/ForkGen.v through Signal/ForkGenGlue.v, ring buffer built
   through the generated ring methods of gen/RingGen.v) on the cases and with the observation encoding of
   Signal/ForkRun.v.  Used by lib/props/c12.py as the search when the translator tie breaks: the regenerated model
   against the crate's observations and against the hand model.  Depends on the generated files and the glue only (not on
   the equivalence proofs), so it still runs when those break. *)
Require Import List ZArith Bool Arith.
From Dasp Require Import Base.Res Base.ListX Ring.Bounded Ring.RingPrim Signal.SigGenPrim Signal.Fork Signal.ForkSpec
  Signal.ForkRun Signal.ForkGenGlue.
From DaspGen Require Import RingGen ForkGen.
Import ListNotations.
Open Scope Z_scope.

Notation gfz := (fork_g (source zframe) zframe).

Fixpoint gzrun (rc : bool) (f : gfz) (ops : list zfop) : list (list Z) :=
  match ops with
  | [] => []
  | o :: t => match gen_fstep (@src_next zframe) (@pulls zframe) rc f (to_fop o) with
              | Ok (rc', f', v) => enc o v :: gzrun rc' f' t
              | Panic k => [[8; zn (panic_code k)]]
              | UB => [[-2]]
              end
  end.

(* Bounded::from_raw_parts, signal.fork(ring_buffer), the first split fork.by_ref(), then the operations *)
Definition gen_run_case (c : fcase) : list (list Z) :=
  match c with
  | FCase nch cap start len0 fin ops =>
    let filler := if nch =? 1 then [-7] else [-7; -7] in
    match (let* rb := Bounded_from_raw_parts (n start) (n len0) (repeat filler (n cap)) in
           let* f := Signal_fork {| sfn := src_fn nch fin; pulls := 0%nat |} rb in
           let* (_, (a, _)) := Fork_by_ref f in
           let* pa := g_pending false BrA a in
           let* pb := g_pending false BrB a in
           Ok (a, [0; zn (pulls (fg_signal a)); zn pa; zn pb])) with
    | Ok (st, first) => first :: gzrun false st ops
    | Panic k => [[8; zn (panic_code k)]]
    | UB => [[-2]]
    end
  end.

(* the regenerated model against the crate's observations *)
Definition check_gen (c : fcase * list (list Z)) : bool := zll_eqb (gen_run_case (fst c)) (snd c).
(* the regenerated model against the hand model (the observations are ignored) *)
Definition agree_gen (c : fcase * list (list Z)) : bool := zll_eqb (gen_run_case (fst c)) (run_case (fst c)).
Definition both_gen (c : fcase * list (list Z)) : bool := check_gen c && agree_gen c.
