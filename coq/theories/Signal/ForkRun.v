(* Executable instance of the Fork model over Z-valued frames, with the observation
   encoding of harness/src/bin/c12.rs; evaluated by coqc on the correspondence cases. *)
Require Import List ZArith Bool Arith.
From Dasp Require Import Base.Res Base.ListX Ring.Bounded Ring.BoundedSpec Signal.Fork Signal.ForkSpec.
Import ListNotations.
Open Scope Z_scope.

Inductive zfop := ZNext (x : Z) | ZPend (x : Z) | ZExh (x : Z) | ZByRef | ZByRc.

Definition n (z : Z) : nat := Z.to_nat z.
Definition zn (k : nat) : Z := Z.of_nat k.
Definition br (x : Z) : bool := negb (x =? 0).    (* 1 = branch A, 0 = branch B *)

Definition to_fop (o : zfop) : fop :=
  match o with
  | ZNext x => ONext (br x) | ZPend x => OPending (br x) | ZExh x => OExhausted (br x)
  | ZByRef => OByRef | ZByRc => OByRc
  end.

(* A frame is the list of its channels.  Source frame number i (0-based) is i+1 on channel 0
   and -(i+1) on channel 1; a finite source of [fin] frames (signal::from_iter) yields the
   equilibrium frame afterwards; fin < 0 means an endless source. *)
Definition zframe : Type := list Z.
Definition src_fn (nch fin : Z) (i : nat) : zframe :=
  let v := if (0 <=? fin) && (fin <=? zn i) then 0 else zn i + 1 in
  if nch =? 1 then [v] else [v; - v].

Definition enc (o : zfop) (v : fobs zframe) : list Z :=
  match v with
  | (val, p, ca, cb) =>
    let tail := [zn p; zn ca; zn cb] in
    match val with
    | VFrame a => 1 :: a ++ tail
    | VCount k => 2 :: zn k :: tail
    | VFlag b => 5 :: (if b then 1 else 0) :: tail
    | VUnit => (match o with ZByRc => 4 | _ => 3 end) :: tail
    end
  end.

Fixpoint zrun (f : shared zframe) (ops : list zfop) : list (list Z) :=
  match ops with
  | [] => []
  | o :: t => match fstep f (to_fop o) with
              | Ok (f', v) => enc o v :: zrun f' t
              | Panic k => [[8; zn (panic_code k)]]
              | UB => [[-2]]
              end
  end.

(* ring buffer Bounded::from_raw_parts(start, len0, storage of cap slots), source with
   pull counter 0, signal.fork(ring_buffer), then the operations *)
Inductive fcase := FCase (nch cap start len0 fin : Z) (ops : list zfop).

Definition run_case (c : fcase) : list (list Z) :=
  match c with
  | FCase nch cap start len0 fin ops =>
    let filler := if nch =? 1 then [-7] else [-7; -7] in
    match (let* rb := from_raw_parts (n start) (n len0) (repeat filler (n cap)) in
           fork {| sfn := src_fn nch fin; pulls := 0 |} rb) with
    | Ok st => [0; zn (pulls (signal st)); zn (pending_frames BrA st); zn (pending_frames BrB st)]
               :: zrun st ops
    | Panic k => [[8; zn (panic_code k)]]
    | UB => [[-2]]
    end
  end.

Definition zll_eqb (a b : list (list Z)) : bool :=
  if list_eq_dec (list_eq_dec Z.eq_dec) a b then true else false.

Definition check (c : fcase * list (list Z)) : bool := zll_eqb (run_case (fst c)) (snd c).
