(* Facts about Base/Float.v's generic operations (Flocq BinarySingleNaN, round to nearest even)
   used by the oscillator proofs: exactness of `%` for a non-negative dividend, interval
   transfer through one rounded operation, exact small integers. Generic in the format. *)
Require Import Floats.SpecFloat.
Require Import ZArith Reals Lia Lra Bool.
From Flocq Require Import Core BinarySingleNaN Div_sqrt_error.
From Dasp Require Import Base.Float.
Open Scope Z_scope.

Section G.
Variables prec emax : Z.
Context (prec_gt_0_ : Prec_gt_0 prec).
Context (prec_lt_emax_ : Prec_lt_emax prec emax).
Notation bf := (binary_float prec emax).
Notation emin := (3 - emax - prec)%Z.
Notation fexp := (FLT_exp emin prec).
Notation format := (generic_format radix2 fexp).
Notation rnd := (round radix2 fexp ZnearestE).
Notation add := (gadd prec emax prec_gt_0_ prec_lt_emax_).
Notation sub := (gsub prec emax prec_gt_0_ prec_lt_emax_).
Notation mul := (gmul prec emax prec_gt_0_ prec_lt_emax_).
Notation div := (gdiv prec emax prec_gt_0_ prec_lt_emax_).
Notation rem := (grem prec emax prec_gt_0_ prec_lt_emax_).
Notation ofZ := (gof_Z prec emax prec_gt_0_ prec_lt_emax_).

Lemma prec_pos : (0 < prec)%Z.
Proof. exact prec_gt_0_. Qed.
Lemma prec_emax : (prec < emax)%Z.
Proof. exact prec_lt_emax_. Qed.

Lemma fexp_is : SpecFloat.fexp prec emax = fexp.
Proof. reflexivity. Qed.

Lemma valid_fexp : Valid_exp fexp.
Proof. apply (@fexp_correct prec emax prec_gt_0_). Qed.

(* m * 2^e with |m| < 2^prec and e >= emin is a floating-point number *)
Lemma format_F2R_small (m e : Z) : (Z.abs m < 2 ^ prec)%Z -> (emin <= e)%Z -> format (IZR m * bpow radix2 e)%R.
Proof.
  intros Hm He. apply generic_format_FLT. exists (Float radix2 m e).
  - reflexivity.
  - exact Hm.
  - exact He.
Qed.

Lemma format_IZR_small (m : Z) : (Z.abs m < 2 ^ prec)%Z -> format (IZR m).
Proof.
  intros Hm. replace (IZR m) with (IZR m * bpow radix2 0)%R by (simpl; ring).
  apply format_F2R_small; [exact Hm|]. pose proof prec_pos. pose proof prec_emax. lia.
Qed.

Lemma pow_prec_lt_emax : (IZR (2 ^ prec) <= bpow radix2 emax)%R.
Proof.
  pose proof prec_pos. pose proof prec_emax.
  change 2%Z with (radix_val radix2). rewrite IZR_Zpower by lia. apply bpow_le. lia.
Qed.

(* rounding keeps a value between two floating-point bounds *)
Lemma rnd_between (lo hi v : R) : format lo -> format hi -> (lo <= v <= hi)%R -> (lo <= rnd v <= hi)%R.
Proof.
  intros Flo Fhi [H1 H2]. split.
  - apply round_ge_generic; auto with typeclass_instances.
  - apply round_le_generic; auto with typeclass_instances.
Qed.

Lemma Rabs_between (lo hi v b : R) : (lo <= v <= hi)%R -> (Rabs lo < b)%R -> (Rabs hi < b)%R -> (Rabs v < b)%R.
Proof.
  intros [H1 H2] Hl Hh. apply Rabs_def1.
  - apply Rle_lt_trans with hi; [exact H2|]. apply Rle_lt_trans with (Rabs hi); [apply RRle_abs|exact Hh].
  - apply Rlt_le_trans with lo; [|exact H1]. apply Rabs_def2 in Hl. tauto.
Qed.

Lemma ne_overflow (x : bf) (s : bool) : B2SF x = binary_overflow prec emax mode_NE s -> is_finite x = false.
Proof. unfold binary_overflow. simpl. destruct x; simpl; intros H; try reflexivity; discriminate. Qed.

Lemma bpow_emax_gt_1 : (1 < bpow radix2 emax)%R.
Proof.
  change 1%R with (bpow radix2 0). apply bpow_lt. pose proof prec_pos. pose proof prec_emax. lia.
Qed.

(* --- one rounded operation: value = rounding of the exact result, bounds transfer ------- *)
Lemma add_finite_val (x y : bf) : is_finite x = true -> is_finite y = true -> is_finite (add x y) = true ->
  B2R (add x y) = rnd (B2R x + B2R y).
Proof.
  intros Fx Fy Fs. unfold gadd in *.
  pose proof (@Bplus_correct prec emax prec_gt_0_ prec_lt_emax_ mode_NE x y Fx Fy) as H.
  match type of H with if ?c then _ else _ => destruct c end.
  - destruct H as (H1 & _). exact H1.
  - destruct H as (H1 & _). apply ne_overflow in H1. congruence.
Qed.

Lemma add_between (x y : bf) (lo hi : R) : is_finite x = true -> is_finite y = true ->
  format lo -> format hi -> (Rabs lo < bpow radix2 emax)%R -> (Rabs hi < bpow radix2 emax)%R ->
  (lo <= B2R x + B2R y <= hi)%R ->
  is_finite (add x y) = true /\ B2R (add x y) = rnd (B2R x + B2R y) /\ (lo <= B2R (add x y) <= hi)%R.
Proof.
  intros Fx Fy Flo Fhi Hlo Hhi Hv. unfold gadd.
  pose proof (@Bplus_correct prec emax prec_gt_0_ prec_lt_emax_ mode_NE x y Fx Fy) as H.
  pose proof (rnd_between _ _ _ Flo Fhi Hv) as Hr.
  simpl round_mode in H. rewrite Rlt_bool_true in H by (eapply Rabs_between; eauto).
  destruct H as (H1 & H2 & _). rewrite H1. auto.
Qed.

Lemma sub_between (x y : bf) (lo hi : R) : is_finite x = true -> is_finite y = true ->
  format lo -> format hi -> (Rabs lo < bpow radix2 emax)%R -> (Rabs hi < bpow radix2 emax)%R ->
  (lo <= B2R x - B2R y <= hi)%R ->
  is_finite (sub x y) = true /\ B2R (sub x y) = rnd (B2R x - B2R y) /\ (lo <= B2R (sub x y) <= hi)%R.
Proof.
  intros Fx Fy Flo Fhi Hlo Hhi Hv. unfold gsub.
  pose proof (@Bminus_correct prec emax prec_gt_0_ prec_lt_emax_ mode_NE x y Fx Fy) as H.
  pose proof (rnd_between _ _ _ Flo Fhi Hv) as Hr.
  simpl round_mode in H. rewrite Rlt_bool_true in H by (eapply Rabs_between; eauto).
  destruct H as (H1 & H2 & _). rewrite H1. auto.
Qed.

Lemma mul_between (x y : bf) (lo hi : R) : is_finite x = true -> is_finite y = true ->
  format lo -> format hi -> (Rabs lo < bpow radix2 emax)%R -> (Rabs hi < bpow radix2 emax)%R ->
  (lo <= B2R x * B2R y <= hi)%R ->
  is_finite (mul x y) = true /\ B2R (mul x y) = rnd (B2R x * B2R y) /\ (lo <= B2R (mul x y) <= hi)%R.
Proof.
  intros Fx Fy Flo Fhi Hlo Hhi Hv. unfold gmul.
  pose proof (@Bmult_correct prec emax prec_gt_0_ prec_lt_emax_ mode_NE x y) as H.
  pose proof (rnd_between _ _ _ Flo Fhi Hv) as Hr.
  simpl round_mode in H. rewrite Rlt_bool_true in H by (eapply Rabs_between; eauto).
  destruct H as (H1 & H2 & _). rewrite H1, H2, Fx, Fy. auto.
Qed.

Lemma div_between (x y : bf) (lo hi : R) : is_finite x = true -> B2R y <> 0%R ->
  format lo -> format hi -> (Rabs lo < bpow radix2 emax)%R -> (Rabs hi < bpow radix2 emax)%R ->
  (lo <= B2R x / B2R y <= hi)%R ->
  is_finite (div x y) = true /\ B2R (div x y) = rnd (B2R x / B2R y) /\ (lo <= B2R (div x y) <= hi)%R.
Proof.
  intros Fx Fy Flo Fhi Hlo Hhi Hv. unfold gdiv.
  pose proof (@Bdiv_correct prec emax prec_gt_0_ prec_lt_emax_ mode_NE x y Fy) as H.
  pose proof (rnd_between _ _ _ Flo Fhi Hv) as Hr.
  simpl round_mode in H. rewrite Rlt_bool_true in H by (eapply Rabs_between; eauto).
  destruct H as (H1 & H2 & _). rewrite H1, H2, Fx. auto.
Qed.

(* a finite quotient of a non-negative by a positive number is non-negative *)
Lemma div_finite_nonneg (x y : bf) : is_finite x = true -> is_finite y = true -> (0 <= B2R x)%R -> (0 < B2R y)%R ->
  is_finite (div x y) = true -> (0 <= B2R (div x y))%R.
Proof.
  intros Fx Fy Hx Hy Fd. unfold gdiv in *.
  assert (Hy0 : B2R y <> 0%R) by lra.
  pose proof (@Bdiv_correct prec emax prec_gt_0_ prec_lt_emax_ mode_NE x y Hy0) as H.
  match type of H with if ?c then _ else _ => destruct c end.
  - destruct H as (H1 & _). rewrite H1. change (0 <= rnd (B2R x / B2R y))%R.
    apply round_ge_generic; auto with typeclass_instances.
    + apply generic_format_0.
    + apply Rmult_le_pos; [exact Hx|]. apply Rlt_le, Rinv_0_lt_compat, Hy.
  - apply ne_overflow in H. congruence.
Qed.

(* small integers convert exactly *)
Lemma ofZ_exact (z : Z) : (Z.abs z < 2 ^ prec)%Z -> is_finite (ofZ z) = true /\ B2R (ofZ z) = IZR z.
Proof.
  intros Hz. unfold gof_Z.
  pose proof (@binary_normalize_correct prec emax prec_gt_0_ prec_lt_emax_ mode_NE z 0 false) as H.
  cbv zeta in H. simpl round_mode in H.
  assert (E : F2R (Float radix2 z 0) = IZR z) by (unfold F2R; simpl; ring).
  rewrite E in H. rewrite round_generic in H; auto with typeclass_instances.
  2: apply format_IZR_small; exact Hz.
  rewrite Rlt_bool_true in H.
  - destruct H as (H1 & H2 & _). auto.
  - rewrite <- abs_IZR. eapply Rlt_le_trans; [apply IZR_lt, Hz|]. apply pow_prec_lt_emax.
Qed.

Lemma finite_nonneg_sign (x : bf) : is_finite x = true -> Bsign x = false -> (0 <= B2R x)%R.
Proof.
  destruct x as [s|s| |s m e B]; simpl; intros F S; try lra; try discriminate.
  subst s. apply F2R_ge_0. simpl. lia.
Qed.

(* --- `%` : exact for a non-negative dividend and a positive divisor ------------------- *)
Lemma rem_correct (x y : bf) : is_finite x = true -> is_finite y = true -> (0 <= B2R x)%R -> (0 < B2R y)%R ->
  is_finite (rem x y) = true /\
  B2R (rem x y) = (B2R x - IZR (Zfloor (B2R x / B2R y)) * B2R y)%R /\
  (0 <= B2R (rem x y) < B2R y)%R.
Proof.
  intros Fx Fy Hx Hy.
  destruct y as [sy|sy| |sy my ey By]; simpl in Fy, Hy; try discriminate; try lra.
  destruct x as [sx|sx| |sx mx ex Bx]; simpl in Fx; try discriminate.
  - (* zero dividend *)
    simpl. split; [reflexivity|]. unfold Rdiv. rewrite Rmult_0_l. change 0%R with (IZR 0) at 2. rewrite Zfloor_IZR.
    split; [simpl; ring|]. simpl in Hy. lra.
  - destruct sx.
    { exfalso. simpl in Hx. pose proof (F2R_lt_0 radix2 (Float radix2 (Z.neg mx) ex)) as H. simpl in H.
      specialize (H ltac:(lia)). lra. }
    destruct sy.
    { exfalso. pose proof (F2R_lt_0 radix2 (Float radix2 (Z.neg my) ey)) as H. simpl in H.
      specialize (H ltac:(lia)). simpl in Hy. lra. }
    set (X := B754_finite false mx ex Bx). set (Y := B754_finite false my ey By).
    assert (FX : format (B2R X)) by apply generic_format_B2R.
    assert (FY : format (B2R Y)) by apply generic_format_B2R.
    unfold grem, X, Y. cbv zeta. fold X Y.
    set (e := Z.min ex ey). set (a := (Z.pos mx * 2 ^ (ex - e))%Z). set (b := (Z.pos my * 2 ^ (ey - e))%Z).
    assert (He1 : (0 <= ex - e)%Z) by (unfold e; lia).
    assert (He2 : (0 <= ey - e)%Z) by (unfold e; lia).
    assert (Ha : B2R X = (IZR a * bpow radix2 e)%R).
    { unfold X, a. unfold B2R, F2R. cbn [Fnum Fexp cond_Zopp]. rewrite mult_IZR. change 2%Z with (radix_val radix2).
      rewrite IZR_Zpower by exact He1. rewrite Rmult_assoc, <- bpow_plus. f_equal. f_equal. lia. }
    assert (Hb : B2R Y = (IZR b * bpow radix2 e)%R).
    { unfold Y, b. unfold B2R, F2R. cbn [Fnum Fexp cond_Zopp]. rewrite mult_IZR. change 2%Z with (radix_val radix2).
      rewrite IZR_Zpower by exact He2. rewrite Rmult_assoc, <- bpow_plus. f_equal. f_equal. lia. }
    assert (Hbpos : (0 < b)%Z) by (unfold b; apply Z.mul_pos_pos; [lia|apply Z.pow_pos_nonneg; lia]).
    assert (Hapos : (0 <= a)%Z) by (unfold a; apply Z.mul_nonneg_nonneg; [lia|apply Z.pow_nonneg; lia]).
    assert (Hq : (B2R X / B2R Y = IZR a / IZR b)%R).
    { rewrite Ha, Hb. field. split; apply Rgt_not_eq; first [apply bpow_gt_0 | apply (IZR_lt 0); exact Hbpos]. }
    assert (Hfl : Zfloor (B2R X / B2R Y) = (a / b)%Z) by (rewrite Hq; apply Zfloor_div; lia).
    assert (Hr : F2R (Float radix2 (a mod b) e) = (B2R X - IZR (Zfloor (B2R X / B2R Y)) * B2R Y)%R).
    { rewrite Hfl, Ha, Hb. unfold F2R. simpl. rewrite Z.mod_eq by lia. rewrite minus_IZR, mult_IZR. ring. }
    pose proof (Z.mod_pos_bound a b Hbpos) as Hmod.
    assert (Hrange : (0 <= F2R (Float radix2 (a mod b) e) < B2R Y)%R).
    { split.
      - apply F2R_ge_0. simpl. lia.
      - rewrite Hb. unfold F2R. simpl. apply Rmult_lt_compat_r; [apply bpow_gt_0|apply IZR_lt; lia]. }
    assert (Hfmt : format (F2R (Float radix2 (a mod b) e))).
    { rewrite Hr. rewrite <- (Ztrunc_floor (B2R X / B2R Y)).
      - apply format_REM_ZR; auto. apply valid_fexp. apply FLT_exp_monotone.
      - rewrite Hq. apply Rmult_le_pos; [apply IZR_le; exact Hapos|]. apply Rlt_le, Rinv_0_lt_compat, IZR_lt, Hbpos. }
    unfold gof_ZE.
    pose proof (@binary_normalize_correct prec emax prec_gt_0_ prec_lt_emax_ mode_NE (a mod b) e false) as H.
    cbv zeta in H. simpl round_mode in H.
    rewrite round_generic in H; auto with typeclass_instances.
    rewrite Rlt_bool_true in H.
    + destruct H as (H1 & H2 & _). split; [exact H2|]. rewrite H1. split; [exact Hr|exact Hrange].
    + rewrite Rabs_pos_eq by apply Hrange. eapply Rlt_trans; [apply Hrange|].
      eapply Rle_lt_trans; [apply RRle_abs|apply abs_B2R_lt_emax].
Qed.

Lemma rnd_nonneg (v : R) : (0 <= v)%R -> (0 <= rnd v)%R.
Proof. intros H. apply round_ge_generic; auto with typeclass_instances. apply generic_format_0. Qed.

Lemma rnd_format (v : R) : format v -> rnd v = v.
Proof. intros H. apply round_generic; auto with typeclass_instances. Qed.

(* adding a small non-negative number to a finite non-negative number never overflows:
   anything below half an ulp of the largest float is absorbed *)
Lemma rnd_sum_no_overflow (a b : R) :
  (0 <= a <= bpow radix2 emax - bpow radix2 (emax - prec))%R -> (0 <= b < bpow radix2 (emax - prec - 1))%R ->
  (Rabs (rnd (a + b)) < bpow radix2 emax)%R.
Proof.
  intros Ha Hb.
  pose proof prec_pos as P0. pose proof prec_emax as P1.
  set (u := pred radix2 fexp (bpow radix2 emax)).
  assert (Fe : fexp emax = (emax - prec)%Z) by (unfold FLT_exp; lia).
  assert (Hu : u = (bpow radix2 emax - bpow radix2 (emax - prec))%R) by (unfold u; rewrite pred_bpow, Fe; reflexivity).
  assert (Fb : format (bpow radix2 emax)) by (apply generic_format_bpow; unfold FLT_exp; lia).
  assert (Fu : format u) by (apply generic_format_pred; auto with typeclass_instances).
  assert (Su : succ radix2 fexp u = bpow radix2 emax) by (apply succ_pred; auto with typeclass_instances).
  assert (Hhalf : (bpow radix2 (emax - prec) = 2 * bpow radix2 (emax - prec - 1))%R).
  { replace (emax - prec)%Z with (1 + (emax - prec - 1))%Z at 1 by lia. rewrite bpow_plus. reflexivity. }
  assert (Hle : (rnd (a + b) <= u)%R).
  { apply round_N_le_midp; auto with typeclass_instances. rewrite Su. rewrite Hu at 1. lra. }
  assert (Hge : (0 <= rnd (a + b))%R).
  { apply round_ge_generic; auto with typeclass_instances. apply generic_format_0. lra. }
  rewrite Rabs_pos_eq by exact Hge. eapply Rle_lt_trans; [exact Hle|]. rewrite Hu.
  pose proof (bpow_gt_0 radix2 (emax - prec)). lra.
Qed.

Lemma B2R_le_max (x : bf) : (B2R x <= bpow radix2 emax - bpow radix2 (emax - prec))%R.
Proof. eapply Rle_trans; [apply RRle_abs|]. apply abs_B2R_le_emax_minus_prec. exact prec_gt_0_. Qed.

Lemma add_no_overflow (x y : bf) : is_finite x = true -> is_finite y = true ->
  (0 <= B2R x < bpow radix2 (emax - prec - 1))%R -> (0 <= B2R y)%R -> is_finite (add x y) = true.
Proof.
  intros Fx Fy Hx Hy. unfold gadd.
  pose proof (@Bplus_correct prec emax prec_gt_0_ prec_lt_emax_ mode_NE x y Fx Fy) as H.
  simpl round_mode in H. change (SpecFloat.fexp prec emax) with fexp in H.
  rewrite Rlt_bool_true in H; [tauto|].
  rewrite Rplus_comm. apply rnd_sum_no_overflow; [|exact Hx]. split; [exact Hy|apply B2R_le_max].
Qed.

End G.
