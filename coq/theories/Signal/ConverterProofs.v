(* Proofs about the converter model on the real-number instance (C08). *)
Require Import Reals List ZArith Lia Lra Bool Arith.
From Flocq Require Import Raux.
From Dasp Require Import Base.Res Signal.Converter Signal.ConvNumR.
Import ListNotations.
Open Scope R_scope.

(* ------------------------------------------------------------------ *)
(* arithmetic-independent facts: source, prefix, feed                  *)
Section Generic.
Context {N : Num} {Fm : Fmt N}.

Lemma src_at_0 (s : source Fm) : src_at s 0 = s.
Proof.
  destruct s as [r p i n]. unfold src_at. cbn [rest pulls iter_calls nch skipn].
  rewrite Nat.add_0_r. cbn [Nat.min]. rewrite Nat.add_0_r. reflexivity.
Qed.

Lemma skipn_nth_cons {A} (l : list A) k d : (k < length l)%nat -> skipn k l = nth k l d :: skipn (S k) l.
Proof.
  revert k; induction l as [|a l IH]; intros k H; cbn [length] in H; [lia|].
  destruct k; [reflexivity|]. cbn [skipn nth]. rewrite (IH k) by lia. reflexivity.
Qed.

Lemma src_next_at (s : source Fm) k : src_next (src_at s k) = (stream s k, src_at s (S k)).
Proof.
  unfold src_next, src_at, stream. cbn [rest pulls iter_calls nch].
  destruct (Nat.lt_ge_cases k (length (rest s))) as [H|H].
  - rewrite (skipn_nth_cons (rest s) k (equilibrium (nch s)) H).
    f_equal. f_equal; try lia.
  - rewrite (skipn_all2 (rest s)) by lia. rewrite (skipn_all2 (rest s)) by lia.
    rewrite nth_overflow by lia. f_equal. f_equal; lia.
Qed.

Lemma src_exhausted_at (s : source Fm) k : src_exhausted (src_at s k) = (length (rest s) <=? k)%nat.
Proof.
  unfold src_exhausted, src_at. cbn [rest].
  destruct (Nat.leb_spec (length (rest s)) k) as [H|H].
  - rewrite skipn_all2 by lia. reflexivity.
  - rewrite (skipn_nth_cons (rest s) k (equilibrium (nch s)) H). reflexivity.
Qed.

Lemma prefix_S (s : source Fm) m : prefix s (S m) = prefix s m ++ [stream s m].
Proof. unfold prefix. rewrite seq_S, map_app. reflexivity. Qed.

Lemma feed_prefix_S (i : interp Fm) (s : source Fm) m :
  feed i (prefix s (S m)) = next_source_frame (feed i (prefix s m)) (stream s m).
Proof. unfold feed. rewrite prefix_S, fold_left_app. reflexivity. Qed.

Lemma feed_floor (l : frame Fm) (s : source Fm) m :
  feed (IFloor l) (prefix s m) = IFloor (floor_seq l s m).
Proof.
  induction m as [|m IH]; [reflexivity|].
  rewrite feed_prefix_S, IH. reflexivity.
Qed.

Lemma feed_linear (a b : frame Fm) (s : source Fm) m :
  feed (ILinear a b) (prefix s m) = ILinear (linear_seq a b s m) (linear_seq a b s (S m)).
Proof.
  induction m as [|m IH]; [reflexivity|].
  rewrite feed_prefix_S, IH. destruct m; reflexivity.
Qed.

Lemma stream_beyond (s : source Fm) i : (length (rest s) <= i)%nat -> stream s i = equilibrium (nch s).
Proof. intros H. unfold stream. apply nth_overflow. exact H. Qed.

Lemma stream_inside (s : source Fm) i f : nth_error (rest s) i = Some f -> stream s i = f.
Proof. intros H. unfold stream. apply nth_error_nth. exact H. Qed.

Lemma nth_error_map_seq {A} (f : nat -> A) len n o :
  nth_error (map f (seq 0 len)) n = Some o -> (n < len)%nat /\ o = f n.
Proof.
  intros H. assert (Hl : (n < len)%nat).
  { assert (Hs : nth_error (map f (seq 0 len)) n <> None) by congruence.
    apply nth_error_Some in Hs. rewrite map_length, seq_length in Hs. exact Hs. }
  split; [exact Hl|].
  rewrite nth_error_map, (nth_error_nth' (seq 0 len) 0%nat) in H by (rewrite seq_length; exact Hl).
  rewrite seq_nth in H by exact Hl. cbn in H. congruence.
Qed.

(* the constructors establish the start state *)
Lemma set_ratio_same (c : conv Fm) : set_playback_hz_scale c (ratio c) = c.
Proof. destruct c; reflexivity. Qed.

Lemma count_first (os : list (obs Fm)) k :
  (forall j o, (j < k)%nat -> nth_error os j = Some o -> o_exh o = false) ->
  (exists o, nth_error os k = Some o /\ o_exh o = true) ->
  count_until_exhausted os = k.
Proof.
  revert k; induction os as [|o os IH]; intros k Hlt (o' & Hk & He).
  - destruct k; discriminate.
  - destruct k as [|k].
    + cbn in Hk. injection Hk as ->. cbn. rewrite He. reflexivity.
    + cbn [count_until_exhausted]. rewrite (Hlt 0%nat o) by (try lia; reflexivity).
      f_equal. apply IH.
      * intros j o1 Hj Hn. apply (Hlt (S j) o1); [lia|exact Hn].
      * exists o'. split; [exact Hk|exact He].
Qed.
End Generic.

(* ------------------------------------------------------------------ *)
(* floor facts                                                         *)
Lemma fl_INR x : 0 <= x -> INR (fl x) = IZR (Zfloor x).
Proof.
  intros H. unfold fl. rewrite INR_IZR_INZ, Z2Nat.id; [reflexivity|].
  apply Zfloor_lub. simpl. exact H.
Qed.

Lemma fl_le x : 0 <= x -> INR (fl x) <= x.
Proof. intros H. rewrite fl_INR by exact H. apply Zfloor_lb. Qed.

Lemma fl_lt x : 0 <= x -> x < INR (fl x) + 1.
Proof. intros H. rewrite fl_INR by exact H. apply Zfloor_ub. Qed.

Lemma fl_spec x k : INR k <= x < INR k + 1 -> fl x = k.
Proof.
  intros [H1 H2]. unfold fl. rewrite (Zfloor_imp (Z.of_nat k)).
  - apply Nat2Z.id.
  - rewrite plus_IZR, <- INR_IZR_INZ. simpl. lra.
Qed.

Lemma fl_ge x k : INR k <= x -> (k <= fl x)%nat.
Proof.
  intros H. assert (H0 : 0 <= x) by (pose proof (pos_INR k); lra).
  pose proof (fl_lt x H0) as H1.
  apply INR_le. apply Rnot_lt_le. intros C.
  assert (S (fl x) <= k)%nat as H2 by (apply INR_lt in C; lia).
  apply le_INR in H2. rewrite S_INR in H2. lra.
Qed.

Lemma fl_lt_nat x k : 0 <= x -> x < INR k -> (fl x < k)%nat.
Proof.
  intros H0 H. pose proof (fl_le x H0). apply INR_lt. lra.
Qed.

Lemma fl_mono x y : 0 <= x -> x <= y -> (fl x <= fl y)%nat.
Proof. intros H0 H. apply fl_ge. pose proof (fl_le x H0). lra. Qed.

Lemma frac_range x : 0 <= frac x < 1.
Proof. unfold frac. pose proof (Zfloor_lb x). pose proof (Zfloor_ub x). lra. Qed.

Lemma frac_fl x : 0 <= x -> frac x = x - INR (fl x).
Proof. intros H. unfold frac. rewrite fl_INR by exact H. reflexivity. Qed.

(* ------------------------------------------------------------------ *)
(* the converter on R                                                  *)
Section OnR.
Variable s : source fmt_R.          (* the source when the converter is built (after priming) *)
Variable itp0 : interp fmt_R.       (* the primed interpolator *)

(* state reached after k pulls with accumulator v *)
Definition cstate (k : nat) (v r : R) : conv fmt_R :=
  {| src := src_at s k; itp := feed itp0 (prefix s k); value := v; ratio := r |}.

Lemma advance_spec fuel : forall k v r, 0 <= v -> v < INR fuel ->
  advance fuel (cstate k v r) = Done (cstate (k + fl v) (frac v) r).
Proof.
  induction fuel as [|fuel IH]; intros k v r H0 Hf.
  - simpl in Hf. lra.
  - cbn [advance].
    change (value (cstate k v r)) with v. change (src (cstate k v r)) with (src_at s k).
    change (itp (cstate k v r)) with (feed itp0 (prefix s k)). change (ratio (cstate k v r)) with r.
    cbn [leb NR one sub].
    destruct (Rle_bool_spec 1 v) as [H1|H1].
    + rewrite src_next_at. rewrite <- feed_prefix_S.
      change (advance fuel (cstate (S k) (v - 1) r) = Done (cstate (k + fl v) (frac v) r)).
      rewrite IH; [|lra|rewrite S_INR in Hf; lra].
      assert (E : Zfloor (v - 1) = (Zfloor v - 1)%Z).
      { apply Zfloor_imp. rewrite minus_IZR. replace (Zfloor v - 1 + 1)%Z with (Zfloor v) by lia.
        pose proof (Zfloor_lb v). pose proof (Zfloor_ub v). lra. }
      assert (Ef : fl v = S (fl (v - 1))).
      { unfold fl. rewrite E. assert (1 <= Zfloor v)%Z by (apply Zfloor_lub; simpl; lra).
        rewrite <- Z2Nat.inj_succ by lia. f_equal. lia. }
      f_equal. unfold frac. rewrite E, Ef, minus_IZR.
      replace (S k + fl (v - 1))%nat with (k + S (fl (v - 1)))%nat by lia.
      f_equal. simpl. lra.
    + assert (E : fl v = 0%nat) by (apply fl_spec; simpl; lra).
      rewrite E, Nat.add_0_r. unfold frac.
      replace (Zfloor v) with 0%Z by (symmetry; apply Zfloor_imp; simpl; lra).
      simpl. rewrite Rminus_0_r. reflexivity.
Qed.

(* one output from position [pos] with k <= pos frames already pulled *)
Lemma next_pos fuel k pos r : INR k <= pos -> pos - INR k < INR fuel ->
  next fuel (cstate k (pos - INR k) r) =
  Done (interpolate (feed itp0 (prefix s (fl pos))) (frac pos), cstate (fl pos) (pos + r - INR (fl pos)) r).
Proof.
  intros Hk Hf. unfold next. rewrite advance_spec by lra.
  assert (P0 : 0 <= pos) by (pose proof (pos_INR k); lra).
  assert (E : (k + fl (pos - INR k))%nat = fl pos).
  { symmetry. apply fl_spec. rewrite plus_INR.
    assert (V0 : 0 <= pos - INR k) by lra.
    pose proof (fl_le _ V0). pose proof (fl_lt _ V0). lra. }
  assert (Ex : frac (pos - INR k) = frac pos).
  { rewrite frac_fl by lra. rewrite frac_fl by lra. rewrite <- E, plus_INR. lra. }
  rewrite E, Ex. unfold cstate at 1 2 3 4. cbn [itp value src ratio add NR].
  f_equal. f_equal. unfold cstate. cbn [value ratio]. f_equal. rewrite frac_fl by lra. lra.
Qed.

(* observation j of a run over [rs] that starts at position [pos] with k frames pulled *)
Definition gen_ob (k : nat) (pos : R) (rs : list R) (j : nat) : obs fmt_R :=
  let kb := match j with O => k | S j' => fl (pos + Ppos rs j') end in
  let p := pos + Ppos rs j in
  {| o_exh := (length (rest s) <=? kb)%nat && Rle_bool 1 (p - INR kb);
     o_frame := interpolate (feed itp0 (prefix s (fl p))) (frac p);
     o_pulls := pulls s + fl p;
     o_iter := iter_calls s + Nat.min (fl p) (length (rest s));
     o_value := pos + Ppos rs (S j) - INR (fl p) |}.

Lemma Ppos_cons r rs n : Ppos (r :: rs) (S n) = r + Ppos rs n.
Proof. reflexivity. Qed.
Lemma Ppos_0 rs : Ppos rs 0 = 0.
Proof. reflexivity. Qed.
Lemma Ppos_nil n : Ppos [] n = 0.
Proof. destruct n; reflexivity. Qed.

Lemma Ppos_nonneg rs : Forall (fun r => 0 < r) rs -> forall n, 0 <= Ppos rs n.
Proof.
  induction 1 as [|r rs Hr _ IH]; intros n; [rewrite Ppos_nil; lra|].
  destruct n; cbn [Ppos]; [lra|]. specialize (IH n). lra.
Qed.

Lemma run_spec fuel : forall rs k pos r0,
  Forall (fun r => 0 < r /\ r + 1 <= INR fuel) rs -> INR k <= pos -> pos - INR k < INR fuel ->
  exists c', @run NR fmt_R fuel rs (cstate k (pos - INR k) r0) = Done (map (gen_ob k pos rs) (seq 0 (length rs)), c') /\
    let kk := match length rs with O => k | S j => fl (pos + Ppos rs j) end in
    src c' = src_at s kk /\ itp c' = feed itp0 (prefix s kk).
Proof.
  induction rs as [|r rs IH]; intros k pos r0 HF Hk Hf.
  - eexists. split; [reflexivity|]. cbn. split; reflexivity.
  - inversion HF as [|? ? [Hr Hrf] HF']; subst.
    assert (P0 : 0 <= pos) by (pose proof (pos_INR k); lra).
    cbn [run]. change (set_playback_hz_scale (cstate k (pos - INR k) r0) r) with (cstate k (pos - INR k) r).
    rewrite next_pos by assumption.
    pose proof (fl_le pos P0) as L1. pose proof (fl_lt pos P0) as L2.
    replace (pos + r - INR (fl pos)) with ((pos + r) - INR (fl pos)) by lra.
    destruct (IH (fl pos) (pos + r) r HF') as (c' & E & Efin); [lra|lra|].
    rewrite E. exists c'. split; [|cbn [length]; destruct rs as [|r1 rs1];
      [cbn [length] in Efin; rewrite Ppos_0, Rplus_0_r; exact Efin
      |cbn [length] in Efin |- *; rewrite Ppos_cons;
       replace (pos + (r + Ppos (r1 :: rs1) (length rs1))) with (pos + r + Ppos (r1 :: rs1) (length rs1)) by lra;
       exact Efin]].
    f_equal. f_equal.
    cbn [length seq map]. f_equal.
    + unfold gen_ob. rewrite Ppos_cons, !Ppos_0, Rplus_0_r.
      unfold is_exhausted, cstate. cbn [src value leb NR one pulls iter_calls src_at].
      rewrite src_exhausted_at. f_equal; lra.
    + rewrite <- seq_shift, map_map. apply map_ext. intros j.
      unfold gen_ob. rewrite !Ppos_cons.
      replace (pos + (r + Ppos rs j)) with (pos + r + Ppos rs j) by lra.
      replace (pos + (r + Ppos rs (S j))) with (pos + r + Ppos rs (S j)) by lra.
      destruct j as [|j].
      * rewrite !Ppos_0, !Rplus_0_r. reflexivity.
      * rewrite Ppos_cons. replace (pos + (r + Ppos rs j)) with (pos + r + Ppos rs j) by lra. reflexivity.
Qed.

(* the closed form of observation n of a run from the start state *)
Definition spec_ob (rs : list R) (n : nat) : obs fmt_R :=
  let m := fl (Ppos rs n) in
  {| o_exh := (length (rest s) <=? pulled_before rs n)%nat && (pulled_before rs n <? m)%nat;
     o_frame := interpolate (feed itp0 (prefix s m)) (frac (Ppos rs n));
     o_pulls := pulls s + m;
     o_iter := iter_calls s + Nat.min m (length (rest s));
     o_value := Ppos rs (S n) - INR m |}.

Lemma gen_ob_start rs n : Forall (fun r => 0 < r) rs -> gen_ob 0 0 rs n = spec_ob rs n.
Proof.
  intros HF. unfold gen_ob, spec_ob. rewrite !Rplus_0_l.
  assert (Hkb : match n with O => 0%nat | S j' => fl (0 + Ppos rs j') end = pulled_before rs n).
  { destruct n; [reflexivity|]. cbn [pulled_before]. rewrite Rplus_0_l. reflexivity. }
  rewrite Hkb. set (kb := pulled_before rs n).
  pose proof (Ppos_nonneg rs HF n) as P0.
  f_equal. f_equal.
  destruct (Rle_bool_spec 1 (Ppos rs n - INR kb)) as [H|H]; symmetry.
  - apply Nat.ltb_lt. apply fl_ge. rewrite S_INR. lra.
  - apply Nat.ltb_ge. apply Nat.lt_succ_r. apply fl_lt_nat; [exact P0|]. rewrite S_INR. lra.
Qed.

Definition start (r0 : R) : conv fmt_R := {| src := s; itp := itp0; value := 0; ratio := r0 |}.

Lemma start_cstate r0 : start r0 = cstate 0 (0 - INR 0) r0.
Proof. unfold start, cstate. rewrite src_at_0. simpl. rewrite Rminus_0_r. reflexivity. Qed.

(* fuel that suffices for a ratio sequence: one more than every ratio *)
Definition fuel_ok (fuel : nat) (rs : list R) : Prop := Forall (fun r => 0 < r /\ r + 1 <= INR fuel) rs.

Lemma fuel_ok_pos fuel rs : fuel_ok fuel rs -> Forall (fun r => 0 < r) rs.
Proof. intros H. eapply Forall_impl; [|exact H]. intros r [H1 _]. exact H1. Qed.

Theorem run_closed_form fuel rs r0 : fuel_ok fuel rs -> (0 < fuel)%nat ->
  exists c', @run NR fmt_R fuel rs (start r0) = Done (map (spec_ob rs) (seq 0 (length rs)), c') /\
    src c' = src_at s (pulled_before rs (length rs)) /\
    itp c' = feed itp0 (prefix s (pulled_before rs (length rs))).
Proof.
  intros HF Hfu. rewrite start_cstate.
  destruct (run_spec fuel rs 0%nat 0 r0 HF) as (c' & E & Efin).
  - simpl. lra.
  - simpl. apply lt_INR in Hfu. simpl in Hfu. lra.
  - exists c'. split.
    + rewrite E. f_equal. f_equal. apply map_ext. intros n.
      apply gen_ob_start. apply (fuel_ok_pos fuel). exact HF.
    + unfold pulled_before. destruct (length rs); [exact Efin|].
      cbn zeta in Efin. rewrite Rplus_0_l in Efin. exact Efin.
Qed.

Lemma run_nth fuel rs r0 os c' n o : fuel_ok fuel rs -> (0 < fuel)%nat ->
  @run NR fmt_R fuel rs (start r0) = Done (os, c') -> nth_error os n = Some o ->
  (n < length rs)%nat /\ o = spec_ob rs n.
Proof.
  intros HF Hfu Hrun Hn. destruct (run_closed_form fuel rs r0 HF Hfu) as (c2 & E & _).
  rewrite E in Hrun. injection Hrun as <- _.
  apply nth_error_map_seq in Hn. exact Hn.
Qed.
End OnR.

(* ------------------------------------------------------------------ *)
(* the property statements                                             *)

Notation runR := (@run NR fmt_R).
Notation run_constR := (@run_const NR fmt_R).

(* the constructors produce the start state, exactly when the ratio is > 0 *)
Lemma scale_playback_ok (s : source fmt_R) i r : 0 < r -> scale_playback_hz s i r = Ok (start s i r).
Proof.
  intros H. unfold scale_playback_hz. cbn [ltb NR zero].
  destruct (Rlt_bool_spec 0 r); [reflexivity|lra].
Qed.

Lemma from_hz_to_hz_ok (s : source fmt_R) i a b : 0 < a / b -> from_hz_to_hz s i a b = Ok (start s i (a / b)).
Proof. intros H. unfold from_hz_to_hz. cbn [div NR]. apply scale_playback_ok. exact H. Qed.

(* no divergence, one observation per requested output *)
Theorem total s i fuel rs r0 : fuel_ok fuel rs -> (0 < fuel)%nat ->
  exists os c', runR fuel rs (start s i r0) = Done (os, c') /\ length os = length rs.
Proof.
  intros HF Hfu. destruct (run_closed_form s i fuel rs r0 HF Hfu) as (c' & E & _).
  eexists. exists c'. split; [exact E|]. rewrite map_length, seq_length. reflexivity.
Qed.

(* position and consumption *)
Theorem position s i fuel rs r0 os c' n o : fuel_ok fuel rs -> (0 < fuel)%nat ->
  runR fuel rs (start s i r0) = Done (os, c') -> nth_error os n = Some o ->
  let m := fl (Ppos rs n) in
  let x := Ppos rs n - INR m in
  0 <= x < 1 /\
  o_pulls o = (pulls s + m)%nat /\
  o_iter o = (iter_calls s + Nat.min m (length (rest s)))%nat /\
  o_frame o = interpolate (feed i (prefix s m)) x /\
  o_value o = Ppos rs (S n) - INR m /\
  src c' = src_at s (pulled_before rs (length rs)) /\
  itp c' = feed i (prefix s (pulled_before rs (length rs))).
Proof.
  intros HF Hfu Hrun Hn.
  destruct (run_nth s i fuel rs r0 os c' n o HF Hfu Hrun Hn) as [Hl ->].
  pose proof (Ppos_nonneg rs (fuel_ok_pos fuel rs HF) n) as P0.
  cbn zeta. rewrite <- frac_fl by exact P0.
  split; [apply frac_range|].
  destruct (run_closed_form s i fuel rs r0 HF Hfu) as (c2 & E & Es & Ei).
  rewrite E in Hrun. injection Hrun as _ <-.
  repeat split; try reflexivity; assumption.
Qed.

Theorem floor_output s l fuel rs r0 os c' n o : fuel_ok fuel rs -> (0 < fuel)%nat ->
  runR fuel rs (start s (IFloor l) r0) = Done (os, c') -> nth_error os n = Some o ->
  o_frame o = floor_seq l s (fl (Ppos rs n)).
Proof.
  intros HF Hfu Hrun Hn.
  destruct (run_nth s _ fuel rs r0 os c' n o HF Hfu Hrun Hn) as [Hl ->].
  cbn [spec_ob o_frame]. rewrite feed_floor. reflexivity.
Qed.

(* the linear blend on R *)
Lemma blend_R x (l r : R) : @blend NR fmt_R x l r = (1 - x) * l + x * r.
Proof. unfold blend. cbn. ring. Qed.

Lemma blend_between x (l r : R) : 0 <= x < 1 ->
  Rmin l r <= (1 - x) * l + x * r <= Rmax l r.
Proof.
  intros [H0 H1]. unfold Rmin, Rmax. destruct (Rle_dec l r) as [H|H]; split; nra.
Qed.

Lemma zip_map_nth (f : R -> R -> R) (a b : frameR) ch l r :
  nth_error a ch = Some l -> nth_error b ch = Some r ->
  nth_error (@zip_map NR fmt_R f a b) ch = Some (f l r).
Proof.
  revert b ch; induction a as [|x a IH]; intros [|y b] [|ch] Ha Hb; cbn in *; try discriminate.
  - congruence.
  - apply IH; assumption.
Qed.

Theorem linear_output s a b fuel rs r0 os c' n o : fuel_ok fuel rs -> (0 < fuel)%nat ->
  runR fuel rs (start s (ILinear a b) r0) = Done (os, c') -> nth_error os n = Some o ->
  let m := fl (Ppos rs n) in
  let x := Ppos rs n - INR m in
  0 <= x < 1 /\
  forall ch l r, nth_error (linear_seq a b s m) ch = Some l -> nth_error (linear_seq a b s (S m)) ch = Some r ->
    exists y, nth_error (o_frame o) ch = Some y /\ y = (1 - x) * l + x * r /\ Rmin l r <= y <= Rmax l r.
Proof.
  intros HF Hfu Hrun Hn.
  destruct (run_nth s _ fuel rs r0 os c' n o HF Hfu Hrun Hn) as [Hl ->].
  pose proof (Ppos_nonneg rs (fuel_ok_pos fuel rs HF) n) as P0.
  cbn zeta. rewrite <- frac_fl by exact P0.
  split; [apply frac_range|]. intros ch l r Hlf Hrt.
  cbn [spec_ob o_frame]. rewrite feed_linear. cbn [interpolate].
  eexists. split; [apply zip_map_nth; eassumption|]. rewrite blend_R.
  split; [reflexivity|]. apply blend_between. apply frac_range.
Qed.

(* beyond the end of the source the converter sees equilibrium frames *)
Lemma zip_map_equilibrium x k : @zip_map NR fmt_R (blend x) (equilibrium k) (equilibrium k) = equilibrium k.
Proof.
  unfold equilibrium. induction k as [|k IH]; [reflexivity|].
  cbn [repeat zip_map]. rewrite IH. f_equal. rewrite blend_R. cbn. ring.
Qed.

Theorem beyond_end s fuel rs r0 os c' n o : fuel_ok fuel rs -> (0 < fuel)%nat ->
  (forall j, (length (rest s) <= j)%nat -> stream s j = equilibrium (nch s)) /\
  (forall l, runR fuel rs (start s (IFloor l) r0) = Done (os, c') -> nth_error os n = Some o ->
     (length (rest s) + 1 <= fl (Ppos rs n))%nat -> o_frame o = equilibrium (nch s)) /\
  (forall a b, runR fuel rs (start s (ILinear a b) r0) = Done (os, c') -> nth_error os n = Some o ->
     (length (rest s) + 2 <= fl (Ppos rs n))%nat -> o_frame o = equilibrium (nch s)).
Proof.
  intros HF Hfu. split; [apply stream_beyond|]. split.
  - intros l Hrun Hn Hm. rewrite (floor_output s l fuel rs r0 os c' n o HF Hfu Hrun Hn).
    destruct (fl (Ppos rs n)) as [|m]; [lia|]. cbn [floor_seq]. apply stream_beyond. lia.
  - intros a b Hrun Hn Hm.
    destruct (run_nth s _ fuel rs r0 os c' n o HF Hfu Hrun Hn) as [Hl ->].
    cbn [spec_ob o_frame]. rewrite feed_linear. cbn [interpolate].
    destruct (fl (Ppos rs n)) as [|[|m]]; [lia|lia|]. cbn [linear_seq].
    rewrite !stream_beyond by lia. apply zip_map_equilibrium.
Qed.

(* ratio exactly 1: the outputs are the source frames, unchanged *)
Lemma Ppos_repeat r k n : (n <= k)%nat -> Ppos (repeat r k) n = INR n * r.
Proof.
  revert k; induction n as [|n IH]; intros k H; [rewrite Ppos_0; simpl; lra|].
  destruct k as [|k]; [lia|]. cbn [repeat]. rewrite Ppos_cons, IH by lia. rewrite S_INR. lra.
Qed.

Lemma fl_INR_nat n : fl (INR n) = n.
Proof. apply fl_spec. lra. Qed.

Lemma zip_map_left0 (a b : frameR) : length a = length b -> @zip_map NR fmt_R (@blend NR fmt_R 0) a b = a.
Proof.
  revert b; induction a as [|x a IH]; intros [|y b] H; cbn [length] in H; try discriminate; [reflexivity|].
  cbn [zip_map]. rewrite IH by lia. f_equal. rewrite blend_R. cbn. ring.
Qed.

Theorem ratio_one s fuel k r0 os c' n o : (2 <= fuel)%nat ->
  (forall l, runR fuel (repeat 1 k) (start s (IFloor l) r0) = Done (os, c') -> nth_error os n = Some o ->
     o_frame o = floor_seq l s n /\ o_pulls o = (pulls s + n)%nat) /\
  (forall a b, runR fuel (repeat 1 k) (start s (ILinear a b) r0) = Done (os, c') -> nth_error os n = Some o ->
     length (linear_seq a b s n) = length (linear_seq a b s (S n)) ->
     o_frame o = linear_seq a b s n /\ o_pulls o = (pulls s + n)%nat).
Proof.
  intros Hfu.
  assert (HF : fuel_ok fuel (repeat 1 k)).
  { unfold fuel_ok. apply Forall_forall. intros r Hr. apply repeat_spec in Hr. subst r.
    split; [lra|]. apply le_INR in Hfu. simpl in Hfu. lra. }
  assert (Hfu' : (0 < fuel)%nat) by lia.
  split.
  - intros l Hrun Hn.
    destruct (run_nth s _ fuel _ r0 os c' n o HF Hfu' Hrun Hn) as [Hl ->].
    rewrite repeat_length in Hl. cbn [spec_ob o_frame o_pulls].
    rewrite Ppos_repeat by lia. rewrite Rmult_1_r, fl_INR_nat, feed_floor. split; reflexivity.
  - intros a b Hrun Hn Hlen.
    destruct (run_nth s _ fuel _ r0 os c' n o HF Hfu' Hrun Hn) as [Hl ->].
    rewrite repeat_length in Hl. cbn [spec_ob o_frame o_pulls].
    rewrite Ppos_repeat by lia. rewrite Rmult_1_r, fl_INR_nat, feed_linear. cbn [interpolate].
    assert (E : frac (INR n) = 0).
    { rewrite frac_fl by apply pos_INR. rewrite fl_INR_nat. lra. }
    rewrite E. split; [|reflexivity]. apply zip_map_left0. exact Hlen.
Qed.

(* exhaustion is reported exactly when the source is exhausted and the next output needs a frame *)
Theorem exhausted_iff s i fuel rs r0 os c' n o : fuel_ok fuel rs -> (0 < fuel)%nat ->
  runR fuel rs (start s i r0) = Done (os, c') -> nth_error os n = Some o ->
  (o_exh o = true <->
   (length (rest s) <= pulled_before rs n)%nat /\ (pulled_before rs n < fl (Ppos rs n))%nat).
Proof.
  intros HF Hfu Hrun Hn.
  destruct (run_nth s i fuel rs r0 os c' n o HF Hfu Hrun Hn) as [Hl ->].
  cbn [spec_ob o_exh]. rewrite andb_true_iff, Nat.leb_le, Nat.ltb_lt. reflexivity.
Qed.

(* the same at the level of one state: definitional *)
Lemma is_exhausted_iff (c : conv fmt_R) :
  is_exhausted c = true <-> rest (src c) = [] /\ 1 <= value c.
Proof.
  unfold is_exhausted, src_exhausted. cbn [leb NR one]. rewrite andb_true_iff.
  destruct (rest (src c)); destruct (Rle_bool_spec 1 (value c)); split; intros [A B];
    try discriminate; try lra; split; auto; try discriminate.
Qed.

(* constant ratio: run_const is run with the same ratio every time *)
Lemma run_const_run fuel n : forall c : conv fmt_R, run_constR fuel n c = runR fuel (repeat (ratio c) n) c.
Proof.
  induction n as [|n IH]; intros c; [reflexivity|].
  cbn [run_const repeat run]. rewrite set_ratio_same.
  destruct (next fuel c) as [[out c1]|] eqn:E; [|reflexivity].
  assert (Hr : ratio c1 = ratio c).
  { unfold next in E. destruct (advance fuel c) as [c0|] eqn:Ea; [|discriminate].
    injection E as _ <-. cbn [ratio].
    clear -Ea. revert c c0 Ea. induction fuel as [|fuel IHf]; intros c c0 Ea; [discriminate|].
    cbn [advance] in Ea. destruct (leb NR (one NR) (value c)).
    - destruct (src_next (src c)) as [f s']. apply IHf in Ea. exact Ea.
    - injection Ea as <-. reflexivity. }
  rewrite IH, Hr. reflexivity.
Qed.

(* number of outputs before exhaustion for a constant ratio *)
Definition n0 (len : nat) (r : R) : nat := Z.to_nat (Zceil ((INR len + 1) / r)).

Lemma n0_spec len r : 0 < r -> (1 <= n0 len r)%nat /\ INR (n0 len r - 1) * r < INR len + 1 <= INR (n0 len r) * r.
Proof.
  intros Hr. unfold n0. set (q := (INR len + 1) / r).
  assert (Hq : 0 < q). { unfold q. apply Rdiv_lt_0_compat; [pose proof (pos_INR len); lra|exact Hr]. }
  assert (Hc1 : q <= IZR (Zceil q)) by apply Zceil_ub.
  assert (Hc2 : IZR (Zceil q) - 1 < q).
  { unfold Zceil. rewrite opp_IZR. pose proof (Zfloor_ub (- q)). lra. }
  assert (Hz : (1 <= Zceil q)%Z). { apply Z.lt_pred_le. apply lt_IZR. simpl. lra. }
  assert (Hn : INR (Z.to_nat (Zceil q)) = IZR (Zceil q)). { rewrite INR_IZR_INZ, Z2Nat.id by lia. reflexivity. }
  assert (E : INR len + 1 = q * r). { unfold q. field. lra. }
  split; [lia|]. rewrite minus_INR by lia. rewrite Hn. simpl INR. rewrite E. split; nra.
Qed.

Theorem count_const s i fuel r k : 0 < r -> r + 1 <= INR fuel -> (n0 (length (rest s)) r + 1 < k)%nat ->
  exists os c', run_constR fuel k (start s i r) = Done (os, c') /\
    let n0 := n0 (length (rest s)) r in
    count_until_exhausted os = (n0 + (if (fl (INR (n0 - 1) * r) <? length (rest s))%nat then 1 else 0))%nat /\
    (n0 <= count_until_exhausted os <= n0 + 1)%nat.
Proof.
  intros Hr Hfu Hk. set (len := length (rest s)). fold len in Hk.
  assert (HF : fuel_ok fuel (repeat r k)).
  { apply Forall_forall. intros x Hx. apply repeat_spec in Hx. subst x. split; assumption. }
  assert (Hfu' : (0 < fuel)%nat).
  { apply INR_lt. simpl. lra. }
  rewrite run_const_run. cbn [start ratio].
  destruct (run_closed_form s i fuel (repeat r k) r HF Hfu') as (c' & E & _).
  eexists. exists c'. split; [exact E|]. cbn zeta.
  destruct (n0_spec len r Hr) as (H1 & Hlo & Hhi). set (m := n0 len r) in *.
  rewrite repeat_length.
  assert (Hpos : forall j, 0 <= INR j * r) by (intros j; pose proof (pos_INR j); nra).
  (* exhaustion flag of observation j, 1 <= j <= k *)
  assert (Hex : forall j, (j < k)%nat ->
            o_exh (spec_ob s i (repeat r k) (S j)) =
            (len <=? fl (INR j * r))%nat && (fl (INR j * r) <? fl (INR (S j) * r))%nat).
  { intros j Hj. cbn [spec_ob o_exh pulled_before]. rewrite !Ppos_repeat by lia. reflexivity. }
  assert (Hsmall : forall j, (j < m)%nat -> (fl (INR j * r) <= len)%nat).
  { intros j Hj. apply Nat.lt_succ_r. apply fl_lt_nat; [apply Hpos|]. rewrite S_INR.
    assert (INR j <= INR (m - 1)) by (apply le_INR; lia). nra. }
  assert (Hbig : (len + 1 <= fl (INR m * r))%nat).
  { apply fl_ge. rewrite plus_INR. simpl. lra. }
  (* before m nothing is exhausted *)
  assert (Hbefore : forall j o, (j < m)%nat ->
            nth_error (map (spec_ob s i (repeat r k)) (seq 0 k)) j = Some o -> o_exh o = false).
  { intros j o Hj Hn. apply nth_error_map_seq in Hn. destruct Hn as [Hjk ->].
    destruct j as [|j].
    - cbn [spec_ob o_exh pulled_before]. rewrite Ppos_0.
      replace (fl 0) with 0%nat by (symmetry; apply (fl_spec 0 0); simpl; lra).
      rewrite Nat.ltb_irrefl, andb_false_r. reflexivity.
    - rewrite Hex by lia. apply andb_false_iff.
      destruct (Nat.leb_spec len (fl (INR j * r))) as [Hle|Hlt]; [right|left; reflexivity].
      apply Nat.ltb_ge. pose proof (Hsmall (S j) Hj). pose proof (Hsmall j ltac:(lia)). lia. }
  assert (Hnth : forall j, (j < k)%nat ->
            nth_error (map (spec_ob s i (repeat r k)) (seq 0 k)) j = Some (spec_ob s i (repeat r k) j)).
  { intros j Hj. rewrite nth_error_map, (nth_error_nth' (seq 0 k) 0%nat) by (rewrite seq_length; exact Hj).
    rewrite seq_nth by exact Hj. reflexivity. }
  destruct (Nat.ltb_spec (fl (INR (m - 1) * r)) len) as [Hc|Hc].
  - (* the step into m jumps over the last frame: one more output *)
    assert (Hcount : count_until_exhausted (map (spec_ob s i (repeat r k)) (seq 0 k)) = (m + 1)%nat).
    { apply count_first.
      - intros j o Hj Hn. destruct (Nat.eq_dec j m) as [->|Hne]; [|apply (Hbefore j o); [lia|exact Hn]].
        apply nth_error_map_seq in Hn. destruct Hn as [_ ->].
        pose proof (Hex (m - 1)%nat ltac:(lia)) as Hx. replace (S (m - 1)) with m in Hx by lia. rewrite Hx.
        apply andb_false_iff. left. apply Nat.leb_gt. exact Hc.
      - exists (spec_ob s i (repeat r k) (m + 1)). split; [apply Hnth; lia|].
        replace (m + 1)%nat with (S m) by lia. rewrite Hex by lia.
        apply andb_true_iff. split; [apply Nat.leb_le; lia|]. apply Nat.ltb_lt.
        (* r > 1 *)
        assert (Hr1 : 1 < r).
        { assert (INR (m - 1) * r < INR len).
          { apply Rnot_le_lt. intros C. apply fl_ge in C. lia. }
          rewrite minus_INR in H by lia. simpl in H. nra. }
        apply Nat.lt_le_trans with (S (fl (INR m * r))); [lia|]. apply fl_ge.
        rewrite !S_INR. pose proof (fl_le (INR m * r) (Hpos m)). nra. }
    rewrite Hcount. split; lia.
  - assert (Hcount : count_until_exhausted (map (spec_ob s i (repeat r k)) (seq 0 k)) = m).
    { apply count_first; [exact Hbefore|].
      exists (spec_ob s i (repeat r k) m). split; [apply Hnth; lia|].
      pose proof (Hex (m - 1)%nat ltac:(lia)) as Hx. replace (S (m - 1)) with m in Hx by lia. rewrite Hx.
      apply andb_true_iff. split; [apply Nat.leb_le; exact Hc|]. apply Nat.ltb_lt.
      pose proof (Hsmall (m - 1)%nat ltac:(lia)). lia. }
    rewrite Hcount. split; lia.
Qed.

(* ------------------------------------------------------------------ *)
(* MulHz is [run] over its control signal (any arithmetic, any format) *)
Section MulHz.
Context {N : Num} {Fm : Fmt N}.

Lemma is_exhausted_set_ratio (c : conv Fm) r : is_exhausted (set_playback_hz_scale c r) = is_exhausted c.
Proof. reflexivity. Qed.

Theorem run_mul_run (fuel : nat) : forall (n : nat) (m : mulhz Fm), (n <= length (ctl m))%nat ->
  run_mul fuel n m =
  match run fuel (firstn n (ctl m)) (mconv m) with
  | Diverges => Diverges
  | Done (os, c') => Done (os, {| mconv := c'; ctl := skipn n (ctl m) |})
  end.
Proof.
  induction n as [|n IH]; intros m Hn.
  - cbn [run_mul firstn run skipn]. destruct m; reflexivity.
  - destruct m as [c l]. cbn [ctl mconv] in *. destruct l as [|r l]; [cbn in Hn; lia|].
    cbn [run_mul firstn run skipn mul_next ctl_next ctl mconv].
    destruct (next fuel (set_playback_hz_scale c r)) as [[out c1]|]; [|reflexivity].
    rewrite IH by (cbn [ctl length] in *; lia). cbn [ctl mconv].
    destruct (run fuel (firstn n l) c1) as [[os c2]|]; [|reflexivity].
    unfold mul_exhausted. cbn [ctl mconv]. rewrite orb_false_r, is_exhausted_set_ratio. reflexivity.
Qed.

(* once the control signal has ended, MulHz reports exhaustion *)
Lemma mul_exhausted_ctl_end (m : mulhz Fm) : ctl m = [] -> mul_exhausted m = true.
Proof. intros H. unfold mul_exhausted. rewrite H. apply orb_true_r. Qed.
End MulHz.
