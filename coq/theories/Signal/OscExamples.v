(* Non-vacuity: concrete non-trivial inputs meeting the hypotheses of the C17 theorems. *)
Require Import Floats.SpecFloat.
Require Import ZArith Reals Lia Lra Bool List.
From Flocq Require Import Core BinarySingleNaN.
From Dasp Require Import Base.Float Signal.OscNum Signal.Osc Signal.FloatFacts Signal.OscProofs
  Signal.OscFloatProofs Signal.OscFloatRuns Signal.OscSimplexIEEE Signal.OscRun.
Import ListNotations.

Definition fz (z : Z) : f64 := F64.of_Z z.
Definition bits_of (l : list f64) : list Z := map F64.bits l.

Lemma fz_pos (z : Z) : (0 < z <= 4294967296)%Z -> fin (fz z) /\ (0 < B2R (fz z))%R.
Proof.
  intros H. destruct (f64_ofZ z) as (A & B); [apply small_Z; lia|]. split; [exact A|].
  unfold fz. rewrite B. apply IZR_lt. lia.
Qed.

(* rate 4, hz 1: the phase wraps at the fifth frame (doc example of the crate) *)
Example ex_const_public : PublicSrc (const_hz F (fz 4) (fz 1)).
Proof.
  destruct (fz_pos 4 ltac:(lia)) as (A & B). destruct (fz_pos 1 ltac:(lia)) as (C & D).
  constructor; auto. lra.
Qed.
Example ex_const_not_k1 : ~ KnownClass_K1 (const_hz F (fz 4) (fz 1)).
Proof. intros (k & H). vm_compute in H. discriminate. Qed.
Example ex_const_phases :
  bits_of (fst (run F (next_phase F) (phase_new F (const_hz F (fz 4) (fz 1))) 6))
  = [0; 4598175219545276416; 4602678819172646912; 4604930618986332160; 0; 4598175219545276416]%Z.
Proof. vm_compute. reflexivity. Qed.
(* saw 1, .5, 0, -.5 and square +1 +1 -1 -1: phase 0.5 belongs to the second half-cycle *)
Example ex_const_saw_square :
  bits_of (fst (run F (saw_next F) (phase_new F (const_hz F (fz 4) (fz 1))) 4))
  = [4607182418800017408; 4602678819172646912; 0; 13826050856027422720]%Z /\
  bits_of (fst (run F (square_next F) (phase_new F (const_hz F (fz 4) (fz 1))) 4))
  = [4607182418800017408; 4607182418800017408; 13830554455654793216; 13830554455654793216]%Z.
Proof. vm_compute. split; reflexivity. Qed.

(* hz > rate: rate 2, hz 5, step 2.5: phases 0, .5, 0, .5 (multi-cycle wrap each frame) *)
Example ex_above_rate :
  PublicSrc (const_hz F (fz 2) (fz 5)) /\ ~ KnownClass_K1 (const_hz F (fz 2) (fz 5)) /\
  bits_of (fst (run F (next_phase F) (phase_new F (const_hz F (fz 2) (fz 5))) 4))
  = [0; 4602678819172646912; 0; 4602678819172646912]%Z.
Proof.
  destruct (fz_pos 2 ltac:(lia)) as (A & B). destruct (fz_pos 5 ltac:(lia)) as (C & D).
  split; [constructor; auto; lra|]. split; [intros (k & H); vm_compute in H; discriminate|].
  vm_compute. reflexivity.
Qed.

(* a time-varying frequency: 1, 2, 3, 1, 2, 3, ... at rate 4; six frames pull six control frames *)
Definition ex_ctl (k : nat) : f64 := match (k mod 3)%nat with O => fz 1 | S O => fz 2 | _ => fz 3 end.
Example ex_hz_public : PublicSrc (hz_src F (fz 4) ex_ctl) /\ ~ KnownClass_K1 (hz_src F (fz 4) ex_ctl).
Proof.
  destruct (fz_pos 4 ltac:(lia)) as (A & B). split.
  - constructor; auto. intros k. unfold ex_ctl.
    destruct (k mod 3)%nat as [|[|m]]; [destruct (fz_pos 1 ltac:(lia))|destruct (fz_pos 2 ltac:(lia))|destruct (fz_pos 3 ltac:(lia))];
      split; auto; lra.
  - intros (k & H). simpl in H. unfold ex_ctl in H.
    destruct (k mod 3)%nat as [|[|m]]; vm_compute in H; discriminate.
Qed.
Example ex_hz_run :
  let r := run F (next_phase F) (phase_new F (hz_src F (fz 4) ex_ctl)) 6 in
  bits_of (fst r) = [0; 4598175219545276416; 4604930618986332160; 4602678819172646912; 4604930618986332160; 4598175219545276416]%Z
  /\ pulls_of F (src (snd r)) = 6%nat.
Proof. vm_compute. split; reflexivity. Qed.

(* noise: seed 2^64 - 2, five frames: the seed wraps to 0 at the third frame *)
Example ex_noise_wrap :
  bits_of (fst (run F (noise_next F) 18446744073709551614 5))
  = map (fun k => F64.bits (noise_1 F ((18446744073709551614 + k) mod two64))) [0; 1; 2; 3; 4]%Z
  /\ snd (run F (noise_next F) 18446744073709551614 5) = 3%Z
  /\ bits_of (fst (run F (noise_next F) 18446744073709551614 5))
     = [13827881052548366336; 4606282836381532160; 13822119951852371968; 13820696005860917248; 4598961239647846400]%Z.
Proof. vm_compute. repeat split; reflexivity. Qed.

(* simplex noise at rate 4, hz 1: non-zero values strictly inside (-1, 1) *)
Example ex_simplex :
  bits_of (fst (run F (simplex_next F) (phase_new F (const_hz F (fz 4) (fz 1))) 4))
  = [0; 4603574158878488658; 4601551687812781179; 4577233052468468777]%Z.
Proof. vm_compute. reflexivity. Qed.

(* hypotheses of simplex_ieee: the phase 65535.75 (last quarter before the wrap, corner indices 65535 and
   65536 -> PERM[255], PERM[0]) and the negative argument -2.5 (floor -3, `as u8` wraps to 253) are finite
   and in [-2^63, 2^63); their values are non-zero and inside (-1, 1) *)
Definition ex_ph_hi : f64 := F64.of_bits 4679239978478206976.   (* 65535.75 *)
Definition ex_ph_neg : f64 := F64.of_bits 13836183955189006336.   (* -2.5 *)
Example ex_simplex_ieee_hyp :
  fin ex_ph_hi /\ (- IZR two63 <= B2R ex_ph_hi < IZR two63)%R /\ fin ex_ph_neg /\ (- IZR two63 <= B2R ex_ph_neg < IZR two63)%R /\
  bits_of [simplex_noise_1d F ex_ph_hi; simplex_noise_1d F ex_ph_neg] = [13826555156484430234; 13812538649770427679]%Z.
Proof.
  assert (V1 : B2R ex_ph_hi = 65535.75%R).
  { rewrite <- SF2R_B2SF. replace (B2SF ex_ph_hi) with (S754_finite false 9007164895002624 (-37)) by (vm_compute; reflexivity).
    unfold SF2R, F2R. simpl. lra. }
  assert (V2 : B2R ex_ph_neg = (-2.5)%R).
  { rewrite <- SF2R_B2SF. replace (B2SF ex_ph_neg) with (S754_finite true 5629499534213120 (-51)) by (vm_compute; reflexivity).
    unfold SF2R, F2R. simpl. lra. }
  split; [vm_compute; reflexivity|]. split; [rewrite V1; unfold two63; lra|].
  split; [vm_compute; reflexivity|]. split; [rewrite V2; unfold two63; lra|]. vm_compute. reflexivity.
Qed.

(* the range hypothesis of simplex_ieee is needed for the FUNCTION (not for the signal, whose phase is
   < 65536): at 1e300 the corner index saturates at i64::MAX, x0 ~ 1e300, x0*x0 overflows, the result is +inf *)
Example ex_simplex_domain_needed : fin k1_hz /\ is_finite (simplex_noise_1d F k1_hz) = false.
Proof. split; vm_compute; reflexivity. Qed.

(* exact reals: rate 4, hz 1 -> frac (k / 4); frame 5 is 1/4 again *)
Example ex_real_phase :
  nth 5 (fst (run NumR (next_phase NumR) (phase_new NumR (const_hz NumR 4%R 1%R)) 6)) 0%R = (/ 4)%R.
Proof.
  rewrite phase_formula_const by (try lia; lra). simpl Rsum. unfold frac.
  rewrite (Zfloor_imp 1); simpl; lra.
Qed.
