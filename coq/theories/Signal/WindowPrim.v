(* C20 — vocabulary of the GENERATED window model (gen/WindowGen.v, written by translate/window2coq.py from
   dasp_signal/src/window/mod.rs) that is not already in the hand model Signal/Window.v.  One Gallina primitive per
   Rust construct the translator accepts; everything here is HAND-WRITTEN after code that lives OUTSIDE
   window/mod.rs (dasp_signal/src/lib.rs, dasp_frame, core) -- the translator calls it, it does not derive it.
   No proofs here.

   How Rust values are represented:
     usize                      nat (unbounded; `-` panics on underflow, `/` `%` on a zero divisor, `+` `*` pure)
     &[F]                       list (list Smp): a frame is the list of its samples
     f64                        T N for an [arith] N (Coq reals or IEEE binary64)
     Rate, ConstHz              the f64 they wrap (hz, step)
     Phase<ConstHz>             [phase N] = { step; nxt }
     Window<F, W>               its phase (the other field is PhantomData)
     Windower<'a, F, W>         [windower (list Smp)];  Windowed<S, W>: [windowed N Smp]
     FromIterator<Cloned<slice::Iter<F>>>   [from_iter Smp]; slice::Iter / Cloned: the list of frames they yield
     (usize, Option<usize>)     [hint]; (usize::MAX, None) is [HintForever] *)
Require Import List Arith.
From Dasp Require Import Base.Res Signal.Window.
Import ListNotations.

Definition udiv (a n : nat) : res nat := if n =? 0 then Panic PDivZero else Ok (a / n).
Definition urem (a n : nat) : res nat := if n =? 0 then Panic PDivZero else Ok (a mod n).

(* `s.split_at(mid)`: panics when mid > len *)
Definition split_at {A} (l : list A) (k : nat) : res (list A * list A) :=
  if k <=? length l then Ok (firstn k l, skipn k l) else Panic PIndex.

(* field stores *)
Definition with_frames {A} (w : windower A) (fr : list A) : windower A := mkW (bin w) (hop w) fr.
Definition with_wd_signal {N Smp} (x : windowed N Smp) (sg : from_iter Smp) : windowed N Smp :=
  mkWd N Smp sg (wd_window N Smp x).
Definition with_wd_window {N Smp} (x : windowed N Smp) (p : phase N) : windowed N Smp :=
  mkWd N Smp (wd_signal N Smp x) p.

(* dasp_signal/src/lib.rs:
     pub fn rate(hz: f64) -> Rate { Rate { hz: hz } }
     impl Rate { pub fn const_hz(self, hz: f64) -> ConstHz { ConstHz { step: hz / self.hz } } }
     pub fn phase<S>(step: S) -> Phase<S> { Phase { step: step, next: 0.0 } } *)
Definition rate (N : arith) (hz : T N) : T N := hz.
Definition const_hz (N : arith) (r : T N) (hz : T N) : T N := div N hz r.
Definition phase_new (N : arith) (st : T N) : phase N := mkPhase N st (zero N).

(* dasp_frame: Frame::from_fn(f) calls f on the channel indices 0, 1, .., CHANNELS-1 in this order *)
Definition frame_from_fn {B} (nch : nat) (f : nat -> B) : list B := map f (seq 0 nch).
