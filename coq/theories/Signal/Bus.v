(* Model of dasp_signal/src/bus.rs, written after the source (statement by statement).

   SharedNode { signal, buffer : VecDeque<Frame>, frames_read : BTreeMap<usize,usize>, next_key }

   - the source signal is a function [f : nat -> F] (its n-th frame) together with a pull
     counter [pulled] (the state of the signal: [signal.next()] yields [f pulled] and
     increments the counter);
   - [buffer] is a list (front = head), [push_back x] = [++ [x]], [pop_front] = [tl]
     (pop_front on an empty deque returns None and is ignored by the source, as [tl []] = []);
   - [frames_read] is an association list with unique keys; the source only uses
     remove / insert / index / values().any / values().fold(min) / values_mut() -= d, none of
     which depends on the iteration order, so the key order of the BTreeMap is not modelled;
   - usize is nat: [next_key.wrapping_add(1)] wrapping after 2^64 sends and [frames_read + 1]
     overflowing are outside the model; usize subtraction is checked ([Panic POverflow], the
     debug-build semantics) so that the theorems prove it never underflows.
   This file contains definitions only; the proofs are in BusProofs.v. *)
Require Import List Arith Bool.
From Dasp Require Import Base.Res.
Import ListNotations.

Definition fmap := list (nat * nat).         (* BTreeMap<usize, usize>: key -> frames_read *)

Fixpoint lookup (k : nat) (m : fmap) : option nat :=
  match m with [] => None | (k', v) :: t => if k =? k' then Some v else lookup k t end.
Fixpoint remove (k : nat) (m : fmap) : fmap :=
  match m with [] => [] | (k', v) :: t => if k =? k' then remove k t else (k', v) :: remove k t end.
Definition insert (k v : nat) (m : fmap) : fmap := (k, v) :: remove k m.
Definition keys (m : fmap) : list nat := map fst m.
Definition vals (m : fmap) : list nat := map snd m.

(* for v in m.values_mut() { *v -= d }   (checked usize subtraction) *)
Definition sub_all (d : nat) (m : fmap) : res fmap :=
  if forallb (fun kv => d <=? snd kv) m
  then Ok (map (fun kv => (fst kv, snd kv - d)) m)
  else Panic POverflow.

Section Bus.
Context {F : Type} (f : nat -> F).          (* the source: the n-th frame it yields *)

Record st := { pulled : nat; buf : list F; fr : fmap; nk : nat }.

(* Bus::new *)
Definition init : st := {| pulled := 0; buf := []; fr := []; nk := 0 |}.

(* Bus::send: key = next_key; next_key += 1; frames_read.insert(key, buffer.len()) *)
Definition send (s : st) : st * nat :=
  let key := nk s in
  let num_frames := length (buf s) in
  ({| pulled := pulled s; buf := buf s; fr := insert key num_frames (fr s); nk := S (nk s) |}, key).

(* the block  let frame = if frames_read < num_frames { self.buffer[frames_read] }
                           else { let frame = self.signal.next(); self.buffer.push_back(frame); frame };
   result: (frame, buffer, source pull counter) *)
Definition read_or_pull (s : st) (frames_read : nat) : res (F * list F * nat) :=
  let num_frames := length (buf s) in
  if frames_read <? num_frames
  then let* x := get_checked (buf s) frames_read in Ok (x, buf s, pulled s)
  else let x := f (pulled s) in Ok (x, buf s ++ [x], S (pulled s)).

(* SharedNode::next_frame *)
Definition next_frame (s : st) (key : nat) : res (st * F) :=
  match lookup key (fr s) with
  | None => Panic PExpect                        (* .remove(&key).expect("no frames_read for Output") *)
  | Some frames_read =>
    let fr1 := remove key (fr s) in
    let* fbp := read_or_pull s frames_read in
    let '(frame, buf1, pulled1) := fbp in
    (* !self.frames_read.values().any(|&other| other <= frames_read) *)
    let least_frames_read := negb (existsb (fun kv => snd kv <=? frames_read) fr1) in
    if least_frames_read
    then (* pop_front; every other counter -= 1; this output keeps frames_read *)
      let* fr2 := sub_all 1 fr1 in
      Ok ({| pulled := pulled1; buf := tl buf1; fr := insert key frames_read fr2; nk := nk s |}, frame)
    else
      Ok ({| pulled := pulled1; buf := buf1; fr := insert key (S frames_read) fr1; nk := nk s |}, frame)
  end.

(* SharedNode::pending_frames: self.buffer.len() - self.frames_read[&key] *)
Definition pending_frames (s : st) (key : nat) : res nat :=
  match lookup key (fr s) with
  | None => Panic PIndex
  | Some r => if r <=? length (buf s) then Ok (length (buf s) - r) else Panic POverflow
  end.

(* SharedNode::drop_output *)
Definition drop_output (s : st) (key : nat) : res st :=
  let fr1 := remove key (fr s) in
  let least_frames_read := fold_left Nat.min (vals fr1) (length (buf s)) in
  if 0 <? least_frames_read
  then
    let* fr2 := sub_all least_frames_read fr1 in
    Ok {| pulled := pulled s; buf := Nat.iter least_frames_read (@tl F) (buf s); fr := fr2; nk := nk s |}
  else Ok {| pulled := pulled s; buf := buf s; fr := fr1; nk := nk s |}.

(* ---- the public API as operations: Bus::send, Output::next, Output::pending_frames, drop(Output) ----
   An Output is identified by its key.  Each operation yields one event; [ESend k a] records, next to
   the key of the new output, the source's pull counter at that moment. *)
Inductive op := OSend | ONext (k : nat) | OPending (k : nat) | ODrop (k : nat).
Inductive ev := ESend (k a : nat) | EFrame (k : nat) (x : F) | EPending (k n : nat) | EDrop (k : nat).

Definition step (s : st) (o : op) : res (st * ev) :=
  match o with
  | OSend => let '(s', k) := send s in Ok (s', ESend k (pulled s))
  | ONext k => let* r := next_frame s k in Ok (fst r, EFrame k (snd r))
  | OPending k => let* n := pending_frames s k in Ok (s, EPending k n)
  | ODrop k => let* s' := drop_output s k in Ok (s', EDrop k)
  end.

(* a finite schedule; the trace is in chronological order *)
Fixpoint run (ops : list op) (s : st) : res (st * list ev) :=
  match ops with
  | [] => Ok (s, [])
  | o :: t => let* r := step s o in
              let* r2 := run t (fst r) in
              Ok (fst r2, snd r :: snd r2)
  end.

End Bus.

Arguments init {F}.
