(* The inequality behind the simplex-noise bound for the ROUNDED (binary64) evaluation, stated on
   reals with explicit rounding operators: every + - * of simplex_noise_1d after the residual x0 is
   followed by [rnd] = rounding to nearest even in binary64 (FLT_exp (-1074) 53, i.e. gradual underflow
   included).  Interval 4.6 evaluates Flocq's [round] directly (interval enlarged by the rounding error),
   bisection on x0.  The exact-arithmetic maximum is 1 - 1.6e-4, the accumulated rounding error of the
   14 operations is below 1e-14. *)
Require Import Reals.
From Flocq Require Import Core.
From Interval Require Import Tactic.
Open Scope R_scope.

Notation rnd := (round radix2 (FLT_exp (3 - 1024 - 53) 53) ZnearestE).

(* the literal 0.395 as binary64: 0x3FD947AE147AE148 = 7115687411245384 * 2^-54 *)
Definition scale64 : R := 7115687411245384 / 18014398509481984.

(* one corner: t = 1 - x*x; t *= t; n = t * t * (g * x)   (every operation rounded) *)
Definition corner_rnd (x g : R) : R :=
  let t := rnd (1 - rnd (x * x)) in
  let t := rnd (t * t) in
  rnd (rnd (t * t) * rnd (g * x)).

(* 0.395 * (n0 + n1) before the last rounding; x1 = rnd (x0 - 1) *)
Definition simplex_rnd (x0 g0 g1 : R) : R :=
  scale64 * rnd (corner_rnd x0 g0 + corner_rnd (rnd (x0 - 1)) g1).

Lemma simplex_core_rnd (x0 g0 g1 : R) : 0 <= x0 <= 1 -> -8 <= g0 <= 8 -> -8 <= g1 <= 8 ->
  -1 <= simplex_rnd x0 g0 g1 <= 1.
Proof.
  intros H0 H1 H2. unfold simplex_rnd, corner_rnd, scale64.
  interval with (i_bisect x0, i_depth 40, i_prec 60).
Qed.

(* the margin that is left (not needed for the range theorem; recorded for the reader) *)
Lemma simplex_core_rnd_margin (x0 g0 g1 : R) : 0 <= x0 <= 1 -> -8 <= g0 <= 8 -> -8 <= g1 <= 8 ->
  Rabs (simplex_rnd x0 g0 g1) <= 1 - 1 / 10000.
Proof.
  intros H0 H1 H2. unfold simplex_rnd, corner_rnd, scale64.
  interval with (i_bisect x0, i_depth 40, i_prec 60).
Qed.
