(* Proofs about the bus model: the invariant is kept by every operation, each operation refines
   the per-output stream positions, and the lifting to arbitrary finite schedules. *)
Require Import List Arith Lia Bool.
From Dasp Require Import Base.Res Signal.Bus Signal.BusSpec.
Import ListNotations.

(* ---- association-list lemmas ---- *)
Lemma lookup_remove_eq k m : lookup k (remove k m) = None.
Proof. induction m as [|[k' v] t IH]; simpl; auto. destruct (Nat.eqb_spec k k'); simpl; auto.
  destruct (Nat.eqb_spec k k'); congruence. Qed.
Lemma lookup_remove_neq k k' m : k <> k' -> lookup k (remove k' m) = lookup k m.
Proof. intros H. induction m as [|[k2 v] t IH]; simpl; auto.
  destruct (Nat.eqb_spec k' k2); simpl.
  - subst. destruct (Nat.eqb_spec k k2); [congruence|auto].
  - destruct (Nat.eqb_spec k k2); auto. Qed.
Lemma lookup_In k v m : lookup k m = Some v -> In (k, v) m.
Proof. induction m as [|[k' v'] t IH]; simpl; [discriminate|].
  destruct (Nat.eqb_spec k k'); [intros [= ->]; subst; now left|intros H; right; auto]. Qed.
Lemma In_lookup k v m : NoDup (keys m) -> In (k, v) m -> lookup k m = Some v.
Proof. induction m as [|[k' v'] t IH]; simpl; [intros _ []|]. intros ND [E|H].
  - injection E as -> ->. now rewrite Nat.eqb_refl.
  - inversion ND; subst. destruct (Nat.eqb_spec k k') as [->|]; [|auto].
    exfalso. apply H2. change k' with (fst (k', v)). now apply in_map. Qed.
Lemma keys_remove k m x : In x (keys (remove k m)) <-> In x (keys m) /\ x <> k.
Proof. induction m as [|[k' v] t IH]; simpl; [tauto|].
  destruct (Nat.eqb_spec k k'); simpl; rewrite ?IH; subst; intuition congruence. Qed.
Lemma nodup_remove k m : NoDup (keys m) -> NoDup (keys (remove k m)).
Proof. induction m as [|[k' v] t IH]; simpl; auto. intros ND; inversion ND; subst.
  destruct (Nat.eqb_spec k k'); simpl; auto. constructor; auto. rewrite keys_remove. tauto. Qed.
Lemma nodup_insert k v m : NoDup (keys m) -> NoDup (keys (insert k v m)).
Proof. intros ND. unfold insert; simpl. constructor; [rewrite keys_remove; tauto|now apply nodup_remove]. Qed.
Lemma lookup_insert k v m k2 : lookup k2 (insert k v m) = if k2 =? k then Some v else lookup k2 m.
Proof. unfold insert; simpl. destruct (Nat.eqb_spec k2 k); auto. now apply lookup_remove_neq. Qed.
Lemma lookup_map g k m : lookup k (map (fun kv => (fst kv, g (snd kv))) m) = option_map g (lookup k m).
Proof. induction m as [|[k' v] t IH]; simpl; auto. destruct (k =? k'); auto. Qed.
Lemma keys_map g m : keys (map (fun kv : nat * nat => (fst kv, g (snd kv))) m) = keys m.
Proof. unfold keys. rewrite map_map. reflexivity. Qed.
Lemma lookup_keys k m : lookup k m <> None -> In k (keys m).
Proof. destruct (lookup k m) as [v|] eqn:E; [|congruence]. intros _. apply lookup_In in E.
  change k with (fst (k, v)). now apply in_map. Qed.

Lemma sub_all_ok d m : (forall k v, In (k, v) m -> d <= v) ->
  sub_all d m = Ok (map (fun kv => (fst kv, snd kv - d)) m).
Proof. intros H. unfold sub_all.
  assert (E : forallb (fun kv => d <=? snd kv) m = true).
  { apply forallb_forall. intros [k v] Hin. apply Nat.leb_le. simpl. eauto. }
  now rewrite E. Qed.

Lemma map_sub0 (m : fmap) : map (fun kv => (fst kv, snd kv - 0)) m = m.
Proof. induction m as [|[k v] t IH]; simpl; [reflexivity|]. rewrite IH, Nat.sub_0_r. reflexivity. Qed.

Lemma fold_min_spec (bound : nat) (vs : list nat) :
  let m := fold_right Nat.min bound vs in
  m <= bound /\ (forall v, In v vs -> m <= v) /\ (m = bound \/ In m vs).
Proof.
  induction vs as [|a vs IH]; simpl; [intuition lia|].
  destruct IH as (H1 & H2 & H3). repeat split.
  - lia.
  - intros v [<-|Hv]; [lia|]. specialize (H2 v Hv). lia.
  - destruct (Nat.min_spec a (fold_right Nat.min bound vs)) as [[_ ->]|[_ ->]]; [right; now left|].
    destruct H3; [now left|right; now right].
Qed.

Lemma fold_left_min (bound : nat) (vs : list nat) :
  fold_left Nat.min vs bound = fold_right Nat.min bound vs.
Proof. apply fold_symmetric; intros; [apply Nat.min_assoc|apply Nat.min_comm]. Qed.

Section Proofs.
Context {F : Type} (f : nat -> F).
Notation st := (@st F).
Notation ev := (@ev F).
Notation Inv := (Inv f).

Lemma nth_error_tl (l : list F) i : nth_error (tl l) i = nth_error l (S i).
Proof. destruct l; simpl; auto. now destruct i. Qed.
Lemma nth_error_skipn m (l : list F) i : nth_error (skipn m l) i = nth_error l (m + i).
Proof. revert l; induction m as [|m IH]; intros [|a l]; simpl; auto. now destruct i. Qed.
Lemma skipn_S_tl m (l : list F) : skipn (S m) l = tl (skipn m l).
Proof. revert l; induction m as [|m IH]; intros [|a l]; try reflexivity.
  change (skipn (S (S m)) (a :: l)) with (skipn (S m) l). rewrite IH. reflexivity. Qed.
Lemma iter_tl_skipn m (l : list F) : Nat.iter m (@tl F) l = skipn m l.
Proof. induction m as [|m IH]; [reflexivity|]. rewrite skipn_S_tl, <- IH. reflexivity. Qed.

Lemma existsb_false_forall (g : nat * nat -> bool) m :
  existsb g m = false -> forall kv, In kv m -> g kv = false.
Proof. intros H kv Hin. destruct (g kv) eqn:E; auto.
  assert (existsb g m = true) by (apply existsb_exists; eauto). congruence. Qed.

Lemma list_is_seq (l : list F) b :
  (forall i, i < length l -> nth_error l i = Some (f (b + i))) -> l = map f (seq b (length l)).
Proof. revert b; induction l as [|x t IH]; intros b H; [reflexivity|]. cbn [length seq map]. f_equal.
  - specialize (H 0 (Nat.lt_0_succ _)). simpl in H. rewrite Nat.add_0_r in H. congruence.
  - apply IH. intros i Hi. specialize (H (S i)). cbn [length nth_error] in H.
    rewrite H by lia. do 2 f_equal. lia. Qed.

Lemma pos_live (s : st) k : pos s k <> None <-> is_live s k.
Proof. unfold pos, is_live. destruct (lookup k (fr s)); simpl; split; congruence. Qed.

Lemma inv_init : Inv init.
Proof. constructor; simpl; auto; try (intros; discriminate || lia || contradiction).
  all: try constructor. all: try (intros H; congruence). Qed.

(* ---- Bus::send ---- *)
Theorem send_inv s : Inv s -> Inv (fst (send s)) /\
  pos (fst (send s)) (snd (send s)) = Some (pulled s) /\
  (forall k, k <> nk s -> pos (fst (send s)) k = pos s k).
Proof.
  intros I. unfold send; simpl. split; [|split].
  - constructor; cbn [fr pulled buf nk fst snd].
    + apply nodup_insert, (i_nodup _ _ I).
    + intros k r. rewrite lookup_insert. destruct (Nat.eqb_spec k (nk s)); [intros [= <-]; lia|apply (i_le _ _ I)].
    + apply (i_len _ _ I).
    + apply (i_buf _ _ I).
    + unfold insert; intros H; discriminate.
    + intros _. destruct (fr s) as [|kv t] eqn:E.
      * rewrite (i_empty _ _ I E). exists (nk s). simpl. now rewrite Nat.eqb_refl.
      * destruct (i_min _ _ I) as [k Hk]; [rewrite E; discriminate|].
        exists k. rewrite lookup_insert. destruct (Nat.eqb_spec k (nk s)) as [->|]; [|rewrite <- E; exact Hk].
        exfalso. assert (nk s < nk s); [|lia]. apply (i_keys _ _ I).
        apply lookup_In in Hk. change (nk s) with (fst (nk s, 0)). now apply in_map.
    + unfold insert, keys; simpl. intros k [<-|H]; [lia|]. apply keys_remove in H. pose proof (i_keys _ _ I k (proj1 H)). lia.
  - unfold pos, base; cbn [fr pulled buf nk fst snd]. rewrite lookup_insert, Nat.eqb_refl. simpl. f_equal. pose proof (i_len _ _ I). lia.
  - intros k Hk. unfold pos, base; cbn [fr pulled buf nk fst snd]. rewrite lookup_insert. destruct (Nat.eqb_spec k (nk s)); [congruence|reflexivity].
Qed.

(* ---- SharedNode::next_frame ---- *)
Lemma read_or_pull_ok s r : Inv s -> r <= length (buf s) ->
  exists buf1 pulled1, read_or_pull f s r = Ok (f (base s + r), buf1, pulled1) /\
    pulled1 - length buf1 = base s /\ length buf1 <= pulled1 /\ r < length buf1 /\
    length (buf s) <= length buf1 /\
    (forall i, i < length buf1 -> nth_error buf1 i = Some (f (base s + i))) /\
    pulled1 = Nat.max (pulled s) (S (base s + r)).
Proof.
  intros I Hrle. pose proof (i_len _ _ I) as Hlen. unfold read_or_pull, base in *.
  destruct (Nat.ltb_spec r (length (buf s))) as [Hlt|Hge].
  - unfold get_checked. rewrite (i_buf _ _ I r Hlt). cbn [bind]. unfold base.
    exists (buf s), (pulled s). repeat split; auto; try lia. apply (i_buf _ _ I).
  - assert (r = length (buf s)) by lia. subst r.
    assert (Hpp : pulled s - length (buf s) + length (buf s) = pulled s) by lia.
    exists (buf s ++ [f (pulled s)]), (S (pulled s)). rewrite app_length; cbn [length]. rewrite Hpp.
    split; [reflexivity|]. repeat split; try lia.
    intros i Hi. destruct (Nat.eq_dec i (length (buf s))) as [->|].
    + rewrite nth_error_app2, Nat.sub_diag by lia. simpl. rewrite Hpp. reflexivity.
    + rewrite nth_error_app1 by lia. apply (i_buf _ _ I). lia.
Qed.

Theorem next_inv s key p : Inv s -> pos s key = Some p ->
  exists s', next_frame f s key = Ok (s', f p) /\ Inv s' /\
    pos s' key = Some (S p) /\ (forall k, k <> key -> pos s' k = pos s k) /\
    pulled s' = Nat.max (pulled s) (S p) /\ nk s' = nk s.
Proof.
  intros I Hp. unfold pos in Hp. destruct (lookup key (fr s)) as [r|] eqn:Hr; [|discriminate].
  injection Hp as <-. unfold next_frame. rewrite Hr.
  pose proof (i_le _ _ I key r Hr) as Hrle. pose proof (i_len _ _ I) as Hlen.
  set (fr1 := remove key (fr s)).
  assert (ND1 : NoDup (keys fr1)) by (apply nodup_remove, (i_nodup _ _ I)).
  assert (Hl1 : forall k, k <> key -> lookup k fr1 = lookup k (fr s)) by (intros; now apply lookup_remove_neq).
  assert (Hin1 : forall k v, In (k, v) fr1 -> k <> key /\ lookup k (fr s) = Some v).
  { intros k v Hin. assert (Hk : In k (keys fr1)) by (change k with (fst (k, v)); now apply in_map).
    apply keys_remove in Hk. split; [tauto|]. rewrite <- Hl1 by tauto. now apply In_lookup. }
  destruct (read_or_pull_ok s r I Hrle) as (buf1 & pulled1 & Hrd & Hb & Hl & Hrl & Hmono & Hbuf1 & Hpm).
  rewrite Hrd. cbn [bind].
  destruct (existsb (fun kv => snd kv <=? r) fr1) eqn:Hex; cbn [negb].
  - (* some other output is at or behind us: keep the frame, advance our offset *)
    eexists. split; [reflexivity|].
    apply existsb_exists in Hex. destruct Hex as [[k' v'] [Hin' Hv']]. simpl in Hv'. apply Nat.leb_le in Hv'.
    destruct (Hin1 k' v' Hin') as [Hk' Hlk'].
    split; [|split; [|split; [|split]]].
    + constructor; cbn [fr pulled buf nk].
      * apply nodup_insert, ND1.
      * intros k v. rewrite lookup_insert. destruct (Nat.eqb_spec k key); [intros [= <-]; lia|].
        rewrite Hl1 by assumption. intros H. apply (i_le _ _ I) in H. lia.
      * exact Hl.
      * intros i Hi. unfold base; cbn [pulled buf]. rewrite Hb. now apply Hbuf1.
      * unfold insert; discriminate.
      * intros _. destruct (i_min _ _ I) as [k0 Hk0]; [intros E; rewrite E in Hr; discriminate|].
        destruct (Nat.eq_dec k0 key) as [->|Hne].
        -- assert (r = 0) by congruence. subst r. assert (v' = 0) by lia. subst v'.
           exists k'. rewrite lookup_insert. destruct (Nat.eqb_spec k' key); [congruence|].
           rewrite Hl1 by assumption. assumption.
        -- exists k0. rewrite lookup_insert. destruct (Nat.eqb_spec k0 key); [congruence|].
           rewrite Hl1 by assumption. assumption.
      * intros k Hk. unfold insert, keys in Hk; simpl in Hk. destruct Hk as [<-|Hk].
        -- apply (i_keys _ _ I). apply lookup_In in Hr. change key with (fst (key, r)). now apply in_map.
        -- fold (keys (remove key fr1)) in Hk. apply keys_remove in Hk. destruct Hk as [Hk _].
           apply keys_remove in Hk. apply (i_keys _ _ I). tauto.
    + unfold pos, base in *; cbn [fr pulled buf]. rewrite lookup_insert, Nat.eqb_refl. simpl. f_equal. lia.
    + intros k Hk. unfold pos, base in *; cbn [fr pulled buf]. rewrite lookup_insert.
      destruct (Nat.eqb_spec k key); [congruence|]. rewrite Hb, Hl1 by assumption. reflexivity.
    + cbn [pulled]. exact Hpm.
    + reflexivity.
  - (* we were the only slowest reader: pop the front frame, shift everybody else *)
    pose proof (existsb_false_forall _ _ Hex) as Hall.
    assert (Hgt : forall k v, In (k, v) fr1 -> r < v).
    { intros k v Hin. specialize (Hall (k, v) Hin). simpl in Hall. apply Nat.leb_gt in Hall. exact Hall. }
    rewrite sub_all_ok by (intros k v Hin; apply Hgt in Hin; lia). cbn [bind].
    eexists. split; [reflexivity|].
    assert (Hr0 : r = 0).
    { destruct (i_min _ _ I) as [k0 Hk0]; [intros E; rewrite E in Hr; discriminate|].
      destruct (Nat.eq_dec k0 key) as [->|Hne]; [congruence|].
      rewrite <- Hl1 in Hk0 by assumption. apply lookup_In, Hgt in Hk0. lia. }
    subst r. unfold base in Hb, Hbuf1, Hpm.
    assert (Hlk1 : forall k v, lookup k fr1 = Some v -> 1 <= v) by (intros k v H; apply lookup_In, Hgt in H; lia).
    split; [|split; [|split; [|split]]].
    + constructor; cbn [fr pulled buf nk].
      * apply nodup_insert. rewrite (keys_map (fun v => v - 1)). exact ND1.
      * intros k v. rewrite lookup_insert. destruct (Nat.eqb_spec k key); [intros [= <-]; lia|].
        rewrite (lookup_map (fun v => v - 1)). destruct (lookup k fr1) as [v0|] eqn:E; [|discriminate]. intros [= <-].
        rewrite Hl1 in E by assumption. apply (i_le _ _ I) in E.
        destruct buf1; cbn [length tl] in *; lia.
      * destruct buf1; cbn [length tl] in *; lia.
      * intros i Hi. rewrite nth_error_tl. unfold base; cbn [pulled buf].
        destruct buf1 as [|b0 bt]; [cbn [length] in Hrl; lia|]. cbn [length tl] in *.
        rewrite Hbuf1 by lia. do 2 f_equal. lia.
      * unfold insert; discriminate.
      * intros _. exists key. rewrite lookup_insert, Nat.eqb_refl. reflexivity.
      * intros k Hk. unfold insert, keys in Hk; simpl in Hk. destruct Hk as [<-|Hk].
        -- apply (i_keys _ _ I). apply lookup_In in Hr. change key with (fst (key, 0)). now apply in_map.
        -- fold (keys (remove key (map (fun kv => (fst kv, snd kv - 1)) fr1))) in Hk.
           apply keys_remove in Hk. rewrite (keys_map (fun v => v - 1)) in Hk. destruct Hk as [Hk _].
           apply keys_remove in Hk. apply (i_keys _ _ I). tauto.
    + unfold pos, base; cbn [fr pulled buf]. rewrite lookup_insert, Nat.eqb_refl. cbn [option_map]. f_equal.
      destruct buf1; cbn [length tl] in *; lia.
    + intros k Hk. unfold pos, base; cbn [fr pulled buf]. rewrite lookup_insert.
      destruct (Nat.eqb_spec k key); [congruence|]. rewrite (lookup_map (fun v => v - 1)), Hl1 by assumption.
      destruct (lookup k (fr s)) as [v|] eqn:E; [|reflexivity]. cbn [option_map]. f_equal.
      rewrite <- Hl1 in E by assumption. apply Hlk1 in E.
      destruct buf1; cbn [length tl] in *; lia.
    + cbn [pulled]. exact Hpm.
    + reflexivity.
Qed.

(* an unknown (never sent or dropped) key: the expect fires *)
Lemma next_unknown s key : lookup key (fr s) = None -> next_frame f s key = Panic PExpect.
Proof. intros H. unfold next_frame. now rewrite H. Qed.

(* ---- SharedNode::pending_frames ---- *)
Theorem pending_ok s key p : Inv s -> pos s key = Some p ->
  pending_frames s key = Ok (pulled s - p) /\ p <= pulled s.
Proof.
  intros I Hp. unfold pos, base in Hp. destruct (lookup key (fr s)) as [r|] eqn:Hr; [|discriminate].
  injection Hp as <-. pose proof (i_le _ _ I key r Hr). pose proof (i_len _ _ I).
  unfold pending_frames. rewrite Hr. destruct (Nat.leb_spec r (length (buf s))); [|lia].
  split; [f_equal; lia|lia].
Qed.

(* ---- SharedNode::drop_output ---- *)
Definition drop_spec (s : st) (key : nat) : st :=
  let fr1 := remove key (fr s) in
  let m := fold_right Nat.min (length (buf s)) (vals fr1) in
  {| pulled := pulled s; buf := skipn m (buf s); fr := map (fun kv => (fst kv, snd kv - m)) fr1; nk := nk s |}.

Lemma drop_output_eq s key : drop_output s key = Ok (drop_spec s key).
Proof.
  unfold drop_output, drop_spec. rewrite fold_left_min.
  pose proof (fold_min_spec (length (buf s)) (vals (remove key (fr s)))) as Hm. cbv zeta in Hm.
  set (m := fold_right Nat.min (length (buf s)) (vals (remove key (fr s)))) in *.
  destruct Hm as (_ & Hmin & _).
  destruct (Nat.ltb_spec 0 m) as [Hpos|Hz].
  - rewrite sub_all_ok.
    + cbn [bind]. rewrite iter_tl_skipn. reflexivity.
    + intros k v Hin. apply Hmin. change v with (snd (k, v)). now apply in_map.
  - assert (m = 0) by lia. replace m with 0 by assumption. rewrite map_sub0. reflexivity.
Qed.

Theorem drop_spec_inv s key : Inv s ->
  let s' := drop_spec s key in
  Inv s' /\ lookup key (fr s') = None /\ pulled s' = pulled s /\ nk s' = nk s /\
  (forall k, k <> key -> pos s' k = pos s k).
Proof.
  intros I s'. unfold s', drop_spec.
  set (fr1 := remove key (fr s)).
  pose proof (fold_min_spec (length (buf s)) (vals fr1)) as Hm. cbv zeta in Hm.
  set (m := fold_right Nat.min (length (buf s)) (vals fr1)) in *.
  destruct Hm as (Hmb & Hmin & Hatt). pose proof (i_len _ _ I) as Hlen.
  assert (ND1 : NoDup (keys fr1)) by (apply nodup_remove, (i_nodup _ _ I)).
  assert (Hl1 : forall k, k <> key -> lookup k fr1 = lookup k (fr s)) by (intros; now apply lookup_remove_neq).
  assert (Hv1 : forall k v, lookup k fr1 = Some v -> m <= v /\ v <= length (buf s)).
  { intros k v H. split.
    - apply Hmin. apply lookup_In in H. change v with (snd (k, v)). now apply in_map.
    - destruct (Nat.eq_dec k key) as [->|Hne]; [unfold fr1 in H; rewrite lookup_remove_eq in H; discriminate|].
      rewrite Hl1 in H by assumption. now apply (i_le _ _ I) in H. }
  split; [|split; [|split; [|split]]].
  - constructor; cbn [fr pulled buf nk].
    + rewrite (keys_map (fun v => v - m)). exact ND1.
    + intros k v. rewrite (lookup_map (fun v => v - m)). destruct (lookup k fr1) as [v0|] eqn:E; [|discriminate].
      intros [= <-]. apply Hv1 in E. rewrite skipn_length. lia.
    + rewrite skipn_length. lia.
    + intros i Hi. rewrite skipn_length in Hi. rewrite nth_error_skipn. unfold base; cbn [pulled buf].
      rewrite skipn_length. rewrite (i_buf _ _ I) by lia. unfold base. do 2 f_equal. lia.
    + intros H. apply map_eq_nil in H. destruct Hatt as [Hatt|Hatt].
      * apply length_zero_iff_nil. rewrite skipn_length. lia.
      * unfold vals in Hatt. rewrite H in Hatt. destruct Hatt.
    + intros H. destruct Hatt as [Hatt|Hatt].
      * (* m = |buf|: every remaining offset equals |buf|, any key works *)
        destruct fr1 as [|[k v] t] eqn:E; [exfalso; apply H; reflexivity|].
        exists k. rewrite (lookup_map (fun v => v - m)). simpl. rewrite Nat.eqb_refl. simpl. f_equal.
        assert (Hk : lookup k ((k, v) :: t) = Some v) by (simpl; now rewrite Nat.eqb_refl).
        apply Hv1 in Hk. lia.
      * unfold vals in Hatt. apply in_map_iff in Hatt. destruct Hatt as [[k v] [Hv Hin]]. simpl in Hv. subst v.
        exists k. rewrite (lookup_map (fun v => v - m)). rewrite (In_lookup k m fr1 ND1 Hin). simpl. f_equal. lia.
    + intros k Hk. rewrite (keys_map (fun v => v - m)) in Hk. apply keys_remove in Hk. apply (i_keys _ _ I). tauto.
  - cbn [fr]. rewrite (lookup_map (fun v => v - m)). unfold fr1. now rewrite lookup_remove_eq.
  - reflexivity.
  - reflexivity.
  - intros k Hk. unfold pos, base; cbn [fr pulled buf]. rewrite (lookup_map (fun v => v - m)), Hl1 by assumption.
    destruct (lookup k (fr s)) as [v|] eqn:E; [|reflexivity]. cbn [option_map]. f_equal.
    rewrite <- Hl1 in E by assumption. apply Hv1 in E. rewrite skipn_length. lia.
Qed.

Theorem drop_inv s key : Inv s ->
  exists s', drop_output s key = Ok s' /\ Inv s' /\ lookup key (fr s') = None /\
    pulled s' = pulled s /\ nk s' = nk s /\ (forall k, k <> key -> pos s' k = pos s k).
Proof. intros I. exists (drop_spec s key). split; [apply drop_output_eq|]. now apply drop_spec_inv. Qed.

(* ---- the backlog holds exactly what the slowest live output still needs ---- *)
Theorem backlog_is_slowest_lag s : Inv s ->
  buf s = map f (seq (pulled s - length (buf s)) (length (buf s))) /\
  length (buf s) <= pulled s /\
  (fr s = [] -> buf s = []) /\
  (forall k p, pos s k = Some p -> p <= pulled s /\ pulled s - p <= length (buf s)) /\
  (fr s <> [] -> exists k, pos s k = Some (pulled s - length (buf s))).
Proof.
  intros I. split; [apply list_is_seq, (i_buf _ _ I)|]. split; [apply (i_len _ _ I)|].
  split; [apply (i_empty _ _ I)|split].
  - intros k p. unfold pos, base. destruct (lookup k (fr s)) eqn:E; [|discriminate]. intros [= <-].
    pose proof (i_len _ _ I). pose proof (i_le _ _ I k n E). lia.
  - intros H. destruct (i_min _ _ I H) as [k Hk]. exists k. unfold pos, base. rewrite Hk. simpl. f_equal. lia.
Qed.

End Proofs.
