(* Every definition of the GENERATED model of the Fork adaptor (gen/ForkGen.v, regenerated from
   dasp_signal/src/lib.rs by translate/sig2coq.py on every run: Signal::fork, Fork::by_rc / by_ref, and next /
   pending_frames / is_exhausted of the four branch types the macro define_branch! expands to; ring-buffer calls go to
   the generated ring methods of gen/RingGen.v) equals the corresponding definition of the hand model (Signal/Fork.v over
   Ring/Bounded.v) -- for ALL inputs, valid or not, including which panic / UB comes out -- when the abstract source is
   instantiated with the hand model's source (a stream function with a pull counter).  The ring layer is crossed with the
   lemmas of Ring/RingGenEquiv.v (the components of c06_gen_bounded_agrees).  Hence the interpreter built on the
   generated methods (Signal/ForkGenGlue.v) equals [fstep]/[frun] whichever pair of branch types is in use, and the
   theorems of ForkProofs are theorems about the regenerated model.

   The proofs are not syntactic: they rewrite the generated ring calls into the hand ring model, then split on the flag
   and on every result. *)
Require Import List Arith Bool Lia.
From Dasp Require Import Base.Res Base.ListX Ring.Bounded Ring.BoundedSpec Ring.BoundedProofs Ring.RingPrim
  Ring.RingGenGlue Ring.RingGenEquiv Signal.SigGenPrim Signal.Fork Signal.ForkSpec Signal.ForkProofs
  Signal.ForkGenGlue.
From DaspGen Require Import RingGen ForkGen.
Import ListNotations.

Section Equiv.
Context {A : Type}.
Notation gf := (fork_g (source A) A).
Notation gnext := (@src_next A).
Notation gpulls := (@pulls A).

(* the two representations of ForkShared { signal, ring_buffer, pending } *)
Definition to_g (f : shared A) : gf :=
  {| fg_signal := signal f; fg_ring_buffer := ring_buffer f; fg_pending := pending f |}.
Definition of_g (g : gf) : shared A :=
  {| signal := fg_signal g; ring_buffer := fg_ring_buffer g; pending := fg_pending g |}.

Lemma of_to f : of_g (to_g f) = f.
Proof. destruct f; reflexivity. Qed.
Lemma to_of g : to_g (of_g g) = g.
Proof. destruct g; reflexivity. Qed.

Ltac ring_calls :=
  rewrite ?Bounded_push_eq, ?Bounded_pop_eq, ?Bounded_len_eq, ?Bounded_max_len_eq, ?Bounded_is_empty_eq,
    ?Bounded_is_full_eq, ?Bounded_get_eq, ?Bounded_iter_eq, ?Bounded_slices_eq.

Ltac fields :=
  cbn [bind rmap fst snd of_g to_g signal ring_buffer pending fg_signal fg_ring_buffer fg_pending
       with_fg_signal with_fg_ring_buffer with_fg_pending src_next sfn pulls negb Bool.eqb] in *.

(* one branch method: unfold both sides, split on the flag, cross the ring layer, split on every ring result *)
Ltac branch_method :=
  intros [s b p]; unfold next, pull_push, pending_frames, Fork_A, Fork_B, BrA, BrB; fields; ring_calls;
  destruct p; fields; ring_calls; try reflexivity;
  repeat (match goal with
          | |- context [pop ?x] => destruct (pop x) as [[? [?|]]| |]
          | |- context [push ?x ?y] => destruct (push x y) as [[? ?]| |]
          end; fields; ring_calls; try reflexivity).

(* ---------------------------------------------------------------- method by method *)

Lemma Fork_consts : @Fork_A = BrA /\ @Fork_B = BrB.
Proof. split; reflexivity. Qed.

Lemma Signal_fork_eq (s : source A) (rb : bounded A) : Signal_fork s rb = rmap to_g (fork s rb).
Proof.
  unfold Signal_fork, fork, Fork_B, BrB. ring_calls. cbn [bind].
  destruct (is_empty rb); reflexivity.
Qed.

Lemma Fork_by_rc_eq (g : gf) : Fork_by_rc g = Ok (to_g (by_rc (of_g g)), to_g (by_rc (of_g g))).
Proof. unfold by_rc. rewrite to_of. reflexivity. Qed.

Lemma Fork_by_ref_eq (g : gf) :
  Fork_by_ref g = Ok (g, (to_g (by_ref (of_g g)), to_g (by_ref (of_g g)))).
Proof. unfold by_ref. rewrite to_of. reflexivity. Qed.

Lemma BranchRcA_next_eq : forall g : gf,
  BranchRcA_next gnext g = rmap (fun r => (to_g (fst r), snd r)) (next BrA (of_g g)).
Proof. unfold BranchRcA_next. branch_method. Qed.
Lemma BranchRefA_next_eq : forall g : gf,
  BranchRefA_next gnext g = rmap (fun r => (to_g (fst r), snd r)) (next BrA (of_g g)).
Proof. unfold BranchRefA_next. branch_method. Qed.
Lemma BranchRcB_next_eq : forall g : gf,
  BranchRcB_next gnext g = rmap (fun r => (to_g (fst r), snd r)) (next BrB (of_g g)).
Proof. unfold BranchRcB_next. branch_method. Qed.
Lemma BranchRefB_next_eq : forall g : gf,
  BranchRefB_next gnext g = rmap (fun r => (to_g (fst r), snd r)) (next BrB (of_g g)).
Proof. unfold BranchRefB_next. branch_method. Qed.

Lemma BranchRcA_pending_frames_eq : forall g : gf, BranchRcA_pending_frames g = Ok (pending_frames BrA (of_g g)).
Proof. unfold BranchRcA_pending_frames. branch_method. Qed.
Lemma BranchRefA_pending_frames_eq : forall g : gf, BranchRefA_pending_frames g = Ok (pending_frames BrA (of_g g)).
Proof. unfold BranchRefA_pending_frames. branch_method. Qed.
Lemma BranchRcB_pending_frames_eq : forall g : gf, BranchRcB_pending_frames g = Ok (pending_frames BrB (of_g g)).
Proof. unfold BranchRcB_pending_frames. branch_method. Qed.
Lemma BranchRefB_pending_frames_eq : forall g : gf, BranchRefB_pending_frames g = Ok (pending_frames BrB (of_g g)).
Proof. unfold BranchRefB_pending_frames. branch_method. Qed.

(* the branch types inherit the default method of trait Signal *)
Lemma Branch_is_exhausted_eq (g : gf) (x : bool) :
  BranchRcA_is_exhausted g = Ok (branch_is_exhausted x (of_g g)) /\
  BranchRefA_is_exhausted g = Ok (branch_is_exhausted x (of_g g)) /\
  BranchRcB_is_exhausted g = Ok (branch_is_exhausted x (of_g g)) /\
  BranchRefB_is_exhausted g = Ok (branch_is_exhausted x (of_g g)).
Proof. repeat split; reflexivity. Qed.

(* ---------------------------------------------------------------- the caller's dispatch and the interpreter *)

Lemma g_next_eq rc x (g : gf) :
  g_next gnext rc x g = rmap (fun r => (to_g (fst r), snd r)) (next x (of_g g)).
Proof.
  destruct rc, x; cbn [g_next].
  - apply BranchRcA_next_eq.
  - apply BranchRcB_next_eq.
  - apply BranchRefA_next_eq.
  - apply BranchRefB_next_eq.
Qed.

Lemma g_pending_eq rc x (g : gf) : g_pending rc x g = Ok (pending_frames x (of_g g)).
Proof.
  destruct rc, x; cbn [g_pending].
  - apply BranchRcA_pending_frames_eq.
  - apply BranchRcB_pending_frames_eq.
  - apply BranchRefA_pending_frames_eq.
  - apply BranchRefB_pending_frames_eq.
Qed.

Lemma g_exhausted_eq rc x (g : gf) : g_exhausted rc x g = Ok (branch_is_exhausted x (of_g g)).
Proof. destruct rc, x; reflexivity. Qed.

Lemma g_observe_eq rc (g : gf) v : g_observe gpulls rc g v = Ok (observe (of_g g) v).
Proof. unfold g_observe, observe. rewrite !g_pending_eq. destruct g; reflexivity. Qed.

(* which pair of branch types is in use after the operation *)
Definition mode_after (rc : bool) (o : fop) : bool :=
  match o with OByRef => false | OByRc => true | _ => rc end.

Theorem gen_fstep_eq rc (g : gf) (o : fop) :
  gen_fstep gnext gpulls rc g o =
  rmap (fun r => (mode_after rc o, to_g (fst r), snd r)) (fstep (of_g g) o).
Proof.
  unfold gen_fstep, fstep; destruct o; cbn [mode_after].
  - rewrite g_next_eq. destruct (next x (of_g g)) as [[f' a]| |]; cbn [bind rmap fst snd]; try reflexivity.
    rewrite g_observe_eq, of_to. reflexivity.
  - rewrite g_pending_eq. cbn [bind]. rewrite g_observe_eq. cbn [bind rmap fst snd]. now rewrite to_of.
  - rewrite g_exhausted_eq. cbn [bind]. rewrite g_observe_eq. cbn [bind rmap fst snd]. now rewrite to_of.
  - rewrite Fork_by_ref_eq. cbn [bind]. rewrite g_observe_eq, of_to. reflexivity.
  - rewrite Fork_by_rc_eq. cbn [bind]. rewrite g_observe_eq, of_to. reflexivity.
Qed.

Theorem gen_frun_eq (ops : list fop) : forall rc (g : gf),
  gen_frun gnext gpulls rc g ops =
  rmap (fun r => (fold_left mode_after ops rc, to_g (fst r), snd r)) (frun (of_g g) ops).
Proof.
  induction ops as [|o t IH]; intros rc g.
  - cbn [gen_frun frun rmap fst snd fold_left]. now rewrite to_of.
  - cbn [gen_frun frun fold_left]. rewrite gen_fstep_eq.
    destruct (fstep (of_g g) o) as [[f' v]| |]; cbn [bind rmap fst snd]; try reflexivity.
    rewrite IH, of_to. destruct (frun f' t) as [[f'' vs]| |]; reflexivity.
Qed.

(* ---------------------------------------------------------------- the statements props/C12.v pins *)

Definition fork_methods_agree : Prop :=
  (@Fork_A = BrA /\ @Fork_B = BrB) /\
  (forall (s : source A) (rb : bounded A), Signal_fork s rb = rmap to_g (fork s rb)) /\
  (forall g : gf, Fork_by_rc g = Ok (to_g (by_rc (of_g g)), to_g (by_rc (of_g g)))) /\
  (forall g : gf, Fork_by_ref g = Ok (g, (to_g (by_ref (of_g g)), to_g (by_ref (of_g g))))) /\
  (forall g : gf, BranchRcA_next gnext g = rmap (fun r => (to_g (fst r), snd r)) (next BrA (of_g g))) /\
  (forall g : gf, BranchRefA_next gnext g = rmap (fun r => (to_g (fst r), snd r)) (next BrA (of_g g))) /\
  (forall g : gf, BranchRcB_next gnext g = rmap (fun r => (to_g (fst r), snd r)) (next BrB (of_g g))) /\
  (forall g : gf, BranchRefB_next gnext g = rmap (fun r => (to_g (fst r), snd r)) (next BrB (of_g g))) /\
  (forall g : gf, BranchRcA_pending_frames g = Ok (pending_frames BrA (of_g g))) /\
  (forall g : gf, BranchRefA_pending_frames g = Ok (pending_frames BrA (of_g g))) /\
  (forall g : gf, BranchRcB_pending_frames g = Ok (pending_frames BrB (of_g g))) /\
  (forall g : gf, BranchRefB_pending_frames g = Ok (pending_frames BrB (of_g g))) /\
  (forall (g : gf) (x : bool),
     BranchRcA_is_exhausted g = Ok (branch_is_exhausted x (of_g g)) /\
     BranchRefA_is_exhausted g = Ok (branch_is_exhausted x (of_g g)) /\
     BranchRcB_is_exhausted g = Ok (branch_is_exhausted x (of_g g)) /\
     BranchRefB_is_exhausted g = Ok (branch_is_exhausted x (of_g g))).

Theorem gen_fork_agrees :
  fork_methods_agree /\
  (forall rc (g : gf) (o : fop),
     gen_fstep gnext gpulls rc g o = rmap (fun r => (mode_after rc o, to_g (fst r), snd r)) (fstep (of_g g) o)) /\
  (forall (ops : list fop) rc (g : gf),
     gen_frun gnext gpulls rc g ops =
     rmap (fun r => (fold_left mode_after ops rc, to_g (fst r), snd r)) (frun (of_g g) ops)).
Proof.
  split; [|split; [exact gen_fstep_eq|exact gen_frun_eq]].
  unfold fork_methods_agree.
  split; [exact Fork_consts|]. split; [exact Signal_fork_eq|]. split; [exact Fork_by_rc_eq|].
  split; [exact Fork_by_ref_eq|]. split; [exact BranchRcA_next_eq|]. split; [exact BranchRefA_next_eq|].
  split; [exact BranchRcB_next_eq|]. split; [exact BranchRefB_next_eq|].
  split; [exact BranchRcA_pending_frames_eq|]. split; [exact BranchRefA_pending_frames_eq|].
  split; [exact BranchRcB_pending_frames_eq|]. split; [exact BranchRefB_pending_frames_eq|].
  exact Branch_is_exhausted_eq.
Qed.

(* the schedule theorem, restated for the interpreter over the regenerated methods (either pair of branch types) *)
Theorem gen_frun_refines (ops : list fop) rc (g : gf) : FInv (of_g g) ->
  sched_ok (max_len (fg_ring_buffer g)) (pos_of (of_g g)) ops ->
  exists g' vs, gen_frun gnext gpulls rc g ops = Ok (fold_left mode_after ops rc, g', vs) /\ FInv (of_g g') /\
    max_len (fg_ring_buffer g') = max_len (fg_ring_buffer g) /\ sfn (fg_signal g') = sfn (fg_signal g) /\
    spec_run (sfn (fg_signal g)) (pos_of (of_g g)) ops = (pos_of (of_g g'), vs).
Proof.
  intros HI Hok. rewrite gen_frun_eq.
  destruct (frun_refines ops (of_g g) HI Hok) as [st' [vs [-> [HI' [C' [S' Hs]]]]]].
  exists (to_g st'), vs. cbn [rmap fst snd]. rewrite of_to. auto.
Qed.

End Equiv.
