(* C20 — non-vacuity for the theorems about the GENERATED window model: concrete non-trivial instances of
   their hypotheses, evaluated on the generated definitions themselves (gen/WindowGen.v through
   Signal/WindowGenGlue.v).  The arithmetic is a toy instance of [arith] over nat (the schedule does not look
   at it); frames are one-channel lists of nat. *)
Require Import List Arith.
From Dasp Require Import Base.Res Signal.Window Signal.WindowPrim Signal.WindowGenGlue.
From DaspGen Require Import WindowGen.
Import ListNotations.

Definition Atoy : arith := mkArith nat 0 0 1 0 Nat.add Nat.sub Nat.mul Nat.div Nat.modulo (fun n => n).
Definition fr10 : list (list nat) := [[0];[1];[2];[3];[4];[5];[6];[7];[8];[9]].

(* L = 10, bin = 4, hop = 3 (1 <= bin, 1 <= hop, hop does not divide L - bin): three items, then None;
   the slice left over is [[9]] *)
Example ex_gen_drain :
  exists items, gen_drain Atoy nat 11 (w_new fr10 4 3) = Ok (items, mkW 4 3 [[9]]) /\ length items = 3 /\
    nth_error items 2 = Some (windowed_of Atoy nat [[6];[7];[8];[9]] 4).
Proof. eexists. split; [reflexivity|split; reflexivity]. Qed.

Example ex_gen_next_none : Windower_next Atoy nat (mkW 4 3 [[9]]) = Ok (mkW 4 3 [[9]], None).
Proof. reflexivity. Qed.

(* size_hint of the generated model along that run: 3, 2, 1, 0 *)
Example ex_gen_size_hints :
  Windower_size_hint nat (w_new fr10 4 3) = Ok (Hint 3 (Some 3)) /\
  gen_after Atoy nat 2 (w_new fr10 4 3) = Ok (Some (mkW 4 3 [[6];[7];[8];[9]])) /\
  Windower_size_hint nat (mkW 4 3 [[6];[7];[8];[9]]) = Ok (Hint 1 (Some 1)) /\
  Windower_size_hint nat (mkW 4 3 [[9]]) = Ok (Hint 0 (Some 0)).
Proof. repeat split. Qed.

(* L = bin: one item (defect F2 reported a size hint of 0 here) *)
Example ex_gen_L_eq_b :
  Windower_size_hint nat (w_new [[7];[8];[9];[10]] 4 1) = Ok (Hint 1 (Some 1)) /\
  exists items w', gen_drain Atoy nat 5 (w_new [[7];[8];[9];[10]] 4 1) = Ok (items, w') /\ length items = 1.
Proof. split; [reflexivity|]. eexists. eexists. split; reflexivity. Qed.

(* hop = 0 (outside the property's domain): (usize::MAX, None) *)
Example ex_gen_hop0 : Windower_size_hint nat (mkW 2 0 [[1];[2];[3]]) = Ok HintForever.
Proof. reflexivity. Qed.

(* nth / last / count over the generated next, L = 10, bin = 4, hop = 3: item 1 is frames 3..6, there is no item 3 *)
Example ex_gen_methods :
  (exists w', gen_nth Atoy nat 1 (w_new fr10 4 3) = Ok (Some (windowed_of Atoy nat [[3];[4];[5];[6]] 4), w')) /\
  (exists w', gen_nth Atoy nat 3 (w_new fr10 4 3) = Ok (None, w')) /\
  (exists w', gen_count Atoy nat 11 (w_new fr10 4 3) = Ok (3, w')).
Proof. repeat split; eexists; reflexivity. Qed.
(* with L = 11 (hop does not divide L - bin = 7): the last item starts at frame 6, not at 7 *)
Example ex_gen_last :
  exists w', gen_last Atoy nat 12 (w_new (fr10 ++ [[10]]) 4 3) = Ok (Some (windowed_of Atoy nat [[6];[7];[8];[9]] 4), w').
Proof. eexists. reflexivity. Qed.

(* the generated Windowed::next on an item: frame j is the chunk's frame times the window frame (the toy
   phases are all 0 -- `% 1` on nat --, the toy window function is p + 2, mul_amp is multiplication); after
   the chunk: equilibrium; the iterator does not end *)
Example ex_gen_windowed :
  gen_windowed_take Atoy (fun p => p + 2) nat nat (fun v => v) Nat.mul 0 1 3 (windowed_of Atoy nat [[5];[7]] 2) =
  Ok [[10]; [14]; [0]].
Proof. reflexivity. Qed.
