(* C05: exhaustion laws over the adaptor-tree model (Signal/Sig.v). *)
Require Import List ZArith Bool Arith Lia.
From Dasp Require Import Base.Res Signal.Sig Signal.SigProofs.
Import ListNotations.

Section ExhaustProofs.
Variables F Sm SS FS : Type.
Variable eqm : F.
Variable nch : nat.
Variable channels : F -> list Sm.
Variable of_samples : list Sm -> F.
Variable fmap : (Sm -> Sm) -> F -> F.
Variables f_add f_mul : F -> F -> F.
Variable f_scale : FS -> F -> F.
Variable f_offset : SS -> F -> F.
Variable to_signed : Sm -> SS.
Variable of_signed : SS -> Sm.
Variable ss_ltb : SS -> SS -> bool.
Variable ss_neg : SS -> SS.

Notation sig := (sig F Sm SS FS).
Notation next := (Sig.next F Sm SS FS eqm nch of_samples fmap f_add f_mul f_scale f_offset to_signed of_signed ss_ltb ss_neg).
Notation after := (Sig.after F Sm SS FS eqm nch of_samples fmap f_add f_mul f_scale f_offset to_signed of_signed ss_ltb ss_neg).
Notation stream := (Sig.stream F Sm SS FS eqm nch of_samples fmap f_add f_mul f_scale f_offset to_signed of_signed ss_ltb ss_neg).
Notation step := (SigProofs.step F Sm SS FS eqm nch of_samples fmap f_add f_mul f_scale f_offset to_signed of_signed ss_ltb ss_neg).
Notation until_next := (Sig.until_next F Sm SS FS eqm nch of_samples fmap f_add f_mul f_scale f_offset to_signed of_signed ss_ltb ss_neg).
Notation take_next := (Sig.take_next F Sm SS FS eqm nch of_samples fmap f_add f_mul f_scale f_offset to_signed of_signed ss_ltb ss_neg).
Notation collect_until := (Sig.collect_until F Sm SS FS eqm nch of_samples fmap f_add f_mul f_scale f_offset to_signed of_signed ss_ltb ss_neg).
Notation collect_take := (Sig.collect_take F Sm SS FS eqm nch of_samples fmap f_add f_mul f_scale f_offset to_signed of_signed ss_ltb ss_neg).
Notation next_sample := (Sig.next_sample F Sm SS FS eqm nch channels of_samples fmap f_add f_mul f_scale f_offset to_signed of_signed ss_ltb ss_neg).
Notation collect_samples := (Sig.collect_samples F Sm SS FS eqm nch channels of_samples fmap f_add f_mul f_scale f_offset to_signed of_signed ss_ltb ss_neg).
Notation live_len := (Sig.live_len F Sm SS FS nch).
Notation frame_from_samples := (Sig.frame_from_samples F Sm nch of_samples).
Notation from_samples := (Sig.from_samples F Sm SS FS nch of_samples).
Notation pull_n := (Sig.pull_n Sm).
Notation after_S := (SigProofs.after_S F Sm SS FS eqm nch of_samples fmap f_add f_mul f_scale f_offset to_signed of_signed ss_ltb ss_neg).

(* ---- from_iter ---- *)
Ltac cnt := apply f_equal2; [|reflexivity]; apply f_equal2; [apply f_equal2; [reflexivity|lia]|lia].

Lemma fi_none_stream id rest : forall n ip p, stream (FromIter id None rest ip p) n = eqm.
Proof. induction n as [|n IH]; intros ip p; [reflexivity|]. unfold Sig.stream in *. rewrite after_S. apply IH. Qed.

Lemma fi_none_exhausted id rest : forall n ip p, exhausted (after n (FromIter id None rest ip p)) = true.
Proof. induction n as [|n IH]; intros ip p; [reflexivity|]. rewrite after_S. apply IH. Qed.

Lemma fi_none_counts id rest : forall n ip p, leaf_counts (after n (FromIter id None rest ip p)) = [(id, n + p, ip)].
Proof.
  induction n as [|n IH]; intros ip p; [reflexivity|]. rewrite after_S. unfold SigProofs.step. cbn [Sig.next snd].
  rewrite IH. replace (n + S p) with (S n + p) by lia. reflexivity.
Qed.

Lemma fi_some_stream id : forall rest f n ip p, stream (FromIter id (Some f) rest ip p) n = nth n (f :: rest) eqm.
Proof.
  induction rest as [|g t IH]; intros f n ip p; destruct n as [|n]; try reflexivity.
  - unfold Sig.stream. rewrite after_S. unfold SigProofs.step. cbn [Sig.next snd].
    change (stream (FromIter id None [] (S ip) (S p)) n = nth (S n) [f] eqm). rewrite fi_none_stream. now destruct n.
  - unfold Sig.stream. rewrite after_S. unfold SigProofs.step. cbn [Sig.next snd]. apply IH.
Qed.

Lemma fi_some_exhausted id : forall rest f n ip p,
  exhausted (after n (FromIter id (Some f) rest ip p)) = (S (length rest) <=? n).
Proof.
  induction rest as [|g t IH]; intros f n ip p; destruct n as [|n]; try reflexivity.
  - rewrite after_S. unfold SigProofs.step. cbn [Sig.next snd]. now rewrite fi_none_exhausted.
  - rewrite after_S. unfold SigProofs.step. cbn [Sig.next snd]. rewrite IH. reflexivity.
Qed.

Lemma fi_some_counts id : forall rest f n ip p,
  leaf_counts (after n (FromIter id (Some f) rest ip p)) = [(id, n + p, Nat.min n (S (length rest)) + ip)].
Proof.
  induction rest as [|g t IH]; intros f n ip p; destruct n as [|n]; try reflexivity.
  - rewrite after_S. unfold SigProofs.step. cbn [Sig.next snd]. rewrite fi_none_counts. cbn [length]. cnt.
  - rewrite after_S. unfold SigProofs.step. cbn [Sig.next snd]. rewrite IH. cbn [length]. cnt.
Qed.

(* from_iter yields exactly the list, then equilibrium forever *)
Theorem from_iter_stream id l n : stream (from_iter id l) n = nth n l eqm.
Proof.
  destruct l as [|f t]; cbn [from_iter].
  - rewrite fi_none_stream. now destruct n.
  - apply fi_some_stream.
Qed.

(* ... and reports exhaustion exactly when none remain: is_exhausted is false before the call of
   next that returns the last frame and true from then on (true from the start for the empty list) *)
Theorem from_iter_exhausted id l n : exhausted (after n (from_iter id l)) = (length l <=? n).
Proof.
  destruct l as [|f t]; cbn [from_iter].
  - now rewrite fi_none_exhausted.
  - apply fi_some_exhausted.
Qed.

(* the look-ahead: the iterator has been asked min(n, len) + 1 times after n frames, never again after its None *)
Theorem from_iter_counts id l n :
  leaf_counts (after n (from_iter id l)) = [(id, n, S (Nat.min n (length l)))].
Proof.
  destruct l as [|f t]; cbn [from_iter].
  - rewrite fi_none_counts. now rewrite Nat.min_0_r, Nat.add_0_r.
  - rewrite fi_some_counts. cbn [length]. cnt.
Qed.

(* ---- exhaustion forwarding, OR, delay ---- *)
Theorem exhausted_rules :
  (forall id f s, exhausted (Map id f s : sig) = exhausted s) /\
  (forall x s, exhausted (ScaleAmp x s : sig) = exhausted s) /\
  (forall x s, exhausted (OffsetAmp x s : sig) = exhausted s) /\
  (forall x s, exhausted (ScaleAmpPerChannel x s : sig) = exhausted s) /\
  (forall x s, exhausted (OffsetAmpPerChannel x s : sig) = exhausted s) /\
  (forall t s, exhausted (ClipAmp t s : sig) = exhausted s) /\
  (forall id s, exhausted (Inspect id s : sig) = exhausted s) /\
  (forall s, exhausted (ByRef s : sig) = exhausted s) /\
  (forall id f a b, exhausted (ZipMap id f a b : sig) = exhausted a || exhausted b) /\
  (forall a b, exhausted (AddAmp a b : sig) = exhausted a || exhausted b) /\
  (forall a b, exhausted (MulAmp a b : sig) = exhausted a || exhausted b) /\
  (forall k s, exhausted (Delay k s : sig) = (k =? 0) && exhausted s) /\
  exhausted (Equilibrium : sig) = false /\
  (forall id c p, exhausted (Gen id c p : sig) = false) /\
  (forall id g n, exhausted (GenMut id g n : sig) = false).
Proof. repeat split. Qed.

(* ---- take ---- *)
Theorem take_frames : forall fuel n (s : sig), n <= fuel ->
  collect_take fuel (n, s) = (map (stream s) (seq 0 n), (0, after n s)).
Proof.
  induction fuel as [|fuel IH]; intros n s Hn.
  - assert (n = 0) by lia. subst. reflexivity.
  - cbn [Sig.collect_take]. unfold Sig.take_next. cbn [fst snd]. destruct n as [|n]; [reflexivity|].
    destruct (next s) as [x s'] eqn:E.
    assert (Hs' : s' = step s) by (unfold SigProofs.step; now rewrite E).
    rewrite (IH n s' ltac:(lia)). cbn [seq map]. f_equal.
    + f_equal; [unfold Sig.stream; cbn [Sig.after]; now rewrite E|].
      rewrite <- seq_shift, map_map. apply map_ext. intros i. unfold Sig.stream. rewrite after_S. now rewrite Hs'.
    + rewrite after_S. now rewrite Hs'.
Qed.

Theorem take_length fuel n (s : sig) : n <= fuel ->
  length (fst (collect_take fuel (n, s))) = n /\ take_next (snd (collect_take fuel (n, s))) = (None, (0, after n s)).
Proof. intros H. rewrite take_frames by assumption. cbn [fst snd]. now rewrite map_length, seq_length. Qed.

(* ---- live_len ---- *)
Hypothesis nch_pos : 0 < nch.

Definition is_zero (o : option nat) : bool := match o with Some 0 => true | _ => false end.

Lemma pull_n_spec : forall n l,
  pull_n n l = if n <=? length l then (Some (firstn n l), skipn n l, n) else (None, [], S (length l)).
Proof.
  induction n as [|n IH]; intros l; [reflexivity|].
  destruct l as [|x t]; [reflexivity|]. cbn [Sig.pull_n length]. rewrite IH.
  change (S n <=? S (length t)) with (n <=? length t).
  destruct (n <=? length t); reflexivity.
Qed.

Lemma ffs_spec (l : list Sm) :
  frame_from_samples l = if nch <=? length l then (Some (of_samples (firstn nch l)), skipn nch l, nch)
                         else (None, [], S (length l)).
Proof. unfold Sig.frame_from_samples. rewrite pull_n_spec. destruct (nch <=? length l); reflexivity. Qed.

Lemma div_step (l : list Sm) : nch <= length l -> length l / nch = S (length (skipn nch l) / nch).
Proof.
  intros H. rewrite skipn_length.
  replace (length l) with (1 * nch + (length l - nch)) at 1 by lia.
  rewrite Nat.div_add_l by lia. lia.
Qed.

Lemma exhausted_live (s : sig) : exhausted s = is_zero (live_len s).
Proof.
  induction s; cbn [exhausted Sig.live_len]; auto.
  - now destruct nx.
  - now destruct nx.
  - rewrite IHs1, IHs2. destruct (live_len s1) as [[|x]|], (live_len s2) as [[|y]|]; reflexivity.
  - rewrite IHs1, IHs2. destruct (live_len s1) as [[|x]|], (live_len s2) as [[|y]|]; reflexivity.
  - rewrite IHs1, IHs2. destruct (live_len s1) as [[|x]|], (live_len s2) as [[|y]|]; reflexivity.
  - rewrite IHs. destruct k, (live_len s) as [[|x]|]; reflexivity.
Qed.

Lemma omin_pred a b : omin (option_map pred a) (option_map pred b) = option_map pred (omin a b).
Proof. destruct a as [x|], b as [y|]; cbn; try reflexivity. f_equal. lia. Qed.

Lemma live_step (s : sig) : live_len (step s) = option_map pred (live_len s).
Proof.
  induction s;
    rewrite ?step_Map, ?step_ZipMap, ?step_AddAmp, ?step_MulAmp, ?step_ScaleAmp, ?step_OffsetAmp,
      ?step_ScalePC, ?step_OffsetPC, ?step_ClipAmp, ?step_Inspect, ?step_ByRef;
    cbn [Sig.live_len]; auto; try (rewrite IHs1, IHs2; apply omin_pred).
  - unfold SigProofs.step. cbn [Sig.next]. destruct nx; [destruct rest|]; reflexivity.
  - unfold SigProofs.step. cbn [Sig.next]. destruct nx; [|reflexivity].
    rewrite ffs_spec. destruct (Nat.leb_spec nch (length rest)) as [H|H]; cbn [snd Sig.live_len option_map pred].
    + now rewrite (div_step rest H).
    + now rewrite Nat.div_small.
  - destruct k; [rewrite step_Delay0|rewrite step_DelayS]; cbn [Sig.live_len].
    + rewrite IHs. now destruct (live_len s).
    + destruct (live_len s); reflexivity.
Qed.

Lemma live_after n : forall (s : sig), live_len (after n s) = option_map (fun m => m - n) (live_len s).
Proof.
  induction n as [|n IH]; intros s.
  - cbn [Sig.after]. destruct (live_len s); cbn [option_map]; [now rewrite Nat.sub_0_r|reflexivity].
  - rewrite after_S, IH, live_step. destruct (live_len s); cbn [option_map]; [f_equal; lia|reflexivity].
Qed.

(* exhaustion is reached after exactly live_len frames, and never left *)
Theorem exhausted_after (s : sig) n :
  exhausted (after n s) = match live_len s with Some m => m <=? n | None => false end.
Proof.
  rewrite exhausted_live, live_after. destruct (live_len s) as [m|]; [|reflexivity]. cbn.
  destruct (Nat.leb_spec m n); destruct (m - n) eqn:E; try reflexivity; lia.
Qed.

Theorem exhausted_monotone (s : sig) n : exhausted s = true -> exhausted (after n s) = true.
Proof.
  rewrite exhausted_after, exhausted_live. destruct (live_len s) as [[|m]|]; try discriminate. reflexivity.
Qed.

Theorem exhausted_step (s : sig) : exhausted s = true -> exhausted (snd (next s)) = true.
Proof. apply (exhausted_monotone s 1). Qed.

(* from_interleaved_samples_iter: complete frames only *)
Lemma fs_none_stream id rest : forall n ip p, stream (FromSamples id None rest ip p) n = eqm.
Proof. induction n as [|n IH]; intros ip p; [reflexivity|]. unfold Sig.stream in *. rewrite after_S. apply IH. Qed.

Lemma skipn_skipn' {A} : forall y x (l : list A), skipn x (skipn y l) = skipn (x + y) l.
Proof.
  induction y as [|y IH]; intros x l.
  - now rewrite Nat.add_0_r.
  - rewrite Nat.add_succ_r. destruct l as [|a t]; cbn [skipn]; [now rewrite !skipn_nil|apply IH].
Qed.

Lemma fs_some_stream0 id f rest ip p : stream (FromSamples id (Some f) rest ip p) 0 = f.
Proof. unfold Sig.stream. cbn [Sig.after Sig.next]. now destruct (frame_from_samples rest) as [[? ?] ?]. Qed.

Lemma fs_some_step id f rest ip p :
  step (FromSamples id (Some f) rest ip p) =
  FromSamples id (fst (fst (frame_from_samples rest))) (snd (fst (frame_from_samples rest)))
              (ip + snd (frame_from_samples rest)) (S p).
Proof. unfold SigProofs.step. cbn [Sig.next]. now destruct (frame_from_samples rest) as [[? ?] ?]. Qed.

Lemma fs_stream id : forall n l ip p,
  stream (FromSamples id (fst (fst (frame_from_samples l))) (snd (fst (frame_from_samples l))) ip p) n =
  if n <? length l / nch then of_samples (firstn nch (skipn (n * nch) l)) else eqm.
Proof.
  induction n as [|n IH]; intros l ip p.
  - rewrite ffs_spec. destruct (Nat.leb_spec nch (length l)) as [H|H]; cbn [fst snd].
    + rewrite (div_step l H), fs_some_stream0. reflexivity.
    + rewrite Nat.div_small by lia. reflexivity.
  - rewrite (ffs_spec l). destruct (Nat.leb_spec nch (length l)) as [H|H]; cbn [fst snd].
    + unfold Sig.stream. rewrite after_S, fs_some_step.
      change (stream (FromSamples id (fst (fst (frame_from_samples (skipn nch l))))
                (snd (fst (frame_from_samples (skipn nch l)))) (ip + snd (frame_from_samples (skipn nch l))) (S p)) n =
              (if S n <? length l / nch then of_samples (firstn nch (skipn (S n * nch) l)) else eqm)).
      rewrite IH, (div_step l H). change (S n <? S (length (skipn nch l) / nch)) with (n <? length (skipn nch l) / nch).
      rewrite skipn_skipn'. replace (n * nch + nch) with (S n * nch) by lia. reflexivity.
    + rewrite fs_none_stream, Nat.div_small by lia. reflexivity.
Qed.

Theorem from_samples_stream id l n :
  stream (from_samples id l) n =
  if n <? length l / nch then of_samples (firstn nch (skipn (n * nch) l)) else eqm.
Proof.
  unfold Sig.from_samples. pose proof (fs_stream id n l) as H.
  destruct (frame_from_samples l) as [[r l'] c]. cbn [fst snd] in H. apply H.
Qed.

Theorem from_samples_live id l : live_len (from_samples id l) = Some (length l / nch).
Proof.
  unfold Sig.from_samples. rewrite ffs_spec.
  destruct (Nat.leb_spec nch (length l)) as [H|H]; cbn [Sig.live_len].
  - now rewrite (div_step l H).
  - now rewrite Nat.div_small.
Qed.

Theorem from_samples_exhausted id l n : exhausted (after n (from_samples id l)) = (length l / nch <=? n).
Proof. now rewrite exhausted_after, from_samples_live. Qed.

Theorem from_iter_live id l : live_len (from_iter id l : sig) = Some (length l).
Proof. destruct l; reflexivity. Qed.

(* ---- until_exhausted ---- *)
Theorem until_exhausted_frames : forall fuel (s : sig) m, live_len s = Some m -> m <= fuel ->
  collect_until fuel s = (map (stream s) (seq 0 m), after m s).
Proof.
  induction fuel as [|fuel IH]; intros s m Hl Hm.
  - assert (m = 0) by lia. subst. reflexivity.
  - cbn [Sig.collect_until]. unfold Sig.until_next. rewrite exhausted_live, Hl.
    destruct m as [|m]; cbn [is_zero]; [reflexivity|].
    destruct (next s) as [x s'] eqn:E.
    assert (Hs' : s' = step s) by (unfold SigProofs.step; now rewrite E).
    assert (Hl' : live_len s' = Some m) by (rewrite Hs', live_step, Hl; reflexivity).
    rewrite (IH s' m Hl' ltac:(lia)). cbn [seq map]. f_equal.
    + f_equal; [unfold Sig.stream; cbn [Sig.after]; now rewrite E|].
      rewrite <- seq_shift, map_map. apply map_ext. intros i. unfold Sig.stream. rewrite after_S. now rewrite Hs'.
    + rewrite after_S. now rewrite Hs'.
Qed.

(* ... then None for good, without touching the signal *)
Theorem until_exhausted_done (s : sig) m : live_len s = Some m ->
  until_next (after m s) = (None, after m s) /\
  forall fuel, collect_until fuel (after m s) = ([], after m s).
Proof.
  intros Hl.
  assert (E : exhausted (after m s) = true) by (rewrite exhausted_after, Hl; apply Nat.leb_refl).
  split; [unfold Sig.until_next; now rewrite E|].
  intros [|fuel]; [reflexivity|]. cbn [Sig.collect_until]. unfold Sig.until_next. now rewrite E.
Qed.

(* a signal that never reports exhaustion is never stopped *)
Theorem until_exhausted_infinite : forall fuel (s : sig), live_len s = None ->
  collect_until fuel s = (map (stream s) (seq 0 fuel), after fuel s).
Proof.
  induction fuel as [|fuel IH]; intros s Hl; [reflexivity|].
  cbn [Sig.collect_until]. unfold Sig.until_next. rewrite exhausted_live, Hl. cbn [is_zero].
  destruct (next s) as [x s'] eqn:E.
  assert (Hs' : s' = step s) by (unfold SigProofs.step; now rewrite E).
  assert (Hl' : live_len s' = None) by (rewrite Hs', live_step, Hl; reflexivity).
  rewrite (IH s' Hl'). cbn [seq map]. f_equal.
  - f_equal; [unfold Sig.stream; cbn [Sig.after]; now rewrite E|].
    rewrite <- seq_shift, map_map. apply map_ext. intros i. unfold Sig.stream. rewrite after_S. now rewrite Hs'.
  - rewrite after_S. now rewrite Hs'.
Qed.

(* ---- into_interleaved_samples ---- *)
Hypothesis channels_nonempty : forall f, channels f <> [].

Notation inter := (Sig.inter F Sm SS FS).
Definition mk (s : sig) (c : option (list Sm)) : inter := {| isig := s; icur := c |}.
Definition pending (c : option (list Sm)) : list Sm := match c with Some l => l | None => [] end.
Definition frames_samples (s : sig) (m : nat) : list Sm :=
  concat (map (fun i => channels (stream s i)) (seq 0 m)).

Lemma frames_samples_S s m : frames_samples s (S m) = channels (stream s 0) ++ frames_samples (step s) m.
Proof.
  unfold frames_samples. cbn [seq map concat]. f_equal. rewrite <- seq_shift, map_map. reflexivity.
Qed.

Lemma ns_cons k s x t : next_sample (S k) (mk s (Some (x :: t))) = Ok (Some x, mk s (Some t)).
Proof. reflexivity. Qed.
Lemma ns_nil k s : next_sample (S (S k)) (mk s (Some [])) = next_sample (S k) (mk s None).
Proof. reflexivity. Qed.

Lemma ns_none k s m : live_len s = Some m ->
  match m with
  | 0 => next_sample (S k) (mk s None) = Ok (None, mk s None)
  | S _ => exists c cs, channels (stream s 0) = c :: cs /\
                        next_sample (S k) (mk s None) = Ok (Some c, mk (step s) (Some cs))
  end.
Proof.
  intros Hl. pose proof (exhausted_live s) as E. rewrite Hl in E.
  destruct m as [|m]; cbn [is_zero] in E.
  - cbn [Sig.next_sample mk icur isig]. rewrite E. reflexivity.
  - destruct (next s) as [x s'] eqn:N.
    assert (Hx : stream s 0 = x) by (unfold Sig.stream; cbn [Sig.after]; now rewrite N).
    assert (Hs : step s = s') by (unfold SigProofs.step; now rewrite N).
    destruct (channels x) as [|c cs] eqn:C; [now apply channels_nonempty in C|].
    exists c, cs. rewrite Hx, Hs. split; [assumption|].
    cbn [Sig.next_sample mk icur isig]. rewrite E, N. cbn [icur isig]. rewrite C. reflexivity.
Qed.

Theorem interleaved_spec : forall fuel s c m, live_len s = Some m ->
  length (pending c ++ frames_samples s m) < fuel ->
  collect_samples fuel (mk s c) = Ok (pending c ++ frames_samples s m, mk (after m s) None).
Proof.
  induction fuel as [|fuel IH]; intros s c m Hl Hlen; [lia|].
  cbn [Sig.collect_samples].
  assert (Hnone : forall k,
    match next_sample (S k) (mk s None) with
    | Ok (Some x, st') =>
      match collect_samples fuel st' with
      | Ok (l, st'') => Ok (x :: l, st'') | Panic e => Panic e | UB => UB end
    | Ok (None, st') => Ok ([], st')
    | Panic e => Panic e | UB => UB
    end = Ok (frames_samples s m, mk (after m s) None) \/ S fuel <= length (frames_samples s m)).
  { intros k. pose proof (ns_none k s m Hl) as H. destruct m as [|m].
    - left. rewrite H. reflexivity.
    - destruct H as [c0 [cs [Hc Hn]]]. rewrite Hn.
      assert (Hl' : live_len (step s) = Some m) by (rewrite live_step, Hl; reflexivity).
      rewrite frames_samples_S, Hc.
      destruct (Nat.le_gt_cases (S fuel) (length ((c0 :: cs) ++ frames_samples (step s) m))) as [Hle|Hgt]; [now right|left].
      rewrite (IH (step s) (Some cs) m Hl'); [reflexivity|]. cbn [pending]. cbn [app length] in Hgt. lia. }
  destruct c as [[|x t]|]; cbn [pending app] in *.
  - rewrite ns_nil. destruct (Hnone 0) as [H|H]; [exact H|lia].
  - rewrite ns_cons. rewrite (IH s (Some t) m Hl); [reflexivity|]. cbn [pending]. cbn [length] in Hlen. lia.
  - destruct (Hnone 1) as [H|H]; [exact H|lia].
Qed.

(* the interleaved iterator yields exactly the channels of the frames until_exhausted yields,
   in channel order, then None (and the signal is left where until_exhausted leaves it) *)
Theorem interleaved_is_concat fuel fuel' (s : sig) m : live_len s = Some m ->
  m <= fuel' -> length (frames_samples s m) < fuel ->
  collect_samples fuel (mk s None) =
    Ok (concat (map channels (fst (collect_until fuel' s))), mk (snd (collect_until fuel' s)) None) /\
  next_sample 2 (mk (after m s) None) = Ok (None, mk (after m s) None).
Proof.
  intros Hl Hm Hlen. rewrite (until_exhausted_frames fuel' s m Hl Hm). cbn [fst snd]. split.
  - rewrite (interleaved_spec fuel s None m Hl Hlen). cbn [pending app]. unfold frames_samples. now rewrite map_map.
  - pose proof (ns_none 1 (after m s) 0) as H. apply H. rewrite live_after, Hl. cbn. f_equal. lia.
Qed.

Theorem interleaved_count (s : sig) m : (forall f, length (channels f) = nch) ->
  length (frames_samples s m) = m * nch.
Proof.
  intros H. unfold frames_samples. generalize 0. induction m as [|m IH]; intros st; [reflexivity|].
  cbn [seq map concat]. rewrite app_length, H, IH. lia.
Qed.

(* ---- lift over pointwise adaptors ---- *)
Notation clip_sample := (Sig.clip_sample Sm SS to_signed of_signed ss_ltb ss_neg).
Inductive unary :=
| UMap (id : Z) (f : F -> F) | UScale (a : FS) | UOffset (o : SS) | UScalePC (a : F) | UOffsetPC (a : F)
| UClip (t : SS) | UInspect (id : Z).

Definition wrap (u : unary) (s : sig) : sig :=
  match u with
  | UMap id f => Map id f s | UScale a => ScaleAmp a s | UOffset o => OffsetAmp o s
  | UScalePC a => ScaleAmpPerChannel a s | UOffsetPC a => OffsetAmpPerChannel a s
  | UClip t => ClipAmp t s | UInspect id => Inspect id s
  end.

Definition ufun (u : unary) : F -> F :=
  match u with
  | UMap _ f => f | UScale a => f_scale a | UOffset o => f_offset o
  | UScalePC a => fun x => f_mul x a | UOffsetPC a => fun x => f_add x a
  | UClip t => fmap (clip_sample t) | UInspect _ => fun x => x
  end.

Definition wrap_all (us : list unary) (s : sig) : sig := fold_right wrap s us.
Definition ufun_all (us : list unary) : F -> F := fold_right (fun u g x => ufun u (g x)) (fun x => x) us.

Lemma wrap_all_live us s : live_len (wrap_all us s) = live_len s.
Proof. induction us as [|u us IH]; [reflexivity|]. cbn [wrap_all fold_right]. destruct u; cbn [wrap Sig.live_len]; exact IH. Qed.

Lemma wrap_all_stream us s n : stream (wrap_all us s) n = ufun_all us (stream s n).
Proof.
  induction us as [|u us IH]; [reflexivity|]. cbn [wrap_all ufun_all fold_right].
  fold (wrap_all us s). fold (ufun_all us). rewrite <- IH.
  destruct u; cbn [wrap ufun].
  - apply pw_map. - apply pw_scale_amp. - apply pw_offset_amp. - apply pw_scale_pc. - apply pw_offset_pc.
  - apply pw_clip_amp. - apply pw_inspect.
Qed.

Lemma map_nth_seq {A B} (g : A -> B) d : forall (l : list A), map (fun i => g (nth i l d)) (seq 0 (length l)) = map g l.
Proof.
  induction l as [|a l IH]; [reflexivity|]. cbn [length seq map nth]. f_equal.
  rewrite <- seq_shift, map_map. exact IH.
Qed.

(* signal::lift(frames, |s| pointwise adaptors over s) yields one mapped frame per input frame, then stops *)
Theorem lift_pointwise us id l fuel : length l <= fuel ->
  collect_until fuel (lift F Sm SS FS id l (wrap_all us)) =
    (map (ufun_all us) l, after (length l) (wrap_all us (from_iter id l))).
Proof.
  intros Hf. unfold Sig.lift.
  assert (Hl : live_len (wrap_all us (from_iter id l)) = Some (length l)) by (rewrite wrap_all_live; apply from_iter_live).
  rewrite (until_exhausted_frames fuel _ _ Hl Hf). f_equal.
  rewrite <- (map_nth_seq (ufun_all us) eqm l). apply map_ext. intros i.
  now rewrite wrap_all_stream, from_iter_stream.
Qed.

(* for an arbitrary closure: exactly live_len frames of whatever signal the closure builds *)
Theorem lift_general (f : sig -> sig) id l fuel m : live_len (f (from_iter id l)) = Some m -> m <= fuel ->
  length (fst (collect_until fuel (lift F Sm SS FS id l f))) = m /\
  until_next (snd (collect_until fuel (lift F Sm SS FS id l f))) = (None, snd (collect_until fuel (lift F Sm SS FS id l f))).
Proof.
  intros Hl Hf. unfold Sig.lift. rewrite (until_exhausted_frames fuel _ _ Hl Hf). cbn [fst snd].
  split; [now rewrite map_length, seq_length|]. apply (until_exhausted_done _ _ Hl).
Qed.

End ExhaustProofs.
