(* C20 — the runner of Signal/WindowRun.v for the window / windower cases (WCase) re-built on the GENERATED
   methods (gen/WindowGen.v through Signal/WindowGenGlue.v): Window::new, Window::next, Windower::new / next /
   size_hint, Windowed::next all come from the regenerated model.  Used by lib/props/c20.py as the SEARCH for a
   failing input when the equivalence (Signal/WindowGenEquiv.v) no longer compiles: the regenerated model against
   the crate's observations ([check_gen]) and against the hand model ([agree_gen]).  It does not depend on the
   equivalence proofs.  Nothing is proved about or through it.

   The iterator-method cases (ICase) and the window-function cases (HCase) are not re-run on the generated model
   (they exercise the same next / size_hint through the provided methods of core::iter): [check_gen] / [agree_gen]
   are true on them. *)
Require Import Floats.SpecFloat.
Require Import ZArith List Bool Uint63.
From Flocq Require Import Core BinarySingleNaN.
From Dasp Require Import Base.Res Base.Float Signal.Window Signal.WindowPrim Signal.WindowFmtGen Signal.WindowRun
  Signal.WindowWire Signal.WindowGenGlue.
From DaspGen Require Import WindowGen.
Import ListNotations.
Open Scope Z_scope.

Definition enc_res {X} (f : X -> list Z) (r : res X) : list Z :=
  match r with Ok v => f v | Panic k => [8; zn (panic_code k)] | UB => [-2] end.

Section RunG.
Variable F : sfmt.
Variable wf : f64 -> f64.
Variable nch : nat.
Notation W := (windower (list (Smp F))).
Notation item := (windowed A64 (Smp F)).

Definition gtake (m : nat) (x : item) : res (list (list (Smp F))) :=
  gen_windowed_take A64 wf (Smp F) (Flt F) (conv F) (smul F) (equil F) nch m x.
Definition gnext (w : W) : res (W * option item) := Windower_next A64 (Smp F) w.
Definition ghint (w : W) : res hint := Windower_size_hint (Smp F) w.

Definition enc_gnext (r : res (W * option item)) (b : nat) : list Z :=
  match r with
  | Ok (_, None) => [3]
  | Ok (_, Some x) => enc_res (enc_chunk F) (gtake (b + 2) x)
  | Panic k => [8; zn (panic_code k)]
  | UB => [-2]
  end.

(* size_hint, next, size_hint, next, ... ; after the first None once more size_hint and next *)
Fixpoint run_w_gen (fuel : nat) (w : W) : list (list Z) :=
  match fuel with
  | O => []
  | S f =>
    enc_hint (ghint w) ::
    match gnext w with
    | Ok (w', Some x) => enc_res (enc_chunk F) (gtake (bin w + 2) x) :: run_w_gen f w'
    | Ok (w', None) => [[3]; enc_hint (ghint w'); enc_gnext (gnext w') (bin w')]
    | r => [enc_gnext r (bin w); enc_hint (ghint w); enc_gnext (gnext w) (bin w)]
    end
  end.

Definition enc_frames {X} (e : X -> Z) (r : res (list (list X))) : list Z :=
  match r with Ok fs => map e (concat fs) | Panic k => [8; zn (panic_code k)] | UB => [-2] end.
End RunG.

Definition gen_phases (b m : nat) : list Z :=
  match Window_new A64 b with Ok p => map F64.bits (phases A64 m p) | _ => [-2] end.

Definition run_wcase_gen (wk : wkind) (fk : fkind) (nch b h maxn : Z) (data : list (list Z)) (wv : list Z)
  : list (list Z) :=
  let F := fmt_of fk in
  let m := (n b + 2)%nat in
  let ph := gen_phases (n b) m in
  let wf := wfun_of wk (combine ph wv) in
  let wvals := map (fun p => F64.bits (wf (F64.of_bits p))) ph in
  (100 :: ph) :: (101 :: wvals) ::
  (102 :: enc_frames (encw F) (gen_window_take A64 wf (Flt F) (Flt F) (conv F) (fun x => x) (n nch) (n b) m)) ::
  (103 :: wvals) ::
  (104 :: enc_frames (enc F) (gen_window_take A64 wf (Flt F) (Smp F) (conv F) (back F) (n nch) (n b) m)) ::
  match Windower_new (Smp F) (map (map (dec F)) data) (n b) (n h) with
  | Ok w => run_w_gen F wf (n nch) (n maxn) w
  | Panic k => [[8; zn (panic_code k)]]
  | UB => [[-2]]
  end.

Definition run_case_gen (c : wcase) (o : list (list Z)) : list (list Z) :=
  match c with
  | WCase wk fk nch b h maxn data => run_wcase_gen wk fk nch b h maxn data (obs_data 101 o)
  | _ => run_case c o
  end.

(* against the crate's observations / against the hand model / both *)
Definition check_gen (c : wcase * list (list Z)) : bool := zll_eqb (run_case_gen (fst c) (snd c)) (snd c).
Definition agree_gen (c : wcase * list (list Z)) : bool :=
  zll_eqb (run_case_gen (fst c) (snd c)) (run_case (fst c) (snd c)).
Definition both_gen (c : wcase * list (list Z)) : bool := check_gen c && agree_gen c.

(* the same with the uint63 transport of Signal/WindowWire.v *)
Definition on63 (f : wcase * list (list Z) -> bool)
    (c : int * list int * list (list int) * list (list int) * list (list int)) : bool :=
  let '(k, hdr, data, ops, obs) := c in
  match dec_case (Uint63.to_Z k) (dz hdr) (map dz data) (map dz ops) with
  | Some wc => f (wc, map dz obs)
  | None => false
  end.
Definition check63_gen := on63 check_gen.
Definition agree63_gen := on63 agree_gen.
Definition both63_gen := on63 both_gen.
