(* C20 — cheap transport of the correspondence cases into coqc: every integer of a case and of
   its observation is written as one or two primitive 63-bit literals (parsing a [Z] literal costs
   far more than evaluating the model on it) and decoded to the Z-level interface of
   Signal/WindowRun.v here.  Only used to run the model; nothing is proved about or through it.

   token t < 2^61: the value t;  2^61 <= t < 2^62: the value -(t - 2^61);
   t >= 2^62: with hi = t - 2^62: hi < 2^61: the value hi * 2^62 + next token;
   otherwise the value -((hi - 2^61) * 2^62 + next token). *)
Require Import Floats.SpecFloat.
Require Import ZArith List Bool Uint63.
From Dasp Require Import Signal.WindowRun.
Import ListNotations.
Open Scope Z_scope.

Definition t61 : int := 2305843009213693952%uint63.
Definition t62 : int := 4611686018427387904%uint63.

Fixpoint dz (l : list int) : list Z :=
  match l with
  | [] => []
  | t :: r =>
    if Uint63.ltb t t61 then Uint63.to_Z t :: dz r
    else if Uint63.ltb t t62 then (- (Uint63.to_Z t - 2305843009213693952)) :: dz r
    else match r with
         | lo :: r' =>
           let hi := Uint63.to_Z t - 4611686018427387904 in
           (if hi <? 2305843009213693952 then hi * 4611686018427387904 + Uint63.to_Z lo
            else - ((hi - 2305843009213693952) * 4611686018427387904 + Uint63.to_Z lo)) :: dz r'
         | [] => [-4]
         end
  end.

Definition wk_of (z : Z) : wkind := if z =? 0 then WHann else WRect.
Definition fk_of (z : Z) : fkind :=
  if z =? 0 then KF32 else if z =? 1 then KF64 else if z =? 2 then KI16 else KGen (z - 100).

Definition dec_op (l : list Z) : option iop :=
  match l with
  | [0] => Some INext | [1; k] => Some (INth k) | [2] => Some ILast | [3] => Some ILastRef
  | [4] => Some ICount | [5] => Some ICountRef | [6; k] => Some (ISkip k) | [7; k; t] => Some (IStepBy k t)
  | [8] => Some ICollect | [9] => Some IFold
  | [10; k] => Some (IWinNth k) | [11; k] => Some (IWinSkip k) | [12; k] => Some (IWinTakeLast k)
  | [13; k; t] => Some (IWinStepBy k t)
  | [14; k] => Some (IChunkNth k) | [15; k] => Some (IChunkSkip k) | [16; k] => Some (IChunkTakeLast k)
  | _ => None
  end.

Fixpoint all_some {X} (l : list (option X)) : option (list X) :=
  match l with
  | [] => Some []
  | None :: _ => None
  | Some x :: t => match all_some t with Some r => Some (x :: r) | None => None end
  end.

Definition dec_case (k : Z) (hdr : list Z) (data ops : list (list Z)) : option wcase :=
  match k, hdr with
  | 0, [wk; fk; nch; b; h; maxn] => Some (WCase (wk_of wk) (fk_of fk) nch b h maxn data)
  | 1, [] => match data with [ps; qs] => Some (HCase ps qs) | _ => None end
  | 2, [wk; fk; nch; b; h; np] =>
    match all_some (map dec_op ops) with
    | Some o => Some (ICase (wk_of wk) (fk_of fk) nch b h np data o)
    | None => None
    end
  | _, _ => None
  end.

(* (kind, header, data, ops, observations) *)
Definition check63 (c : int * list int * list (list int) * list (list int) * list (list int)) : bool :=
  let '(k, hdr, data, ops, obs) := c in
  match dec_case (Uint63.to_Z k) (dz hdr) (map dz data) (map dz ops) with
  | Some wc => check (wc, map dz obs)
  | None => false
  end.
