(* Proofs for C14.  Part 1: the Buffered model (over the Bounded model, through
   the C06 refinement lemmas push_refines / pop_refines / drain_refines) refines
   the ideal prefetcher of BufferedSpec.v, from every valid ring state, for every
   operation, hence every history; the loop of `next` exits within 2 iterations.
   Part 2: what the ideal prefetcher does (stream, pull blocks, exhaustion,
   padding).  Part 3: both combined, stated on the model. *)
Require Import List Arith Lia Bool.
From Dasp Require Import Base.Res Base.ListX Ring.Bounded Ring.BoundedSpec Ring.BoundedProofs
  Signal.Buffered Signal.BufferedSpec.
Import ListNotations.

Section Proofs.
Context {A : Type}.
Variable EQ : A.
Implicit Types (b : bounded A) (s : source A) (u : buffered A) (i : ideal A) (l : list A).

(* ------------------------------------------------------------------ lists *)
Lemma skipn_add a : forall c l, skipn c (skipn a l) = skipn (a + c) l.
Proof.
  induction a as [|a IH]; intros c l; simpl; [reflexivity|].
  destruct l as [|x t]; [now rewrite skipn_nil|]. apply IH.
Qed.

Lemma take_pad_0 l : take_pad EQ 0 l = [].
Proof. reflexivity. Qed.

Lemma take_pad_S n l : take_pad EQ (S n) l = hd EQ l :: take_pad EQ n (tl l).
Proof.
  unfold take_pad. destruct l as [|x t]; simpl.
  - now rewrite firstn_nil, Nat.sub_0_r.
  - reflexivity.
Qed.

Lemma skipn_S_tl n l : skipn (S n) l = skipn n (tl l).
Proof. destruct l; simpl; [now rewrite skipn_nil|reflexivity]. Qed.

Lemma take_pad_length n l : length (take_pad EQ n l) = n.
Proof. unfold take_pad. rewrite app_length, firstn_length, repeat_length. lia. Qed.

Lemma take_pad_skipn n l :
  take_pad EQ n l ++ skipn n l = l ++ repeat EQ (n - length l).
Proof.
  unfold take_pad. destruct (Nat.le_gt_cases n (length l)) as [H|H].
  - replace (n - length l) with 0 by lia. simpl. now rewrite !app_nil_r, firstn_skipn.
  - rewrite firstn_all2, skipn_all2 by lia. now rewrite app_nil_r.
Qed.

(* ------------------------------------------------------------------ source *)
Lemma src_next_spec s :
  fst (src_next EQ s) = hd EQ (src_rest s) /\
  src_rest (snd (src_next EQ s)) = tl (src_rest s) /\
  pulls (snd (src_next EQ s)) = S (pulls s).
Proof.
  unfold src_next, src_rest. destruct (look s) as [f|]; simpl; [|auto].
  destruct (it s); simpl; auto.
Qed.

Lemma src_rest_from_iter l : src_rest (from_iter l) = l /\ pulls (from_iter l) = 0.
Proof. destruct l; simpl; auto. Qed.

Lemma src_exhausted_rest s : src_exhausted s = match src_rest s with [] => true | _ => false end.
Proof. unfold src_exhausted, src_rest. now destruct (look s). Qed.

(* ------------------------------------------------------------------ refill *)
Lemma len_abs_nil b : Inv b -> (len b = 0 <-> abs b = []).
Proof. intros I. rewrite <- (abs_length b I). apply length_zero_iff_nil. Qed.

Lemma refill_spec n : forall s b, Inv b -> len b + n <= max_len b ->
  exists s' b', refill EQ n s b = Ok (s', b') /\ Inv b' /\ max_len b' = max_len b /\
    abs b' = abs b ++ take_pad EQ n (src_rest s) /\
    src_rest s' = skipn n (src_rest s) /\ pulls s' = pulls s + n.
Proof.
  induction n as [|n IH]; intros s b I Hn.
  - exists s, b. simpl. rewrite take_pad_0, app_nil_r, Nat.add_0_r. auto 10.
  - cbn [refill]. destruct (src_next_spec s) as [Hf [Hr Hp]].
    destruct (push_refines b (fst (src_next EQ s)) I) as [b1 [r [-> [I1 [C1 Hq]]]]].
    cbn [bind fst]. unfold q_push in Hq. rewrite (abs_length b I) in Hq.
    destruct (Nat.eqb_spec (len b) (max_len b)) as [E|E]; [lia|].
    inversion Hq as [[Habs Hnone]].
    assert (L1 : len b1 = S (len b)).
    { rewrite <- (abs_length b1 I1), <- Habs, app_length, (abs_length b I). simpl. lia. }
    destruct (IH (snd (src_next EQ s)) b1 I1) as [s' [b' [-> [I' [C' [Ha [Hs Hpp]]]]]]]; [rewrite C1; lia|].
    exists s', b'. split; [reflexivity|]. split; [exact I'|]. split; [congruence|].
    split; [|split].
    + rewrite Ha, <- Habs, take_pad_S, Hf, Hr, <- app_assoc. reflexivity.
    + rewrite Hs, Hr, skipn_S_tl. reflexivity.
    + rewrite Hpp, Hp. lia.
Qed.

Lemma refill_now_spec u : Inv (rb u) -> len (rb u) = 0 ->
  exists u', refill_now EQ u = Ok u' /\ Inv (rb u') /\ max_len (rb u') = max_len (rb u) /\
    abs_u u' = {| q := take_pad EQ (max_len (rb u)) (src_rest (sig u));
                  rest := skipn (max_len (rb u)) (src_rest (sig u));
                  npull := pulls (sig u) + max_len (rb u) |}.
Proof.
  intros I L. unfold refill_now.
  destruct (refill_spec (max_len (rb u)) (sig u) (rb u) I) as [s' [b' [-> [I' [C' [Ha [Hs Hp]]]]]]]; [lia|].
  cbn [bind fst snd]. eexists; split; [reflexivity|]. cbn [rb sig]. split; [exact I'|]. split; [exact C'|].
  unfold abs_u; cbn [rb sig]. apply (len_abs_nil _ I) in L. rewrite Ha, L, Hs, Hp. reflexivity.
Qed.

Lemma next_frames_spec u : Inv (rb u) ->
  exists u', next_frames EQ u = Ok u' /\ Inv (rb u') /\ max_len (rb u') = max_len (rb u) /\
    abs_u u' = i_fill EQ (max_len (rb u)) (abs_u u).
Proof.
  intros I. unfold next_frames. destruct (Nat.eqb_spec (len (rb u)) 0) as [L|L].
  - destruct (refill_now_spec u I L) as [u' [-> [I' [C' Ha]]]].
    exists u'. repeat split; try apply I'; auto.
    rewrite Ha. unfold i_fill, abs_u at 1. cbn [q]. apply (len_abs_nil _ I) in L. rewrite L. reflexivity.
  - exists u. repeat split; try apply I; auto.
    unfold i_fill, abs_u at 2. cbn [q]. destruct (abs (rb u)) eqn:Habs; [|reflexivity].
    apply (len_abs_nil _ I) in Habs. lia.
Qed.

Lemma is_exhausted_abs u : Inv (rb u) -> is_exhausted u = i_exhausted (abs_u u).
Proof.
  intros I. unfold is_exhausted, i_exhausted, abs_u; cbn [q rest]. rewrite src_exhausted_rest.
  destruct (Nat.eqb_spec (len (rb u)) 0) as [L|L].
  - apply (len_abs_nil _ I) in L. rewrite L. reflexivity.
  - destruct (abs (rb u)) eqn:Habs; [|reflexivity]. apply (len_abs_nil _ I) in Habs. lia.
Qed.

Lemma inv_cap_pos b : Inv b -> 1 <= max_len b.
Proof. intros [H _]. lia. Qed.

Lemma from_raw_parts_valid (st n : nat) (d : list A) b :
  from_raw_parts st n d = Ok b -> Inv b /\ 1 <= max_len b.
Proof.
  intros H. pose proof (from_raw_parts_inv st n d) as P. rewrite H in P.
  destruct P as [_ [_ [I _]]]. split; [exact I|apply inv_cap_pos; exact I].
Qed.

(* Buffered::next: the loop exits in its first or second iteration *)
Lemma next_loop_spec fuel u : 2 <= fuel -> Inv (rb u) ->
  exists u' x, next_loop EQ fuel u = Ok (x, u') /\ Inv (rb u') /\ max_len (rb u') = max_len (rb u) /\
    spec_step EQ (max_len (rb u)) (abs_u u) BNext = (abs_u u', ONext x).
Proof.
  intros Hf I. destruct fuel as [|[|fuel]]; try lia. cbn [next_loop].
  destruct (pop_refines (rb u) I) as [b1 [r [-> [I1 [C1 Hq]]]]]. cbn [bind fst snd].
  unfold spec_step. destruct (abs (rb u)) as [|x t] eqn:Habs; simpl in Hq; inversion Hq; subst r.
  - (* empty: refill, second iteration pops *)
    assert (L1 : len b1 = 0) by (apply (len_abs_nil _ I1); congruence).
    destruct (refill_now_spec {| sig := sig u; rb := b1 |} I1 L1) as [u1 [-> [I2 [C2 Ha]]]].
    cbn [rb sig] in *. cbn [bind].
    destruct (pop_refines (rb u1) I2) as [b2 [r2 [-> [I3 [C3 Hq2]]]]]. cbn [bind fst snd].
    unfold abs_u in Ha. injection Ha as Hq1 Hr1 Hp1. rewrite C1 in Hq1, Hr1, Hp1.
    pose proof (inv_cap_pos _ I) as Hc. destruct (max_len (rb u)) as [|c] eqn:Hcap; [lia|].
    rewrite take_pad_S in Hq1. rewrite Hq1 in Hq2. simpl in Hq2. inversion Hq2; subst r2.
    eexists; eexists. split; [reflexivity|]. cbn [rb]. split; [exact I3|]. split; [congruence|].
    unfold i_fill, abs_u. cbn [q rest npull rb sig]. rewrite Habs. cbn [q rest npull]. rewrite take_pad_S.
    rewrite Hr1, Hp1. f_equal. f_equal. assumption.
  - eexists; eexists. split; [reflexivity|]. cbn [rb]. split; [exact I1|]. split; [exact C1|].
    unfold i_fill, abs_u. cbn [q rest npull rb sig]. rewrite Habs. cbn [q rest npull].
    f_equal. f_equal. assumption.
Qed.

(* ---------------- every operation, then every history ---------------- *)
Theorem step_refines fuel u o : 2 <= fuel -> Inv (rb u) ->
  exists u' v, step EQ fuel u o = Ok (u', v) /\ Inv (rb u') /\ max_len (rb u') = max_len (rb u) /\
               spec_step EQ (max_len (rb u)) (abs_u u) o = (abs_u u', v).
Proof.
  intros Hf I. destruct o as [|k| | |]; unfold step.
  - destruct (next_loop_spec fuel u Hf I) as [u' [x [-> [I' [C' Hs]]]]]. cbn [bind fst snd]. eauto 10.
  - destruct (next_frames_spec u I) as [u1 [-> [I1 [C1 Ha]]]]. cbn [bind]. unfold frames_take.
    destruct (drain_refines k (rb u1) I1) as [b2 [-> [I2 [C2 Hd]]]]. cbn [bind fst snd].
    eexists; eexists. split; [reflexivity|]. cbn [rb]. split; [exact I2|]. split; [congruence|].
    unfold spec_step. rewrite <- Ha. unfold abs_u; cbn [q rest npull rb sig]. now rewrite Hd.
  - destruct (next_frames_spec u I) as [u1 [-> [I1 [C1 Ha]]]]. cbn [bind]. unfold frames_take.
    destruct (drain_refines (S (len (rb u1))) (rb u1) I1) as [b2 [-> [I2 [C2 Hd]]]]. cbn [bind fst snd].
    eexists; eexists. split; [reflexivity|]. cbn [rb]. split; [exact I2|]. split; [congruence|].
    unfold spec_step. rewrite <- Ha. unfold abs_u; cbn [q rest npull rb sig].
    pose proof (abs_length _ I1) as HL.
    rewrite Hd, firstn_all2, skipn_all2 by lia. reflexivity.
  - destruct (next_frames_spec u I) as [u1 [-> [I1 [C1 Ha]]]]. cbn [bind]. unfold frames_size_hint. cbn [fst snd].
    eexists; eexists. split; [reflexivity|]. split; [exact I1|]. split; [exact C1|].
    unfold spec_step. now rewrite Ha.
  - eexists; eexists. split; [reflexivity|]. split; [exact I|]. split; [reflexivity|].
    unfold spec_step. now rewrite is_exhausted_abs.
Qed.

Theorem run_refines fuel ops : forall u, 2 <= fuel -> Inv (rb u) ->
  exists u' vs, run EQ fuel u ops = Ok (u', vs) /\ Inv (rb u') /\ max_len (rb u') = max_len (rb u) /\
                spec_run EQ (max_len (rb u)) (abs_u u) ops = (abs_u u', vs).
Proof.
  induction ops as [|o ops IH]; intros u Hf I; cbn [run spec_run].
  - exists u, []. auto.
  - destruct (step_refines fuel u o Hf I) as [u1 [v [-> [I1 [C1 Hs]]]]]. cbn [bind fst snd].
    destruct (IH u1 Hf I1) as [u2 [vs [-> [I2 [C2 Hr]]]]]. cbn [bind fst snd].
    exists u2, (v :: vs). split; [reflexivity|]. split; [exact I2|]. split; [congruence|].
    rewrite Hs. cbn [fst snd]. rewrite <- C1, Hr. reflexivity.
Qed.

Theorem run_until_exhausted_refines fuel ops : forall u, 2 <= fuel -> Inv (rb u) ->
  exists u' vs, run_until_exhausted EQ fuel u ops = Ok (u', vs) /\ Inv (rb u') /\
                max_len (rb u') = max_len (rb u) /\
                spec_run_until_exhausted EQ (max_len (rb u)) (abs_u u) ops = (abs_u u', vs).
Proof.
  induction ops as [|o ops IH]; intros u Hf I; cbn [run_until_exhausted spec_run_until_exhausted].
  - exists u, []. auto.
  - rewrite <- (is_exhausted_abs u I). destruct (is_exhausted u).
    + exists u, []. auto.
    + destruct (step_refines fuel u o Hf I) as [u1 [v [-> [I1 [C1 Hs]]]]]. cbn [bind fst snd].
      destruct (IH u1 Hf I1) as [u2 [vs [-> [I2 [C2 Hr]]]]]. cbn [bind fst snd].
      exists u2, (v :: vs). split; [reflexivity|]. split; [exact I2|]. split; [congruence|].
      rewrite Hs. cbn [fst snd]. rewrite <- C1, Hr. reflexivity.
Qed.

(* ------------------------------------------------------------------ *)
(* Part 2: the ideal prefetcher                                        *)

(* frames pulled by an operation that starts in state i *)
Definition pulled (cap : nat) (i : ideal A) (o : bop) : nat :=
  if pulling o && (length (q i) =? 0) then cap else 0.

Lemma fill_spec cap i :
  let d := if length (q i) =? 0 then cap else 0 in
  q (i_fill EQ cap i) ++ rest (i_fill EQ cap i) = q i ++ rest i ++ repeat EQ (d - length (rest i)) /\
  npull (i_fill EQ cap i) = npull i + d /\
  length (q (i_fill EQ cap i)) = length (q i) + d /\
  rest (i_fill EQ cap i) = skipn d (rest i).
Proof.
  unfold i_fill. destruct (q i) as [|x t] eqn:Hq; cbn [length Nat.eqb q rest npull].
  - rewrite take_pad_skipn, take_pad_length. auto.
  - rewrite Hq. cbn [length]. rewrite Nat.add_0_r, app_nil_r. auto.
Qed.

(* one operation *)
Lemma spec_step_spec cap i o : 1 <= cap ->
  let i' := fst (spec_step EQ cap i o) in
  let v := snd (spec_step EQ cap i o) in
  let d := pulled cap i o in
  frames_of v ++ q i' ++ rest i' = q i ++ rest i ++ repeat EQ (d - length (rest i)) /\
  npull i' = npull i + d /\
  length (q i) + d = length (frames_of v) + length (q i') /\
  rest i' = skipn d (rest i).
Proof.
  intros Hc. unfold pulled. destruct (fill_spec cap i) as [F1 [F2 [F3 F4]]].
  destruct o as [|k| | |]; cbn [spec_step pulling andb fst snd].
  - destruct (q (i_fill EQ cap i)) as [|x t] eqn:Hq; cbn [fst snd frames_of q rest npull].
    + exfalso. destruct (Nat.eqb_spec (length (q i)) 0); simpl in F3; lia.
    + cbn [length] in *. split; [exact F1|]. repeat split; auto; try lia.
  - cbn [frames_of q rest npull]. repeat split; auto.
    + rewrite app_assoc, firstn_skipn. exact F1.
    + rewrite <- app_length, firstn_skipn. lia.
  - cbn [frames_of q rest npull]. repeat split; auto. cbn [length]. lia.
  - cbn [frames_of]. repeat split; auto.
  - cbn [frames_of]. simpl. rewrite app_nil_r, Nat.add_0_r. auto.
Qed.

(* every history *)
Theorem spec_run_spec cap ops : 1 <= cap -> forall i,
  let i' := fst (spec_run EQ cap i ops) in
  let vs := snd (spec_run EQ cap i ops) in
  let r := refills EQ cap i ops in
  (exists E, all_frames vs ++ q i' ++ rest i' = q i ++ rest i ++ repeat EQ E) /\
  npull i' = npull i + cap * r /\
  length (q i) + cap * r = length (all_frames vs) + length (q i') /\
  rest i' = skipn (cap * r) (rest i).
Proof.
  intros Hc. induction ops as [|o ops IH]; intros i; cbn [spec_run refills fst snd all_frames flat_map].
  - rewrite Nat.mul_0_r, !Nat.add_0_r. repeat split; auto. exists 0. simpl. now rewrite app_nil_r.
  - destruct (spec_step_spec cap i o Hc) as [S1 [S2 [S3 S4]]].
    destruct (IH (fst (spec_step EQ cap i o))) as [[E H1] [H2 [H3 H4]]].
    fold (all_frames (snd (spec_run EQ cap (fst (spec_step EQ cap i o)) ops))) in *.
    assert (Hd : pulled cap i o = cap * (if pulling o && (length (q i) =? 0) then 1 else 0)).
    { unfold pulled. destruct (pulling o && (length (q i) =? 0)); lia. }
    repeat split.
    + exists (pulled cap i o - length (rest i) + E).
      rewrite <- app_assoc, H1.
      set (f := frames_of _) in *. set (i1 := fst (spec_step EQ cap i o)) in *.
      replace (f ++ q i1 ++ rest i1 ++ repeat EQ E) with ((f ++ q i1 ++ rest i1) ++ repeat EQ E)
        by (now rewrite <- !app_assoc).
      rewrite S1, <- !app_assoc, <- repeat_app. reflexivity.
    + rewrite H2, S2, Hd. lia.
    + rewrite app_length. rewrite Hd in S3. lia.
    + rewrite H4, S4, skipn_add, Hd. f_equal. lia.
Qed.

Lemma i_exhausted_true i : i_exhausted i = true <-> q i = [] /\ rest i = [].
Proof. unfold i_exhausted. destruct (q i), (rest i); split; intros H; try discriminate; auto; destruct H; discriminate. Qed.

(* draining to exhaustion: p = padding frames pulled so far *)
Lemma spec_padding_gen cap ops : 1 <= cap -> forall i p,
  p < cap -> (rest i <> [] -> p = 0) ->
  let i' := fst (spec_run_until_exhausted EQ cap i ops) in
  let vs := snd (spec_run_until_exhausted EQ cap i ops) in
  i_exhausted i' = true ->
  exists j, all_frames vs = q i ++ rest i ++ repeat EQ j /\ p + j < cap.
Proof.
  intros Hc. induction ops as [|o ops IH]; intros i p Hp Hr; cbn [spec_run_until_exhausted].
  - cbn [fst snd]. intros Hx. apply i_exhausted_true in Hx as [-> ->]. exists 0. simpl. split; [reflexivity|lia].
  - destruct (i_exhausted i) eqn:Hx.
    + cbn [fst snd]. intros _. apply i_exhausted_true in Hx as [-> ->]. exists 0. simpl. split; [reflexivity|lia].
    + cbn [fst snd all_frames flat_map]. intros Hx'.
      destruct (spec_step_spec cap i o Hc) as [S1 [S2 [S3 S4]]].
      set (i1 := fst (spec_step EQ cap i o)) in *.
      set (e := pulled cap i o - length (rest i)).
      assert (He : p + e < cap /\ (rest i1 <> [] -> p + e = 0)).
      { unfold e, pulled in *. destruct (pulling o && (length (q i) =? 0)) eqn:Hpl.
        - apply andb_prop in Hpl as [_ Hq0]. apply Nat.eqb_eq, length_zero_iff_nil in Hq0.
          assert (Hrn : rest i <> []).
          { intros Hn. assert (i_exhausted i = true) by (apply i_exhausted_true; auto). congruence. }
          rewrite (Hr Hrn). assert (1 <= length (rest i)) by (destruct (rest i); [congruence|simpl; lia]).
          split; [lia|]. intros Hn1. rewrite S4 in Hn1.
          destruct (Nat.le_gt_cases (length (rest i)) cap) as [Hle|Hgt]; [|lia].
          exfalso. apply Hn1. apply skipn_all2. exact Hle.
        - split; [lia|]. intros Hn1. rewrite S4 in Hn1. simpl in Hn1. specialize (Hr Hn1). lia. }
      destruct He as [He1 He2].
      destruct (IH i1 (p + e) He1 He2 Hx') as [j [Hj Hlt]].
      fold (all_frames (snd (spec_run_until_exhausted EQ cap i1 ops))) in *.
      exists (e + j). split; [|lia].
      rewrite Hj. set (f := frames_of _) in *.
      replace (f ++ q i1 ++ rest i1 ++ repeat EQ j) with ((f ++ q i1 ++ rest i1) ++ repeat EQ j)
        by (now rewrite <- !app_assoc).
      rewrite S1. fold e. rewrite <- !app_assoc, <- repeat_app. reflexivity.
Qed.

(* a run stopped at exhaustion is a run of a prefix of the operations *)
Lemma spec_until_prefix cap ops : forall i,
  exists ops', spec_run_until_exhausted EQ cap i ops = spec_run EQ cap i ops' /\ length ops' <= length ops.
Proof.
  induction ops as [|o ops IH]; intros i; cbn [spec_run_until_exhausted].
  - exists []. auto.
  - destruct (i_exhausted i); [exists []; split; [reflexivity|simpl; lia]|].
    destruct (IH (fst (spec_step EQ cap i o))) as [ops' [H L]].
    exists (o :: ops'). cbn [spec_run]. rewrite H. split; [reflexivity|simpl; lia].
Qed.

(* the padding is what completes the source to whole blocks: |rest| + j = cap * r *)
Lemma spec_padding cap ops i : 1 <= cap ->
  let i' := fst (spec_run_until_exhausted EQ cap i ops) in
  let vs := snd (spec_run_until_exhausted EQ cap i ops) in
  i_exhausted i' = true ->
  exists j r, all_frames vs = q i ++ rest i ++ repeat EQ j /\ j < cap /\ length (rest i) + j = cap * r.
Proof.
  intros Hc i' vs Hx.
  destruct (spec_padding_gen cap ops Hc i 0 Hc (fun _ => eq_refl) Hx) as [j [Hj Hlt]].
  destruct (spec_until_prefix cap ops i) as [ops' [Hp _]].
  destruct (spec_run_spec cap ops' Hc i) as [_ [_ [H3 _]]]. rewrite <- Hp in H3.
  fold i' vs in H3, Hj. apply i_exhausted_true in Hx as [Hq _]. rewrite Hq, Hj in H3.
  rewrite !app_length, repeat_length in H3. simpl in H3.
  exists j, (refills EQ cap i ops'). split; [exact Hj|]. split; lia.
Qed.

(* one frame at a time reaches exhaustion within |q| + |rest| + cap steps *)
Definition measure (cap : nat) (i : ideal A) : nat :=
  length (q i) + match rest i with [] => 0 | _ => length (rest i) + cap end.

Lemma spec_drain_terminates cap : 1 <= cap -> forall m i, measure cap i <= m ->
  i_exhausted (fst (spec_run_until_exhausted EQ cap i (repeat BNext m))) = true.
Proof.
  intros Hc. induction m as [|m IH]; intros i Hm; cbn [repeat spec_run_until_exhausted].
  - cbn [fst]. apply i_exhausted_true. unfold measure in Hm.
    destruct (q i), (rest i); simpl in Hm; auto; lia.
  - destruct (i_exhausted i) eqn:Hx; [exact Hx|]. cbn [fst]. apply IH.
    destruct (spec_step_spec cap i BNext Hc) as [S1 [S2 [S3 S4]]].
    set (i1 := fst (spec_step EQ cap i BNext)) in *.
    assert (Hv : length (frames_of (snd (spec_step EQ cap i BNext))) = 1).
    { cbn [spec_step]. destruct (q (i_fill EQ cap i)); reflexivity. }
    rewrite Hv in S3. unfold measure in *. unfold pulled in *. cbn [pulling andb] in *.
    destruct (Nat.eqb_spec (length (q i)) 0) as [Hq0|Hq0].
    + assert (Hrn : rest i <> []).
      { intros Hn. apply length_zero_iff_nil in Hq0.
        assert (i_exhausted i = true) by (apply i_exhausted_true; auto). congruence. }
      assert (Hl1 : length (rest i1) = length (rest i) - cap) by (rewrite S4; apply skipn_length).
      destruct (rest i) as [|x t] eqn:Hri; [congruence|]. cbn [length] in *.
      destruct (rest i1); cbn [length] in *; lia.
    + rewrite S4. simpl. destruct (rest i); lia.
Qed.

(* ------------------------------------------------------------------ *)
(* Part 3: the theorems on the model                                   *)

(* Output stream: whatever the interleaving, the frames handed out so far,
   followed by what is still buffered and what the source still holds, are the
   pre-filled frames, then the source's frames, then equilibrium padding; so the
   output is a prefix of prefill ++ source ++ EQ^E. *)
Theorem buffered_stream fuel ops u : 2 <= fuel -> Inv (rb u) ->
  exists u' vs E, run EQ fuel u ops = Ok (u', vs) /\
    all_frames vs ++ abs (rb u') ++ src_rest (sig u') = abs (rb u) ++ src_rest (sig u) ++ repeat EQ E /\
    all_frames vs = firstn (length (all_frames vs)) (abs (rb u) ++ src_rest (sig u) ++ repeat EQ E).
Proof.
  intros Hf I. destruct (run_refines fuel ops u Hf I) as [u' [vs [Hr [I' [C' Hs]]]]].
  destruct (spec_run_spec (max_len (rb u)) ops (inv_cap_pos _ I) (abs_u u)) as [[E H1] _].
  rewrite Hs in H1. cbn [fst snd abs_u q rest] in H1.
  exists u', vs, E. split; [exact Hr|]. split; [exact H1|].
  rewrite <- H1. symmetry. apply firstn_app_len. reflexivity.
Qed.

(* Pulls, one operation: exactly one buffer's worth when the operation finds the
   ring buffer empty (and is not is_exhausted), none otherwise. *)
Theorem buffered_pulls_step fuel u o : 2 <= fuel -> Inv (rb u) ->
  exists u' v, step EQ fuel u o = Ok (u', v) /\
    pulls (sig u') = pulls (sig u) + (if pulling o && (len (rb u) =? 0) then max_len (rb u) else 0).
Proof.
  intros Hf I. destruct (step_refines fuel u o Hf I) as [u' [v [Hs [I' [C' Hsp]]]]].
  exists u', v. split; [exact Hs|].
  destruct (spec_step_spec (max_len (rb u)) (abs_u u) o (inv_cap_pos _ I)) as [_ [S2 _]].
  rewrite Hsp in S2. unfold pulled in S2. cbn [fst abs_u npull q] in S2.
  rewrite (abs_length _ I) in S2. exact S2.
Qed.

(* Pulls, every history: the source has been pulled cap * r times, r = the number
   of operations that found the buffer empty; every pulled frame is either
   handed out or still buffered (none lost, none duplicated); the source has
   advanced by exactly what was pulled. *)
Theorem buffered_pulls fuel ops u : 2 <= fuel -> Inv (rb u) ->
  exists u' vs, run EQ fuel u ops = Ok (u', vs) /\
    let r := refills EQ (max_len (rb u)) (abs_u u) ops in
    pulls (sig u') = pulls (sig u) + max_len (rb u) * r /\
    len (rb u) + max_len (rb u) * r = length (all_frames vs) + len (rb u') /\
    src_rest (sig u') = skipn (max_len (rb u) * r) (src_rest (sig u)).
Proof.
  intros Hf I. destruct (run_refines fuel ops u Hf I) as [u' [vs [Hr [I' [C' Hs]]]]].
  exists u', vs. split; [exact Hr|].
  destruct (spec_run_spec (max_len (rb u)) ops (inv_cap_pos _ I) (abs_u u)) as [_ [H2 [H3 H4]]].
  rewrite Hs in H2, H3, H4. cbn [fst snd abs_u q rest npull] in H2, H3, H4.
  rewrite (abs_length _ I), (abs_length _ I') in H3. auto.
Qed.

(* is_exhausted: exactly "ring buffer empty and source exhausted" ... *)
Theorem buffered_exhausted u : Inv (rb u) ->
  (is_exhausted u = true <-> abs (rb u) = [] /\ src_rest (sig u) = []) /\
  is_exhausted u = (len (rb u) =? 0) && src_exhausted (sig u).
Proof.
  intros I. split; [|reflexivity]. rewrite (is_exhausted_abs u I). apply i_exhausted_true.
Qed.

(* ... hence, after any history: every buffered frame has been delivered and the
   source has been pulled at least as many times as it had frames. *)
Theorem buffered_exhausted_history fuel ops u : 2 <= fuel -> Inv (rb u) ->
  exists u' vs, run EQ fuel u ops = Ok (u', vs) /\
    is_exhausted u' = (len (rb u') =? 0) && (length (src_rest (sig u)) <=? pulls (sig u') - pulls (sig u)).
Proof.
  intros Hf I. destruct (buffered_pulls fuel ops u Hf I) as [u' [vs [Hr [H2 [H3 H4]]]]].
  exists u', vs. split; [exact Hr|]. unfold is_exhausted. f_equal.
  rewrite src_exhausted_rest, H4, H2.
  replace (pulls (sig u) + _ - pulls (sig u)) with (max_len (rb u) * refills EQ (max_len (rb u)) (abs_u u) ops) by lia.
  set (d := max_len (rb u) * _). destruct (Nat.leb_spec (length (src_rest (sig u))) d) as [H|H].
  - now rewrite skipn_all2.
  - destruct (skipn d (src_rest (sig u))) eqn:Hsk; [|reflexivity].
    pose proof (skipn_length d (src_rest (sig u))) as HL. rewrite Hsk in HL. simpl in HL. lia.
Qed.

(* Padding: a run that stops at the first exhausted state has handed out the
   pre-filled frames, the source's frames and fewer than one buffer of padding. *)
Theorem buffered_padding fuel ops u : 2 <= fuel -> Inv (rb u) ->
  exists u' vs, run_until_exhausted EQ fuel u ops = Ok (u', vs) /\
    (is_exhausted u' = true ->
     exists j r, all_frames vs = abs (rb u) ++ src_rest (sig u) ++ repeat EQ j /\ j < max_len (rb u) /\
                 length (src_rest (sig u)) + j = max_len (rb u) * r).
Proof.
  intros Hf I. destruct (run_until_exhausted_refines fuel ops u Hf I) as [u' [vs [Hr [I' [C' Hs]]]]].
  exists u', vs. split; [exact Hr|]. intros Hx. rewrite (is_exhausted_abs u' I') in Hx.
  pose proof (spec_padding (max_len (rb u)) ops (abs_u u) (inv_cap_pos _ I)) as H.
  rewrite Hs in H. cbn [fst snd] in H. exact (H Hx).
Qed.

(* ... and pulling one frame at a time does reach that state. *)
Theorem buffered_drain fuel m u : 2 <= fuel -> Inv (rb u) ->
  len (rb u) + length (src_rest (sig u)) + max_len (rb u) <= m ->
  exists u' vs j r, run_until_exhausted EQ fuel u (repeat BNext m) = Ok (u', vs) /\
    is_exhausted u' = true /\
    all_frames vs = abs (rb u) ++ src_rest (sig u) ++ repeat EQ j /\ j < max_len (rb u) /\
    length (src_rest (sig u)) + j = max_len (rb u) * r.
Proof.
  intros Hf I Hm. destruct (buffered_padding fuel (repeat BNext m) u Hf I) as [u' [vs [Hr Hp]]].
  destruct (run_until_exhausted_refines fuel (repeat BNext m) u Hf I) as [u2 [vs2 [Hr2 [I2 [C2 Hs2]]]]].
  rewrite Hr in Hr2. inversion Hr2; subst u2 vs2.
  assert (Hx : is_exhausted u' = true).
  { rewrite (is_exhausted_abs u' I2).
    pose proof (spec_drain_terminates (max_len (rb u)) (inv_cap_pos _ I) m (abs_u u)) as Ht.
    rewrite Hs2 in Ht. apply Ht. unfold measure, abs_u; cbn [q rest]. rewrite (abs_length _ I).
    destruct (src_rest (sig u)); simpl in *; lia. }
  destruct (Hp Hx) as [j [r [Hj [Hlt Hm']]]]. exists u', vs, j, r. auto.
Qed.

End Proofs.
