(* Non-vacuity: concrete non-trivial states and schedules meeting the hypotheses of the
   C12 theorems (capacity 1, a lead of exactly the capacity, sign-flipping leads, a wrapped
   ring buffer), and what happens when the side condition is dropped. *)
Require Import List ZArith Arith Lia.
From Dasp Require Import Base.Res Base.ListX Ring.Bounded Ring.BoundedSpec Ring.BoundedProofs
  Signal.Fork Signal.ForkSpec Signal.ForkProofs.
Import ListNotations.

Definition zsrc : source Z := {| sfn := fun i => Z.of_nat (i + 1); pulls := 0 |}.
Definition nA := ONext BrA.
Definition nB := ONext BrB.

(* capacity 1: A, B, B, A, A, B -- the lead is +1, 0, -1, 0, +1, 0: it reaches the capacity
   three times and changes sign twice *)
Definition ex1_rb : bounded Z := {| start := 0; len := 0; data := [0%Z] |}.
Definition ex1_ops := [nA; nB; nB; nA; nA; nB].
Example ex1_inv : Inv ex1_rb /\ len ex1_rb = 0. Proof. unfold Inv, max_len; simpl; lia. Qed.
Example ex1_sched_ok : sched_ok (max_len ex1_rb) (0, 0) ex1_ops.
Proof. cbv. lia. Qed.
Example ex1_lead_is_capacity : lead (advance BrA (0, 0)) = max_len ex1_rb. Proof. reflexivity. Qed.
Example ex1_run :
  match fork zsrc ex1_rb with
  | Ok st0 =>
    match frun st0 ex1_ops with
    | Ok (st', vs) =>
        pos_of st' = (3, 3) /\ pulls (signal st') = 3 /\
        frames_of BrA ex1_ops vs = [1; 2; 3]%Z /\ frames_of BrB ex1_ops vs = [1; 2; 3]%Z /\
        map (fun v => match v with (_, p, ca, cb) => (p, ca, cb) end) vs =
          [(1, 0, 1); (1, 0, 0); (2, 1, 0); (2, 0, 0); (3, 0, 1); (3, 0, 0)]
    | _ => False
    end
  | _ => False
  end.
Proof. vm_compute. repeat split; reflexivity. Qed.

(* capacity 3, ring buffer pre-positioned at start = 2: B runs ahead by exactly 3, A catches
   up and overtakes by exactly 3 (the write index wraps, the flag flips twice) *)
Definition ex3_rb : bounded Z := {| start := 2; len := 0; data := [0; 0; 0]%Z |}.
Definition ex3_ops := [nB; nB; nB; OPending BrA; nA; nA; nA; nA; nA; nA; OPending BrB; OByRef; nB; OByRc; nB; nB].
Example ex3_inv : Inv ex3_rb /\ len ex3_rb = 0. Proof. unfold Inv, max_len; simpl; lia. Qed.
Example ex3_sched_ok : sched_ok (max_len ex3_rb) (0, 0) ex3_ops.
Proof. cbv. lia. Qed.
Example ex3_run :
  match fork zsrc ex3_rb with
  | Ok st0 =>
    match frun st0 ex3_ops with
    | Ok (st', vs) =>
        pos_of st' = (6, 6) /\ pulls (signal st') = 6 /\
        frames_of BrA ex3_ops vs = [1; 2; 3; 4; 5; 6]%Z /\ frames_of BrB ex3_ops vs = [1; 2; 3; 4; 5; 6]%Z /\
        nth_error vs 3 = Some (VCount 3, 3, 3, 0) /\ nth_error vs 10 = Some (VCount 3, 6, 0, 3)
    | _ => False
    end
  | _ => False
  end.
Proof. vm_compute. repeat split; reflexivity. Qed.

(* a valid shared state in the middle of a run: wrapped buffer (start 2, two live frames in a
   3-slot buffer), five frames pulled, the two queued ones waiting for A *)
Definition ex_st : shared Z :=
  {| signal := {| sfn := fun i => Z.of_nat (i + 1); pulls := 5 |};
     ring_buffer := {| start := 2; len := 2; data := [5; 99; 4]%Z |};
     pending := BrA |}.
Example ex_st_inv : FInv ex_st.
Proof. unfold FInv, Inv, max_len; simpl. repeat split; try lia. Qed.
Example ex_st_pos : pos_of ex_st = (3, 5). Proof. reflexivity. Qed.
(* B may take exactly one more step (lead 3 = capacity), A any *)
Example ex_st_lead : lead (advance BrB (pos_of ex_st)) = max_len (ring_buffer ex_st). Proof. reflexivity. Qed.
Example ex_st_next :
  match next BrB ex_st with
  | Ok (st', fr) => fr = 6%Z /\ pos_of st' = (3, 6) /\ abs (ring_buffer st') = [4; 5; 6]%Z
  | _ => False
  end.
Proof. vm_compute. repeat split; reflexivity. Qed.

(* Dropping the side condition: capacity 1, A pulls twice before B pulls at all.  Nothing
   panics; frame 1 is overwritten and B's stream starts with frame 2 -- B never observes
   frame 1, and its pending count (1) is not its lag (2). *)
Definition bad_ops := [nA; nA; nB; nB].
Example bad_not_ok : ~ sched_ok (max_len ex1_rb) (0, 0) bad_ops.
Proof. cbv. lia. Qed.
Example bad_run :
  match fork zsrc ex1_rb with
  | Ok st0 =>
    match frun st0 bad_ops with
    | Ok (_, vs) =>
        frames_of BrA bad_ops vs = [1; 2]%Z /\ frames_of BrB bad_ops vs = [2; 3]%Z /\
        nth_error vs 1 = Some (VFrame 2%Z, 2, 0, 1)
    | _ => False
    end
  | _ => False
  end.
Proof. vm_compute. repeat split; reflexivity. Qed.

(* the hypotheses of next_overrun are met by the state after the first pull *)
Example overrun_state :
  match fork zsrc ex1_rb with
  | Ok st0 =>
    match next BrA st0 with
    | Ok (st1, _) => FInv st1 /\ pending st1 = negb BrA /\ len (ring_buffer st1) = max_len (ring_buffer st1)
    | _ => False
    end
  | _ => False
  end.
Proof. vm_compute. repeat split; lia. Qed.
