(* The accessor operations of dasp_signal::interpolate::Converter (dasp_signal/src/interpolate.rs:102-118)
   over the model of Signal/Converter.v, written after the source:

     source()       -> &S        the converter is not changed
     source_mut()   -> &mut S    the converter is not changed; [source_pull] is `source_mut().next()`:
                                 the caller takes a frame from the source behind the converter's back
     into_source()  -> S         the source as the converter leaves it; [rebuild_*] hands it to a
                                 constructor again with a newly primed interpolator: the source goes on
                                 where it was, position and interpolator start afresh

   The setters are in Signal/Converter.v (set_playback_hz_scale / set_hz_to_hz / set_sample_hz_scale:
   only the ratio changes).  Definitions only; proofs in Signal/ConverterOpsProofs.v. *)
Require Import List Arith Bool.
From Dasp Require Import Base.Res Signal.Converter.
Import ListNotations.

Section Ops.
Context {N : Num} {Fm : Fmt N}.

Definition source_pull (c : conv Fm) : frame Fm * conv Fm :=
  let (f, s') := src_next (src c) in
  (f, {| src := s'; itp := itp c; value := value c; ratio := ratio c |}).

Definition into_source (c : conv Fm) : source Fm := src c.

(* priming as the public API does: Floor::new(source.next()); Linear::new(source.next(), source.next()) *)
Definition prime_floor (s : source Fm) : interp Fm * source Fm :=
  let (a, s1) := src_next s in (IFloor a, s1).
Definition prime_linear (s : source Fm) : interp Fm * source Fm :=
  let (a, s1) := src_next s in let (b, s2) := src_next s1 in (ILinear a b, s2).

(* into_source(), prime a new interpolator from the returned source, scale_playback_hz(source, interp, scale) *)
Definition rebuild (linear : bool) (c : conv Fm) (scale : T N) : res (conv Fm) :=
  let (i, s) := if linear then prime_linear (into_source c) else prime_floor (into_source c) in
  scale_playback_hz s i scale.

End Ops.
