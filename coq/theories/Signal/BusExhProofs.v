(* is_exhausted and drop(bus): they do not change the node, so every state reached through the
   extended API is reached by the core schedule with the same trace (all C13 theorems apply), and an
   output reports exhaustion iff it has received every frame pulled so far and the source is exhausted. *)
Require Import List Arith Lia Bool.
From Dasp Require Import Base.Res Signal.Bus Signal.BusSpec Signal.BusProofs Signal.BusHistProofs Signal.BusExh.
Import ListNotations.

Section Proofs.
Context {F : Type} (f : nat -> F) (ex : nat -> bool).

Lemma xrun_core ops : forall (s s' : @st F) xtr, xrun f ex ops s = Ok (s', xtr) ->
  run f (core ops) s = Ok (s', core_ev xtr).
Proof.
  induction ops as [|o t IH]; intros s s' xtr Hr; cbn [xrun] in Hr.
  - injection Hr as <- <-. reflexivity.
  - apply bind_ok in Hr. destruct Hr as ([s1 e] & Hs & Hr). cbn [fst snd] in Hr.
    apply bind_ok in Hr. destruct Hr as ([s2 tr2] & Hr2 & E). cbn [fst snd] in E. injection E as <- <-.
    apply IH in Hr2. destruct o as [o|k|]; cbn [xstep] in Hs.
    + apply bind_ok in Hs. destruct Hs as ([s3 e3] & Hs3 & E). cbn [fst snd] in E. injection E as <- <-.
      cbn [core core_ev run]. rewrite Hs3. cbn [bind fst snd]. rewrite Hr2. reflexivity.
    + apply bind_ok in Hs. destruct Hs as (b & _ & E). injection E as <- <-. exact Hr2.
    + injection Hs as <- <-. exact Hr2.
Qed.

Theorem xrun_reachable ops (s : @st F) xtr : xrun f ex ops init = Ok (s, xtr) ->
  run f (core ops) init = Ok (s, core_ev xtr).
Proof. apply xrun_core. Qed.

Theorem exhausted_iff ops (s : @st F) xtr : xrun f ex ops init = Ok (s, xtr) ->
  forall k a, In (ESend k a) (core_ev xtr) -> is_live s k ->
    output_is_exhausted ex s k = Ok ((a + received k (core_ev xtr) =? pulled s) && ex (pulled s)).
Proof.
  intros Hr k a Hin Hl. apply xrun_reachable in Hr.
  destruct (run_pending f _ _ _ Hr k a Hin Hl) as [Hle Hp].
  unfold output_is_exhausted. rewrite Hp. cbn [bind]. do 2 f_equal.
  destruct (Nat.eqb_spec (a + received k (core_ev xtr)) (pulled s)) as [E|E];
    [apply Nat.eqb_eq|apply Nat.eqb_neq]; lia.
Qed.

(* is_exhausted on a dropped / unknown key panics (BTreeMap index), like pending_frames *)
Lemma exhausted_unknown (s : @st F) k : lookup k (fr s) = None -> output_is_exhausted ex s k = Panic PIndex.
Proof. intros H. unfold output_is_exhausted, pending_frames. now rewrite H. Qed.

End Proofs.
