(* Model of the rate converter, written after
     /repo/dasp_signal/src/interpolate.rs   (Converter: constructors, set_*, next, is_exhausted)
     /repo/dasp_signal/src/lib.rs           (from_iter / FromIterator, mul_hz / MulHz)
     /repo/dasp_interpolate/src/floor.rs, linear.rs   (Floor, Linear)
   over a small numeric record, instantiated with R (theorems, ConvNumR.v) and with
   IEEE binary64 (execution and IEEE lemmas, ConvNumF.v).  Definitions only. *)
Require Import List Arith Bool.
From Dasp Require Import Base.Res.
Import ListNotations.

(* the arithmetic of the accumulator and of the linear blend (Rust f64) *)
Record Num := mkNum {
  T : Type;
  zero : T; one : T;
  add : T -> T -> T; sub : T -> T -> T; mul : T -> T -> T; div : T -> T -> T;
  leb : T -> T -> bool;    (* a <= b *)
  ltb : T -> T -> bool     (* a <  b *)
}.

(* a sample format: Sample::to_sample::<f64>(), f64::to_sample::<S>(), Sample::EQUILIBRIUM *)
Record Fmt (N : Num) := mkFmt {
  smp : Type;
  to_f : smp -> T N;
  of_f : T N -> smp;
  equil : smp
}.
Arguments smp {N} _.
Arguments to_f {N} _ _.
Arguments of_f {N} _ _.
Arguments equil {N} _.

(* result of a computation containing the `while` loop: the loop is run with fuel *)
Inductive outcome (A : Type) : Type := Done (a : A) | Diverges.
Arguments Done {A} a.
Arguments Diverges {A}.

Section Model.
Context {N : Num} {Fm : Fmt N}.
Notation num := (T N).
Notation sample := (smp Fm).
Definition frame := list sample.        (* one sample per channel *)

(* ---- signal::from_iter over a finite iterator, instrumented ----
   FromIterator { iter, next: Option<Item> }: [rest] = next :: remaining items of iter
   (so `next.is_none()` <-> rest = []);  [pulls] counts Signal::next calls,
   [iter_calls] counts Iterator::next calls (one look-ahead call in from_iter). *)
Record source := mkSource { rest : list frame; pulls : nat; iter_calls : nat; nch : nat }.

Definition equilibrium (n : nat) : frame := repeat (equil Fm) n.

Definition from_iter (n : nat) (fs : list frame) : source :=
  {| rest := fs; pulls := 0; iter_calls := 1; nch := n |}.

Definition src_next (s : source) : frame * source :=
  match rest s with
  | f :: t => (f, {| rest := t; pulls := S (pulls s); iter_calls := S (iter_calls s); nch := nch s |})
  | [] => (equilibrium (nch s), {| rest := []; pulls := S (pulls s); iter_calls := iter_calls s; nch := nch s |})
  end.

Definition src_exhausted (s : source) : bool :=
  match rest s with [] => true | _ => false end.

(* ---- interpolators ---- *)
Inductive interp := IFloor (left : frame) | ILinear (left right : frame).

Fixpoint zip_map (f : sample -> sample -> sample) (a b : frame) : frame :=
  match a, b with
  | x :: a', y :: b' => f x y :: zip_map f a' b'
  | _, _ => []
  end.

(* linear.rs: let l_f = l.to_sample::<f64>(); let r_f = r.to_sample::<f64>();
              let diff = r_f - l_f; ((diff * x) + l_f).to_sample() *)
Definition blend (x : num) (l r : sample) : sample :=
  let l_f := to_f Fm l in
  let r_f := to_f Fm r in
  let diff := sub N r_f l_f in
  of_f Fm (add N (mul N diff x) l_f).

Definition interpolate (i : interp) (x : num) : frame :=
  match i with
  | IFloor l => l
  | ILinear l r => zip_map (blend x) l r
  end.

Definition next_source_frame (i : interp) (f : frame) : interp :=
  match i with
  | IFloor _ => IFloor f
  | ILinear _ r => ILinear r f
  end.

(* ---- Converter ---- *)
Record conv := mkConv { src : source; itp : interp; value : num; ratio : num }.

Definition scale_playback_hz (s : source) (i : interp) (scale : num) : res conv :=
  if ltb N (zero N) scale            (* assert!(scale > 0.0) *)
  then Ok {| src := s; itp := i; value := zero N; ratio := scale |}
  else Panic PAssert.

Definition from_hz_to_hz (s : source) (i : interp) (source_hz target_hz : num) : res conv :=
  scale_playback_hz s i (div N source_hz target_hz).

Definition scale_sample_hz (s : source) (i : interp) (scale : num) : res conv :=
  scale_playback_hz s i (div N (one N) scale).

Definition set_playback_hz_scale (c : conv) (scale : num) : conv :=
  {| src := src c; itp := itp c; value := value c; ratio := scale |}.

Definition set_hz_to_hz (c : conv) (source_hz target_hz : num) : conv :=
  set_playback_hz_scale c (div N source_hz target_hz).

Definition set_sample_hz_scale (c : conv) (scale : num) : conv :=
  set_playback_hz_scale c (div N (one N) scale).

(* while interpolation_value >= 1.0 {
       interpolator.next_source_frame(source.next()); interpolation_value -= 1.0; } *)
Fixpoint advance (fuel : nat) (c : conv) : outcome conv :=
  match fuel with
  | O => Diverges
  | S k =>
    if leb N (one N) (value c) then
      let (f, s') := src_next (src c) in
      advance k {| src := s'; itp := next_source_frame (itp c) f;
                   value := sub N (value c) (one N); ratio := ratio c |}
    else Done c
  end.

(* let out = interpolator.interpolate(interpolation_value);
   interpolation_value += source_to_target_ratio; out *)
Definition next (fuel : nat) (c : conv) : outcome (frame * conv) :=
  match advance fuel c with
  | Diverges => Diverges
  | Done c1 =>
    let out := interpolate (itp c1) (value c1) in
    Done (out, {| src := src c1; itp := itp c1; value := add N (value c1) (ratio c1); ratio := ratio c1 |})
  end.

Definition is_exhausted (c : conv) : bool :=
  src_exhausted (src c) && leb N (one N) (value c).

(* ---- MulHz: control signal = from_iter over f64 (equilibrium 0.0 past its end) ---- *)
Record mulhz := mkMulHz { mconv : conv; ctl : list num }.

Definition mul_hz (s : source) (i : interp) (control : list num) : res mulhz :=
  let* c := scale_playback_hz s i (one N) in Ok {| mconv := c; ctl := control |}.

Definition ctl_next (l : list num) : num * list num :=
  match l with x :: t => (x, t) | [] => (zero N, []) end.

(* let mul = self.mul_per_frame.next(); self.signal.set_playback_hz_scale(mul); self.signal.next() *)
Definition mul_next (fuel : nat) (m : mulhz) : outcome (frame * mulhz) :=
  let (mul, ctl') := ctl_next (ctl m) in
  match next fuel (set_playback_hz_scale (mconv m) mul) with
  | Diverges => Diverges
  | Done (out, c') => Done (out, {| mconv := c'; ctl := ctl' |})
  end.

Definition mul_exhausted (m : mulhz) : bool :=
  is_exhausted (mconv m) || match ctl m with [] => true | _ => false end.

(* ---- drivers used by the theorems and by the correspondence ----
   one observation per output: is_exhausted before it, the frame, the source's pull
   counter and the accumulator after it *)
Record obs := mkObs { o_exh : bool; o_frame : frame; o_pulls : nat; o_iter : nat; o_value : num }.

(* ratio r_k set before output k (what MulHz does with its control signal) *)
Fixpoint run (fuel : nat) (rs : list num) (c : conv) : outcome (list obs * conv) :=
  match rs with
  | [] => Done ([], c)
  | r :: rs' =>
    let c0 := set_playback_hz_scale c r in
    match next fuel c0 with
    | Diverges => Diverges
    | Done (out, c1) =>
      match run fuel rs' c1 with
      | Diverges => Diverges
      | Done (os, c2) =>
        Done ({| o_exh := is_exhausted c0; o_frame := out; o_pulls := pulls (src c1);
                 o_iter := iter_calls (src c1); o_value := value c1 |} :: os, c2)
      end
    end
  end.

(* n outputs with the ratio left as the constructor set it *)
Fixpoint run_const (fuel : nat) (n : nat) (c : conv) : outcome (list obs * conv) :=
  match n with
  | O => Done ([], c)
  | S n' =>
    match next fuel c with
    | Diverges => Diverges
    | Done (out, c1) =>
      match run_const fuel n' c1 with
      | Diverges => Diverges
      | Done (os, c2) =>
        Done ({| o_exh := is_exhausted c; o_frame := out; o_pulls := pulls (src c1);
                 o_iter := iter_calls (src c1); o_value := value c1 |} :: os, c2)
      end
    end
  end.

(* MulHz, n outputs; the observed exhaustion flag is MulHz::is_exhausted *)
Fixpoint run_mul (fuel : nat) (n : nat) (m : mulhz) : outcome (list obs * mulhz) :=
  match n with
  | O => Done ([], m)
  | S n' =>
    match mul_next fuel m with
    | Diverges => Diverges
    | Done (out, m1) =>
      match run_mul fuel n' m1 with
      | Diverges => Diverges
      | Done (os, m2) =>
        Done ({| o_exh := mul_exhausted m; o_frame := out; o_pulls := pulls (src (mconv m1));
                 o_iter := iter_calls (src (mconv m1)); o_value := value (mconv m1) |} :: os, m2)
      end
    end
  end.

(* number of outputs a consumer that stops at exhaustion (`until_exhausted`) gets *)
Fixpoint count_until_exhausted (os : list obs) : nat :=
  match os with
  | [] => 0
  | o :: t => if o_exh o then 0 else S (count_until_exhausted t)
  end.

(* Signal::until_exhausted() as an iterator, taken at most [cap] times:
   if self.signal.is_exhausted() { return None; } Some(self.signal.next())   -> number of frames *)
Fixpoint until_exhausted (fuel cap : nat) (c : conv) : outcome (nat * conv) :=
  match cap with
  | O => Done (O, c)
  | S k =>
    if is_exhausted c then Done (O, c)
    else match next fuel c with
         | Diverges => Diverges
         | Done (_, c1) =>
           match until_exhausted fuel k c1 with
           | Diverges => Diverges
           | Done (n, c2) => Done (S n, c2)
           end
         end
  end.

Fixpoint mul_until_exhausted (fuel cap : nat) (m : mulhz) : outcome (nat * mulhz) :=
  match cap with
  | O => Done (O, m)
  | S k =>
    if mul_exhausted m then Done (O, m)
    else match mul_next fuel m with
         | Diverges => Diverges
         | Done (_, m1) =>
           match mul_until_exhausted fuel k m1 with
           | Diverges => Diverges
           | Done (n, m2) => Done (S n, m2)
           end
         end
  end.

End Model.

Arguments frame {N} Fm.
Arguments source {N} Fm.
Arguments interp {N} Fm.
Arguments conv {N} Fm.
Arguments mulhz {N} Fm.
Arguments obs {N} Fm.
