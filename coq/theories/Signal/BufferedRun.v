(* Executable instance of the Buffered model over Z (a frame is an integer,
   equilibrium is 0), with the observation encoding of harness/src/bin/c14.rs;
   evaluated by coqc on the correspondence cases. *)
Require Import List ZArith Bool.
From Dasp Require Import Base.Res Base.ListX Ring.Bounded Signal.Buffered Signal.BufferedSpec.
Import ListNotations.
Open Scope Z_scope.

Inductive zop := ZNext | ZFrames (k : Z) | ZFramesAll | ZHint | ZExh.

Definition n (z : Z) : nat := Z.to_nat z.
Definition zn (k : nat) : Z := Z.of_nat k.
Definition zb (b : bool) : Z := if b then 1 else 0.

Definition to_op (o : zop) : bop :=
  match o with
  | ZNext => BNext | ZFrames k => BFrames (n k) | ZFramesAll => BFramesAll
  | ZHint => BHint | ZExh => BExhausted
  end.

(* the loop of Buffered::next is given far more iterations than it can use *)
Definition FUEL : nat := 8%nat.

(* every observation carries the two pull counters read right after the operation *)
Definition enc (u : buffered Z) (v : bobs Z) : list Z :=
  let p := zn (pulls (sig u)) in
  let ip := zn (ipulls (sig u)) in
  match v with
  | ONext f => [1; p; ip; f]
  | OFrames l => 5 :: p :: ip :: l
  | OHint lo hi => [4; p; ip; zn lo; match hi with Some h => zn h | None => -1 end]
  | OExh b => [3; p; ip; zb b]
  end.

(* final observation: into_parts(): counters, source exhausted?, what the ring buffer still holds *)
Definition enc_parts (u : buffered Z) : list (list Z) :=
  let pr := into_parts u in
  match iter (snd pr) with
  | Ok l => [6 :: zn (pulls (fst pr)) :: zn (ipulls (fst pr)) :: zb (src_exhausted (fst pr)) :: zn (len (snd pr)) :: l]
  | Panic k => [[-1; zn (panic_code k)]]
  | UB => [[-2]]
  end.

Fixpoint zrun (u : buffered Z) (ops : list zop) : list (list Z) :=
  match ops with
  | [] => enc_parts u
  | o :: t => match step 0 FUEL u (to_op o) with
              | Ok (u', v) => enc u' v :: zrun u' t
              | Panic k => [[-1; zn (panic_code k)]]
              | UB => [[-2]]
              end
  end.

Inductive bcase := Case (s l : Z) (d : list Z) (src : list Z) (ops : list zop).

Definition run_case (c : bcase) : list (list Z) :=
  match c with
  | Case s l d src ops =>
    match from_raw_parts (n s) (n l) d with
    | Ok b => zrun (mk_buffered (from_iter src) b) ops
    | Panic k => [[8; zn (panic_code k)]]
    | UB => [[-2]]
    end
  end.

Definition zll_eqb (a b : list (list Z)) : bool :=
  if list_eq_dec (list_eq_dec Z.eq_dec) a b then true else false.

Definition check (c : bcase * list (list Z)) : bool := zll_eqb (run_case (fst c)) (snd c).
