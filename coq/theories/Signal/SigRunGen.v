(* Executable instances of the signal model (Signal/Sig.v) for ALL fourteen sample formats and any
   channel count, over the C03 sample/frame model: Sample/SampleOps.v (add_amp, mul_amp, to_signed built
   from the GENERATED conversions gen/ConvGen.v, gen/ConvFloatGen.v, gen/SampleTable.v, regenerated from
   /repo on every run) applied per channel by Frame/FrameOps.v.  Two things are NOT taken from the
   generated model, so that a wrong constant or conversion in the source is visible as a disagreement
   with a concrete input instead of being followed silently:
     - Frame::EQUILIBRIUM is the TRUE equilibrium (ConvSpec.equilibrium: 0 / 2^(bits-1); +0.0);
     - every add_amp / mul_amp / to_signed result of the generated model is compared, per sample, with
       the specification value (re-centred integer addition; trunc(to_float(s) * amp * 2^(bits-1)) on the
       documented domain -1 <= product < 1; ConvSpec.spec_conv) and replaced by a poison value if they differ.
   Integer samples travel as their (inner) value, floats as IEEE bit patterns. *)
Require Import Floats.SpecFloat.
Require Import List ZArith Bool.
From Flocq Require Import Core BinarySingleNaN.
From Dasp Require Import Base.Res Base.Float Sample.Rint Sample.ConvSpec Sample.SampleFmt Sample.SampleOps
  Frame.FrameOps Signal.Sig Signal.SigRun.
From DaspGen Require Import FormatTable SampleTable.
Import ListNotations.
Open Scope Z_scope.

Definition POISON_PANIC : Z := - 2 ^ 200.
Definition POISON_SPEC : Z := - 2 ^ 201.

Definition guard (gen : res Z) (spec : option Z) : Z :=
  match gen with
  | Ok v => match spec with Some w => if v =? w then v else POISON_SPEC | None => v end
  | _ => POISON_PANIC
  end.

Fixpoint guard_list (gen : list Z) (spec : list (option Z)) : list Z :=
  match gen, spec with
  | v :: g', w :: s' => guard (Ok v) w :: guard_list g' s'
  | _, _ => gen
  end.
Definition guard_frame (gen : res (list Z)) (spec : list (option Z)) : zframe :=
  match gen with Ok l => guard_list l spec | _ => [POISON_PANIC] end.

Definition s_lt (g : sfmt) : sty g -> sty g -> bool :=
  match g with SInt _ => Z.ltb | SF32 => F32.ltb | SF64 => F64.ltb end.
Definition s_negate (g : sfmt) : sty g -> sty g :=
  match g with SInt _ => Z.opp | SF32 => F32.neg | SF64 => F64.neg end.
Definition s_sub (g : sfmt) : sty g -> sty g -> sty g :=
  match g with SInt _ => Z.sub | SF32 => F32.sub | SF64 => F64.sub end.

(* the value of a format's range reduction (closures that wrap) *)
Definition wrap_fmt (fi : ConvSpec.fmt) (z : Z) : Z := (z - fmin fi) mod 2 ^ bits fi + fmin fi.

Section G.
Variable f : sfmt.
Variable N : nat.
Notation sg := (signed_of f).
Notation fl := (float_of f).

Definition decl (g : sfmt) (l : list Z) : list (sty g) := List.map (dec g) l.
Definition encl (g : sfmt) (l : list (sty g)) : list Z := List.map (enc g) l.

(* ---- specification values ---- *)
Definition spec_tos (x : Z) : option Z :=
  match f with SInt fi => Some (spec_conv fi (src_signed_fmt fi) x) | _ => None end.
Definition spec_ofs (y : Z) : option Z :=
  match f with SInt fi => Some (spec_conv (src_signed_fmt fi) fi y) | _ => None end.
Definition spec_add (x y : Z) : option Z :=
  match f with
  | SInt fi => let s := src_signed_fmt fi in Some (spec_conv s fi (spec_conv fi s x + y))
  | _ => None
  end.
Definition spec_mul (x a : Z) : option Z :=
  match f with
  | SInt fi =>
    if src_float64 fi then
      let p := F64.mul (F64.div (F64.of_Z (amp fi x)) (F64.of_Z (half fi))) (F64.of_bits a) in
      if F64.leb (F64.of_Z (-1)) p && F64.ltb p (F64.of_Z 1)
      then Some (F64.to_Z_sat (- half fi) (half fi) (F64.mul p (F64.of_Z (half fi))) + (if signed fi then 0 else half fi))
      else None
    else
      let p := F32.mul (F32.div (F32.of_Z (amp fi x)) (F32.of_Z (half fi))) (F32.of_bits a) in
      if F32.leb (F32.of_Z (-1)) p && F32.ltb p (F32.of_Z 1)
      then Some (F32.to_Z_sat (- half fi) (half fi) (F32.mul p (F32.of_Z (half fi))) + (if signed fi then 0 else half fi))
      else None
  | _ => None
  end.

Definition spec_tof (x : Z) : option Z :=
  match f with
  | SInt fi =>
    Some (if src_float64 fi then F64.bits (F64.div (F64.of_Z (amp fi x)) (F64.of_Z (half fi)))
          else F32.bits (F32.div (F32.of_Z (amp fi x)) (F32.of_Z (half fi))))
  | _ => None
  end.

Fixpoint omap2 (h : Z -> Z -> option Z) (a b : list Z) : list (option Z) :=
  match a, b with x :: a', y :: b' => h x y :: omap2 h a' b' | _, _ => [] end.

(* ---- the generated model, per channel through Frame/FrameOps.v, guarded by the specification ---- *)
Definition g_add (a b : zframe) : zframe :=
  guard_frame (rmap (encl f) (f_add_amp Checked f N (decl f a) (decl sg b))) (omap2 spec_add a b).
Definition g_mul (a b : zframe) : zframe :=
  guard_frame (rmap (encl f) (f_mul_amp Checked f N (decl f a) (decl fl b))) (omap2 spec_mul a b).
Definition g_scale (amp : Z) (a : zframe) : zframe :=
  guard_frame (rmap (encl f) (f_scale_amp Checked f N (decl f a) (dec fl amp))) (List.map (fun x => spec_mul x amp) a).
Definition g_offset (off : Z) (a : zframe) : zframe :=
  guard_frame (rmap (encl f) (f_offset_amp Checked f N (decl f a) (dec sg off))) (List.map (fun x => spec_add x off) a).
Definition g_tos (x : Z) : Z := guard (rmap (enc sg) (to_signed Checked f (dec f x))) (spec_tos x).
Definition g_ofs (y : Z) : Z := guard (rmap (enc f) (conv Checked sg f (dec sg y))) (spec_ofs y).
Definition g_tof (x : Z) : Z := guard (rmap (enc fl) (to_float Checked f (dec f x))) (spec_tof x).
Definition g_ltb (x y : Z) : bool := s_lt sg (dec sg x) (dec sg y).
Definition g_neg (x : Z) : Z := enc sg (s_negate sg (dec sg x)).
Definition g_canon (x : Z) : Z := enc f (dec f x).

(* TRUE equilibrium, not the constant the source declares *)
Definition g_eqm : zframe :=
  repeat (match f with SInt fi => equilibrium fi | _ => 0 end) N.

(* closures of the harness: map 0 = reverse channels, 1 = + k wrapped into the format's range / float add,
   8 = Frame::to_float_frame, 9 = Frame::to_signed_frame; zip 0 = a - b wrapped / float sub, 1 = select *)
Definition g_map (fnid k : Z) (fr : zframe) : zframe :=
  match fnid with
  | 0 => rev fr
  | 1 => match f with
         | SInt fi => List.map (fun x => wrap_fmt fi (x + k)) fr
         | SF32 => List.map (fun x => f32b F32.add x k) fr
         | SF64 => List.map (fun x => f64b F64.add x k) fr
         end
  | 8 => List.map g_tof fr
  | 9 => List.map g_tos fr
  | _ => fr
  end.
Definition g_zip (fnid : Z) (a b : zframe) : zframe :=
  match fnid with
  | 0 => match f with
         | SInt fi => map2 (fun x y => wrap_fmt fi (x - y)) a b
         | SF32 => map2 (f32b F32.sub) a b
         | SF64 => map2 (f64b F64.sub) a b
         end
  | _ => interleave_sel 0 a b
  end.
Definition g_genmut (base : Z) (n : nat) : zframe :=
  let v := base + Z.of_nat n mod 7 in
  repeat (match f with SInt _ => v | SF32 => F32.bits (F32.of_Z v) | SF64 => F64.bits (F64.of_Z v) end) N.

Definition gops : zops := {|
  o_nch := N; o_eqm := g_eqm; o_add := g_add; o_mul := g_mul; o_scale := g_scale; o_offset := g_offset;
  o_tos := g_tos; o_ofs := g_ofs; o_ltb := g_ltb; o_neg := g_neg; o_canon := g_canon;
  o_map := g_map; o_zip := g_zip; o_genmut := g_genmut |}.
End G.

(* format by its SampleFmt code (0..11 integer formats, 12 f32, 13 f64) and channel count
   (a bare-sample frame is the 1-channel instance: Frame/FrameOpsProofs shows they agree) *)
Inductive gcase := GCase (code n : Z) (bases : list ztree) (ops : list zop).

Definition run_gcase (c : gcase) : list (list Z) :=
  match c with
  | GCase code n ts ops =>
    match sfmt_of_code code with
    | Some f => let OP := gops f (Z.to_nat n) in let (l, bases) := run_bases OP ts in l ++ run_ops OP bases ops
    | None => [[-3]]
    end
  end.

(* delay lengths clamped to the run's bound first (see SigRun.norm_case; SigRunNormProofs.run_ops_norm) *)
Definition norm_gcase (c : gcase) : gcase :=
  match c with
  | GCase code n ts ops => let b := norm_bound ops in GCase code n (map (clamp_tree b) ts) (map (clamp_op b) ops)
  end.

Definition run_gcase_norm (c : gcase) : list (list Z) := run_gcase (norm_gcase c).

Definition check_gen (c : gcase * list (list Z)) : bool := zll_eqb (run_gcase_norm (fst c)) (snd c).
