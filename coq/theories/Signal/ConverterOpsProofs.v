(* Proofs about the setter / accessor operations of the Converter model, for every arithmetic
   (reals and IEEE binary64 alike) and every state of the accumulator. *)
Require Import List Arith Bool.
From Dasp Require Import Base.Res Signal.Converter Signal.ConverterOps.
Import ListNotations.

Section OpsProofs.
Context {N : Num} {Fm : Fmt N}.

(* the setters change the ratio and nothing else *)
Lemma setters_only_ratio (c : conv Fm) (x a b : T N) :
  let c1 := set_playback_hz_scale c x in
  let c2 := set_hz_to_hz c a b in
  let c3 := set_sample_hz_scale c x in
  (src c1 = src c /\ itp c1 = itp c /\ value c1 = value c /\ ratio c1 = x) /\
  (src c2 = src c /\ itp c2 = itp c /\ value c2 = value c /\ ratio c2 = div N a b) /\
  (src c3 = src c /\ itp c3 = itp c /\ value c3 = value c /\ ratio c3 = div N (one N) x).
Proof. cbv zeta. repeat split. Qed.

(* announcing the ratio in force again is the identity on the converter: whatever follows is unchanged *)
Lemma set_same_ratio (c : conv Fm) (x a b : T N) :
  (x = ratio c -> set_playback_hz_scale c x = c) /\
  (div N a b = ratio c -> set_hz_to_hz c a b = c) /\
  (div N (one N) x = ratio c -> set_sample_hz_scale c x = c).
Proof.
  unfold set_hz_to_hz, set_sample_hz_scale, set_playback_hz_scale.
  repeat split; intros ->; destruct c; reflexivity.
Qed.

(* a pull through source_mut() moves the source by one frame and touches nothing else *)
Lemma source_pull_only_source (c : conv Fm) :
  let r := source_pull c in
  fst r = fst (src_next (src c)) /\ src (snd r) = snd (src_next (src c)) /\
  itp (snd r) = itp c /\ value (snd r) = value c /\ ratio (snd r) = ratio c.
Proof.
  cbv zeta. unfold source_pull. destruct (src_next (src c)) as [f s']. repeat split.
Qed.

(* into_source + constructor: the source continues where the converter left it (after the priming pulls),
   the position starts at zero *)
Lemma rebuild_state (linear : bool) (c c' : conv Fm) (scale : T N) :
  rebuild linear c scale = Ok c' ->
  value c' = zero N /\ ratio c' = scale /\
  src c' = snd (if linear then prime_linear (src c) else prime_floor (src c)) /\
  itp c' = fst (if linear then prime_linear (src c) else prime_floor (src c)).
Proof.
  unfold rebuild, into_source.
  destruct (if linear then prime_linear (src c) else prime_floor (src c)) as [i s].
  unfold scale_playback_hz. destruct (ltb N (zero N) scale); [|discriminate].
  intros H. injection H as <-. repeat split.
Qed.

End OpsProofs.
