(* C20 — proofs about the integer chunk schedule of the Windower model and about the
   contents of a Windowed chunk.  Axiom-free. *)
Require Import List Arith Lia.
From Dasp Require Import Base.Res Base.ListX Signal.Window Signal.WindowSpec.
Import ListNotations.

(* ------------------------------------------------------------------------- *)
(* arithmetic of the chunk count                                              *)

Lemma chunk_count_zero L b h : L < b -> chunk_count L b h = 0.
Proof.
  intros Hlt. unfold chunk_count. destruct (Nat.leb_spec b L); [lia | reflexivity].
Qed.

Lemma chunk_count_pos L b h : b <= L -> chunk_count L b h = (L - b) / h + 1.
Proof.
  intros Hle. unfold chunk_count. destruct (Nat.leb_spec b L); [reflexivity | lia].
Qed.

Lemma chunk_count_le L b h : 1 <= b -> 1 <= h -> chunk_count L b h <= L.
Proof.
  intros Hb Hh. unfold chunk_count. destruct (Nat.leb_spec b L) as [Hle|Hlt]; [|lia].
  assert (Hd : (L - b) / h <= L - b) by (apply Nat.div_le_upper_bound; nia).
  lia.
Qed.

(* chunk k starts at k*h and fits: k*h + b <= L *)
Lemma chunk_fits L b h k : 1 <= h -> k < chunk_count L b h -> k * h + b <= L.
Proof.
  intros Hh Hk. unfold chunk_count in Hk. destruct (Nat.leb_spec b L) as [Hle|Hlt]; [|lia].
  assert (Hk' : k <= (L - b) / h) by lia.
  assert (Hm : h * ((L - b) / h) <= L - b) by (apply Nat.mul_div_le; lia).
  nia.
Qed.

(* ... and the next one would not: (count)*h + b > L *)
Lemma chunk_after_last L b h : 1 <= h -> b <= L -> L < chunk_count L b h * h + b.
Proof.
  intros Hh Hle. rewrite chunk_count_pos by assumption.
  pose proof (Nat.div_mod (L - b) h ltac:(lia)) as Hdm.
  pose proof (Nat.mod_upper_bound (L - b) h ltac:(lia)) as Hub.
  nia.
Qed.

(* the slice the windower keeps after a call of next *)
Definition rest_of {A} (fr : list A) (h : nat) : list A :=
  if h <? length fr then skipn h fr else [].

Lemma rest_length {A} (fr : list A) h : length (rest_of fr h) = length fr - h.
Proof.
  unfold rest_of. destruct (Nat.ltb_spec h (length fr)) as [Hlt|Hge].
  - apply skipn_length.
  - simpl. lia.
Qed.

Lemma count_step L b h : 1 <= b -> 1 <= h -> b <= L ->
  chunk_count L b h = S (chunk_count (L - h) b h).
Proof.
  intros Hb Hh Hle. rewrite (chunk_count_pos L) by assumption.
  destruct (Nat.le_gt_cases b (L - h)) as [Hle'|Hgt].
  - rewrite chunk_count_pos by assumption.
    replace (L - b) with ((L - h - b) + 1 * h) by lia.
    rewrite Nat.div_add by lia. lia.
  - rewrite chunk_count_zero by assumption.
    rewrite Nat.div_small by lia. reflexivity.
Qed.

(* ------------------------------------------------------------------------- *)
(* next / size_hint as functions of (L, b, h)                                 *)

Section Schedule.
Context {A : Type}.
Implicit Types (fr : list A) (w : windower A).

Lemma next_some w : bin w <= length (frames w) ->
  w_next w = Ok (Some (firstn (bin w) (frames w), mkW (bin w) (hop w) (rest_of (frames w) (hop w)))).
Proof.
  intros Hle. unfold w_next, slice_to, slice_from, rest_of.
  destruct (Nat.leb_spec (bin w) (length (frames w))) as [_|Hlt]; [|lia].
  cbn [bind].
  destruct (Nat.ltb_spec (hop w) (length (frames w))) as [Hlt|Hge]; [|reflexivity].
  destruct (Nat.leb_spec (hop w) (length (frames w))) as [_|Hgt]; [reflexivity|lia].
Qed.

Lemma next_none w : length (frames w) < bin w -> w_next w = Ok None.
Proof.
  intros Hlt. unfold w_next.
  destruct (Nat.leb_spec (bin w) (length (frames w))) as [Hle|_]; [lia|reflexivity].
Qed.

(* next never panics and keeps bin and hop *)
Lemma next_total w : exists r, w_next w = Ok r /\
  match r with Some (_, w') => bin w' = bin w /\ hop w' = hop w | None => True end.
Proof.
  destruct (Nat.le_gt_cases (bin w) (length (frames w))) as [Hle|Hgt].
  - rewrite next_some by assumption. eexists; split; [reflexivity|]. cbn. split; reflexivity.
  - rewrite next_none by assumption. eexists; split; [reflexivity|exact I].
Qed.

Lemma size_hint_count w : 1 <= hop w ->
  let c := chunk_count (length (frames w)) (bin w) (hop w) in
  w_size_hint w = Ok (Hint c (Some c)).
Proof.
  intros Hh c. subst c. unfold w_size_hint, chunk_count, usub.
  destruct (Nat.leb_spec (bin w) (length (frames w))) as [Hle|Hgt]; [|reflexivity].
  destruct (Nat.eqb_spec (hop w) 0) as [H0|_]; [lia|]. reflexivity.
Qed.

(* hop = 0 (outside the property's domain): the windower never advances and says so *)
Lemma hop_zero_forever w : hop w = 0 -> bin w <= length (frames w) ->
  w_next w = Ok (Some (firstn (bin w) (frames w), w)) /\ w_size_hint w = Ok HintForever.
Proof.
  intros H0 Hle. split.
  - rewrite next_some by assumption. destruct w as [b h fr]. cbn in *. subst h.
    unfold rest_of. destruct fr as [|x t]; reflexivity.
  - unfold w_size_hint. destruct (Nat.leb_spec (bin w) (length (frames w))) as [_|Hgt]; [|lia].
    rewrite H0. reflexivity.
Qed.

(* ------------------------------------------------------------------------- *)
(* draining the windower                                                      *)

Lemma skipn_skipn' (a b : nat) : forall l : list A, skipn a (skipn b l) = skipn (b + a) l.
Proof.
  induction b as [|b IH]; intros l; [reflexivity|].
  destruct l as [|x t]; [destruct a; reflexivity|]. cbn. apply IH.
Qed.

Lemma slice_rest fr h b k : h < length fr -> slice (rest_of fr h) (k * h) b = slice fr (S k * h) b.
Proof.
  intros Hlt. unfold slice, rest_of.
  destruct (Nat.ltb_spec h (length fr)) as [_|Hge]; [|lia].
  rewrite skipn_skipn'. replace (S k * h) with (h + k * h) by lia. reflexivity.
Qed.

Lemma chunks_spec_step fr b h : 1 <= b -> 1 <= h -> b <= length fr ->
  chunks_spec fr b h = firstn b fr :: chunks_spec (rest_of fr h) b h.
Proof.
  intros Hb Hh Hle. unfold chunks_spec.
  rewrite (count_step (length fr)) by assumption. rewrite rest_length.
  cbn [seq map]. f_equal.
  rewrite <- seq_shift, map_map.
  apply map_ext_in. intros k Hk. apply in_seq in Hk.
  destruct (Nat.lt_ge_cases h (length fr)) as [Hlt|Hge].
  - symmetry. apply slice_rest. exact Hlt.
  - replace (length fr - h) with 0 in Hk by lia.
    rewrite chunk_count_zero in Hk by lia. lia.
Qed.

Lemma drain_spec fuel : forall w, 1 <= bin w -> 1 <= hop w ->
  chunk_count (length (frames w)) (bin w) (hop w) < fuel ->
  exists w', w_drain fuel w = Ok (chunks_spec (frames w) (bin w) (hop w), w') /\
             w_next w' = Ok None /\ bin w' = bin w /\ hop w' = hop w.
Proof.
  induction fuel as [|f IH]; intros w Hb Hh Hf; [lia|].
  cbn [w_drain].
  destruct (Nat.le_gt_cases (bin w) (length (frames w))) as [Hle|Hgt].
  - rewrite next_some by assumption. cbn [bind].
    set (w1 := mkW (bin w) (hop w) (rest_of (frames w) (hop w))).
    destruct (IH w1) as (w' & Hd & Hn & Hb' & Hh'); cbn [bin hop frames w1]; try assumption.
    { rewrite rest_length. rewrite (count_step (length (frames w))) in Hf by assumption. lia. }
    rewrite Hd. cbn [bind fst snd]. exists w'. repeat split; try assumption.
    cbn [bin hop frames w1]. rewrite <- chunks_spec_step by assumption. reflexivity.
  - rewrite next_none by assumption. cbn [bind]. exists w. repeat split.
    + unfold chunks_spec. rewrite chunk_count_zero by assumption. reflexivity.
    + apply next_none. assumption.
Qed.

(* states reachable by calls of next keep bin and hop *)
Lemma after_keeps j : forall w wj, w_after j w = Ok (Some wj) -> bin wj = bin w /\ hop wj = hop w.
Proof.
  induction j as [|j IH]; intros w wj H.
  - cbn in H. injection H as <-. split; reflexivity.
  - cbn [w_after] in H. destruct (next_total w) as (r & Hr & Hk). rewrite Hr in H. cbn [bind] in H.
    destruct r as [[c w1]|]; [|discriminate].
    destruct (IH _ _ H) as [H1 H2]. destruct Hk as [H3 H4]. split; congruence.
Qed.

(* after j successful calls, count - j chunks are still to come *)
Lemma after_count j : forall w wj, 1 <= bin w -> 1 <= hop w -> w_after j w = Ok (Some wj) ->
  chunk_count (length (frames wj)) (bin w) (hop w) = chunk_count (length (frames w)) (bin w) (hop w) - j.
Proof.
  induction j as [|j IH]; intros w wj Hb Hh H.
  - cbn in H. injection H as <-. lia.
  - cbn [w_after] in H.
    destruct (Nat.le_gt_cases (bin w) (length (frames w))) as [Hle|Hgt].
    + rewrite next_some in H by assumption. cbn [bind] in H.
      apply IH in H; cbn [bin hop frames] in *; try assumption.
      rewrite H, rest_length. rewrite (count_step (length (frames w))) by assumption. lia.
    + rewrite next_none in H by assumption. discriminate.
Qed.

(* the call after the last chunk returns None, the calls before return Some *)
Lemma after_defined j : forall w, 1 <= bin w -> 1 <= hop w ->
  j <= chunk_count (length (frames w)) (bin w) (hop w) -> exists wj, w_after j w = Ok (Some wj).
Proof.
  induction j as [|j IH]; intros w Hb Hh Hj.
  - exists w. reflexivity.
  - cbn [w_after].
    destruct (Nat.le_gt_cases (bin w) (length (frames w))) as [Hle|Hgt].
    + rewrite next_some by assumption. cbn [bind]. apply IH; cbn [bin hop frames]; try assumption.
      rewrite rest_length. rewrite (count_step (length (frames w))) in Hj by assumption. lia.
    + rewrite chunk_count_zero in Hj by assumption. lia.
Qed.

End Schedule.

(* ------------------------------------------------------------------------- *)
(* the property's clauses about the schedule                                   *)

Section Clauses.
Context {A : Type}.

(* exactly chunk_count chunks, then None; no panic *)
Theorem windower_count (fr : list A) b h : 1 <= b -> 1 <= h ->
  exists chunks w', w_drain (S (length fr)) (w_new fr b h) = Ok (chunks, w') /\
                    w_next w' = Ok None /\
                    length chunks = (if b <=? length fr then (length fr - b) / h + 1 else 0).
Proof.
  intros Hb Hh.
  destruct (drain_spec (S (length fr)) (w_new fr b h)) as (w' & Hd & Hn & _); cbn [w_new bin hop frames]; try assumption.
  { pose proof (chunk_count_le (length fr) b h Hb Hh). lia. }
  exists (chunks_spec fr b h), w'. cbn [w_new bin hop frames] in Hd. repeat split; try assumption.
  unfold chunks_spec. rewrite map_length, seq_length. reflexivity.
Qed.

(* chunk k is frames k*h .. k*h+b-1 *)
Theorem windower_chunk (fr : list A) b h : 1 <= b -> 1 <= h ->
  exists chunks w', w_drain (S (length fr)) (w_new fr b h) = Ok (chunks, w') /\
    forall k, k < length chunks ->
      k * h + b <= length fr /\
      exists c, nth_error chunks k = Some c /\ length c = b /\
                forall j, j < b -> nth_error c j = nth_error fr (k * h + j).
Proof.
  intros Hb Hh.
  destruct (drain_spec (S (length fr)) (w_new fr b h)) as (w' & Hd & Hn & _); cbn [w_new bin hop frames]; try assumption.
  { pose proof (chunk_count_le (length fr) b h Hb Hh). lia. }
  exists (chunks_spec fr b h), w'. cbn [w_new bin hop frames] in Hd. split; [assumption|].
  intros k Hk. unfold chunks_spec in *. rewrite map_length, seq_length in Hk.
  pose proof (chunk_fits _ _ _ _ Hh Hk) as Hfit. split; [assumption|].
  exists (slice fr (k * h) b). split; [|split].
  - rewrite nth_error_map_in.
    rewrite nth_error_nth' with (d := 0) by (rewrite seq_length; assumption).
    rewrite seq_nth by assumption. reflexivity.
  - unfold slice. rewrite firstn_length, skipn_length. lia.
  - intros j Hj. unfold slice. rewrite nth_error_firstn.
    destruct (Nat.ltb_spec j b) as [_|Hge]; [|lia]. apply nth_error_skipn.
Qed.

(* size_hint in every reachable state = the number of chunks still to come *)
Theorem windower_size_hint (fr : list A) b h j wj : 1 <= b -> 1 <= h ->
  w_after j (w_new fr b h) = Ok (Some wj) ->
  exists remaining w', w_drain (S (length (frames wj))) wj = Ok (remaining, w') /\
    w_next w' = Ok None /\
    w_size_hint wj = Ok (Hint (length remaining) (Some (length remaining))) /\
    length remaining = (if b <=? length fr then (length fr - b) / h + 1 else 0) - j.
Proof.
  intros Hb Hh Ha.
  destruct (after_keeps _ _ _ Ha) as [Hbj Hhj]. cbn [w_new bin hop] in Hbj, Hhj.
  pose proof (after_count _ (w_new fr b h) _ Hb Hh Ha) as Hc. cbn [w_new bin hop frames] in Hc.
  destruct (drain_spec (S (length (frames wj))) wj) as (w' & Hd & Hn & _); try lia.
  { pose proof (chunk_count_le (length (frames wj)) (bin wj) (hop wj)). lia. }
  exists (chunks_spec (frames wj) (bin wj) (hop wj)), w'.
  assert (Hlen : length (chunks_spec (frames wj) (bin wj) (hop wj)) =
                 chunk_count (length (frames wj)) (bin wj) (hop wj))
    by (unfold chunks_spec; rewrite map_length, seq_length; reflexivity).
  repeat split; try assumption.
  - rewrite Hlen. apply size_hint_count. lia.
  - rewrite Hlen, Hbj, Hhj, Hc. reflexivity.
Qed.

(* every state: size_hint = number of chunks a drain from this state yields *)
Theorem windower_size_hint_any (w : windower A) : 1 <= bin w -> 1 <= hop w ->
  exists remaining w', w_drain (S (length (frames w))) w = Ok (remaining, w') /\
    w_next w' = Ok None /\
    w_size_hint w = Ok (Hint (length remaining) (Some (length remaining))).
Proof.
  intros Hb Hh.
  destruct (drain_spec (S (length (frames w))) w) as (w' & Hd & Hn & _); try assumption.
  { pose proof (chunk_count_le (length (frames w)) (bin w) (hop w) Hb Hh). lia. }
  exists (chunks_spec (frames w) (bin w) (hop w)), w'. repeat split; try assumption.
  unfold chunks_spec at 1 2. rewrite map_length, seq_length. apply size_hint_count. assumption.
Qed.

(* the j-th call of next (j < count) succeeds, the call number count returns None *)
Theorem windower_calls (fr : list A) b h : 1 <= b -> 1 <= h ->
  let c := (if b <=? length fr then (length fr - b) / h + 1 else 0) in
  (forall j, j < c -> exists wj x, w_after j (w_new fr b h) = Ok (Some wj) /\ w_next wj = Ok (Some x)) /\
  (exists wc, w_after c (w_new fr b h) = Ok (Some wc) /\ w_next wc = Ok None).
Proof.
  intros Hb Hh c. split.
  - intros j Hj.
    destruct (after_defined j (w_new fr b h)) as (wj & Ha); cbn [w_new bin hop frames]; try assumption.
    { fold (chunk_count (length fr) b h). subst c. unfold chunk_count. lia. }
    pose proof (after_count _ (w_new fr b h) _ Hb Hh Ha) as Hc. cbn [w_new bin hop frames] in Hc.
    destruct (after_keeps _ _ _ Ha) as [Hbj Hhj]. cbn [w_new bin hop] in Hbj, Hhj.
    exists wj. eexists. split; [exact Ha|].
    apply next_some. rewrite Hbj.
    destruct (Nat.le_gt_cases b (length (frames wj))) as [Hle|Hgt]; [assumption|].
    rewrite chunk_count_zero in Hc by assumption. unfold chunk_count in Hc. subst c. lia.
  - destruct (after_defined c (w_new fr b h)) as (wc & Ha); cbn [w_new bin hop frames]; try assumption.
    { subst c. unfold chunk_count. lia. }
    pose proof (after_count _ (w_new fr b h) _ Hb Hh Ha) as Hc. cbn [w_new bin hop frames] in Hc.
    destruct (after_keeps _ _ _ Ha) as [Hbj Hhj]. cbn [w_new bin hop] in Hbj, Hhj.
    exists wc. split; [exact Ha|]. apply next_none. rewrite Hbj.
    destruct (Nat.le_gt_cases b (length (frames wc))) as [Hle|Hgt]; [|assumption].
    rewrite (chunk_count_pos (length (frames wc))) in Hc by assumption.
    unfold chunk_count in Hc. subst c. lia.
Qed.

End Clauses.

(* ------------------------------------------------------------------------- *)
(* contents of a Windowed chunk: frame j = mul_amp (signal frame j) (window frame j) *)

Section WindowedContents.
Variable N : arith.
Variable wfun : T N -> T N.
Variables (Smp FS : Type) (conv : T N -> FS) (smul : Smp -> FS -> Smp) (equilibrium : Smp) (nch : nat).

Notation from_iter_new := (from_iter_new Smp).
Notation signal_next := (signal_next Smp equilibrium nch).
Notation windowed_take := (windowed_take N wfun Smp FS conv smul equilibrium nch).
Notation frame_mul_amp := (frame_mul_amp Smp FS smul).

Lemma signal_next_new (l : list (list Smp)) :
  signal_next (from_iter_new l) = (hd (repeat equilibrium nch) l, from_iter_new (tl l)).
Proof.
  destruct l as [|x t]; cbn; [reflexivity|]. destruct t; reflexivity.
Qed.

Lemma phase_at_S i (p : phase N) : phase_at N (S i) p = phase_at N i (snd (next_phase N p)).
Proof. reflexivity. Qed.

(* the window frame for position j of a window whose phase state is p *)
Definition window_frame (p : phase N) (j : nat) : list FS := repeat (conv (wfun (phase_at N j p))) nch.

Lemma windowed_take_spec m : forall (l : list (list Smp)) (p : phase N),
  windowed_take m (mkWd N Smp (from_iter_new l) p) =
  map (fun j => frame_mul_amp (nth j l (repeat equilibrium nch)) (window_frame p j)) (seq 0 m).
Proof.
  induction m as [|m IH]; intros l p; [reflexivity|].
  cbn [Window.windowed_take windowed_next wd_window wd_signal window_next fst snd].
  rewrite signal_next_new. cbn [fst snd]. rewrite IH.
  cbn [seq map]. f_equal.
  - destruct l; reflexivity.
  - rewrite <- seq_shift, map_map. apply map_ext. intros j.
    unfold window_frame. rewrite phase_at_S. f_equal. destruct l as [|x t]; [destruct j|]; reflexivity.
Qed.

(* the Windowed built by Windower::next from a chunk: an endless iterator whose j-th frame is the
   chunk's j-th frame (equilibrium after the chunk) times the j-th frame of Window::new(b) *)
Theorem windowed_contents (chunk : list (list Smp)) (b m : nat) :
  windowed_take m (windowed_of N Smp chunk b) =
  map (fun j => frame_mul_amp (nth j chunk (repeat equilibrium nch)) (window_frame (window_new N b) j)) (seq 0 m).
Proof. apply windowed_take_spec. Qed.

(* on an nch-channel frame, mul_amp by the window frame scales every sample by the window value *)
Lemma frame_mul_amp_repeat (fr : list Smp) (v : FS) : length fr = nch ->
  frame_mul_amp fr (repeat v nch) = map (fun s => smul s v) fr.
Proof.
  intros <-. unfold Window.frame_mul_amp. induction fr as [|x t IH]; [reflexivity|].
  cbn. f_equal. exact IH.
Qed.

End WindowedContents.

(* ------------------------------------------------------------------------- *)
(* schedule and contents together: frame j (j < b) of chunk k is frame k*h+j of the input,
   every sample scaled (mul_amp) by the window value of position j *)

Section ChunkFrames.
Variable N : arith.
Variable wfun : T N -> T N.
Variables (Smp FS : Type) (conv : T N -> FS) (smul : Smp -> FS -> Smp) (equilibrium : Smp) (nch : nat).

Theorem windower_windowed_chunk (fr : list (list Smp)) b h : 1 <= b -> 1 <= h ->
  (forall f, In f fr -> length f = nch) ->
  exists chunks w', w_drain (S (length fr)) (w_new fr b h) = Ok (chunks, w') /\
    forall k c, nth_error chunks k = Some c ->
    forall j m, j < b -> j < m ->
      exists x, nth_error fr (k * h + j) = Some x /\
        nth_error (windowed_take N wfun Smp FS conv smul equilibrium nch m (windowed_of N Smp c b)) j =
        Some (map (fun s => smul s (conv (wfun (phase_at N j (window_new N b))))) x).
Proof.
  intros Hb Hh Hlen.
  destruct (windower_chunk fr b h Hb Hh) as (chunks & w' & Hd & Hc).
  exists chunks, w'. split; [assumption|].
  intros k c Hk j m Hj Hm.
  assert (Hklt : k < length chunks) by (apply nth_error_Some; congruence).
  destruct (Hc k Hklt) as (Hfit & c' & Hk' & Hcl & Hcj).
  rewrite Hk in Hk'. injection Hk' as <-.
  destruct (nth_error_lt_Some fr (k * h + j)) as (x & Hx); [lia|].
  exists x. split; [assumption|].
  rewrite windowed_contents, nth_error_map_in.
  rewrite nth_error_nth' with (d := 0) by (rewrite seq_length; assumption).
  rewrite seq_nth by assumption. cbn [option_map plus]. f_equal.
  assert (Hnth : nth j c (repeat equilibrium nch) = x).
  { apply nth_error_nth. rewrite Hcj by assumption. assumption. }
  rewrite Hnth. unfold window_frame. apply frame_mul_amp_repeat.
  apply Hlen. eapply nth_error_In. eassumption.
Qed.

End ChunkFrames.

(* ------------------------------------------------------------------------- *)
(* the provided Iterator methods (default definitions = repeated next)        *)

Section IteratorMethods.
Context {A : Type}.

(* nth(k) = the k-th chunk still to come, None when fewer remain *)
Lemma nth_spec k : forall w : windower A, 1 <= bin w -> 1 <= hop w ->
  exists w', w_nth k w = Ok (nth_error (chunks_spec (frames w) (bin w) (hop w)) k, w') /\
             bin w' = bin w /\ hop w' = hop w.
Proof.
  induction k as [|k IH]; intros w Hb Hh; cbn [w_nth];
    destruct (Nat.le_gt_cases (bin w) (length (frames w))) as [Hle|Hgt].
  - rewrite next_some by assumption. cbn [bind].
    exists (mkW (bin w) (hop w) (rest_of (frames w) (hop w))). split; [|split; reflexivity].
    rewrite chunks_spec_step by assumption. reflexivity.
  - rewrite next_none by assumption. cbn [bind]. exists w. split; [|split; reflexivity].
    unfold chunks_spec. rewrite chunk_count_zero by assumption. reflexivity.
  - rewrite next_some by assumption. cbn [bind].
    set (w1 := mkW (bin w) (hop w) (rest_of (frames w) (hop w))).
    destruct (IH w1 Hb Hh) as (w' & Hn & Hb' & Hh'). exists w'. split; [|split; assumption].
    rewrite Hn. cbn [bin hop frames w1]. rewrite (chunks_spec_step (frames w)) by assumption. reflexivity.
  - rewrite next_none by assumption. cbn [bind]. exists w. split; [|split; reflexivity].
    unfold chunks_spec. rewrite chunk_count_zero by assumption. reflexivity.
Qed.

Lemma nth_error_chunks_spec (fr : list A) b h k :
  nth_error (chunks_spec fr b h) k =
  if k <? chunk_count (length fr) b h then Some (slice fr (k * h) b) else None.
Proof.
  unfold chunks_spec. rewrite nth_error_map_in.
  destruct (Nat.ltb_spec k (chunk_count (length fr) b h)) as [Hlt|Hge].
  - rewrite nth_error_nth' with (d := 0) by (rewrite seq_length; assumption).
    rewrite seq_nth by assumption. reflexivity.
  - replace (nth_error (seq 0 (chunk_count (length fr) b h)) k) with (@None nat); [reflexivity|].
    symmetry. apply nth_error_None. rewrite seq_length. assumption.
Qed.

Theorem windower_nth (fr : list A) b h k : 1 <= b -> 1 <= h ->
  exists w', w_nth k (w_new fr b h) =
    Ok (if k <? (if b <=? length fr then (length fr - b) / h + 1 else 0)
        then Some (firstn b (skipn (k * h) fr)) else None, w').
Proof.
  intros Hb Hh. destruct (nth_spec k (w_new fr b h) Hb Hh) as (w' & Hn & _).
  exists w'. rewrite Hn. cbn [w_new bin hop frames]. rewrite nth_error_chunks_spec. reflexivity.
Qed.

Lemma last_map_seq {B} (f : nat -> B) n d : last (map f (seq 0 (S n))) d = f n.
Proof.
  rewrite seq_S, map_app. cbn [map]. apply last_last.
Qed.

(* last() = the chunk of the final Some: chunk number count-1, which starts at ((L-b)/h)*h
   (not at L-b unless h divides L-b); count() = the number of chunks *)
Theorem windower_last (fr : list A) b h : 1 <= b -> 1 <= h ->
  exists w', w_last (S (length fr)) (w_new fr b h) =
    Ok (if b <=? length fr then Some (firstn b (skipn ((length fr - b) / h * h) fr)) else None, w') /\
    w_next w' = Ok None.
Proof.
  intros Hb Hh. unfold w_last.
  destruct (drain_spec (S (length fr)) (w_new fr b h)) as (w' & Hd & Hn & _); cbn [w_new bin hop frames]; try assumption.
  { pose proof (chunk_count_le (length fr) b h Hb Hh). lia. }
  exists w'. split; [|assumption]. rewrite Hd. cbn [bind fst snd w_new bin hop frames]. f_equal. f_equal.
  unfold chunks_spec, chunk_count. destruct (Nat.leb_spec b (length fr)) as [Hle|Hgt]; [|reflexivity].
  rewrite Nat.add_1_r, map_map. apply (last_map_seq (fun k => Some (slice fr (k * h) b))).
Qed.

Theorem windower_count_method (fr : list A) b h : 1 <= b -> 1 <= h ->
  exists w', w_count (S (length fr)) (w_new fr b h) =
    Ok (if b <=? length fr then (length fr - b) / h + 1 else 0, w') /\ w_next w' = Ok None.
Proof.
  intros Hb Hh. unfold w_count.
  destruct (windower_count fr b h Hb Hh) as (chunks & w' & Hd & Hn & Hl).
  exists w'. split; [|assumption]. rewrite Hd. cbn [bind fst snd]. rewrite Hl. reflexivity.
Qed.

End IteratorMethods.
