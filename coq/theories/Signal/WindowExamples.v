(* C20 — non-vacuity: concrete non-trivial instances of the hypotheses of the C20 theorems,
   and what the IEEE instance of the model does where exact arithmetic wraps. *)
Require Import Floats.SpecFloat.
Require Import List Arith ZArith Reals Lra.
From Flocq Require Import Core BinarySingleNaN.
From Dasp Require Import Base.Res Base.Float Signal.Window Signal.WindowSpec Signal.WindowProofs
  Signal.WindowR Signal.WindowRProofs Signal.WindowRun.
Import ListNotations.
Open Scope nat_scope.

(* L = 10, bin = 4, hop = 3: three chunks, the last hop is partial (frame 9 is never covered) *)
Example ex_drain :
  w_drain 11 (w_new [0;1;2;3;4;5;6;7;8;9] 4 3) =
  Ok ([[0;1;2;3]; [3;4;5;6]; [6;7;8;9]], mkW 4 3 [9]).
Proof. reflexivity. Qed.

Example ex_count : chunk_count 10 4 3 = 3 /\ chunk_count 4 4 9 = 1 /\ chunk_count 3 4 1 = 0 /\ chunk_count 8 2 1 = 7.
Proof. repeat split. Qed.

(* L = bin: one chunk; hop > L: one chunk and the rest is dropped *)
Example ex_L_eq_b : w_drain 5 (w_new [7;8;9;10] 4 1) = Ok ([[7;8;9;10]], mkW 4 1 [8;9;10]).
Proof. reflexivity. Qed.
Example ex_hop_gt_L : w_drain 5 (w_new [7;8;9;10] 2 9) = Ok ([[7;8]], mkW 2 9 []).
Proof. reflexivity. Qed.

(* size_hint along the run of ex_drain: 3, 2, 1, 0  (defect F2 reported 2, 1, 0, 0) *)
Example ex_size_hints :
  w_size_hint (w_new [0;1;2;3;4;5;6;7;8;9] 4 3) = Ok (Hint 3 (Some 3)) /\
  w_size_hint (mkW 4 3 [3;4;5;6;7;8;9]) = Ok (Hint 2 (Some 2)) /\
  w_size_hint (mkW 4 3 [6;7;8;9]) = Ok (Hint 1 (Some 1)) /\
  w_size_hint (mkW 4 3 [9]) = Ok (Hint 0 (Some 0)).
Proof. repeat split. Qed.

Example ex_after : w_after 2 (w_new [0;1;2;3;4;5;6;7;8;9] 4 3) = Ok (Some (mkW 4 3 [6;7;8;9])).
Proof. reflexivity. Qed.

(* provided Iterator methods, L = 11, bin = 4, hop = 3 (hop does not divide L - bin): the last chunk is
   number 2 and starts at frame 6 — not at L - bin = 7 *)
Example ex_last : w_last 12 (w_new [0;1;2;3;4;5;6;7;8;9;10] 4 3) = Ok (Some [6;7;8;9], mkW 4 3 [9;10]).
Proof. reflexivity. Qed.
Example ex_nth : w_nth 1 (w_new [0;1;2;3;4;5;6;7;8;9;10] 4 3) = Ok (Some [3;4;5;6], mkW 4 3 [6;7;8;9;10]) /\
                 w_nth 3 (w_new [0;1;2;3;4;5;6;7;8;9;10] 4 3) = Ok (None, mkW 4 3 [9;10]).
Proof. split; reflexivity. Qed.
Example ex_step_by : w_step_by_take 2 5 (w_new [0;1;2;3;4;5;6;7;8;9;10] 4 3) = Ok ([[0;1;2;3]; [6;7;8;9]], mkW 4 3 [9;10]).
Proof. reflexivity. Qed.

(* hop = 0 (outside the domain): never advances, size_hint says (usize::MAX, None) *)
Example ex_hop0 : w_next (mkW 2 0 [1;2;3]) = Ok (Some ([1;2], mkW 2 0 [1;2;3])) /\
                  w_size_hint (mkW 2 0 [1;2;3]) = Ok HintForever.
Proof. split; reflexivity. Qed.

(* the reals: a 5-frame Hann window is 0, 1/2, 1, 1/2, 0 *)
Open Scope R_scope.
Example ex_hann5 :
  hann_window_value 5 0 = 0 /\ hann_window_value 5 1 = 1 / 2 /\ hann_window_value 5 2 = 1 /\
  hann_window_value 5 3 = 1 / 2 /\ hann_window_value 5 4 = 0.
Proof.
  rewrite !hann_window_values by auto with arith. cbn [INR].
  assert (Hq : hannR (1 / 4) = 1 / 2).
  { rewrite hannR_eq. replace (2 * PI * (1 / 4)) with (PI / 2) by field. rewrite cos_PI2. lra. }
  repeat split.
  - replace (0 / (1 + 1 + 1 + 1 + 1 - 1)) with 0 by field. apply hann_zero.
  - replace (1 / (1 + 1 + 1 + 1 + 1 - 1)) with (1 / 4) by field. exact Hq.
  - replace ((1 + 1) / (1 + 1 + 1 + 1 + 1 - 1)) with (1 / 2) by field. apply hann_peak.
  - replace ((1 + 1 + 1) / (1 + 1 + 1 + 1 + 1 - 1)) with (1 - 1 / 4) by field. rewrite hann_sym. exact Hq.
  - replace ((1 + 1 + 1 + 1) / (1 + 1 + 1 + 1 + 1 - 1)) with 1 by field. apply hann_one.
Qed.

Example ex_phase_wrap : window_phase 5 3 = 3 / 4 /\ window_phase 5 4 = 0.
Proof.
  split.
  - rewrite window_phase_inner by auto with arith. cbn [INR]. field.
  - apply (window_phase_last 5). auto with arith.
Qed.
Close Scope R_scope.

(* IEEE binary64: the phases of Window::new(4) are 0, fl(1/3), fl(2/3) and the sum rounds to
   exactly 1.0, which `% 1.0` wraps to 0 as in exact arithmetic ... *)
Open Scope Z_scope.
Example ex_f64_phases4 : f64_phases 4 4 = [0; 4599676419421066581; 4604180019048437077; 0].
Proof. vm_compute. reflexivity. Qed.

(* ... but for Window::new(7) six additions of fl(1/6) give 1 - 2^-53: the last phase is just
   below 1 instead of 0 (the Hann value there is ~1e-31 instead of 0) *)
Example ex_f64_phases7_last : nth 6 (f64_phases 7 7) 0 = 4607182418800017407.
Proof. vm_compute. reflexivity. Qed.

(* i16 frame [16384; -32768] scaled by the f32 window value 0.5 *)
Example ex_i16_mul :
  smul fmt_i16 16384 (conv fmt_i16 f64_half) = 8192 /\ smul fmt_i16 (-32768) (conv fmt_i16 f64_half) = -16384.
Proof. vm_compute. split; reflexivity. Qed.
