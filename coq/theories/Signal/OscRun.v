(* Executable binary64 instance of the oscillator model with the observation encoding of
   harness/src/bin/c17.rs; evaluated by coqc on the correspondence cases.

   COsc rate mode hz n sintab : rate and hz as f64 bit patterns; mode 0 = const_hz (hz = [h]),
     mode 1 = hz(control signal yielding hz_0, hz_1, ...); n frames of each of phase, saw,
     square, sine, noise_simplex built from the same step source.  [sintab] is the libm oracle
     as data: pairs (bits of x, bits of sin x) computed by the platform's libm for exactly the
     arguments the model asks for (a missing entry reads as NaN and fails the case).
   CHz rate n op order top topv a b : rate(rate).hz(control), control built from dasp_signal's gen/gen_mut
     (frames a), from_iter (frames b, finite) and add_amp / mul_amp / zip_map(|x, y| x * 0.5 + y) /
     scale_amp / offset_amp as encoded in harness/src/bin/c17.rs; n frames of phase, saw, square; the
     closure and iterator call counters after every phase frame and at the end of each run.
   CNoise seed n c : n frames of noise(seed); a clone taken after c frames and run to n; a
     restart of noise(seed) for c frames. *)
Require Import Floats.SpecFloat.
Require Import ZArith List Bool.
From Flocq Require Import Core BinarySingleNaN.
From Dasp Require Import Base.Float Signal.OscNum Signal.Osc.
Import ListNotations.
Open Scope Z_scope.

Inductive case :=
| COsc (rate mode : Z) (hz : list Z) (n : Z) (sintab : list (Z * Z))
| CNoise (seed n clone_at : Z)
| CHz (rate n op order top topv : Z) (a b : list Z).

Notation F := NumF64.
Definition fb (z : Z) : f64 := F64.of_bits z.
Definition bits (x : f64) : Z := F64.bits x.
Definition nan_bits : Z := 9221120237041090560.   (* 0x7ff8000000000000 *)

Fixpoint lookup (tab : list (Z * Z)) (k : Z) : Z :=
  match tab with
  | [] => nan_bits
  | (a, b) :: t => if a =? k then b else lookup t k
  end.
Definition sin_tab (tab : list (Z * Z)) (x : f64) : f64 := fb (lookup tab (bits x)).

Definition mk_src (rate mode : Z) (hz : list Z) : step_src F :=
  match mode with
  | 0 => const_hz F (fb rate) (fb (nth 0 hz 0))
  | _ => hz_src F (fb rate) (fun k => fb (nth k hz 0))
  end.

Definition outs (f : phase_st F -> f64 * phase_st F) (s : step_src F) (n : nat) : list Z * Z :=
  let '(ys, p) := run F f (phase_new F s) n in (map bits ys, Z.of_nat (pulls_of F (src p))).

(* pull counter of the control signal after each phase frame *)
Fixpoint pulls_trace (p : phase_st F) (n : nat) : list Z :=
  match n with
  | O => []
  | S n' => let '(_, p') := next_phase F p in Z.of_nat (pulls_of F (src p')) :: pulls_trace p' n'
  end.

Definition osc_model (rate mode : Z) (hz : list Z) (n : Z) (sintab : list (Z * Z)) : list (list Z) :=
  let s := mk_src rate mode hz in
  let k := Z.to_nat n in
  let '(ph, c1) := outs (next_phase F) s k in
  let '(sw, c2) := outs (saw_next F) s k in
  let '(sq, c3) := outs (square_next F) s k in
  let '(si, c4) := outs (sine_next F (sin_tab sintab)) s k in
  let '(sx, c5) := outs (simplex_next F) s k in
  [1 :: ph; 2 :: sw; 3 :: sq; 4 :: si; 5 :: sx;
   6 :: (match mode with 0 => [] | _ => pulls_trace (phase_new F s) k end);
   7 :: (match mode with 0 => [] | _ => [c1; c2; c3; c4; c5] end)].

(* zip_map closure of the harness: |x, y| x * 0.5 + y *)
Definition zip_f (x y : f64) : f64 := F64.add (F64.mul x (nhalf F)) y.

Definition hz_model (rate n op order top topv : Z) (a b : list Z) : list (list Z) :=
  let sh : ctl_shape F := match op with 0 => CFin | 4 => CGen | 1 => CAdd | 2 => CMul | _ => @CZip F zip_f end in
  let tp : ctl_top F := match top with 1 => @TScale F (fb topv) | 2 => @TOffset F (fb topv) | _ => TNone end in
  let ctl := ctl_frame F sh (negb (order =? 0)) tp (map fb a) (map fb b) in
  let s := hz_src F (fb rate) ctl in
  let k := Z.to_nat n in
  let m := length b in
  let '(ph, c1) := outs (next_phase F) s k in
  let '(sw, c2) := outs (saw_next F) s k in
  let '(sq, c3) := outs (square_next F) s k in
  let tr := map Z.to_nat (pulls_trace (phase_new F s) k) in
  let fin := map Z.to_nat [c1; c2; c3] in
  [1 :: ph; 2 :: sw; 3 :: sq;
   6 :: map (fun p => Z.of_nat (gen_calls F sh p)) tr;
   8 :: map (fun p => Z.of_nat (iter_calls F sh m p)) tr;
   7 :: map (fun p => Z.of_nat (gen_calls F sh p)) fin;
   10 :: map (fun p => Z.of_nat (iter_calls F sh m p)) fin].

Fixpoint noise_run (seed : Z) (n : nat) : list Z * Z :=
  match n with
  | O => ([], seed)
  | S n' => let '(y, s1) := noise_next F seed in let '(ys, s2) := noise_run s1 n' in (bits y :: ys, s2)
  end.

Definition noise_model (seed n c : Z) : list (list Z) :=
  let '(pre, mid) := noise_run seed (Z.to_nat c) in
  let '(tail, _) := noise_run mid (Z.to_nat (n - c)) in
  [1 :: pre ++ tail; 2 :: tail; 3 :: pre].

Definition run_case (c : case) : list (list Z) :=
  match c with
  | COsc rate mode hz n tab => osc_model rate mode hz n tab
  | CNoise seed n c => noise_model seed n c
  | CHz rate n op order top topv a b => hz_model rate n op order top topv a b
  end.

(* distance in units in the last place between two bit patterns (ordered-integer encoding) *)
Definition ord (b : Z) : Z := if b <? 2 ^ 63 then b else 2 ^ 63 - b.
Definition ulp_dist (a b : Z) : Z := Z.abs (ord a - ord b).
Definition in_unit (b : Z) : bool :=
  F64.leb (F64.of_Z (-1)) (fb b) && F64.leb (fb b) (F64.of_Z 1).

(* libm-dependent values: within 4 ulp of the oracle's value and inside [-1, 1]
   (a NaN expectation must be met by a NaN) *)
Definition near (e o : Z) : bool :=
  if e =? nan_bits then o =? nan_bits else (ulp_dist e o <=? 4) && in_unit o.
Fixpoint all2 (f : Z -> Z -> bool) (a b : list Z) : bool :=
  match a, b with
  | [], [] => true
  | x :: a', y :: b' => f x y && all2 f a' b'
  | _, _ => false
  end.

Definition obs_ok (e o : list Z) : bool :=
  match e, o with
  | 4 :: e', 4 :: o' => all2 near e' o'
  | _, _ => all2 Z.eqb e o
  end.
Fixpoint all2l (a b : list (list Z)) : bool :=
  match a, b with
  | [], [] => true
  | x :: a', y :: b' => obs_ok x y && all2l a' b'
  | _, _ => false
  end.

Definition check (c : case * list (list Z)) : bool := all2l (run_case (fst c)) (snd c).
