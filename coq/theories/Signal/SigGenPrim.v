(* Vocabulary of the GENERATED models of dasp_signal's Buffered and Fork adaptors (gen/BufferedGen.v,
   gen/ForkGen.v, written by translate/sig2coq.py from dasp_signal/src/lib.rs).  Their ring-buffer calls go to the
   GENERATED ring methods of gen/RingGen.v.  No proofs here.

   How Rust values are represented (in addition to Ring/RingPrim.v):
     S: Signal (the source)        an abstract state type [St] with [sig_next : St -> A * St] (Signal::next: the frame
                                   and the advanced source) and [sig_is_exhausted : St -> bool]; both total: a source
                                   that panics is outside the model
     ring_buffer::Bounded<D>       bounded A, operated on by the generated methods Bounded_* of gen/RingGen.v
     Buffered<S, D>                the record [buffered_g]; ForkShared<S, D>: the record [fork_g]
     RefCell<T>, Rc<T>, &T, &mut T the T they hold: sharing is state threading.  `borrow()` / `borrow_mut()` read /
                                   update that one state (the borrow flag is not modelled: every guard is dropped when
                                   the method returns and no method re-enters); `Rc::clone` and a second `&RefCell`
                                   denote the SAME state, so Fork, BranchRcA/B and BranchRefA/B are all represented
                                   by the one [fork_g] they share
     BufferedFrames<'a, D>         the ring buffer it mutably borrows (its state IS the buffer's state while it lives;
                                   the caller writes it back when the iterator is dropped)
     `a..b` in `for`               [range a b], evaluated once before the first iteration
     `loop { .. }`                 a Fixpoint on [fuel]; [out_of_fuel] is NOT a Rust panic, it marks "still running
                                   after [fuel] iterations" (a hang) *)
Require Import List Arith Bool.
From Dasp Require Import Base.Res Base.ListX Ring.Bounded.
Import ListNotations.

Definition out_of_fuel {X} : res X := Panic PExpect.

Definition range (lo hi : nat) : list nat := seq lo (hi - lo).

Definition opt_is_none {B} (o : option B) : bool := match o with Some _ => false | None => true end.
Definition opt_is_some {B} (o : option B) : bool := match o with Some _ => true | None => false end.

(* struct Buffered<S, D> { signal: S, ring_buffer: ring_buffer::Bounded<D> } *)
Record buffered_g (St A : Type) := { bg_signal : St; bg_ring_buffer : bounded A }.
Arguments bg_signal {St A} _.
Arguments bg_ring_buffer {St A} _.
Arguments Build_buffered_g {St A} _ _.

(* struct ForkShared<S, D> { signal: S, ring_buffer: ring_buffer::Bounded<D>, pending: bool } *)
Record fork_g (St A : Type) := { fg_signal : St; fg_ring_buffer : bounded A; fg_pending : bool }.
Arguments fg_signal {St A} _.
Arguments fg_ring_buffer {St A} _.
Arguments fg_pending {St A} _.
Arguments Build_fork_g {St A} _ _ _.

Section SigGenPrim.
Context {St A : Type}.

(* field stores *)
Definition with_bg_signal (u : buffered_g St A) (v : St) : buffered_g St A :=
  {| bg_signal := v; bg_ring_buffer := bg_ring_buffer u |}.
Definition with_bg_ring_buffer (u : buffered_g St A) (v : bounded A) : buffered_g St A :=
  {| bg_signal := bg_signal u; bg_ring_buffer := v |}.
Definition with_fg_signal (f : fork_g St A) (v : St) : fork_g St A :=
  {| fg_signal := v; fg_ring_buffer := fg_ring_buffer f; fg_pending := fg_pending f |}.
Definition with_fg_ring_buffer (f : fork_g St A) (v : bounded A) : fork_g St A :=
  {| fg_signal := fg_signal f; fg_ring_buffer := v; fg_pending := fg_pending f |}.
Definition with_fg_pending (f : fork_g St A) (v : bool) : fork_g St A :=
  {| fg_signal := fg_signal f; fg_ring_buffer := fg_ring_buffer f; fg_pending := v |}.

End SigGenPrim.
