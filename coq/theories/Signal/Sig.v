(* Model of the dasp_signal adaptor stack (C04, C05), written after
   /repo/dasp_signal/src/lib.rs.  Definitions only; proofs live in SigProofs.v / ExhaustProofs.v.

   A signal is a term of [sig] (deep embedding: "every stack/tree of adaptors" is
   structural induction); [next : sig -> F * sig] and [exhausted : sig -> bool] are
   written after each Rust [Signal::next] / [Signal::is_exhausted]; [trace] lists, in
   order, the externally visible events one call to [next] causes (leaf pulls, calls
   of user closures), i.e. which source is pulled first and when.

   Frame operations are Section variables: the theorems hold for every frame type,
   sample format and user closure.  The frame universe [F] is a single type: frames of
   the Signed / Float companion formats (second source of add_amp / mul_amp, constant of
   the per-channel variants) live in the same universe. *)
Require Import List ZArith Bool Arith.
From Dasp Require Import Base.Res.
Import ListNotations.

Section Sig.
Variables F Sm SS FS : Type.      (* frame, sample, Sample::Signed, Sample::Float *)
Variable eqm : F.                (* Frame::EQUILIBRIUM *)
Variable nch : nat.              (* Frame::CHANNELS *)
Variable channels : F -> list Sm. (* Frame::channels, in channel order *)
Variable of_samples : list Sm -> F. (* the frame Frame::from_samples builds from CHANNELS samples *)
Variable fmap : (Sm -> Sm) -> F -> F. (* Frame::map *)
Variables f_add f_mul : F -> F -> F. (* Frame::add_amp, Frame::mul_amp (self, other) *)
Variable f_scale : FS -> F -> F. (* frame.scale_amp(amp) *)
Variable f_offset : SS -> F -> F. (* frame.offset_amp(offset) *)
Variable to_signed : Sm -> SS.    (* s.to_sample::<Signed>() *)
Variable of_signed : SS -> Sm.    (* x.to_sample::<S>() *)
Variable ss_ltb : SS -> SS -> bool. (* a < b on the signed format *)
Variable ss_neg : SS -> SS.      (* -a *)

(* externally visible events *)
Inductive event :=
| EIter (id : Z)          (* Iterator::next called on the iterator behind leaf [id] *)
| EPull (id : Z)          (* Signal::next called on leaf [id] / generator closure [id] called *)
| ECall (id : Z)          (* user closure of map / zip_map [id] called *)
| ESee (id : Z) (f : F).  (* inspect closure [id] called with this frame *)

Inductive sig :=
(* signal::from_iter: [nx] is the one-frame look-ahead slot [next], [rest] what the iterator
   still holds; [ipulls] counts Iterator::next calls, [pulls] counts Signal::next calls *)
| FromIter (id : Z) (nx : option F) (rest : list F) (ipulls pulls : nat)
(* signal::from_interleaved_samples_iter: [rest] are the samples the iterator still holds *)
| FromSamples (id : Z) (nx : option F) (rest : list Sm) (ipulls pulls : nat)
| Equilibrium
| Gen (id : Z) (c : F) (pulls : nat)            (* signal::gen(|| c) *)
| GenMut (id : Z) (g : nat -> F) (n : nat)      (* signal::gen_mut: closure state = call counter *)
| Map (id : Z) (f : F -> F) (s : sig)
| ZipMap (id : Z) (f : F -> F -> F) (a b : sig)
| AddAmp (a b : sig)
| MulAmp (a b : sig)
| ScaleAmp (amp : FS) (s : sig)
| OffsetAmp (off : SS) (s : sig)
| ScaleAmpPerChannel (amp : F) (s : sig)
| OffsetAmpPerChannel (amp : F) (s : sig)
| ClipAmp (t : SS) (s : sig)
| Inspect (id : Z) (s : sig)
| Delay (k : nat) (s : sig)
| ByRef (s : sig).                               (* impl Signal for &mut S; [s] is the borrowed signal *)

(* Frame::from_samples (array_from_iter): pull [n] samples, give up at the first None
   (samples pulled so far are dropped).  Returns the samples, what the iterator still
   holds, and the number of Iterator::next calls made. *)
Fixpoint pull_n (n : nat) (l : list Sm) : option (list Sm) * list Sm * nat :=
  match n with
  | O => (Some [], l, O)
  | S n' =>
    match l with
    | [] => (None, [], 1)
    | x :: t => let '(r, l', c) := pull_n n' t in (option_map (cons x) r, l', S c)
    end
  end.

Definition frame_from_samples (l : list Sm) : option F * list Sm * nat :=
  let '(r, l', c) := pull_n nch l in (option_map of_samples r, l', c).

(* constructors as the public functions build them *)
Definition from_iter (id : Z) (l : list F) : sig :=
  match l with
  | [] => FromIter id None [] 1 0
  | f :: t => FromIter id (Some f) t 1 0
  end.

Definition from_samples (id : Z) (l : list Sm) : sig :=
  let '(r, l', c) := frame_from_samples l in FromSamples id r l' c 0.

(* ClipAmp's per-sample closure *)
Definition clip_sample (t : SS) (s : Sm) : Sm :=
  let x := to_signed s in
  of_signed (if ss_ltb t x then t else if ss_ltb x (ss_neg t) then ss_neg t else x).

Fixpoint next (s : sig) : F * sig :=
  match s with
  | FromIter id nx rest ip p =>
    match nx with
    | Some f =>
      (* self.next = self.iter.next(); frame *)
      match rest with
      | [] => (f, FromIter id None [] (S ip) (S p))
      | g :: t => (f, FromIter id (Some g) t (S ip) (S p))
      end
    | None => (eqm, FromIter id None rest ip (S p))
    end
  | FromSamples id nx rest ip p =>
    match nx with
    | Some f => let '(r, l', c) := frame_from_samples rest in (f, FromSamples id r l' (ip + c) (S p))
    | None => (eqm, FromSamples id None rest ip (S p))
    end
  | Equilibrium => (eqm, Equilibrium)
  | Gen id c p => (c, Gen id c (S p))
  | GenMut id g n => (g n, GenMut id g (S n))
  | Map id f s => let (x, s') := next s in (f x, Map id f s')
  | ZipMap id f a b => let (x, a') := next a in let (y, b') := next b in (f x y, ZipMap id f a' b')
  | AddAmp a b => let (x, a') := next a in let (y, b') := next b in (f_add x y, AddAmp a' b')
  | MulAmp a b => let (x, a') := next a in let (y, b') := next b in (f_mul x y, MulAmp a' b')
  | ScaleAmp amp s => let (x, s') := next s in (f_scale amp x, ScaleAmp amp s')
  | OffsetAmp off s => let (x, s') := next s in (f_offset off x, OffsetAmp off s')
  | ScaleAmpPerChannel amp s => let (x, s') := next s in (f_mul x amp, ScaleAmpPerChannel amp s')
  | OffsetAmpPerChannel amp s => let (x, s') := next s in (f_add x amp, OffsetAmpPerChannel amp s')
  | ClipAmp t s => let (x, s') := next s in (fmap (clip_sample t) x, ClipAmp t s')
  | Inspect id s => let (x, s') := next s in (x, Inspect id s')
  | Delay k s =>
    match k with
    | S k' => (eqm, Delay k' s)
    | O => let (x, s') := next s in (x, Delay O s')
    end
  | ByRef s => let (x, s') := next s in (x, ByRef s')
  end.

Fixpoint exhausted (s : sig) : bool :=
  match s with
  | FromIter _ nx _ _ _ => match nx with None => true | Some _ => false end
  | FromSamples _ nx _ _ _ => match nx with None => true | Some _ => false end
  | Equilibrium | Gen _ _ _ | GenMut _ _ _ => false
  | Map _ _ s | ScaleAmp _ s | OffsetAmp _ s | ScaleAmpPerChannel _ s | OffsetAmpPerChannel _ s
  | ClipAmp _ s | Inspect _ s | ByRef s => exhausted s
  | ZipMap _ _ a b | AddAmp a b | MulAmp a b => exhausted a || exhausted b
  | Delay k s => (k =? 0) && exhausted s
  end.

(* events caused by one call of [next], in order *)
Fixpoint trace (s : sig) : list event :=
  match s with
  | FromIter id nx _ _ _ => EPull id :: match nx with Some _ => [EIter id] | None => [] end
  | FromSamples id nx rest _ _ =>
    EPull id :: match nx with
                | Some _ => repeat (EIter id) (snd (frame_from_samples rest))
                | None => []
                end
  | Equilibrium => []
  | Gen id _ _ | GenMut id _ _ => [EPull id]
  | Map id _ s => trace s ++ [ECall id]
  | ZipMap id _ a b => trace a ++ trace b ++ [ECall id]
  | AddAmp a b | MulAmp a b => trace a ++ trace b
  | ScaleAmp _ s | OffsetAmp _ s | ScaleAmpPerChannel _ s | OffsetAmpPerChannel _ s
  | ClipAmp _ s | ByRef s => trace s
  | Inspect id s => trace s ++ [ESee id (fst (next s))]
  | Delay k s => match k with S _ => [] | O => trace s end
  end.

(* events caused by constructing the signal (look-ahead fills), leaves left to right *)
Fixpoint build_trace (s : sig) : list event :=
  match s with
  | FromIter id _ _ ip _ | FromSamples id _ _ ip _ => repeat (EIter id) ip
  | Equilibrium | Gen _ _ _ | GenMut _ _ _ => []
  | Map _ _ s | ScaleAmp _ s | OffsetAmp _ s | ScaleAmpPerChannel _ s | OffsetAmpPerChannel _ s
  | ClipAmp _ s | Inspect _ s | Delay _ s | ByRef s => build_trace s
  | ZipMap _ _ a b | AddAmp a b | MulAmp a b => build_trace a ++ build_trace b
  end.

(* pull counters of the leaves, left to right: (id, Signal::next calls, Iterator::next calls) *)
Fixpoint leaf_counts (s : sig) : list (Z * nat * nat) :=
  match s with
  | FromIter id _ _ ip p | FromSamples id _ _ ip p => [(id, p, ip)]
  | Equilibrium => []
  | Gen id _ p => [(id, p, O)]
  | GenMut id _ n => [(id, n, O)]
  | Map _ _ s | ScaleAmp _ s | OffsetAmp _ s | ScaleAmpPerChannel _ s | OffsetAmpPerChannel _ s
  | ClipAmp _ s | Inspect _ s | Delay _ s | ByRef s => leaf_counts s
  | ZipMap _ _ a b | AddAmp a b | MulAmp a b => leaf_counts a ++ leaf_counts b
  end.

(* state after n calls of next; n-th frame yielded *)
Fixpoint after (n : nat) (s : sig) : sig :=
  match n with O => s | S n' => after n' (snd (next s)) end.

Definition stream (s : sig) (n : nat) : F := fst (next (after n s)).

(* positions in a term *)
Inductive dir := DOnly | DLeft | DRight.
Definition path := list dir.

Definition child (d : dir) (s : sig) : option sig :=
  match s, d with
  | Map _ _ s, DOnly | ScaleAmp _ s, DOnly | OffsetAmp _ s, DOnly | ScaleAmpPerChannel _ s, DOnly
  | OffsetAmpPerChannel _ s, DOnly | ClipAmp _ s, DOnly | Inspect _ s, DOnly | Delay _ s, DOnly
  | ByRef s, DOnly => Some s
  | ZipMap _ _ a _, DLeft | AddAmp a _, DLeft | MulAmp a _, DLeft => Some a
  | ZipMap _ _ _ b, DRight | AddAmp _ b, DRight | MulAmp _ b, DRight => Some b
  | _, _ => None
  end.

Fixpoint sub_at (p : path) (s : sig) : option sig :=
  match p with
  | [] => Some s
  | d :: p' => match child d s with Some c => sub_at p' c | None => None end
  end.

Definition set_child (d : dir) (s c : sig) : sig :=
  match s, d with
  | Map i f _, DOnly => Map i f c
  | ScaleAmp x _, DOnly => ScaleAmp x c
  | OffsetAmp x _, DOnly => OffsetAmp x c
  | ScaleAmpPerChannel x _, DOnly => ScaleAmpPerChannel x c
  | OffsetAmpPerChannel x _, DOnly => OffsetAmpPerChannel x c
  | ClipAmp x _, DOnly => ClipAmp x c
  | Inspect i _, DOnly => Inspect i c
  | Delay k _, DOnly => Delay k c
  | ByRef _, DOnly => ByRef c
  | ZipMap i f _ b, DLeft => ZipMap i f c b
  | AddAmp _ b, DLeft => AddAmp c b
  | MulAmp _ b, DLeft => MulAmp c b
  | ZipMap i f a _, DRight => ZipMap i f a c
  | AddAmp a _, DRight => AddAmp a c
  | MulAmp a _, DRight => MulAmp a c
  | _, _ => s
  end.

(* replace the subterm at p *)
Fixpoint subst_at (p : path) (s c : sig) : sig :=
  match p with
  | [] => c
  | d :: p' => match child d s with
               | Some x => set_child d s (subst_at p' x c)
               | None => s
               end
  end.

(* total leading silence still pending in Delay nodes strictly above position p *)
Fixpoint delay_above (p : path) (s : sig) : nat :=
  match p with
  | [] => O
  | d :: p' =>
    match child d s with
    | Some c => (match s with Delay k _ => k | _ => O end) + delay_above p' c
    | None => O
    end
  end.

(* ---- the iterator side ---- *)

(* UntilExhausted::next *)
Definition until_next (s : sig) : option F * sig :=
  if exhausted s then (None, s) else let (x, s') := next s in (Some x, s').

Definition until_trace (s : sig) : list event := if exhausted s then [] else trace s.

(* Take::next, state (n, signal) *)
Definition take_next (st : nat * sig) : option F * (nat * sig) :=
  match fst st with
  | O => (None, st)
  | S n' => let (x, s') := next (snd st) in (Some x, (n', s'))
  end.

(* IntoInterleavedSamples: signal + the channel iterator of the current frame *)
Record inter := { isig : sig; icur : option (list Sm) }.

(* next_sample; the recursive call on frame end is bounded by fuel (2 suffices when frames
   have at least one channel; running out of fuel is reported as UB and excluded by theorem) *)
Fixpoint next_sample (fuel : nat) (st : inter) : res (option Sm * inter) :=
  match fuel with
  | O => UB
  | S fuel' =>
    let st1 :=
      match icur st with
      | None => if exhausted (isig st) then st
                else let (x, s') := next (isig st) in {| isig := s'; icur := Some (channels x) |}
      | Some _ => st
      end in
    match icur st1 with
    | Some (x :: t) => Ok (Some x, {| isig := isig st1; icur := Some t |})
    | Some [] => next_sample fuel' {| isig := isig st1; icur := None |}
    | None => Ok (None, st1)
    end
  end.

(* collecting an iterator to completion (at most fuel items) *)
Fixpoint collect_until (fuel : nat) (s : sig) : list F * sig :=
  match fuel with
  | O => ([], s)
  | S fuel' =>
    match until_next s with
    | (Some x, s') => let (l, s'') := collect_until fuel' s' in (x :: l, s'')
    | (None, s') => ([], s')
    end
  end.

Fixpoint collect_take (fuel : nat) (st : nat * sig) : list F * (nat * sig) :=
  match fuel with
  | O => ([], st)
  | S fuel' =>
    match take_next st with
    | (Some x, st') => let (l, st'') := collect_take fuel' st' in (x :: l, st'')
    | (None, st') => ([], st')
    end
  end.

Fixpoint collect_samples (fuel : nat) (st : inter) : res (list Sm * inter) :=
  match fuel with
  | O => Ok ([], st)
  | S fuel' =>
    match next_sample 2 st with
    | Ok (Some x, st') =>
      match collect_samples fuel' st' with
      | Ok (l, st'') => Ok (x :: l, st'')
      | Panic k => Panic k
      | UB => UB
      end
    | Ok (None, st') => Ok ([], st')
    | Panic k => Panic k
    | UB => UB
    end
  end.

(* signal::lift(iter, f) = f(from_iter(iter)).until_exhausted() *)
Definition lift (id : Z) (l : list F) (f : sig -> sig) : sig := f (from_iter id l).

(* number of frames a signal still yields before it reports exhaustion; None = never *)
Definition omin (a b : option nat) : option nat :=
  match a, b with
  | Some x, Some y => Some (Nat.min x y)
  | Some x, None => Some x
  | None, y => y
  end.

Fixpoint live_len (s : sig) : option nat :=
  match s with
  | FromIter _ nx rest _ _ => Some (match nx with Some _ => S (length rest) | None => O end)
  | FromSamples _ nx rest _ _ => Some (match nx with Some _ => S (length rest / nch) | None => O end)
  | Equilibrium | Gen _ _ _ | GenMut _ _ _ => None
  | Map _ _ s | ScaleAmp _ s | OffsetAmp _ s | ScaleAmpPerChannel _ s | OffsetAmpPerChannel _ s
  | ClipAmp _ s | Inspect _ s | ByRef s => live_len s
  | ZipMap _ _ a b | AddAmp a b | MulAmp a b => omin (live_len a) (live_len b)
  | Delay k s => option_map (Nat.add k) (live_len s)
  end.

End Sig.

Arguments EIter {F}. Arguments EPull {F}. Arguments ECall {F}. Arguments ESee {F}.
Arguments FromIter {F Sm SS FS}. Arguments FromSamples {F Sm SS FS}. Arguments Equilibrium {F Sm SS FS}.
Arguments Gen {F Sm SS FS}. Arguments GenMut {F Sm SS FS}. Arguments Map {F Sm SS FS}.
Arguments ZipMap {F Sm SS FS}. Arguments AddAmp {F Sm SS FS}. Arguments MulAmp {F Sm SS FS}.
Arguments ScaleAmp {F Sm SS FS}. Arguments OffsetAmp {F Sm SS FS}.
Arguments ScaleAmpPerChannel {F Sm SS FS}. Arguments OffsetAmpPerChannel {F Sm SS FS}.
Arguments ClipAmp {F Sm SS FS}. Arguments Inspect {F Sm SS FS}. Arguments Delay {F Sm SS FS}.
Arguments ByRef {F Sm SS FS}.
Arguments exhausted {F Sm SS FS}. Arguments build_trace {F Sm SS FS}. Arguments leaf_counts {F Sm SS FS}.
Arguments from_iter {F Sm SS FS}. Arguments child {F Sm SS FS}. Arguments sub_at {F Sm SS FS}.
Arguments set_child {F Sm SS FS}. Arguments subst_at {F Sm SS FS}. Arguments delay_above {F Sm SS FS}.
Arguments Build_inter {F Sm SS FS}. Arguments isig {F Sm SS FS}. Arguments icur {F Sm SS FS}.
