(* Executable instances of the signal model (Signal/Sig.v) for the formats the C04/C05
   correspondence drives, with the case language and observation encoding of
   harness/src/bin/c0405.rs; evaluated by coqc.
   Frames are lists of Z (integer samples as values, float samples as IEEE bit patterns). *)
Require Import Floats.SpecFloat.
Require Import List ZArith Bool.
From Flocq Require Import Core BinarySingleNaN.
From Dasp Require Import Base.Res Base.Float Signal.Sig.
Import ListNotations.
Open Scope Z_scope.

Inductive fmt := I16x2 | U8x3 | I32x1 | F64x1 | F32x2.

Definition fmt_nch (fm : fmt) : nat :=
  match fm with I16x2 => 2 | U8x3 => 3 | I32x1 => 1 | F64x1 => 1 | F32x2 => 2 end%nat.

(* width of the integer formats, is-unsigned *)
Definition int_bits (fm : fmt) : Z := match fm with I16x2 => 16 | U8x3 => 8 | _ => 32 end.
Definition is_float (fm : fmt) : bool := match fm with F64x1 | F32x2 => true | _ => false end.
Definition unsigned_off (fm : fmt) : Z := match fm with U8x3 => 128 | _ => 0 end.

(* two's complement reduction into the signed range of b bits *)
Definition wrap_s (b z : Z) : Z := (z + 2 ^ (b - 1)) mod 2 ^ b - 2 ^ (b - 1).

(* Sample::to_signed_sample / back, on the value level *)
Definition z_to_signed (fm : fmt) (x : Z) : Z := x - unsigned_off fm.
Definition z_of_signed (fm : fmt) (x : Z) : Z := x + unsigned_off fm.

Definition f64b (f : F64.t -> F64.t -> F64.t) (x y : Z) : Z := F64.bits (f (F64.of_bits x) (F64.of_bits y)).
Definition f32b (f : F32.t -> F32.t -> F32.t) (x y : Z) : Z := F32.bits (f (F32.of_bits x) (F32.of_bits y)).

(* Sample::add_amp: (self.to_signed + amp).to_sample() ; amp is a Signed-format value *)
Definition s_add (fm : fmt) (x y : Z) : Z :=
  match fm with
  | F64x1 => f64b F64.add x y
  | F32x2 => f32b F32.add x y
  | _ => z_of_signed fm (wrap_s (int_bits fm) (z_to_signed fm x + y))
  end.

(* Sample::mul_amp: (self.to_float * amp).to_sample(); the float companion of the three
   integer formats is f32: to_f32 = s as f32 / 2^(b-1), back = (f * 2^(b-1)) as iN *)
Definition s_mul (fm : fmt) (x a : Z) : Z :=
  match fm with
  | F64x1 => f64b F64.mul x a
  | F32x2 => f32b F32.mul x a
  | _ =>
    let b := int_bits fm in
    let half := F32.of_Z (2 ^ (b - 1)) in
    let xf := F32.div (F32.of_Z (z_to_signed fm x)) half in
    let r := F32.mul xf (F32.of_bits a) in
    z_of_signed fm (F32.to_Z_sat (- 2 ^ (b - 1)) (2 ^ (b - 1) - 1) (F32.mul r half))
  end.

Definition s_ltb (fm : fmt) (x y : Z) : bool :=
  match fm with
  | F64x1 => F64.ltb (F64.of_bits x) (F64.of_bits y)
  | F32x2 => F32.ltb (F32.of_bits x) (F32.of_bits y)
  | _ => x <? y
  end.

Definition s_neg (fm : fmt) (x : Z) : Z :=
  match fm with
  | F64x1 => F64.bits (F64.neg (F64.of_bits x))
  | F32x2 => F32.bits (F32.neg (F32.of_bits x))
  | _ => wrap_s (int_bits fm) (- x)
  end.

(* float values pass through to_sample (identity) unchanged except that the one NaN is canonical *)
Definition s_canon (fm : fmt) (x : Z) : Z :=
  match fm with
  | F64x1 => F64.bits (F64.of_bits x)
  | F32x2 => F32.bits (F32.of_bits x)
  | _ => x
  end.

Fixpoint map2 (f : Z -> Z -> Z) (a b : list Z) : list Z :=
  match a, b with x :: a', y :: b' => f x y :: map2 f a' b' | _, _ => [] end.

Definition zframe := list Z.
Definition zsig := sig zframe Z Z Z.

Section Prim.
Variable fm : fmt.

Definition z_eqm : zframe := repeat (unsigned_off fm) (fmt_nch fm).
Definition z_add (a b : zframe) : zframe := map2 (s_add fm) a b.
Definition z_mul (a b : zframe) : zframe := map2 (s_mul fm) a b.
Definition z_scale (amp : Z) (a : zframe) : zframe := map (fun x => s_mul fm x amp) a.
Definition z_offset (off : Z) (a : zframe) : zframe := map (fun x => s_add fm x off) a.
Definition z_fmap (f : Z -> Z) (a : zframe) : zframe := map f a.
Definition z_tos (x : Z) : Z := if is_float fm then x else z_to_signed fm x.
Definition z_ofs (x : Z) : Z := if is_float fm then x else z_of_signed fm x.

(* ---- fixed closures of the harness ---- *)
(* map closures: 0 = reverse the channels; 1 = per sample wrapping add of k (integers) /
   float add of k (floats); 9 (U8x3 only) = Frame::to_signed_frame *)
Definition map_fn (fnid k : Z) (f : zframe) : zframe :=
  match fnid with
  | 0 => rev f
  | 1 => match fm with
         | F64x1 => map (fun x => f64b F64.add x k) f
         | F32x2 => map (fun x => f32b F32.add x k) f
         | U8x3 => map (fun x => (x + k) mod 256) f
         | _ => map (fun x => wrap_s (int_bits fm) (x + k)) f
         end
  | 9 => map (z_to_signed fm) f
  | _ => f
  end.

(* zip_map closures: 0 = per channel a - b (wrapping / float sub); 1 = even channels of a, odd of b *)
Fixpoint interleave_sel (i : nat) (a b : list Z) : list Z :=
  match a, b with
  | x :: a', y :: b' => (if Nat.even i then x else y) :: interleave_sel (S i) a' b'
  | _, _ => []
  end.

Definition zip_fn (fnid : Z) (a b : zframe) : zframe :=
  match fnid with
  | 0 => match fm with
         | F64x1 => map2 (f64b F64.sub) a b
         | F32x2 => map2 (f32b F32.sub) a b
         | U8x3 => map2 (fun x y => (x - y) mod 256) a b
         | _ => map2 (fun x y => wrap_s (int_bits fm) (x - y)) a b
         end
  | _ => interleave_sel 0 a b
  end.

(* gen_mut closure: every channel = base + (n mod 7), as an integer or as a float *)
Definition genmut_fn (base : Z) (n : nat) : zframe :=
  let v := base + Z.of_nat n mod 7 in
  repeat (match fm with
          | F64x1 => F64.bits (F64.of_Z v)
          | F32x2 => F32.bits (F32.of_Z v)
          | _ => v
          end) (fmt_nch fm).

End Prim.

(* the operations an executable instance provides (frames = lists of Z) *)
Record zops := {
  o_nch : nat;
  o_eqm : zframe;
  o_add : zframe -> zframe -> zframe;
  o_mul : zframe -> zframe -> zframe;
  o_scale : Z -> zframe -> zframe;
  o_offset : Z -> zframe -> zframe;
  o_tos : Z -> Z;
  o_ofs : Z -> Z;
  o_ltb : Z -> Z -> bool;
  o_neg : Z -> Z;
  o_canon : Z -> Z;
  o_map : Z -> Z -> zframe -> zframe;
  o_zip : Z -> zframe -> zframe -> zframe;
  o_genmut : Z -> nat -> zframe
}.

Definition ops_of (fm : fmt) : zops := {|
  o_nch := fmt_nch fm; o_eqm := z_eqm fm; o_add := z_add fm; o_mul := z_mul fm; o_scale := z_scale fm;
  o_offset := z_offset fm; o_tos := z_tos fm; o_ofs := z_ofs fm; o_ltb := s_ltb fm; o_neg := s_neg fm;
  o_canon := s_canon fm; o_map := map_fn fm; o_zip := zip_fn fm; o_genmut := genmut_fn fm |}.

Section Inst.
Variable OP : zops.

Definition znext : zsig -> zframe * zsig :=
  next zframe Z Z Z (o_eqm OP) (o_nch OP) (fun l => l) z_fmap (o_add OP) (o_mul OP) (o_scale OP) (o_offset OP)
       (o_tos OP) (o_ofs OP) (o_ltb OP) (o_neg OP).
Definition ztrace : zsig -> list (event zframe) :=
  trace zframe Z Z Z (o_eqm OP) (o_nch OP) (fun l => l) z_fmap (o_add OP) (o_mul OP) (o_scale OP) (o_offset OP)
        (o_tos OP) (o_ofs OP) (o_ltb OP) (o_neg OP).
Definition zuntil_next : zsig -> option zframe * zsig :=
  until_next zframe Z Z Z (o_eqm OP) (o_nch OP) (fun l => l) z_fmap (o_add OP) (o_mul OP) (o_scale OP) (o_offset OP)
       (o_tos OP) (o_ofs OP) (o_ltb OP) (o_neg OP).
Definition zuntil_trace : zsig -> list (event zframe) :=
  until_trace zframe Z Z Z (o_eqm OP) (o_nch OP) (fun l => l) z_fmap (o_add OP) (o_mul OP) (o_scale OP) (o_offset OP)
       (o_tos OP) (o_ofs OP) (o_ltb OP) (o_neg OP).
Definition znext_sample : nat -> inter zframe Z Z Z -> res (option Z * inter zframe Z Z Z) :=
  next_sample zframe Z Z Z (o_eqm OP) (o_nch OP) (fun f => f) (fun l => l) z_fmap (o_add OP) (o_mul OP) (o_scale OP) (o_offset OP)
       (o_tos OP) (o_ofs OP) (o_ltb OP) (o_neg OP).
Definition zfrom_samples : Z -> list Z -> zsig := from_samples zframe Z Z Z (o_nch OP) (fun l => l).

(* ---- case language ---- *)
Inductive ztree :=
| TIter (id : Z) (l : list (list Z))
| TSamples (id : Z) (l : list Z)
| TEq
| TGen (id : Z) (c : list Z)
| TGenMut (id : Z) (base : Z)
| TMap (id fnid k : Z) (t : ztree)
| TZip (id fnid : Z) (a b : ztree)
| TAdd (a b : ztree)
| TMul (a b : ztree)
| TScale (amp : Z) (t : ztree)
| TOffset (off : Z) (t : ztree)
| TScalePC (amp : list Z) (t : ztree)
| TOffsetPC (amp : list Z) (t : ztree)
| TClip (th : Z) (t : ztree)
| TInspect (id : Z) (t : ztree)
| TDelay (k : Z) (t : ztree)
| TRef (i : Z)          (* bases[i].by_ref() *)
| TArg.                 (* the closure argument of signal::lift *)

Definition dummy : zsig := Equilibrium.

Fixpoint build (bases : list zsig) (arg : zsig) (t : ztree) : zsig :=
  match t with
  | TIter id l => from_iter id l
  | TSamples id l => zfrom_samples id l
  | TEq => Equilibrium
  | TGen id c => Gen id c 0
  | TGenMut id base => GenMut id (o_genmut OP base) 0
  | TMap id fnid k t => Map id (o_map OP fnid k) (build bases arg t)
  | TZip id fnid a b => ZipMap id (o_zip OP fnid) (build bases arg a) (build bases arg b)
  | TAdd a b => AddAmp (build bases arg a) (build bases arg b)
  | TMul a b => MulAmp (build bases arg a) (build bases arg b)
  | TScale amp t => ScaleAmp amp (build bases arg t)
  | TOffset off t => OffsetAmp off (build bases arg t)
  | TScalePC amp t => ScaleAmpPerChannel amp (build bases arg t)
  | TOffsetPC amp t => OffsetAmpPerChannel amp (build bases arg t)
  | TClip th t => ClipAmp th (build bases arg t)
  | TInspect id t => Inspect id (build bases arg t)
  | TDelay k t => Delay (Z.to_nat k) (build bases arg t)
  | TRef i => ByRef (nth (Z.to_nat i) bases dummy)
  | TArg => arg
  end.

(* events of constructing the op's own nodes: borrowed bases were built earlier *)
Fixpoint own_build_trace (t : ztree) : list (event zframe) :=
  match t with
  | TIter id l => build_trace (from_iter id l : zsig)
  | TSamples id l => build_trace (zfrom_samples id l)
  | TMap _ _ _ t | TScale _ t | TOffset _ t | TScalePC _ t | TOffsetPC _ t | TClip _ t
  | TInspect _ t | TDelay _ t => own_build_trace t
  | TZip _ _ a b | TAdd a b | TMul a b => own_build_trace a ++ own_build_trace b
  | _ => []
  end.

(* where the borrowed bases sit in the built term *)
Fixpoint ref_paths (t : ztree) : list (Z * path) :=
  let down d := map (fun ip => (fst ip, d :: snd ip)) in
  match t with
  | TRef i => [(i, [])]
  | TMap _ _ _ t | TScale _ t | TOffset _ t | TScalePC _ t | TOffsetPC _ t | TClip _ t
  | TInspect _ t | TDelay _ t => down DOnly (ref_paths t)
  | TZip _ _ a b | TAdd a b | TMul a b => down DLeft (ref_paths a) ++ down DRight (ref_paths b)
  | _ => []
  end.

Fixpoint set_nth_sig (i : nat) (x : zsig) (l : list zsig) : list zsig :=
  match l, i with
  | [], _ => []
  | _ :: t, O => x :: t
  | h :: t, S k => h :: set_nth_sig k x t
  end.

(* dropping the adaptor hands every borrowed base back in the state the adaptor left it *)
Definition hand_back (t : ztree) (final : zsig) (bases : list zsig) : list zsig :=
  fold_left (fun bs ip =>
    match sub_at (snd ip) final with
    | Some (ByRef s) => set_nth_sig (Z.to_nat (fst ip)) s bs
    | _ => bs
    end) (ref_paths t) bases.

Inductive zop :=
| ONext (k : Z) (t : ztree)                 (* k x (is_exhausted, next, is_exhausted) *)
| OUntil (cap extra : Z) (t : ztree)        (* t.until_exhausted(): up to cap items, then extra more calls *)
| OTake (n cap extra : Z) (t : ztree)       (* t.take(n) *)
| OInter (cap extra : Z) (t : ztree)        (* t.into_interleaved_samples().into_iter() *)
| OLift (id : Z) (l : list (list Z)) (cap extra : Z) (t : ztree) (* signal::lift(l, |arg| t) *)
(* j x next, then clone the whole stack; k x next on the original, then k x next on the clone *)
| OSigClone (j k : Z) (t : ztree)
(* an iterator the API returns -- kind 0: until_exhausted(), 1: take(n), 2: into_interleaved_samples().into_iter(),
   3: into_interleaved_samples() driven through next_sample() -- after `pre` calls of next is
   mode 0: drained; 1: cloned, the original drained, then the clone drained; 2: asked nth(k), then drained;
   3: turned into skip(k), then drained *)
| OIter (kind n pre mode k cap extra : Z) (t : ztree).

Definition b2z (b : bool) : Z := if b then 1 else 0.
Definition zn (k : nat) : Z := Z.of_nat k.

Definition enc_frame (f : zframe) : list Z := map (o_canon OP) f.

Definition enc_event (e : event zframe) : list Z :=
  match e with
  | EIter id => [1; id] | EPull id => [2; id] | ECall id => [3; id]
  | ESee id f => 4 :: id :: enc_frame f
  end.
Definition enc_events (l : list (event zframe)) : list Z := flat_map enc_event l.

Definition enc_counts (s : zsig) : list Z :=
  16 :: flat_map (fun c => [fst (fst c); zn (snd (fst c)); zn (snd c)]) (leaf_counts s).

(* k calls of next, each observed as [11; exhausted before; exhausted after; frame ; events] *)
Fixpoint run_next (k : nat) (s : zsig) : list (list Z) * zsig :=
  match k with
  | O => ([], s)
  | S k' =>
    let e0 := exhausted s in
    let ev := ztrace s in
    let (x, s') := znext s in
    let (l, s'') := run_next k' s' in
    ((11 :: b2z e0 :: b2z (exhausted s') :: enc_frame x ++ enc_events ev) :: l, s'')
  end.

(* iterator items: [13; frame; events] = Some, [14; events] = None *)
Fixpoint run_until (cap extra : nat) (s : zsig) : list (list Z) * zsig :=
  match cap with
  | O => ([], s)
  | S cap' =>
    let ev := zuntil_trace s in
    match zuntil_next s with
    | (Some x, s') => let (l, s'') := run_until cap' extra s' in ((13 :: enc_frame x ++ enc_events ev) :: l, s'')
    | (None, s') =>
      match extra with
      | O => ([14 :: enc_events ev], s')
      | S extra' => let (l, s'') := run_until cap' extra' s' in ((14 :: enc_events ev) :: l, s'')
      end
    end
  end.

(* take(n): the counter is a Z (the recursion is on the number of observed calls), so that take(2^32), take(usize::MAX)
   run as they are; SigRunNormProofs.take_counter ties it to the nat counter of Sig.take_next.  Before every call of
   next the harness reports size_hint() and ExactSizeIterator::len() as [17; lower; upper; len] (upper = -1 for None):
   all three are what is left of n *)
Definition take_live (n : Z) : bool := 0 <? n.

Fixpoint run_take (cap extra : nat) (n : Z) (s : zsig) : list (list Z) * zsig :=
  match cap with
  | O => ([], s)
  | S cap' =>
    if take_live n then
      let ev := ztrace s in
      let (x, s') := znext s in
      let (l, s'') := run_take cap' extra (n - 1) s' in ([17; n; n; n] :: (13 :: enc_frame x ++ enc_events ev) :: l, s'')
    else
      match extra with
      | O => ([[17; 0; 0; 0]; [14]], s)
      | S extra' => let (l, s'') := run_take cap' extra' n s in ([17; 0; 0; 0] :: [14] :: l, s'')
      end
  end.

(* interleaved samples: [15; sample; events] = Some, [14; events] = None; the events of a call
   are those of the refill it performs, if any *)
Definition inter_trace (st : inter zframe Z Z Z) : list (event zframe) :=
  match icur st with
  | None | Some [] => if exhausted (isig st) then [] else ztrace (isig st)
  | Some _ => []
  end.

Fixpoint run_inter (cap extra : nat) (st : inter zframe Z Z Z) : list (list Z) * inter zframe Z Z Z :=
  match cap with
  | O => ([], st)
  | S cap' =>
    let ev := inter_trace st in
    match znext_sample 2 st with
    | Ok (Some x, st') => let (l, st'') := run_inter cap' extra st' in ((15 :: o_canon OP x :: enc_events ev) :: l, st'')
    | Ok (None, st') =>
      match extra with
      | O => ([14 :: enc_events ev], st')
      | S extra' => let (l, st'') := run_inter cap' extra' st' in ((14 :: enc_events ev) :: l, st'')
      end
    | _ => ([[-2]], st)
    end
  end.

(* ---- the iterators as values: clone = the same state, nth = repeated next ---- *)
Inductive zit := ItUntil (s : zsig) | ItTake (n : Z) (s : zsig) | ItInter (st : inter zframe Z Z Z).

Definition it_sig (it : zit) : zsig :=
  match it with ItUntil s => s | ItTake _ s => s | ItInter st => isig st end.

(* one Iterator::next: tagged item (None = end), events, new state *)
Definition it_step (it : zit) : option (list Z) * list (event zframe) * zit :=
  match it with
  | ItUntil s =>
    let ev := zuntil_trace s in
    match zuntil_next s with
    | (Some x, s') => (Some (13 :: enc_frame x), ev, ItUntil s')
    | (None, s') => (None, ev, ItUntil s')
    end
  | ItTake n s =>
    if take_live n
    then let ev := ztrace s in let (x, s') := znext s in (Some (13 :: enc_frame x), ev, ItTake (n - 1) s')
    else (None, [], it)
  | ItInter st =>
    let ev := inter_trace st in
    match znext_sample 2 st with
    | Ok (Some x, st') => (Some [15; o_canon OP x], ev, ItInter st')
    | Ok (None, st') => (None, ev, ItInter st')
    | _ => (Some [-2], [], it)
    end
  end.

Definition it_obs (r : option (list Z)) (ev : list (event zframe)) : list Z :=
  match r with Some p => p ++ enc_events ev | None => 14 :: enc_events ev end.

Fixpoint it_pre (pre : nat) (it : zit) : list (list Z) * zit :=
  match pre with
  | O => ([], it)
  | S p => let '(r, ev, it') := it_step it in let (l, it'') := it_pre p it' in (it_obs r ev :: l, it'')
  end.

Fixpoint it_drain (cap extra : nat) (it : zit) : list (list Z) * zit :=
  match cap with
  | O => ([], it)
  | S cap' =>
    let '(r, ev, it') := it_step it in
    match r with
    | Some _ => let (l, it'') := it_drain cap' extra it' in (it_obs r ev :: l, it'')
    | None =>
      match extra with
      | O => ([it_obs r ev], it')
      | S extra' => let (l, it'') := it_drain cap' extra' it' in (it_obs r ev :: l, it'')
      end
    end
  end.

(* Iterator::nth(k) (default body): k calls of next given up at the first None, then one more *)
Fixpoint it_nth (k : nat) (acc : list (event zframe)) (it : zit) : list Z * zit :=
  let '(r, ev, it') := it_step it in
  match k with
  | O => (it_obs r (acc ++ ev), it')
  | S k' =>
    match r with
    | Some _ => it_nth k' (acc ++ ev) it'
    | None => (it_obs None (acc ++ ev), it')
    end
  end.

Definition run_op (bases : list zsig) (o : zop) : list (list Z) * list zsig :=
  match o with
  | ONext k t =>
    let s := build bases dummy t in
    let (l, s') := run_next (Z.to_nat k) s in
    ((10 :: enc_events (own_build_trace t)) :: l ++ [enc_counts s'], hand_back t s' bases)
  | OUntil cap extra t =>
    let s := build bases dummy t in
    let (l, s') := run_until (Z.to_nat cap) (Z.to_nat extra) s in
    ((10 :: enc_events (own_build_trace t)) :: l ++ [enc_counts s'], hand_back t s' bases)
  | OTake n cap extra t =>
    let s := build bases dummy t in
    let (l, s') := run_take (Z.to_nat cap) (Z.to_nat extra) n s in
    ((10 :: enc_events (own_build_trace t)) :: l ++ [enc_counts s'], hand_back t s' bases)
  | OInter cap extra t =>
    let s := build bases dummy t in
    let (l, st') := run_inter (Z.to_nat cap) (Z.to_nat extra) {| isig := s; icur := None |} in
    ((10 :: enc_events (own_build_trace t)) :: l ++ [enc_counts (isig st')], hand_back t (isig st') bases)
  | OLift id fr cap extra t =>
    let s := lift zframe Z Z Z id fr (fun a => build bases a t) in
    let (l, s') := run_until (Z.to_nat cap) (Z.to_nat extra) s in
    ((10 :: enc_events (build_trace (from_iter id fr : zsig) ++ own_build_trace t)) :: l ++ [enc_counts s'],
     hand_back t s' bases)
  | OSigClone j k t =>
    let s := build bases dummy t in
    let (l0, s1) := run_next (Z.to_nat j) s in
    let (la, sa) := run_next (Z.to_nat k) s1 in
    let (lb, _) := run_next (Z.to_nat k) s1 in
    ((10 :: enc_events (own_build_trace t)) :: l0 ++ la ++ lb ++ [enc_counts sa], hand_back t sa bases)
  | OIter kind n pre mode k cap extra t =>
    let s := build bases dummy t in
    let it0 := match kind with
               | 0 => ItUntil s
               | 1 => ItTake n s
               | _ => ItInter {| isig := s; icur := None |}
               end in
    let (l0, it1) := it_pre (Z.to_nat pre) it0 in
    let (l1, it2) :=
      match mode with
      | 0 => it_drain (Z.to_nat cap) (Z.to_nat extra) it1
      | 1 => let (a, ita) := it_drain (Z.to_nat cap) (Z.to_nat extra) it1 in
             let (b, _) := it_drain (Z.to_nat cap) (Z.to_nat extra) it1 in (a ++ b, ita)
      | _ => let (o1, it') := it_nth (Z.to_nat k) [] it1 in
             let (a, ita) := it_drain (Z.to_nat cap) (Z.to_nat extra) it' in (o1 :: a, ita)
      end in
    ((10 :: enc_events (own_build_trace t)) :: l0 ++ l1 ++ [enc_counts (it_sig it2)], hand_back t (it_sig it2) bases)
  end.

Fixpoint run_ops (bases : list zsig) (ops : list zop) : list (list Z) :=
  match ops with
  | [] => []
  | o :: r => let (l, bases') := run_op bases o in l ++ run_ops bases' r
  end.

Definition run_bases (ts : list ztree) : list (list Z) * list zsig :=
  (map (fun t => 10 :: enc_events (own_build_trace t)) ts, map (build [] dummy) ts).

End Inst.

(* ---- delay lengths beyond the run (2^32, usize::MAX ...) ----
   [Delay k] of the proved model counts in unary, so a case is NORMALISED before it is run: every delay length is
   clamped to [norm_bound ops] = 1 + an upper bound of the number of calls of Signal::next the whole case can make on
   any one signal (bases live across ops, so the bound is summed over the ops).  A delay at or above the bound never
   finishes its silence within the case, and the clamped one does not either: SigRunNormProofs.run_ops_norm shows
   that running the normalised case IS running the case ([run_case_norm c = run_case c], every case, every
   instance), from SigNormProofs.drel_obs / drel_step.  The generator sends the true lengths. *)
Fixpoint clamp_tree (c : Z) (t : ztree) : ztree :=
  match t with
  | TMap id fnid k t => TMap id fnid k (clamp_tree c t)
  | TZip id fnid a b => TZip id fnid (clamp_tree c a) (clamp_tree c b)
  | TAdd a b => TAdd (clamp_tree c a) (clamp_tree c b)
  | TMul a b => TMul (clamp_tree c a) (clamp_tree c b)
  | TScale amp t => TScale amp (clamp_tree c t)
  | TOffset off t => TOffset off (clamp_tree c t)
  | TScalePC amp t => TScalePC amp (clamp_tree c t)
  | TOffsetPC amp t => TOffsetPC amp (clamp_tree c t)
  | TClip th t => TClip th (clamp_tree c t)
  | TInspect id t => TInspect id (clamp_tree c t)
  | TDelay k t => TDelay (Z.min k c) (clamp_tree c t)
  | TIter _ _ | TSamples _ _ | TEq | TGen _ _ | TGenMut _ _ | TRef _ | TArg => t
  end.

Definition clamp_op (c : Z) (o : zop) : zop :=
  match o with
  | ONext k t => ONext k (clamp_tree c t)
  | OUntil cap extra t => OUntil cap extra (clamp_tree c t)
  | OTake n cap extra t => OTake n cap extra (clamp_tree c t)
  | OInter cap extra t => OInter cap extra (clamp_tree c t)
  | OLift id l cap extra t => OLift id l cap extra (clamp_tree c t)
  | OSigClone j k t => OSigClone j k (clamp_tree c t)
  | OIter kind n pre mode k cap extra t => OIter kind n pre mode k cap extra (clamp_tree c t)
  end.

(* calls of Signal::next one op can make on one signal (an interleaved-sample call refills at most twice: fuel 2) *)
Definition op_budget (o : zop) : nat :=
  match o with
  | ONext k _ => Z.to_nat k
  | OUntil cap _ _ | OTake _ cap _ _ | OLift _ _ cap _ _ => Z.to_nat cap
  | OInter cap _ _ => 2 * Z.to_nat cap
  | OSigClone j k _ => Z.to_nat j + Z.to_nat k
  | OIter _ _ pre _ k cap _ _ => 2 * Z.to_nat pre + (2 * S (Z.to_nat k) + 2 * Z.to_nat cap)
  end.

Fixpoint ops_budget (ops : list zop) : nat :=
  match ops with [] => O | o :: r => (op_budget o + ops_budget r)%nat end.

Definition norm_bound (ops : list zop) : Z := Z.of_nat (S (ops_budget ops)).

Inductive zcase := ZCase (fm : fmt) (bases : list ztree) (ops : list zop).

Definition run_case (c : zcase) : list (list Z) :=
  match c with
  | ZCase fm ts ops => let (l, bases) := run_bases (ops_of fm) ts in l ++ run_ops (ops_of fm) bases ops
  end.

Definition norm_case (c : zcase) : zcase :=
  match c with
  | ZCase fm ts ops => let b := norm_bound ops in ZCase fm (map (clamp_tree b) ts) (map (clamp_op b) ops)
  end.

Definition run_case_norm (c : zcase) : list (list Z) := run_case (norm_case c).

Definition zll_eqb (a b : list (list Z)) : bool :=
  if list_eq_dec (list_eq_dec Z.eq_dec) a b then true else false.

Definition check (c : zcase * list (list Z)) : bool := zll_eqb (run_case_norm (fst c)) (snd c).
