(* End-to-end binary64 range theorems: every frame of every run of saw / square / sine built on a
   public step source outside the known class K1. *)
Require Import Floats.SpecFloat.
Require Import ZArith Reals Lia Lra Bool List.
From Flocq Require Import Core BinarySingleNaN.
From Dasp Require Import Base.Float Signal.OscNum Signal.Osc Signal.FloatFacts Signal.OscProofs Signal.OscFloatProofs.
Import ListNotations.
Open Scope R_scope.

Definition UnitRange (y : f64) : Prop := fin y /\ -1 <= B2R y <= 1.

Lemma osc_frames_range (out : f64 -> f64) (s : step_src F) (n : nat) :
  PublicSrc s -> ~ KnownClass_K1 s ->
  (forall ph, fin ph -> 0 <= B2R ph <= 1 -> UnitRange (out ph)) ->
  Forall UnitRange (fst (run F (osc_next F out (nof_Z F 1)) (phase_new F s) n)).
Proof.
  intros Hp NK Ho. rewrite run_osc. simpl fst. apply Forall_map.
  pose proof (phase_range_all s 1 n Hp NK ltac:(lia)) as H.
  eapply Forall_impl; [|exact H]. intros ph (Fp & H0 & H1). apply Ho; [exact Fp|lra].
Qed.

Theorem saw_run_range (s : step_src F) (n : nat) : PublicSrc s -> ~ KnownClass_K1 s ->
  Forall UnitRange (fst (run F (saw_next F) (phase_new F s) n)).
Proof.
  intros Hp NK. rewrite (run_ext F _ _ (saw_is_osc F)). apply osc_frames_range; auto.
  intros ph Fp Hr. apply saw_range; auto.
Qed.

Theorem square_run_range (s : step_src F) (n : nat) : PublicSrc s -> ~ KnownClass_K1 s ->
  Forall (fun y => fin y /\ (B2R y = 1 \/ B2R y = -1))
         (fst (run F (square_next F) (phase_new F s) n)).
Proof.
  intros Hp NK. rewrite (run_ext F _ _ (square_is_osc F)). rewrite run_osc. simpl fst. apply Forall_map.
  pose proof (phase_range_all s 1 n Hp NK ltac:(lia)) as H.
  eapply Forall_impl; [|exact H]. intros ph (Fp & _).
  destruct (square_value ph Fp) as (H1 & H2 & H3). split; [exact H3|].
  destruct (Rlt_le_dec (B2R ph) (/ 2)); [left|right]; auto.
Qed.

Section SineOracle.
Variable sin_o : f64 -> f64.
Hypothesis sin_o_range : forall x, fin x -> fin (sin_o x) /\ -1 <= B2R (sin_o x) <= 1.

Theorem sine_run_range (s : step_src F) (n : nat) : PublicSrc s -> ~ KnownClass_K1 s ->
  Forall UnitRange (fst (run F (sine_next F sin_o) (phase_new F s) n)).
Proof.
  intros Hp NK. rewrite (run_ext F _ _ (sine_is_osc F sin_o)). apply osc_frames_range; auto.
  intros ph Fp Hr. apply sine_range; auto.
Qed.
End SineOracle.

(* noise: every frame of every run *)
Theorem noise_run_range (seed : Z) (n : nat) : (0 <= seed < two64)%Z ->
  Forall (fun y => fin y /\ -1 < B2R y <= 1) (fst (run F (noise_next F) seed n)).
Proof.
  revert seed. induction n as [|n IH]; intros seed Hs; simpl; [constructor|].
  specialize (IH (wadd seed 1) (wadd_range seed 1)).
  destruct (run F (noise_next F) (wadd seed 1) n) as (ys, s2). simpl in *.
  constructor; [apply noise_range|exact IH].
Qed.
