(* Theorems about the oscillator model that hold for every numeric instance (structure of the
   run, pull counter, noise purity) and the exact-arithmetic (NumR) formulas: phase, saw, square, sine. *)
Require Import ZArith Reals Lia Lra List Bool.
From Flocq Require Import Core.
From Dasp Require Import Signal.OscNum Signal.Osc.
Import ListNotations.

(* ====================================================================================== *)
Section Generic.
Variable N : Num.
Notation T := (T N).

(* every oscillator is "next phase (wrapped to w), then a pointwise output function" *)
Definition osc_next (out : T -> T) (w : T) (p : phase_st N) : T * phase_st N :=
  let '(ph, p') := next_phase_wrapped_to N p w in (out ph, p').

Lemma phase_is_osc (p : phase_st N) : next_phase N p = osc_next (fun x => x) (nof_Z N 1) p.
Proof. unfold osc_next, next_phase. destruct (next_phase_wrapped_to N p (nof_Z N 1)); reflexivity. Qed.
Lemma sine_is_osc (sin_o : T -> T) (p : phase_st N) : sine_next N sin_o p = osc_next (sine_of N sin_o) (nof_Z N 1) p.
Proof. reflexivity. Qed.
Lemma saw_is_osc (p : phase_st N) : saw_next N p = osc_next (saw_of N) (nof_Z N 1) p.
Proof. reflexivity. Qed.
Lemma square_is_osc (p : phase_st N) : square_next N p = osc_next (square_of N) (nof_Z N 1) p.
Proof. reflexivity. Qed.
Lemma simplex_is_osc (p : phase_st N) :
  simplex_next N p = osc_next (simplex_noise_1d N) (nof_Z N SimplexTable.simplex_wrap) p.
Proof. reflexivity. Qed.

Lemma run_ext {S : Type} (f g : S -> T * S) : (forall s, f s = g s) -> forall n s, run N f s n = run N g s n.
Proof.
  intros E. induction n as [|n IH]; intros s; simpl; [reflexivity|].
  rewrite E. destruct (g s) as (y, s1). rewrite IH. reflexivity.
Qed.

Lemma run_length {S : Type} (f : S -> T * S) : forall n s, length (fst (run N f s n)) = n.
Proof.
  induction n as [|n IH]; intros s; simpl; [reflexivity|].
  destruct (f s) as (y, s1). specialize (IH s1). destruct (run N f s1 n) as (ys, s2). simpl in *. lia.
Qed.

(* the frames of an oscillator are the output function mapped over the phases; same final state *)
Theorem run_osc (out : T -> T) (w : T) : forall n p,
  run N (osc_next out w) p n =
  (map out (fst (run N (fun q => next_phase_wrapped_to N q w) p n)),
   snd (run N (fun q => next_phase_wrapped_to N q w) p n)).
Proof.
  induction n as [|n IH]; intros p; simpl; [reflexivity|].
  unfold osc_next at 1. destruct (next_phase_wrapped_to N p w) as (ph, p1).
  rewrite IH. destruct (run N _ p1 n) as (ys, p2). reflexivity.
Qed.

(* --- one control frame per output frame ------------------------------------------------- *)
Lemma next_phase_src (p : phase_st N) (w : T) : src (snd (next_phase_wrapped_to N p w)) = snd (step_of N (src p)).
Proof. unfold next_phase_wrapped_to. destruct (step_of N (src p)); reflexivity. Qed.

Lemma phase_run_hz (w rate : T) (ctl : nat -> T) : forall n k nx,
  src (snd (run N (fun q => next_phase_wrapped_to N q w) {| src := SHz rate ctl k; next := nx |} n))
  = SHz rate ctl (k + n).
Proof.
  induction n as [|n IH]; intros k nx; simpl.
  - rewrite Nat.add_0_r. reflexivity.
  - specialize (IH (S k)). destruct (run N _ _ n) as (ys, p2) eqn:E.
    simpl. specialize (IH (nrem N (nadd N nx (ndiv N (ctl k) rate)) w)). rewrite E in IH. simpl in IH.
    rewrite IH. f_equal. lia.
Qed.

(* after n output frames of any oscillator built on rate.hz(ctl), exactly n control frames have
   been pulled (the counter went from k to k + n), and the j-th output frame's step was computed
   from control frame k + j *)
Theorem one_hz_per_frame (out : T -> T) (w rate : T) (ctl : nat -> T) (n k : nat) (nx : T) :
  let p := {| src := SHz rate ctl k; next := nx |} in
  pulls_of N (src (snd (run N (osc_next out w) p n))) = (k + n)%nat /\
  (forall j, nth_step N (src p) j = ndiv N (ctl (k + j)%nat) rate).
Proof.
  cbv zeta. split; [|reflexivity]. rewrite run_osc. simpl snd. rewrite phase_run_hz. reflexivity.
Qed.

Theorem one_hz_each_frame (out : T -> T) (w : T) (p : phase_st N) :
  match src p with
  | SHz _ _ k => pulls_of N (src (snd (osc_next out w p))) = S k
  | SConst _ => src (snd (osc_next out w p)) = src p
  end.
Proof.
  unfold osc_next, next_phase_wrapped_to. destruct (src p) as [st|rate ctl k]; reflexivity.
Qed.

(* --- noise: a pure function of seed and frame index -------------------------------------- *)
Lemma wadd_range (a b : Z) : (0 <= wadd a b < two64)%Z.
Proof. unfold wadd. apply Z.mod_pos_bound. reflexivity. Qed.

Theorem noise_nth : forall (n k : nat) (seed : Z) (d : T), (k < n)%nat -> (0 <= seed < two64)%Z ->
  nth k (fst (run N (noise_next N) seed n)) d = noise_1 N ((seed + Z.of_nat k) mod two64).
Proof.
  induction n as [|n IH]; intros k seed d Hk Hs; [lia|].
  simpl. specialize (IH (Nat.pred k) (wadd seed 1) d).
  destruct (run N (noise_next N) (wadd seed 1) n) as (ys, s2). simpl in *.
  destruct k as [|k].
  - simpl. rewrite Z.add_0_r, Z.mod_small by exact Hs. reflexivity.
  - simpl in IH. rewrite IH; [|lia|apply wadd_range]. f_equal. unfold wadd.
    rewrite Zplus_mod_idemp_l. f_equal. lia.
Qed.

(* the state after n frames depends on seed and n only *)
Theorem noise_seed_after : forall (n : nat) (seed : Z), (0 <= seed < two64)%Z ->
  snd (run N (noise_next N) seed n) = ((seed + Z.of_nat n) mod two64)%Z.
Proof.
  induction n as [|n IH]; intros seed Hs.
  - simpl. rewrite Z.add_0_r, Z.mod_small by exact Hs. reflexivity.
  - simpl. specialize (IH (wadd seed 1) (wadd_range seed 1)).
    destruct (run N (noise_next N) (wadd seed 1) n) as (ys, s2). simpl in *. rewrite IH. unfold wadd.
    rewrite Zplus_mod_idemp_l. f_equal. lia.
Qed.

End Generic.

(* ====================================================================================== *)
(* exact arithmetic *)
Open Scope R_scope.
Notation NR := NumR.

Definition frac (x : R) : R := x - IZR (Zfloor x).

Lemma frac_range (x : R) : 0 <= frac x < 1.
Proof. unfold frac. pose proof (Zfloor_lb x). pose proof (Zfloor_ub x). lra. Qed.

Lemma frac_small (x : R) : 0 <= x < 1 -> frac x = x.
Proof. intros H. unfold frac. rewrite (Zfloor_imp 0); simpl; lra. Qed.

Lemma frac_shift (x y : R) : frac (frac x + y) = frac (x + y).
Proof.
  unfold frac. set (a := Zfloor x). set (b := Zfloor (x + y)).
  rewrite (Zfloor_imp (b - a)).
  - rewrite minus_IZR. ring.
  - rewrite plus_IZR, minus_IZR. pose proof (Zfloor_lb (x + y)). pose proof (Zfloor_ub (x + y)). fold b in H, H0.
    simpl. lra.
Qed.

Lemma Rfmod_1 (v : R) : 0 <= v -> Rfmod v 1 = frac v.
Proof.
  intros H. unfold Rfmod, frac. replace (v / 1) with v by field. rewrite Ztrunc_floor by exact H. ring.
Qed.

(* sum of the first n steps the source hands out *)
Fixpoint sum_steps (s : step_src NR) (n : nat) : R :=
  match n with O => 0 | S n' => sum_steps s n' + nth_step NR s n' end.

Lemma step_of_fst_R (s : step_src NR) : fst (step_of NR s) = nth_step NR s 0.
Proof. destruct s; simpl; [reflexivity|]. rewrite Nat.add_0_r. reflexivity. Qed.

Lemma step_of_snd_R (s : step_src NR) (k : nat) : nth_step NR (snd (step_of NR s)) k = nth_step NR s (S k).
Proof. destruct s; simpl; [reflexivity|]. rewrite Nat.add_succ_r. reflexivity. Qed.

Lemma sum_steps_shift (s : step_src NR) : forall k,
  sum_steps s (S k) = nth_step NR s 0 + sum_steps (snd (step_of NR s)) k.
Proof.
  induction k as [|k IH]; [simpl; ring|].
  change (sum_steps s (S (S k))) with (sum_steps s (S k) + nth_step NR s (S k)). rewrite IH.
  simpl sum_steps. rewrite step_of_snd_R. ring.
Qed.

Lemma sum_steps_nonneg (s : step_src NR) : (forall j, 0 <= nth_step NR s j) -> forall k, 0 <= sum_steps s k.
Proof. intros H. induction k as [|k IH]; simpl; [lra|]. specialize (H k). lra. Qed.

Lemma phase_nth_gen : forall (n k : nat) (p : phase_st NR) (d : R), (k < n)%nat ->
  0 <= next p < 1 -> (forall j, 0 <= nth_step NR (src p) j) ->
  nth k (fst (run NR (next_phase NR) p n)) d = frac (next p + sum_steps (src p) k).
Proof.
  induction n as [|n IH]; intros k p d Hk Hn Hs; [lia|].
  simpl. unfold next_phase at 1, next_phase_wrapped_to.
  pose proof (step_of_fst_R (src p)) as E1. pose proof (step_of_snd_R (src p)) as E2.
  pose proof (sum_steps_shift (src p)) as E3.
  destruct (step_of NR (src p)) as (st, s'). simpl fst in E1. simpl snd in E2, E3.
  set (p1 := {| src := s'; next := nrem NR (nadd NR (next p) st) (nof_Z NR 1) |}).
  specialize (IH (Nat.pred k) p1 d). destruct (run NR (next_phase NR) p1 n) as (ys, p2). simpl fst in *.
  destruct k as [|k].
  - simpl. rewrite Rplus_0_r. symmetry. apply frac_small. exact Hn.
  - simpl nth. simpl Nat.pred in IH.
    assert (Hst : 0 <= st) by (rewrite E1; apply Hs).
    assert (Hn1 : next p1 = frac (next p + st)).
    { unfold p1. simpl. apply Rfmod_1. lra. }
    transitivity (frac (next p1 + sum_steps (src p1) k)); [apply IH|].
    4:{ rewrite Hn1. unfold p1. simpl src. rewrite frac_shift. f_equal. rewrite E3, E1. ring. }
    + lia.
    + rewrite Hn1. apply frac_range.
    + intros j. unfold p1. simpl src. rewrite E2. apply Hs.
Qed.

(* phase_n = frac (sum_{k<n} step_k), step_k = hz_k / rate, from the initial phase 0 *)
Theorem phase_formula (s : step_src NR) (n k : nat) (d : R) : (k < n)%nat ->
  (forall j, 0 <= nth_step NR s j) ->
  nth k (fst (run NR (next_phase NR) (phase_new NR s) n)) d = frac (sum_steps s k).
Proof.
  intros Hk Hs. rewrite phase_nth_gen; auto.
  - simpl. rewrite Rplus_0_l. reflexivity.
  - simpl. lra.
Qed.

Fixpoint Rsum (f : nat -> R) (n : nat) : R :=
  match n with O => 0 | S n' => Rsum f n' + f n' end.

Lemma sum_steps_Rsum (s : step_src NR) (n : nat) : sum_steps s n = Rsum (nth_step NR s) n.
Proof. induction n as [|n IH]; simpl; [reflexivity|]. rewrite IH. reflexivity. Qed.

Lemma Rsum_ext (f g : nat -> R) (n : nat) : (forall j, f j = g j) -> Rsum f n = Rsum g n.
Proof. intros E. induction n as [|n IH]; simpl; [reflexivity|]. rewrite IH, E. reflexivity. Qed.

(* the steps of the two public sources *)
Lemma steps_const (rate hz : R) (j : nat) : nth_step NR (const_hz NR rate hz) j = hz / rate.
Proof. reflexivity. Qed.
Lemma steps_hz (rate : R) (ctl : nat -> R) (j : nat) : nth_step NR (hz_src NR rate ctl) j = ctl j / rate.
Proof. reflexivity. Qed.

Lemma steps_nonneg_const (rate hz : R) : 0 < rate -> 0 <= hz -> forall j, 0 <= nth_step NR (const_hz NR rate hz) j.
Proof. intros Hr Hh j. simpl. apply Rmult_le_pos; [exact Hh|]. apply Rlt_le, Rinv_0_lt_compat, Hr. Qed.
Lemma steps_nonneg_hz (rate : R) (ctl : nat -> R) : 0 < rate -> (forall j, 0 <= ctl j) ->
  forall j, 0 <= nth_step NR (hz_src NR rate ctl) j.
Proof. intros Hr Hh j. simpl. apply Rmult_le_pos; [apply Hh|]. apply Rlt_le, Rinv_0_lt_compat, Hr. Qed.

(* waveforms *)
Theorem saw_formula (ph : R) : saw_of NR ph = 1 - 2 * ph.
Proof. unfold saw_of. simpl. ring. Qed.

Theorem square_formula (ph : R) :
  (ph < / 2 -> square_of NR ph = 1) /\ (/ 2 <= ph -> square_of NR ph = -1).
Proof.
  unfold square_of. simpl. split; intros H.
  - rewrite Rlt_bool_true by exact H. reflexivity.
  - rewrite Rlt_bool_false by exact H. reflexivity.
Qed.

Theorem sine_formula (ph : R) : sine_of NR sin ph = sin (2 * PI * ph).
Proof. unfold sine_of. simpl. f_equal. ring. Qed.

(* the property's wording: phase_k = frac (sum_{j<k} hz_j / rate) *)
Theorem phase_formula_hz (rate : R) (ctl : nat -> R) (n k : nat) (d : R) : (k < n)%nat ->
  0 < rate -> (forall j, 0 <= ctl j) ->
  nth k (fst (run NR (next_phase NR) (phase_new NR (hz_src NR rate ctl)) n)) d
  = frac (Rsum (fun j => ctl j / rate) k).
Proof.
  intros Hk Hr Hc. rewrite phase_formula; auto using steps_nonneg_hz.
  rewrite sum_steps_Rsum. reflexivity.
Qed.

Theorem phase_formula_const (rate hz : R) (n k : nat) (d : R) : (k < n)%nat -> 0 < rate -> 0 <= hz ->
  nth k (fst (run NR (next_phase NR) (phase_new NR (const_hz NR rate hz)) n)) d
  = frac (Rsum (fun _ => hz / rate) k).
Proof.
  intros Hk Hr Hc. rewrite phase_formula; auto using steps_nonneg_const.
  rewrite sum_steps_Rsum. reflexivity.
Qed.
