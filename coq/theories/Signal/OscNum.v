(* The numeric interface the oscillator model (Signal/Osc.v) is written over, and its two
   instances: exact real arithmetic (NumR, for the waveform/phase formulas) and IEEE-754
   binary64 (NumF64 = Base/Float.v F64, for the range theorems and for execution against
   the crate).  Definitions only. *)
Require Import Floats.SpecFloat.
Require Import ZArith Reals.
From Flocq Require Import Core BinarySingleNaN.
From Dasp Require Import Base.Float.
From DaspGen Require Import SimplexTable.

Record Num := {
  T : Type;
  nadd : T -> T -> T;
  nsub : T -> T -> T;
  nmul : T -> T -> T;
  ndiv : T -> T -> T;
  nneg : T -> T;
  nrem : T -> T -> T;          (* Rust `%` on f64 (C fmod) *)
  nltb : T -> T -> bool;
  nfloor : T -> T;             (* f64::floor *)
  nto_i64 : T -> Z;            (* `as i64` *)
  nof_Z : Z -> T;              (* integer literal / `as f64` *)
  nhalf : T;                   (* the literal 0.5 *)
  ntwo_pi : T;                 (* core::f64::consts::PI * 2.0 *)
  nscale : T;                  (* the literal 0.395 *)
}.

(* --- exact arithmetic ------------------------------------------------------------ *)
Definition Rfmod (x y : R) : R := (x - IZR (Ztrunc (x / y)) * y)%R.

Definition NumR : Num := {|
  T := R;
  nadd := Rplus; nsub := Rminus; nmul := Rmult; ndiv := Rdiv; nneg := Ropp;
  nrem := Rfmod;
  nltb := Rlt_bool;
  nfloor := fun x => IZR (Zfloor x);
  nto_i64 := Ztrunc;
  nof_Z := IZR;
  nhalf := (/ 2)%R;
  ntwo_pi := (PI * 2)%R;
  nscale := (IZR simplex_scale_num / IZR simplex_scale_den)%R;
|}.

(* --- IEEE-754 binary64 ------------------------------------------------------------ *)
Definition pi64 : f64 := F64.of_bits 4614256656552045848.       (* 0x400921FB54442D18 = core::f64::consts::PI *)
Definition i64_min : Z := - 2 ^ 63.
Definition i64_max : Z := 2 ^ 63 - 1.

Definition NumF64 : Num := {|
  T := f64;
  nadd := F64.add; nsub := F64.sub; nmul := F64.mul; ndiv := F64.div; nneg := F64.neg;
  nrem := F64.rem;
  nltb := F64.ltb;
  nfloor := F64.floor;
  nto_i64 := F64.to_Z_sat i64_min i64_max;
  nof_Z := F64.of_Z;
  nhalf := F64.of_bits 4602678819172646912;                      (* 0x3FE0000000000000 = 0.5 *)
  ntwo_pi := F64.mul pi64 (F64.of_Z 2);
  nscale := F64.of_bits simplex_scale_bits;
|}.
