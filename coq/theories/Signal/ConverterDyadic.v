(* IEEE binary64, dyadic ratios: when the accumulator and the ratio are multiples of 2^-j and
   their sum stays below 2^53 units, `interpolation_value += ratio` is exact, so one whole
   `next` computes on the accumulator exactly what real arithmetic computes (C08). *)
Require Import Floats.SpecFloat.
Require Import ZArith Reals Lia Lra List Bool.
From Flocq Require Import Core BinarySingleNaN.
From Dasp Require Import Base.Res Base.Float Signal.Converter Signal.ConvNumF Signal.ConverterIEEE.
Import ListNotations.
Open Scope R_scope.

(* x = a * 2^-j *)
Definition dyadic (j a : Z) (x : R) : Prop := x = IZR a * bpow radix2 (- j).

Lemma format_dyadic j a : (0 <= j <= 1074)%Z -> (Z.abs a < 2 ^ 53)%Z -> format64 (IZR a * bpow radix2 (- j)).
Proof.
  intros Hj Ha. apply generic_format_FLT. exists (Float radix2 a (- j)).
  - reflexivity.
  - cbn [Fnum]. exact Ha.
  - cbn [Fexp]. lia.
Qed.

Theorem add_dyadic_exact (v r : F64.t) (j a b : Z) :
  is_finite v = true -> is_finite r = true -> (0 <= j <= 1074)%Z ->
  dyadic j a (B2R v) -> dyadic j b (B2R r) -> (Z.abs (a + b) < 2 ^ 53)%Z ->
  is_finite (F64.add v r) = true /\ B2R (F64.add v r) = B2R v + B2R r /\ dyadic j (a + b) (B2R (F64.add v r)).
Proof.
  intros Fv Fr Hj Hv Hr Hab.
  pose proof (@Bplus_correct 53 1024 p53 pe53 mode_NE v r Fv Fr) as H.
  assert (E : B2R v + B2R r = IZR (a + b) * bpow radix2 (- j)).
  { rewrite Hv, Hr, plus_IZR. ring. }
  assert (Ff : format64 (B2R v + B2R r)) by (rewrite E; apply format_dyadic; assumption).
  rewrite round_generic in H by (auto with typeclass_instances).
  rewrite Rlt_bool_true in H.
  - destruct H as (H1 & H2 & _). split; [exact H2|]. split; [exact H1|]. unfold dyadic. transitivity (B2R v + B2R r); [exact H1|exact E].
  - rewrite E, Rabs_mult, <- abs_IZR. rewrite (Rabs_pos_eq (bpow radix2 (- j))) by apply bpow_ge_0.
    apply Rle_lt_trans with (IZR (Z.abs (a + b)) * 1).
    + apply Rmult_le_compat_l; [apply IZR_le; lia|]. change 1 with (bpow radix2 0). apply bpow_le. lia.
    + rewrite Rmult_1_r. apply Rlt_trans with (bpow radix2 53).
      * change (bpow radix2 53) with (IZR (2 ^ 53)). apply IZR_lt. exact Hab.
      * apply bpow_lt. lia.
Qed.

Section Next.
Context {Fm : Fmt NF}.

(* one whole `next` on binary64 with a dyadic accumulator and ratio: the new accumulator is
   exactly (v - floor v) + ratio, again dyadic, and floor(v) frames were pulled *)
Theorem next_dyadic_exact (fuel : nat) (c : conv Fm) (j a b : Z) :
  is_finite (value c) = true -> is_finite (ratio c) = true -> (0 <= j <= 1074)%Z ->
  dyadic j a (B2R (value c)) -> dyadic j b (B2R (ratio c)) -> (0 <= a)%Z -> (0 <= b)%Z -> (a + b < 2 ^ 53)%Z ->
  (Zfloor (B2R (value c)) < Z.of_nat fuel)%Z ->
  exists out c', next fuel c = Done (out, c') /\
    is_finite (value c') = true /\
    B2R (value c') = B2R (value c) - IZR (Zfloor (B2R (value c))) + B2R (ratio c) /\
    dyadic j (a mod 2 ^ j + b) (B2R (value c')) /\
    pulls (src c') = (pulls (src c) + Z.to_nat (Zfloor (B2R (value c))))%nat /\
    ratio c' = ratio c.
Proof.
  intros Fv Fr Hj Hv Hr Ha Hb Hab Hfu.
  assert (Pj : (0 < 2 ^ j)%Z) by (apply Z.pow_pos_nonneg; lia).
  assert (Bj : IZR (2 ^ j) * bpow radix2 (- j) = 1).
  { change 2%Z with (radix_val radix2). rewrite IZR_Zpower by lia. rewrite <- bpow_plus.
    replace (j + - j)%Z with 0%Z by lia. reflexivity. }
  assert (Bp : 0 < bpow radix2 (- j)) by apply bpow_gt_0.
  (* the accumulator is below 2^53 *)
  assert (Hrange : 0 <= B2R (value c) < bpow radix2 53).
  { rewrite Hv. split.
    - apply Rmult_le_pos; [apply IZR_le; lia|lra].
    - apply Rle_lt_trans with (IZR a * 1).
      + apply Rmult_le_compat_l; [apply IZR_le; lia|]. change 1 with (bpow radix2 0). apply bpow_le. lia.
      + rewrite Rmult_1_r. change (bpow radix2 53) with (IZR (2 ^ 53)). apply IZR_lt. lia. }
  destruct (loop_closed_form fuel c Fv Hrange Hfu) as (c1 & Ea & F1 & E1 & Ep & Er).
  (* floor of a * 2^-j is a / 2^j *)
  assert (Efl : Zfloor (B2R (value c)) = (a / 2 ^ j)%Z).
  { apply Zfloor_imp. rewrite Hv.
    pose proof (Z.div_mod a (2 ^ j) ltac:(lia)) as Hdm.
    pose proof (Z.mod_pos_bound a (2 ^ j) Pj) as Hmod.
    assert (Ea' : IZR a = IZR (2 ^ j) * IZR (a / 2 ^ j) + IZR (a mod 2 ^ j)).
    { rewrite <- mult_IZR, <- plus_IZR. f_equal. exact Hdm. }
    rewrite Ea', plus_IZR. simpl (IZR 1).
    assert (0 <= IZR (a mod 2 ^ j) * bpow radix2 (- j) < 1).
    { split; [apply Rmult_le_pos; [apply IZR_le; lia|lra]|].
      rewrite <- Bj. apply Rmult_lt_compat_r; [exact Bp|]. apply IZR_lt. lia. }
    replace ((IZR (2 ^ j) * IZR (a / 2 ^ j) + IZR (a mod 2 ^ j)) * bpow radix2 (- j))
      with (IZR (a / 2 ^ j) * (IZR (2 ^ j) * bpow radix2 (- j)) + IZR (a mod 2 ^ j) * bpow radix2 (- j)) by ring.
    rewrite Bj. lra. }
  assert (D1 : dyadic j (a mod 2 ^ j) (B2R (value c1))).
  { unfold dyadic. rewrite E1, Efl, Hv.
    pose proof (Z.div_mod a (2 ^ j) ltac:(lia)) as Hdm.
    assert (Ea' : IZR a = IZR (2 ^ j) * IZR (a / 2 ^ j) + IZR (a mod 2 ^ j)).
    { rewrite <- mult_IZR, <- plus_IZR. f_equal. exact Hdm. }
    rewrite Ea'.
    replace ((IZR (2 ^ j) * IZR (a / 2 ^ j) + IZR (a mod 2 ^ j)) * bpow radix2 (- j))
      with (IZR (a / 2 ^ j) * (IZR (2 ^ j) * bpow radix2 (- j)) + IZR (a mod 2 ^ j) * bpow radix2 (- j)) by ring.
    rewrite Bj. ring. }
  pose proof (Z.mod_pos_bound a (2 ^ j) Pj) as Hmod.
  assert (Hle : (a mod 2 ^ j <= a)%Z) by (apply Z.mod_le; lia).
  rewrite <- Er in Hr, Fr.
  destruct (add_dyadic_exact (value c1) (ratio c1) j (a mod 2 ^ j) b F1 Fr Hj D1 Hr) as (Fa & Eadd & Da).
  { rewrite Z.abs_eq by lia. lia. }
  unfold next. rewrite Ea.
  eexists. eexists. split; [reflexivity|]. cbn [value src ratio].
  change (add NF (value c1) (ratio c1)) with (F64.add (value c1) (ratio c1)).
  split; [exact Fa|]. split; [rewrite Eadd, E1, Er; reflexivity|]. split; [exact Da|]. split; [|exact Er].
  pose proof (pull_n_pulls (Z.to_nat (Zfloor (B2R (value c)))) (src c) (itp c)) as P.
  rewrite <- Ep in P. exact P.
Qed.
End Next.
