(* C20 — the iteration drivers of Signal/Window.v ([w_drain], [w_after], [w_nth], [w_last], [w_count],
   [windowed_take]) re-built on the GENERATED methods (gen/WindowGen.v).  What is hand-written here is only what
   the CALLER does with an iterator: calling `next` until it returns None (at most [fuel] times), and the default
   definitions of the provided methods nth / last / count of core::iter in terms of repeated `next`.
   An item of the generated Windower is the whole `Windowed { signal, window }` value, not just the slice.
   No proofs here. *)
Require Import List Arith Bool.
From Dasp Require Import Base.Res Signal.Window Signal.WindowPrim.
From DaspGen Require Import WindowGen.
Import ListNotations.

Section Glue.
Variable N : arith.
Variable wfun : T N -> T N.
Variables Smp FS WS : Type.
Variable conv : T N -> FS.
Variable back : FS -> WS.
Variable smul : Smp -> FS -> Smp.
Variable equilibrium : Smp.
Variable nch : nat.
Notation W := (windower (list Smp)).
Notation item := (windowed N Smp).

(* ---- Windower ---- *)

(* `for x in windower { .. }` / collect: next until None, at most [fuel] calls *)
Fixpoint gen_drain (fuel : nat) (w : W) : res (list item * W) :=
  match fuel with
  | 0 => Ok ([], w)
  | S f =>
    let* (w', o) := Windower_next N Smp w in
    match o with
    | None => Ok ([], w')
    | Some x => let* (xs, w'') := gen_drain f w' in Ok (x :: xs, w'')
    end
  end.

(* the state after j calls of next (None when the iterator ended before) *)
Fixpoint gen_after (j : nat) (w : W) : res (option W) :=
  match j with
  | 0 => Ok (Some w)
  | S k =>
    let* (w', o) := Windower_next N Smp w in
    match o with None => Ok None | Some _ => gen_after k w' end
  end.

(* Iterator::nth(k) = advance_by(k) (k calls of next, stopping at the first None), then next *)
Fixpoint gen_nth (k : nat) (w : W) : res (option item * W) :=
  match k with
  | 0 => let* (w', o) := Windower_next N Smp w in Ok (o, w')
  | S k' =>
    let* (w', o) := Windower_next N Smp w in
    match o with None => Ok (None, w') | Some _ => gen_nth k' w' end
  end.

(* Iterator::last = fold(None, |_, x| Some(x));  Iterator::count = fold(0, |n, _| n + 1) *)
Definition gen_last (fuel : nat) (w : W) : res (option item * W) :=
  let* (xs, w') := gen_drain fuel w in Ok (last (map Some xs) None, w').
Definition gen_count (fuel : nat) (w : W) : res (nat * W) :=
  let* (xs, w') := gen_drain fuel w in Ok (length xs, w').

(* ---- Windowed: `windowed.take(m)` collected (next until None, at most m calls) ---- *)
Fixpoint gen_windowed_take (m : nat) (x : item) : res (list (list Smp)) :=
  match m with
  | 0 => Ok []
  | S k =>
    let* (x', o) := Windowed_next N wfun Smp FS conv smul equilibrium nch x in
    match o with
    | None => Ok []
    | Some fr => let* r := gen_windowed_take k x' in Ok (fr :: r)
    end
  end.

(* ---- Window: `Window::<F, W>::new(n).take(m)` collected ---- *)
Fixpoint gen_window_run (m : nat) (p : phase N) : res (list (list WS)) :=
  match m with
  | 0 => Ok []
  | S k =>
    let* (p', o) := Window_next N wfun FS WS conv back nch p in
    match o with
    | None => Ok []
    | Some fr => let* r := gen_window_run k p' in Ok (fr :: r)
    end
  end.
Definition gen_window_take (n m : nat) : res (list (list WS)) :=
  let* p := Window_new N n in gen_window_run m p.

End Glue.
