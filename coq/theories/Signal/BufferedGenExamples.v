(* Non-vacuity for the theorems about the GENERATED Buffered model: the wrapped example state of
   Signal/BufferedExamples.v run through the interpreter over the regenerated methods. *)
Require Import List Arith Lia Bool.
From Dasp Require Import Base.Res Base.ListX Ring.Bounded Ring.BoundedSpec Ring.BoundedProofs Signal.SigGenPrim
  Signal.Buffered Signal.BufferedSpec Signal.BufferedProofs Signal.BufferedExamples Signal.BufferedGenGlue
  Signal.BufferedGenEquiv.
From DaspGen Require Import RingGen BufferedGen.
Import ListNotations.

Definition ex_g : buffered_g (source nat) nat := to_g ex_u.

Example ex_g_inv : 2 <= 2 /\ Inv (bg_ring_buffer ex_g).
Proof. split; [lia|exact ex_inv]. Qed.

(* the same observations as [ex_run], computed by the regenerated methods *)
Example ex_gen_run :
  exists g', gen_run (src_next 0) (@src_exhausted nat) 2 ex_g ex_ops =
    Ok (g', [OExh false; OFrames [30]; ONext 10; OFrames [1; 2]; ONext 3; OHint 0 None; ONext 4;
             OFrames [0; 0]; OExh true; ONext 0; OFrames [0; 0]; OExh true])
    /\ pulls (bg_signal g') = 9 /\ ipulls (bg_signal g') = 5.
Proof. eexists. vm_compute. repeat split. Qed.

Example ex_gen_refines_instance :
  exists g' vs, gen_run (src_next 0) (@src_exhausted nat) 2 ex_g ex_ops = Ok (g', vs) /\
                spec_run 0 3 (abs_u ex_u) ex_ops = (abs_u (of_g g'), vs).
Proof.
  destruct (gen_run_refines 0 2 ex_ops ex_g (le_n 2) ex_inv) as [g' [vs [H1 [_ [_ H2]]]]]. eauto.
Qed.

(* the generated loop of next reports "still running" with fuel 1 on an empty buffer, as the hand model does *)
Example ex_gen_fuel_needed :
  Buffered_next (src_next 0) 1 (to_g (mk_buffered (from_iter [1]) {| start := 0; len := 0; data := [7] |})) = out_of_fuel.
Proof. reflexivity. Qed.
